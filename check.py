#!/usr/bin/env python3
"""Entry point: ./check.py <ID> [--tier quick|thorough] [--replay <path>]
Exit 0 = property held on everything explored; exit 1 + `VIOLATION property=<id> replay=<path>`."""
import argparse
import importlib
import os
import sys
import traceback

sys.path.insert(0, os.path.dirname(os.path.abspath(__file__)))


def main():
    ap = argparse.ArgumentParser()
    ap.add_argument("pid")
    ap.add_argument("--tier", default=os.environ.get("VERIF_TIER", "quick"))
    ap.add_argument("--replay", default=None)
    a = ap.parse_args()
    seed = int(os.environ.get("VERIF_SEED", "1"))
    from gen import lib
    mod = importlib.import_module("gen." + a.pid.lower())
    try:
        if a.replay:
            os.environ["VERIF_REPLAY"] = os.path.abspath(a.replay)
        rc = mod.main(a.tier, seed)
    except lib.BuildError as e:
        path = lib.write_replay(a.pid, "build-" + e.stage,
                                {"property": a.pid, "kind": "build-failed", "stage": e.stage, "log": e.log[-4000:]})
        print(e.log[-2000:])
        print("VIOLATION property=%s replay=%s no-failing-input-found" % (a.pid, path))
        lib.write_evidence(a.pid, a.tier, seed, "proof",
                           {"evaluations": 1, "distinct_nontrivial": 0, "explanation": "build failed: " + e.stage},
                           [], 0.0, 1)
        rc = 1
    sys.exit(rc)


if __name__ == "__main__":
    main()
