(* Base.v — base types of the model: times, durations, distances, ids, result type.
   Mirrors rapid_time (DateTime, Duration) and model/src/base_types{.rs,/distance.rs,/location.rs}.
   Definitions only; lemmas are in BaseFacts.v. *)
From Coq Require Export List ZArith Bool Lia.
Export ListNotations.
Open Scope Z_scope.

(** * Result type: Ok / Err (the code returns Err(String)) / Panic (unwrap, assert, index,
      unsigned underflow in a debug build) / OutOfFuel (a fuelled loop ran out). *)
Inductive res (A : Type) : Type :=
| Ok (a : A) | Err | Panic | OutOfFuel.
Arguments Ok {A} a. Arguments Err {A}. Arguments Panic {A}. Arguments OutOfFuel {A}.

Definition bind {A B} (r : res A) (f : A -> res B) : res B :=
  match r with Ok a => f a | Err => Err | Panic => Panic | OutOfFuel => OutOfFuel end.
Notation "'do' x <- r ; k" := (bind r (fun x => k))
  (at level 200, x pattern, r at level 100, k at level 200, right associativity).

Definition unwrap_opt {A} (o : option A) : res A :=
  match o with Some a => Ok a | None => Panic end.
Definition ok_or_err {A} (o : option A) : res A :=
  match o with Some a => Ok a | None => Err end.
Definition is_ok {A} (r : res A) : bool := match r with Ok _ => true | _ => false end.

(** * DateTime: Earliest < Point _ < Latest (derived Ord of the Rust enum). *)
Inductive datetime := Earliest | Point (s : Z) | Latest.

Definition dt_cmp (a b : datetime) : comparison :=
  match a, b with
  | Earliest, Earliest => Eq | Earliest, _ => Lt
  | Point _, Earliest => Gt | Point x, Point y => Z.compare x y | Point _, Latest => Lt
  | Latest, Latest => Eq | Latest, _ => Gt
  end.
Definition dt_leb a b := match dt_cmp a b with Gt => false | _ => true end.
Definition dt_ltb a b := match dt_cmp a b with Lt => true | _ => false end.
Definition dt_eqb a b := match dt_cmp a b with Eq => true | _ => false end.
Definition dt_min a b := if dt_leb a b then a else b.
Definition dt_max a b := if dt_leb a b then b else a.

(** * Duration: Length _ < Infinity. *)
Inductive duration := Len (n : Z) | DurInf.
Definition dur_leb a b :=
  match a, b with
  | Len x, Len y => x <=? y | Len _, DurInf => true | DurInf, DurInf => true | DurInf, Len _ => false
  end.
Definition dur_add a b :=
  match a, b with Len x, Len y => Len (x + y) | _, _ => DurInf end.
(* Duration - Duration: asserts self >= other; Inf - x = Inf (also Inf - Inf). *)
Definition dur_sub a b : res duration :=
  if dur_leb b a then
    match a, b with
    | DurInf, _ => Ok DurInf
    | Len x, Len y => Ok (Len (x - y))
    | Len _, DurInf => Panic
    end
  else Panic.
Definition dur_sec_or (d : duration) (dflt : Z) : Z := match d with Len n => n | DurInf => dflt end.

(* DateTime + Duration *)
Definition dt_add (t : datetime) (d : duration) : datetime :=
  match d with
  | DurInf => Latest
  | Len l => match t with Earliest => Earliest | Point s => Point (s + l) | Latest => Latest end
  end.
(* DateTime - Duration *)
Definition dt_sub_dur (t : datetime) (d : duration) : res datetime :=
  match t with
  | Earliest => Ok Earliest
  | Latest => match d with DurInf => Panic | _ => Ok Latest end
  | Point s => match d with DurInf => Ok Earliest | Len l => Ok (Point (s - l)) end
  end.
(* DateTime - DateTime: asserts other <= self *)
Definition dt_diff (a b : datetime) : res duration :=
  if dt_leb b a then
    match a with
    | Earliest => Ok (Len 0)
    | Latest => match b with Latest => Ok (Len 0) | _ => Ok DurInf end
    | Point x => match b with Earliest => Ok DurInf | Point y => Ok (Len (x - y)) | Latest => Panic end
    end
  else Panic.

(** * Distance: Distance _ < Infinity. *)
Inductive dist := Dist (m : Z) | DistInf.
Definition INF_DISTANCE : Z := 10000000.
Definition MAX_DISTANCE : Z := 1000000.
Definition dist_add a b := match a, b with Dist x, Dist y => Dist (x + y) | _, _ => DistInf end.
Definition dist_sub a b : res dist :=
  match a with
  | DistInf => Ok DistInf
  | Dist x => match b with DistInf => Panic | Dist y => if y <=? x then Ok (Dist (x - y)) else Panic end
  end.
Definition dist_leb a b :=
  match a, b with
  | Dist x, Dist y => x <=? y | Dist _, DistInf => true | DistInf, DistInf => true | DistInf, Dist _ => false
  end.
Definition dist_eqb a b :=
  match a, b with Dist x, Dist y => x =? y | DistInf, DistInf => true | _, _ => false end.
Definition dist_m_or (d : dist) (dflt : Z) : Z := match d with Dist m => m | DistInf => dflt end.
Definition dist_sum (l : list dist) : dist := fold_left dist_add l (Dist 0).
Definition dur_sum (l : list duration) : duration := fold_left dur_add l (Len 0).
Definition z_sum (l : list Z) : Z := fold_left Z.add l 0.

(** * Identifiers *)
Inductive loc := Station (l : Z) | Nowhere.
Definition loc_eqb a b :=
  match a, b with Station x, Station y => x =? y | Nowhere, Nowhere => true | _, _ => false end.

(* NodeIdx: derived Ord = variant order, then index *)
Inductive node_id := SD (i : Z) | SV (i : Z) | MT (i : Z) | ED (i : Z).
Definition nid_rank (n : node_id) : Z := match n with SD _ => 0 | SV _ => 1 | MT _ => 2 | ED _ => 3 end.
Definition nid_idx (n : node_id) : Z := match n with SD i | SV i | MT i | ED i => i end.
Definition nid_cmp (a b : node_id) : comparison :=
  match Z.compare (nid_rank a) (nid_rank b) with Eq => Z.compare (nid_idx a) (nid_idx b) | c => c end.
Definition nid_eqb a b := match nid_cmp a b with Eq => true | _ => false end.

(* VehicleIdx: Vehicle _ < Dummy _ *)
Inductive vehicle_id := Veh (i : Z) | Dummy (i : Z).
Definition vid_rank v := match v with Veh _ => 0 | Dummy _ => 1 end.
Definition vid_idx v := match v with Veh i | Dummy i => i end.
Definition vid_cmp a b :=
  match Z.compare (vid_rank a) (vid_rank b) with Eq => Z.compare (vid_idx a) (vid_idx b) | c => c end.
Definition vid_eqb a b := match vid_cmp a b with Eq => true | _ => false end.
Definition vid_ltb a b := match vid_cmp a b with Lt => true | _ => false end.
Definition vid_is_real v := match v with Veh _ => true | Dummy _ => false end.

Definition cmp_then (c1 c2 : comparison) : comparison := match c1 with Eq => c2 | c => c end.

(** * Small list helpers used throughout the model *)
Fixpoint assoc {A B} (eqb : A -> A -> bool) (k : A) (l : list (A * B)) : option B :=
  match l with [] => None | (k', v) :: r => if eqb k k' then Some v else assoc eqb k r end.

Fixpoint index_of {A} (p : A -> bool) (l : list A) : option nat :=
  match l with
  | [] => None
  | x :: r => if p x then Some O else match index_of p r with Some i => Some (S i) | None => None end
  end.

(* stable insertion: x goes after every element y with (le y x) *)
Fixpoint insert_by {A} (le : A -> A -> bool) (x : A) (l : list A) : list A :=
  match l with
  | [] => [x]
  | y :: r => if le y x then y :: insert_by le x r else x :: l
  end.
Definition sort_by {A} (le : A -> A -> bool) (l : list A) : list A :=
  fold_left (fun acc x => insert_by le x acc) l [].

Definition le_of_cmp {A} (cmp : A -> A -> comparison) (a b : A) : bool :=
  match cmp a b with Gt => false | _ => true end.

Fixpoint windows {A} (l : list A) : list (A * A) :=
  match l with
  | a :: ((b :: _) as r) => (a, b) :: windows r
  | _ => []
  end.

Definition slice {A} (i j : nat) (l : list A) : list A := firstn (j - i) (skipn i l).
Definition omin (a b : option Z) : option Z :=
  match a, b with
  | Some x, Some y => Some (Z.min x y) | Some x, None => Some x | None, Some y => Some y | None, None => None
  end.
Definition div_ceil (a b : Z) : Z := (a + b - 1) / b.
