(* BaseFacts.v — lemmas about Base.v: orders, insertion sort, list helpers. *)
From Coq Require Import Permutation.
From RS Require Import Base.

Lemma dt_cmp_refl a : dt_cmp a a = Eq.
Proof. destruct a; simpl; auto using Z.compare_refl. Qed.

Lemma dt_cmp_eq a b : dt_cmp a b = Eq -> a = b.
Proof. destruct a, b; simpl; try discriminate; auto. intros H; apply Z.compare_eq in H; congruence. Qed.

Lemma dt_cmp_antisym a b : dt_cmp b a = CompOpp (dt_cmp a b).
Proof. destruct a, b; simpl; auto using Z.compare_antisym. Qed.

Lemma dt_leb_refl a : dt_leb a a = true.
Proof. unfold dt_leb; now rewrite dt_cmp_refl. Qed.

Lemma dt_leb_trans a b c : dt_leb a b = true -> dt_leb b c = true -> dt_leb a c = true.
Proof.
  unfold dt_leb; destruct a, b, c; simpl; auto; try discriminate.
  destruct (Z.compare_spec s s0), (Z.compare_spec s0 s1), (Z.compare_spec s s1); auto; try discriminate; lia.
Qed.

Lemma dt_leb_total a b : dt_leb a b = true \/ dt_leb b a = true.
Proof.
  unfold dt_leb; destruct a, b; simpl; auto.
  destruct (Z.compare_spec s s0), (Z.compare_spec s0 s); auto; lia.
Qed.

Lemma dt_leb_point x y : dt_leb (Point x) (Point y) = true <-> x <= y.
Proof. unfold dt_leb; simpl. destruct (Z.compare_spec x y); split; intros; try lia; auto; discriminate. Qed.

Lemma dt_leb_point_b x y : dt_leb (Point x) (Point y) = (x <=? y).
Proof. unfold dt_leb; simpl. destruct (Z.compare_spec x y), (Z.leb_spec x y); auto; lia. Qed.

Lemma dt_ltb_point x y : dt_ltb (Point x) (Point y) = true <-> x < y.
Proof. unfold dt_ltb; simpl. destruct (Z.compare_spec x y); split; intros; try lia; auto; discriminate. Qed.

Lemma dt_ltb_leb a b : dt_ltb a b = negb (dt_leb b a).
Proof. unfold dt_ltb, dt_leb. rewrite (dt_cmp_antisym a b). destruct (dt_cmp a b); auto. Qed.

Lemma nid_cmp_refl a : nid_cmp a a = Eq.
Proof. unfold nid_cmp. now rewrite !Z.compare_refl. Qed.

Lemma nid_cmp_eq a b : nid_cmp a b = Eq -> a = b.
Proof.
  unfold nid_cmp. destruct a, b; simpl; try discriminate; intros H; apply Z.compare_eq in H; congruence.
Qed.

Lemma nid_eqb_eq a b : nid_eqb a b = true <-> a = b.
Proof.
  unfold nid_eqb; split.
  - destruct (nid_cmp a b) eqn:E; try discriminate. intros _; now apply nid_cmp_eq.
  - intros ->; now rewrite nid_cmp_refl.
Qed.

Lemma nid_eqb_refl a : nid_eqb a a = true.
Proof. now apply nid_eqb_eq. Qed.

Lemma nid_eq_dec (a b : node_id) : {a = b} + {a <> b}.
Proof. decide equality; apply Z.eq_dec. Qed.

Lemma nid_cmp_smallest_not_lt a : nid_cmp a (SD 0) = Lt -> nid_idx a < 0 /\ nid_rank a = 0.
Proof.
  unfold nid_cmp; destruct a; simpl; try discriminate.
  destruct (Z.compare_spec i 0); try discriminate; auto.
Qed.

Lemma vid_cmp_refl a : vid_cmp a a = Eq.
Proof. unfold vid_cmp. now rewrite !Z.compare_refl. Qed.
Lemma vid_cmp_eq a b : vid_cmp a b = Eq -> a = b.
Proof.
  unfold vid_cmp. destruct a, b; simpl; try discriminate; intros H; apply Z.compare_eq in H; congruence.
Qed.
Lemma vid_eqb_eq a b : vid_eqb a b = true <-> a = b.
Proof.
  unfold vid_eqb; split.
  - destruct (vid_cmp a b) eqn:E; try discriminate. intros _; now apply vid_cmp_eq.
  - intros ->; now rewrite vid_cmp_refl.
Qed.
Lemma vid_eqb_refl a : vid_eqb a a = true.
Proof. now apply vid_eqb_eq. Qed.
Lemma vid_eqb_neq a b : vid_eqb a b = false <-> a <> b.
Proof.
  split; intros H.
  - intros E; apply vid_eqb_eq in E; congruence.
  - destruct (vid_eqb a b) eqn:E; auto. apply vid_eqb_eq in E; contradiction.
Qed.
Lemma vid_eq_dec (a b : vehicle_id) : {a = b} + {a <> b}.
Proof. decide equality; apply Z.eq_dec. Qed.

Lemma loc_eqb_eq a b : loc_eqb a b = true <-> a = b.
Proof.
  destruct a, b; simpl; split; try discriminate; auto; intros H.
  - apply Z.eqb_eq in H; congruence.
  - inversion H; apply Z.eqb_refl.
Qed.

(** insertion / sorting *)
Lemma insert_by_in {A} (le : A -> A -> bool) x y l : In x (insert_by le y l) <-> x = y \/ In x l.
Proof.
  induction l as [|z l IH]; simpl.
  - intuition.
  - destruct (le z y); simpl; rewrite ?IH; intuition.
Qed.

Lemma insert_by_length {A} (le : A -> A -> bool) y l : length (insert_by le y l) = S (length l).
Proof. induction l as [|z l IH]; simpl; auto. destruct (le z y); simpl; auto. Qed.

Lemma fold_insert_in {A} (le : A -> A -> bool) (l acc : list A) x :
  In x (fold_left (fun acc y => insert_by le y acc) l acc) <-> In x l \/ In x acc.
Proof.
  revert acc; induction l as [|y l IH]; simpl; intros acc.
  - intuition.
  - rewrite IH, insert_by_in. intuition.
Qed.

Lemma sort_by_in {A} (le : A -> A -> bool) l x : In x (sort_by le l) <-> In x l.
Proof. unfold sort_by. rewrite fold_insert_in. simpl. intuition. Qed.

Lemma fold_insert_length {A} (le : A -> A -> bool) (l acc : list A) :
  length (fold_left (fun acc y => insert_by le y acc) l acc) = (length l + length acc)%nat.
Proof.
  revert acc; induction l as [|y l IH]; simpl; intros acc; auto.
  rewrite IH, insert_by_length. lia.
Qed.

Lemma sort_by_length {A} (le : A -> A -> bool) l : length (sort_by le l) = length l.
Proof. unfold sort_by. rewrite fold_insert_length. simpl. lia. Qed.

Lemma insert_by_perm {A} (le : A -> A -> bool) y l : Permutation (insert_by le y l) (y :: l).
Proof.
  induction l as [|z l IH]; simpl; auto.
  destruct (le z y); auto.
  rewrite IH. apply perm_swap.
Qed.

Lemma fold_insert_perm {A} (le : A -> A -> bool) (l acc : list A) :
  Permutation (fold_left (fun acc y => insert_by le y acc) l acc) (l ++ acc).
Proof.
  revert acc; induction l as [|y l IH]; simpl; intros acc; auto.
  rewrite IH, insert_by_perm. symmetry. apply Permutation_middle.
Qed.

Lemma sort_by_perm {A} (le : A -> A -> bool) l : Permutation (sort_by le l) l.
Proof. unfold sort_by. rewrite fold_insert_perm. now rewrite app_nil_r. Qed.

Lemma sort_by_nodup {A} (le : A -> A -> bool) l : NoDup l -> NoDup (sort_by le l).
Proof. intros H. eapply Permutation_NoDup; [symmetry; apply sort_by_perm | exact H]. Qed.

Lemma assoc_in {A B} (eqb : A -> A -> bool) (Heq : forall a b, eqb a b = true <-> a = b) k (l : list (A * B)) v :
  assoc eqb k l = Some v -> In (k, v) l.
Proof.
  induction l as [|[k' v'] l IH]; simpl; try discriminate.
  destruct (eqb k k') eqn:E.
  - intros H; inversion H; subst. apply Heq in E; subst; auto.
  - auto.
Qed.

Lemma z_sum_app l1 l2 : z_sum (l1 ++ l2) = z_sum l1 + z_sum l2.
Proof.
  unfold z_sum. rewrite fold_left_app.
  assert (G : forall l a, fold_left Z.add l a = a + fold_left Z.add l 0).
  { induction l as [|x l IH]; simpl; intros a; [lia|]. rewrite IH, (IH x). lia. }
  rewrite G. lia.
Qed.

Lemma z_sum_cons x l : z_sum (x :: l) = x + z_sum l.
Proof. change (x :: l) with ([x] ++ l). rewrite z_sum_app. unfold z_sum at 1; simpl. lia. Qed.
