(* C04Facts.v — proofs of the statements in C04Stmts.v: the cached objective figures of an exact snapshot
   equal the independent evaluation of the JSON that renders it. *)
From Coq Require Import Permutation.
From RS Require Import Base BaseFacts Network NetSpec Tour SchedObs Output C04Stmts.

(** * generic helpers *)
Lemma c04_if_nil (b : bool) (c : Z) : (if b then [] else [c]) = [] -> b = true.
Proof. destruct b; [reflexivity | discriminate]. Qed.

Lemma map_corr {A B C D} (fa : A -> C) (fb : B -> C) (ga : A -> D) (gb : B -> D) la lb :
  map fa la = map fb lb ->
  (forall a b, In a la -> In b lb -> fa a = fb b -> ga a = gb b) ->
  map ga la = map gb lb.
Proof.
  revert lb. induction la as [|a la IH]; intros [|b lb]; cbn [map]; try discriminate; [reflexivity|].
  intros E H. inversion E as [[E1 E2]]. f_equal.
  - apply H; [left; reflexivity | left; reflexivity | exact E1].
  - apply IH; [exact E2|]. intros a' b' Ha Hb. apply H; right; assumption.
Qed.

Lemma z_sum_perm l l' : Permutation l l' -> z_sum l = z_sum l'.
Proof. induction 1; rewrite ?z_sum_cons; lia. Qed.

Lemma dist_eqb_eq a b : dist_eqb a b = true -> a = b.
Proof.
  destruct a, b; cbn [dist_eqb]; try discriminate; [|reflexivity].
  intros H. apply Z.eqb_eq in H. congruence.
Qed.

(** * the clauses of check_exact that C04 uses *)
Lemma exact_parts nw fin : check_exact nw fin = [] ->
  forallb (fun '(_, _, t) => tour_exact_b nw t) (so_vehicles fin) = true /\
  so_costs fin = sched_costs_ref nw fin /\
  (fst (so_unserved fin) = fst (unserved_ref nw fin) /\ snd (so_unserved fin) = snd (unserved_ref nw fin)) /\
  forallb (trans_exact_b nw fin) (so_trans fin) = true /\
  so_viol fin = z_sum (map (fun '(_, (v, _, _)) => v) (so_trans fin)) /\
  so_nveh fin = Z.of_nat (length (so_vehicles fin)).
Proof.
  unfold check_exact. intros H.
  apply app_eq_nil in H. destruct H as [K1 H].
  apply app_eq_nil in H. destruct H as [K2 H].
  apply app_eq_nil in H. destruct H as [K3 H].
  apply app_eq_nil in H. destruct H as [K4 H].
  apply app_eq_nil in H. destruct H as [K5 H].
  apply app_eq_nil in H. destruct H as [K6 H].
  apply app_eq_nil in H. destruct H as [K7 H].
  apply app_eq_nil in H. destruct H as [K8 K9].
  apply c04_if_nil in K1, K3, K4, K5, K6, K9.
  apply andb_true_iff in K4. destruct K4 as [K4a K4b].
  apply andb_true_iff in K9. destruct K9 as [K9a _].
  apply Z.eqb_eq in K3, K4a, K4b, K6, K9a.
  repeat split; assumption.
Qed.

Lemma tour_exact_fields nw t : tour_exact_b nw t = true ->
  t_vm t = compute_vm nw (t_nodes t) /\ t_sdist t = compute_sdist nw (t_nodes t) /\
  t_ddist t = compute_ddist nw (t_nodes t) /\ t_costs t = compute_costs nw (t_nodes t).
Proof.
  unfold tour_exact_b. cbv zeta. cbn [new_computing t_vm t_useful t_sdist t_ddist t_costs].
  rewrite !andb_true_iff. intros [[[[H1 _] H3] H4] H5].
  apply eqb_prop in H1. apply dist_eqb_eq in H3, H4. apply Z.eqb_eq in H5. auto.
Qed.

(** * corresponding lookups *)
Section Corr.
Variable nw : network.
Variable fin : sobs.
Variable out : outp.
Hypothesis R : renders nw fin out.
Hypothesis X : check_exact nw fin = [].

Lemma find_corr_gen (SV : list (vehicle_id * Z * tour)) (OV : list oveh) x :
  map (fun '(v, ty, t) => (v, ty, t_nodes t)) SV = map (fun v => (ov_id v, ov_type v, itinerary nw v)) OV ->
  match find (fun '(v', _, _) => vid_eqb x v') SV, find (fun v => vid_eqb x (ov_id v)) OV with
  | Some (v, ty, t), Some ov => ty = ov_type ov /\ t_nodes t = itinerary nw ov /\ In (v, ty, t) SV
  | None, None => True
  | _, _ => False
  end.
Proof.
  revert OV. induction SV as [|[[v ty] t] SV IH]; intros [|ov OV]; cbn [map]; try discriminate.
  - intros _. exact I.
  - intros E. inversion E as [[E1 E2 E3 E4]]. cbn [find]. rewrite <- E1.
    destruct (vid_eqb x v).
    + split; [reflexivity|]. split; [exact E3|]. left. reflexivity.
    + specialize (IH OV E4).
      destruct (find (fun '(v', _, _) => vid_eqb x v') SV) as [[[v1 ty1] t1]|];
        destruct (find (fun v0 => vid_eqb x (ov_id v0)) OV) as [ov1|]; try exact IH.
      destruct IH as (A & B & C). split; [exact A|]. split; [exact B|]. right. exact C.
Qed.

Lemma find_corr x :
  match find (fun '(v', _, _) => vid_eqb x v') (so_vehicles fin), veh_by_id out x with
  | Some (v, ty, t), Some ov => ty = ov_type ov /\ t_nodes t = itinerary nw ov /\ In (v, ty, t) (so_vehicles fin)
  | None, None => True
  | _, _ => False
  end.
Proof. unfold veh_by_id. apply find_corr_gen. apply R. Qed.

Lemma entry_exact v ty t : In (v, ty, t) (so_vehicles fin) -> tour_exact_b nw t = true.
Proof.
  intros Hin. destruct (exact_parts nw fin X) as (K1 & _). rewrite forallb_forall in K1.
  apply (K1 _ Hin).
Qed.

Lemma itinerary_first v : nth 0 (itinerary nw v) (SD 0) = get_start_depot_node nw (ov_sdepot v).
Proof. reflexivity. Qed.

Lemma itinerary_last v :
  nth (length (itinerary nw v) - 1) (itinerary nw v) (SD 0) = get_end_depot_node nw (ov_edepot v).
Proof.
  unfold itinerary.
  set (s := get_start_depot_node nw (ov_sdepot v)). set (m := map oa_node (ov_acts v)).
  set (e := get_end_depot_node nw (ov_edepot v)).
  change (s :: m ++ [e]) with ((s :: m) ++ [e]).
  rewrite app_length. rewrite app_nth2 by (cbn [length]; lia).
  replace (length (s :: m) + length [e] - 1 - length (s :: m))%nat with 0%nat by (cbn [length]; lia).
  reflexivity.
Qed.

Lemma mc_corr x : mc_of nw fin x = omc nw out x.
Proof.
  unfold mc_of, omc, tour_of_real, veh_entry. pose proof (find_corr x) as H.
  destruct (find (fun '(v', _, _) => vid_eqb x v') (so_vehicles fin)) as [[[v ty] t]|];
    destruct (veh_by_id out x) as [ov|]; try contradiction; [|reflexivity].
  destruct H as (_ & Hn & Hin).
  destruct (tour_exact_fields nw t (entry_exact _ _ _ Hin)) as (F1 & F2 & F3 & _).
  unfold maintenance_counter, total_distance, tour_of_veh.
  cbn [new_computing t_vm t_sdist t_ddist].
  rewrite F1, F2, F3, Hn. reflexivity.
Qed.

Lemma sdep_corr x : sdep_of fin x = osdep nw out x.
Proof.
  unfold sdep_of, osdep, tour_of_real, veh_entry. pose proof (find_corr x) as H.
  destruct (find (fun '(v', _, _) => vid_eqb x v') (so_vehicles fin)) as [[[v ty] t]|];
    destruct (veh_by_id out x) as [ov|]; try contradiction; [|reflexivity].
  destruct H as (_ & Hn & _).
  unfold first_node, nth_node. rewrite Hn. apply itinerary_first.
Qed.

Lemma edep_corr x : edep_of fin x = oedep nw out x.
Proof.
  unfold edep_of, oedep, tour_of_real, veh_entry. pose proof (find_corr x) as H.
  destruct (find (fun '(v', _, _) => vid_eqb x v') (so_vehicles fin)) as [[[v ty] t]|];
    destruct (veh_by_id out x) as [ov|]; try contradiction; [|reflexivity].
  destruct H as (_ & Hn & _).
  unfold last_node, nth_node, tlen. rewrite Hn. apply itinerary_last.
Qed.

Lemma cap_corr x : cap_of nw fin x = ocap nw out x.
Proof.
  unfold cap_of, ocap, type_of_real, veh_entry. pose proof (find_corr x) as H.
  destruct (find (fun '(v', _, _) => vid_eqb x v') (so_vehicles fin)) as [[[v ty] t]|];
    destruct (veh_by_id out x) as [ov|]; try contradiction; [|reflexivity].
  destruct H as (Hty & _). rewrite Hty. reflexivity.
Qed.

Lemma seats_corr x : seats_of nw fin x = oseats nw out x.
Proof.
  unfold seats_of, oseats, type_of_real, veh_entry. pose proof (find_corr x) as H.
  destruct (find (fun '(v', _, _) => vid_eqb x v') (so_vehicles fin)) as [[[v ty] t]|];
    destruct (veh_by_id out x) as [ov|]; try contradiction; [|reflexivity].
  destruct H as (Hty & _). rewrite Hty. reflexivity.
Qed.

Lemma cycle_corr l : cycle_counter_ref nw fin l = eval_cycle nw out l.
Proof.
  unfold cycle_counter_ref, eval_cycle. f_equal.
  - f_equal. apply map_ext. apply mc_corr.
  - f_equal. apply map_ext. intros [a b]. unfold transfer. rewrite edep_corr, sdep_corr. reflexivity.
Qed.
End Corr.

(** * C04 *)
Theorem C04_costs : stmt_C04_costs.
Proof.
  intros nw fin out R X. destruct (exact_parts nw fin X) as (K1 & K3 & _).
  rewrite K3. unfold sched_costs_ref, eval_costs. f_equal. f_equal.
  destruct R as (R1 & _). rewrite forallb_forall in K1.
  apply (map_corr _ _ _ _ _ _ R1).
  intros [[v ty] t] ov Hin _ E. inversion E as [[E1 E2 E3]].
  destruct (tour_exact_fields nw t (K1 _ Hin)) as (_ & _ & _ & F4).
  rewrite F4, E3. reflexivity.
Qed.
Print Assumptions C04_costs.

Theorem C04_vehicles : stmt_C04_vehicles.
Proof.
  intros nw fin out R X. destruct (exact_parts nw fin X) as (_ & _ & _ & _ & _ & K9).
  rewrite K9. destruct R as (R1 & _). f_equal.
  rewrite <- (map_length (fun '(v, ty, t) => (v, ty, t_nodes t)) (so_vehicles fin)).
  rewrite R1. apply map_length.
Qed.
Print Assumptions C04_vehicles.

Theorem C04_violation : stmt_C04_violation.
Proof.
  intros nw fin out R X. destruct (exact_parts nw fin X) as (_ & _ & _ & K5 & K6 & _).
  rewrite K6. unfold eval_violation.
  pose proof R as R'. destruct R' as (R1 & R2 & R3 & R4 & R5 & R6).
  rewrite <- R4. rewrite map_map. f_equal.
  apply map_ext_in. intros [ty [[viol cnt] cycles]] Hin.
  rewrite forallb_forall in K5. specialize (K5 _ Hin). unfold trans_exact_b in K5.
  rewrite !andb_true_iff in K5. destruct K5 as [[C1 C2] _].
  apply Z.eqb_eq in C2. rewrite C2. rewrite map_map. f_equal.
  apply map_ext_in. intros [l c] Hlc. cbn [fst].
  rewrite forallb_forall in C1. specialize (C1 _ Hlc). cbv beta iota in C1.
  apply Z.eqb_eq in C1. rewrite C1.
  rewrite (cycle_corr nw fin out R X). reflexivity.
Qed.
Print Assumptions C04_violation.

Lemma unserved_fold nw fin l acc :
  let F := fun '(a, b) n => let '(x, y) := unserved_at nw fin n in (a + x, b + y) in
  fst (fold_left F l acc) + snd (fold_left F l acc) =
  fst acc + snd acc + z_sum (map (fun n => fst (unserved_at nw fin n) + snd (unserved_at nw fin n)) l).
Proof.
  cbv zeta. revert acc. induction l as [|n l IH]; intros [a b]; cbn [fold_left map].
  - unfold z_sum. cbn [fold_left fst snd]. lia.
  - rewrite IH. rewrite z_sum_cons.
    destruct (unserved_at nw fin n) as [x y]. cbn [fst snd]. lia.
Qed.

Theorem C04_unserved : stmt_C04_unserved.
Proof.
  intros nw fin out R X. destruct (exact_parts nw fin X) as (_ & _ & (K4a & K4b) & _).
  rewrite K4a, K4b. unfold unserved_ref.
  rewrite (unserved_fold nw fin (all_service_nodes nw) (0, 0)). cbn [fst snd].
  pose proof R as R'. destruct R' as (R1 & R2 & R3 & R4 & R5 & R6).
  rewrite <- (z_sum_perm _ _ (Permutation_map _ R5)).
  unfold eval_unserved. rewrite map_map. rewrite Z.add_0_l. f_equal.
  apply map_ext_in. intros s Hs. unfold unserved_at. cbn [fst snd].
  rewrite <- (R6 s Hs).
  rewrite (map_ext _ _ (cap_corr nw fin out R)).
  rewrite (map_ext _ _ (seats_corr nw fin out R)).
  reflexivity.
Qed.
Print Assumptions C04_unserved.
