(* C04Stmts.v — the reported objective (the cached figures of the final schedule) equals the independent
   evaluation of the returned JSON, provided the snapshot is exact (C09) and the JSON renders the snapshot. *)
From Coq Require Import Permutation.
From RS Require Import Base Network NetSpec Tour SchedObs Output.

(* the JSON shows the tours, types, cycles and formations of the final schedule [fin] *)
Definition renders (nw : network) (fin : sobs) (out : outp) : Prop :=
  map (fun '(v, ty, t) => (v, ty, t_nodes t)) (so_vehicles fin) =
    map (fun v => (ov_id v, ov_type v, itinerary nw v)) (o_vehicles out) /\
  (forall v ty t, In (v, ty, t) (so_vehicles fin) -> t_dummy t = false) /\
  NoDup (map (fun '(v, _, _) => v) (so_vehicles fin)) /\
  map (fun '(ty, (_, _, cycles)) => (ty, map fst cycles)) (so_trans fin) = o_cycles out /\
  Permutation (map os_node (o_segs out)) (all_service_nodes nw) /\
  (forall s, In s (o_segs out) -> os_form s = form_of fin (os_node s)).

Definition stmt_C04_costs : Prop :=
  forall nw fin out, renders nw fin out -> check_exact nw fin = [] -> so_costs fin = eval_costs nw out.
Definition stmt_C04_vehicles : Prop :=
  forall nw fin out, renders nw fin out -> check_exact nw fin = [] -> so_nveh fin = Z.of_nat (length (o_vehicles out)).
Definition stmt_C04_violation : Prop :=
  forall nw fin out, renders nw fin out -> check_exact nw fin = [] -> so_viol fin = eval_violation nw out.
Definition stmt_C04_unserved : Prop :=
  forall nw fin out, renders nw fin out -> check_exact nw fin = [] ->
    fst (so_unserved fin) + snd (so_unserved fin) = eval_unserved nw out.
