(* Cal.v — the calendar layer under the model's linear time: rapid_time 0.1.2 (converters.rs, date_time.rs:
   DateTime::new, as_iso, TimePoint + / - / derived Ord) as the loader and the JSON writer of /repo use it.
   Until the sixth session the conversion "ISO string <-> seconds" was done by the Python encoder and trusted;
   it is now this file, extracted and called by the driver for every time of every instance and every answer.
   Definitions only; theorems are in CalFacts.v.

   Strings are lists of Unicode scalar values (Z).  u8 / u32 / u64 bounds are explicit where the code parses
   (str::parse fails on overflow -> expect -> Panic); the arithmetic after parsing is in Z, the one wrap the
   code can reach from a parsed time (hours as u8 in as_iso of a non-normalised time) is written out. *)
From RS Require Export Base.

(** * converters.rs *)
Definition is_leap (y : Z) : bool :=
  (y mod 4 =? 0) && (negb (y mod 100 =? 0) || (y mod 400 =? 0)).

Definition days_of_month (y m : Z) : Z :=
  if (m =? 1) || (m =? 3) || (m =? 5) || (m =? 7) || (m =? 8) || (m =? 10) || (m =? 12) then 31
  else if (m =? 4) || (m =? 6) || (m =? 9) || (m =? 11) then 30
  else if m =? 2 then (if is_leap y then 29 else 28)
  else 0.

Definition days_in_year (y : Z) : Z := if is_leap y then 366 else 365.

(* `for x in lo..lo+n { acc += f(x) }` *)
Fixpoint sum_range (f : Z -> Z) (lo : Z) (n : nat) : Z :=
  match n with O => 0 | S k => f lo + sum_range f (lo + 1) k end.

(* from_yyyy_mm_dd_to_days *)
Definition ymd_to_days (y m d : Z) : Z :=
  let q := y / 400 in
  q * 146097
  + sum_range days_in_year (q * 400) (Z.to_nat (y - q * 400))
  + sum_range (days_of_month y) 1 (Z.to_nat (m - 1))
  + d - 1.

(* from_days_to_yyyy_mm_dd: `while rem >= 146097 { rem -= 146097; year += 400 }` is quotient and remainder;
   the two other loops are fuelled (year: at most 400 rounds, month: at most 12 — CalFacts.days_to_ymd_total). *)
Fixpoint year_loop (fuel : nat) (year rem : Z) : res (Z * Z) :=
  match fuel with
  | O => OutOfFuel
  | S k => if rem >=? days_in_year year then year_loop k (year + 1) (rem - days_in_year year)
           else Ok (year, rem)
  end.
Fixpoint month_loop (fuel : nat) (year month rem : Z) : res (Z * Z) :=
  match fuel with
  | O => OutOfFuel
  | S k => if rem >=? days_of_month year month then month_loop k year (month + 1) (rem - days_of_month year month)
           else Ok (month, rem)
  end.
Definition u8_max : Z := 255.
Definition u32_max : Z := 4294967295.
Definition days_to_ymd (days : Z) : res (Z * Z * Z) :=
  let q := days / 146097 in
  do yr <- year_loop 401 (q * 400) (days mod 146097);
  let '(y, r) := yr in
  if y >? u32_max then Panic   (* year is a u32 *)
  else
  do mr <- month_loop 13 y 1 r;
  let '(m, r2) := mr in
  Ok (y, m, r2 + 1).

Definition hms_to_secs (h m s : Z) : Z := h * 3600 + m * 60 + s.
Definition secs_to_hms (s : Z) : Z * Z * Z := (s / 3600, (s mod 3600) / 60, s mod 60).

(** * TimePoint { days, seconds } with the derived (lexicographic) order *)
Record timepoint := { tp_days : Z; tp_secs : Z }.
Definition tp_lin (t : timepoint) : Z := tp_days t * 86400 + tp_secs t.
Definition tp_norm (t : timepoint) : Prop := 0 <= tp_days t /\ 0 <= tp_secs t < 86400.
Definition tp_norm_b (t : timepoint) : bool := (0 <=? tp_days t) && (0 <=? tp_secs t) && (tp_secs t <? 86400).
Definition tp_cmp (a b : timepoint) : comparison :=
  match Z.compare (tp_days a) (tp_days b) with Eq => Z.compare (tp_secs a) (tp_secs b) | c => c end.
(* TimePoint + DurationLength *)
Definition tp_add (t : timepoint) (l : Z) : timepoint :=
  let s := tp_secs t + l in {| tp_days := tp_days t + s / 86400; tp_secs := s mod 86400 |}.
(* TimePoint - DurationLength (asserts) *)
Definition tp_sub (t : timepoint) (l : Z) : res timepoint :=
  if tp_lin t >=? l then let s := tp_lin t - l in Ok {| tp_days := s / 86400; tp_secs := s mod 86400 |}
  else Panic.
(* TimePoint - TimePoint (asserts) *)
Definition tp_diff (a b : timepoint) : res Z :=
  if tp_lin a >=? tp_lin b then Ok (tp_lin a - tp_lin b) else Panic.

(* DateTime - DateTime: asserts `other <= self` in the DERIVED order first, then TimePoint::sub asserts linearly *)
Definition tp_leb (a b : timepoint) : bool := match tp_cmp a b with Gt => false | _ => true end.
Definition tp_diff_dt (a b : timepoint) : res Z := if tp_leb b a then tp_diff a b else Panic.

(** * str::parse::<uN>(): optional '+', at least one ASCII digit, no overflow *)
Definition is_digit (c : Z) : bool := (48 <=? c) && (c <=? 57).
Fixpoint digits_val (acc : Z) (l : list Z) : option Z :=
  match l with
  | [] => Some acc
  | c :: r => if is_digit c then digits_val (acc * 10 + (c - 48)) r else None
  end.
Definition parse_uint (max : Z) (l : list Z) : option Z :=
  let body := match l with 43 :: r => r | _ => l end in
  match body with
  | [] => None
  | _ => match digits_val 0 body with
         | Some v => if v <=? max then Some v else None
         | None => None
         end
  end.

(* str::split(&[..chars]) : every separator ends a piece; the last piece is always there (possibly empty) *)
Fixpoint split_on (sep : Z -> bool) (cur : list Z) (l : list Z) : list (list Z) :=
  match l with
  | [] => [rev cur]
  | c :: r => if sep c then rev cur :: split_on sep [] r else split_on sep (c :: cur) r
  end.
Definition dt_sep (c : Z) : bool := (c =? 84) || (c =? 45) || (c =? 32) || (c =? 58).   (* 'T' '-' ' ' ':' *)

(** * DateTime::new *)
Definition expect {A} (o : option A) : res A := match o with Some a => Ok a | None => Panic end.
Definition assert (b : bool) : res unit := if b then Ok tt else Panic.

Definition parse_datetime (s : list Z) : res timepoint :=
  let shortened := filter (fun c => negb (c =? 90)) s in       (* replace('Z', "") *)
  let parts := split_on dt_sep [] shortened in
  let len := length parts in
  do _ <- assert ((5 <=? Z.of_nat len) && (Z.of_nat len <=? 6));
  do year <- expect (parse_uint u32_max (nth 0 parts []));
  do month <- expect (parse_uint u8_max (nth 1 parts []));
  do _ <- assert ((1 <=? month) && (month <=? 12));
  do day <- expect (parse_uint u8_max (nth 2 parts []));
  do _ <- assert ((day <=? days_of_month year month) && (1 <=? day));
  do hour <- expect (parse_uint u8_max (nth 3 parts []));
  do _ <- assert (hour <=? 24);
  do minute <- expect (parse_uint u8_max (nth 4 parts []));
  do _ <- assert (minute <? 60);
  do second <- (if Nat.eqb len 6 then expect (parse_uint u8_max (nth 5 parts [])) else Ok 0);
  Ok {| tp_days := ymd_to_days year month day; tp_secs := hms_to_secs hour minute second |}.

(** * as_iso: format!("{:#04}-{:#02}-{:#02}T{:#02}:{:#02}:{:#02}") *)
Fixpoint digits_of (fuel : nat) (n : Z) (acc : list Z) : list Z :=
  match fuel with
  | O => acc
  | S k => let acc' := (48 + n mod 10) :: acc in if n <? 10 then acc' else digits_of k (n / 10) acc'
  end.
Definition dec (n : Z) : list Z := digits_of 40 n [].
Definition pad0 (w : nat) (l : list Z) : list Z := repeat 48 (w - length l) ++ l.
Definition as_iso (t : timepoint) : res (list Z) :=
  do ymd <- days_to_ymd (tp_days t);
  let '(y, m, d) := ymd in
  let '(h, mi, s) := secs_to_hms (tp_secs t) in
  let h8 := h mod 256 in      (* hours as u8 *)
  Ok (pad0 4 (dec y) ++ [45] ++ pad0 2 (dec m) ++ [45] ++ pad0 2 (dec d) ++ [84]
      ++ pad0 2 (dec h8) ++ [58] ++ pad0 2 (dec mi) ++ [58] ++ pad0 2 (dec s)).

(** * What the rest of the model sees: seconds relative to a base point (the harness prints `t - base`). *)
Definition rel_seconds (base : timepoint) (s : list Z) : res Z :=
  do t <- parse_datetime s; Ok (tp_lin t - tp_lin base).
(* a clock time in the strict sense: what makes the parsed point normalised *)
Definition strict_clock (s : list Z) : bool :=
  let parts := split_on dt_sep [] (filter (fun c => negb (c =? 90)) s) in
  match parse_uint u8_max (nth 3 parts []), parse_uint u8_max (nth 4 parts []) with
  | Some h, Some mi =>
      (h <? 24) && (mi <? 60) &&
      (if Nat.eqb (length parts) 6 then match parse_uint u8_max (nth 5 parts []) with Some sc => sc <? 60 | None => false end
       else true)
  | _, _ => false
  end.
