(* CalFacts.v — proofs of the statements of CalStmts.v about the calendar layer (Cal.v). *)
From RS Require Import Cal CalStmts.
From Coq Require Import ZifyBool.

Local Ltac dm_lia := Z.div_mod_to_equations; lia.

(** * TimePoint arithmetic *)

Theorem tp_add_lin : stmt_tp_add_lin.
Proof.
  intros [dy sc] l; unfold tp_lin, tp_add, tp_norm; cbn [tp_days tp_secs]; intros Hs Hl.
  split; [|intros Hd; split]; dm_lia.
Qed.

Theorem tp_sub_lin : stmt_tp_sub_lin.
Proof.
  intros [dy sc] l t' Hl; unfold tp_sub, tp_lin, tp_norm; cbn [tp_days tp_secs].
  destruct (Z.geb_spec (dy * 86400 + sc) l) as [Hge|Hlt]; [|discriminate].
  intros H; injection H as <-; cbn [tp_days tp_secs].
  split; [|split]; dm_lia.
Qed.

Theorem tp_cmp_lin : stmt_tp_cmp_lin.
Proof.
  intros [d1 s1] [d2 s2]; unfold tp_norm, tp_cmp, tp_lin; cbn [tp_days tp_secs]; intros [H1 H2] [H3 H4].
  destruct (Z.compare_spec d1 d2) as [->|Hlt|Hgt].
  - destruct (Z.compare_spec s1 s2); symmetry;
      [apply Z.compare_eq_iff | apply Z.compare_lt_iff | apply Z.compare_gt_iff]; lia.
  - symmetry; apply Z.compare_lt_iff; lia.
  - symmetry; apply Z.compare_gt_iff; lia.
Qed.

Theorem tp_cmp_lin_refuted : stmt_tp_cmp_lin_refuted.
Proof.
  exists {| tp_days := 0; tp_secs := 86400 |}, {| tp_days := 1; tp_secs := 0 |}.
  vm_compute; repeat split; discriminate.
Qed.

Theorem abs_add : stmt_abs_add.
Proof.
  intros t l Hs Hl; unfold abs_tp; cbn [dt_add]; f_equal.
  symmetry; apply tp_add_lin; assumption.
Qed.

Theorem abs_cmp : stmt_abs_cmp.
Proof.
  intros a b Ha Hb; unfold abs_tp; cbn [dt_cmp]; symmetry; apply tp_cmp_lin; assumption.
Qed.

Theorem abs_diff : stmt_abs_diff.
Proof.
  intros a b _ _; unfold abs_tp, dt_diff, dt_leb, tp_diff; cbn [dt_cmp].
  destruct (Z.geb_spec (tp_lin a) (tp_lin b)) as [Hge|Hlt];
    destruct (Z.compare_spec (tp_lin b) (tp_lin a)); try reflexivity; lia.
Qed.

(** * Sums over ranges and the subtract-while-possible loops *)

Lemma sum_range_snoc f lo n :
  sum_range f lo (S n) = sum_range f lo n + f (lo + Z.of_nat n).
Proof.
  revert lo; induction n as [|n IH]; intros lo.
  - cbn [sum_range]. replace (lo + Z.of_nat 0) with lo by lia. lia.
  - change (sum_range f lo (S (S n))) with (f lo + sum_range f (lo + 1) (S n)).
    rewrite IH; cbn [sum_range]. replace (lo + 1 + Z.of_nat n) with (lo + Z.of_nat (S n)) by lia. lia.
Qed.

Lemma sum_range_app f lo a b :
  sum_range f lo (a + b) = sum_range f lo a + sum_range f (lo + Z.of_nat a) b.
Proof.
  revert lo; induction a as [|a IH]; intros lo.
  - cbn [sum_range Nat.add]; rewrite Z.add_0_r; reflexivity.
  - cbn [sum_range Nat.add]; rewrite IH. replace (lo + 1 + Z.of_nat a) with (lo + Z.of_nat (S a)) by lia. lia.
Qed.

Lemma sum_range_nonneg f : (forall x, 0 <= f x) -> forall n lo, 0 <= sum_range f lo n.
Proof.
  intros Hf; induction n as [|n IH]; intros lo; cbn [sum_range]; [lia|].
  specialize (Hf lo); specialize (IH (lo + 1)); lia.
Qed.

Lemma sum_range_mono f : (forall x, 0 <= f x) -> forall a b lo, (a <= b)%nat ->
  sum_range f lo a <= sum_range f lo b.
Proof.
  intros Hf a b lo Hab. replace b with (a + (b - a))%nat by lia.
  rewrite sum_range_app. pose proof (sum_range_nonneg f Hf (b - a) (lo + Z.of_nat a)). lia.
Qed.

Lemma sum_range_ext f g : (forall x, f x = g x) -> forall n lo, sum_range f lo n = sum_range g lo n.
Proof. intros H; induction n as [|n IH]; intros lo; cbn [sum_range]; [reflexivity|]. rewrite H, IH; reflexivity. Qed.

(* the common shape of the year loop and of the month loop *)
Fixpoint gloop (f : Z -> Z) (fuel : nat) (x rem : Z) : res (Z * Z) :=
  match fuel with
  | O => OutOfFuel
  | S k => if rem >=? f x then gloop f k (x + 1) (rem - f x) else Ok (x, rem)
  end.

Lemma year_loop_gloop fuel : forall y rem, year_loop fuel y rem = gloop days_in_year fuel y rem.
Proof. induction fuel as [|k IH]; intros; cbn [year_loop gloop]; [reflexivity|]. rewrite IH; reflexivity. Qed.

Lemma month_loop_gloop fuel : forall y m rem, month_loop fuel y m rem = gloop (days_of_month y) fuel m rem.
Proof. induction fuel as [|k IH]; intros; cbn [month_loop gloop]; [reflexivity|]. rewrite IH; reflexivity. Qed.

Lemma gloop_spec f : (forall x, 0 <= f x) -> forall k fuel x rem,
  sum_range f x k <= rem < sum_range f x (S k) -> (k < fuel)%nat ->
  gloop f fuel x rem = Ok (x + Z.of_nat k, rem - sum_range f x k).
Proof.
  intros Hf; induction k as [|k IH]; intros fuel x rem Hr Hk.
  - destruct fuel as [|fuel]; [lia|]. cbn [sum_range] in Hr. cbn [gloop sum_range].
    destruct (Z.geb_spec rem (f x)); [lia|]. f_equal; f_equal; cbn; lia.
  - destruct fuel as [|fuel]; [lia|].
    change (sum_range f x (S (S k))) with (f x + sum_range f (x + 1) (S k)) in Hr.
    change (sum_range f x (S k)) with (f x + sum_range f (x + 1) k) in *.
    pose proof (sum_range_nonneg f Hf k (x + 1)).
    cbn [gloop]. destruct (Z.geb_spec rem (f x)); [|lia].
    rewrite IH by lia. f_equal; f_equal; lia.
Qed.

Lemma gloop_inv f : forall fuel x rem x' r, 0 <= rem -> gloop f fuel x rem = Ok (x', r) ->
  exists k, (k < fuel)%nat /\ x' = x + Z.of_nat k /\ rem = sum_range f x k + r /\ 0 <= r < f x'.
Proof.
  induction fuel as [|fuel IH]; intros x rem x' r Hr H; cbn [gloop] in H; [discriminate|].
  destruct (Z.geb_spec rem (f x)).
  - apply IH in H; [|lia]. destruct H as (k & Hk & -> & He & Hb).
    exists (S k); cbn [sum_range].
    replace (x + Z.of_nat (S k)) with (x + 1 + Z.of_nat k) by lia. repeat split; lia.
  - injection H as <- <-. exists 0%nat; cbn [sum_range]. rewrite Z.add_0_r. repeat split; lia.
Qed.

Lemma sum_range_search f : forall n x rem, 0 <= rem < sum_range f x n ->
  exists k, (k < n)%nat /\ sum_range f x k <= rem < sum_range f x (S k).
Proof.
  induction n as [|n IH]; intros x rem Hr; cbn [sum_range] in Hr; [lia|].
  destruct (Z_lt_ge_dec rem (f x)).
  - exists 0%nat; cbn [sum_range]; lia.
  - destruct (IH (x + 1) (rem - f x)) as (k & Hk & Hb); [lia|].
    exists (S k). change (sum_range f x (S (S k))) with (f x + sum_range f (x + 1) (S k)).
    change (sum_range f x (S k)) with (f x + sum_range f (x + 1) k). lia.
Qed.

(** * The calendar: leap years repeat every 400 years *)

Lemma is_leap_period q r : is_leap (q * 400 + r) = is_leap r.
Proof.
  unfold is_leap.
  replace ((q * 400 + r) mod 4) with (r mod 4) by dm_lia.
  replace ((q * 400 + r) mod 100) with (r mod 100) by dm_lia.
  replace ((q * 400 + r) mod 400) with (r mod 400) by dm_lia.
  reflexivity.
Qed.

Lemma diy_period q r : days_in_year (q * 400 + r) = days_in_year r.
Proof. unfold days_in_year; rewrite is_leap_period; reflexivity. Qed.

Lemma diy_bounds y : 365 <= days_in_year y <= 366.
Proof. unfold days_in_year; destruct (is_leap y); lia. Qed.

Lemma diy_nonneg y : 0 <= days_in_year y.
Proof. pose proof (diy_bounds y); lia. Qed.

(* C k: days in the first k years of a 400-year block *)
Definition C (k : nat) : Z := sum_range days_in_year 0 k.

Lemma cum_period q : forall k r, sum_range days_in_year (q * 400 + r) k = sum_range days_in_year r k.
Proof.
  induction k as [|k IH]; intros r; cbn [sum_range]; [reflexivity|].
  rewrite diy_period. replace (q * 400 + r + 1) with (q * 400 + (r + 1)) by lia. rewrite IH; reflexivity.
Qed.

Lemma cum_C q k : sum_range days_in_year (q * 400) k = C k.
Proof. unfold C. rewrite <- (cum_period q k 0). rewrite Z.add_0_r; reflexivity. Qed.

Lemma C_400 : C 400 = 146097.
Proof. vm_compute; reflexivity. Qed.

Lemma C_succ k : C (S k) = C k + days_in_year (Z.of_nat k).
Proof. unfold C; rewrite sum_range_snoc; reflexivity. Qed.

Lemma C_mono a b : (a <= b)%nat -> C a <= C b.
Proof. apply sum_range_mono; exact diy_nonneg. Qed.

Lemma C_nonneg k : 0 <= C k.
Proof. apply sum_range_nonneg; exact diy_nonneg. Qed.

(** months *)
Definition dom_b (b : bool) (m : Z) : Z :=
  if (m =? 1) || (m =? 3) || (m =? 5) || (m =? 7) || (m =? 8) || (m =? 10) || (m =? 12) then 31
  else if (m =? 4) || (m =? 6) || (m =? 9) || (m =? 11) then 30
  else if m =? 2 then (if b then 29 else 28)
  else 0.

Lemma dom_dom_b y m : days_of_month y m = dom_b (is_leap y) m.
Proof. reflexivity. Qed.

Lemma dom_b_bounds b m : 0 <= dom_b b m <= 31.
Proof.
  unfold dom_b.
  destruct ((m =? 1) || (m =? 3) || (m =? 5) || (m =? 7) || (m =? 8) || (m =? 10) || (m =? 12)); [lia|].
  destruct ((m =? 4) || (m =? 6) || (m =? 9) || (m =? 11)); [lia|].
  destruct (m =? 2); [destruct b|]; lia.
Qed.

Lemma dom_bounds y m : 0 <= days_of_month y m <= 31.
Proof. rewrite dom_dom_b; apply dom_b_bounds. Qed.

Lemma dom_nonneg y m : 0 <= days_of_month y m.
Proof. pose proof (dom_bounds y m); lia. Qed.

Lemma dom_pos_month y m : 0 < days_of_month y m -> 1 <= m <= 12.
Proof.
  unfold days_of_month.
  repeat (match goal with |- context [m =? ?b] => destruct (Z.eqb_spec m b) end; [lia|]).
  cbn; lia.
Qed.

Lemma months_sum y : sum_range (days_of_month y) 1 12 = days_in_year y.
Proof.
  rewrite (sum_range_ext _ _ (dom_dom_b y)). unfold days_in_year.
  destruct (is_leap y); vm_compute; reflexivity.
Qed.

(** * Day numbers *)

(* day number of January 1st *)
Definition Dy (y : Z) : Z :=
  let q := y / 400 in q * 146097 + sum_range days_in_year (q * 400) (Z.to_nat (y - q * 400)).
Definition My (y m : Z) : Z := sum_range (days_of_month y) 1 (Z.to_nat (m - 1)).

Lemma ymd_split y m d : ymd_to_days y m d = Dy y + My y m + d - 1.
Proof. reflexivity. Qed.

Lemma Dy_block q k : (k < 400)%nat -> Dy (q * 400 + Z.of_nat k) = q * 146097 + C k.
Proof.
  intros Hk; unfold Dy.
  assert (Hq : (q * 400 + Z.of_nat k) / 400 = q) by dm_lia.
  cbv zeta; rewrite Hq.
  replace (Z.to_nat (q * 400 + Z.of_nat k - q * 400)) with k by lia.
  rewrite cum_C; reflexivity.
Qed.

Lemma year_block y : 0 <= y -> exists q k, (k < 400)%nat /\ 0 <= q /\ y = q * 400 + Z.of_nat k.
Proof.
  intros Hy. exists (y / 400), (Z.to_nat (y mod 400)). split; [|split]; dm_lia.
Qed.

Lemma year_block_any y : exists q k, (k < 400)%nat /\ y = q * 400 + Z.of_nat k.
Proof. exists (y / 400), (Z.to_nat (y mod 400)). split; dm_lia. Qed.

Lemma Dy_succ y : Dy (y + 1) = Dy y + days_in_year y.
Proof.
  destruct (year_block_any y) as (q & k & Hk & ->).
  rewrite (Dy_block q k Hk).
  rewrite (diy_period q (Z.of_nat k)).
  destruct (Nat.eq_dec k 399) as [->|Hne].
  - replace (q * 400 + Z.of_nat 399 + 1) with ((q + 1) * 400 + Z.of_nat 0) by lia.
    rewrite Dy_block by lia.
    pose proof C_400 as H4. rewrite C_succ in H4. change (C 0) with 0. lia.
  - replace (q * 400 + Z.of_nat k + 1) with (q * 400 + Z.of_nat (S k)) by lia.
    rewrite Dy_block by lia. rewrite C_succ; lia.
Qed.

Lemma Dy_mono_nat n : forall y, Dy y + 365 * Z.of_nat n <= Dy (y + Z.of_nat n).
Proof.
  induction n as [|n IH]; intros y.
  - replace (y + Z.of_nat 0) with y by lia; lia.
  - replace (y + Z.of_nat (S n)) with (y + Z.of_nat n + 1) by lia.
    rewrite Dy_succ. specialize (IH y). pose proof (diy_bounds (y + Z.of_nat n)). lia.
Qed.

Lemma Dy_mono y y' : y <= y' -> Dy y <= Dy y'.
Proof.
  intros H. pose proof (Dy_mono_nat (Z.to_nat (y' - y)) y) as Hm.
  replace (y + Z.of_nat (Z.to_nat (y' - y))) with y' in Hm by lia. lia.
Qed.

Lemma Dy_nonneg y : 0 <= y -> 0 <= Dy y.
Proof. intros H. apply (Dy_mono 0 y) in H. exact H. Qed.

Lemma My_snoc y j : My y (1 + Z.of_nat (S j)) = My y (1 + Z.of_nat j) + days_of_month y (1 + Z.of_nat j).
Proof.
  unfold My. replace (Z.to_nat (1 + Z.of_nat (S j) - 1)) with (S j) by lia.
  replace (Z.to_nat (1 + Z.of_nat j - 1)) with j by lia. apply sum_range_snoc.
Qed.

Lemma My_mono y m m' : m <= m' -> My y m <= My y m'.
Proof. intros H; unfold My; apply sum_range_mono; [apply dom_nonneg | lia]. Qed.

Lemma My_nonneg y m : 0 <= My y m.
Proof. apply sum_range_nonneg, dom_nonneg. Qed.

Lemma My_13 y : My y 13 = days_in_year y.
Proof. unfold My. change (Z.to_nat (13 - 1)) with 12%nat. apply months_sum. Qed.

(* the day of the year is below the length of the year *)
Lemma My_next y m : 1 <= m -> My y (m + 1) = My y m + days_of_month y m.
Proof.
  intros Hm. unfold My. replace (Z.to_nat (m + 1 - 1)) with (S (Z.to_nat (m - 1))) by lia.
  rewrite sum_range_snoc. replace (1 + Z.of_nat (Z.to_nat (m - 1))) with m by lia. reflexivity.
Qed.

Lemma My_in_year y m : 1 <= m <= 12 -> My y m + days_of_month y m <= days_in_year y.
Proof.
  intros Hm. rewrite <- My_next by lia. rewrite <- My_13. apply My_mono; lia.
Qed.

Theorem ymd_monotone : stmt_ymd_monotone.
Proof.
  intros y m d y' m' d' (Hy & Hm & Hd) (Hy' & Hm' & Hd') Hlt.
  rewrite !ymd_split.
  destruct Hlt as [Hlt | [-> [Hlt | [-> Hlt]]]].
  - pose proof (My_in_year y m Hm). pose proof (Dy_succ y) as Hs.
    pose proof (Dy_mono (y + 1) y' ltac:(lia)). pose proof (My_nonneg y' m'). lia.
  - pose proof (My_next y' m ltac:(lia)). pose proof (My_mono y' (m + 1) m' ltac:(lia)). lia.
  - lia.
Qed.

(** * days -> date *)

Lemma days_to_ymd_block q k j r :
  (k < 400)%nat -> (j < 12)%nat ->
  forall y, y = q * 400 + Z.of_nat k ->
  y <= u32_max -> 0 <= r < days_of_month y (1 + Z.of_nat j) ->
  days_to_ymd (q * 146097 + C k + My y (1 + Z.of_nat j) + r) = Ok (y, 1 + Z.of_nat j, r + 1).
Proof.
  intros Hk Hj y Ey Hy Hr.
  pose proof (C_nonneg k) as HC0.
  pose proof (C_mono (S k) 400 ltac:(lia)) as HC1. rewrite C_400, C_succ in HC1.
  pose proof (diy_period q (Z.of_nat k)) as Hdp. rewrite <- Ey in Hdp.
  pose proof (My_nonneg y (1 + Z.of_nat j)) as HM0.
  pose proof (My_in_year y (1 + Z.of_nat j) ltac:(lia)) as HM1.
  set (rest := C k + My y (1 + Z.of_nat j) + r).
  assert (Hrest : 0 <= rest < 146097) by (unfold rest; lia).
  unfold days_to_ymd.
  replace (q * 146097 + C k + My y (1 + Z.of_nat j) + r) with (q * 146097 + rest) by (unfold rest; lia).
  assert (Hq : (q * 146097 + rest) / 146097 = q) by dm_lia.
  assert (Hm : (q * 146097 + rest) mod 146097 = rest) by dm_lia.
  cbv zeta. rewrite Hq, Hm.
  rewrite year_loop_gloop.
  rewrite (gloop_spec days_in_year diy_nonneg k); [| |lia].
  2:{ rewrite !cum_C, C_succ. unfold rest; lia. }
  cbn [bind]. rewrite <- Ey. rewrite cum_C.
  destruct (Z.gtb_spec y u32_max) as [Hgt|_]; [lia|].
  rewrite month_loop_gloop.
  rewrite (gloop_spec (days_of_month y) (dom_nonneg y) j); [| |lia].
  2:{ rewrite sum_range_snoc. unfold rest, My.
      replace (Z.to_nat (1 + Z.of_nat j - 1)) with j by lia. lia. }
  cbn [bind]. unfold rest, My. replace (Z.to_nat (1 + Z.of_nat j - 1)) with j by lia.
  f_equal; f_equal; lia.
Qed.

Theorem ymd_roundtrip : stmt_ymd_roundtrip.
Proof.
  intros y m d (Hy & Hm & Hd) Hmax.
  destruct (year_block y Hy) as (q & k & Hk & Hq & ->).
  rewrite ymd_split, Dy_block by assumption.
  replace m with (1 + Z.of_nat (Z.to_nat (m - 1))) in * by lia.
  set (j := Z.to_nat (m - 1)) in *.
  pose proof (days_to_ymd_block q k j (d - 1) Hk ltac:(lia) _ eq_refl Hmax ltac:(lia)) as H.
  replace (d - 1 + 1) with d in H by lia. rewrite <- H. f_equal; lia.
Qed.

(* everything an Ok answer of days_to_ymd says *)
Lemma days_to_ymd_inv n y m d : 0 <= n -> days_to_ymd n = Ok (y, m, d) ->
  valid_date y m d /\ ymd_to_days y m d = n /\ y <= u32_max.
Proof.
  intros Hn. unfold days_to_ymd; cbv zeta.
  set (q := n / 146097). set (rem := n mod 146097).
  assert (Hrem : 0 <= rem < 146097) by (unfold rem; dm_lia).
  assert (Hq : 0 <= q) by (unfold q; dm_lia).
  assert (Hnq : n = q * 146097 + rem) by (unfold q, rem; dm_lia).
  rewrite year_loop_gloop.
  destruct (gloop days_in_year 401 (q * 400) rem) as [[y1 r1]| | |] eqn:Hyl; cbn [bind]; try discriminate.
  apply gloop_inv in Hyl; [|lia]. destruct Hyl as (k & _ & -> & Hr1 & Hb1).
  rewrite cum_C in Hr1.
  assert (Hk : (k < 400)%nat).
  { destruct (Nat.lt_ge_cases k 400) as [?|Hge]; [assumption|].
    apply C_mono in Hge. rewrite C_400 in Hge. lia. }
  destruct (Z.gtb_spec (q * 400 + Z.of_nat k) u32_max) as [|Hmax]; [discriminate|].
  rewrite month_loop_gloop.
  destruct (gloop (days_of_month (q * 400 + Z.of_nat k)) 13 1 r1) as [[m1 r2]| | |] eqn:Hml; cbn [bind]; try discriminate.
  intros H; injection H as <- <- <-.
  set (y := q * 400 + Z.of_nat k) in *.
  apply gloop_inv in Hml; [|lia]. destruct Hml as (j & _ & -> & Hr2 & Hb2).
  assert (Hmon : 1 <= 1 + Z.of_nat j <= 12) by (apply (dom_pos_month y); lia).
  split; [|split]; [| |assumption].
  - unfold valid_date. repeat split; lia.
  - rewrite ymd_split. unfold y at 1. rewrite Dy_block by assumption.
    unfold My. replace (Z.to_nat (1 + Z.of_nat j - 1)) with j by lia. lia.
Qed.

Theorem days_roundtrip : stmt_days_roundtrip.
Proof.
  intros n y m d Hn H. destruct (days_to_ymd_inv n y m d Hn H) as (Hv & He & _). split; assumption.
Qed.

Lemma max_days_Dy : max_days = Dy (u32_max + 1).
Proof. unfold max_days. rewrite ymd_split. change (My (u32_max + 1) 1) with 0. lia. Qed.

Theorem days_to_ymd_total : stmt_days_to_ymd_total.
Proof.
  intros n [Hn Hmax]. rewrite max_days_Dy in Hmax.
  set (q := n / 146097). set (rem := n mod 146097).
  assert (Hrem : 0 <= rem < 146097) by (unfold rem; dm_lia).
  assert (Hnq : n = q * 146097 + rem) by (unfold q, rem; dm_lia).
  rewrite <- C_400 in Hrem. unfold C in Hrem.
  destruct (sum_range_search _ _ _ _ Hrem) as (k & Hk & Hkb). fold (C k) (C (S k)) in Hkb.
  rewrite C_succ in Hkb.
  set (y := q * 400 + Z.of_nat k).
  assert (Hdy : days_in_year y = days_in_year (Z.of_nat k)) by apply diy_period.
  assert (Hr1 : 0 <= rem - C k < sum_range (days_of_month y) 1 12) by (rewrite months_sum; lia).
  destruct (sum_range_search _ _ _ _ Hr1) as (j & Hj & Hjb).
  rewrite sum_range_snoc in Hjb.
  assert (Hy : y <= u32_max).
  { destruct (Z_le_gt_dec y u32_max) as [?|Hgt]; [assumption|exfalso].
    pose proof (Dy_mono (u32_max + 1) y ltac:(lia)) as Hm.
    unfold y in Hm. rewrite Dy_block in Hm by assumption. lia. }
  exists y, (1 + Z.of_nat j), (rem - C k - sum_range (days_of_month y) 1 j + 1).
  pose proof (days_to_ymd_block q k j (rem - C k - sum_range (days_of_month y) 1 j) Hk Hj y eq_refl Hy ltac:(lia)) as H.
  rewrite <- H. f_equal.
  unfold My. replace (Z.to_nat (1 + Z.of_nat j - 1)) with j by lia. lia.
Qed.

(** * DateTime::new *)

Lemma bind_ok {A B} (r : res A) (f : A -> res B) b : bind r f = Ok b -> exists a, r = Ok a /\ f a = Ok b.
Proof. destruct r; cbn [bind]; intros H; try discriminate; eauto. Qed.
Lemma expect_ok {A} (o : option A) a : expect o = Ok a -> o = Some a.
Proof. destruct o; cbn [expect]; intros H; [injection H as ->; reflexivity | discriminate]. Qed.
Lemma assert_ok b u : assert b = Ok u -> b = true.
Proof. destruct b; cbn [assert]; intros H; [reflexivity | discriminate]. Qed.

(* parse_datetime after the split *)
Definition parse_parts (parts : list (list Z)) : res timepoint :=
  let len := length parts in
  do _ <- assert ((5 <=? Z.of_nat len) && (Z.of_nat len <=? 6));
  do year <- expect (parse_uint u32_max (nth 0 parts []));
  do month <- expect (parse_uint u8_max (nth 1 parts []));
  do _ <- assert ((1 <=? month) && (month <=? 12));
  do day <- expect (parse_uint u8_max (nth 2 parts []));
  do _ <- assert ((day <=? days_of_month year month) && (1 <=? day));
  do hour <- expect (parse_uint u8_max (nth 3 parts []));
  do _ <- assert (hour <=? 24);
  do minute <- expect (parse_uint u8_max (nth 4 parts []));
  do _ <- assert (minute <? 60);
  do second <- (if Nat.eqb len 6 then expect (parse_uint u8_max (nth 5 parts [])) else Ok 0);
  Ok {| tp_days := ymd_to_days year month day; tp_secs := hms_to_secs hour minute second |}.

Definition clean (s : list Z) : list Z := filter (fun c => negb (c =? 90)) s.

Lemma parse_datetime_parts s : parse_datetime s = parse_parts (split_on dt_sep [] (clean s)).
Proof. reflexivity. Qed.

Lemma is_digit_range c : is_digit c = true -> 48 <= c <= 57.
Proof. unfold is_digit; lia. Qed.

Lemma digits_val_ge : forall l acc v, 0 <= acc -> digits_val acc l = Some v -> acc <= v.
Proof.
  induction l as [|a l IH]; intros acc v Ha H; cbn [digits_val] in H.
  - injection H as <-; lia.
  - destruct (is_digit a) eqn:E; [|discriminate]. apply is_digit_range in E.
    apply IH in H; lia.
Qed.

Lemma parse_uint_bounds max l v : parse_uint max l = Some v -> 0 <= v <= max.
Proof.
  unfold parse_uint. set (body := match l with 43 :: r => r | _ => l end).
  destruct body as [|c r]; [discriminate|].
  destruct (digits_val 0 (c :: r)) as [w|] eqn:E; [|discriminate].
  destruct (Z.leb_spec w max) as [Hle|Hgt]; [|discriminate]. intros Hv; injection Hv as <-.
  apply digits_val_ge in E; lia.
Qed.

Lemma parse_parts_inv parts t : parse_parts parts = Ok t ->
  exists year month day hour minute second,
    parse_uint u32_max (nth 0 parts []) = Some year /\
    parse_uint u8_max (nth 1 parts []) = Some month /\ 1 <= month <= 12 /\
    parse_uint u8_max (nth 2 parts []) = Some day /\ 1 <= day <= days_of_month year month /\
    parse_uint u8_max (nth 3 parts []) = Some hour /\ hour <= 24 /\
    parse_uint u8_max (nth 4 parts []) = Some minute /\ minute < 60 /\
    (if Nat.eqb (length parts) 6 then parse_uint u8_max (nth 5 parts []) = Some second else second = 0) /\
    t = {| tp_days := ymd_to_days year month day; tp_secs := hms_to_secs hour minute second |}.
Proof.
  unfold parse_parts; cbv zeta; intros H.
  apply bind_ok in H; destruct H as (? & Hlen & H); apply assert_ok in Hlen.
  apply bind_ok in H; destruct H as (year & Hy & H); apply expect_ok in Hy.
  apply bind_ok in H; destruct H as (month & Hmo & H); apply expect_ok in Hmo.
  apply bind_ok in H; destruct H as (? & Hmob & H); apply assert_ok in Hmob.
  apply bind_ok in H; destruct H as (day & Hd & H); apply expect_ok in Hd.
  apply bind_ok in H; destruct H as (? & Hdb & H); apply assert_ok in Hdb.
  apply bind_ok in H; destruct H as (hour & Hh & H); apply expect_ok in Hh.
  apply bind_ok in H; destruct H as (? & Hhb & H); apply assert_ok in Hhb.
  apply bind_ok in H; destruct H as (minute & Hmi & H); apply expect_ok in Hmi.
  apply bind_ok in H; destruct H as (? & Hmib & H); apply assert_ok in Hmib.
  apply bind_ok in H; destruct H as (second & Hs & H).
  injection H as <-.
  exists year, month, day, hour, minute, second.
  repeat split; try assumption; try lia.
  destruct (Nat.eqb (length parts) 6); [apply expect_ok in Hs; assumption | injection Hs as <-; reflexivity].
Qed.

(* a parsed date is a valid date with a u32 year; the clock fields are only bounded by the asserts *)
Lemma parse_datetime_inv s t : parse_datetime s = Ok t ->
  exists year month day hour minute second,
    valid_date year month day /\ year <= u32_max /\
    parse_uint u8_max (nth 3 (split_on dt_sep [] (clean s)) []) = Some hour /\ 0 <= hour <= 24 /\
    parse_uint u8_max (nth 4 (split_on dt_sep [] (clean s)) []) = Some minute /\ 0 <= minute < 60 /\
    (if Nat.eqb (length (split_on dt_sep [] (clean s))) 6
     then parse_uint u8_max (nth 5 (split_on dt_sep [] (clean s)) []) = Some second else second = 0) /\
    0 <= second <= u8_max /\
    t = {| tp_days := ymd_to_days year month day; tp_secs := hms_to_secs hour minute second |}.
Proof.
  rewrite parse_datetime_parts. intros H. apply parse_parts_inv in H.
  destruct H as (year & month & day & hour & minute & second &
                 Hy & Hmo & Hmob & Hd & Hdb & Hh & Hhb & Hmi & Hmib & Hsec & ->).
  exists year, month, day, hour, minute, second.
  pose proof (parse_uint_bounds _ _ _ Hy). pose proof (parse_uint_bounds _ _ _ Hh).
  pose proof (parse_uint_bounds _ _ _ Hmi).
  assert (0 <= second <= u8_max).
  { destruct (Nat.eqb (length (split_on dt_sep [] (clean s))) 6).
    - apply (parse_uint_bounds _ _ _ Hsec).
    - subst second; unfold u8_max; lia. }
  unfold valid_date. repeat split; try assumption; lia.
Qed.

Lemma ymd_nonneg y m d : 0 <= y -> 1 <= d -> 0 <= ymd_to_days y m d.
Proof.
  intros Hy Hd. rewrite ymd_split. pose proof (Dy_nonneg y Hy). pose proof (My_nonneg y m). lia.
Qed.

Lemma parse_nonneg s t : parse_datetime s = Ok t -> 0 <= tp_days t /\ 0 <= tp_secs t.
Proof.
  intros H. apply parse_datetime_inv in H.
  destruct H as (year & month & day & hour & minute & second & (Hy & Hm & Hd) & _ & _ & Hh & _ & Hmi & _ & Hs & ->).
  cbn [tp_days tp_secs]. split; [apply ymd_nonneg; lia | unfold hms_to_secs; lia].
Qed.

Theorem parse_norm : stmt_parse_norm.
Proof.
  intros s t H Hs. pose proof (parse_nonneg s t H) as [Hd Hs0].
  apply parse_datetime_inv in H.
  destruct H as (year & month & day & hour & minute & second & _ & _ & Hh & Hhb & Hmi & Hmib & Hsec & Hsb & ->).
  unfold strict_clock in Hs; cbv zeta in Hs. fold (clean s) in Hs.
  rewrite Hh, Hmi in Hs.
  apply andb_true_iff in Hs; destruct Hs as [Hs1 Hs3].
  apply andb_true_iff in Hs1; destruct Hs1 as [Hs1 Hs2].
  assert (second < 60).
  { destruct (Nat.eqb (length (split_on dt_sep [] (clean s))) 6).
    - rewrite Hsec in Hs3; lia.
    - lia. }
  split; [assumption|]. cbn [tp_secs] in *. unfold hms_to_secs in *. lia.
Qed.

Theorem parse_norm_refuted : stmt_parse_norm_refuted.
Proof.
  exists [50;48;50;51;45;48;55;45;50;52;84;50;52;58;48;48;58;48;48],
         [50;48;50;51;45;48;55;45;50;53;84;48;48;58;48;48;58;48;48].
  eexists _, _. split; [vm_compute; reflexivity|]. split; [vm_compute; reflexivity|].
  split; [vm_compute; reflexivity|]. split; [vm_compute; reflexivity|].
  intros [_ [_ H]]; vm_compute in H; discriminate.
Qed.

Theorem parse_then_add_norm : stmt_parse_then_add_norm.
Proof.
  intros s t l H Hl. destruct (parse_nonneg s t H) as [Hd Hs].
  destruct (tp_add_lin t l Hs Hl) as [Hlin Hn]. split; [apply Hn; assumption | assumption].
Qed.

(** * as_iso *)

Fixpoint p10 (k : nat) : Z := match k with O => 1 | S k => 10 * p10 k end.
Definition isd (c : Z) : Prop := is_digit c = true.

Lemma digits_of_app fuel : forall n acc, digits_of fuel n acc = digits_of fuel n [] ++ acc.
Proof.
  induction fuel as [|fuel IH]; intros n acc; cbn [digits_of]; [reflexivity|].
  destruct (n <? 10); [reflexivity|].
  rewrite (IH (n / 10) (_ :: acc)), (IH (n / 10) [_]). rewrite <- app_assoc. reflexivity.
Qed.

Lemma digits_val_snoc : forall l acc c, is_digit c = true ->
  digits_val acc (l ++ [c]) = match digits_val acc l with Some v => Some (v * 10 + (c - 48)) | None => None end.
Proof.
  induction l as [|a l IH]; intros acc c Hc; cbn [app digits_val].
  - rewrite Hc; reflexivity.
  - destruct (is_digit a); [apply IH; assumption | reflexivity].
Qed.

Lemma digit_char n : is_digit (48 + n mod 10) = true.
Proof. unfold is_digit. pose proof (Z.mod_pos_bound n 10 ltac:(lia)). lia. Qed.

Lemma digits_of_val fuel : forall n, 0 <= n < p10 fuel -> digits_val 0 (digits_of fuel n []) = Some n.
Proof.
  induction fuel as [|fuel IH]; intros n Hn; cbn [p10] in Hn; [cbn [digits_of digits_val]; f_equal; lia|].
  cbn [digits_of]. destruct (Z.ltb_spec n 10).
  - cbn [digits_val]. rewrite digit_char. f_equal. dm_lia.
  - rewrite digits_of_app, digits_val_snoc by apply digit_char.
    rewrite IH by dm_lia. f_equal; dm_lia.
Qed.

Lemma digits_of_isd fuel : forall n acc, Forall isd acc -> Forall isd (digits_of fuel n acc).
Proof.
  induction fuel as [|fuel IH]; intros n acc Ha; cbn [digits_of]; [assumption|].
  assert (Forall isd ((48 + n mod 10) :: acc)) by (constructor; [apply digit_char | assumption]).
  destruct (n <? 10); [assumption | apply IH; assumption].
Qed.

Lemma digits_of_len fuel : forall n acc, (length acc <= length (digits_of fuel n acc))%nat.
Proof.
  induction fuel as [|fuel IH]; intros n acc; cbn [digits_of]; [lia|].
  destruct (n <? 10); [cbn [length]; lia|]. specialize (IH (n / 10) ((48 + n mod 10) :: acc)).
  cbn [length] in IH; lia.
Qed.

Lemma digits_of_len_S fuel n acc : (S (length acc) <= length (digits_of (S fuel) n acc))%nat.
Proof.
  cbn [digits_of]. destruct (n <? 10); [cbn [length]; lia|].
  pose proof (digits_of_len fuel (n / 10) ((48 + n mod 10) :: acc)) as H. cbn [length] in H; lia.
Qed.

Lemma dec_nonempty n : dec n <> [].
Proof.
  unfold dec. pose proof (digits_of_len_S 39 n []) as H.
  destruct (digits_of 40 n []); [cbn [length] in H; lia | discriminate].
Qed.

Lemma dec_isd n : Forall isd (dec n).
Proof. apply digits_of_isd; constructor. Qed.

Lemma dec_val n : 0 <= n < p10 40 -> digits_val 0 (dec n) = Some n.
Proof. apply digits_of_val. Qed.

Lemma pad0_isd w l : Forall isd l -> Forall isd (pad0 w l).
Proof.
  intros H; unfold pad0; apply Forall_app; split; [|assumption].
  apply Forall_forall; intros x Hx; apply repeat_spec in Hx; subst; reflexivity.
Qed.

Lemma digits_val_zeros k l : digits_val 0 (repeat 48 k ++ l) = digits_val 0 l.
Proof. induction k as [|k IH]; cbn [repeat app digits_val]; [reflexivity|]. exact IH. Qed.

Lemma pad0_nonempty w l : l <> [] -> pad0 w l <> [].
Proof. intros H E; unfold pad0 in E; apply app_eq_nil in E; destruct E; contradiction. Qed.

Lemma strip_plus_digit c (r : list Z) :
  is_digit c = true -> match c :: r with 43 :: r' => r' | _ => c :: r end = c :: r.
Proof.
  intros H; apply is_digit_range in H.
  assert (c = 48 \/ c = 49 \/ c = 50 \/ c = 51 \/ c = 52 \/ c = 53 \/ c = 54 \/ c = 55 \/ c = 56 \/ c = 57) as E by lia.
  repeat (destruct E as [->|E]; [reflexivity|]). subst; reflexivity.
Qed.

Lemma parse_uint_digits max l v :
  Forall isd l -> l <> [] -> digits_val 0 l = Some v -> v <= max -> parse_uint max l = Some v.
Proof.
  intros Hd Hne Hv Hm. destruct l as [|c r]; [congruence|].
  unfold parse_uint; cbv zeta. inversion Hd; subst.
  rewrite strip_plus_digit by assumption. rewrite Hv.
  destruct (Z.leb_spec v max); [reflexivity | lia].
Qed.

Lemma parse_pad_dec max w n : 0 <= n <= max -> n < p10 40 -> parse_uint max (pad0 w (dec n)) = Some n.
Proof.
  intros Hn Hp. apply parse_uint_digits.
  - apply pad0_isd, dec_isd.
  - apply pad0_nonempty, dec_nonempty.
  - unfold pad0; rewrite digits_val_zeros; apply dec_val; lia.
  - lia.
Qed.

Lemma u32_p10 : u32_max < p10 40.
Proof. vm_compute; reflexivity. Qed.

(** splitting the printed string *)
Lemma isd_nosep c : isd c -> dt_sep c = false.
Proof. intros H; apply is_digit_range in H; unfold dt_sep; lia. Qed.
Lemma isd_nz c : isd c -> (c =? 90) = false.
Proof. intros H; apply is_digit_range in H; lia. Qed.

Lemma clean_id l : Forall (fun c => (c =? 90) = false) l -> clean l = l.
Proof.
  unfold clean; induction 1 as [|c l Hc Hl IH]; cbn [filter]; [reflexivity|].
  rewrite Hc; cbn [negb]; f_equal; exact IH.
Qed.

Lemma split_on_piece sep : forall l cur c rest, Forall (fun x => sep x = false) l -> sep c = true ->
  split_on sep cur (l ++ c :: rest) = (rev cur ++ l) :: split_on sep [] rest.
Proof.
  induction l as [|a l IH]; intros cur c rest Hl Hc; cbn [app split_on].
  - rewrite Hc, app_nil_r; reflexivity.
  - inversion Hl as [|? ? Ha Hl']; subst. rewrite Ha. rewrite IH by assumption.
    cbn [rev]. rewrite <- app_assoc. reflexivity.
Qed.

Lemma split_on_last sep : forall l cur, Forall (fun x => sep x = false) l ->
  split_on sep cur l = [rev cur ++ l].
Proof.
  induction l as [|a l IH]; intros cur Hl; cbn [split_on].
  - rewrite app_nil_r; reflexivity.
  - inversion Hl as [|? ? Ha Hl']; subst. rewrite Ha. rewrite IH by assumption.
    cbn [rev]. rewrite <- app_assoc. reflexivity.
Qed.

Lemma Forall_piece (P : Z -> Prop) l c rest :
  (forall x, isd x -> P x) -> Forall isd l -> P c -> Forall P rest -> Forall P (l ++ c :: rest).
Proof.
  intros HP Hl Hc Hr. apply Forall_app; split; [|constructor; assumption].
  eapply Forall_impl; [exact HP | exact Hl].
Qed.

Lemma split_six Y Mo Dd H Mi Sc :
  Forall isd Y -> Forall isd Mo -> Forall isd Dd -> Forall isd H -> Forall isd Mi -> Forall isd Sc ->
  split_on dt_sep [] (clean (Y ++ 45 :: Mo ++ 45 :: Dd ++ 84 :: H ++ 58 :: Mi ++ 58 :: Sc))
  = [Y; Mo; Dd; H; Mi; Sc].
Proof.
  intros HY HMo HDd HH HMi HSc.
  rewrite clean_id.
  2:{ repeat (apply Forall_piece; [exact isd_nz | assumption | reflexivity |]).
      eapply Forall_impl; [exact isd_nz | assumption]. }
  assert (Hn : forall l, Forall isd l -> Forall (fun x => dt_sep x = false) l)
    by (intros l Hl; eapply Forall_impl; [exact isd_nosep | exact Hl]).
  rewrite !split_on_piece by (auto; reflexivity).
  rewrite split_on_last by auto. reflexivity.
Qed.

Lemma parse_parts_six Y Mo Dd H Mi Sc y m d h mi s :
  parse_uint u32_max Y = Some y -> parse_uint u8_max Mo = Some m -> parse_uint u8_max Dd = Some d ->
  parse_uint u8_max H = Some h -> parse_uint u8_max Mi = Some mi -> parse_uint u8_max Sc = Some s ->
  1 <= m <= 12 -> 1 <= d <= days_of_month y m -> h <= 24 -> mi < 60 ->
  parse_parts [Y; Mo; Dd; H; Mi; Sc]
  = Ok {| tp_days := ymd_to_days y m d; tp_secs := hms_to_secs h mi s |}.
Proof.
  intros HY HMo HDd HH HMi HSc Hm Hd Hh Hmi.
  unfold parse_parts; cbv zeta; cbn [length nth Nat.eqb].
  rewrite HY, HMo, HDd, HH, HMi, HSc. cbn [expect bind].
  repeat (match goal with |- context [assert ?b] =>
            replace b with true by (symmetry; first [reflexivity | lia]) end; cbn [assert bind]).
  reflexivity.
Qed.

Definition iso_str (y m d h mi s : Z) : list Z :=
  pad0 4 (dec y) ++ [45] ++ pad0 2 (dec m) ++ [45] ++ pad0 2 (dec d) ++ [84]
  ++ pad0 2 (dec h) ++ [58] ++ pad0 2 (dec mi) ++ [58] ++ pad0 2 (dec s).

Lemma iso_str_parts y m d h mi s :
  split_on dt_sep [] (clean (iso_str y m d h mi s))
  = [pad0 4 (dec y); pad0 2 (dec m); pad0 2 (dec d); pad0 2 (dec h); pad0 2 (dec mi); pad0 2 (dec s)].
Proof. apply split_six; apply pad0_isd, dec_isd. Qed.

Lemma parse_iso_str y m d h mi s :
  valid_date y m d -> y <= u32_max -> 0 <= h < 24 -> 0 <= mi < 60 -> 0 <= s < 60 ->
  parse_datetime (iso_str y m d h mi s) = Ok {| tp_days := ymd_to_days y m d; tp_secs := hms_to_secs h mi s |}
  /\ strict_clock (iso_str y m d h mi s) = true.
Proof.
  intros (Hy & Hm & Hd) Hmax Hh Hmi Hs.
  pose proof u32_p10 as Hp. pose proof (dom_bounds y m) as Hdb.
  assert (Hu : u8_max < p10 40) by (unfold u8_max, u32_max in *; lia).
  assert (HH : parse_uint u8_max (pad0 2 (dec h)) = Some h) by (apply parse_pad_dec; unfold u8_max in *; lia).
  assert (HMi : parse_uint u8_max (pad0 2 (dec mi)) = Some mi) by (apply parse_pad_dec; unfold u8_max in *; lia).
  assert (HSc : parse_uint u8_max (pad0 2 (dec s)) = Some s) by (apply parse_pad_dec; unfold u8_max in *; lia).
  split.
  - rewrite parse_datetime_parts, iso_str_parts.
    apply parse_parts_six; try assumption; try lia; apply parse_pad_dec; unfold u8_max in *; lia.
  - unfold strict_clock; cbv zeta. fold (clean (iso_str y m d h mi s)). rewrite iso_str_parts.
    cbn [nth length Nat.eqb]. rewrite HH, HMi, HSc. lia.
Qed.

Theorem iso_roundtrip : stmt_iso_roundtrip.
Proof.
  intros [dy sc] [Hd Hs] Hmax; cbn [tp_days tp_secs] in *.
  destruct (days_to_ymd_total dy (conj Hd Hmax)) as (y & m & d & Hdays).
  destruct (days_to_ymd_inv dy y m d Hd Hdays) as (Hv & He & Hymax).
  exists (iso_str y m d (sc / 3600) ((sc mod 3600) / 60) (sc mod 60)).
  destruct (parse_iso_str y m d (sc / 3600) ((sc mod 3600) / 60) (sc mod 60) Hv Hymax) as [Hp Hc];
    try dm_lia.
  split; [|split; [|assumption]].
  - unfold as_iso; cbn [tp_days tp_secs]. rewrite Hdays; cbn [bind]. unfold secs_to_hms.
    replace ((sc / 3600) mod 256) with (sc / 3600) by dm_lia. reflexivity.
  - rewrite Hp. f_equal. f_equal; [assumption | unfold hms_to_secs; dm_lia].
Qed.

Lemma max_days_valid : valid_date (u32_max + 1) 1 1.
Proof. unfold valid_date. change (days_of_month (u32_max + 1) 1) with 31. unfold u32_max; lia. Qed.

Theorem parse_iso_parse : stmt_parse_iso_parse.
Proof.
  intros s t H Hs. pose proof (parse_norm s t H Hs) as Hn.
  assert (Hlt : tp_days t < max_days).
  { apply parse_datetime_inv in H.
    destruct H as (year & month & day & hour & minute & second & Hv & Hy & _ & _ & _ & _ & _ & _ & ->).
    cbn [tp_days]. unfold max_days. apply ymd_monotone; [assumption | apply max_days_valid | left; lia]. }
  destruct (iso_roundtrip t Hn Hlt) as (s' & A & B & _). exists s'; split; assumption.
Qed.

Print Assumptions ymd_roundtrip.
Print Assumptions days_roundtrip.
Print Assumptions days_to_ymd_total.
Print Assumptions ymd_monotone.
Print Assumptions tp_add_lin.
Print Assumptions tp_sub_lin.
Print Assumptions tp_cmp_lin.
Print Assumptions tp_cmp_lin_refuted.
Print Assumptions parse_norm.
Print Assumptions parse_norm_refuted.
Print Assumptions parse_then_add_norm.
Print Assumptions iso_roundtrip.
Print Assumptions parse_iso_parse.
Print Assumptions abs_add.
Print Assumptions abs_cmp.
Print Assumptions abs_diff.

(** ** additions: DateTime - DateTime with the derived-order assert; the repaired loader's reading of a time *)
Theorem abs_diff_dt : stmt_abs_diff_dt.
Proof.
  intros a b Ha Hb. unfold tp_diff_dt, tp_leb. rewrite (tp_cmp_lin b a Hb Ha).
  unfold abs_tp, dt_diff, dt_leb, dt_cmp, tp_diff.
  destruct (Z.compare_spec (tp_lin b) (tp_lin a)) as [E|L|G].
  - destruct (Z.geb_spec (tp_lin a) (tp_lin b)); [reflexivity | lia].
  - destruct (Z.geb_spec (tp_lin a) (tp_lin b)); [reflexivity | lia].
  - reflexivity.
Qed.

Theorem abs_diff_dt_refuted : stmt_abs_diff_dt_refuted.
Proof.
  exists {| tp_days := 0; tp_secs := 86400 |}, {| tp_days := 1; tp_secs := 0 |}.
  repeat split; vm_compute; try reflexivity; discriminate.
Qed.

Theorem load_time_order : stmt_load_time_order.
Proof.
  intros s1 s2 t1 t2 H1 H2. unfold load_time in *.
  destruct (parse_datetime s1) as [p1| | |] eqn:E1; cbn [bind] in H1; try discriminate H1.
  destruct (parse_datetime s2) as [p2| | |] eqn:E2; cbn [bind] in H2; try discriminate H2.
  injection H1 as <-. injection H2 as <-.
  destruct (parse_then_add_norm s1 p1 0 E1 (Z.le_refl 0)) as [N1 _].
  destruct (parse_then_add_norm s2 p2 0 E2 (Z.le_refl 0)) as [N2 _].
  split; [exact N1|]. split; [exact N2|]. apply tp_cmp_lin; assumption.
Qed.

Theorem load_time_instant : stmt_load_time_instant.
Proof.
  intros s t H. unfold load_time. rewrite H. cbn [bind]. eexists. split; [reflexivity|].
  destruct (parse_then_add_norm s t 0 H (Z.le_refl 0)) as [_ L]. lia.
Qed.

Print Assumptions abs_diff_dt.
Print Assumptions abs_diff_dt_refuted.
Print Assumptions load_time_order.
Print Assumptions load_time_instant.
