(* CalStmts.v — statements about the calendar layer (Cal.v).  Proofs: CalFacts.v. *)
From RS Require Export Cal.

Definition valid_date (y m d : Z) : Prop := 0 <= y /\ 1 <= m <= 12 /\ 1 <= d <= days_of_month y m.
(* first day number whose year no longer fits the u32 of from_days_to_yyyy_mm_dd *)
Definition max_days : Z := ymd_to_days (u32_max + 1) 1 1.

(** ** converters: the two conversions are inverse to each other on valid dates *)
Definition stmt_ymd_roundtrip : Prop :=
  forall y m d, valid_date y m d -> y <= u32_max -> days_to_ymd (ymd_to_days y m d) = Ok (y, m, d).
Definition stmt_days_roundtrip : Prop :=
  forall n y m d, 0 <= n -> days_to_ymd n = Ok (y, m, d) -> valid_date y m d /\ ymd_to_days y m d = n.
(* the loops never run out of fuel and the year fits below max_days: the month loop in particular never reaches
   month 13, where days_of_month is 0 and the code would spin *)
Definition stmt_days_to_ymd_total : Prop :=
  forall n, 0 <= n < max_days -> exists y m d, days_to_ymd n = Ok (y, m, d).
(* day numbers are chronological: the lexicographic order of valid dates *)
Definition date_lt (y m d y' m' d' : Z) : Prop := y < y' \/ (y = y' /\ (m < m' \/ (m = m' /\ d < d'))).
Definition stmt_ymd_monotone : Prop :=
  forall y m d y' m' d', valid_date y m d -> valid_date y' m' d' -> date_lt y m d y' m' d' ->
    ymd_to_days y m d < ymd_to_days y' m' d'.

(** ** TimePoint arithmetic against the linear reading *)
Definition stmt_tp_add_lin : Prop :=
  forall t l, 0 <= tp_secs t -> 0 <= l ->
    tp_lin (tp_add t l) = tp_lin t + l /\ (0 <= tp_days t -> tp_norm (tp_add t l)).
Definition stmt_tp_sub_lin : Prop :=
  forall t l t', 0 <= l -> tp_sub t l = Ok t' -> tp_lin t' = tp_lin t - l /\ tp_norm t'.
Definition stmt_tp_cmp_lin : Prop :=
  forall a b, tp_norm a -> tp_norm b -> tp_cmp a b = Z.compare (tp_lin a) (tp_lin b).
(* without normalisation the derived order is not the order of the instants *)
Definition stmt_tp_cmp_lin_refuted : Prop :=
  exists a b, 0 <= tp_days a /\ 0 <= tp_secs a /\ 0 <= tp_days b /\ 0 <= tp_secs b /\
    tp_lin a = tp_lin b /\ tp_cmp a b = Lt.

(** ** DateTime::new *)
Definition stmt_parse_norm : Prop :=
  forall s t, parse_datetime s = Ok t -> strict_clock s = true -> tp_norm t.
(* "2023-07-24T24:00:00" is accepted and is NOT normalised: it is the same instant as "2023-07-25T00:00:00"
   and compares as earlier *)
Definition stmt_parse_norm_refuted : Prop :=
  exists s1 s2 t1 t2, parse_datetime s1 = Ok t1 /\ parse_datetime s2 = Ok t2 /\
    tp_lin t1 = tp_lin t2 /\ tp_cmp t1 t2 = Lt /\ ~ tp_norm t1.
(* every parsed point has non-negative fields (so tp_add's statement applies) and, after adding any duration —
   zero included — it is normalised and denotes the same instant plus the duration *)
Definition stmt_parse_then_add_norm : Prop :=
  forall s t l, parse_datetime s = Ok t -> 0 <= l ->
    tp_norm (tp_add t l) /\ tp_lin (tp_add t l) = tp_lin t + l.

(** ** as_iso and back *)
Definition stmt_iso_roundtrip : Prop :=
  forall t, tp_norm t -> tp_days t < max_days ->
    exists s, as_iso t = Ok s /\ parse_datetime s = Ok t /\ strict_clock s = true.
(* reading any accepted strict time and printing it gives a string that reads as the same point *)
Definition stmt_parse_iso_parse : Prop :=
  forall s t, parse_datetime s = Ok t -> strict_clock s = true ->
    exists s', as_iso t = Ok s' /\ parse_datetime s' = Ok t.

(** ** The linear time of Base.v is a sound abstraction of normalised TimePoints *)
Definition abs_tp (t : timepoint) : datetime := Point (tp_lin t).
Definition stmt_abs_add : Prop :=
  forall t l, 0 <= tp_secs t -> 0 <= l -> dt_add (abs_tp t) (Len l) = abs_tp (tp_add t l).
Definition stmt_abs_cmp : Prop :=
  forall a b, tp_norm a -> tp_norm b -> dt_cmp (abs_tp a) (abs_tp b) = tp_cmp a b.
Definition stmt_abs_diff : Prop :=
  forall a b, tp_norm a -> tp_norm b ->
    dt_diff (abs_tp a) (abs_tp b) = match tp_diff a b with Ok n => Ok (Len n) | _ => Panic end.

(** ** DateTime - DateTime as the code does it (derived-order assert first): on normalised points it is the model's dt_diff;
    without normalisation it is not (the assert fires although the instants are equal) *)
Definition stmt_abs_diff_dt : Prop :=
  forall a b, tp_norm a -> tp_norm b ->
    dt_diff (abs_tp a) (abs_tp b) = match tp_diff_dt a b with Ok n => Ok (Len n) | _ => Panic end.
Definition stmt_abs_diff_dt_refuted : Prop :=
  exists a b, 0 <= tp_days a /\ 0 <= tp_secs a /\ 0 <= tp_days b /\ 0 <= tp_secs b /\
    dt_diff (abs_tp a) (abs_tp b) = Ok (Len 0) /\ tp_diff_dt a b = Panic.
(* the repaired loader reads a time as `DateTime::new(s) + Duration::ZERO`: for every accepted string the point is normalised
   and denotes the instant the string names, so that on loaded times the derived order is the order of the instants *)
Definition load_time (s : list Z) : res timepoint := do t <- parse_datetime s; Ok (tp_add t 0).
Definition stmt_load_time_order : Prop :=
  forall s1 s2 t1 t2, load_time s1 = Ok t1 -> load_time s2 = Ok t2 ->
    tp_norm t1 /\ tp_norm t2 /\ tp_cmp t1 t2 = Z.compare (tp_lin t1) (tp_lin t2).
Definition stmt_load_time_instant : Prop :=
  forall s t, parse_datetime s = Ok t -> exists t', load_time s = Ok t' /\ tp_lin t' = tp_lin t.
