(* CapFacts.v — proofs of CapStmts.v: the loader's cap of dead-head durations at the planning horizon never
   changes reachability for a valid instance (activity durations positive), and does change it when trips
   may have duration zero. *)
From Coq Require Import Permutation.
From RS Require Import Base BaseFacts Network NetSpec NetFacts LoadStmts LoadFacts CapStmts.

(** * Order facts on [datetime] *)
Lemma dt_min_le_l a b : dt_leb (dt_min a b) a = true.
Proof.
  unfold dt_min. destruct (dt_leb a b) eqn:E; [apply dt_leb_refl|].
  destruct (dt_leb_total a b) as [H|H]; congruence.
Qed.
Lemma dt_min_le_r a b : dt_leb (dt_min a b) b = true.
Proof. unfold dt_min. destruct (dt_leb a b) eqn:E; [exact E|apply dt_leb_refl]. Qed.
Lemma dt_max_ge_l a b : dt_leb a (dt_max a b) = true.
Proof. unfold dt_max. destruct (dt_leb a b) eqn:E; [exact E|apply dt_leb_refl]. Qed.
Lemma dt_max_ge_r a b : dt_leb b (dt_max a b) = true.
Proof.
  unfold dt_max. destruct (dt_leb a b) eqn:E; [apply dt_leb_refl|].
  destruct (dt_leb_total a b) as [H|H]; congruence.
Qed.

(** [cov p x y]: the span [p] covers the interval [x, y] *)
Definition cov (p : datetime * datetime) (x y : Z) : Prop :=
  dt_leb (fst p) (Point x) = true /\ dt_leb (Point y) (snd p) = true.

Lemma cov_keep e l a b x y : cov (e, l) x y -> cov (dt_min e a, dt_max l b) x y.
Proof.
  unfold cov; cbn [fst snd]. intros [H1 H2]. split.
  - eapply dt_leb_trans; [apply dt_min_le_l|exact H1].
  - eapply dt_leb_trans; [exact H2|apply dt_max_ge_l].
Qed.
Lemma cov_new e l x y : cov (dt_min e (Point x), dt_max l (Point y)) x y.
Proof. unfold cov; cbn [fst snd]. split; [apply dt_min_le_r|apply dt_max_ge_r]. Qed.
Lemma cov_pt a b x y : cov (Point a, Point b) x y -> a <= x /\ y <= b.
Proof. unfold cov; cbn [fst snd]. rewrite !dt_leb_point. tauto. Qed.

(** * The time span covers every trip and every slot *)
Section Span.
Variable i : instance.

Definition slot_step (acc : datetime * datetime) (s : islot) : datetime * datetime :=
  (let '(e, l) := acc in fun s => (dt_min e (Point (is_start s)), dt_max l (Point (is_end s)))) s.

Lemma slots_cov sl : forall p,
  (forall x y, cov p x y -> cov (fold_left slot_step sl p) x y) /\
  (forall s, In s sl -> cov (fold_left slot_step sl p) (is_start s) (is_end s)).
Proof.
  induction sl as [|s sl IH]; intros p; cbn [fold_left].
  - split; auto. intros s [].
  - destruct (IH (slot_step p s)) as [I1 I2]. split.
    + intros x y H. apply I1. destruct p as [e l]. apply cov_keep; auto.
    + intros s' [<-|H]; [|auto]. apply I1. destruct p as [e l]. apply cov_new.
Qed.

Definition seg_cov (d : departure) (p : datetime * datetime) (s : dseg) : Prop :=
  forall r g, lookup_rseg i d s = Some (r, g) -> cov p (ds_dep s) (ds_dep s + rs_dur g).

Lemma seg_step_inv d acc s p1 : seg_step i d acc s = Ok p1 ->
  exists e l r g, acc = Ok (e, l) /\ lookup_rseg i d s = Some (r, g) /\
    p1 = (dt_min e (Point (ds_dep s)), dt_max l (Point (ds_dep s + rs_dur g))).
Proof.
  unfold seg_step. destruct acc as [[e l]| | |]; cbn [bind]; try discriminate.
  destruct (lookup_rseg i d s) as [[r g]|]; cbn [unwrap_opt bind]; try discriminate.
  intros H; inversion H. do 4 eexists; eauto.
Qed.

Lemma inner_cov d segs : forall acc p', fold_left (seg_step i d) segs acc = Ok p' ->
  exists p, acc = Ok p /\ (forall x y, cov p x y -> cov p' x y) /\ (forall s, In s segs -> seg_cov d p' s).
Proof.
  induction segs as [|s segs IH]; intros acc p' F; cbn [fold_left] in F.
  - exists p'. split; auto. split; auto. intros s [].
  - destruct (IH _ _ F) as (p1 & E1 & K1 & C1).
    destruct (seg_step_inv _ _ _ _ E1) as (e & l & r & g & -> & Lk & ->).
    exists (e, l). split; auto. split.
    + intros x y H. apply K1. apply cov_keep; auto.
    + intros s' [<-|H]; [|auto]. intros r' g' Lk'. rewrite Lk in Lk'. inversion Lk'; subst.
      apply K1. apply cov_new.
Qed.

Lemma outer_cov ds : forall acc p',
  fold_left (fun acc d => fold_left (seg_step i d) (d_segs d) acc) ds acc = Ok p' ->
  exists p, acc = Ok p /\ (forall x y, cov p x y -> cov p' x y) /\
            (forall d s, In d ds -> In s (d_segs d) -> seg_cov d p' s).
Proof.
  induction ds as [|d ds IH]; intros acc p' F; cbn [fold_left] in F.
  - exists p'. split; auto. split; auto. intros d s [].
  - destruct (IH _ _ F) as (p1 & E1 & K1 & C1).
    destruct (inner_cov _ _ _ _ E1) as (p & -> & K0 & C0).
    exists p. split; auto. split; auto.
    intros d' s [<-|Hd] Hs; [|eauto]. intros r g Lk. apply K1. exact (C0 s Hs r g Lk).
Qed.

Lemma time_span_cov p : time_span i = Ok p ->
  (forall s, In s (Lslots i) -> cov p (is_start s) (is_end s)) /\
  (forall d s r g, In d (i_departures i) -> In s (d_segs d) -> lookup_rseg i d s = Some (r, g) ->
     cov p (ds_dep s) (ds_dep s + rs_dur g)).
Proof.
  intros F.
  change (fold_left (fun acc d => fold_left (seg_step i d) (d_segs d) acc) (i_departures i)
            (Ok (fold_left slot_step (Lslots i) (Latest, Earliest))) = Ok p) in F.
  destruct (outer_cov _ _ _ F) as (p0 & E0 & K & C). inversion E0; subst p0. split.
  - intros s Hs. apply K. now apply slots_cov.
  - intros d s r g Hd Hs Lk. exact (C d s Hd Hs r g Lk).
Qed.
End Span.

(** * The horizon is at least the span *)
Lemma div_ceil_day_ge x : x <= div_ceil x 86400 * 86400.
Proof. unfold div_ceil. Z.div_mod_to_equations. lia. Qed.

(** * Validity: locations in range, matrix shape *)
Section Valid2.
Variable i : instance.
Hypothesis V : valid_instance_b i = true.

Lemma valid_locs :
  (forall r g, In r (i_routes i) -> In g (r_segs r) -> loc_ok i (rs_origin g) /\ loc_ok i (rs_dest g)) /\
  (forall s, In s (Lslots i) -> loc_ok i (is_loc s)) /\
  length (i_dh_dur i) = i_nlocs i /\ length (i_dh_dist i) = i_nlocs i /\
  (forall row, In row (i_dh_dur i) -> length row = i_nlocs i) /\
  (forall row, In row (i_dh_dist i) -> length row = i_nlocs i).
Proof.
  unfold valid_instance_b in V. cbv beta zeta in V. rewrite !andb_true_iff in V.
  destruct V as [[[[[[[[[[[[V1 V2] V3] V4] V5] V6] V7] V8] V9] V10] V11] V12] V13].
  unfold loc_ok. repeat split.
  1-4: rewrite forallb_forall in V2; apply V2 in H; rewrite !andb_true_iff in H; destruct H as [_ H];
       rewrite forallb_forall in H; apply H in H0; rewrite !andb_true_iff in H0; lia.
  1-2: rewrite forallb_forall in V5; apply V5 in H; rewrite !andb_true_iff in H; lia.
  - now apply Nat.eqb_eq in V7.
  - now apply Nat.eqb_eq in V8.
  - intros row Hr. rewrite forallb_forall in V9. apply V9 in Hr. rewrite andb_true_iff in Hr.
    destruct Hr as [Hr _]. now apply Nat.eqb_eq in Hr.
  - intros row Hr. rewrite forallb_forall in V10. apply V10 in Hr. rewrite andb_true_iff in Hr.
    destruct Hr as [Hr _]. now apply Nat.eqb_eq in Hr.
Qed.
End Valid2.

(** * The network's matrix look-up against the instance's own *)
Lemma nth_error_combine {A B} (la : list A) (lb : list B) n a b :
  nth_error la n = Some a -> nth_error lb n = Some b -> nth_error (combine la lb) n = Some (a, b).
Proof.
  revert lb n; induction la as [|x la IH]; intros [|y lb] [|n]; simpl; try discriminate.
  - intros H1 H2; inversion H1; inversion H2; reflexivity.
  - apply IH.
Qed.

Lemma nth_error_some_lt {A} (l : list A) n : (n < length l)%nat -> exists x, nth_error l n = Some x.
Proof. intros H. destruct (nth_error l n) eqn:E; eauto. apply nth_error_None in E. lia. Qed.

Section Lookup.
Variable i : instance.
Hypothesis V : valid_instance_b i = true.

Lemma capped_lookup hz l1 l2 : loc_ok i l1 -> loc_ok i l2 ->
  exists dm tv, raw_dur i l1 l2 = Some tv /\ 0 <= tv /\
    (match nth_error (capped_dh i (Len hz)) (Z.to_nat l1) with
     | Some row => nth_error row (Z.to_nat l2) | None => None end)
    = Some (dm, if tv <=? hz then Len tv else Len hz).
Proof.
  intros H1 H2. destruct (valid_locs i V) as (_ & _ & Ld & Lm & Rd & Rm).
  destruct (valid_parts i V) as (_ & _ & _ & _ & _ & Nn & _).
  unfold loc_ok in H1, H2.
  destruct (nth_error_some_lt (i_dh_dur i) (Z.to_nat l1)) as (trow & Et); [lia|].
  destruct (nth_error_some_lt (i_dh_dist i) (Z.to_nat l1)) as (drow & Ed); [lia|].
  pose proof (Rd _ (nth_error_In _ _ Et)) as Lt. pose proof (Rm _ (nth_error_In _ _ Ed)) as Ldr.
  destruct (nth_error_some_lt trow (Z.to_nat l2)) as (tv & Etv); [lia|].
  destruct (nth_error_some_lt drow (Z.to_nat l2)) as (dm & Edm); [lia|].
  eexists _, tv. split; [|split].
  - unfold raw_dur. rewrite Et. exact Etv.
  - eapply Nn; eapply nth_error_In; eauto.
  - unfold capped_dh.
    rewrite (map_nth_error _ _ _ (nth_error_combine _ _ _ _ _ Ed Et)).
    rewrite (map_nth_error _ _ _ (nth_error_combine _ _ _ _ _ Edm Etv)).
    reflexivity.
Qed.
End Lookup.

(** * Inversion of [load] that keeps the span and the horizon *)
Lemma load_inv_span i perm nw : valid_instance_b i = true -> load i perm = Ok nw ->
  exists e0 l0 trips p1,
    time_span i = Ok (Point e0, Point l0) /\ e0 <= l0 /\
    nw = Lnet i perm trips (Len (div_ceil (l0 - e0) 86400 * 86400)) p1 /\
    trips = trip_records i /\ (forall s, In s trips -> trip_good i s) /\ trips <> [].
Proof.
  intros V H. rewrite load_eq in H.
  destruct (time_span_ok i V) as (p & E1 & (e0 & l0 & -> & Hle)). rewrite E1 in H. cbn [bind] in H.
  assert (E2 : planning_of (Point e0) (Point l0) = Ok (Len (div_ceil (l0 - e0) 86400 * 86400))).
  { unfold planning_of, dt_diff. rewrite dt_leb_point_b. destruct (Z.leb_spec e0 l0); [reflexivity|lia]. }
  rewrite E2 in H. cbn [bind] in H.
  destruct (all_trips_ok i V) as (trips & E3). rewrite E3 in H. cbn [bind] in H.
  pose proof (all_trips_records i trips E3) as R.
  destruct (planning_of _ _) as [p1| | |]; cbn [bind] in H; try discriminate. inversion H; subst nw.
  exists e0, l0, trips, p1. split; [exact E1|]. split; [exact Hle|]. split; [reflexivity|]. split; [exact R|]. split.
  - intros s' Hs. apply trip_records_good; auto. now rewrite <- R.
  - rewrite R. now apply trip_records_nonempty.
Qed.

(** * What the loaded nodes are: depot nodes, or activities inside the span with stations in range *)
Definition act_ok (i : instance) (E L : Z) (n : node) : Prop :=
  is_activity n = true /\
  exists s e l1 l2, n_start_time n = Point s /\ n_end_time n = Point e /\ s < e /\ E <= s /\ e <= L /\
     n_start_loc n = Station l1 /\ n_end_loc n = Station l2 /\ loc_ok i l1 /\ loc_ok i l2.

Section Nodes.
Variable i : instance.
Hypothesis V : valid_instance_b i = true.
Variables E L : Z.
Hypothesis TS : time_span i = Ok (Point E, Point L).

Lemma trip_act s : In s (trip_records i) -> act_ok i E L (NService s).
Proof.
  destruct (valid_parts i V) as (_ & V2 & _). destruct (valid_locs i V) as (VL & _).
  destruct (time_span_cov i _ TS) as (_ & TC).
  unfold trip_records. intros H. apply in_flat_map in H. destruct H as (d & Hd & H).
  apply in_flat_map in H. destruct H as (sg & Hs & H).
  destruct (lookup_rseg i d sg) as [[r g]|] eqn:Lk; [|destruct H].
  destruct H as [<-|[]]. pose proof (TC d sg r g Hd Hs Lk) as C. apply cov_pt in C.
  apply lookup_in in Lk. destruct Lk as [K1 K2]. destruct (VL r g K1 K2) as [O1 O2].
  apply V2 in K1. destruct K1 as [_ K1]. apply K1 in K2.
  split; [reflexivity|]. cbn. exists (ds_dep sg), (ds_dep sg + rs_dur g), (rs_origin g), (rs_dest g).
  unfold loc_ok in *. repeat split; auto; lia.
Qed.

Lemma slot_act s : In s (Lslots i) -> act_ok i E L (NMaint (Lmk_slot s)).
Proof.
  destruct (valid_parts i V) as (_ & _ & _ & _ & V5 & _). destruct (valid_locs i V) as (_ & VS & _).
  destruct (time_span_cov i _ TS) as (SC & _).
  intros H. pose proof (SC s H) as C. apply cov_pt in C. pose proof (VS s H) as O. apply V5 in H.
  split; [reflexivity|]. cbn. exists (is_start s), (is_end s), (is_loc s), (is_loc s).
  unfold loc_ok in *. repeat split; auto; lia.
Qed.

Lemma node_class perm id n :
  In (id, n) (Lnodes i perm (trip_records i)) -> (exists d, n = NStart d \/ n = NEnd d) \/ act_ok i E L n.
Proof.
  unfold Lnodes. rewrite !in_app_iff. intros [H|[H|H]].
  - left. apply Ldentries_in in H. exact H.
  - right. apply Lsvc_entries_in in H. destruct H as (s & -> & H). apply Ltbt_in in H. now apply trip_act.
  - right. apply Lm_entries_in in H. destruct H as (s & -> & H). now apply slot_act.
Qed.
End Nodes.

(** * The rule on activities, unfolded once for both readings *)
Lemma Reach_act nw n1 n2 : is_activity n1 = true -> is_activity n2 = true ->
  (Reach nw n1 n2 <->
   exists e s l1 l2,
     n_end_time n1 = Point e /\ n_start_time n2 = Point s /\
     n_end_loc n1 = Station l1 /\ n_start_loc n2 = Station l2 /\
     (if l1 =? l2 then e + p_min (nw_params nw) <= s
      else p_forbid (nw_params nw) = false /\
           exists tv, loc_travel_time nw (Station l1) (Station l2) = Len tv /\
                      e + tv + p_dht (nw_params nw) + p_dht (nw_params nw) <= s)).
Proof. destruct n1, n2; try discriminate; intros _ _; apply iff_refl. Qed.

Lemma ReachRaw_act i n1 n2 : is_activity n1 = true -> is_activity n2 = true ->
  (ReachRaw i n1 n2 <->
   exists e s l1 l2,
     n_end_time n1 = Point e /\ n_start_time n2 = Point s /\
     n_end_loc n1 = Station l1 /\ n_start_loc n2 = Station l2 /\
     (if l1 =? l2 then e + p_min (i_params i) <= s
      else p_forbid (i_params i) = false /\
           exists tv, raw_dur i l1 l2 = Some tv /\
                      e + tv + p_dht (i_params i) + p_dht (i_params i) <= s)).
Proof. destruct n1, n2; try discriminate; intros _ _; apply iff_refl. Qed.

(* with the four fields known, the existential collapses *)
Lemma ex4_collapse (n1 n2 : node) e s l1 l2 (B : Z -> Z -> Z -> Z -> Prop) :
  n_end_time n1 = Point e -> n_start_time n2 = Point s -> n_end_loc n1 = Station l1 -> n_start_loc n2 = Station l2 ->
  ((exists e' s' a b, n_end_time n1 = Point e' /\ n_start_time n2 = Point s' /\
      n_end_loc n1 = Station a /\ n_start_loc n2 = Station b /\ B e' s' a b) <-> B e s l1 l2).
Proof.
  intros E1 E2 E3 E4. split.
  - intros (e' & s' & a & b & F1 & F2 & F3 & F4 & H). rewrite E1 in F1. rewrite E2 in F2. rewrite E3 in F3. rewrite E4 in F4.
    inversion F1; inversion F2; inversion F3; inversion F4; subst. exact H.
  - intros H. exists e, s, l1, l2. auto.
Qed.

(** * Theorem 1: the cap never changes reachability for a valid instance *)
Theorem cap_preserves_reach : stmt_cap_preserves_reach.
Proof.
  intros i perm nw V H a b n1 n2 I1 I2.
  destruct (load_inv_span i perm nw V H) as (E & L & trips & p1 & TS & HEL & -> & -> & G & Ne).
  cbn [nw_nodes Lnet] in I1, I2.
  destruct (node_class i V E L TS perm a n1 I1) as [(d1 & D1)|A1];
  destruct (node_class i V E L TS perm b n2 I2) as [(d2 & D2)|A2].
  1: destruct D1 as [-> | ->], D2 as [-> | ->]; apply iff_refl.
  1: destruct D1 as [-> | ->]; destruct n2; apply iff_refl.
  1: destruct D2 as [-> | ->]; destruct n1; apply iff_refl.
  destruct A1 as (Act1 & s1 & e1 & la1 & lb1 & Es1 & Ee1 & Hd1 & Hs1 & He1 & Ela1 & Elb1 & Oa1 & Ob1).
  destruct A2 as (Act2 & s2 & e2 & la2 & lb2 & Es2 & Ee2 & Hd2 & Hs2 & He2 & Ela2 & Elb2 & Oa2 & Ob2).
  rewrite (Reach_act _ n1 n2 Act1 Act2), (ReachRaw_act i n1 n2 Act1 Act2).
  rewrite (ex4_collapse n1 n2 e1 s2 lb1 la2
             (fun e s l1 l2 => if l1 =? l2 then e + p_min (i_params i) <= s
                else p_forbid (i_params i) = false /\ exists tv, raw_dur i l1 l2 = Some tv /\
                     e + tv + p_dht (i_params i) + p_dht (i_params i) <= s) Ee1 Es2 Elb1 Ela2).
  set (hz := div_ceil (L - E) 86400 * 86400).
  set (nw := Lnet i perm (trip_records i) (Len hz) p1).
  rewrite (ex4_collapse n1 n2 e1 s2 lb1 la2
             (fun e s l1 l2 => if l1 =? l2 then e + p_min (nw_params nw) <= s
                else p_forbid (nw_params nw) = false /\ exists tv, loc_travel_time nw (Station l1) (Station l2) = Len tv /\
                     e + tv + p_dht (nw_params nw) + p_dht (nw_params nw) <= s) Ee1 Es2 Elb1 Ela2).
  change (nw_params nw) with (i_params i).
  destruct (lb1 =? la2); [apply iff_refl|].
  destruct (capped_lookup i V hz lb1 la2 Ob1 Oa2) as (dm & tv0 & Raw & Htv0 & Cap).
  assert (TT : loc_travel_time nw (Station lb1) (Station la2) = if tv0 <=? hz then Len tv0 else Len hz).
  { unfold loc_travel_time, dh_entry. change (nw_dh nw) with (capped_dh i (Len hz)). rewrite Cap. reflexivity. }
  rewrite TT, Raw.
  pose proof (div_ceil_day_ge (L - E)) as Hhz. fold hz in Hhz.
  destruct (valid_parts i V) as (_ & _ & _ & _ & _ & _ & (_ & Hdht) & _).
  destruct (Z.leb_spec tv0 hz) as [Hc|Hc].
  - split; intros [F (tv & Etv & Hle)]; (split; [exact F|]); inversion Etv; subst tv; exists tv0; auto.
  - split; intros [F (tv & Etv & Hle)]; exfalso; inversion Etv; subst tv; lia.
Qed.
Print Assumptions cap_preserves_reach.

(** * Theorem 2: the same with [can_reach] itself.  Only the well-formedness of the two node records and the
      uniqueness of node ids are needed (not the whole of [net_wf_b]), so no hypothesis on [perm]. *)
Theorem can_reach_is_the_instances_rule : stmt_can_reach_is_the_instances_rule.
Proof.
  intros i perm nw V H a b n1 n2 I1 I2.
  rewrite <- (cap_preserves_reach i perm nw V H a b n1 n2 I1 I2).
  destruct (load_inv i perm nw V H) as (trips & n0 & p1 & -> & Hn0 & R & G & Ne).
  cbn [nw_nodes Lnet] in I1, I2.
  unfold can_reach. rewrite (Lnd _ _ _ _ _ _ _ I1), (Lnd _ _ _ _ _ _ _ I2).
  apply can_reach_nodes_iff.
  - exact (proj1 (Lnodes_good i perm trips V G a n1 I1)).
  - exact (proj1 (Lnodes_good i perm trips V G b n2 I2)).
Qed.
Print Assumptions can_reach_is_the_instances_rule.

(** * Theorem 3: with zero-duration trips the cap does change reachability *)
Definition zparams : params :=
  {| p_forbid := false; p_min := 0; p_dht := 0; p_maxdist := 0;
     c_staff := 0; c_service := 0; c_maint := 0; c_dh := 0; c_idle := 0 |}.
Definition zinst : instance :=
  {| i_types := [{| vt_cap := 1; vt_seats := 1; vt_limit := None |}];
     i_nlocs := 2;
     i_depots := None;
     i_routes := [{| r_type := 0;
                     r_segs := [ {| rs_origin := 1; rs_dest := 0; rs_dist := 0; rs_dur := 0; rs_limit := None |};
                                 {| rs_origin := 1; rs_dest := 0; rs_dist := 0; rs_dur := 0; rs_limit := None |};
                                 {| rs_origin := 0; rs_dest := 1; rs_dist := 0; rs_dur := 3600; rs_limit := None |} ] |}];
     i_departures := [{| d_route := 0;
                         d_segs := [ {| ds_rseg := 0; ds_dep := 0; ds_pass := 1; ds_seated := 0 |};
                                     {| ds_rseg := 1; ds_dep := 86400; ds_pass := 1; ds_seated := 0 |};
                                     {| ds_rseg := 2; ds_dep := 82800; ds_pass := 1; ds_seated := 0 |} ] |}];
     i_slots := None;
     i_dh_dur := [[0; 90000]; [0; 0]]; i_dh_dist := [[0; 0]; [0; 0]];
     i_params := zparams |}.
Definition zperm : list Z := [0; 1].

(* the instance is rejected by [valid_instance_b] (route segments of duration 0), but it loads *)
Lemma zinst_not_valid : valid_instance_b zinst = false.
Proof. vm_compute. reflexivity. Qed.

Definition ztripA : service_trip :=
  {| st_type := 0; st_origin := Station 1; st_dest := Station 0; st_dep := Point 0; st_arr := Point 0;
     st_dist := Dist 0; st_pass := 1; st_seated := 0; st_limit := None |}.
Definition ztripB : service_trip :=
  {| st_type := 0; st_origin := Station 1; st_dest := Station 0; st_dep := Point 86400; st_arr := Point 86400;
     st_dist := Dist 0; st_pass := 1; st_seated := 0; st_limit := None |}.

Theorem cap_changes_reach_for_zero_durations : stmt_cap_changes_reach_for_zero_durations.
Proof.
  destruct (load zinst zperm) as [nw| | |] eqn:E; try (vm_compute in E; discriminate).
  exists zinst, zperm, nw, (SV 6), (SV 7), (NService ztripA), (NService ztripB).
  split; [exact E|].
  vm_compute in E. injection E as <-.
  split; [cbn [nw_nodes]; unfold ztripA; simpl; tauto|].
  split; [cbn [nw_nodes]; unfold ztripB; simpl; tauto|].
  split.
  - (* in the network the dead-head 0 -> 1 is capped at the horizon 86400: 0 + 86400 <= 86400 *)
    unfold Reach. exists 0, 86400, 0, 1. cbn.
    repeat (split; [reflexivity|]). exists 86400. split; [reflexivity|lia].
  - (* the instance's own dead-head is 90000 *)
    unfold ReachRaw. intros (e & s & l1 & l2 & E1 & E2 & E3 & E4 & H).
    cbn in E1, E2, E3, E4. inversion E1; inversion E2; inversion E3; inversion E4; subst.
    cbn in H. destruct H as [_ (tv & Htv & Hle)]. inversion Htv; subst. lia.
Qed.
Print Assumptions cap_changes_reach_for_zero_durations.
