(* CapStmts.v — the loader caps dead-head durations at the planning horizon (create_locations: "if duration >
   planning_days { duration = planning_days }"), so the loaded network's travel times are NOT the instance's own where the
   matrix lists something longer.  C17 says the loaded network encodes the INSTANCE's reachability: these statements read the
   documented rule against the instance's own matrix and show that the cap never changes it for a valid instance (activity
   durations positive) — and that it does change it when a trip has duration zero.  Proofs: CapFacts.v. *)
From RS Require Import Base Network NetSpec LoadStmts.

Definition raw_dur (i : instance) (l1 l2 : Z) : option Z :=
  match nth_error (i_dh_dur i) (Z.to_nat l1) with
  | Some row => nth_error row (Z.to_nat l2)
  | None => None
  end.

(* NetSpec.Reach with the instance's own dead-head duration in place of the network's (capped) travel time *)
Definition ReachRaw (i : instance) (n1 n2 : node) : Prop :=
  match n1, n2 with
  | _, NStart _ => False
  | NEnd _, _ => False
  | NStart _, _ => True
  | _, NEnd _ => True
  | _, _ =>
      exists e s l1 l2,
        n_end_time n1 = Point e /\ n_start_time n2 = Point s /\
        n_end_loc n1 = Station l1 /\ n_start_loc n2 = Station l2 /\
        (if l1 =? l2 then e + p_min (i_params i) <= s
         else p_forbid (i_params i) = false /\
              exists tv, raw_dur i l1 l2 = Some tv /\
                         e + tv + p_dht (i_params i) + p_dht (i_params i) <= s)
  end.

(** for every valid instance the loaded network's reachability is the documented rule on the instance's own matrix *)
Definition stmt_cap_preserves_reach : Prop :=
  forall i perm nw, valid_instance_b i = true -> load i perm = Ok nw ->
    forall a b n1 n2, In (a, n1) (nw_nodes nw) -> In (b, n2) (nw_nodes nw) ->
      (Reach nw n1 n2 <-> ReachRaw i n1 n2).

(** and with can_reach itself (NetFacts.can_reach_iff needs net_wf_b, which LoadFacts.load_wf gives) *)
Definition stmt_can_reach_is_the_instances_rule : Prop :=
  forall i perm nw, valid_instance_b i = true -> load i perm = Ok nw ->
    forall a b n1 n2, In (a, n1) (nw_nodes nw) -> In (b, n2) (nw_nodes nw) ->
      (can_reach nw a b = true <-> ReachRaw i n1 n2).

(** without "activity durations positive" the cap does change reachability: a listing with zero-duration trips that loads and
    in whose network a trip reaches another one although the instance's own dead-head is too long *)
Definition stmt_cap_changes_reach_for_zero_durations : Prop :=
  exists i perm nw a b n1 n2,
    load i perm = Ok nw /\ In (a, n1) (nw_nodes nw) /\ In (b, n2) (nw_nodes nw) /\
    Reach nw n1 n2 /\ ~ ReachRaw i n1 n2.
