(* ChainFacts.v — proofs of ChainStmts.v: the tours decoded per vehicle type from feasible flows of the networks built for
   the distributed slots are valid Paths over known nodes, typed, and within the formation and track limits
   (decoded_tours_feed_pipeline); with a fleet that fits the overflow depot the whole pipeline returns
   (solve_returns_given_flows).
   Plan:
     1. (generic, under the side conditions of DecodeFacts / DecodeFacts2) every node of a decoded tour after the first is a
        trip of the type / an allotted slot, except the last one, which is an end depot node; the first is a LISTED start
        depot node;
     2. per type, on a loaded network: shape + the visit counts of FlowFacts2.decomposition_covers_under_nondepot;
     3. over all types: visits of all tours = sum over the types; a trip is visited only by the tours of its own type, a
        slot as often as the types were allotted it (summed clause of allot_within_tracks);
     4. the four predicates, and the composition with whole_pipeline_returns_loaded. *)
From Coq Require Import List ZArith Bool Lia Permutation.
From RS Require Import Base BaseFacts Network NetSpec NetFacts LoadStmts LoadFacts LoadFacts2 EndToEndStmts Tour TourStmts
  Flow FlowStmts FlowFacts2 Decode DecodeStmts DecodeFacts DecodeFacts2 SlotDist SlotDistStmts PipelineSched
  PipelineTotalStmts ChainStmts.
Require RS.TourFacts RS.TourExactFacts RS.FlowFacts3 RS.SlotDistFacts RS.EndToEndFacts RS.RenderFacts4 RS.CoverFacts2 RS.SearchTermStmts
  RS.SearchTermFacts.
Import ListNotations.
Open Scope Z_scope.

(** * 0. lists and sums *)
Lemma cf_in_mid_window {A} (mid : list A) (e y : A) : In y mid -> exists z, In (y, z) (windows (mid ++ [e])).
Proof.
  intros H. rewrite <- (FlowFacts2.windows_fst mid e) in H. apply in_map_iff in H. destruct H as ([y' z] & E & H).
  cbn [fst] in E. subst y'. exists z. exact H.
Qed.

Lemma cf_zs_zero {A} (g : A -> Z) l : (forall x, In x l -> g x = 0) -> z_sum (map g l) = 0.
Proof.
  induction l as [|x l IH]; intros H; [reflexivity|].
  cbn [map]. rewrite z_sum_cons, IH, (H x); [lia|left; reflexivity|]. intros y Hy. apply H. right. exact Hy.
Qed.

(* a sum with at most one non-zero term *)
Lemma cf_zs_single {A} (dec : forall a b : A, {a = b} + {a <> b}) (g : A -> Z) (x0 : A) (B : Z) l :
  NoDup l -> 0 <= B -> (forall x, In x l -> x <> x0 -> g x = 0) -> (In x0 l -> g x0 <= B) ->
  z_sum (map g l) <= B.
Proof.
  induction l as [|x l IH]; intros ND HB Hz H0; [cbn; exact HB|].
  inversion ND as [|? ? Hx NDl]; subst. cbn [map]. rewrite z_sum_cons.
  destruct (dec x x0) as [E|NE].
  - subst x. rewrite cf_zs_zero.
    + specialize (H0 (or_introl eq_refl)). lia.
    + intros y Hy. apply Hz; [right; exact Hy|]. intros ->. exact (Hx Hy).
  - rewrite (Hz x (or_introl eq_refl) NE). cbn [Z.add]. apply IH; [exact NDl|exact HB| |].
    + intros y Hy. apply Hz. right. exact Hy.
    + intros Hy. apply H0. right. exact Hy.
Qed.

Lemma cf_filter_none (n : node_id) l : ~ In n l -> filter (nid_eqb n) l = [].
Proof.
  induction l as [|x l IH]; intros H; [reflexivity|]. cbn [filter].
  destruct (nid_eqb n x) eqn:E.
  - exfalso. apply H. left. symmetry. apply nid_eqb_eq. exact E.
  - apply IH. intros Hn. apply H. right. exact Hn.
Qed.

Lemma cf_visits_notin tours n : (forall t, In t tours -> ~ In n t) -> visits tours n = 0.
Proof.
  intros H. unfold visits. apply cf_zs_zero. intros t Ht. rewrite (cf_filter_none n t (H t Ht)). reflexivity.
Qed.

Lemma cf_visits_app l1 l2 n : visits (l1 ++ l2) n = visits l1 n + visits l2 n.
Proof. unfold visits. rewrite map_app, z_sum_app. reflexivity. Qed.

Lemma cf_visits_flat (dec : Z -> list (list node_id)) l n :
  visits (flat_map dec l) n = z_sum (map (fun ty => visits (dec ty) n) l).
Proof.
  induction l as [|x l IH]; [reflexivity|]. cbn [flat_map map]. rewrite cf_visits_app, z_sum_cons, IH. reflexivity.
Qed.

Lemma cf_all_tours_snd nw dec : map snd (all_tours nw dec) = flat_map dec (type_ids nw).
Proof.
  unfold all_tours. induction (type_ids nw) as [|x l IH]; [reflexivity|].
  cbn [flat_map]. rewrite map_app, IH, map_map. cbn [snd]. rewrite map_id. reflexivity.
Qed.

Lemma cf_all_tours_in nw dec ty p : In (ty, p) (all_tours nw dec) <-> In ty (type_ids nw) /\ In p (dec ty).
Proof.
  unfold all_tours. rewrite in_flat_map. split.
  - intros (x & Hx & H). apply in_map_iff in H. destruct H as (t & E & Ht). inversion E; subst. auto.
  - intros [H1 H2]. exists ty. split; [exact H1|]. apply in_map_iff. exists p. auto.
Qed.

Lemma cf_assoc_z_nodup_in {B} k (l : list (Z * B)) v : NoDup (map fst l) -> In (k, v) l -> assoc Z.eqb k l = Some v.
Proof.
  induction l as [|[x w] l IH]; intros ND H; [destruct H|].
  cbn [map fst] in ND. inversion ND as [|? ? Hx NDl]; subst. cbn [assoc].
  destruct H as [H|H].
  - inversion H; subst. rewrite Z.eqb_refl. reflexivity.
  - destruct (Z.eqb_spec k x) as [E|NE].
    + exfalso. subst x. apply Hx. apply in_map_iff. exists (k, v). auto.
    + apply IH; assumption.
Qed.

(** * 1. the nodes of a decoded tour (generic) *)
Section Shape.
Variable nw : network.
Variable ty : Z.
Variable slots : list (node_id * Z).
Variable f : flow.
Variable order : node_id -> list Z.
Notation net := (build_flow_network nw ty slots).
Notation VO := (visit_order nw ty).
Notation hd := (code_as_head nw).
Notation vis := (visited nw slots).
Notation ACTS := (acts nw ty slots).
Notation sdn := (get_start_depot_node nw).
Notation U := (all_units nw ty slots order).

Hypothesis SC : decode_side_conditions nw ty slots.
Hypothesis SC2 : decode_side_conditions2 nw ty slots.
Hypothesis FE : feasible net f = true.
Hypothesis OK : order_ok_b nw ty slots order net f = true.

(* the node of a unit is a trip / slot or an end depot node; the node before it in its tour is a trip / slot or a start
   depot node *)
Lemma cf_unit_node y c : In (y, c) U -> In y ACTS \/ is_end_depot (nd nw y) = true.
Proof.
  intros H. destruct (unit_facts nw ty slots order (y, c) H) as (Hn & Hv & _). cbn [fst] in Hn, Hv.
  exact (sc2_vis nw ty slots SC2 y Hn Hv).
Qed.

Lemma cf_unit_link y c x : In (y, c) U -> link nw c x -> In x ACTS \/ is_end_depot (nd nw x) = false.
Proof.
  intros H L. destruct (unit_facts nw ty slots order (y, c) H) as (Hn & Hv & Hc). cbn [fst snd] in Hn, Hv, Hc.
  destruct (unit_edge nw ty slots f order SC OK y c Hn Hv Hc) as (e & He & Hh & Ht & _ & Q).
  destruct L as [L|(d & L & ->)].
  - left. exact (proj1 (Q x L)).
  - right. rewrite <- Ht in L. destruct (sc2_depot_arc nw ty slots SC2 y e d Hn Hv He Hh L) as (_ & dd & -> & _). reflexivity.
Qed.

Lemma cf_tour_nodes tours t : decode nw ty slots order = Ok tours -> In t tours ->
  exists d a r, t = sdn d :: a :: r /\
    (exists n e, In n VO /\ vis n = true /\ In e net /\ fe_head e = hd n /\ tail_of nw (fe_tail e) = TDepot d) /\
    (forall x y, In (x, y) (windows (a :: r)) -> In x ACTS).
Proof.
  intros E Ht. destruct (final_inv nw ty slots f order SC OK tours E) as (s & <- & I).
  pose proof (i_good nw s U I) as G. rewrite Forall_forall in G.
  destruct (G t Ht) as (d & a & r & Et & Ha & (n0 & c0 & Hu0 & Ht0) & W).
  exists d, a, r. split; [exact Et|]. split.
  - destruct (unit_facts nw ty slots order (n0, c0) Hu0) as (Hn & Hv & Hc). cbn [fst snd] in Hn, Hv, Hc.
    destruct (unit_edge nw ty slots f order SC OK n0 c0 Hn Hv Hc) as (e0 & He0 & Hh0 & Htl0 & _).
    exists n0, e0. rewrite Htl0. auto.
  - intros x y Hxy.
    assert (Hx : In x (a :: r)) by exact (proj1 (TourExactFacts.windows_in _ _ _ Hxy)).
    (* x is the second component of a pair of t, y's unit links to x *)
    rewrite <- (FlowFacts2.windows_snd (sdn d) (a :: r)), <- Et in Hx. apply in_map_iff in Hx.
    destruct Hx as ([w x'] & Ex & Hw). cbn [snd] in Ex. subst x'.
    destruct (W w x Hw) as (cx & Hcx & _).
    assert (Hxy' : In (x, y) (windows t)) by (rewrite Et; apply TourFacts.windows_tl; exact Hxy).
    destruct (W x y Hxy') as (cy & Hcy & L).
    destruct (cf_unit_node x cx Hcx) as [H|H]; [exact H|].
    destruct (cf_unit_link y cy x Hcy L) as [H'|H']; [exact H'|congruence].
Qed.
End Shape.

(* the first node is a listed start depot node (from the structure of the arcs) *)
Section First.
Variable nw : network.
Variable ty : Z.
Variable slots : list (node_id * Z).
Hypothesis NWF : net_wf_b nw = true.
Hypothesis Hty : In ty (type_ids nw).
Hypothesis CD : codes_distinct nw ty slots.
Hypothesis FW : flow_wf nw ty slots.
Hypothesis Hvis : forall n, In n (type_nodes nw ty) -> visited nw slots n = true -> good_head nw ty slots n.
Hypothesis Hres : forall x, In x (acts nw ty slots) -> tail_of nw (fr_node x) = TNode x.

Lemma cf_depot_tail_listed n e d :
  In n (visit_order nw ty) -> visited nw slots n = true -> In e (build_flow_network nw ty slots) ->
  fe_head e = code_as_head nw n -> tail_of nw (fe_tail e) = TDepot d ->
  In (get_start_depot_node nw d) (nw_sdepots nw).
Proof.
  intros Hn Hv He Hh Et.
  destruct (arc_into nw ty slots NWF Hty CD FW Hvis n e Hn Hv He Hh) as (q & Hq & G & T). rewrite T in Et.
  destruct G as [G|G].
  - destruct (act_nd _ _ _ FW q G) as (_ & _ & E & _). rewrite E, (Hres q G) in Et. discriminate Et.
  - destruct (sdepot_nd _ _ _ FW q G) as (_ & E & _). rewrite E, tail_of_fr_depot in Et.
    inversion Et; subst d. destruct (wf_sdepots _ _ _ FW q G) as (_ & _ & Cq). rewrite Cq. exact G.
Qed.
End First.

(** * 2. per type, on a loaded network *)
(* what the rest needs of the tours decoded for one type *)
Definition type_ok (nw : network) (ty : Z) (slots : list (node_id * Z)) (tours : list (list node_id)) : Prop :=
  (forall t, In t tours ->
     exists sd mid ed, t = sd :: mid ++ [ed] /\ In sd (nw_sdepots nw) /\ is_start_depot (nd nw sd) = true /\
       is_end_depot (nd nw ed) = true /\ mid <> [] /\
       (forall n, In n mid -> In n (service_nodes nw ty) \/ In n (map fst slots)) /\
       (forall a b, In (a, b) (windows t) -> can_reach nw a b = true)) /\
  (forall s, In s (service_nodes nw ty) ->
     visits tours s <= match maximal_formation_count_for nw s with Some l => l | None => 100 end) /\
  (forall m c, In (m, c) slots -> visits tours m = c).

Lemma cf_shape_loaded i perm nw ty slots f order tours :
  decode_hyps i perm nw ty slots f order -> decode nw ty slots order = Ok tours ->
  forall t, In t tours ->
     exists sd mid ed, t = sd :: mid ++ [ed] /\ In sd (nw_sdepots nw) /\ is_start_depot (nd nw sd) = true /\
       is_end_depot (nd nw ed) = true /\ mid <> [] /\
       (forall n, In n mid -> In n (service_nodes nw ty) \/ In n (map fst slots)) /\
       (forall a b, In (a, b) (windows t) -> can_reach nw a b = true).
Proof.
  intros (V & PO & Uu & L & Hty & Hnd & Hsl & FE & OK) E t Ht.
  destruct (load_wf_partial i perm nw V PO L) as (WF & DP & _).
  destruct (load_inv i perm nw V L) as (trips & n0 & p1 & En & Hn0 & R & G & Ne). rewrite En in *.
  set (N := Lnet i perm trips (Len n0) p1) in *.
  pose proof (L4_side_conditions i perm trips (Len n0) p1 WF DP ty Hty slots Hnd Hsl) as SC.
  pose proof (L4_side_conditions2 i perm trips (Len n0) p1 WF ty Hty slots Hnd Hsl) as SC2.
  fold N in SC, SC2.
  destruct (shape_level2 N ty slots f order SC SC2 FE OK tours t E Ht) as (s & mid & e & Et & Hs & He & Hmid & Hw).
  destruct (cf_tour_nodes N ty slots f order SC SC2 OK tours t E Ht)
    as (d & a & r & Et' & (n1 & e1 & Hn1 & Hv1 & He1 & Hh1 & Ht1) & Hacts).
  assert (Es : s = get_start_depot_node N d /\ mid ++ [e] = a :: r).
  { rewrite Et in Et'. inversion Et'. auto. }
  destruct Es as [Es Emid].
  exists s, mid, e. split; [exact Et|]. split; [|split; [exact Hs|split; [exact He|split; [exact Hmid|split; [|exact Hw]]]]].
  - rewrite Es.
    apply (cf_depot_tail_listed N ty slots WF Hty
             (L4_codes i perm trips (Len n0) p1 ty Hty slots Hnd Hsl)
             (L4_flow_wf i perm trips (Len n0) p1 WF ty Hty slots Hsl)
             (L4_vis i perm trips (Len n0) p1 ty slots)
             (L4_res i perm trips (Len n0) p1 WF ty Hty slots Hsl) n1 e1 d Hn1 Hv1 He1 Hh1 Ht1).
  - intros y Hy. destruct (cf_in_mid_window mid e y Hy) as (z & Hz). rewrite Emid in Hz.
    pose proof (Hacts y z Hz) as Ha. unfold acts in Ha. apply in_app_or in Ha. exact Ha.
Qed.

(** ** facts about loaded networks, for arbitrary [nw] with [load i perm = Ok nw] *)
Section NetFactsLoaded.
Variable i : instance.
Variable perm : list Z.
Variable nw : network.
Hypothesis V : valid_instance_b i = true.
Hypothesis Uu : inst_unsigned i.
Hypothesis PO : perm_ok i perm.
Hypothesis L : load i perm = Ok nw.

Lemma nf_svc ty s : In ty (type_ids nw) -> In s (service_nodes nw ty) ->
  is_service (nd nw s) = true /\ vehicle_type_for nw s = ty.
Proof.
  intros Hty Hs. destruct (load_inv i perm nw V L) as (trips & n0 & p1 & En & _). rewrite En in *.
  exact (FlowFacts3.Lsvc_type i perm trips (Len n0) p1 ty Hty s Hs).
Qed.

Lemma nf_maint m : In m (nw_maint nw) -> is_maint (nd nw m) = true /\ 0 <= track_count nw m.
Proof.
  intros Hm. split; [exact (proj1 (RenderFacts4.load_maint_coverable i perm nw L) m Hm)|].
  destruct (load_inv i perm nw V L) as (trips & n0 & p1 & En & _). rewrite En in *.
  exact (FlowFacts3.Ltracks_nonneg i perm trips (Len n0) p1 V m Hm).
Qed.

Lemma nf_mfc n l : In n (all_service_nodes nw) -> maximal_formation_count_for nw n = Some l -> 0 <= l.
Proof.
  intros Hn Hl. destruct (load_inv i perm nw V L) as (trips & n0 & p1 & En & _ & R & _). rewrite En in *.
  apply (Permutation_in _ (Lall_service i perm trips (Len n0) p1)) in Hn.
  destruct (FlowFacts3.Lsvc_ids_nd i perm trips (Len n0) p1 n Hn) as (st & E & Hst).
  assert (RI : incl trips (trip_records i)) by (rewrite R; apply incl_refl).
  exact (FlowFacts3.Lmfc_nonneg i perm trips (Len n0) p1 V Uu RI n st l E Hst Hl).
Qed.

Lemma nf_sd_known n : In n (nw_sdepots nw) -> has_node nw n = true.
Proof. exact (EndToEndFacts.dl_s_known nw (EndToEndFacts.load_depot_lists i perm nw L) n). Qed.

Lemma nf_maint_nodup : NoDup (nw_maint nw).
Proof.
  destruct (RenderFacts4.load_maint_coverable i perm nw L) as [_ N].
  unfold coverable_nodes in N. exact (RenderFacts4.nodup_app_r _ _ N).
Qed.

(* the tours decoded for one type *)
Lemma nf_type_ok ty slots f order tours :
  In ty (type_ids nw) -> NoDup (map fst slots) ->
  (forall m c, In (m, c) slots -> In m (nw_maint nw) /\ 0 <= c <= track_count nw m) ->
  feasible (build_flow_network nw ty slots) f = true ->
  order_ok_b nw ty slots order (build_flow_network nw ty slots) f = true ->
  no_direct_units nw ty slots f -> decode nw ty slots order = Ok tours ->
  type_ok nw ty slots tours.
Proof.
  intros Hty Hnd Hsl FE OK NDU E.
  assert (DH : decode_hyps i perm nw ty slots f order).
  { unfold decode_hyps. split; [exact V|]. split; [exact PO|]. split; [exact Uu|]. split; [exact L|].
    split; [exact Hty|]. split; [exact Hnd|]. split; [exact Hsl|]. split; [exact FE|exact OK]. }
  pose proof (cf_shape_loaded i perm nw ty slots f order tours DH E) as SH.
  assert (TS : tours_shape nw ty slots tours).
  { intros t Ht. destruct (SH t Ht) as (sd & mid & ed & Et & _ & Hs & He & _ & Hm & _). exists sd, ed, mid. auto. }
  assert (NDp : forall x, In x (service_nodes nw ty ++ map fst slots) -> is_depot (nd nw x) = false).
  { intros x Hx. apply in_app_or in Hx. destruct Hx as [Hx|Hx].
    - destruct (nf_svc ty x Hty Hx) as [Q _]. destruct (nd nw x); try discriminate Q. reflexivity.
    - apply in_map_iff in Hx. destruct Hx as ([m c] & <- & Hin). cbn [fst].
      destruct (nf_maint m (proj1 (Hsl m c Hin))) as [Q _]. destruct (nd nw m); try discriminate Q. reflexivity. }
  assert (CD : codes_distinct nw ty slots).
  { destruct (load_inv i perm nw V L) as (trips & n0 & p1 & En & _). rewrite En in *.
    exact (L4_codes i perm trips (Len n0) p1 ty Hty slots Hnd Hsl). }
  pose proof (decode_decomposes i perm nw ty slots f order tours DH NDU E) as DC.
  destruct (decomposition_covers_under_nondepot nw ty slots f tours NDp CD TS FE DC) as (C1 & C2 & _).
  split; [exact SH|]. split; [|exact C2].
  intros s Hs. exact (proj2 (C1 s Hs)).
Qed.
End NetFactsLoaded.

(** * 3. all types together *)
Lemma cf_known nw n : is_start_depot (nd nw n) = false -> has_node nw n = true.
Proof.
  unfold nd, has_node. destruct (assoc nid_eqb n (nw_nodes nw)); [reflexivity|]. cbn. intros Q. discriminate Q.
Qed.

Lemma cf_kinds (x : node) :
  (is_service x = true -> is_maint x = false /\ is_start_depot x = false /\ is_end_depot x = false) /\
  (is_maint x = true -> is_service x = false /\ is_start_depot x = false /\ is_end_depot x = false) /\
  (is_start_depot x = true -> is_service x = false /\ is_maint x = false /\ is_end_depot x = false) /\
  (is_end_depot x = true -> is_service x = false /\ is_maint x = false /\ is_start_depot x = false).
Proof. destruct x; cbn; repeat split; try reflexivity; try discriminate. Qed.

(* a non-depot node outside the type's trips and slots is on no tour of the type *)
Lemma cf_visits_other nw ty slots tours n :
  type_ok nw ty slots tours -> is_depot (nd nw n) = false ->
  ~ In n (service_nodes nw ty) -> ~ In n (map fst slots) -> visits tours n = 0.
Proof.
  intros (SH & _ & _) Hd H1 H2. apply cf_visits_notin. intros t Ht Hn.
  destruct (SH t Ht) as (sd & mid & ed & Et & _ & Hs & He & _ & Hm & _). subst t.
  unfold is_depot in Hd. apply orb_false_iff in Hd. destruct Hd as [D1 D2].
  destruct Hn as [Hn|Hn]; [subst sd; congruence|].
  apply in_app_or in Hn. destruct Hn as [Hn|[Hn|[]]]; [|subst ed; congruence].
  destruct (Hm n Hn); contradiction.
Qed.

Section Main.
Variable i : instance.
Variable perm : list Z.
Variable nw : network.
Variable a : allot.
Variable flows : Z -> flow.
Variable orders : Z -> node_id -> list Z.
Variable dec : Z -> list (list node_id).
Hypothesis V : valid_instance_b i = true.
Hypothesis Uu : inst_unsigned i.
Hypothesis PO : perm_ok i perm.
Hypothesis L : load i perm = Ok nw.
Hypothesis D : distribute nw = Ok a.
Hypothesis SST : start_stage_tours nw a flows orders dec.

Lemma cf_awt : allot_within_tracks nw a.
Proof. exact (SlotDistFacts.distribute_within_tracks nw a (nf_maint_nodup i perm nw L) D). Qed.

Lemma cf_keys_nodup : NoDup (map fst a).
Proof. destruct cf_awt as (K & _). rewrite K. apply SlotDistFacts.type_ids_nd. Qed.

Definition slots_good (slots : list (node_id * Z)) : Prop :=
  NoDup (map fst slots) /\ forall m c, In (m, c) slots -> In m (nw_maint nw) /\ 1 <= c <= track_count nw m.

Lemma cf_per_type ty : In ty (type_ids nw) ->
  exists slots, In (ty, slots) a /\ slots_good slots /\ type_ok nw ty slots (dec ty).
Proof.
  intros Hty. destruct (SST ty Hty) as (slots & Hs & FE & NDU & OK & E).
  unfold slots_of in Hs. destruct (assoc Z.eqb ty a) as [sl|] eqn:Ea; cbn [unwrap_opt] in Hs; [|discriminate Hs].
  inversion Hs; subst sl. apply SlotDistFacts.assoc_z_some_in in Ea.
  destruct cf_awt as (_ & A2 & _). destruct (A2 ty slots Ea) as [NDs Hsl].
  exists slots. split; [exact Ea|]. split; [split; [exact NDs|exact Hsl]|].
  apply (nf_type_ok i perm nw V Uu PO L ty slots (flows ty) (orders ty) (dec ty) Hty NDs); try assumption.
  intros m c Hin. destruct (Hsl m c Hin) as [H1 H2]. split; [exact H1|lia].
Qed.

Lemma cf_slots_unique ty s1 s2 : In (ty, s1) a -> In (ty, s2) a -> s1 = s2.
Proof.
  intros H1 H2. pose proof (cf_assoc_z_nodup_in ty a s1 cf_keys_nodup H1) as E1.
  pose proof (cf_assoc_z_nodup_in ty a s2 cf_keys_nodup H2) as E2. congruence.
Qed.

(* the nodes of one of the tours *)
Lemma cf_tour ty p : In (ty, p) (all_tours nw dec) ->
  In ty (type_ids nw) /\
  exists slots sd mid ed, slots_good slots /\ p = sd :: mid ++ [ed] /\ In sd (nw_sdepots nw) /\
    is_start_depot (nd nw sd) = true /\ is_end_depot (nd nw ed) = true /\ mid <> [] /\
    (forall n, In n mid -> In n (service_nodes nw ty) \/ In n (map fst slots)) /\
    (forall x y, In (x, y) (windows p) -> can_reach nw x y = true).
Proof.
  intros H. apply cf_all_tours_in in H. destruct H as [Hty Hp]. split; [exact Hty|].
  destruct (cf_per_type ty Hty) as (slots & _ & SG & (SH & _)).
  destruct (SH p Hp) as (sd & mid & ed & Q). exists slots, sd, mid, ed. split; [exact SG|exact Q].
Qed.

(* a node in the middle of a tour of type ty: a trip of the type or a maintenance slot *)
Lemma cf_mid_kind ty slots n : In ty (type_ids nw) -> slots_good slots ->
  In n (service_nodes nw ty) \/ In n (map fst slots) ->
  (is_service (nd nw n) = true /\ vehicle_type_for nw n = ty) \/ is_maint (nd nw n) = true.
Proof.
  intros Hty [_ Hsl] [H|H].
  - left. exact (nf_svc i perm nw V L ty n Hty H).
  - right. apply in_map_iff in H. destruct H as ([m c] & <- & Hin). cbn [fst].
    exact (proj1 (nf_maint i perm nw V L m (proj1 (Hsl m c Hin)))).
Qed.

(** ** the four predicates *)
Theorem cf_paths : tours_are_paths nw (all_tours nw dec).
Proof.
  intros ty p H. destruct (cf_tour ty p H) as (Hty & slots & sd & mid & ed & SG & Ep & _ & _ & _ & Hmid & Hm & Hw).
  split; [rewrite Ep; discriminate|]. split; [exact Hw|].
  destruct mid as [|x mid]; [congruence|].
  apply existsb_exists. exists x. split; [rewrite Ep; right; left; reflexivity|].
  unfold node_is_depot, is_depot.
  destruct (cf_mid_kind ty slots x Hty SG (Hm x (or_introl eq_refl))) as [[K _]|K].
  - destruct (proj1 (cf_kinds (nd nw x)) K) as (_ & -> & ->). reflexivity.
  - destruct (proj1 (proj2 (cf_kinds (nd nw x))) K) as (_ & -> & ->). reflexivity.
Qed.

Theorem cf_known_all : tours_known nw (all_tours nw dec).
Proof.
  intros ty p n H Hn. destruct (cf_tour ty p H) as (Hty & slots & sd & mid & ed & SG & Ep & Hsd & _ & He & _ & Hm & _).
  subst p. destruct Hn as [Hn|Hn]; [subst sd; exact (nf_sd_known i perm nw L n Hsd)|].
  apply cf_known. apply in_app_or in Hn. destruct Hn as [Hn|[Hn|[]]].
  - destruct (cf_mid_kind ty slots n Hty SG (Hm n Hn)) as [[K _]|K].
    + exact (proj1 (proj2 (proj1 (cf_kinds (nd nw n)) K))).
    + exact (proj1 (proj2 (proj1 (proj2 (cf_kinds (nd nw n))) K))).
  - subst ed. exact (proj2 (proj2 (proj2 (proj2 (proj2 (cf_kinds (nd nw n)))) He))).
Qed.

Theorem cf_typed : tours_typed nw (all_tours nw dec).
Proof.
  intros ty p H. destruct (cf_tour ty p H) as (Hty & slots & sd & mid & ed & SG & Ep & _ & Hs & He & _ & Hm & _).
  split; [exact Hty|]. split; [|exists sd, mid, ed; auto].
  apply forallb_forall. intros n Hn. unfold compatible_with_vehicle_type. subst p.
  destruct Hn as [Hn|Hn].
  - subst sd. destruct (proj1 (proj2 (proj2 (cf_kinds (nd nw n)))) Hs) as (-> & _). reflexivity.
  - apply in_app_or in Hn. destruct Hn as [Hn|[Hn|[]]].
    + destruct (cf_mid_kind ty slots n Hty SG (Hm n Hn)) as [[K T]|K].
      * rewrite K. apply Z.eqb_eq. exact T.
      * destruct (proj1 (proj2 (cf_kinds (nd nw n))) K) as (-> & _). reflexivity.
    + subst ed. destruct (proj2 (proj2 (proj2 (cf_kinds (nd nw n)))) He) as (-> & _). reflexivity.
Qed.

(** ** within the limits: visits over all tours = sum over the types *)
Lemma cf_visits_all n : visits (map snd (all_tours nw dec)) n = z_sum (map (fun ty => visits (dec ty) n) (type_ids nw)).
Proof. rewrite cf_all_tours_snd. apply cf_visits_flat. Qed.

(* a service trip is visited only by the tours of its own type *)
Lemma cf_service_visits n l : In n (all_service_nodes nw) -> maximal_formation_count_for nw n = Some l ->
  visits (map snd (all_tours nw dec)) n <= l.
Proof.
  intros Hn Hl. rewrite cf_visits_all.
  assert (K : is_service (nd nw n) = true).
  { unfold all_service_nodes in Hn. apply filter_In in Hn. exact (proj2 Hn). }
  destruct (proj1 (cf_kinds (nd nw n)) K) as (KM & KS & KE).
  assert (KD : is_depot (nd nw n) = false) by (unfold is_depot; rewrite KS, KE; reflexivity).
  assert (Hnot_slot : forall slots, slots_good slots -> ~ In n (map fst slots)).
  { intros slots [_ Hsl] H. apply in_map_iff in H. destruct H as ([m c] & E & Hin). cbn [fst] in E. subst m.
    pose proof (proj1 (nf_maint i perm nw V L n (proj1 (Hsl n c Hin)))) as Q. congruence. }
  apply (cf_zs_single Z.eq_dec (fun ty => visits (dec ty) n) (vehicle_type_for nw n) l (type_ids nw)).
  - apply SlotDistFacts.type_ids_nd.
  - exact (nf_mfc i perm nw V Uu L n l Hn Hl).
  - intros ty Hty NE. destruct (cf_per_type ty Hty) as (slots & _ & SG & TO).
    apply (cf_visits_other nw ty slots (dec ty) n TO KD); [|exact (Hnot_slot slots SG)].
    intros Hs. apply NE. symmetry. exact (proj2 (nf_svc i perm nw V L ty n Hty Hs)).
  - intros Hty. destruct (cf_per_type _ Hty) as (slots & _ & SG & TO).
    destruct (in_dec nid_eq_dec n (service_nodes nw (vehicle_type_for nw n))) as [Hs|Hs].
    + destruct TO as (_ & C1 & _). pose proof (C1 n Hs) as Q. rewrite Hl in Q. exact Q.
    + rewrite (cf_visits_other nw _ slots _ n TO KD Hs (Hnot_slot slots SG)).
      exact (nf_mfc i perm nw V Uu L n l Hn Hl).
Qed.

(* a maintenance slot is visited by the tours of a type as often as the type was allotted it *)
Lemma cf_maint_visits_type m ty slots : In m (nw_maint nw) -> In (ty, slots) a -> visits (dec ty) m = count_in m slots.
Proof.
  intros Hm Hin.
  assert (Hty : In ty (type_ids nw)).
  { destruct cf_awt as (K & _). rewrite <- K. apply in_map_iff. exists (ty, slots). auto. }
  destruct (cf_per_type ty Hty) as (slots' & Hin' & SG & TO).
  rewrite (cf_slots_unique ty slots slots' Hin Hin'). clear Hin slots.
  pose proof (proj1 (nf_maint i perm nw V L m Hm)) as K.
  destruct (proj1 (proj2 (cf_kinds (nd nw m))) K) as (KV & KS & KE).
  assert (KD : is_depot (nd nw m) = false) by (unfold is_depot; rewrite KS, KE; reflexivity).
  unfold count_in.
  destruct (in_dec nid_eq_dec m (map fst slots')) as [Hs|Hs].
  - apply in_map_iff in Hs. destruct Hs as ([m' c] & E & Hc). cbn [fst] in E. subst m'.
    rewrite (SlotDistFacts.assoc_nid_nodup_in m slots' c (proj1 SG) Hc).
    destruct TO as (_ & _ & C2). exact (C2 m c Hc).
  - rewrite (SlotDistFacts.assoc_nid_none m slots' Hs).
    apply (cf_visits_other nw ty slots' (dec ty) m TO KD); [|exact Hs].
    intros Q. pose proof (proj1 (nf_svc i perm nw V L ty m Hty Q)). congruence.
Qed.

Lemma cf_maint_visits m : In m (nw_maint nw) -> visits (map snd (all_tours nw dec)) m <= track_count nw m.
Proof.
  intros Hm. rewrite cf_visits_all. destruct cf_awt as (K & _ & A3).
  rewrite <- K, map_map.
  rewrite (map_ext_in (fun x => visits (dec (fst x)) m) (fun '(_, slots) => count_in m slots)).
  - pose proof (A3 m) as Q. pose proof (proj2 (nf_maint i perm nw V L m Hm)). lia.
  - intros [ty slots] Hin. cbn [fst]. exact (cf_maint_visits_type m ty slots Hm Hin).
Qed.

Theorem cf_limits : tours_within_limits nw (all_tours nw dec).
Proof.
  intros n Hn. unfold coverable_nodes in Hn. apply in_app_or in Hn. unfold limit_ok. destruct Hn as [Hn|Hn].
  - assert (K : is_service (nd nw n) = true).
    { unfold all_service_nodes in Hn. apply filter_In in Hn. exact (proj2 Hn). }
    destruct (nd nw n) eqn:En; try discriminate K.
    destruct (maximal_formation_count_for nw n) as [l|] eqn:El; [|exact I].
    exact (cf_service_visits n l Hn El).
  - pose proof (proj1 (nf_maint i perm nw V L n Hn)) as K.
    destruct (nd nw n) eqn:En; try discriminate K.
    exact (cf_maint_visits n Hn).
Qed.
End Main.

(** * 4. the statements *)
Theorem decoded_tours_feed_pipeline : stmt_decoded_tours_feed_pipeline.
Proof.
  intros i perm nw a flows orders dec V Uu PO L D SST.
  split; [exact (cf_paths i perm nw a flows orders dec V Uu PO L D SST)|].
  split; [exact (cf_known_all i perm nw a flows orders dec V Uu PO L D SST)|].
  split; [exact (cf_typed i perm nw a flows orders dec V Uu PO L D SST)|].
  exact (cf_limits i perm nw a flows orders dec V Uu PO L D SST).
Qed.

Theorem solve_returns_given_flows : stmt_solve_returns_given_flows.
Proof.
  intros i perm nw a flows orders dec V Uu PC PO L DHN D SST FF pick1 pick2 PK1 PK2.
  destruct (decoded_tours_feed_pipeline i perm nw a flows orders dec V Uu PO L D SST) as (TP & TK & TT & TL).
  exact (SearchTermFacts.whole_pipeline_returns_loaded i perm nw V Uu PC PO L DHN (all_tours nw dec) TP TK TT TL FF
           pick1 pick2 PK1 PK2).
Qed.

Print Assumptions decoded_tours_feed_pipeline.
Print Assumptions solve_returns_given_flows.
