(* ChainStmts.v — C06 / C14 / C16: the start stage feeds the rest of the pipeline.  The tours decoded (Decode.v) from ANY
   feasible flows of the per-type networks built for the DISTRIBUTED slots (SlotDist.v) — one flow and one in-edge order per
   vehicle type, no unit running straight from a start depot into an end depot — satisfy every hypothesis that the pipeline
   theorems (from_tours_total, pipeline_never_crashes_loaded, whole_pipeline_returns_loaded, end_to_end) put on "the flow
   tours": they are valid Paths over known nodes, typed, and within the formation and track limits (the track limit summed
   over ALL types: that is where distribute_within_tracks enters).  With a fleet that fits the overflow depot (true of an
   optimal flow; stated as a hypothesis on the flow) the whole pipeline returns.  What remains an oracle between the listing
   and the answer: the external flow solver (a feasible flow of that kind exists: circulation_feasible_distributed) and the
   two picks.  Proofs: ChainFacts.v. *)
From RS Require Import Base Network NetSpec LoadStmts LoadFacts Tour TourStmts Transition TransSpec Schedule SchedInv SchedStruct
  Swaps SwapsStmts2 PipelineSched CoverStmts EndToEndStmts NoPanicStmts NoPanicFactsA PipelineTotalStmts LocalSearch LSStmts
  LSInst TOpt TOptStmts2 Render PipelineOptStmts SearchTermStmts Flow F32 SlotDist SlotDistStmts Decode DecodeStmts.

Definition start_stage_tours (nw : network) (a : allot) (flows : Z -> flow) (orders : Z -> node_id -> list Z)
           (dec : Z -> list (list node_id)) : Prop :=
  forall ty, In ty (type_ids nw) -> exists slots,
    slots_of a ty = Ok slots /\
    feasible (build_flow_network nw ty slots) (flows ty) = true /\
    no_direct_units nw ty slots (flows ty) /\
    order_ok_b nw ty slots (orders ty) (build_flow_network nw ty slots) (flows ty) = true /\
    decode nw ty slots (orders ty) = Ok (dec ty).

Definition all_tours (nw : network) (dec : Z -> list (list node_id)) : list (Z * list node_id) :=
  flat_map (fun ty => map (fun t => (ty, t)) (dec ty)) (type_ids nw).

Definition stmt_decoded_tours_feed_pipeline : Prop :=
  forall i perm nw a flows orders dec,
    valid_instance_b i = true -> inst_unsigned i -> perm_ok i perm -> load i perm = Ok nw ->
    distribute nw = Ok a -> start_stage_tours nw a flows orders dec ->
    tours_are_paths nw (all_tours nw dec) /\ tours_known nw (all_tours nw dec) /\
    tours_typed nw (all_tours nw dec) /\ tours_within_limits nw (all_tours nw dec).

(* ... and with a fleet that fits the overflow depot the whole pipeline returns: search, optimisation, alignment, rendering *)
Definition stmt_solve_returns_given_flows : Prop :=
  forall i perm nw a flows orders dec,
    valid_instance_b i = true -> inst_unsigned i -> params_costs_nonneg (i_params i) -> perm_ok i perm ->
    load i perm = Ok nw -> dh_dists_nonneg_b nw = true ->
    distribute nw = Ok a -> start_stage_tours nw a flows orders dec ->
    fleet_fits_overflow nw (all_tours nw dec) ->
    forall pick1 pick2, pick_ok schedule ls_obj pick1 -> pick_ok transition topt_obj pick2 ->
      exists s0 s1 fuel1 ls steps fuel2 cfuel trans final out,
        from_tours nw (all_tours nw dec) = Ok s0 /\ improve_depots nw s0 None = Ok s1 /\
        run schedule ls_obj (ls_neighbors nw) pick1 fuel1 s1 = (ls, steps, true) /\
        optimised nw pick2 fuel2 cfuel ls trans /\
        reassign_end_depots_consistent nw (set_next_day_transitions ls trans) = Ok final /\
        render nw final = Ok out.
