(* CircStmts.v — C06/C14: the circulation problem that solve_for_vehicle_type hands to the flow solver (whose answer it
   unwraps) is feasible for every network loaded from a valid instance, every listed type and every slot allotment
   within the track counts. Proof in FlowFacts3.v. (The first statement of this, FlowStmts.stmt_circulation_feasible,
   quantifies over arbitrary network records and is refuted there; the hypothesis "limit <= arc bound" that the first
   proof attempt left over was a genuine defect of the code, repaired by "fix: flow arcs carry as many vehicles as the
   longest formation of the type's trips".) *)
From RS Require Import Base Network NetSpec LoadStmts LoadFacts EndToEndStmts Tour Flow.

Definition stmt_circulation_feasible_loaded : Prop :=
  forall i perm nw ty slots,
    valid_instance_b i = true -> perm_ok i perm -> inst_unsigned i -> load i perm = Ok nw ->
    In ty (type_ids nw) ->
    NoDup (map fst slots) ->
    (forall m c, In (m, c) slots -> In m (nw_maint nw) /\ 0 <= c <= track_count nw m) ->
    exists f, feasible (build_flow_network nw ty slots) f = true.
