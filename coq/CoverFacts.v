(* CoverFacts.v — proofs for CoverStmts.v (property C07 on the functional model).

   Proved exactly as stated (for every network):
     improving_path_unserved        : forall nw, stmt_improving_path_unserved nw
     final_stages_keep_unserved     : forall nw, stmt_final_stages_keep_unserved nw

   Statements 1, 2 and 5 are FALSE as stated: nothing in [net_ok_b] / [demand_ok] (nor in [valid_instance_b]) excludes
   a NEGATIVE formation limit.  With limit l < 0 the invariant FormLimitsOK reads  length f <= Z.max 0 l = 0  (no
   vehicle at all), so the real shortfall is  passengers + seated,  while [lb_at] computes with k = Z.min req l = l < 0
   vehicles and yields  passengers - l*cap + seated - l*seats,  which is strictly LARGER: "lower_bound" is then above
   the unserved passengers of every schedule.  (In the Rust code the limits are unsigned, so this is an artefact of the
   model's Z-typed limits, not an operation sequence of the real code; limit = 0 is harmless.)
     covered_is_lower_bound_refuted, unserved_at_least_lower_bound_refuted, pipeline_keeps_lower_bound_refuted
   Strongest true variants: the same statements with the one extra hypothesis [limits_nonneg nw]
   (every formation limit of a service node is >= 0):
     covered_is_lower_bound_under_limits_nonneg, unserved_at_least_lower_bound_under_limits_nonneg,
     pipeline_keeps_lower_bound_under_limits_nonneg. *)
From Coq Require Import Sorted.
From RS Require Import Base BaseFacts Network NetSpec NetFacts Tour TourSpec TourStmts TourFacts TourValidFacts.
From RS Require Import Transition TransSpec Schedule SchedInv SchedObs SchedStruct SchedCostsFacts SchedUnservedFacts.
From RS Require Import SchedViolFacts SchedListFacts SchedToursFacts SchedFormsFacts SchedFormLimFacts SchedUsageFacts.
From RS Require Import SchedFrameStmts SchedFrameFacts Swaps SwapsStmts SwapsFacts SwapsStmts2 SwapsFacts2 PipelineSched.
From RS Require Import PipelineSchedFacts Output OutStmts OutFacts LoadStmts LoadFacts CoverStmts.
From RS Require TransStmts TransFacts.
Local Open Scope Z_scope.

(** * generic sums *)
Lemma z_sum_map_add {A} (f g : A -> Z) l :
  z_sum (map f l) + z_sum (map g l) = z_sum (map (fun x => f x + g x) l).
Proof. induction l as [|x l IH]; cbn [map]; [reflexivity|]. rewrite !z_sum_cons. lia. Qed.

Lemma z_sum_map_le {A} (f g : A -> Z) l :
  (forall x, In x l -> f x <= g x) -> z_sum (map f l) <= z_sum (map g l).
Proof.
  induction l as [|x l IH]; intros H; cbn [map]; [unfold z_sum; cbn; lia|]. rewrite !z_sum_cons.
  assert (f x <= g x) by (apply H; now left).
  assert (z_sum (map f l) <= z_sum (map g l)) by (apply IH; intros y Hy; apply H; now right). lia.
Qed.

Lemma z_sum_map_eq {A} (f g : A -> Z) l :
  (forall x, In x l -> f x = g x) -> z_sum (map f l) = z_sum (map g l).
Proof. intros H. f_equal. apply map_ext_in. exact H. Qed.

(** the extra hypothesis: no negative formation limit *)
Definition limits_nonneg (nw : network) : Prop :=
  forall n l, In n (all_service_nodes nw) -> formation_limit nw n = Some l -> 0 <= l.

Section Node.
Variable nw : network.

Lemma service_in n : In n (all_service_nodes nw) -> is_service (nd nw n) = true.
Proof. unfold all_service_nodes. intros H. apply filter_In in H. apply H. Qed.

(** every entry of the formation of a service node carries the trip's own type *)
Lemma form_types s n f :
  FormsOK nw s -> ToursOK nw s -> In n (all_service_nodes nw) -> nget n (s_forms s) = Some f ->
  forall v ty, In (v, ty) f -> ty = vehicle_type_for nw n.
Proof.
  intros FO TO Hn G v ty Hin.
  apply (fo_member nw s FO n f v ty G) in Hin. destruct Hin as (Gv & t & Gt & Hnt).
  destruct (to_real nw s TO v t Gt) as (ty' & Gv' & RT).
  rewrite Gv in Gv'. inversion Gv'; subst ty'; clear Gv'.
  unfold real_tour_ok in RT. apply andb_true_iff in RT. destruct RT as [_ RT].
  rewrite forallb_forall in RT. specialize (RT n Hnt).
  unfold compatible_with_vehicle_type in RT. rewrite (service_in n Hn) in RT.
  apply Z.eqb_eq in RT. now symmetry.
Qed.

Lemma sum_same_type (g : Z -> Z) T (f : list (vehicle_id * Z)) :
  (forall v ty, In (v, ty) f -> ty = T) ->
  z_sum (map (fun '(_, ty) => g ty) f) = Z.of_nat (length f) * g T.
Proof.
  induction f as [|[v ty] f IH]; intros H.
  - unfold z_sum. cbn. lia.
  - cbn [map]. rewrite z_sum_cons. rewrite IH by (intros v' ty' Hin; apply (H v' ty'); now right).
    rewrite (H v ty) by now left. cbn [length]. lia.
Qed.

(** the per-node shortfall of a stored formation is the shortfall of (length f) vehicles of the trip's type *)
Lemma unserved_node_shortfall s n vt :
  FormsOK nw s -> ToursOK nw s -> In n (all_service_nodes nw) ->
  vtype_of nw (vehicle_type_for nw n) = Some vt ->
  fst (unserved_at_node nw n (form_at s n)) + snd (unserved_at_node nw n (form_at s n)) =
  shortfall (passengers_of nw n) (seated_of nw n) (Z.of_nat (length (form_at s n))) (vt_cap vt) (vt_seats vt).
Proof.
  intros FO TO Hn Hvt. unfold unserved_at_node, shortfall. cbn [fst snd].
  assert (HT : forall v ty, In (v, ty) (form_at s n) -> ty = vehicle_type_for nw n).
  { unfold form_at. destruct (nget n (s_forms s)) as [f|] eqn:G; [|intros v ty []].
    eapply form_types; eauto. }
  rewrite (sum_same_type (type_cap nw) _ _ HT), (sum_same_type (type_seats nw) _ _ HT).
  unfold type_cap, type_seats. rewrite Hvt. reflexivity.
Qed.

Lemma form_len_limit s n l :
  FormLimitsOK nw s -> In n (all_service_nodes nw) -> formation_limit nw n = Some l ->
  Z.of_nat (length (form_at s n)) <= Z.max 0 l.
Proof.
  intros FL Hn Hl. unfold form_at. destruct (nget n (s_forms s)) as [f|] eqn:G; [|cbn [length]; lia].
  specialize (FL n f G). unfold form_len_ok in FL.
  pose proof (service_in n Hn) as Sv. destruct (nd nw n) as [d|sv|m|d]; try discriminate Sv.
  rewrite max_formation_spec, Hl in FL. exact FL.
Qed.

(** statement 2 per node *)
Lemma node_at_least_lb s n :
  limits_nonneg nw -> demand_ok nw ->
  FormLimitsOK nw s -> FormsOK nw s -> ToursOK nw s -> In n (all_service_nodes nw) ->
  lb_at nw n <= fst (unserved_at_node nw n (form_at s n)) + snd (unserved_at_node nw n (form_at s n)).
Proof.
  intros LN DO FL FO TO Hn.
  destruct (DO n Hn) as (vt & Hvt & Hc & Hs & Hp & Hse).
  rewrite (unserved_node_shortfall s n vt FO TO Hn Hvt).
  apply lb_is_lower_bound; try assumption; [lia|].
  intros l Hl. pose proof (form_len_limit s n l FL Hn Hl). pose proof (LN n l Hn Hl). lia.
Qed.

(** statement 1 per node *)
Lemma node_covered_eq_lb s n :
  limits_nonneg nw -> demand_ok nw ->
  FormLimitsOK nw s -> FormsOK nw s -> ToursOK nw s -> In n (all_service_nodes nw) ->
  demanded nw n <= Z.of_nat (length (form_at s n)) ->
  fst (unserved_at_node nw n (form_at s n)) + snd (unserved_at_node nw n (form_at s n)) = lb_at nw n.
Proof.
  intros LN DO FL FO TO Hn Cov.
  destruct (DO n Hn) as (vt & Hvt & Hc & Hs & Hp & Hse).
  rewrite (unserved_node_shortfall s n vt FO TO Hn Hvt).
  destruct (req_covers nw n vt Hvt Hc Hs) as [R1 R2]. cbv zeta in R1, R2.
  unfold demanded in Cov. unfold lb_at. rewrite Hvt. cbv zeta.
  set (req := number_of_vehicles_required_to_serve nw (vehicle_type_for nw n) n) in *.
  set (k := Z.of_nat (length (form_at s n))) in *.
  unfold shortfall.
  destruct (formation_limit nw n) as [l|] eqn:Hl.
  - pose proof (form_len_limit s n l FL Hn Hl) as Hk. fold k in Hk. pose proof (LN n l Hn Hl) as Hl0.
    destruct (Z.le_ge_cases req l) as [C|C].
    + rewrite Z.min_l in * by exact C. nia.
    + rewrite Z.min_r in * by lia. assert (k = l) by lia. subst l. reflexivity.
  - nia.
Qed.
End Node.

Lemma unserved_sum_split nw s :
  UnservedOK nw s ->
  unserved_sum s =
  z_sum (map (fun n => fst (unserved_at_node nw n (form_at s n)) + snd (unserved_at_node nw n (form_at s n)))
             (all_service_nodes nw)).
Proof.
  intros [_ E]. unfold unserved_sum. rewrite E. cbn [fst snd]. apply z_sum_map_add.
Qed.

(** * statements 1 and 2 under [limits_nonneg] *)
Theorem covered_is_lower_bound_under_limits_nonneg : forall nw,
  limits_nonneg nw -> stmt_covered_is_lower_bound nw.
Proof.
  intros nw LN OK DO s UO FL FO TO Cov.
  rewrite (unserved_sum_split nw s UO). unfold lower_bound.
  apply z_sum_map_eq. intros n Hn. apply node_covered_eq_lb; auto.
Qed.

Theorem unserved_at_least_lower_bound_under_limits_nonneg : forall nw,
  limits_nonneg nw -> stmt_unserved_at_least_lower_bound nw.
Proof.
  intros nw LN OK DO s UO FL FO TO.
  rewrite (unserved_sum_split nw s UO). unfold lower_bound.
  apply z_sum_map_le. intros n Hn. apply node_at_least_lb; auto.
Qed.

(** * statement 3 *)
Theorem improving_path_unserved : forall nw, stmt_improving_path_unserved nw.
Proof.
  intros nw s s' P. induction P as [s|s l c s1 s2 Hn Hin LT P IH]; [lia|].
  unfold lex4_lt, obj_of in LT. lia.
Qed.

Lemma improving_ls_path nw s s' : improving_path nw s s' -> ls_path nw s s'.
Proof. induction 1; [apply lp_refl|eapply lp_step; eauto]. Qed.

(** * statement 4 *)
Theorem final_stages_keep_unserved : forall nw, stmt_final_stages_keep_unserved nw.
Proof.
  intros nw ls trans final R H.
  apply SchedCostsFacts.reachable_inv in R.
  set (s := set_next_day_transitions ls trans) in *.
  assert (RK : real_vehicles s) by (apply (inv_real nw ls R)).
  assert (DK : dummy_dummies s) by (apply (inv_dummy nw ls R)).
  destruct (frame_consistent_under_keys nw s final RK DK H) as (_ & _ & _ & A4 & _).
  rewrite A4. reflexivity.
Qed.

(** * statement 5 under [limits_nonneg] *)
Section Pipe.
Variable nw : network.
Hypothesis OK : net_ok_b nw = true.
Hypothesis ML : maint_listed_ok nw.
Hypothesis ND : NoDup (coverable_nodes nw).
Hypothesis HM : forall n, In n (nw_maint nw) -> is_service (nd nw n) = false.

Lemma wreachable_invs s : wreachable nw s ->
  reachable nw s /\ UnservedOK nw s /\ FormLimitsOK nw s /\ FormsOK nw s /\ ToursOK nw s.
Proof.
  intros W. destruct (wreachable_sub nw s W) as (RV & RD & RR).
  split; [exact RR|]. split; [|split; [|split]].
  - exact (reachable_unserved nw ND HM s RR).
  - exact (reachable_form_limits nw s RR).
  - exact (vreachable_forms_under_maint_listed nw OK ND ML s RV).
  - exact (vreachable_tours nw OK s RV).
Qed.

Theorem pipeline_keeps_lower_bound_core :
  limits_nonneg nw -> demand_ok nw ->
  forall tours s0 s1 ls trans final,
    tours_are_paths nw tours -> from_tours nw tours = Ok s0 -> Covered nw s0 ->
    improve_depots nw s0 None = Ok s1 -> improving_path nw s1 ls -> trans_valid nw ls trans ->
    reassign_end_depots_consistent nw (set_next_day_transitions ls trans) = Ok final ->
    unserved_sum final = lower_bound nw.
Proof.
  intros LN DO tours s0 s1 ls trans final TP F Cov I1 IP TV C.
  pose proof (from_tours_wreachable nw tours s0 TP F) as W0.
  assert (W1 : wreachable nw s1) by (eapply wr_step; [exact W0|eapply ws_improve; exact I1]).
  assert (WL : wreachable nw ls).
  { eapply ls_path_wreachable; [exact OK|exact ML|exact W1|]. now apply improving_ls_path. }
  destruct (wreachable_invs s0 W0) as (R0 & U0 & L0 & F0 & T0).
  destruct (wreachable_invs ls WL) as (RL & UL & LL & FL & TL).
  (* s0 is at the lower bound *)
  pose proof (covered_is_lower_bound_under_limits_nonneg nw LN OK DO s0 U0 L0 F0 T0 Cov) as E0.
  (* improve_depots keeps the unserved passengers *)
  destruct (frame_improve_reachable nw s0 None s1 R0 I1) as (_ & _ & _ & A4 & _).
  assert (E1 : unserved_sum s1 = unserved_sum s0) by (unfold unserved_sum; rewrite A4; reflexivity).
  (* the search does not raise them, and they cannot drop below the bound *)
  pose proof (improving_path_unserved nw s1 ls IP) as Le.
  pose proof (unserved_at_least_lower_bound_under_limits_nonneg nw LN OK DO ls UL LL FL TL) as Ge.
  (* the final stages keep them *)
  pose proof (final_stages_keep_unserved nw ls trans final RL C) as EF.
  unfold unserved_sum in *. rewrite EF. lia.
Qed.
End Pipe.

Theorem pipeline_keeps_lower_bound_under_limits_nonneg : forall nw,
  limits_nonneg nw -> stmt_pipeline_keeps_lower_bound nw.
Proof.
  intros nw LN OK ML ND HM DO tours s0 s1 ls trans final.
  now apply pipeline_keeps_lower_bound_core.
Qed.

(** * executable reading of the extra hypothesis, and: every valid instance without negative limits loads to a
      network that satisfies it *)
Definition olim_nonneg (o : option Z) : bool := match o with Some l => 0 <=? l | None => true end.
Definition limits_nonneg_b (nw : network) : bool :=
  forallb (fun n => olim_nonneg (formation_limit nw n)) (all_service_nodes nw).
Lemma limits_nonneg_b_ok nw : limits_nonneg_b nw = true -> limits_nonneg nw.
Proof.
  unfold limits_nonneg_b. rewrite forallb_forall. intros H n l Hn Hl. specialize (H n Hn). rewrite Hl in H.
  now apply Z.leb_le.
Qed.

Definition inst_limits_nonneg_b (i : instance) : bool :=
  forallb (fun vt => olim_nonneg (vt_limit vt)) (i_types i) &&
  forallb (fun r => forallb (fun g => olim_nonneg (rs_limit g)) (r_segs r)) (i_routes i).

Lemma nd_service_in nw n s : nd nw n = NService s -> In s (services_of nw).
Proof.
  unfold nd. destruct (assoc nid_eqb n (nw_nodes nw)) as [x|] eqn:E; [|discriminate].
  intros ->. apply (assoc_in nid_eqb nid_eqb_eq) in E.
  unfold services_of. apply in_flat_map. exists (n, NService s). split; [exact E|now left].
Qed.

Theorem load_limits_nonneg : forall i perm nw,
  valid_instance_b i = true -> inst_limits_nonneg_b i = true -> load i perm = Ok nw -> limits_nonneg nw.
Proof.
  intros i perm nw V IL L.
  unfold inst_limits_nonneg_b in IL. apply andb_true_iff in IL. destruct IL as [IT IR].
  rewrite forallb_forall in IT, IR.
  assert (TY : nw_types nw = i_types i).
  { destruct (load_inv i perm nw V L) as (trips & n0 & p1 & -> & _). reflexivity. }
  destruct (load_nodes i perm nw V L) as [PM _].
  intros n l Hn Hl. pose proof (service_in nw n Hn) as Sv.
  destruct (nd nw n) as [d|s|m|d] eqn:En; try discriminate Sv.
  assert (SL : olim_nonneg (st_limit s) = true).
  { apply nd_service_in in En. apply (Permutation.Permutation_in _ PM) in En.
    unfold trip_records in En. apply in_flat_map in En. destruct En as (dp & _ & En).
    apply in_flat_map in En. destruct En as (sg & _ & En).
    destruct (lookup_rseg i dp sg) as [[r g]|] eqn:E; [|destruct En].
    destruct En as [<-|[]]. cbn [st_limit].
    unfold lookup_rseg in E.
    destruct (nth_error (i_routes i) (d_route dp)) as [r'|] eqn:E1; [|discriminate E].
    destruct (nth_error (r_segs r') (ds_rseg sg)) as [g'|] eqn:E2; [|discriminate E].
    inversion E; subst r' g'; clear E.
    apply nth_error_In in E1, E2. specialize (IR r E1). rewrite forallb_forall in IR. exact (IR g E2). }
  assert (TL : olim_nonneg (match vtype_of nw (vehicle_type_for nw n) with Some vt => vt_limit vt | None => None end) = true).
  { unfold vtype_of. rewrite TY. destruct (vehicle_type_for nw n <? 0); [reflexivity|].
    destruct (nth_error (i_types i) (Z.to_nat (vehicle_type_for nw n))) as [vt|] eqn:E; [|reflexivity].
    apply nth_error_In in E. exact (IT vt E). }
  unfold formation_limit in Hl. rewrite En in Hl.
  destruct (match vtype_of nw (vehicle_type_for nw n) with Some vt => vt_limit vt | None => None end) as [a|];
    destruct (st_limit s) as [b|]; cbn [omin] in Hl; inversion Hl; subst l; cbn [olim_nonneg] in SL, TL;
    try apply Z.leb_le in SL; try apply Z.leb_le in TL; lia.
Qed.

(** * the statements as given are false: a valid instance with a negative formation limit.
      One vehicle type (capacity 100, seats 50, no limit), one trip (10 passengers, 5 seated) on a route segment whose
      formation limit is -1.  [valid_instance_b] accepts it, [load] builds [nwN] (service node SV 4), [net_ok_b] and
      [demand_ok] hold.  The empty start schedule (from_tours []) has formation [] at SV 4: FormLimitsOK holds
      (0 <= Z.max 0 (-1)), Covered holds (demanded = Z.min 1 (-1) = -1 <= 0), and it leaves 10 + 5 = 15 unserved, whereas
      lb_at = (10 + 1*100) + (5 + 1*50) = 165.  The pipeline run: from_tours [], improve_depots None, no search step,
      the schedule's own (empty) transitions, reassign_end_depots_consistent. *)
Definition instN : instance := {|
  i_types := [ {| vt_cap := 100; vt_seats := 50; vt_limit := None |} ];
  i_nlocs := 2;
  i_depots := Some [ {| id_loc := 0; id_cap := 5; id_allowed := [(0, None)] |} ];
  i_routes := [ {| r_type := 0; r_segs := [ {| rs_origin := 0; rs_dest := 1; rs_dist := 1000; rs_dur := 3600; rs_limit := Some (-1) |} ] |} ];
  i_departures := [ {| d_route := 0; d_segs := [ {| ds_rseg := 0; ds_dep := 43200; ds_pass := 10; ds_seated := 5 |} ] |} ];
  i_slots := None;
  i_dh_dur := [[0; 600]; [600; 0]];
  i_dh_dist := [[0; 1000]; [1000; 0]];
  i_params := {| p_forbid := false; p_min := 0; p_dht := 0; p_maxdist := 0;
                 c_staff := 1; c_service := 1; c_maint := 0; c_dh := 5; c_idle := 1 |} |}.

Definition nwN : network := Eval vm_compute in get_ok (load instN []) nw_dflt.
Lemma instN_valid : valid_instance_b instN = true.
Proof. vm_compute. reflexivity. Qed.
Lemma nwN_loaded : load instN [] = Ok nwN.
Proof. vm_compute. reflexivity. Qed.
Lemma nwN_ok : net_ok_b nwN = true.
Proof. vm_compute. reflexivity. Qed.
Lemma nwN_services : all_service_nodes nwN = [SV 4].
Proof. vm_compute. reflexivity. Qed.
Lemma nwN_limit : formation_limit nwN (SV 4) = Some (-1).
Proof. vm_compute. reflexivity. Qed.
Lemma nwN_limits_negative : limits_nonneg_b nwN = false.
Proof. vm_compute. reflexivity. Qed.
Lemma nwN_maint : maint_listed_ok nwN.
Proof. intros m Hm. vm_compute in Hm. destruct Hm. Qed.
Lemma nwN_nodup : NoDup (coverable_nodes nwN).
Proof.
  assert (E : coverable_nodes nwN = [SV 4]) by (vm_compute; reflexivity). rewrite E.
  constructor; [intros []|constructor].
Qed.
Lemma nwN_maint_service : forall n, In n (nw_maint nwN) -> is_service (nd nwN n) = false.
Proof. intros n Hn. vm_compute in Hn. destruct Hn. Qed.
Lemma nwN_demand_ok : demand_ok nwN.
Proof.
  intros n Hn. rewrite nwN_services in Hn. destruct Hn as [<-|[]].
  exists {| vt_cap := 100; vt_seats := 50; vt_limit := None |}.
  split; [vm_compute; reflexivity|]. vm_compute. repeat split; congruence.
Qed.
Lemma nwN_lower_bound : lower_bound nwN = 165.
Proof. vm_compute. reflexivity. Qed.

Definition sN0 : schedule := Eval vm_compute in get_ok (from_tours nwN []) s_dflt.
Definition sN1 : schedule := Eval vm_compute in get_ok (improve_depots nwN sN0 None) s_dflt.
Definition sNf : schedule :=
  Eval vm_compute in get_ok (reassign_end_depots_consistent nwN (set_next_day_transitions sN1 (s_trans sN1))) s_dflt.
Lemma sN0_ok : from_tours nwN [] = Ok sN0.
Proof. vm_compute. reflexivity. Qed.
Lemma sN1_ok : improve_depots nwN sN0 None = Ok sN1.
Proof. vm_compute. reflexivity. Qed.
Lemma sNf_ok : reassign_end_depots_consistent nwN (set_next_day_transitions sN1 (s_trans sN1)) = Ok sNf.
Proof. vm_compute. reflexivity. Qed.
Lemma sN0_unserved : unserved_sum sN0 = 15 /\ unserved_sum sNf = 15.
Proof. vm_compute. auto. Qed.
Lemma toursN_paths : tours_are_paths nwN [].
Proof. intros ty p []. Qed.
Lemma sN0_wreachable : wreachable nwN sN0.
Proof. apply (from_tours_wreachable nwN [] sN0 toursN_paths sN0_ok). Qed.
Lemma sN0_covered : Covered nwN sN0.
Proof.
  intros n Hn. rewrite nwN_services in Hn. destruct Hn as [<-|[]]. vm_compute. discriminate.
Qed.
Lemma sN0_invs : UnservedOK nwN sN0 /\ FormLimitsOK nwN sN0 /\ FormsOK nwN sN0 /\ ToursOK nwN sN0.
Proof. apply (wreachable_invs nwN nwN_ok nwN_maint nwN_nodup nwN_maint_service sN0 sN0_wreachable). Qed.

Lemma transN_valid : trans_valid nwN sN1 (s_trans sN1).
Proof.
  split; [vm_compute; reflexivity|].
  intros ty tr G. change (s_trans sN1) with [(0, {| tr_cycles := []; tr_viol := 0; tr_count := 0; tr_lookup := []; tr_empty := [] |})] in G.
  unfold zget in G. cbn [assoc] in G. destruct (ty =? 0) eqn:E; [|discriminate G].
  apply Z.eqb_eq in E. subst ty. inversion G; subst tr.
  assert (EI : vehicles_iter sN1 0 = []) by (vm_compute; reflexivity). rewrite EI.
  apply RS.TransFacts.empty_inv.
Qed.

Theorem covered_is_lower_bound_refuted_nwN : ~ stmt_covered_is_lower_bound nwN.
Proof.
  intros H. destruct sN0_invs as (U & L & F & T).
  pose proof (H nwN_ok nwN_demand_ok sN0 U L F T sN0_covered) as E.
  rewrite nwN_lower_bound, (proj1 sN0_unserved) in E. discriminate E.
Qed.
Theorem unserved_at_least_lower_bound_refuted_nwN : ~ stmt_unserved_at_least_lower_bound nwN.
Proof.
  intros H. destruct sN0_invs as (U & L & F & T).
  pose proof (H nwN_ok nwN_demand_ok sN0 U L F T) as E.
  rewrite nwN_lower_bound, (proj1 sN0_unserved) in E. lia.
Qed.
Theorem pipeline_keeps_lower_bound_refuted_nwN : ~ stmt_pipeline_keeps_lower_bound nwN.
Proof.
  intros H.
  pose proof (H nwN_ok nwN_maint nwN_nodup nwN_maint_service nwN_demand_ok [] sN0 sN1 sN1 (s_trans sN1) sNf
                toursN_paths sN0_ok sN0_covered sN1_ok (ip_refl nwN sN1) transN_valid sNf_ok) as E.
  rewrite nwN_lower_bound, (proj2 sN0_unserved) in E. discriminate E.
Qed.

Theorem covered_is_lower_bound_refuted : ~ (forall nw, stmt_covered_is_lower_bound nw).
Proof. intros H. exact (covered_is_lower_bound_refuted_nwN (H nwN)). Qed.
Theorem unserved_at_least_lower_bound_refuted : ~ (forall nw, stmt_unserved_at_least_lower_bound nw).
Proof. intros H. exact (unserved_at_least_lower_bound_refuted_nwN (H nwN)). Qed.
Theorem pipeline_keeps_lower_bound_refuted : ~ (forall nw, stmt_pipeline_keeps_lower_bound nw).
Proof. intros H. exact (pipeline_keeps_lower_bound_refuted_nwN (H nwN)). Qed.

(** the extra hypothesis is satisfiable: the loaded network SchedFrameFacts.nwF (no limits at all) has it *)
Example nwF_limits_nonneg : limits_nonneg nwF.
Proof. apply limits_nonneg_b_ok. vm_compute. reflexivity. Qed.

(** hence, for every network loaded from a valid instance without negative limits, the statements exactly as given *)
Theorem cover_statements_loaded : forall i perm nw,
  valid_instance_b i = true -> inst_limits_nonneg_b i = true -> load i perm = Ok nw ->
  stmt_covered_is_lower_bound nw /\ stmt_unserved_at_least_lower_bound nw /\ stmt_pipeline_keeps_lower_bound nw.
Proof.
  intros i perm nw V IL L. pose proof (load_limits_nonneg i perm nw V IL L) as LN.
  split; [|split].
  - now apply covered_is_lower_bound_under_limits_nonneg.
  - now apply unserved_at_least_lower_bound_under_limits_nonneg.
  - now apply pipeline_keeps_lower_bound_under_limits_nonneg.
Qed.

Print Assumptions covered_is_lower_bound_under_limits_nonneg.
Print Assumptions unserved_at_least_lower_bound_under_limits_nonneg.
Print Assumptions improving_path_unserved.
Print Assumptions final_stages_keep_unserved.
Print Assumptions pipeline_keeps_lower_bound_under_limits_nonneg.
Print Assumptions load_limits_nonneg.
Print Assumptions cover_statements_loaded.
Print Assumptions covered_is_lower_bound_refuted.
Print Assumptions unserved_at_least_lower_bound_refuted.
Print Assumptions pipeline_keeps_lower_bound_refuted.

Check (improving_path_unserved : forall nw, stmt_improving_path_unserved nw).
Check (final_stages_keep_unserved : forall nw, stmt_final_stages_keep_unserved nw).
Check (covered_is_lower_bound_under_limits_nonneg : forall nw, limits_nonneg nw -> stmt_covered_is_lower_bound nw).
Check (unserved_at_least_lower_bound_under_limits_nonneg : forall nw, limits_nonneg nw -> stmt_unserved_at_least_lower_bound nw).
Check (pipeline_keeps_lower_bound_under_limits_nonneg : forall nw, limits_nonneg nw -> stmt_pipeline_keeps_lower_bound nw).
