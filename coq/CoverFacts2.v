(* CoverFacts2.v — proofs of CoverStmts2.v, both exactly as stated:
     from_tours_formations    : forall nw, stmt_from_tours_formations nw
     flow_gives_covered_start : forall nw, stmt_flow_gives_covered_start nw

   1. Length invariant of one spawn.  update_train_formation with provider None and a real receiver appends exactly
      one entry to the formation of every non-depot node of [moved], once per occurrence ([utf_len]); the tour built
      by spawn_vehicle_for_path passes [tour_new], so its first and last node are depots and add_suitable_depots
      only prepended / appended / replaced depots: the non-depot nodes of the tour are those of the path, in order
      ([asd_filter]).  Hence one spawn raises the formation length of every non-depot node n by the number of
      occurrences of n in the path ([spawn_len]); summing over the fold of from_tours and starting from the empty
      formations gives [visits].  Coverable nodes are non-depots under maint_listed_ok
      (SchedFormsFacts.coverable_nondepot).  The hypotheses [tours_are_paths] and [NoDup (coverable_nodes nw)] are
      not used for the first statement (only the key discipline [Inv] of reachable schedules is: the fresh vehicle id
      is not a dummy).
   2. The second statement follows from the first, FlowFacts2.decomposition_covers_under_nondepot for the type of the
      trip, OutFacts.max_formation_spec, and monotonicity of [visits] in the tour list.  If the type of a trip is not a
      type of the network its required number is 0 and the demand is <= 0. *)
From Coq Require Import List ZArith Bool Lia Arith.
From RS Require Import Base BaseFacts Network NetSpec NetFacts Tour TourSpec TourStmts TourFacts TourValidFacts.
From RS Require Import Transition Schedule SchedInv SchedObs SchedStruct SchedCostsFacts SchedUnservedFacts
  SchedListFacts SchedToursFacts SchedFormsFacts Swaps SwapsStmts2 PipelineSched.
From RS Require Import Flow FlowStmts FlowFacts FlowFacts2 Output OutStmts OutFacts CoverStmts CoverStmts2.
Import ListNotations.
Local Open Scope Z_scope.

(** * list helpers *)
Lemma c2_last_indep {A} (l : list A) d d' : l <> [] -> last l d = last l d'.
Proof.
  induction l as [|a l IH]; [congruence|]. intros _.
  destruct l as [|b r]; [reflexivity|].
  change (last (b :: r) d = last (b :: r) d'). apply IH. discriminate.
Qed.

Lemma c2_last_app1 {A} (l : list A) x d : last (l ++ [x]) d = x.
Proof. apply last_last. Qed.

Lemma c2_last_cons {A} (a : A) l d : l <> [] -> last (a :: l) d = last l d.
Proof. destruct l; [congruence|reflexivity]. Qed.

Lemma c2_ok_inj {A} (a b : A) : Ok a = Ok b -> a = b.
Proof. intros H; inversion H; reflexivity. Qed.

Section L.
Variable nw : network.
Notation dep := (node_is_depot nw).
Notation nondepb := (fun n => negb (node_is_depot nw n)).
Notation d0 := (SD 0).
Notation F := (filter (fun n => negb (node_is_depot nw n))).

Definition flen (fm : list (node_id * list (vehicle_id * Z))) (n : node_id) : nat :=
  match nget n fm with Some f => length f | None => 0%nat end.

Lemma form_at_flen s n : length (form_at s n) = flen (s_forms s) n.
Proof. unfold form_at, flen. destruct (nget n (s_forms s)); reflexivity. Qed.

(** * one formation step: spawning appends *)
Lemma repl_append s f r rty n f' :
  is_dummy s r = false -> replacement_in_formation nw s f None (Some (r, rty)) n = Ok f' -> f' = f ++ [(r, rty)].
Proof.
  intros D H. unfold replacement_in_formation in H. rewrite D in H. cbn [negb] in H.
  destruct (_ && _) in H; [discriminate|]. destruct (_ && _) in H; [discriminate|].
  inversion H; reflexivity.
Qed.

Lemma utf_len s r rty moved : is_dummy s r = false -> forall fm uns fm' uns',
  update_train_formation nw s fm uns None (Some (r, rty)) moved = Ok (fm', uns') ->
  forall n, flen fm' n = (flen fm n + cnd nw n moved)%nat.
Proof.
  intros Dr. unfold update_train_formation.
  induction moved as [|m l IH]; intros fm uns fm' uns' H n.
  - cbn [fold_left] in H. inversion H; subst. unfold cnd. cbn [filter]. rewrite cn_nil. lia.
  - cbn [fold_left] in H. destruct uns as [ua ub]. cbn [bind] in H.
    match type of H with fold_left ?G _ _ = _ =>
      assert (Hno : forall q, is_ok q = false -> fold_left G l q = q)
        by (apply fold_nonok; intros [] ? Hr; try discriminate Hr; reflexivity) end.
    destruct (is_depot (nd nw m)) eqn:Edep.
    + rewrite (IH _ _ _ _ H n). unfold cnd. cbn [filter]. unfold node_is_depot. rewrite Edep. cbn [negb]. reflexivity.
    + destruct (nget m fm) as [f1|] eqn:En; cbn [unwrap_opt bind] in H.
      2:{ rewrite Hno in H by reflexivity. discriminate. }
      destruct (replacement_in_formation nw s f1 None (Some (r, rty)) m) as [f1'| | |] eqn:Er; cbn [bind] in H;
        try (rewrite Hno in H by reflexivity; discriminate).
      rewrite (IH _ _ _ _ H n). clear IH H Hno.
      apply (repl_append _ _ _ _ _ _ Dr) in Er. subst f1'.
      assert (K : cnd nw n (m :: l) = ((if nid_dec m n then 1 else 0) + cnd nw n l)%nat).
      { unfold cnd. cbn [filter]. unfold node_is_depot. rewrite Edep. cbn [negb]. apply cn_cons. }
      rewrite K. unfold flen. rewrite (nset_key _ _ _ _ En), nget_nrepl.
      destruct (nid_eqb n m) eqn:Enm.
      * apply nid_eqb_eq in Enm. subst m. rewrite En. destruct (nid_dec n n) as [_|C]; [|congruence].
        rewrite app_length. cbn [length]. lia.
      * destruct (nid_dec m n) as [->|_]; [rewrite nid_eqb_refl in Enm; discriminate|]. lia.
Qed.

(** * add_suitable_depots only touches depots (given that the result starts and ends with a depot) *)
Lemma F_app l1 l2 : F (l1 ++ l2) = F l1 ++ F l2.
Proof. apply filter_app. Qed.
Lemma F_dep1 x : dep x = true -> F [x] = [].
Proof. intros H. cbn [filter]. rewrite H. reflexivity. Qed.
Lemma F_cons_dep x l : dep x = true -> F (x :: l) = F l.
Proof. intros H. cbn [filter]. rewrite H. reflexivity. Qed.
Lemma F_snoc_dep x l : dep x = true -> F (l ++ [x]) = F l.
Proof. intros H. rewrite F_app, (F_dep1 x H). apply app_nil_r. Qed.

Lemma asd_filter s ty path nodes :
  add_suitable_depots nw s ty path = Ok nodes ->
  dep (hd d0 nodes) = true -> dep (last nodes d0) = true -> (3 <= length nodes)%nat ->
  F nodes = F path.
Proof.
  unfold add_suitable_depots. destruct path as [|first rest]; [discriminate|].
  destruct (nw_overflow nw) as [[o1 os] oe].
  change (is_depot (nd nw first)) with (dep first).
  change (is_depot (nd nw (last (first :: rest) first))) with (dep (last (first :: rest) first)).
  destruct (dep first && negb _) eqn:B.
  - apply andb_true_iff in B. destruct B as [Df _].
    intros H Hh Hl Hlen. apply c2_ok_inj in H. cbn [tl] in H.
    rewrite (F_cons_dep first rest Df).
    destruct (dep (last (first :: rest) first)) eqn:Dl.
    + destruct rest as [|b r].
      * subst nodes. cbn in Hlen. lia.
      * change (removelast (os :: b :: r)) with (os :: removelast (b :: r)) in H. subst nodes.
        cbn [app hd] in Hh. rewrite c2_last_app1 in Hl.
        rewrite (F_snoc_dep oe _ Hl), (F_cons_dep os _ Hh).
        assert (NE : b :: r <> []) by discriminate.
        rewrite (c2_last_cons first (b :: r) first NE) in Dl.
        rewrite (app_removelast_last first NE) at 2.
        rewrite (F_snoc_dep _ _ Dl). reflexivity.
    + subst nodes. cbn [app hd] in Hh. rewrite c2_last_app1 in Hl.
      rewrite (F_snoc_dep oe _ Hl), (F_cons_dep os _ Hh). reflexivity.
  - clear B. intros H Hh Hl Hlen.
    assert (Q : exists n1, (if dep first then Ok (first :: rest)
                 else do d <- find_best_start_depot_res nw (s_usage s) ty first; Ok (d :: first :: rest)) = Ok n1 /\
                 n1 <> [] /\ (dep (hd d0 n1) = true -> F n1 = F (first :: rest))).
    { destruct (dep first) eqn:Df.
      - eexists; split; [reflexivity|]. split; [discriminate|]. reflexivity.
      - destruct (find_best_start_depot_res nw (s_usage s) ty first) as [d| | |]; cbn [bind] in H; try discriminate H.
        eexists; split; [reflexivity|]. split; [discriminate|]. cbn [hd]. intros Dd. apply F_cons_dep. exact Dd. }
    destruct Q as (n1 & Q1 & Q2 & Q3). rewrite Q1 in H. cbn [bind] in H.
    destruct (dep (last (first :: rest) first)) eqn:Dl.
    + inversion H; subst n1. apply Q3. exact Hh.
    + destruct (find_best_end_depot nw (last (first :: rest) first)) as [e| | |]; cbn [bind] in H; try discriminate H.
      inversion H; subst nodes; clear H.
      rewrite c2_last_app1 in Hl. rewrite (F_snoc_dep e _ Hl).
      apply Q3. destruct n1; [congruence|exact Hh].
Qed.

Lemma valid_nodes_ends nodes : valid_tour_nodes nw nodes = true ->
  dep (hd d0 nodes) = true /\ dep (last nodes d0) = true /\ (3 <= length nodes)%nat.
Proof.
  intros V. pose proof V as V'. apply valid_tour_nodes_RV in V'.
  split; [apply (RV_ends_dep nw nodes _ V'); left; reflexivity|].
  split; [apply (RV_ends_dep nw nodes _ V'); right; reflexivity|].
  unfold valid_tour_nodes in V. destruct nodes as [|f t]; [discriminate|].
  apply andb_true_iff in V. destruct V as [V _]. apply andb_true_iff in V. destruct V as [V _].
  apply andb_true_iff in V. destruct V as [_ V]. apply Z.leb_le in V. lia.
Qed.

(** * one spawn *)
Lemma spawn_len s ty path s' v : Inv nw s -> spawn_vehicle_for_path nw s ty path = Ok (s', v) ->
  forall n, dep n = false -> flen (s_forms s') n = (flen (s_forms s) n + cn path n)%nat.
Proof.
  intros I H n D. unfold spawn_vehicle_for_path in H.
  destruct (negb (forallb _ path)); [discriminate|].
  destruct (add_suitable_depots nw s ty path) as [nodes| | |] eqn:AS; cbn [bind] in H; try discriminate H.
  destruct (tour_new nw nodes) as [t| | |] eqn:TN; cbn [bind] in H; try discriminate H.
  destruct (ids_insert ty (Veh (s_counter s)) (s_ids s)) as [ids| | |]; cbn [bind] in H; try discriminate H.
  destruct (update_train_formation nw s (s_forms s) (s_unserved s) None (Some (Veh (s_counter s), ty)) (t_nodes t))
    as [[forms uns]| | |] eqn:U; cbn [bind] in H; try discriminate H.
  mon H. monp H. inversion H; subst; clear H.
  cbn [with_fields s_forms].
  assert (ND : is_dummy s (Veh (s_counter s)) = false).
  { destruct (is_dummy s (Veh (s_counter s))) eqn:Dm; [|reflexivity].
    apply (is_dummy_not_real s _ (inv_dummy nw s I)) in Dm. discriminate. }
  rewrite (utf_len s _ _ _ ND _ _ _ _ U n). f_equal.
  unfold tour_new in TN. destruct nodes as [|a0' ar] eqn:EA; [discriminate|]. rewrite <- EA in *.
  destruct (valid_tour_nodes nw nodes) eqn:V; [|discriminate]. inversion TN; subst t; clear TN.
  cbn [new_computing t_nodes].
  destruct (valid_nodes_ends nodes V) as (Hh & Hl & Hlen).
  rewrite <- (cnd_nondep nw n path D). unfold cnd.
  rewrite (asd_filter s ty path nodes AS Hh Hl Hlen). reflexivity.
Qed.

(** * the fold of from_tours *)
Lemma cn_filter_len l n : Z.of_nat (cn l n) = Z.of_nat (length (filter (nid_eqb n) l)).
Proof.
  induction l as [|a l IH]; [reflexivity|].
  rewrite cn_cons. cbn [filter]. destruct (nid_dec a n) as [->|N].
  - rewrite nid_eqb_refl. cbn [length]. lia.
  - destruct (nid_eqb n a) eqn:E; [apply nid_eqb_eq in E; congruence|]. lia.
Qed.

Lemma visits_cons p ps n : visits (p :: ps) n = Z.of_nat (length (filter (nid_eqb n) p)) + visits ps n.
Proof. unfold visits. cbn [map]. apply z_sum_cons. Qed.

Lemma visits_nonneg ps n : 0 <= visits ps n.
Proof. induction ps as [|p ps IH]; [unfold visits; cbn; lia|]. rewrite visits_cons. lia. Qed.

Notation ft_step := (fun (acc : res schedule) '(ty, path) =>
               do s <- acc;
               match spawn_vehicle_for_path nw s ty path with Ok (s', _) => Ok s' | OutOfFuel => OutOfFuel | _ => Panic end).

Lemma ft_fold (tours : list (Z * list node_id)) : forall (acc : res schedule) s0,
  fold_left ft_step tours acc = Ok s0 ->
  exists sa, acc = Ok sa /\
    (reachable nw sa -> forall n, dep n = false ->
       Z.of_nat (flen (s_forms s0) n) = Z.of_nat (flen (s_forms sa) n) + visits (map snd tours) n).
Proof.
  induction tours as [|[ty p] tours IH]; intros acc s0 H; cbn [fold_left] in H.
  - exists s0. split; [exact H|]. intros _ n _. unfold visits. cbn. lia.
  - destruct (IH _ _ H) as (s1 & E1 & K). clear IH H.
    destruct acc as [sa| | |]; cbn [bind] in E1; try discriminate E1.
    destruct (spawn_vehicle_for_path nw sa ty p) as [[s' v]| | |] eqn:E; try discriminate E1.
    inversion E1; subst s'; clear E1.
    exists sa. split; [reflexivity|]. intros R n D.
    assert (R1 : reachable nw s1) by (eapply r_step; [exact R|eapply st_spawn; exact E]).
    rewrite (K R1 n D). cbn [map snd]. rewrite visits_cons.
    rewrite (spawn_len sa ty p s1 v (SchedCostsFacts.reachable_inv nw sa R) E n D).
    rewrite Nat2Z.inj_add, cn_filter_len. lia.
Qed.

Lemma empty_flen s n : empty_schedule nw = Ok s -> flen (s_forms s) n = 0%nat.
Proof.
  unfold empty_schedule. intros H. mon H. inversion H; subst; clear H. cbn [s_forms].
  unfold flen, nget. induction (coverable_nodes nw) as [|k l IH]; [reflexivity|].
  cbn [map assoc]. destruct (nid_eqb n k); [reflexivity|exact IH].
Qed.

Lemma from_tours_len tours s0 : from_tours nw tours = Ok s0 ->
  forall n, dep n = false -> Z.of_nat (length (form_at s0 n)) = visits (map snd tours) n.
Proof.
  intros H n D. unfold from_tours in H.
  destruct (ft_fold tours _ _ H) as (sa & E & K).
  rewrite form_at_flen, (K (r_empty nw sa E) n D), (empty_flen sa n E). lia.
Qed.
End L.

(** * 1 *)
Theorem from_tours_formations : forall nw, stmt_from_tours_formations nw.
Proof.
  intros nw OK ML ND tours s0 TP H n Hn.
  apply (from_tours_len nw tours s0 H). apply coverable_nondepot; [exact ML|exact Hn].
Qed.

(** * 2 *)
Lemma visits_type_le tours ty n : visits (tours_of_type tours ty) n <= visits (map snd tours) n.
Proof.
  unfold tours_of_type. induction tours as [|[t p] tours IH]; [cbn; lia|].
  cbn [filter map snd]. rewrite visits_cons. destruct (t =? ty).
  - cbn [map snd]. rewrite visits_cons. lia.
  - lia.
Qed.

Lemma vtype_some_in nw ty vt : vtype_of nw ty = Some vt -> In ty (type_ids nw).
Proof.
  unfold vtype_of, type_ids. intros H. destruct (ty <? 0) eqn:L; [discriminate|]. apply Z.ltb_ge in L.
  assert (Q : (Z.to_nat ty < length (nw_types nw))%nat) by (apply nth_error_Some; congruence).
  apply in_map_iff. exists (Z.to_nat ty). split; [lia|]. apply in_seq. lia.
Qed.

Theorem flow_gives_covered_start : forall nw, stmt_flow_gives_covered_start nw.
Proof.
  intros nw OK ML ND slots flows tours s0 TP FT HTY HF HS H100 n Hn.
  assert (Hc : In n (coverable_nodes nw)) by (unfold coverable_nodes; apply in_or_app; left; exact Hn).
  pose proof (from_tours_formations nw OK ML ND tours s0 TP FT n Hc) as L.
  unfold demanded. rewrite <- (max_formation_spec nw n).
  set (ty := vehicle_type_for nw n) in *.
  destruct (vtype_of nw ty) as [vt|] eqn:VT.
  - pose proof (vtype_some_in nw ty vt VT) as Hty.
    pose proof (HF ty Hty) as HF'. cbv zeta in HF'. destruct HF' as (NDp & CD & SH & FE & DE).
    destruct (decomposition_covers_under_nondepot nw ty (slots ty) (flows ty) _ NDp CD SH FE DE) as (C1 & _ & _).
    specialize (C1 n (HS n Hn)). cbv zeta in C1.
    pose proof (visits_type_le tours ty n) as M.
    rewrite L.
    destruct (maximal_formation_count_for nw n) as [l|] eqn:MF.
    + lia.
    + specialize (H100 n Hn MF). fold ty in H100. lia.
  - assert (R0 : number_of_vehicles_required_to_serve nw ty n = 0).
    { unfold number_of_vehicles_required_to_serve. rewrite VT. reflexivity. }
    rewrite R0. destruct (maximal_formation_count_for nw n); lia.
Qed.

Print Assumptions from_tours_formations.
Print Assumptions flow_gives_covered_start.
