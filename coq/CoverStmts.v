(* CoverStmts.v — C07 at the level of the functional model: a schedule whose formations carry min(required, limit)
   vehicles on every departure segment has exactly the lower bound of unserved passengers; local-search steps that
   improve the objective lexicographically never raise the unserved passengers; the stages after the search do not
   touch formations. Proofs in CoverFacts.v. *)
From RS Require Import Base Network NetSpec Tour TourStmts SchedObs Output OutStmts Transition TransSpec Schedule
  SchedInv SchedStruct Swaps SwapsStmts2 PipelineSched.

Section Cv.
Variable nw : network.

Definition unserved_sum (s : schedule) : Z := fst (s_unserved s) + snd (s_unserved s).
(* vehicles the flow network demands on a departure segment: the required number capped by the formation limit *)
Definition demanded (n : node_id) : Z :=
  let req := number_of_vehicles_required_to_serve nw (vehicle_type_for nw n) n in
  match formation_limit nw n with Some l => Z.min req l | None => req end.
Definition Covered (s : schedule) : Prop :=
  forall n, In n (all_service_nodes nw) -> demanded n <= Z.of_nat (length (form_at s n)).

(* type parameters are positive and demands non-negative (valid instances) *)
Definition demand_ok : Prop :=
  forall n, In n (all_service_nodes nw) ->
    exists vt, vtype_of nw (vehicle_type_for nw n) = Some vt /\ 0 < vt_cap vt /\ 0 < vt_seats vt /\
               0 <= passengers_of nw n /\ 0 <= seated_of nw n.

(* 1. covered + invariants => unserved passengers are exactly the instance's lower bound (lower_bound of Output.v) *)
Definition stmt_covered_is_lower_bound : Prop :=
  net_ok_b nw = true -> demand_ok ->
  forall s, UnservedOK nw s -> FormLimitsOK nw s -> FormsOK nw s -> ToursOK nw s -> Covered s ->
    unserved_sum s = lower_bound nw.

(* 2. with the invariants alone the lower bound is a lower bound *)
Definition stmt_unserved_at_least_lower_bound : Prop :=
  net_ok_b nw = true -> demand_ok ->
  forall s, UnservedOK nw s -> FormLimitsOK nw s -> FormsOK nw s -> ToursOK nw s ->
    lower_bound nw <= unserved_sum s.

(* 3. the documented priority order: unserved passengers first *)
Definition obj_of (s : schedule) : Z * Z * Z * Z :=
  (unserved_sum s, s_viol s, Z.of_nat (length (s_vehicles s)), s_costs s).
Definition lex4_lt (a b : Z * Z * Z * Z) : Prop :=
  let '(a1, a2, a3, a4) := a in let '(b1, b2, b3, b4) := b in
  a1 < b1 \/ (a1 = b1 /\ (a2 < b2 \/ (a2 = b2 /\ (a3 < b3 \/ (a3 = b3 /\ a4 < b4))))).
Inductive improving_path : schedule -> schedule -> Prop :=
| ip_refl s : improving_path s s
| ip_step s l c s1 s2 : neighbors nw s = Ok l -> In (c, s1) l -> lex4_lt (obj_of s1) (obj_of s) ->
                        improving_path s1 s2 -> improving_path s s2.
Definition stmt_improving_path_unserved : Prop :=
  forall s s', improving_path s s' -> unserved_sum s' <= unserved_sum s.

(* 4. the stages after the search keep the unserved passengers *)
Definition stmt_final_stages_keep_unserved : Prop :=
  forall ls trans final, reachable nw ls ->
    reassign_end_depots_consistent nw (set_next_day_transitions ls trans) = Ok final ->
    s_unserved final = s_unserved ls.

(* 5. consequence (C07): a covered start schedule stays at the lower bound through every improving search and the
   final stages *)
Definition stmt_pipeline_keeps_lower_bound : Prop :=
  net_ok_b nw = true -> maint_listed_ok nw -> NoDup (coverable_nodes nw) ->
  (forall n, In n (nw_maint nw) -> is_service (nd nw n) = false) -> demand_ok ->
  forall tours s0 s1 ls trans final,
    tours_are_paths nw tours -> from_tours nw tours = Ok s0 -> Covered s0 ->
    improve_depots nw s0 None = Ok s1 -> improving_path s1 ls -> trans_valid nw ls trans ->
    reassign_end_depots_consistent nw (set_next_day_transitions ls trans) = Ok final ->
    unserved_sum final = lower_bound nw.
End Cv.
