(* CoverStmts2.v — closing the loop between the flow (C14) and the covered start schedule (C07): the start schedule
   built by from_tours carries, on every coverable node, exactly as many vehicles as the decoded tours visit it. Hence
   a decomposition of a feasible flow of every type's network (whose node edges demand min(required, limit)) gives a
   covered start schedule, and by CoverStmts.v the pipeline's result has exactly the lower bound of unserved
   passengers. Proofs in CoverFacts2.v. *)
From RS Require Import Base Network NetSpec Tour TourStmts Transition Schedule SchedInv SchedStruct Swaps SwapsStmts2
  PipelineSched Flow FlowStmts CoverStmts.

Section C2.
Variable nw : network.

Definition stmt_from_tours_formations : Prop :=
  net_ok_b nw = true -> maint_listed_ok nw -> NoDup (coverable_nodes nw) ->
  forall tours s0, tours_are_paths nw tours -> from_tours nw tours = Ok s0 ->
    forall n, In n (coverable_nodes nw) ->
      Z.of_nat (length (form_at s0 n)) = visits (map snd tours) n.

(* the tours of type ty among all tours *)
Definition tours_of_type (tours : list (Z * list node_id)) (ty : Z) : list (list node_id) :=
  map snd (filter (fun '(t, _) => t =? ty) tours).

(* every type's tours decompose a feasible flow of that type's network: then the start schedule is covered *)
Definition stmt_flow_gives_covered_start : Prop :=
  net_ok_b nw = true -> maint_listed_ok nw -> NoDup (coverable_nodes nw) ->
  forall (slots : Z -> list (node_id * Z)) (flows : Z -> flow) tours s0,
    tours_are_paths nw tours -> from_tours nw tours = Ok s0 ->
    (forall ty p, In (ty, p) tours -> In ty (type_ids nw)) ->
    (forall ty, In ty (type_ids nw) ->
       let net := build_flow_network nw ty (slots ty) in
       (forall x, In x (service_nodes nw ty ++ map fst (slots ty)) -> is_depot (nd nw x) = false) /\
       codes_distinct nw ty (slots ty) /\ tours_shape nw ty (slots ty) (tours_of_type tours ty) /\
       feasible net (flows ty) = true /\ is_decomposition nw net (flows ty) (tours_of_type tours ty) = true) ->
    (* each service trip belongs to the network of its own type, and the cap 100 of unlimited formations does not bind *)
    (forall n, In n (all_service_nodes nw) -> In n (service_nodes nw (vehicle_type_for nw n))) ->
    (forall n, In n (all_service_nodes nw) -> maximal_formation_count_for nw n = None ->
               number_of_vehicles_required_to_serve nw (vehicle_type_for nw n) n <= 100) ->
    Covered nw s0.
End C2.
