(* Decode.v — functional model of the flow decomposition in solve_for_vehicle_type (solver/src/min_cost_flow_solver.rs,
   "building schedule"): the nodes of the type are visited in the order of `nodes_of_vehicle_type_sorted_by_start`; for each
   service trip, allotted maintenance slot or end depot, every unit of flow entering its left copy is taken in the order in
   which the graph lists the in-edges (an ORACLE here: [order] gives, per visited node, the tail codes of the units in that
   order; the code's order is recorded by the hook and replayed), and
     - a unit coming from a trip / slot `p` extends the tour popped from last_trip_to_tour[p]
       (`.expect("pred not found").pop().unwrap()`: a panic when there is none),
     - a unit coming from a start depot into a trip / slot opens a new tour [start depot; node],
     - a unit from a start depot straight into an end depot is only warned about (it is decoded into no tour).
   Tours are identified by their index in the growing vector, as in the code. *)
From RS Require Import Base Network Flow.

Section Decode.
Variable nw : network.
Variable ty : Z.
Variable slots : list (node_id * Z).
Variable order : node_id -> list Z.        (* per visited node: tail codes of the entering flow units, in the graph's order *)

Definition visit_order : list node_id := map snd (lookup_sorted ty (nw_type_by_start nw)).

(* trip_node of the visited node: None = `continue` *)
Definition visited (n : node_id) : bool :=
  match nd nw n with
  | NService _ => true
  | NEnd _ => true
  | NMaint _ => slot_allotted slots n
  | NStart _ => false
  end.

(* right_rsnode_to_node: the trip / slot with right code c, or the depot *)
Inductive tail := TNode (p : node_id) | TDepot (d : Z) | TUnknown.
Definition tail_of (c : Z) : tail :=
  if c mod 4 =? 3 then TDepot (c / 4)
  else if c mod 4 =? 1 then
    match find (fun '(n, _) => (fr_node n =? c) && negb (is_depot (nd nw n))) (nw_nodes nw) with
    | Some (n, _) => TNode n
    | None => TUnknown
    end
  else TUnknown.

Record dstate := { d_tours : list (list node_id); d_ltt : list (node_id * list nat) }.

Definition ltt_get (l : list (node_id * list nat)) (n : node_id) : option (list nat) := assoc nid_eqb n l.
Fixpoint ltt_set (l : list (node_id * list nat)) (n : node_id) (v : list nat) : list (node_id * list nat) :=
  match l with
  | [] => [(n, v)]
  | (x, w) :: r => if nid_eqb x n then (x, v) :: r else (x, w) :: ltt_set r n v
  end.
(* entry(n).or_default().push(i) *)
Definition ltt_push (l : list (node_id * list nat)) (n : node_id) (i : nat) : list (node_id * list nat) :=
  ltt_set l n (match ltt_get l n with Some v => v ++ [i] | None => [i] end).

Fixpoint push_at {A} (l : list (list A)) (i : nat) (x : A) : list (list A) :=
  match l, i with
  | [], _ => []
  | t :: r, O => (t ++ [x]) :: r
  | t :: r, S j => t :: push_at r j x
  end.

(* one unit of flow entering the visited node [n] from the tail with code [c] *)
Definition decode_unit (n : node_id) (s : dstate) (c : Z) : res dstate :=
  match tail_of c with
  | TNode p =>
      match ltt_get (d_ltt s) p with
      | None => Panic                                   (* expect("pred not found") *)
      | Some v =>
          match rev v with
          | [] => Panic                                 (* pop().unwrap() *)
          | i :: rv =>
              if Nat.ltb i (length (d_tours s)) then
                Ok {| d_tours := push_at (d_tours s) i n;
                      d_ltt := ltt_push (ltt_set (d_ltt s) p (rev rv)) n i |}
              else Panic                                (* tours[existing_tour_index] *)
          end
      end
  | TDepot d =>
      if is_end_depot (nd nw n) then Ok s               (* depot -> depot: warning only *)
      else Ok {| d_tours := d_tours s ++ [[get_start_depot_node nw d; n]];
                 d_ltt := ltt_push (d_ltt s) n (length (d_tours s)) |}
  | TUnknown => Panic                                   (* right_rsnode_to_node[&n] *)
  end.

Definition decode_node (s : dstate) (n : node_id) : res dstate :=
  if visited n then fold_left (fun acc c => do s' <- acc; decode_unit n s' c) (order n) (Ok s) else Ok s.

Definition decode : res (list (list node_id)) :=
  do s <- fold_left (fun acc n => do s' <- acc; decode_node s' n) visit_order (Ok {| d_tours := []; d_ltt := [] |});
  Ok (d_tours s).

(* the oracle is admissible for a flow f on the network: per visited node, the units listed are exactly the positive
   flows of the arcs entering its left copy, each tail as often as its arc carries *)
Definition entering (net : fnet) (f : flow) (n : node_id) : list (Z * Z) :=
  map (fun '(e, x) => (fe_tail e, x)) (filter (fun '(e, x) => (fe_head e =? code_as_head nw n)) (combine net f)).
Definition count_z (c : Z) (l : list Z) : Z := Z.of_nat (length (filter (Z.eqb c) l)).
Definition order_ok_b (net : fnet) (f : flow) : bool :=
  forallb (fun n =>
     negb (visited n) ||
     (forallb (fun '(t, x) => count_z t (order n) =? x) (entering net f n) &&
      forallb (fun c => existsb (fun '(t, _) => t =? c) (entering net f n)) (order n)))
   visit_order.

End Decode.
