(* DecodeFacts.v — proofs of the statements of DecodeStmts.v about the decoding loop modelled in Decode.v. *)
From Coq Require Import Permutation Sorted.
From RS Require Import Base BaseFacts Network NetSpec NetFacts LoadStmts LoadFacts LoadFacts2 EndToEndStmts Tour Flow FlowStmts
  FlowFacts FlowFacts2 FlowFacts3 Decode DecodeStmts.
Import ListNotations.
Open Scope Z_scope.

(** * A. without conservation the decoding panics *)
(* the loaded network nw2 (SV 4 departs before SV 5): the oracle lists, for every node, one unit coming from SV 5;
   the first visited node SV 4 finds no tour waiting at SV 5 *)
Theorem decode_needs_conservation : stmt_decode_needs_conservation.
Proof. exists nw2, 0, slots2, (fun _ => [fr_node (SV 5)]). vm_compute. reflexivity. Qed.

(** * B. the decoding is total *)
(** ** B.0 list helpers *)
Lemma flat_map_split {A B} (F : A -> list B) : forall l X x Y,
  flat_map F l = X ++ x :: Y ->
  exists l1 y l2 a b, l = l1 ++ y :: l2 /\ F y = a ++ x :: b /\ X = flat_map F l1 ++ a /\ Y = b ++ flat_map F l2.
Proof.
  induction l as [|y l IH]; intros X x Y E.
  - destruct X; discriminate E.
  - cbn [flat_map] in E. apply app_eq_app in E. destruct E as (m & [[E1 E2]|[E1 E2]]).
    + (* F y = X ++ m, x :: Y = m ++ flat_map F l *)
      destruct m as [|x' m].
      * cbn [app] in E2. rewrite app_nil_r in E1.
        destruct (IH [] x Y (eq_sym E2)) as (l1 & y' & l2 & a & b & L & Fy & EX & EY).
        exists (y :: l1), y', l2, a, b. split; [rewrite L; reflexivity|]. split; [exact Fy|].
        split; [|exact EY]. cbn [flat_map]. rewrite <- app_assoc, <- EX, app_nil_r. exact (eq_sym E1).
      * cbn [app] in E2. inversion E2; subst x' Y.
        exists [], y, l, X, m. repeat split; auto.
    + (* X = F y ++ m, flat_map F l = m ++ x :: Y *)
      destruct (IH m x Y E2) as (l1 & y' & l2 & a & b & L & Fy & EX & EY).
      exists (y :: l1), y', l2, a, b. split; [rewrite L; reflexivity|]. split; [exact Fy|].
      split; [|exact EY]. cbn [flat_map]. rewrite <- app_assoc, <- EX. exact E1.
Qed.

Lemma NoDup_mid_notin {A} (l1 : list A) n l2 p : NoDup (l1 ++ n :: l2) -> In p l1 -> p <> n /\ ~ In p l2.
Proof.
  intros ND Hp. split.
  - intros ->. apply NoDup_remove_2 in ND. apply ND. apply in_or_app. left. exact Hp.
  - intros H2. apply (NoDup_app_disj l1 (n :: l2) p ND Hp). right. exact H2.
Qed.

(** ** B.1 the table last_trip_to_tour *)
Lemma ltt_get_set l n v p : ltt_get (ltt_set l n v) p = if nid_eqb p n then Some v else ltt_get l p.
Proof.
  unfold ltt_get. induction l as [|[x w] r IH]; cbn [ltt_set assoc].
  - destruct (nid_eqb p n); reflexivity.
  - destruct (nid_eqb x n) eqn:Exn; cbn [assoc].
    + apply nid_eqb_eq in Exn. subst x. destruct (nid_eqb p n); reflexivity.
    + destruct (nid_eqb p x) eqn:Epx.
      * apply nid_eqb_eq in Epx. subst x. rewrite Exn. reflexivity.
      * exact IH.
Qed.

Lemma push_at_length {A} (l : list (list A)) : forall i x, length (push_at l i x) = length l.
Proof. induction l as [|t r IH]; intros [|j] x; cbn [push_at length]; auto. Qed.

Lemma nid_eqb_false a b : a <> b -> nid_eqb a b = false.
Proof. intros H. destruct (nid_eqb a b) eqn:E; [|reflexivity]. apply nid_eqb_eq in E. contradiction. Qed.

Section Run.
Variable nw : network.
Variable ty : Z.
Variable slots : list (node_id * Z).
Variable order : node_id -> list Z.

Definition Lf (s : dstate) (p : node_id) : nat :=
  match ltt_get (d_ltt s) p with Some v => length v | None => 0%nat end.
Definition idx_ok (s : dstate) : Prop :=
  forall p v i, ltt_get (d_ltt s) p = Some v -> In i v -> (i < length (d_tours s))%nat.

(* a unit that continues the tour waiting at p *)
Lemma unit_node n s c p : tail_of nw c = TNode p -> idx_ok s -> (0 < Lf s p)%nat -> p <> n ->
  exists s', decode_unit nw n s c = Ok s' /\ idx_ok s' /\
    forall q, Z.of_nat (Lf s' q) = Z.of_nat (Lf s q) + (if nid_eqb q n then 1 else 0) - (if nid_eqb q p then 1 else 0).
Proof.
  intros Ht IO Hpos Hpn. unfold decode_unit. rewrite Ht. unfold Lf in Hpos.
  destruct (ltt_get (d_ltt s) p) as [v|] eqn:Ev; [|lia].
  destruct (rev v) as [|i rv] eqn:Er.
  { apply (f_equal (@rev nat)) in Er. rewrite rev_involutive in Er. subst v. cbn in Hpos. lia. }
  assert (Ev' : v = rev rv ++ [i]).
  { apply (f_equal (@rev nat)) in Er. rewrite rev_involutive in Er. exact Er. }
  assert (Hi : (i < length (d_tours s))%nat).
  { apply (IO p v i Ev). rewrite Ev'. apply in_or_app. right. left. reflexivity. }
  apply Nat.ltb_lt in Hi as Hi'. rewrite Hi'.
  eexists. split; [reflexivity|].
  assert (Hnp : nid_eqb n p = false) by (apply nid_eqb_false; congruence).
  assert (Hpn' : nid_eqb p n = false) by (apply nid_eqb_false; exact Hpn).
  split.
  - intros q w j. cbn [d_ltt d_tours]. rewrite push_at_length. unfold ltt_push.
    rewrite !ltt_get_set, Hnp.
    destruct (nid_eqb q n) eqn:Eqn.
    + intros Q Hj. inversion Q; subst w; clear Q.
      destruct (ltt_get (d_ltt s) n) as [w0|] eqn:En.
      * apply in_app_or in Hj. destruct Hj as [Hj|[<-|[]]]; [exact (IO n w0 j En Hj)|exact Hi].
      * destruct Hj as [<-|[]]. exact Hi.
    + destruct (nid_eqb q p) eqn:Eqp.
      * intros Q Hj. inversion Q; subst w; clear Q. apply (IO p v j Ev). rewrite Ev'. apply in_or_app. left. exact Hj.
      * intros Q Hj. exact (IO q w j Q Hj).
  - intros q. unfold Lf. cbn [d_ltt]. unfold ltt_push. rewrite !ltt_get_set, Hnp.
    destruct (nid_eqb q n) eqn:Eqn.
    + apply nid_eqb_eq in Eqn. subst q. rewrite Hnp.
      destruct (ltt_get (d_ltt s) n) as [w0|]; [rewrite app_length|]; cbn [length]; lia.
    + destruct (nid_eqb q p) eqn:Eqp.
      * apply nid_eqb_eq in Eqp. subst q. rewrite Ev, Ev', app_length. cbn [length]. lia.
      * destruct (ltt_get (d_ltt s) q); lia.
Qed.

(* a unit that comes from a start depot *)
Lemma unit_depot n s c d : tail_of nw c = TDepot d -> idx_ok s ->
  exists s', decode_unit nw n s c = Ok s' /\ idx_ok s' /\
    forall q, Z.of_nat (Lf s' q) = Z.of_nat (Lf s q) + (if nid_eqb q n && negb (is_end_depot (nd nw n)) then 1 else 0).
Proof.
  intros Ht IO. unfold decode_unit. rewrite Ht. destruct (is_end_depot (nd nw n)).
  - exists s. split; [reflexivity|]. split; [exact IO|]. intros q. rewrite andb_false_r. lia.
  - eexists. split; [reflexivity|]. split.
    + intros q w j. cbn [d_ltt d_tours]. rewrite app_length. cbn [length]. unfold ltt_push. rewrite ltt_get_set.
      destruct (nid_eqb q n) eqn:Eqn.
      * intros Q Hj. inversion Q; subst w; clear Q.
        destruct (ltt_get (d_ltt s) n) as [w0|] eqn:En.
        -- apply in_app_or in Hj. destruct Hj as [Hj|[<-|[]]]; [pose proof (IO n w0 j En Hj); lia|lia].
        -- destruct Hj as [<-|[]]. lia.
      * intros Q Hj. pose proof (IO q w j Q Hj). lia.
    + intros q. unfold Lf. cbn [d_ltt]. unfold ltt_push. rewrite ltt_get_set. rewrite andb_true_r.
      destruct (nid_eqb q n) eqn:Eqn.
      * apply nid_eqb_eq in Eqn. subst q.
        destruct (ltt_get (d_ltt s) n) as [w0|]; [rewrite app_length|]; cbn [length]; lia.
      * destruct (ltt_get (d_ltt s) q); lia.
Qed.

(* what a unit does to the number of tours waiting at q *)
Definition dlt (u : node_id * Z) (q : node_id) : Z :=
  match tail_of nw (snd u) with
  | TNode p => (if nid_eqb q (fst u) then 1 else 0) - (if nid_eqb q p then 1 else 0)
  | TDepot _ => if nid_eqb q (fst u) && negb (is_end_depot (nd nw (fst u))) then 1 else 0
  | TUnknown => 0
  end.
Definition bal (U : list (node_id * Z)) (q : node_id) : Z := z_sum (map (fun u => dlt u q) U).

Lemma bal_app U1 U2 q : bal (U1 ++ U2) q = bal U1 q + bal U2 q.
Proof. unfold bal. rewrite map_app, z_sum_app. reflexivity. Qed.
Lemma bal_cons u U q : bal (u :: U) q = dlt u q + bal U q.
Proof. unfold bal. cbn [map]. rewrite z_sum_cons. reflexivity. Qed.

Definition run (U : list (node_id * Z)) (r : res dstate) : res dstate :=
  fold_left (fun acc u => do s <- acc; decode_unit nw (fst u) s (snd u)) U r.

Lemma run_ok : forall U2 U1 s, idx_ok s -> (forall q, Z.of_nat (Lf s q) = bal U1 q) ->
  (forall X n c Y, U2 = X ++ (n, c) :: Y ->
     tail_of nw c <> TUnknown /\ forall p, tail_of nw c = TNode p -> p <> n /\ 1 <= bal (U1 ++ X) p) ->
  exists s', run U2 (Ok s) = Ok s'.
Proof.
  induction U2 as [|[n c] U2 IH]; intros U1 s IO HL HC.
  - exists s. reflexivity.
  - destruct (HC [] n c U2 eq_refl) as [Hu Hp]. rewrite app_nil_r in Hp.
    assert (St : exists s1, decode_unit nw n s c = Ok s1 /\ idx_ok s1 /\ forall q, Z.of_nat (Lf s1 q) = bal (U1 ++ [(n, c)]) q).
    { destruct (tail_of nw c) as [p|d|] eqn:Et; [| |congruence].
      - destruct (Hp p eq_refl) as [Hpn Hb].
        assert (Hpos : (0 < Lf s p)%nat) by (specialize (HL p); lia).
        destruct (unit_node n s c p Et IO Hpos Hpn) as (s1 & E1 & IO1 & L1).
        exists s1. split; [exact E1|]. split; [exact IO1|]. intros q. rewrite L1, HL, bal_app, bal_cons.
        change (bal [] q) with 0. unfold dlt. cbn [fst snd]. rewrite Et. lia.
      - destruct (unit_depot n s c d Et IO) as (s1 & E1 & IO1 & L1).
        exists s1. split; [exact E1|]. split; [exact IO1|]. intros q. rewrite L1, HL, bal_app, bal_cons.
        change (bal [] q) with 0. unfold dlt. cbn [fst snd]. rewrite Et. lia. }
    destruct St as (s1 & E1 & IO1 & L1).
    unfold run. cbn [fold_left bind fst snd]. rewrite E1.
    apply (IH (U1 ++ [(n, c)]) s1 IO1 L1).
    intros X n' c' Y E. rewrite <- app_assoc. cbn [app].
    apply (HC ((n, c) :: X) n' c' Y). rewrite E. reflexivity.
Qed.

(* the loop as one run over all units *)
Definition units (n : node_id) : list (node_id * Z) :=
  if visited nw slots n then map (pair n) (order n) else [].
Definition all_units : list (node_id * Z) := flat_map units (visit_order nw ty).

Lemma run_fail U : run U Err = Err /\ run U Panic = Panic /\ run U OutOfFuel = OutOfFuel.
Proof. induction U as [|u U IH]; [auto|]. unfold run in *. cbn [fold_left bind]. exact IH. Qed.

Lemma run_app U1 U2 r : run (U1 ++ U2) r = run U2 (run U1 r).
Proof. unfold run. apply fold_left_app. Qed.

Lemma inner_run n : forall cs r,
  fold_left (fun acc c => do s' <- acc; decode_unit nw n s' c) cs r = run (map (pair n) cs) r.
Proof. induction cs as [|c cs IH]; intros r; [reflexivity|]. cbn [fold_left map]. rewrite IH. reflexivity. Qed.

Lemma node_run n r : (do s' <- r; decode_node nw slots order s' n) = run (units n) r.
Proof.
  unfold units, decode_node. destruct r as [s| | |]; cbn [bind].
  - destruct (visited nw slots n); [apply inner_run|reflexivity].
  - symmetry. apply run_fail.
  - symmetry. apply run_fail.
  - symmetry. apply run_fail.
Qed.

Lemma outer_run : forall l r,
  fold_left (fun acc n => do s' <- acc; decode_node nw slots order s' n) l r = run (flat_map units l) r.
Proof.
  induction l as [|n l IH]; intros r; [reflexivity|].
  cbn [fold_left flat_map]. rewrite IH, run_app, node_run. reflexivity.
Qed.

Lemma units_fst n u : In u (units n) -> fst u = n /\ visited nw slots n = true /\ In (snd u) (order n).
Proof.
  unfold units. destruct (visited nw slots n); [|intros []]. intros H. apply in_map_iff in H.
  destruct H as (c & <- & Hc). auto.
Qed.

Lemma bal_nonpos U p : (forall u, In u U -> fst u <> p) -> bal U p <= 0.
Proof.
  induction U as [|u U IH]; intros H; [unfold bal; cbn; lia|].
  rewrite bal_cons. assert (Hu : fst u <> p) by (apply H; left; reflexivity).
  assert (IH' : bal U p <= 0) by (apply IH; intros v Hv; apply H; right; exact Hv).
  assert (Hd : dlt u p <= 0).
  { unfold dlt. rewrite (nid_eqb_false p (fst u)) by congruence. cbn [andb].
    destruct (tail_of nw (snd u)) as [p'|d|]; [destruct (nid_eqb p p')| |]; lia. }
  lia.
Qed.

(* Level 1: no panic, from three facts about the list of units *)
Theorem decode_ok_run :
  NoDup (visit_order nw ty) ->
  (forall l1 n l2 c, visit_order nw ty = l1 ++ n :: l2 -> visited nw slots n = true -> In c (order n) ->
     tail_of nw c <> TUnknown /\ forall p, tail_of nw c = TNode p -> In p l1 /\ bal all_units p = 0) ->
  exists tours, decode nw ty slots order = Ok tours.
Proof.
  intros ND SC. unfold decode. rewrite outer_run. fold all_units.
  set (s0 := {| d_tours := []; d_ltt := [] |}).
  assert (R : exists s', run all_units (Ok s0) = Ok s').
  { apply (run_ok all_units [] s0).
    - intros p v i Q. discriminate Q.
    - intros q. reflexivity.
    - intros X n c Y E. cbn [app]. unfold all_units in E.
      destruct (flat_map_split units _ X (n, c) Y E) as (l1 & y & l2 & a & b & L & Fy & EX & EY).
      assert (Hin : In (n, c) (units y)) by (rewrite Fy; apply in_or_app; right; left; reflexivity).
      destruct (units_fst y _ Hin) as (Hy & Hv & Hc). cbn [fst snd] in Hy, Hc. subst y.
      destruct (SC l1 n l2 c L Hv Hc) as [Hu Hp]. split; [exact Hu|].
      intros p Et. destruct (Hp p Et) as [Hp1 Hb]. rewrite L in ND.
      destruct (NoDup_mid_notin l1 n l2 p ND Hp1) as [Hpn Hp2]. split; [exact Hpn|].
      fold all_units in E. rewrite E in Hb. rewrite bal_app, bal_cons in Hb.
      assert (Hd : dlt (n, c) p = -1).
      { unfold dlt. cbn [fst snd]. rewrite Et, (nid_eqb_false p n Hpn), nid_eqb_refl. reflexivity. }
      assert (HY : bal Y p <= 0).
      { apply bal_nonpos. intros u Hu'. rewrite EY in Hu'. apply in_app_or in Hu'. destruct Hu' as [Hu'|Hu'].
        - assert (Hu2 : In u (units n)) by (rewrite Fy; apply in_or_app; right; right; exact Hu').
          rewrite (proj1 (units_fst n u Hu2)). congruence.
        - apply in_flat_map in Hu'. destruct Hu' as (z & Hz & Hu2). rewrite (proj1 (units_fst z u Hu2)).
          intros ->. contradiction. }
      lia. }
  destruct R as (s' & ->). cbn [bind]. eauto.
Qed.
End Run.

(** ** B.2 from the flow to the units: conservation gives the balance *)
Lemma zs_filter {A} (g : A -> Z) (P : A -> bool) l :
  z_sum (map g (filter P l)) = z_sum (map (fun a => if P a then g a else 0) l).
Proof.
  induction l as [|a l IH]; [reflexivity|]. cbn [filter map]. rewrite z_sum_cons, <- IH.
  destruct (P a); [cbn [map]; rewrite z_sum_cons|]; lia.
Qed.

Lemma count_z_sum t l : count_z t l = z_sum (map (fun c => if t =? c then 1 else 0) l).
Proof. unfold count_z. apply zs_filter_len. Qed.

Lemma count_z_notin t l : ~ In t l -> count_z t l = 0.
Proof.
  intros H. rewrite count_z_sum. apply z_sum_map_zero. intros c Hc.
  destruct (Z.eqb_spec t c) as [->|_]; [contradiction|reflexivity].
Qed.

(* the length of a list over a duplicate-free alphabet *)
Lemma length_by_counts (T : list Z) : NoDup T -> forall l, (forall c, In c l -> In c T) ->
  Z.of_nat (length l) = z_sum (map (fun t => count_z t l) T).
Proof.
  intros ND. induction l as [|c l IH]; intros H.
  - cbn [length]. symmetry. apply z_sum_map_zero. intros; reflexivity.
  - assert (E : z_sum (map (fun t => count_z t (c :: l)) T) =
                z_sum (map (fun t => (if t =? c then 1 else 0) + count_z t l) T)).
    { apply z_sum_map_ext. intros t _. rewrite !count_z_sum. cbn [map]. rewrite z_sum_cons. reflexivity. }
    rewrite E, z_sum_map_add, <- IH by (intros c' Hc'; apply H; right; exact Hc').
    rewrite (zs_unique (fun t => if t =? c then 1 else 0) T c ND (H c (or_introl eq_refl))).
    + rewrite Z.eqb_refl. cbn [length]. lia.
    + intros a _ Ha. destruct (Z.eqb_spec a c); [contradiction|reflexivity].
Qed.

(* a counting function described by a duplicate-free table *)
Lemma count_by_table (E : list (Z * Z)) (cnt : Z -> Z) : NoDup (map fst E) ->
  (forall tx, In tx E -> cnt (fst tx) = snd tx) -> (forall t, ~ In t (map fst E) -> cnt t = 0) ->
  forall t, cnt t = z_sum (map (fun tx => if fst tx =? t then snd tx else 0) E).
Proof.
  intros ND H1 H0 t. destruct (in_dec Z.eq_dec t (map fst E)) as [Hin|Hout].
  - apply in_map_iff in Hin. destruct Hin as (tx0 & E0 & Hin).
    rewrite (zs_unique _ E tx0 (NoDup_map_inv _ _ ND) Hin).
    + rewrite E0, Z.eqb_refl, <- E0. apply H1. exact Hin.
    + intros a Ha Hne. destruct (Z.eqb_spec (fst a) t) as [Q|_]; [|reflexivity].
      exfalso. apply Hne. apply (NoDup_map_inj_in fst E ND a tx0 Ha Hin). congruence.
  - rewrite (H0 t Hout). symmetry. apply z_sum_map_zero. intros a Ha.
    destruct (Z.eqb_spec (fst a) t) as [Q|_]; [|reflexivity]. exfalso. apply Hout. rewrite <- Q. apply in_map. exact Ha.
Qed.

Lemma tail_of_node nw c p : tail_of nw c = TNode p -> fr_node p = c /\ is_depot (nd nw p) = false.
Proof.
  unfold tail_of. destruct (c mod 4 =? 3); [discriminate|]. destruct (c mod 4 =? 1); [|discriminate].
  destruct (find _ (nw_nodes nw)) as [[n x]|] eqn:Ef; [|discriminate]. intros Q. inversion Q; subst n.
  apply find_some in Ef. destruct Ef as [_ Ef]. apply andb_true_iff in Ef. destruct Ef as [E1 E2].
  apply Z.eqb_eq in E1. apply negb_true_iff in E2. auto.
Qed.

Definition ends (e : fedge) : Z * Z := (fe_tail e, fe_head e).

Section Level2.
Variable nw : network.
Variable ty : Z.
Variable slots : list (node_id * Z).
Notation net := (build_flow_network nw ty slots).
Notation VO := (visit_order nw ty).
Notation hd := (code_as_head nw).
Notation vis := (visited nw slots).
Notation ACTS := (acts nw ty slots).

(* what the proof uses of the network: facts about the node tables and the arc lists only (no flow, no oracle) *)
Record decode_side_conditions : Prop := {
  (* the visiting order lists no node twice *)
  sc_nodup : NoDup VO;
  (* no two edges of the flow network have the same end points *)
  sc_ends : NoDup (map ends net);
  (* an edge leaving the right copy of a trip / slot enters the left copy of exactly one visited node *)
  sc_head_unique : forall e, In e net -> fe_tail e mod 4 = 1 ->
      exists n, In n VO /\ vis n = true /\ fe_head e = hd n /\
                forall n', In n' VO -> vis n' = true -> fe_head e = hd n' -> n' = n;
  (* the edges leaving the left copy of a trip / allotted slot are the edges entering its right copy *)
  sc_node_edge : forall p e, In p ACTS -> In e net -> (fe_tail e =? fl_node p) = (fe_head e =? fr_node p);
  (* trips of the type and allotted slots are visited, and right_rsnode_to_node resolves their right code *)
  sc_acts : forall p, In p ACTS ->
      In p VO /\ vis p = true /\ hd p = fl_node p /\ tail_of nw (fr_node p) = TNode p /\ is_end_depot (nd nw p) = false;
  (* the tail of an edge entering a visited node is a start depot or a trip / allotted slot visited EARLIER *)
  sc_tails : forall l1 n l2 e, VO = l1 ++ n :: l2 -> vis n = true -> In e net -> fe_head e = hd n ->
      tail_of nw (fe_tail e) <> TUnknown /\ forall p, tail_of nw (fe_tail e) = TNode p -> In p ACTS /\ In p l1
}.

Variable f : flow.
Variable order : node_id -> list Z.
Hypothesis SC : decode_side_conditions.
Hypothesis FE : feasible net f = true.
Hypothesis OK : order_ok_b nw ty slots order net f = true.

Notation comb := (combine net f).
Definition hdb (h : Z) (ex : fedge * Z) : bool := fe_head (fst ex) =? h.
Definition tlb (t : Z) (ex : fedge * Z) : bool := fe_tail (fst ex) =? t.
Definition inflow (h : Z) : Z := z_sum (map (fun ex => if hdb h ex then snd ex else 0) comb).
Definition outflow (t : Z) : Z := z_sum (map (fun ex => if tlb t ex then snd ex else 0) comb).

Lemma comb_fst : map fst comb = net.
Proof. destruct (feasible_meaning net f FE) as (Hl & _). apply map_fst_combine. exact Hl. Qed.

Lemma comb_in ex : In ex comb -> In (fst ex) net.
Proof. destruct ex as [e x]. apply in_combine_l. Qed.

Lemma conservation v : outflow v = inflow v.
Proof.
  destruct (feasible_meaning net f FE) as (_ & _ & Hc). specialize (Hc v).
  assert (Q : outflow v - inflow v = net_flow_at net f v).
  { unfold outflow, inflow, net_flow_at. rewrite <- zs_sub. apply z_sum_map_ext. intros [e x] _. reflexivity. }
  lia.
Qed.

Lemma entering_eq n :
  entering nw net f n = map (fun ex => (fe_tail (fst ex), snd ex)) (filter (hdb (hd n)) comb).
Proof.
  unfold entering. rewrite (filter_ext _ (hdb (hd n))) by (intros [e x]; reflexivity).
  apply map_ext. intros [e x]. reflexivity.
Qed.

Lemma entering_nodup n : NoDup (map fst (entering nw net f n)).
Proof.
  rewrite entering_eq, map_map. cbn [fst].
  pose proof (sc_ends SC) as ND. rewrite <- comb_fst, map_map in ND.
  apply (NoDup_map_filter _ (hdb (hd n))) in ND.
  assert (NL : NoDup (filter (hdb (hd n)) comb)) by (apply NoDup_map_inv in ND; exact ND).
  apply NoDup_map_of_inj; [|exact NL].
  intros a b Ha Hb Et. apply (NoDup_map_inj_in _ _ ND a b Ha Hb).
  apply filter_In in Ha. apply filter_In in Hb. destruct Ha as [_ Ha], Hb as [_ Hb]. unfold hdb in Ha, Hb.
  apply Z.eqb_eq in Ha. apply Z.eqb_eq in Hb. unfold ends. congruence.
Qed.

(* the oracle, unfolded *)
Lemma order_ok_parts n : In n VO -> vis n = true ->
  (forall tx, In tx (entering nw net f n) -> count_z (fst tx) (order n) = snd tx) /\
  (forall c, In c (order n) -> In c (map fst (entering nw net f n))).
Proof.
  intros Hn Hv. unfold order_ok_b in OK. rewrite forallb_forall in OK. specialize (OK n Hn).
  rewrite Hv in OK. cbn [negb orb] in OK. apply andb_true_iff in OK. destruct OK as [O1 O2].
  rewrite forallb_forall in O1. rewrite forallb_forall in O2. split.
  - intros [t x] Htx. specialize (O1 (t, x) Htx). cbn beta iota in O1. apply Z.eqb_eq in O1. exact O1.
  - intros c Hc. specialize (O2 c Hc). apply existsb_exists in O2. destruct O2 as ([t x] & Htx & Q).
    apply Z.eqb_eq in Q. subst c. change t with (fst (t, x)). apply in_map. exact Htx.
Qed.

(* every listed unit is carried by an edge into the node *)
Lemma order_edge n c : In n VO -> vis n = true -> In c (order n) ->
  exists e, In e net /\ fe_head e = hd n /\ fe_tail e = c.
Proof.
  intros Hn Hv Hc. destruct (order_ok_parts n Hn Hv) as [_ O2]. specialize (O2 c Hc).
  rewrite entering_eq, map_map in O2. cbn [fst] in O2. apply in_map_iff in O2. destruct O2 as (ex & Q & Hex).
  apply filter_In in Hex. destruct Hex as [Hex Hh]. exists (fst ex). split; [apply comb_in; exact Hex|].
  split; [apply Z.eqb_eq; exact Hh|exact Q].
Qed.

(* F1: a visited node lists as many units as enter its left copy *)
Lemma order_length n : In n VO -> vis n = true -> Z.of_nat (length (order n)) = inflow (hd n).
Proof.
  intros Hn Hv. destruct (order_ok_parts n Hn Hv) as [O1 O2].
  rewrite (length_by_counts _ (entering_nodup n) (order n) O2), zs_map_map.
  rewrite (z_sum_map_ext _ snd _ O1). rewrite entering_eq, zs_map_map. cbn [snd].
  rewrite (zs_filter snd). reflexivity.
Qed.

(* F2: the units from a given tail, as flow *)
Lemma order_count n t : In n VO -> vis n = true ->
  count_z t (order n) = z_sum (map (fun ex => if hdb (hd n) ex && tlb t ex then snd ex else 0) comb).
Proof.
  intros Hn Hv. destruct (order_ok_parts n Hn Hv) as [O1 O2].
  rewrite (count_by_table (entering nw net f n) (fun t => count_z t (order n)) (entering_nodup n) O1).
  - rewrite entering_eq, zs_map_map. cbn [fst snd].
    rewrite (zs_filter (fun ex => if fe_tail (fst ex) =? t then snd ex else 0)).
    apply z_sum_map_ext. intros ex _. unfold tlb. destruct (hdb (hd n) ex); reflexivity.
  - intros t' Hout. apply count_z_notin. intros Hin. apply Hout. apply O2. exact Hin.
Qed.

Lemma fr_mod p : fr_node p mod 4 = 1.
Proof. unfold fr_node. rewrite Z.add_comm, Z.mul_comm, Z.mod_add by lia. reflexivity. Qed.

(* F2 summed over the visited nodes: everything that leaves the right copy of p *)
Lemma out_counts p :
  z_sum (map (fun n => if vis n then count_z (fr_node p) (order n) else 0) VO) = outflow (fr_node p).
Proof.
  set (t := fr_node p).
  assert (E : z_sum (map (fun n => if vis n then count_z t (order n) else 0) VO) =
              z_sum (map (fun n => z_sum (map (fun ex => if vis n && (hdb (hd n) ex && tlb t ex) then snd ex else 0) comb)) VO)).
  { apply z_sum_map_ext. intros n Hn. destruct (vis n) eqn:Hv.
    - rewrite (order_count n t Hn Hv). reflexivity.
    - symmetry. apply z_sum_map_zero. intros; reflexivity. }
  rewrite E, zs_swap. unfold outflow. apply z_sum_map_ext. intros ex Hex.
  destruct (tlb t ex) eqn:Et.
  - assert (Hm : fe_tail (fst ex) mod 4 = 1).
    { unfold tlb in Et. apply Z.eqb_eq in Et. rewrite Et. apply fr_mod. }
    destruct (sc_head_unique SC (fst ex) (comb_in ex Hex) Hm) as (n0 & Hn0 & Hv0 & Hh0 & Hun).
    rewrite (zs_unique _ VO n0 (sc_nodup SC) Hn0).
    + rewrite Hv0. unfold hdb. rewrite Hh0, Z.eqb_refl. reflexivity.
    + intros n Hn Hne. destruct (vis n) eqn:Hv; [|reflexivity]. unfold hdb.
      destruct (Z.eqb_spec (fe_head (fst ex)) (hd n)) as [Q|_]; [|reflexivity].
      exfalso. apply Hne. exact (Hun n Hn Hv Q).
  - apply z_sum_map_zero. intros n _. rewrite !andb_false_r. reflexivity.
Qed.

(* F3: through the node edge *)
Lemma through_node p : In p ACTS -> inflow (fl_node p) = outflow (fr_node p).
Proof.
  intros Hp. rewrite <- (conservation (fl_node p)), (conservation (fr_node p)).
  unfold outflow, inflow. apply z_sum_map_ext. intros ex Hex. unfold tlb, hdb.
  rewrite (sc_node_edge SC p (fst ex) Hp (comb_in ex Hex)). reflexivity.
Qed.

(* F4: the balance of all units at a trip / allotted slot *)
Lemma dlt_unit n c p : In n VO -> vis n = true -> In c (order n) -> In p ACTS ->
  dlt nw (n, c) p = (if nid_eqb p n then 1 else 0) - (if fr_node p =? c then 1 else 0).
Proof.
  intros Hn Hv Hc Hp. destruct (sc_acts SC p Hp) as (_ & _ & _ & Tp & Ep).
  destruct (order_edge n c Hn Hv Hc) as (e & He & Hh & Htl).
  destruct (in_split n VO Hn) as (l1 & l2 & L).
  destruct (sc_tails SC l1 n l2 e L Hv He Hh) as [Hu _]. rewrite Htl in Hu.
  unfold dlt. cbn [fst snd]. destruct (tail_of nw c) as [p'|d|] eqn:Et; [| |congruence].
  - destruct (tail_of_node nw c p' Et) as [Q _].
    destruct (Z.eqb_spec (fr_node p) c) as [Q'|Q'].
    + rewrite <- Q', Tp in Et. inversion Et; subst p'. rewrite nid_eqb_refl. reflexivity.
    + rewrite (nid_eqb_false p p'); [reflexivity|]. intros ->. contradiction.
  - destruct (Z.eqb_spec (fr_node p) c) as [Q'|Q'].
    + rewrite <- Q', Tp in Et. discriminate Et.
    + destruct (nid_eqb p n) eqn:Epn; [|reflexivity]. apply nid_eqb_eq in Epn. subst n. rewrite Ep. reflexivity.
Qed.

Lemma balance p : In p ACTS -> bal nw (all_units nw ty slots order) p = 0.
Proof.
  intros Hp. destruct (sc_acts SC p Hp) as (HpV & Hpv & Hph & _).
  unfold bal, all_units. rewrite zs_flat_map.
  assert (E : z_sum (map (fun n => z_sum (map (fun u => dlt nw u p) (units nw slots order n))) VO) =
              z_sum (map (fun n => (if vis n && nid_eqb p n then Z.of_nat (length (order n)) else 0) -
                                   (if vis n then count_z (fr_node p) (order n) else 0)) VO)).
  { apply z_sum_map_ext. intros n Hn. unfold units. destruct (vis n) eqn:Hv; [|reflexivity].
    rewrite zs_map_map.
    rewrite (z_sum_map_ext _ (fun c => (if nid_eqb p n then 1 else 0) - (if fr_node p =? c then 1 else 0)) _
               (fun c Hc => dlt_unit n c p Hn Hv Hc Hp)).
    rewrite zs_sub, zs_const, <- count_z_sum. cbn [andb]. destruct (nid_eqb p n); lia. }
  rewrite E, zs_sub, out_counts.
  rewrite (zs_unique _ VO p (sc_nodup SC) HpV).
  - rewrite Hpv, nid_eqb_refl. cbn [andb]. rewrite (order_length p HpV Hpv), Hph, (through_node p Hp). lia.
  - intros n _ Hne. rewrite (nid_eqb_false p n) by congruence. rewrite andb_false_r. reflexivity.
Qed.

Theorem decode_total_level2 : exists tours, decode nw ty slots order = Ok tours.
Proof.
  apply decode_ok_run; [exact (sc_nodup SC)|].
  intros l1 n l2 c L Hv Hc.
  assert (Hn : In n VO) by (rewrite L; apply in_or_app; right; left; reflexivity).
  destruct (order_edge n c Hn Hv Hc) as (e & He & Hh & Htl).
  destruct (sc_tails SC l1 n l2 e L Hv He Hh) as [Hu Hp]. rewrite Htl in Hu, Hp.
  split; [exact Hu|]. intros p Et. destruct (Hp p Et) as [Hpa Hp1]. split; [exact Hp1|].
  apply balance. exact Hpa.
Qed.
End Level2.

(* B under side conditions on the network alone *)
Theorem decode_total_under_side_conditions :
  forall nw ty slots f order,
    decode_side_conditions nw ty slots ->
    feasible (build_flow_network nw ty slots) f = true ->
    order_ok_b nw ty slots order (build_flow_network nw ty slots) f = true ->
    exists tours, decode nw ty slots order = Ok tours.
Proof. intros nw ty slots f order SC FE OK. exact (decode_total_level2 nw ty slots f order SC FE OK). Qed.

(** ** B.3 the side conditions from the structure of the flow network *)
Lemma mod4 z k : 0 <= k < 4 -> (4 * z + k) mod 4 = k.
Proof. intros H. rewrite Z.add_comm, Z.mul_comm, Z.mod_add by lia. apply Z.mod_small. exact H. Qed.

Lemma NoDup_flat_map_map {A B C} (g : B -> C) (F : A -> list B) l :
  NoDup l -> (forall a, In a l -> NoDup (map g (F a))) ->
  (forall a b x, In a l -> In b l -> In x (map g (F a)) -> In x (map g (F b)) -> a = b) ->
  NoDup (map g (flat_map F l)).
Proof.
  induction 1 as [|a l Ha ND IH]; intros H1 H2; [constructor|].
  cbn [flat_map]. rewrite map_app. apply NoDup_app_build.
  - apply H1. left; reflexivity.
  - apply IH; [intros b Hb; apply H1; right; exact Hb|]. intros b c x Hb Hc. apply H2; right; assumption.
  - intros x Hx1 Hx2. apply in_map_iff in Hx2. destruct Hx2 as (y & <- & Hy). apply in_flat_map in Hy.
    destruct Hy as (b & Hb & Hy). assert (a = b).
    { apply (H2 a b (g y)); [left; reflexivity|right; exact Hb|exact Hx1|apply in_map; exact Hy]. }
    subst b. contradiction.
Qed.

Section Level3.
Variable nw : network.
Variable ty : Z.
Variable slots : list (node_id * Z).
Notation net := (build_flow_network nw ty slots).
Notation VO := (visit_order nw ty).
Notation hd := (code_as_head nw).
Notation vis := (visited nw slots).
Notation ACTS := (acts nw ty slots).
Notation HEADS := (heads nw ty slots).

Hypothesis NWF : net_wf_b nw = true.
Hypothesis Hty : In ty (type_ids nw).
Hypothesis CD : codes_distinct nw ty slots.
Hypothesis FW : flow_wf nw ty slots.
(* allotted slots are maintenance nodes of the network *)
Hypothesis Hslm : forall m, In m (map fst slots) -> In m (nw_maint nw).
(* a node of the type that the loop does not skip is a trip of the type, an allotted slot or an end depot node *)
Hypothesis Hvis : forall n, In n (type_nodes nw ty) -> vis n = true -> good_head nw ty slots n.
(* the depot table names end depot nodes *)
Hypothesis Hdep : forall d, In d (depot_ids nw) ->
  In (get_end_depot_node nw d) (nw_edepots nw) /\ get_depot_idx nw (get_end_depot_node nw d) = d.
(* right_rsnode_to_node resolves the right code of a trip / allotted slot to that node *)
Hypothesis Hres : forall x, In x ACTS -> tail_of nw (fr_node x) = TNode x.
(* a trip / slot that reaches a node is visited before it *)
Hypothesis Hprec : forall l1 n l2 p, VO = l1 ++ n :: l2 -> In p ACTS -> can_reach nw p n = true -> In p l1.

Lemma VO_iff x : In x VO <-> In x (type_nodes nw ty).
Proof. destruct (wf_parts nw NWF) as (_ & _ & _ & Ht). destruct (Ht ty Hty) as (_ & _ & S & _). apply S. Qed.

Lemma acts_type p : In p ACTS -> In p (type_nodes nw ty).
Proof.
  intros H. unfold type_nodes. apply in_app_or in H. destruct H as [H|H]; [apply in_or_app; left; exact H|].
  apply in_or_app. right. apply in_or_app. left. apply Hslm. exact H.
Qed.

Lemma acts_vis p : In p ACTS -> vis p = true.
Proof.
  intros H. unfold visited. apply in_app_or in H. destruct H as [H|H].
  - destruct (wf_service _ _ _ FW p H) as [Hs _]. destruct (nd nw p); try discriminate Hs. reflexivity.
  - destruct (wf_slots _ _ _ FW p H) as [Hs _]. destruct (nd nw p); try discriminate Hs.
    apply slot_allotted_iff. exact H.
Qed.

Lemma heads_ok y hc : In (y, hc) HEADS -> In y VO /\ vis y = true /\ hc = hd y.
Proof.
  unfold heads. intros H. apply in_app_or in H. destruct H as [H|H]; [|apply in_app_or in H; destruct H as [H|H]].
  - apply in_map_iff in H. destruct H as (s & Q & Hs). inversion Q; subst y hc.
    assert (Ha : In s ACTS) by (apply in_or_app; left; exact Hs).
    split; [apply VO_iff, acts_type; exact Ha|]. split; [apply acts_vis; exact Ha|].
    destruct (act_nd _ _ _ FW s Ha) as (_ & _ & _ & E & _). symmetry. exact E.
  - apply in_map_iff in H. destruct H as (mc & Q & Hs). inversion Q; subst y hc.
    assert (Ha : In (fst mc) ACTS) by (apply in_or_app; right; apply in_map; exact Hs).
    split; [apply VO_iff, acts_type; exact Ha|]. split; [apply acts_vis; exact Ha|].
    destruct (act_nd _ _ _ FW (fst mc) Ha) as (_ & _ & _ & E & _). symmetry. exact E.
  - apply in_map_iff in H. destruct H as (d & Q & Hd). inversion Q; subst y hc.
    destruct (Hdep d Hd) as [He Hi].
    destruct (edepot_nd _ _ _ FW _ He) as (_ & E & _ & dd & End & _).
    split; [apply VO_iff; unfold type_nodes; rewrite !in_app_iff; auto|].
    split; [unfold visited; rewrite End; reflexivity|]. rewrite E, Hi. reflexivity.
Qed.

Lemma head_is n : In n VO -> vis n = true -> In (n, hd n) HEADS.
Proof. intros Hn Hv. apply (good_head_in _ _ _ FW). apply Hvis; [apply VO_iff; exact Hn|exact Hv]. Qed.

Lemma heads_fun a b c : In (a, c) HEADS -> In (b, c) HEADS -> a = b.
Proof.
  intros Ha Hb. pose proof (NoDup_map_inj_in snd _ (heads_snd_nodup _ _ _ CD) (a, c) (b, c) Ha Hb eq_refl) as Q.
  inversion Q. reflexivity.
Qed.

(* the three kinds of edges *)
Lemma net_cases e : In e net ->
  (exists a, In a ACTS /\ fe_tail e = fl_node a /\ fe_head e = fr_node a) \/
  (exists y hc p, In (y, hc) HEADS /\ In p (predecessors nw ty y) /\ good_tail nw ty slots p /\
                  fe_tail e = code_as_tail nw p /\ fe_head e = hc) \/
  (exists d, fe_tail e = fl_depot d /\ fe_head e = fr_depot d).
Proof.
  unfold build_flow_network. intros H. apply in_app_or in H. destruct H as [H|H]; [|apply in_app_or in H; destruct H as [H|H]].
  - unfold service_edges in H. apply in_map_iff in H. destruct H as (s & <- & Hs). left. exists s.
    split; [apply in_or_app; left; exact Hs|]. split; reflexivity.
  - unfold maint_edges in H. apply in_map_iff in H. destruct H as ([m c] & <- & Hs). left. exists m.
    split; [apply in_or_app; right; apply in_map_iff; exists (m, c); auto|]. split; reflexivity.
  - apply in_app_or in H. destruct H as [H|H].
    + right. left. rewrite connecting_eq in H. apply in_flat_map in H. destruct H as ([y hc] & Hh & H).
      cbn [fst snd] in H. rewrite arcs_into_eq in H. apply in_flat_map in H. destruct H as (p & Hp & H).
      unfold arc_of in H. destruct (tail_code nw slots p) as [tc|] eqn:Etc; [|destruct H]. destruct H as [<-|[]].
      destruct (pred_good_tail _ _ _ FW y p tc Hp Etc) as [G ->].
      exists y, hc, p. cbn [arc_edge fe_tail fe_head]. auto.
    + right. right. unfold depot_edges in H. apply in_map_iff in H. destruct H as (d & <- & _). exists d. split; reflexivity.
Qed.

Lemma ends_nodup : NoDup (map ends net).
Proof.
  unfold build_flow_network. rewrite app_assoc, !map_app.
  assert (E1 : map ends (service_edges nw ty) ++ map ends (maint_edges nw slots) =
               map (fun a => (fl_node a, fr_node a)) ACTS).
  { unfold acts, service_edges, maint_edges. rewrite map_app, !map_map. f_equal.
    apply map_ext. intros [m c]. reflexivity. }
  assert (E3 : map ends (depot_edges nw ty slots) = map (fun d => (fl_depot d, fr_depot d)) (depot_ids nw)).
  { unfold depot_edges. rewrite map_map. reflexivity. }
  assert (C : forall x, In x (map ends (connecting_edges nw ty slots)) ->
              exists y p, In (y, snd x) HEADS /\ In p (predecessors nw ty y) /\ good_tail nw ty slots p /\
                          fst x = code_as_tail nw p).
  { intros x Hx. apply in_map_iff in Hx. destruct Hx as (e & <- & He).
    rewrite connecting_eq in He. apply in_flat_map in He. destruct He as ([y hc] & Hh & H).
    cbn [fst snd] in H. rewrite arcs_into_eq in H. apply in_flat_map in H. destruct H as (p & Hp & H).
    unfold arc_of in H. destruct (tail_code nw slots p) as [tc|] eqn:Etc; [|destruct H]. destruct H as [<-|[]].
    destruct (pred_good_tail _ _ _ FW y p tc Hp Etc) as [G ->].
    exists y, p. cbn [ends arc_edge fe_tail fe_head fst snd]. auto. }
  rewrite E1, E3. apply NoDup_app_build; [|apply NoDup_app_build|].
  - apply NoDup_map_of_inj; [|exact (acts_nodup _ _ _ CD)].
    intros a b Ha Hb Q. inversion Q. apply (acts_idx_inj _ _ _ CD a b Ha Hb). unfold fl_node in *. lia.
  - rewrite connecting_eq. apply NoDup_flat_map_map.
    + apply NoDup_map_inv with (f := snd). exact (heads_snd_nodup _ _ _ CD).
    + intros [y hc] _. cbn [fst snd]. rewrite arcs_into_eq. apply NoDup_flat_map_map.
      * exact (wf_preds_nodup _ _ _ FW y).
      * intros p _. unfold arc_of. destruct (tail_code nw slots p); cbn [map]; repeat constructor. intros [].
      * intros p q x Hp Hq Hx1 Hx2. unfold arc_of in Hx1, Hx2.
        destruct (tail_code nw slots p) as [tp|] eqn:Ep; [|destruct Hx1].
        destruct (tail_code nw slots q) as [tq|] eqn:Eq; [|destruct Hx2].
        destruct Hx1 as [<-|[]]. destruct Hx2 as [Q|[]]. unfold ends, arc_edge in Q. cbn [fe_tail fe_head] in Q.
        inversion Q; subst tq.
        destruct (pred_good_tail _ _ _ FW y p tp Hp Ep) as [Gp Tp].
        destruct (pred_good_tail _ _ _ FW y q tp Hq Eq) as [Gq Tq].
        apply (good_tail_inj _ _ _ CD FW p q Gp Gq). congruence.
    + intros [y hc] [y' hc'] x Ha Hb Hx1 Hx2. cbn [fst snd] in Hx1, Hx2.
      assert (Q : forall z k, In x (map ends (arcs_into nw ty slots z k)) -> snd x = k).
      { intros z k Hx. apply in_map_iff in Hx. destruct Hx as (e & <- & He). rewrite arcs_into_eq in He.
        apply in_flat_map in He. destruct He as (p & _ & He). unfold arc_of in He.
        destruct (tail_code nw slots p); [|destruct He]. destruct He as [<-|[]]. reflexivity. }
      pose proof (Q _ _ Hx1) as Q1. pose proof (Q _ _ Hx2) as Q2. clear Q Hx1 Hx2.
      assert (E' : hc' = hc) by congruence. rewrite E' in Hb |- *. f_equal. exact (heads_fun y y' hc Ha Hb).
  - apply NoDup_map_of_inj; [|exact (depot_ids_nodup _ _ _ CD)]. intros a b _ _ Q. inversion Q. unfold fl_depot in *. lia.
  - intros x H2 H1. apply in_map_iff in H1. destruct H1 as (d & <- & _).
    destruct (C _ H2) as (y & p & _ & _ & _ & Q). cbn [fst] in Q. destruct (tail_form nw p) as (z & [T|T]);
      rewrite T in Q; unfold fl_depot in Q; lia.
  - intros x H1 H2. apply in_map_iff in H1. destruct H1 as (a & <- & _). apply in_app_or in H2. destruct H2 as [H2|H2].
    + destruct (C _ H2) as (y & p & _ & _ & _ & Q). cbn [fst] in Q. destruct (tail_form nw p) as (z & [T|T]);
        rewrite T in Q; unfold fl_node in Q; lia.
    + apply in_map_iff in H2. destruct H2 as (d & Q & _). inversion Q. unfold fl_depot, fl_node in *. lia.
Qed.

Theorem side_conditions_hold : decode_side_conditions nw ty slots.
Proof.
  constructor.
  - destruct (wf_parts nw NWF) as (_ & _ & _ & Ht). destruct (Ht ty Hty) as (_ & _ & _ & _ & N & _). exact N.
  - exact ends_nodup.
  - intros e He Hm. destruct (net_cases e He) as [(a & _ & T & _)|[(y & hc & p & Hh & _ & _ & _ & H)|(d & T & _)]].
    + exfalso. rewrite T in Hm. unfold fl_node in Hm. replace (4 * nid_idx a) with (4 * nid_idx a + 0) in Hm by lia.
      rewrite mod4 in Hm by lia. discriminate Hm.
    + destruct (heads_ok y hc Hh) as (Hy & Hv & Ehc). exists y. split; [exact Hy|]. split; [exact Hv|].
      split; [congruence|]. intros n' Hn' Hv' Q. apply (heads_fun n' y hc); [|exact Hh].
      replace hc with (hd n') by congruence. apply head_is; assumption.
    + exfalso. rewrite T in Hm. unfold fl_depot in Hm. rewrite mod4 in Hm by lia. discriminate Hm.
  - intros p e Hp He. destruct (net_cases e He) as [(a & _ & T & H)|[(y & hc & q & Hh & _ & _ & T & H)|(d & T & H)]].
    + rewrite T, H. unfold fl_node, fr_node. destruct (Z.eqb_spec (4 * nid_idx a) (4 * nid_idx p)),
        (Z.eqb_spec (4 * nid_idx a + 1) (4 * nid_idx p + 1)); try reflexivity; lia.
    + destruct (heads_form _ _ _ (y, hc) Hh) as (z & Z1). cbn [snd] in Z1. destruct (tail_form nw q) as (z' & Z2).
      rewrite T, H. unfold fl_node, fr_node.
      destruct (Z.eqb_spec (code_as_tail nw q) (4 * nid_idx p)), (Z.eqb_spec hc (4 * nid_idx p + 1)); try reflexivity; lia.
    + rewrite T, H. unfold fl_node, fr_node, fl_depot, fr_depot.
      destruct (Z.eqb_spec (4 * d + 2) (4 * nid_idx p)), (Z.eqb_spec (4 * d + 3) (4 * nid_idx p + 1)); try reflexivity; lia.
  - intros p Hp. destruct (act_nd _ _ _ FW p Hp) as (Dp & _ & _ & E & _).
    split; [apply VO_iff, acts_type; exact Hp|]. split; [apply acts_vis; exact Hp|]. split; [exact E|].
    split; [apply Hres; exact Hp|]. unfold is_depot in Dp. apply orb_false_iff in Dp. tauto.
  - intros l1 n l2 e L Hv He Hh.
    assert (Hn : In n VO) by (rewrite L; apply in_or_app; right; left; reflexivity).
    pose proof (head_is n Hn Hv) as Hhn.
    destruct (heads_form _ _ _ _ Hhn) as (zn & Zn). cbn [snd] in Zn.
    destruct (net_cases e He) as [(a & _ & _ & H)|[(y & hc & p & Hy & Hp & G & T & H)|(d & _ & H)]].
    + exfalso. unfold fr_node in H. lia.
    + assert (y = n) by (apply (heads_fun y n hc); [exact Hy|]; replace hc with (hd n) by congruence; exact Hhn).
      subst y. rewrite T. destruct G as [G|G].
      * destruct (act_nd _ _ _ FW p G) as (_ & _ & E & _). rewrite E, (Hres p G). split; [discriminate|].
        intros p' Q. inversion Q; subst p'. split; [exact G|]. apply (Hprec l1 n l2 p L G).
        apply (predecessors_exact nw NWF ty n p Hty) in Hp. tauto.
      * destruct (sdepot_nd _ _ _ FW p G) as (_ & E & _). rewrite E. unfold tail_of, fr_depot.
        rewrite mod4 by lia. cbn [Z.eqb]. split; [discriminate|]. intros p' Q. discriminate Q.
    + exfalso. unfold fr_depot in H. lia.
Qed.
End Level3.

(** ** B.4 the visiting order is chronological *)
Definition key_le (a b : datetime * node_id) : Prop := dt_leb (fst a) (fst b) = true.

Lemma key_le_of_le a b : le_of_cmp key_cmp a b = true -> key_le a b.
Proof.
  unfold le_of_cmp, key_cmp, key_le, cmp_then, dt_leb. destruct (dt_cmp (fst a) (fst b)); intros H; try reflexivity.
  discriminate H.
Qed.

Lemma key_le_of_nle a b : le_of_cmp key_cmp a b = false -> key_le b a.
Proof.
  unfold le_of_cmp, key_cmp, key_le, cmp_then, dt_leb. rewrite (dt_cmp_antisym (fst a) (fst b)).
  destruct (dt_cmp (fst a) (fst b)); cbn [CompOpp]; intros H; try reflexivity. discriminate H.
Qed.

Lemma insert_key_sorted x l :
  StronglySorted key_le l -> StronglySorted key_le (insert_by (le_of_cmp key_cmp) x l).
Proof.
  induction l as [|y r IH]; intros S; cbn [insert_by].
  - constructor; constructor.
  - apply StronglySorted_inv in S. destruct S as [Sr Fy]. destruct (le_of_cmp key_cmp y x) eqn:E.
    + constructor; [apply IH; exact Sr|]. apply Forall_forall. intros z Hz. apply insert_by_in in Hz.
      destruct Hz as [->|Hz]; [apply key_le_of_le; exact E|]. rewrite Forall_forall in Fy. apply Fy. exact Hz.
    + pose proof (key_le_of_nle y x E) as Hxy.
      constructor; [constructor; assumption|]. constructor; [exact Hxy|].
      rewrite Forall_forall in *. intros z Hz. unfold key_le in *. eapply dt_leb_trans; [exact Hxy|apply Fy; exact Hz].
Qed.

Lemma Lkeys_sorted f ids : StronglySorted key_le (Lkeys f ids).
Proof.
  unfold Lkeys, insert_key.
  assert (H : forall l acc, StronglySorted key_le acc ->
            StronglySorted key_le (fold_left (fun acc n => insert_by (le_of_cmp key_cmp) (f n, n) acc) l acc)).
  { induction l as [|n l IH]; intros acc S; cbn [fold_left]; [exact S|]. apply IH, insert_key_sorted, S. }
  apply H. constructor.
Qed.

Lemma ss_app_r {A} (R : A -> A -> Prop) (X Y : list A) : StronglySorted R (X ++ Y) -> StronglySorted R Y.
Proof.
  induction X as [|a X IH]; cbn [app]; intros H; [exact H|]. apply IH. apply StronglySorted_inv in H. tauto.
Qed.

Section Prec.
Variable nw : network.
Variable ty : Z.
Hypothesis NWF : net_wf_b nw = true.
Hypothesis Hty : In ty (type_ids nw).
Hypothesis DP : durations_pos_b nw = true.
Hypothesis SS : StronglySorted key_le (lookup_sorted ty (nw_type_by_start nw)).

Lemma nondepot_known x : is_depot (nd nw x) = false -> exists v, In (x, v) (nw_nodes nw) /\ nd nw x = v.
Proof.
  unfold nd. destruct (assoc nid_eqb x (nw_nodes nw)) as [v|] eqn:E; [|intros Q; discriminate Q].
  intros _. exists v. split; [|reflexivity]. exact (assoc_in _ nid_eqb_eq _ _ _ E).
Qed.

Lemma pos_dur p : is_depot (nd nw p) = false -> dt_leb (end_time nw p) (start_time nw p) = false.
Proof.
  intros Dp. destruct (nondepot_known p Dp) as (v & Hin & Ev). unfold end_time, start_time. rewrite Ev.
  unfold durations_pos_b in DP. rewrite forallb_forall in DP. specialize (DP (p, v) Hin). cbn beta iota in DP.
  rewrite Ev in Dp. rewrite Dp in DP. cbn [orb] in DP. rewrite dt_ltb_leb in DP. apply negb_true_iff in DP. exact DP.
Qed.

Lemma prec l1 n l2 p : visit_order nw ty = l1 ++ n :: l2 -> In p (visit_order nw ty) ->
  is_depot (nd nw p) = false -> can_reach nw p n = true -> In p l1.
Proof.
  intros L Hp Dp Cr. pose proof (pos_dur p Dp) as Pd. pose proof (can_reach_le nw NWF p n Cr) as Le.
  rewrite L in Hp. apply in_app_or in Hp. destruct Hp as [Hp|[Hp|Hp]]; [exact Hp| |]; exfalso.
  - subst p. congruence.
  - destruct (wf_parts nw NWF) as (_ & _ & _ & Ht). destruct (Ht ty Hty) as (Ks & _).
    unfold visit_order in L. apply map_eq_app in L. destruct L as (K1 & K2 & EK & E1 & E2).
    apply map_eq_cons in E2. destruct E2 as (kn & K3 & EK2 & En & E3). subst K2.
    pose proof SS as S'. rewrite EK in S'. apply ss_app_r in S'. apply StronglySorted_inv in S'. destruct S' as [_ F].
    rewrite <- E3 in Hp. apply in_map_iff in Hp. destruct Hp as (kp & Ep & Hkp).
    rewrite Forall_forall in F. specialize (F kp Hkp). unfold key_le in F.
    assert (Hn : In kn (lookup_sorted ty (nw_type_by_start nw))) by (rewrite EK; apply in_or_app; right; left; reflexivity).
    assert (Hpk : In kp (lookup_sorted ty (nw_type_by_start nw))) by (rewrite EK; apply in_or_app; right; right; exact Hkp).
    rewrite (keys_ok_in _ _ _ Ks Hn), (keys_ok_in _ _ _ Ks Hpk), En, Ep in F.
    pose proof (dt_leb_trans _ _ _ Le F). congruence.
Qed.
End Prec.

(** ** B.5 loaded networks *)
Section Loaded4.
Variable i : instance.
Variable perm : list Z.
Variable trips : list service_trip.
Variable p0 p1 : duration.
Let N := Lnet i perm trips p0 p1.
Hypothesis WF : net_wf_b N = true.
Hypothesis DP : durations_pos_b N = true.
Variable ty : Z.
Hypothesis Hty : In ty (tids i).
Variable slots : list (node_id * Z).
Hypothesis Hsl_nd : NoDup (map fst slots).
Hypothesis Hsl : forall m c, In (m, c) slots -> In m (nw_maint N) /\ 0 <= c <= track_count N m.
Notation deps := (Ldepots i perm trips).

Lemma L4_slm m : In m (map fst slots) -> In m (nw_maint N).
Proof. intros H. apply in_map_iff in H. destruct H as ([m' c] & <- & Hin). exact (proj1 (Hsl m' c Hin)). Qed.

Lemma L4_depot k : (k < length deps)%nat -> exists d, nth_error deps k = Some d.
Proof. intros H. destruct (nth_error deps k) as [d|] eqn:E; [eauto|]. apply nth_error_None in E. lia. Qed.

Lemma L4_ids k : (k < length deps)%nat -> In (Z.of_nat k) (depot_ids N).
Proof.
  intros H. unfold N. rewrite Ldepot_ids. apply in_map_iff. exists k. split; [reflexivity|]. apply in_seq. lia.
Qed.

Lemma L4_sdepots n : In n (nw_sdepots N) ->
  is_start_depot (nd N n) = true /\ In (get_depot_idx N n) (depot_ids N) /\ get_start_depot_node N (get_depot_idx N n) = n.
Proof.
  unfold N at 1. cbn [nw_sdepots Lnet]. unfold Lsrt. intros H. apply sort_by_in in H. rewrite Lsdeps_eq in H.
  apply in_map_iff in H. destruct H as (k & <- & Hk). apply in_seq in Hk.
  destruct (L4_depot k) as (d & E); [lia|]. destruct (dep_at i perm trips p0 p1 k d E) as (EI & DE & NS & NE).
  fold N in DE, NS, NE.
  assert (Gi : get_depot_idx N (SD (2 * Z.of_nat k)) = Z.of_nat k) by (unfold get_depot_idx; rewrite NS; exact EI).
  rewrite Gi. split; [rewrite NS; reflexivity|]. split; [apply L4_ids; lia|].
  unfold get_start_depot_node. rewrite DE. reflexivity.
Qed.

Lemma L4_edepots n : In n (nw_edepots N) ->
  is_end_depot (nd N n) = true /\ In (get_depot_idx N n) (depot_ids N) /\ get_end_depot_node N (get_depot_idx N n) = n.
Proof.
  unfold N at 1. cbn [nw_edepots Lnet]. unfold Lsrt. intros H. apply sort_by_in in H. rewrite Ledeps_eq in H.
  apply in_map_iff in H. destruct H as (k & <- & Hk). apply in_seq in Hk.
  destruct (L4_depot k) as (d & E); [lia|]. destruct (dep_at i perm trips p0 p1 k d E) as (EI & DE & NS & NE).
  fold N in DE, NS, NE.
  assert (Gi : get_depot_idx N (ED (2 * Z.of_nat k + 1)) = Z.of_nat k) by (unfold get_depot_idx; rewrite NE; exact EI).
  rewrite Gi. split; [rewrite NE; reflexivity|]. split; [apply L4_ids; lia|].
  unfold get_end_depot_node. rewrite DE. reflexivity.
Qed.

Lemma L4_maint m : In m (nw_maint N) -> is_maint (nd N m) = true.
Proof. intros H. destruct (Lmaint_node i perm trips p0 p1 m H) as (k & sl & _ & E & _). fold N in E. rewrite E. reflexivity. Qed.

Lemma L4_flow_wf : flow_wf N ty slots.
Proof.
  apply flow_wf_of_net_wf; [exact WF|exact Hty| | |exact L4_slm|exact L4_sdepots|exact L4_edepots].
  - intros s Hs. exact (proj1 (Lsvc_type i perm trips p0 p1 ty Hty s Hs)).
  - exact L4_maint.
Qed.

Lemma L4_codes : codes_distinct N ty slots.
Proof. exact (Lcodes i perm trips p0 p1 ty Hty slots Hsl_nd Hsl). Qed.

Lemma L4_vis n : In n (type_nodes N ty) -> visited N slots n = true -> good_head N ty slots n.
Proof.
  unfold type_nodes. intros H Hv. apply in_app_or in H. destruct H as [H|H]; [left; apply in_or_app; left; exact H|].
  apply in_app_or in H. destruct H as [H|H].
  - left. apply in_or_app. right. apply slot_allotted_iff. unfold visited in Hv.
    pose proof (L4_maint n H) as Q. destruct (nd N n); try discriminate Q. exact Hv.
  - apply in_app_or in H. destruct H as [H|H]; [|right; exact H]. exfalso.
    destruct (L4_sdepots n H) as (Q & _). unfold visited in Hv. destruct (nd N n); try discriminate Q. discriminate Hv.
Qed.

Lemma L4_dep d : In d (depot_ids N) ->
  In (get_end_depot_node N d) (nw_edepots N) /\ get_depot_idx N (get_end_depot_node N d) = d.
Proof.
  unfold N at 1. rewrite Ldepot_ids. intros H. apply in_map_iff in H. destruct H as (k & <- & Hk). apply in_seq in Hk.
  destruct (L4_depot k) as (dd & E); [lia|]. destruct (dep_at i perm trips p0 p1 k dd E) as (EI & DE & NS & NE).
  fold N in DE, NS, NE. unfold get_end_depot_node. rewrite DE. split.
  - unfold N. cbn [nw_edepots Lnet]. unfold Lsrt. apply sort_by_in. rewrite Ledeps_eq. apply in_map_iff.
    exists k. split; [reflexivity|]. apply in_seq. lia.
  - unfold get_depot_idx. rewrite NE. exact EI.
Qed.

(* the non-depot nodes of the table have pairwise distinct indices *)
Definition act_shape (n : node_id) : Prop :=
  (exists k, (k < length (Ltbt i trips))%nat /\ n = SV (Lc0 i perm trips + Z.of_nat k)) \/
  (exists k, n = MT (Lc1 i perm trips + Z.of_nat k)).

Lemma L4_shape_inj a b : act_shape a -> act_shape b -> nid_idx a = nid_idx b -> a = b.
Proof.
  intros [(k & Hk & ->)|(k & ->)] [(k' & Hk' & ->)|(k' & ->)] E; cbn [nid_idx] in E; unfold Lc1 in *;
    try (f_equal; lia); exfalso; lia.
Qed.

Lemma L4_table_shape n v : In (n, v) (nw_nodes N) -> is_depot (nd N n) = false -> act_shape n.
Proof.
  unfold N at 1. cbn [nw_nodes Lnet]. intros H Dn. pose proof (Lnd i perm trips p0 n v p1 H) as En. fold N in En.
  unfold Lnodes in H. apply in_app_or in H. destruct H as [H|H]; [|apply in_app_or in H; destruct H as [H|H]].
  - exfalso. destruct (Ldentries_in i perm trips (n, v) H) as (d & [Q|Q]); cbn [snd] in Q; rewrite En, Q in Dn; discriminate Dn.
  - left. unfold Lsvc_entries in H. apply in_combine_l in H. unfold Lsvc_ids in H. apply in_map_iff in H.
    destruct H as (k & <- & Hk). apply in_seq in Hk. exists k. split; [lia|reflexivity].
  - right. unfold Lm_entries in H. apply in_combine_l in H. unfold Lmids in H. apply in_map_iff in H.
    destruct H as (k & <- & _). exists k. reflexivity.
Qed.

Lemma L4_res x : In x (acts N ty slots) -> tail_of N (fr_node x) = TNode x.
Proof.
  intros Hx. destruct (act_nd _ _ _ L4_flow_wf x Hx) as (Dx & _).
  destruct (nondepot_known N x Dx) as (v & Hin & _). pose proof (L4_table_shape x v Hin Dx) as Sx.
  unfold tail_of. rewrite fr_mod. cbn [Z.eqb Pos.eqb].
  destruct (find _ (nw_nodes N)) as [[n w]|] eqn:Ef.
  - apply find_some in Ef. destruct Ef as [Hn Pn]. apply andb_true_iff in Pn. destruct Pn as [P1 P2].
    apply Z.eqb_eq in P1. apply negb_true_iff in P2. f_equal.
    apply (L4_shape_inj n x (L4_table_shape n w Hn P2) Sx). unfold fr_node in P1. lia.
  - exfalso. pose proof (find_none _ _ Ef (x, v) Hin) as Q. cbn beta iota in Q. rewrite Z.eqb_refl, Dx in Q. discriminate Q.
Qed.

Lemma L4_sorted : StronglySorted key_le (lookup_sorted ty (nw_type_by_start N)).
Proof. unfold N. cbn [nw_type_by_start Lnet]. rewrite (Lby_lookup i perm trips p0 _ ty Hty). apply Lkeys_sorted. Qed.

Theorem L4_side_conditions : decode_side_conditions N ty slots.
Proof.
  apply side_conditions_hold; [exact WF|exact Hty|exact L4_codes|exact L4_flow_wf|exact L4_slm|exact L4_vis|exact L4_dep|exact L4_res|].
  intros l1 n l2 p L Hp Cr. destruct (act_nd _ _ _ L4_flow_wf p Hp) as (Dp & _).
  apply (prec N ty WF Hty DP L4_sorted l1 n l2 p L); [|exact Dp|exact Cr].
  destruct (wf_parts N WF) as (_ & _ & _ & Ht). destruct (Ht ty Hty) as (_ & _ & S & _). apply S.
  unfold type_nodes. apply in_app_or in Hp. destruct Hp as [Hp|Hp]; [apply in_or_app; left; exact Hp|].
  apply in_or_app. right. apply in_or_app. left. apply L4_slm. exact Hp.
Qed.
End Loaded4.

(** ** B.6 the theorem *)
Theorem decode_total : stmt_decode_total.
Proof.
  intros i perm nw ty slots f order (V & PO & U & L & Hty & Hnd & Hsl & FE & OK).
  destruct (load_wf_partial i perm nw V PO L) as (WF & DP & _).
  destruct (load_inv i perm nw V L) as (trips & n0 & p1 & E & Hn0 & R & G & Ne). rewrite E in *.
  apply (decode_total_under_side_conditions _ ty slots f order); [|exact FE|exact OK].
  apply (L4_side_conditions i perm trips (Len n0) p1 WF DP ty Hty slots Hnd Hsl).
Qed.

Print Assumptions decode_needs_conservation.
Print Assumptions decode_total_under_side_conditions.
Print Assumptions side_conditions_hold.
Print Assumptions decode_total.

(** * C (partial). every decoded tour starts at the start node of a depot and has a second node *)
Definition tour_pre (nw : network) (t : list node_id) : Prop :=
  exists d a r, t = get_start_depot_node nw d :: a :: r.
Definition stmt_decode_tours_shape_partial : Prop :=
  forall nw ty slots order tours t,
    decode nw ty slots order = Ok tours -> In t tours -> tour_pre nw t.

Lemma push_at_pre nw l : forall i x, Forall (tour_pre nw) l -> Forall (tour_pre nw) (push_at l i x).
Proof.
  induction l as [|t r IH]; intros i x H; [destruct i; exact H|].
  inversion H as [|? ? Ht Hr]; subst. destruct i as [|j]; cbn [push_at]; constructor; auto.
  destruct Ht as (d & a & r' & ->). exists d, a, (r' ++ [x]). reflexivity.
Qed.

Lemma unit_pre nw n s c s1 : decode_unit nw n s c = Ok s1 ->
  Forall (tour_pre nw) (d_tours s) -> Forall (tour_pre nw) (d_tours s1).
Proof.
  unfold decode_unit. intros E H. destruct (tail_of nw c) as [p|d|]; [| |discriminate E].
  - destruct (ltt_get (d_ltt s) p) as [v|]; [|discriminate E]. destruct (rev v) as [|j rv]; [discriminate E|].
    destruct (Nat.ltb j (length (d_tours s))); [|discriminate E]. inversion E; subst s1. cbn [d_tours].
    apply push_at_pre. exact H.
  - destruct (is_end_depot (nd nw n)); inversion E; subst s1; [exact H|]. cbn [d_tours].
    apply Forall_app. split; [exact H|]. constructor; [|constructor]. exists d, n, []. reflexivity.
Qed.

Lemma run_pre nw : forall U s s', Forall (tour_pre nw) (d_tours s) -> run nw U (Ok s) = Ok s' ->
  Forall (tour_pre nw) (d_tours s').
Proof.
  induction U as [|u U IH]; intros s s' H E.
  - cbn in E. inversion E; subst s'. exact H.
  - change (run nw U (decode_unit nw (fst u) s (snd u)) = Ok s') in E.
    destruct (decode_unit nw (fst u) s (snd u)) as [s1| | |] eqn:E1.
    + exact (IH s1 s' (unit_pre nw _ _ _ _ E1 H) E).
    + rewrite (proj1 (run_fail nw U)) in E. discriminate E.
    + rewrite (proj1 (proj2 (run_fail nw U))) in E. discriminate E.
    + rewrite (proj2 (proj2 (run_fail nw U))) in E. discriminate E.
Qed.

Theorem decode_tours_shape_partial : stmt_decode_tours_shape_partial.
Proof.
  intros nw ty slots order tours t E Ht. unfold decode in E. rewrite outer_run in E.
  destruct (run nw _ _) as [s| | |] eqn:Er; cbn [bind] in E; try discriminate E. inversion E; subst tours.
  pose proof (run_pre nw _ {| d_tours := []; d_ltt := [] |} s (Forall_nil _) Er) as F. rewrite Forall_forall in F. exact (F t Ht).
Qed.
Print Assumptions decode_tours_shape_partial.

(** * Summary
   - [decode_needs_conservation] : stmt_decode_needs_conservation (witness nw2, every node lists a unit from SV 5).
   - [decode_total] : stmt_decode_total, in full.  Structure:
       [decode_ok_run]  (B.1) the loop is one run over the list of units; no panic if the visiting order is duplicate-free,
                        every tail resolves, a trip tail is visited earlier, and the units balance at it;
       [decode_total_under_side_conditions] (B.2) balance = conservation at the left and right copy of the tail
                        (|order p| = inflow(4k) = node edge = outflow(4k+1) = units consumed), under
                        [decode_side_conditions] (facts about the network only);
       [side_conditions_hold] (B.3) these from net_wf_b, codes_distinct, flow_wf and five facts about the node tables;
       [L4_side_conditions] (B.4/B.5) all of them for loaded networks (chronological visiting order: [Lkeys_sorted],
                        [prec]; positive durations: durations_pos_b; index injectivity: [L4_shape_inj]).
   - [decode_tours_shape_partial] : every decoded tour is  start node of a depot :: node :: rest  (no hypotheses).
   - stmt_decode_tours_shape (full) and stmt_decode_decomposes : not attempted. *)
