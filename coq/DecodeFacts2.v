(* DecodeFacts2.v — the decoded tours: shape (C) and decomposition (D).  Builds on DecodeFacts.v. *)
From Coq Require Import Permutation Sorted.
From RS Require Import Base BaseFacts Network NetSpec NetFacts LoadStmts LoadFacts LoadFacts2 EndToEndStmts Tour Flow FlowStmts
  FlowFacts FlowFacts2 FlowFacts3 Decode DecodeStmts DecodeFacts.
Import ListNotations.
Open Scope Z_scope.

(** * 0. list helpers *)
Lemma nth_push_at {A} (l : list (list A)) : forall i x j,
  nth_error (push_at l i x) j =
  if Nat.eqb j i then option_map (fun t => t ++ [x]) (nth_error l i) else nth_error l j.
Proof.
  induction l as [|t r IH]; intros i x j.
  - cbn [push_at]. destruct (Nat.eqb j i); [destruct i, j|destruct j]; reflexivity.
  - destruct i as [|i], j as [|j]; cbn [push_at nth_error Nat.eqb option_map]; try reflexivity. apply IH.
Qed.

Lemma zs_push_at {A} (g : list A -> Z) (l : list (list A)) : forall i x t, nth_error l i = Some t ->
  z_sum (map g (push_at l i x)) = z_sum (map g l) + g (t ++ [x]) - g t.
Proof.
  induction l as [|t0 r IH]; intros i x t H; [destruct i; discriminate H|].
  destruct i as [|i]; cbn [push_at map nth_error] in *.
  - inversion H; subst t0. rewrite !z_sum_cons. lia.
  - rewrite !z_sum_cons, (IH i x t H). lia.
Qed.

Lemma Forall_push_at {A} (P : list A -> Prop) (l : list (list A)) : forall i x,
  Forall P l -> (forall t, nth_error l i = Some t -> P (t ++ [x])) -> Forall P (push_at l i x).
Proof.
  induction l as [|t0 r IH]; intros i x F H; [destruct i; constructor|].
  inversion F as [|? ? Ht Hr]; subst. destruct i as [|i]; cbn [push_at].
  - constructor; [apply H; reflexivity|exact Hr].
  - constructor; [exact Ht|]. apply IH; [exact Hr|]. intros t Hn. apply H. exact Hn.
Qed.

Lemma windows_snoc {A} (d : A) : forall (t : list A) a x,
  windows ((a :: t) ++ [x]) = windows (a :: t) ++ [(last (a :: t) d, x)].
Proof.
  induction t as [|b t IH]; intros a x; [reflexivity|].
  change ((a :: b :: t) ++ [x]) with (a :: b :: (t ++ [x])). rewrite !windows_cons2.
  change (b :: t ++ [x]) with ((b :: t) ++ [x]). rewrite IH. reflexivity.
Qed.

Lemma nth_error_In' {A} (l : list A) i t : nth_error l i = Some t -> In t l.
Proof. apply nth_error_In. Qed.

Lemma In_nth_error' {A} (l : list A) t : In t l -> exists i, nth_error l i = Some t.
Proof. apply In_nth_error. Qed.

(* the uses of an edge by one tour *)
Definition tuse (nw : network) (e : fedge) (t : list node_id) : Z :=
  z_sum (map (nuse nw e) t) + suse nw e t + z_sum (map (ause nw e) (windows t)).
Lemma uses_tuse nw tours e : uses_of_edge nw tours e = z_sum (map (tuse nw e) tours).
Proof. reflexivity. Qed.
Lemma tuse_snoc nw e a r x :
  tuse nw e ((a :: r) ++ [x]) = tuse nw e (a :: r) + nuse nw e x + ause nw e (last (a :: r) (SD 0), x).
Proof.
  unfold tuse. rewrite (windows_snoc (SD 0)), !map_app, !z_sum_app. cbn [map]. rewrite !z_sum_single.
  change (suse nw e ((a :: r) ++ [x])) with (suse nw e (a :: r)). lia.
Qed.

(** * 1. the invariant of the loop (no hypothesis on the network) *)
Section Run2.
Variable nw : network.
Notation sdn := (get_start_depot_node nw).

Definition lg (L : list (node_id * list nat)) (q : node_id) : list nat :=
  match ltt_get L q with Some v => v | None => [] end.
Definition lget (s : dstate) (q : node_id) : list nat := lg (d_ltt s) q.

Lemma lg_set L p v q : lg (ltt_set L p v) q = if nid_eqb q p then v else lg L q.
Proof. unfold lg. rewrite ltt_get_set. destruct (nid_eqb q p); reflexivity. Qed.
Lemma lg_push L n i q : lg (ltt_push L n i) q = if nid_eqb q n then lg L n ++ [i] else lg L q.
Proof.
  unfold ltt_push. rewrite lg_set. unfold lg. destruct (nid_eqb q n); [|reflexivity]. destruct (ltt_get L n); reflexivity.
Qed.

(* the unit appends its node to a tour *)
Definition adds (u : node_id * Z) : bool :=
  match tail_of nw (snd u) with
  | TNode _ => true
  | TDepot _ => negb (is_end_depot (nd nw (fst u)))
  | TUnknown => false
  end.
(* the node before the unit's node in that tour *)
Definition link (c : Z) (x : node_id) : Prop :=
  tail_of nw c = TNode x \/ exists d, tail_of nw c = TDepot d /\ x = sdn d.
(* what the unit adds to the uses of e *)
Definition useU (e : fedge) (u : node_id * Z) : Z :=
  match tail_of nw (snd u) with
  | TNode p => nuse nw e (fst u) + ause nw e (p, fst u)
  | TDepot d => if is_end_depot (nd nw (fst u)) then 0 else tuse nw e [sdn d; fst u]
  | TUnknown => 0
  end.
Definition tour_good (U : list (node_id * Z)) (t : list node_id) : Prop :=
  exists d a r, t = sdn d :: a :: r /\ is_end_depot (nd nw a) = false /\
    (exists n c, In (n, c) U /\ tail_of nw c = TDepot d) /\
    (forall x y, In (x, y) (windows t) -> exists c, In (y, c) U /\ link c x).

Lemma useU_node e n c p : tail_of nw c = TNode p -> useU e (n, c) = nuse nw e n + ause nw e (p, n).
Proof. intros H. unfold useU. cbn [fst snd]. rewrite H. reflexivity. Qed.
Lemma useU_depot e n c d : tail_of nw c = TDepot d ->
  useU e (n, c) = if is_end_depot (nd nw n) then 0 else tuse nw e [sdn d; n].
Proof. intros H. unfold useU. cbn [fst snd]. rewrite H. reflexivity. Qed.
Lemma adds_node n c p : tail_of nw c = TNode p -> adds (n, c) = true.
Proof. intros H. unfold adds. cbn [fst snd]. rewrite H. reflexivity. Qed.
Lemma adds_depot n c d : tail_of nw c = TDepot d -> adds (n, c) = negb (is_end_depot (nd nw n)).
Proof. intros H. unfold adds. cbn [fst snd]. rewrite H. reflexivity. Qed.

Lemma tour_good_mono U U' t : (forall u, In u U -> In u U') -> tour_good U t -> tour_good U' t.
Proof.
  intros Sub (d & a & r & E & Ha & (n & c & Hin & Ht) & W). exists d, a, r. split; [exact E|]. split; [exact Ha|].
  split; [exists n, c; split; [apply Sub; exact Hin|exact Ht]|].
  intros x y Hxy. destruct (W x y Hxy) as (c' & Hc & L). exists c'. split; [apply Sub; exact Hc|exact L].
Qed.

Record inv (s : dstate) (U : list (node_id * Z)) : Prop := {
  i_last : forall p i, In i (lget s p) -> exists t, nth_error (d_tours s) i = Some t /\ last t (SD 0) = p;
  i_nodup : forall p, NoDup (lget s p);
  i_open : forall i t, nth_error (d_tours s) i = Some t -> is_end_depot (nd nw (last t (SD 0))) = false ->
             In i (lget s (last t (SD 0)));
  i_good : Forall (tour_good U) (d_tours s);
  i_uses : forall e, uses_of_edge nw (d_tours s) e = z_sum (map (useU e) U);
  i_tl : forall g : node_id -> Z,
           z_sum (map (fun t => z_sum (map g (tl t))) (d_tours s)) =
           z_sum (map (fun u => if adds u then g (fst u) else 0) U);
  i_len : forall q, Z.of_nat (length (lget s q)) = bal nw U q
}.

Lemma inv_init : inv {| d_tours := []; d_ltt := [] |} [].
Proof.
  constructor; cbn [d_tours d_ltt]; try reflexivity.
  - intros p i H. destruct H.
  - intros p. constructor.
  - intros i t H. destruct i; discriminate H.
  - constructor.
Qed.

Lemma zs_snoc {A} (g : A -> Z) U u : z_sum (map g (U ++ [u])) = z_sum (map g U) + g u.
Proof. rewrite map_app, z_sum_app. cbn [map]. rewrite z_sum_single. reflexivity. Qed.

Lemma bal_snoc U u q : bal nw (U ++ [u]) q = bal nw U q + dlt nw u q.
Proof. rewrite bal_app, bal_cons. change (bal nw [] q) with 0. lia. Qed.

(* a unit continuing the tour that waits at p *)
Lemma step_node n s c p v i rv U :
  inv s U -> tail_of nw c = TNode p -> p <> n ->
  ltt_get (d_ltt s) p = Some v -> rev v = i :: rv ->
  inv {| d_tours := push_at (d_tours s) i n; d_ltt := ltt_push (ltt_set (d_ltt s) p (rev rv)) n i |} (U ++ [(n, c)]).
Proof.
  intros I Et Hpn Ev Er.
  assert (Ev' : lget s p = rev rv ++ [i]).
  { unfold lget, lg. rewrite Ev. apply (f_equal (@rev nat)) in Er. rewrite rev_involutive in Er. exact Er. }
  assert (Hip : In i (lget s p)) by (rewrite Ev'; apply in_or_app; right; left; reflexivity).
  destruct (i_last s U I p i Hip) as (ti & Hti & Lti).
  assert (Fq : forall q, In i (lget s q) -> q = p).
  { intros q Hq. destruct (i_last s U I q i Hq) as (t' & Ht' & Lt'). congruence. }
  assert (Fn : ~ In i (lget s n)) by (intros H; apply Hpn; symmetry; apply Fq; exact H).
  assert (Frv : ~ In i (rev rv)).
  { pose proof (i_nodup s U I p) as ND. rewrite Ev' in ND. intros H. apply (NoDup_app_disj _ _ i ND H). left. reflexivity. }
  set (s1 := {| d_tours := push_at (d_tours s) i n; d_ltt := ltt_push (ltt_set (d_ltt s) p (rev rv)) n i |}).
  assert (Hnp : nid_eqb n p = false) by (apply nid_eqb_false; congruence).
  assert (LG : forall q, lget s1 q = if nid_eqb q n then lget s n ++ [i] else if nid_eqb q p then rev rv else lget s q).
  { intros q. unfold lget, s1. cbn [d_ltt]. rewrite lg_push, !lg_set, Hnp. reflexivity. }
  assert (NT : forall j, nth_error (d_tours s1) j = if Nat.eqb j i then Some (ti ++ [n]) else nth_error (d_tours s) j).
  { intros j. unfold s1. cbn [d_tours]. rewrite nth_push_at, Hti. reflexivity. }
  pose proof (i_good s U I) as G. rewrite Forall_forall in G.
  destruct (G ti (nth_error_In' _ _ _ Hti)) as (d0 & a0 & r0 & Eti & Ha0 & Hd0 & W0).
  constructor.
  - (* i_last *)
    intros q j Hj. rewrite LG in Hj. rewrite NT. destruct (nid_eqb q n) eqn:Eqn.
    + apply nid_eqb_eq in Eqn. subst q. apply in_app_or in Hj. destruct Hj as [Hj|[<-|[]]].
      * destruct (Nat.eqb_spec j i) as [->|_]; [contradiction|]. exact (i_last s U I n j Hj).
      * rewrite Nat.eqb_refl. eexists. split; [reflexivity|apply last_last].
    + destruct (nid_eqb q p) eqn:Eqp.
      * apply nid_eqb_eq in Eqp. subst q. destruct (Nat.eqb_spec j i) as [->|_]; [contradiction|].
        apply (i_last s U I p j). rewrite Ev'. apply in_or_app. left. exact Hj.
      * destruct (Nat.eqb_spec j i) as [->|_].
        { exfalso. apply Fq in Hj. subst q. rewrite nid_eqb_refl in Eqp. discriminate Eqp. }
        exact (i_last s U I q j Hj).
  - (* i_nodup *)
    intros q. rewrite LG. destruct (nid_eqb q n).
    + apply NoDup_app_build; [exact (i_nodup s U I n)|repeat constructor; intros []|].
      intros x H1 [<-|[]]. contradiction.
    + destruct (nid_eqb q p); [|exact (i_nodup s U I q)].
      pose proof (i_nodup s U I p) as ND. rewrite Ev' in ND. apply NoDup_app_split in ND. tauto.
  - (* i_open *)
    intros j t Hj He. rewrite NT in Hj. destruct (Nat.eqb_spec j i) as [->|Hji].
    + inversion Hj; subst t. rewrite last_last, LG, nid_eqb_refl. apply in_or_app. right. left. reflexivity.
    + pose proof (i_open s U I j t Hj He) as Hin. rewrite LG. destruct (nid_eqb (last t (SD 0)) n) eqn:Eqn.
      * apply nid_eqb_eq in Eqn. rewrite Eqn in Hin. apply in_or_app. left. exact Hin.
      * destruct (nid_eqb (last t (SD 0)) p) eqn:Eqp; [|exact Hin].
        apply nid_eqb_eq in Eqp. rewrite Eqp, Ev' in Hin. apply in_app_or in Hin. destruct Hin as [Hin|[Q|[]]]; [exact Hin|].
        exfalso. apply Hji. symmetry. exact Q.
  - (* i_good *)
    unfold s1. cbn [d_tours]. apply Forall_push_at.
    + apply Forall_forall. intros t Ht. apply (tour_good_mono U); [|apply G; exact Ht].
      intros u Hu. apply in_or_app. left. exact Hu.
    + intros t Ht. rewrite Hti in Ht. inversion Ht; subst t. exists d0, a0, (r0 ++ [n]).
      split; [rewrite Eti; reflexivity|]. split; [exact Ha0|]. split.
      * destruct Hd0 as (n' & c' & Hin & Ht'). exists n', c'. split; [apply in_or_app; left; exact Hin|exact Ht'].
      * intros x y Hxy. rewrite Eti in Hxy. change (sdn d0 :: a0 :: r0) with (sdn d0 :: (a0 :: r0)) in Hxy.
        assert (Lp : last (sdn d0 :: a0 :: r0) (SD 0) = p) by (rewrite <- Eti; exact Lti).
        rewrite (windows_snoc (SD 0)), Lp in Hxy. apply in_app_or in Hxy. destruct Hxy as [Hxy|[Q|[]]].
        -- rewrite <- Eti in Hxy. destruct (W0 x y Hxy) as (c' & Hc' & L). exists c'. split; [apply in_or_app; left; exact Hc'|exact L].
        -- inversion Q; subst x y. exists c. split; [apply in_or_app; right; left; reflexivity|]. left. exact Et.
  - (* i_uses *)
    intros e. unfold s1. cbn [d_tours]. rewrite uses_tuse, (zs_push_at (tuse nw e) _ i n ti Hti), <- uses_tuse, (i_uses s U I e), zs_snoc.
    rewrite (useU_node e n c p Et).
    pose proof (tuse_snoc nw e (sdn d0) (a0 :: r0) n) as Q. rewrite <- Eti, Lti in Q. lia.
  - (* i_tl *)
    intros g. unfold s1. cbn [d_tours]. rewrite (zs_push_at (fun t => z_sum (map g (tl t))) _ i n ti Hti), (i_tl s U I g), zs_snoc.
    rewrite (adds_node n c p Et), Eti. cbn [app tl fst map]. rewrite !z_sum_cons, map_app, z_sum_app. cbn [map]. rewrite z_sum_single. lia.
  - (* i_len *)
    intros q. rewrite LG, bal_snoc, <- (i_len s U I q). unfold dlt. cbn [fst snd]. rewrite Et.
    destruct (nid_eqb q n) eqn:Eqn.
    + apply nid_eqb_eq in Eqn. subst q. rewrite Hnp, app_length. cbn [length]. lia.
    + destruct (nid_eqb q p) eqn:Eqp; [|lia]. apply nid_eqb_eq in Eqp. subst q. rewrite Ev', app_length. cbn [length]. lia.
Qed.

(* a unit from a start depot into a trip / slot: a new tour *)
Lemma step_depot n s c d U :
  inv s U -> tail_of nw c = TDepot d -> is_end_depot (nd nw n) = false ->
  inv {| d_tours := d_tours s ++ [[sdn d; n]]; d_ltt := ltt_push (d_ltt s) n (length (d_tours s)) |} (U ++ [(n, c)]).
Proof.
  intros I Et He.
  set (k := length (d_tours s)).
  set (s1 := {| d_tours := d_tours s ++ [[sdn d; n]]; d_ltt := ltt_push (d_ltt s) n k |}).
  assert (LG : forall q, lget s1 q = if nid_eqb q n then lget s n ++ [k] else lget s q).
  { intros q. unfold lget, s1. cbn [d_ltt]. rewrite lg_push. reflexivity. }
  assert (Fk : forall q, ~ In k (lget s q)).
  { intros q H. destruct (i_last s U I q k H) as (t & Ht & _).
    assert (nth_error (d_tours s) k <> None) by congruence. apply nth_error_Some in H0. unfold k in H0. lia. }
  assert (NT1 : forall j t, nth_error (d_tours s) j = Some t -> nth_error (d_tours s1) j = Some t).
  { intros j t H. unfold s1. cbn [d_tours]. rewrite nth_error_app1; [exact H|]. apply nth_error_Some. congruence. }
  assert (NT2 : forall j t, nth_error (d_tours s1) j = Some t ->
                 nth_error (d_tours s) j = Some t \/ (j = k /\ t = [sdn d; n])).
  { intros j t H. unfold s1 in H. cbn [d_tours] in H. destruct (Nat.lt_ge_cases j k) as [Hlt|Hge].
    - left. rewrite nth_error_app1 in H by exact Hlt. exact H.
    - right. rewrite nth_error_app2 in H by exact Hge. fold k in H. destruct (j - k)%nat as [|m] eqn:Em.
      + cbn in H. inversion H. split; [lia|reflexivity].
      + cbn in H. destruct m; discriminate H. }
  constructor.
  - intros q j Hj. rewrite LG in Hj. destruct (nid_eqb q n) eqn:Eqn.
    + apply nid_eqb_eq in Eqn. subst q. apply in_app_or in Hj. destruct Hj as [Hj|[<-|[]]].
      * destruct (i_last s U I n j Hj) as (t & Ht & Lt). exists t. split; [apply NT1; exact Ht|exact Lt].
      * exists [sdn d; n]. split; [|reflexivity]. unfold s1. cbn [d_tours]. rewrite nth_error_app2 by (unfold k; lia).
        unfold k. rewrite Nat.sub_diag. reflexivity.
    + destruct (i_last s U I q j Hj) as (t & Ht & Lt). exists t. split; [apply NT1; exact Ht|exact Lt].
  - intros q. rewrite LG. destruct (nid_eqb q n); [|exact (i_nodup s U I q)].
    apply NoDup_app_build; [exact (i_nodup s U I n)|repeat constructor; intros []|].
    intros x H1 [<-|[]]. exact (Fk n H1).
  - intros j t Hj Hend. destruct (NT2 j t Hj) as [Hj'|[-> ->]].
    + pose proof (i_open s U I j t Hj' Hend) as Hin. rewrite LG. destruct (nid_eqb (last t (SD 0)) n) eqn:Eqn; [|exact Hin].
      apply nid_eqb_eq in Eqn. rewrite Eqn in Hin. apply in_or_app. left. exact Hin.
    + cbn [last]. rewrite LG, nid_eqb_refl. apply in_or_app. right. left. reflexivity.
  - unfold s1. cbn [d_tours]. apply Forall_app. split.
    + pose proof (i_good s U I) as G. rewrite Forall_forall in G. apply Forall_forall. intros t Ht.
      apply (tour_good_mono U); [|apply G; exact Ht]. intros u Hu. apply in_or_app. left. exact Hu.
    + constructor; [|constructor]. exists d, n, []. split; [reflexivity|]. split; [exact He|]. split.
      * exists n, c. split; [apply in_or_app; right; left; reflexivity|exact Et].
      * intros x y [Q|[]]. inversion Q; subst x y. exists c. split; [apply in_or_app; right; left; reflexivity|].
        right. exists d. split; [exact Et|reflexivity].
  - intros e. unfold s1. cbn [d_tours]. rewrite uses_tuse, zs_snoc, <- uses_tuse, (i_uses s U I e), zs_snoc.
    rewrite (useU_depot e n c d Et), He. reflexivity.
  - intros g. unfold s1. cbn [d_tours]. rewrite zs_snoc, (i_tl s U I g), zs_snoc.
    rewrite (adds_depot n c d Et), He. cbn [fst tl map negb]. rewrite z_sum_single. reflexivity.
  - intros q. rewrite LG, bal_snoc, <- (i_len s U I q). unfold dlt. cbn [fst snd]. rewrite Et, He. cbn [negb]. rewrite andb_true_r.
    destruct (nid_eqb q n) eqn:Eqn; [|lia]. apply nid_eqb_eq in Eqn. subst q. rewrite app_length. cbn [length]. lia.
Qed.

(* a unit from a start depot straight into an end depot: nothing happens *)
Lemma step_direct n s c d U :
  inv s U -> tail_of nw c = TDepot d -> is_end_depot (nd nw n) = true -> inv s (U ++ [(n, c)]).
Proof.
  intros I Et He. constructor.
  - exact (i_last s U I).
  - exact (i_nodup s U I).
  - exact (i_open s U I).
  - pose proof (i_good s U I) as G. rewrite Forall_forall in G. apply Forall_forall. intros t Ht.
    apply (tour_good_mono U); [|apply G; exact Ht]. intros u Hu. apply in_or_app. left. exact Hu.
  - intros e. rewrite (i_uses s U I e), zs_snoc. rewrite (useU_depot e n c d Et), He. lia.
  - intros g. rewrite (i_tl s U I g), zs_snoc. rewrite (adds_depot n c d Et), He. cbn [negb]. lia.
  - intros q. rewrite bal_snoc, <- (i_len s U I q). unfold dlt. cbn [fst snd]. rewrite Et, He. cbn [negb]. rewrite andb_false_r. lia.
Qed.

Lemma step_inv n s c s1 U :
  inv s U -> decode_unit nw n s c = Ok s1 -> (forall p, tail_of nw c = TNode p -> p <> n) -> inv s1 (U ++ [(n, c)]).
Proof.
  intros I E Hp. unfold decode_unit in E. destruct (tail_of nw c) as [p|d|] eqn:Et; [| |discriminate E].
  - destruct (ltt_get (d_ltt s) p) as [v|] eqn:Ev; [|discriminate E]. destruct (rev v) as [|i rv] eqn:Er; [discriminate E|].
    destruct (Nat.ltb i (length (d_tours s))); [|discriminate E]. inversion E; subst s1.
    exact (step_node n s c p v i rv U I Et (Hp p eq_refl) Ev Er).
  - destruct (is_end_depot (nd nw n)) eqn:He; inversion E; subst s1.
    + exact (step_direct n s c d U I Et He).
    + exact (step_depot n s c d U I Et He).
Qed.

Lemma run_inv : forall U2 U1 s s', inv s U1 ->
  (forall u, In u U2 -> forall p, tail_of nw (snd u) = TNode p -> p <> fst u) ->
  run nw U2 (Ok s) = Ok s' -> inv s' (U1 ++ U2).
Proof.
  induction U2 as [|[n c] U2 IH]; intros U1 s s' I H E.
  - cbn in E. inversion E; subst s'. rewrite app_nil_r. exact I.
  - change (run nw U2 (decode_unit nw n s c) = Ok s') in E.
    destruct (decode_unit nw n s c) as [s1| | |] eqn:E1.
    + change (U1 ++ (n, c) :: U2) with (U1 ++ [(n, c)] ++ U2). rewrite app_assoc. apply (IH _ s1 s').
      * apply (step_inv n s c s1 U1 I E1). intros p Hp. exact (H (n, c) (or_introl eq_refl) p Hp).
      * intros u Hu. apply H. right. exact Hu.
      * exact E.
    + rewrite (proj1 (run_fail nw U2)) in E. discriminate E.
    + rewrite (proj1 (proj2 (run_fail nw U2))) in E. discriminate E.
    + rewrite (proj2 (proj2 (run_fail nw U2))) in E. discriminate E.
Qed.
End Run2.

(** * 2. with the side conditions: the shape of the tours *)
Lemma tail_of_depot nw c d : tail_of nw c = TDepot d -> c = fr_depot d.
Proof.
  unfold tail_of. destruct (Z.eqb_spec (c mod 4) 3) as [E|_].
  - intros Q. inversion Q. unfold fr_depot. pose proof (Z.div_mod c 4). lia.
  - destruct (c mod 4 =? 1); [|discriminate]. destruct (find _ _) as [[n x]|]; discriminate.
Qed.

Lemma tail_of_fr_depot nw d : tail_of nw (fr_depot d) = TDepot d.
Proof.
  unfold tail_of, fr_depot. rewrite mod4 by lia. cbn [Z.eqb Pos.eqb]. f_equal.
  rewrite (Z.mul_comm 4 d), Z.div_add_l by lia. change (3 / 4) with 0. lia.
Qed.

Lemma last_In {A} (d : A) : forall r a, In (last (a :: r) d) (a :: r).
Proof.
  induction r as [|b r IH]; intros a; [left; reflexivity|].
  change (last (a :: b :: r) d) with (last (b :: r) d). right. apply IH.
Qed.

Section Level2b.
Variable nw : network.
Variable ty : Z.
Variable slots : list (node_id * Z).
Notation net := (build_flow_network nw ty slots).
Notation VO := (visit_order nw ty).
Notation hd := (code_as_head nw).
Notation vis := (visited nw slots).
Notation ACTS := (acts nw ty slots).
Notation sdn := (get_start_depot_node nw).

(* further facts about the node tables and the arc lists (no flow, no oracle) *)
Record decode_side_conditions2 : Prop := {
  (* a visited node is a trip of the type / an allotted slot, or an end depot node *)
  sc2_vis : forall n, In n VO -> vis n = true -> In n ACTS \/ is_end_depot (nd nw n) = true;
  (* visited nodes have distinct left codes *)
  sc2_head_inj : forall n n', In n VO -> vis n = true -> In n' VO -> vis n' = true -> hd n = hd n' -> n = n';
  (* the three kinds of edges *)
  sc2_cases : forall e, In e net ->
     (exists a, In a ACTS /\ fe_tail e = fl_node a /\ fe_head e = fr_node a) \/
     ((exists z, fe_tail e = 4 * z + 1 \/ fe_tail e = 4 * z + 3) /\
      exists n, In n VO /\ vis n = true /\ fe_head e = hd n) \/
     (exists d, fe_tail e = fl_depot d /\ fe_head e = fr_depot d);
  (* an arc from the right copy of a trip / slot p into a visited node n: p reaches n *)
  sc2_node_arc : forall n e p, In n VO -> vis n = true -> In e net -> fe_head e = hd n ->
     tail_of nw (fe_tail e) = TNode p -> can_reach nw p n = true;
  (* an arc from the right copy of depot d into a visited node n: the start node of d is a start depot node that reaches n *)
  sc2_depot_arc : forall n e d, In n VO -> vis n = true -> In e net -> fe_head e = hd n ->
     tail_of nw (fe_tail e) = TDepot d ->
     can_reach nw (sdn d) n = true /\ exists dd, nd nw (sdn d) = NStart dd /\ dn_depot dd = d
}.

Variable f : flow.
Variable order : node_id -> list Z.
Hypothesis SC : decode_side_conditions nw ty slots.
Hypothesis SC2 : decode_side_conditions2.
Hypothesis FE : feasible net f = true.
Hypothesis OK : order_ok_b nw ty slots order net f = true.
Notation U := (all_units nw ty slots order).
Notation comb := (combine net f).

Lemma unit_facts u : In u U -> In (fst u) VO /\ vis (fst u) = true /\ In (snd u) (order (fst u)).
Proof.
  unfold all_units. intros H. apply in_flat_map in H. destruct H as (n & Hn & Hu).
  destruct (units_fst nw slots order n u Hu) as (E & Hv & Hc). rewrite E. auto.
Qed.

Lemma unit_edge n c : In n VO -> vis n = true -> In c (order n) ->
  exists e, In e net /\ fe_head e = hd n /\ fe_tail e = c /\ tail_of nw c <> TUnknown /\
            forall p, tail_of nw c = TNode p -> In p ACTS /\ p <> n.
Proof.
  intros Hn Hv Hc. destruct (order_edge nw ty slots f order OK n c Hn Hv Hc) as (e & He & Hh & Ht).
  destruct (in_split n VO Hn) as (l1 & l2 & L).
  destruct (sc_tails nw ty slots SC l1 n l2 e L Hv He Hh) as [Hu Hp]. rewrite Ht in Hu, Hp.
  exists e. split; [exact He|]. split; [exact Hh|]. split; [exact Ht|]. split; [exact Hu|].
  intros p Et. destruct (Hp p Et) as [Hpa Hp1]. split; [exact Hpa|].
  pose proof (sc_nodup nw ty slots SC) as ND. rewrite L in ND. exact (proj1 (NoDup_mid_notin l1 n l2 p ND Hp1)).
Qed.

Lemma final_inv tours : decode nw ty slots order = Ok tours -> exists s, d_tours s = tours /\ inv nw s U.
Proof.
  unfold decode. rewrite outer_run. change (flat_map (units nw slots order) VO) with U.
  destruct (run nw U (Ok {| d_tours := []; d_ltt := [] |})) as [s| | |] eqn:Er; cbn [bind]; intros E; try discriminate E.
  inversion E; subst tours. exists s. split; [reflexivity|].
  apply (run_inv nw U [] _ s (inv_init nw)); [|exact Er].
  intros u Hu p Hp. destruct (unit_facts u Hu) as (Hn & Hv & Hc).
  destruct (unit_edge _ _ Hn Hv Hc) as (e & _ & _ & _ & _ & Q). exact (proj2 (Q p Hp)).
Qed.

Lemma acts_nondepot p : In p ACTS -> is_depot (nd nw p) = false.
Proof. intros Hp. destruct (sc_acts nw ty slots SC p Hp) as (_ & _ & _ & T & _). exact (proj2 (tail_of_node nw _ p T)). Qed.

Lemma acts_inj a b : In a ACTS -> In b ACTS -> nid_idx a = nid_idx b -> a = b.
Proof.
  intros Ha Hb E. destruct (sc_acts nw ty slots SC a Ha) as (_ & _ & _ & Ta & _).
  destruct (sc_acts nw ty slots SC b Hb) as (_ & _ & _ & Tb & _).
  assert (Q : fr_node a = fr_node b) by (unfold fr_node; lia). rewrite Q in Ta. congruence.
Qed.

(* at the end no tour is waiting: every tour ends at an end depot *)
Lemma tour_closed s t : inv nw s U -> In t (d_tours s) -> tour_good nw U t ->
  is_end_depot (nd nw (last t (SD 0))) = true.
Proof.
  intros I Ht (d & a & r & E & Ha & _ & W).
  destruct (is_end_depot (nd nw (last t (SD 0)))) eqn:He; [reflexivity|exfalso].
  destruct (In_nth_error' _ _ Ht) as (i & Hi).
  pose proof (i_open nw s U I i t Hi He) as Hin.
  set (q := last t (SD 0)) in *.
  assert (Hq : In q (a :: r)).
  { unfold q. rewrite E. change (last (sdn d :: a :: r) (SD 0)) with (last (a :: r) (SD 0)). apply last_In. }
  rewrite <- (windows_snd (sdn d) (a :: r)), <- E in Hq. apply in_map_iff in Hq. destruct Hq as ([x y] & Ey & Hxy).
  cbn [snd] in Ey. subst y. destruct (W x q Hxy) as (c & Hc & _).
  destruct (unit_facts (q, c) Hc) as (Hn & Hv & _). cbn [fst] in Hn, Hv.
  destruct (sc2_vis SC2 q Hn Hv) as [Hqa|Hqe]; [|congruence].
  pose proof (balance nw ty slots f order SC FE OK q Hqa) as B.
  pose proof (i_len nw s U I q) as L. rewrite B in L. destruct (lget s q); [destruct Hin|cbn [length] in L; lia].
Qed.

Theorem shape_level2 tours t : decode nw ty slots order = Ok tours -> In t tours ->
  exists s mid e, t = s :: mid ++ [e] /\ is_start_depot (nd nw s) = true /\ is_end_depot (nd nw e) = true /\ mid <> [] /\
     forall a b, In (a, b) (windows t) -> can_reach nw a b = true.
Proof.
  intros E Ht. destruct (final_inv tours E) as (s & <- & I).
  pose proof (i_good nw s U I) as G. rewrite Forall_forall in G. pose proof (G t Ht) as Gt.
  pose proof (tour_closed s t I Ht Gt) as Hend.
  destruct Gt as (d & a & r & Et & Ha & (n0 & c0 & Hu0 & Ht0) & W).
  assert (Hne : a :: r <> []) by discriminate.
  destruct (exists_last Hne) as (mid & e & Emid).
  assert (Le : last t (SD 0) = e).
  { rewrite Et. change (last (sdn d :: a :: r) (SD 0)) with (last (a :: r) (SD 0)). rewrite Emid. apply last_last. }
  rewrite Le in Hend.
  exists (sdn d), mid, e. split; [rewrite Et, Emid; reflexivity|]. split; [|split; [exact Hend|split]].
  - destruct (unit_facts (n0, c0) Hu0) as (Hn & Hv & Hc). cbn [fst snd] in Hn, Hv, Hc.
    destruct (unit_edge n0 c0 Hn Hv Hc) as (e0 & He0 & Hh0 & Htl0 & _).
    rewrite <- Htl0 in Ht0. destruct (sc2_depot_arc SC2 n0 e0 d Hn Hv He0 Hh0 Ht0) as (_ & dd & -> & _). reflexivity.
  - intros ->. cbn [app] in Emid. inversion Emid; subst. congruence.
  - intros x y Hxy. destruct (W x y Hxy) as (c & Hc & L).
    destruct (unit_facts (y, c) Hc) as (Hn & Hv & Hc'). cbn [fst snd] in Hn, Hv, Hc'.
    destruct (unit_edge y c Hn Hv Hc') as (e' & He' & Hh' & Htl' & _).
    destruct L as [L|(d' & L & ->)]; rewrite <- Htl' in L.
    + exact (sc2_node_arc SC2 y e' x Hn Hv He' Hh' L).
    + exact (proj1 (sc2_depot_arc SC2 y e' d' Hn Hv He' Hh' L)).
Qed.

(** ** D. every edge carries as much flow as the tours use it *)
Hypothesis NDU : no_direct_units nw ty slots f.

Lemma comb_nodup : NoDup (map fst comb).
Proof.
  rewrite (comb_fst nw ty slots f FE). pose proof (sc_ends nw ty slots SC) as H. apply NoDup_map_inv in H. exact H.
Qed.

Lemma flow_at_unique (P : fedge -> bool) e x : In (e, x) comb -> P e = true ->
  (forall e', In e' net -> P e' = true -> ends e' = ends e) ->
  z_sum (map (fun ex => if P (fst ex) then snd ex else 0) comb) = x.
Proof.
  intros Hin HP Hun. rewrite (zs_unique _ comb (e, x)).
  - cbn [fst snd]. rewrite HP. reflexivity.
  - exact (NoDup_map_inv _ _ comb_nodup).
  - exact Hin.
  - intros [e' x'] Hin' Hne. cbn [fst snd]. destruct (P e') eqn:HP'; [|reflexivity]. exfalso. apply Hne.
    assert (He' : In e' net) by (apply (in_combine_l _ _ _ _ Hin')).
    assert (Q : e' = e).
    { apply (NoDup_map_inj_in ends net (sc_ends nw ty slots SC) e' e He' (in_combine_l _ _ _ _ Hin)). apply Hun; assumption. }
    subst e'. apply (NoDup_map_inj_in fst comb comb_nodup (e, x') (e, x) Hin' Hin). reflexivity.
Qed.

Lemma outflow_unique t e x : In (e, x) comb -> fe_tail e = t ->
  (forall e', In e' net -> fe_tail e' = t -> fe_head e' = fe_head e) -> outflow nw ty slots f t = x.
Proof.
  intros Hin Ht Hun. unfold outflow, tlb. apply (flow_at_unique (fun e' => fe_tail e' =? t) e x Hin).
  - apply Z.eqb_eq. exact Ht.
  - intros e' He' P'. apply Z.eqb_eq in P'. unfold ends. rewrite (Hun e' He' P'). congruence.
Qed.

Lemma inflow_unique h e x : In (e, x) comb -> fe_head e = h ->
  (forall e', In e' net -> fe_head e' = h -> fe_tail e' = fe_tail e) -> inflow nw ty slots f h = x.
Proof.
  intros Hin Hh Hun. unfold inflow, hdb. apply (flow_at_unique (fun e' => fe_head e' =? h) e x Hin).
  - apply Z.eqb_eq. exact Hh.
  - intros e' He' P'. apply Z.eqb_eq in P'. unfold ends. rewrite (Hun e' He' P'). congruence.
Qed.

Lemma hd_form n : In n VO -> vis n = true -> exists z, hd n = 4 * z \/ hd n = 4 * z + 2.
Proof.
  intros Hn Hv. destruct (sc2_vis SC2 n Hn Hv) as [Ha|He].
  - destruct (sc_acts nw ty slots SC n Ha) as (_ & _ & E & _). exists (nid_idx n). left. rewrite E. reflexivity.
  - unfold code_as_head. destruct (nd nw n) as [| | |dd]; try discriminate He. exists (dn_depot dd). right. reflexivity.
Qed.

Lemma no_direct n c d : In n VO -> vis n = true -> In c (order n) -> tail_of nw c = TDepot d ->
  is_end_depot (nd nw n) = false.
Proof.
  intros Hn Hv Hc Et. destruct (is_end_depot (nd nw n)) eqn:He; [exfalso|reflexivity].
  apply tail_of_depot in Et.
  destruct (order_ok_parts nw ty slots f order OK n Hn Hv) as [O1 O2].
  pose proof (O2 c Hc) as Hin. apply in_map_iff in Hin. destruct Hin as (tx & Etx & Htx).
  pose proof (O1 tx Htx) as Cn. rewrite Etx in Cn.
  rewrite entering_eq in Htx. apply in_map_iff in Htx. destruct Htx as ([e x] & Q & Hex).
  apply filter_In in Hex. destruct Hex as [Hex Hh].
  unfold hdb in Hh. cbn [fst snd] in Q, Hh. apply Z.eqb_eq in Hh. subst tx. cbn [fst snd] in Etx, Cn.
  assert (X0 : x = 0).
  { apply (NDU e x Hex).
    - rewrite Etx, Et. unfold fr_depot. apply mod4. lia.
    - rewrite Hh. unfold code_as_head. destruct (nd nw n) as [| | |dd]; try discriminate He. unfold fl_depot. apply mod4. lia. }
  rewrite X0 in Cn. unfold count_z in Cn.
  assert (Hf : In c (filter (Z.eqb c) (order n))) by (apply filter_In; split; [exact Hc|apply Z.eqb_refl]).
  destruct (filter (Z.eqb c) (order n)); [destruct Hf|cbn [length] in Cn; lia].
Qed.

Lemma tuse_pair e s n dd : nd nw s = NStart dd ->
  tuse nw e [s; n] = nuse nw e n + ind e (fl_depot (dn_depot dd)) (fr_depot (dn_depot dd)) +
                     ind e (fr_depot (dn_depot dd)) (hd n).
Proof.
  intros H. assert (Hs : nuse nw e s = 0) by (unfold nuse; rewrite H; reflexivity).
  unfold tuse. cbn [map windows suse]. unfold ause, code_as_tail. rewrite H, z_sum_cons, !z_sum_single, Hs. lia.
Qed.

Definition third (e : fedge) (c : Z) : Z := if c mod 4 =? 3 then ind e (c - 1) c else 0.

Lemma useU_simpl e n c : In n VO -> vis n = true -> In c (order n) ->
  useU nw e (n, c) = (nuse nw e n + ind e c (hd n)) + third e c.
Proof.
  intros Hn Hv Hc. destruct (unit_edge n c Hn Hv Hc) as (e' & He' & Hh' & Htl' & Hu & Hp).
  destruct (tail_of nw c) as [p|d|] eqn:Et; [| |congruence].
  - rewrite (useU_node nw e n c p Et). destruct (tail_of_node nw c p Et) as [Q Dp].
    unfold third. rewrite <- Q, fr_mod. cbn [Z.eqb Pos.eqb]. unfold ause, code_as_tail.
    destruct (nd nw p); cbn in Dp; try discriminate Dp; lia.
  - rewrite (useU_depot nw e n c d Et), (no_direct n c d Hn Hv Hc Et).
    pose proof (tail_of_depot nw c d Et) as Q.
    rewrite <- Htl' in Et. destruct (sc2_depot_arc SC2 n e' d Hn Hv He' Hh' Et) as (_ & dd & End & Edd).
    rewrite (tuse_pair e (sdn d) n dd End), Edd. unfold third. rewrite Q.
    assert (M : fr_depot d mod 4 = 3) by (unfold fr_depot; apply mod4; lia). rewrite M. cbn [Z.eqb Pos.eqb].
    replace (fr_depot d - 1) with (fl_depot d) by (unfold fr_depot, fl_depot; lia). lia.
Qed.

Lemma regroup (g : node_id * Z -> Z) :
  z_sum (map g U) = z_sum (map (fun n => if vis n then z_sum (map (fun c => g (n, c)) (order n)) else 0) VO).
Proof.
  unfold all_units. rewrite zs_flat_map. apply z_sum_map_ext. intros n _. unfold units.
  destruct (vis n); [rewrite zs_map_map; reflexivity|reflexivity].
Qed.

Definition nterm (e : fedge) (n : node_id) : Z :=
  nuse nw e n * Z.of_nat (length (order n)) +
  (if fe_head e =? hd n then count_z (fe_tail e) (order n) else 0) +
  (if (fe_head e mod 4 =? 3) && (fe_tail e =? fe_head e - 1) then count_z (fe_head e) (order n) else 0).

(* for EVERY pair of end points e (an edge of the network or not) *)
Lemma uses_final s e : inv nw s U ->
  uses_of_edge nw (d_tours s) e = z_sum (map (fun n => if vis n then nterm e n else 0) VO).
Proof.
  intros I. rewrite (i_uses nw s U I e), regroup. apply z_sum_map_ext. intros n Hn. destruct (vis n) eqn:Hv; [|reflexivity].
  rewrite (z_sum_map_ext _ (fun c => (nuse nw e n + ind e c (hd n)) + third e c) _ (fun c Hc => useU_simpl e n c Hn Hv Hc)).
  rewrite !z_sum_map_add, zs_const. unfold nterm. f_equal; [f_equal|].
  - destruct (Z.eqb_spec (fe_head e) (hd n)) as [Q|Q].
    + rewrite count_z_sum. apply z_sum_map_ext. intros c _. unfold ind. rewrite Q, Z.eqb_refl, andb_true_r. reflexivity.
    + apply z_sum_map_zero. intros c _. unfold ind. destruct (Z.eqb_spec (fe_head e) (hd n)); [contradiction|].
      rewrite andb_false_r. reflexivity.
  - destruct ((fe_head e mod 4 =? 3) && (fe_tail e =? fe_head e - 1)) eqn:B.
    + apply andb_true_iff in B. destruct B as [B1 B2]. rewrite count_z_sum. apply z_sum_map_ext. intros c _. unfold third, ind.
      destruct (Z.eqb_spec (fe_head e) c) as [<-|Q]; [rewrite B1, B2; reflexivity|].
      rewrite andb_false_r. destruct (c mod 4 =? 3); reflexivity.
    + apply z_sum_map_zero. intros c _. unfold third, ind. destruct (Z.eqb_spec (fe_head e) c) as [<-|Q].
      * destruct (fe_head e mod 4 =? 3); [|reflexivity]. cbn [andb] in B. rewrite B. reflexivity.
      * rewrite andb_false_r. destruct (c mod 4 =? 3); reflexivity.
Qed.

Lemma ind_zero e t h : (fe_tail e = t -> fe_head e = h -> False) -> ind e t h = 0.
Proof.
  intros H. unfold ind. destruct (Z.eqb_spec (fe_tail e) t), (Z.eqb_spec (fe_head e) h); try reflexivity. exfalso; auto.
Qed.

Lemma sum_at (g : node_id -> Z) n0 : In n0 VO -> vis n0 = true ->
  (forall n, In n VO -> n <> n0 -> (if vis n then g n else 0) = 0) ->
  z_sum (map (fun n => if vis n then g n else 0) VO) = g n0.
Proof. intros H0 Hv Hz. rewrite (zs_unique _ VO n0 (sc_nodup nw ty slots SC) H0 Hz), Hv. reflexivity. Qed.

Lemma out_counts_gen t :
  (forall e, In e net -> fe_tail e = t -> exists n, In n VO /\ vis n = true /\ fe_head e = hd n) ->
  z_sum (map (fun n => if vis n then count_z t (order n) else 0) VO) = outflow nw ty slots f t.
Proof.
  intros Hex.
  assert (E : z_sum (map (fun n => if vis n then count_z t (order n) else 0) VO) =
              z_sum (map (fun n => z_sum (map (fun ex => if vis n && (hdb (hd n) ex && tlb t ex) then snd ex else 0) comb)) VO)).
  { apply z_sum_map_ext. intros n Hn. destruct (vis n) eqn:Hv.
    - rewrite (order_count nw ty slots f order SC FE OK n t Hn Hv). reflexivity.
    - symmetry. apply z_sum_map_zero. intros; reflexivity. }
  rewrite E, zs_swap. unfold outflow. apply z_sum_map_ext. intros [e0 x0] Hin.
  destruct (tlb t (e0, x0)) eqn:Et.
  - assert (Htl : fe_tail e0 = t) by (unfold tlb in Et; apply Z.eqb_eq in Et; exact Et).
    destruct (Hex e0 (in_combine_l _ _ _ _ Hin) Htl) as (n0 & Hn0 & Hv0 & Hh0).
    rewrite (zs_unique _ VO n0 (sc_nodup nw ty slots SC) Hn0).
    + rewrite Hv0. unfold hdb. cbn [fst snd]. rewrite Hh0, Z.eqb_refl. reflexivity.
    + intros n Hn Hne. destruct (vis n) eqn:Hv; [|reflexivity]. unfold hdb. cbn [fst snd].
      destruct (Z.eqb_spec (fe_head e0) (hd n)) as [Q|_]; [|reflexivity].
      exfalso. apply Hne. apply (sc2_head_inj SC2 n n0 Hn Hv Hn0 Hv0). congruence.
  - apply z_sum_map_zero. intros n _. rewrite !andb_false_r. reflexivity.
Qed.

(* the node edge of a trip / slot *)
Lemma uses_node_final s e x a : inv nw s U -> In (e, x) comb -> In a ACTS ->
  fe_tail e = fl_node a -> fe_head e = fr_node a -> uses_of_edge nw (d_tours s) e = x.
Proof.
  intros I Hex Ha Ht Hh. rewrite (uses_final s e I).
  destruct (sc_acts nw ty slots SC a Ha) as (HaV & Hav & Hah & _ & Hae).
  rewrite (sum_at (nterm e) a HaV Hav).
  - unfold nterm.
    assert (N1 : nuse nw e a = 1).
    { unfold nuse. rewrite (acts_nondepot a Ha). unfold ind. rewrite Ht, Hh, !Z.eqb_refl. reflexivity. }
    rewrite N1, Hah, Hh.
    destruct (Z.eqb_spec (fr_node a) (fl_node a)) as [Q|_]; [exfalso; unfold fr_node, fl_node in Q; lia|].
    rewrite fr_mod. cbn [Z.eqb Pos.eqb andb].
    rewrite (order_length nw ty slots f order SC FE OK a HaV Hav), Hah, <- (conservation nw ty slots f FE (fl_node a)).
    rewrite (outflow_unique (fl_node a) e x Hex Ht); [lia|].
    intros e' He' P'. pose proof (sc_node_edge nw ty slots SC a e' Ha He') as Q. rewrite P', Z.eqb_refl in Q.
    symmetry in Q. apply Z.eqb_eq in Q. congruence.
  - intros n Hn Hne. destruct (vis n) eqn:Hv; [|reflexivity]. unfold nterm.
    destruct (hd_form n Hn Hv) as (z & Z1).
    assert (N0 : nuse nw e n = 0).
    { unfold nuse. destruct (sc2_vis SC2 n Hn Hv) as [Hna|Hne'].
      - rewrite (acts_nondepot n Hna). apply ind_zero. intros Q1 _. apply Hne. apply (acts_inj n a Hna Ha).
        rewrite Ht in Q1. unfold fl_node in Q1. lia.
      - unfold is_depot. rewrite Hne', orb_true_r. reflexivity. }
    rewrite N0, Hh, fr_mod. cbn [Z.eqb Pos.eqb andb].
    destruct (Z.eqb_spec (fr_node a) (hd n)) as [Q|_]; [exfalso; unfold fr_node in Q; lia|]. lia.
Qed.

(* the end points of a depot edge (in the network or not): as many uses as units leave the right copy of the depot *)
Lemma uses_depot_ends s e d : inv nw s U -> fe_tail e = fl_depot d -> fe_head e = fr_depot d ->
  uses_of_edge nw (d_tours s) e = inflow nw ty slots f (fr_depot d).
Proof.
  intros I Ht Hh. rewrite (uses_final s e I).
  rewrite (z_sum_map_ext _ (fun n => if vis n then count_z (fr_depot d) (order n) else 0)).
  - rewrite out_counts_gen; [apply (conservation nw ty slots f FE)|].
    intros e' He' Ht'. destruct (sc2_cases SC2 e' He') as [(a & _ & T & _)|[(_ & H)|(d' & T & _)]].
    + exfalso. unfold fl_node, fr_depot in *. lia.
    + exact H.
    + exfalso. unfold fl_depot, fr_depot in *. lia.
  - intros n Hn. destruct (vis n) eqn:Hv; [|reflexivity]. unfold nterm.
    assert (N0 : nuse nw e n = 0).
    { unfold nuse. destruct (is_depot (nd nw n)); [reflexivity|]. apply ind_zero. intros Q _. rewrite Ht in Q.
      unfold fl_depot, fl_node in Q. lia. }
    destruct (hd_form n Hn Hv) as (z & Z1).
    assert (B : (fr_depot d mod 4 =? 3) && (fl_depot d =? fr_depot d - 1) = true).
    { apply andb_true_iff. split; [unfold fr_depot; rewrite mod4 by lia; reflexivity|].
      apply Z.eqb_eq. unfold fl_depot, fr_depot. lia. }
    rewrite N0, Hh, Ht, B. destruct (Z.eqb_spec (fr_depot d) (hd n)) as [Q|_]; [exfalso; unfold fr_depot in Q; lia|]. lia.
Qed.

Lemma uses_depot_final s e x d : inv nw s U -> In (e, x) comb -> fe_tail e = fl_depot d -> fe_head e = fr_depot d ->
  uses_of_edge nw (d_tours s) e = x.
Proof.
  intros I Hex Ht Hh. rewrite (uses_depot_ends s e d I Ht Hh). apply (inflow_unique (fr_depot d) e x Hex Hh).
  intros e' He' Hh'. destruct (sc2_cases SC2 e' He') as [(a & _ & _ & H)|[(_ & n & Hn & Hv & H)|(d' & T & H)]].
  - exfalso. unfold fr_node, fr_depot in *. lia.
  - exfalso. destruct (hd_form n Hn Hv) as (z & Z1). unfold fr_depot in *. lia.
  - rewrite T, Ht. unfold fl_depot, fr_depot in *. lia.
Qed.

(* an arc *)
Lemma uses_arc_final s e x n0 : inv nw s U -> In (e, x) comb ->
  (exists z, fe_tail e = 4 * z + 1 \/ fe_tail e = 4 * z + 3) -> In n0 VO -> vis n0 = true -> fe_head e = hd n0 ->
  uses_of_edge nw (d_tours s) e = x.
Proof.
  intros I Hex (z & Zt) Hn0 Hv0 Hh. rewrite (uses_final s e I).
  destruct (hd_form n0 Hn0 Hv0) as (z0 & Z0).
  assert (B : (fe_head e mod 4 =? 3) = false).
  { rewrite Hh. destruct Z0 as [-> | ->].
    - replace (4 * z0) with (4 * z0 + 0) by lia. rewrite mod4 by lia. reflexivity.
    - rewrite mod4 by lia. reflexivity. }
  assert (N0 : forall n, nuse nw e n = 0).
  { intros n. unfold nuse. destruct (is_depot _); [reflexivity|]. apply ind_zero. intros Q _. unfold fl_node in Q. lia. }
  rewrite (sum_at (nterm e) n0 Hn0 Hv0).
  - unfold nterm. rewrite N0, B, Z.eqb_sym, Hh, Z.eqb_refl. cbn [andb].
    rewrite (order_count nw ty slots f order SC FE OK n0 (fe_tail e) Hn0 Hv0).
    assert (Q : z_sum (map (fun ex => if (fun e' => (fe_head e' =? hd n0) && (fe_tail e' =? fe_tail e)) (fst ex) then snd ex else 0) comb) = x).
    { apply (flow_at_unique (fun e' => (fe_head e' =? hd n0) && (fe_tail e' =? fe_tail e)) e x Hex).
      - rewrite Hh, !Z.eqb_refl. reflexivity.
      - intros e' _ P'. apply andb_true_iff in P'. destruct P' as [P1 P2]. apply Z.eqb_eq in P1, P2. unfold ends. congruence. }
    unfold hdb, tlb. cbn beta in Q. rewrite Q. lia.
  - intros n Hn Hne. destruct (vis n) eqn:Hv; [|reflexivity]. unfold nterm. rewrite N0, B. cbn [andb].
    destruct (Z.eqb_spec (fe_head e) (hd n)) as [Q|_]; [|lia]. exfalso. apply Hne.
    apply (sc2_head_inj SC2 n n0 Hn Hv Hn0 Hv0). congruence.
Qed.

Theorem uses_all s e x : inv nw s U -> In (e, x) comb -> uses_of_edge nw (d_tours s) e = x.
Proof.
  intros I Hex. destruct (sc2_cases SC2 e (in_combine_l _ _ _ _ Hex)) as [(a & Ha & T & H)|[(Z1 & n & Hn & Hv & H)|(d & T & H)]].
  - exact (uses_node_final s e x a I Hex Ha T H).
  - exact (uses_arc_final s e x n I Hex Z1 Hn Hv H).
  - exact (uses_depot_final s e x d I Hex T H).
Qed.

Theorem edges_level2 tours : decode nw ty slots order = Ok tours ->
  forall e x, In (e, x) comb -> uses_of_edge nw tours e = x.
Proof. intros E e x Hex. destruct (final_inv tours E) as (s & <- & I). exact (uses_all s e x I Hex). Qed.

(** ** D. per depot as many tours start as end *)
Definition endsb (d : Z) (y : node_id) : bool := match nd nw y with NEnd dd => dn_depot dd =? d | _ => false end.
Definition startsb (d : Z) (t : list node_id) : bool :=
  match t with s :: _ => match nd nw s with NStart dd => dn_depot dd =? d | _ => false end | [] => false end.
Definition dedge (d : Z) : fedge := {| fe_tail := fl_depot d; fe_head := fr_depot d; fe_lower := 0; fe_upper := 0; fe_cost := 0 |}.

Lemma starts_uses tours d : Z.of_nat (length (filter (startsb d) tours)) = uses_of_edge nw tours (dedge d).
Proof.
  rewrite zs_filter_len, uses_tuse. apply z_sum_map_ext. intros t _. unfold tuse.
  assert (N0 : z_sum (map (nuse nw (dedge d)) t) = 0).
  { apply z_sum_map_zero. intros n _. unfold nuse. destruct (is_depot _); [reflexivity|]. apply ind_zero. cbn [dedge fe_tail].
    intros Q _. unfold fl_depot, fl_node in Q. lia. }
  assert (A0 : z_sum (map (ause nw (dedge d)) (windows t)) = 0).
  { apply z_sum_map_zero. intros [x y] _. unfold ause. apply ind_zero. cbn [dedge fe_tail]. intros Q _.
    destruct (tail_form nw x) as (z & Z1). unfold fl_depot in Q. lia. }
  rewrite N0, A0. unfold startsb, suse. destruct t as [|s0 t]; [reflexivity|]. destruct (nd nw s0) as [dd| | |]; try reflexivity.
  unfold ind. cbn [dedge fe_tail fe_head]. unfold fl_depot, fr_depot.
  destruct (Z.eqb_spec (dn_depot dd) d) as [->|Q]; [rewrite !Z.eqb_refl; reflexivity|].
  destruct (Z.eqb_spec (4 * d + 2) (4 * dn_depot dd + 2)) as [Q'|_]; [exfalso; lia|]. reflexivity.
Qed.

Lemma endsb_hd d n : endsb d n = true -> hd n = fl_depot d /\ is_end_depot (nd nw n) = true.
Proof.
  unfold endsb, code_as_head. destruct (nd nw n) as [| | |dd]; try discriminate. intros Q. apply Z.eqb_eq in Q. subst d. auto.
Qed.

Lemma endsb_nondepot d x : is_end_depot (nd nw x) = false -> endsb d x = false.
Proof. unfold endsb. destruct (nd nw x); try reflexivity. discriminate. Qed.

Lemma all_add n c : In n VO -> vis n = true -> In c (order n) -> adds nw (n, c) = true.
Proof.
  intros Hn Hv Hc. destruct (unit_edge n c Hn Hv Hc) as (e' & _ & _ & _ & Hu & _).
  destruct (tail_of nw c) as [p|d|] eqn:Et; [| |congruence].
  - exact (adds_node nw n c p Et).
  - rewrite (adds_depot nw n c d Et), (no_direct n c d Hn Hv Hc Et). reflexivity.
Qed.

Lemma ends_tl s d : inv nw s U ->
  Z.of_nat (length (filter (fun t => endsb d (last t (SD 0))) (d_tours s))) =
  z_sum (map (fun t => z_sum (map (fun y => if endsb d y then 1 else 0) (tl t))) (d_tours s)).
Proof.
  intros I. rewrite zs_filter_len. apply z_sum_map_ext. intros t Ht.
  pose proof (i_good nw s U I) as G. rewrite Forall_forall in G.
  destruct (G t Ht) as (d' & a & r & Et & Ha & _ & W).
  assert (Hne : a :: r <> []) by discriminate.
  destruct (exists_last Hne) as (mid & e & Emid).
  assert (Le : last t (SD 0) = e).
  { rewrite Et. change (last (sdn d' :: a :: r) (SD 0)) with (last (a :: r) (SD 0)). rewrite Emid. apply last_last. }
  rewrite Le, Et. cbn [tl]. rewrite Emid, map_app, z_sum_app. cbn [map]. rewrite z_sum_single.
  rewrite z_sum_map_zero; [lia|]. intros x Hx.
  assert (Hw : In x (map fst (windows t))).
  { rewrite Et, Emid. change (sdn d' :: mid ++ [e]) with ((sdn d' :: mid) ++ [e]). rewrite windows_fst. right. exact Hx. }
  apply in_map_iff in Hw. destruct Hw as ([x' y] & Ex & Hxy). cbn [fst] in Ex. subst x'.
  destruct (W x y Hxy) as (c & Hc & L). rewrite endsb_nondepot; [reflexivity|].
  destruct L as [L|(d'' & L & ->)].
  - destruct (tail_of_node nw c x L) as [_ Dx]. unfold is_depot in Dx. apply orb_false_iff in Dx. tauto.
  - destruct (unit_facts (y, c) Hc) as (Hn & Hv & Hc'). cbn [fst snd] in Hn, Hv, Hc'.
    destruct (unit_edge y c Hn Hv Hc') as (e' & He' & Hh' & Htl' & _). rewrite <- Htl' in L.
    destruct (sc2_depot_arc SC2 y e' d'' Hn Hv He' Hh' L) as (_ & dd & -> & _). reflexivity.
Qed.

Lemma ends_count s d : inv nw s U ->
  Z.of_nat (length (filter (fun t => endsb d (last t (SD 0))) (d_tours s))) =
  z_sum (map (fun n => if vis n then (if endsb d n then inflow nw ty slots f (hd n) else 0) else 0) VO).
Proof.
  intros I. rewrite (ends_tl s d I), (i_tl nw s U I (fun y => if endsb d y then 1 else 0)), regroup.
  apply z_sum_map_ext. intros n Hn. destruct (vis n) eqn:Hv; [|reflexivity].
  rewrite (z_sum_map_ext _ (fun _ => if endsb d n then 1 else 0)).
  - rewrite zs_const, (order_length nw ty slots f order SC FE OK n Hn Hv). destruct (endsb d n); lia.
  - intros c Hc. rewrite (all_add n c Hn Hv Hc). reflexivity.
Qed.

Lemma inflow_fl_depot d :
  z_sum (map (fun n => if vis n then (if endsb d n then inflow nw ty slots f (hd n) else 0) else 0) VO) =
  inflow nw ty slots f (fl_depot d).
Proof.
  destruct (existsb (fun n => vis n && endsb d n) VO) eqn:Ex.
  - apply existsb_exists in Ex. destruct Ex as (n0 & Hn0 & K). apply andb_true_iff in K. destruct K as [Hv0 K0].
    destruct (endsb_hd d n0 K0) as [H0 _].
    rewrite (sum_at (fun n => if endsb d n then inflow nw ty slots f (hd n) else 0) n0 Hn0 Hv0).
    + rewrite K0, H0. reflexivity.
    + intros n Hn Hne. destruct (vis n) eqn:Hv; [|reflexivity]. destruct (endsb d n) eqn:K; [|reflexivity].
      exfalso. apply Hne. apply (sc2_head_inj SC2 n n0 Hn Hv Hn0 Hv0). destruct (endsb_hd d n K) as [H1 _]. congruence.
  - assert (No : forall n, In n VO -> vis n = true -> endsb d n = false).
    { intros n Hn Hv. destruct (endsb d n) eqn:K; [|reflexivity]. rewrite <- Ex. symmetry. apply existsb_exists.
      exists n. split; [exact Hn|]. rewrite Hv, K. reflexivity. }
    rewrite z_sum_map_zero.
    + symmetry. unfold inflow. apply z_sum_map_zero. intros [e x] Hex. unfold hdb. cbn [fst snd].
      destruct (Z.eqb_spec (fe_head e) (fl_depot d)) as [Q|_]; [|reflexivity]. exfalso.
      destruct (sc2_cases SC2 e (in_combine_l _ _ _ _ Hex)) as [(a & _ & _ & H)|[(_ & n & Hn & Hv & H)|(d' & _ & H)]].
      * unfold fr_node, fl_depot in *. lia.
      * destruct (sc2_vis SC2 n Hn Hv) as [Ha|He].
        -- destruct (sc_acts nw ty slots SC n Ha) as (_ & _ & E & _). unfold fl_node, fl_depot in *. lia.
        -- pose proof (No n Hn Hv) as K. unfold endsb in K. unfold code_as_head in H.
           destruct (nd nw n) as [| | |dd]; try discriminate He. apply Z.eqb_neq in K. unfold fl_depot in *. lia.
      * unfold fr_depot, fl_depot in *. lia.
    + intros n Hn. destruct (vis n) eqn:Hv; [|reflexivity]. rewrite (No n Hn Hv). reflexivity.
Qed.

Lemma through_depot d : inflow nw ty slots f (fr_depot d) = inflow nw ty slots f (fl_depot d).
Proof.
  rewrite <- (conservation nw ty slots f FE (fl_depot d)). unfold inflow, outflow. apply z_sum_map_ext. intros [e x] Hex.
  unfold hdb, tlb. cbn [fst snd].
  destruct (sc2_cases SC2 e (in_combine_l _ _ _ _ Hex)) as [(a & _ & T & H)|[((z & Z1) & n & Hn & Hv & H)|(d' & T & H)]].
  - rewrite T, H. destruct (Z.eqb_spec (fr_node a) (fr_depot d)) as [Q|_]; [exfalso; unfold fr_node, fr_depot in Q; lia|].
    destruct (Z.eqb_spec (fl_node a) (fl_depot d)) as [Q|_]; [exfalso; unfold fl_node, fl_depot in Q; lia|]. reflexivity.
  - destruct (hd_form n Hn Hv) as (z' & Z2).
    destruct (Z.eqb_spec (fe_head e) (fr_depot d)) as [Q|_]; [exfalso; unfold fr_depot in Q; lia|].
    destruct (Z.eqb_spec (fe_tail e) (fl_depot d)) as [Q|_]; [exfalso; unfold fl_depot in Q; lia|]. reflexivity.
  - rewrite T, H. unfold fl_depot, fr_depot.
    destruct (Z.eqb_spec (4 * d' + 3) (4 * d + 3)), (Z.eqb_spec (4 * d' + 2) (4 * d + 2)); try reflexivity; lia.
Qed.

Theorem depots_level2 tours d : decode nw ty slots order = Ok tours ->
  Z.of_nat (length (filter (startsb d) tours)) = Z.of_nat (length (filter (fun t => endsb d (last t (SD 0))) tours)).
Proof.
  intros E. destruct (final_inv tours E) as (s & <- & I).
  rewrite starts_uses, (uses_depot_ends s (dedge d) d I eq_refl eq_refl), through_depot, <- inflow_fl_depot.
  symmetry. apply ends_count. exact I.
Qed.

Theorem decomposes_level2 tours : decode nw ty slots order = Ok tours -> is_decomposition nw net f tours = true.
Proof.
  intros E. unfold is_decomposition. apply andb_true_iff. split.
  - apply forallb_forall. intros [e x] Hex. apply Z.eqb_eq. symmetry. exact (edges_level2 tours E e x Hex).
  - apply forallb_forall. intros d _. apply Z.eqb_eq. exact (depots_level2 tours d E).
Qed.
End Level2b.

(** * 3. the further side conditions from the structure of the flow network *)
Section Level3b.
Variable nw : network.
Variable ty : Z.
Variable slots : list (node_id * Z).
Notation net := (build_flow_network nw ty slots).
Notation VO := (visit_order nw ty).
Notation hd := (code_as_head nw).
Notation vis := (visited nw slots).
Notation ACTS := (acts nw ty slots).

Hypothesis NWF : net_wf_b nw = true.
Hypothesis Hty : In ty (type_ids nw).
Hypothesis CD : codes_distinct nw ty slots.
Hypothesis FW : flow_wf nw ty slots.
Hypothesis Hslm : forall m, In m (map fst slots) -> In m (nw_maint nw).
Hypothesis Hvis : forall n, In n (type_nodes nw ty) -> vis n = true -> good_head nw ty slots n.
Hypothesis Hdep : forall d, In d (depot_ids nw) ->
  In (get_end_depot_node nw d) (nw_edepots nw) /\ get_depot_idx nw (get_end_depot_node nw d) = d.
Hypothesis Hres : forall x, In x ACTS -> tail_of nw (fr_node x) = TNode x.

Lemma arc_into n e : In n VO -> vis n = true -> In e net -> fe_head e = hd n ->
  exists q, In q (predecessors nw ty n) /\ good_tail nw ty slots q /\ fe_tail e = code_as_tail nw q.
Proof.
  intros Hn Hv He Hh. pose proof (head_is nw ty slots NWF Hty FW Hvis n Hn Hv) as Hhn.
  destruct (heads_form _ _ _ _ Hhn) as (zn & Zn). cbn [snd] in Zn.
  destruct (net_cases nw ty slots FW e He) as [(a & _ & _ & H)|[(y & hc & q & Hy & Hq & G & T & H)|(d & _ & H)]].
  - exfalso. unfold fr_node in H. lia.
  - assert (y = n) by (apply (heads_fun nw ty slots CD y n hc); [exact Hy|]; replace hc with (hd n) by congruence; exact Hhn).
    subst y. exists q. auto.
  - exfalso. unfold fr_depot in H. lia.
Qed.

Theorem side_conditions2_hold : decode_side_conditions2 nw ty slots.
Proof.
  constructor.
  - intros n Hn Hv. destruct (Hvis n (proj1 (VO_iff nw ty NWF Hty n) Hn) Hv) as [H|H]; [left; exact H|right].
    exact (proj1 (wf_edepots _ _ _ FW n H)).
  - intros n n' Hn Hv Hn' Hv' E.
    apply (heads_fun nw ty slots CD n n' (hd n)); [apply (head_is nw ty slots NWF Hty FW Hvis n Hn Hv)|].
    rewrite E. apply (head_is nw ty slots NWF Hty FW Hvis n' Hn' Hv').
  - intros e He. destruct (net_cases nw ty slots FW e He) as [H|[(y & hc & p & Hh & _ & _ & T & H)|H]];
      [left; exact H| |right; right; exact H].
    right. left. split.
    + destruct (tail_form nw p) as (z & Z1). exists z. rewrite T. exact Z1.
    + destruct (heads_ok nw ty slots NWF Hty FW Hslm Hdep y hc Hh) as (Hy & Hv & Ehc).
      exists y. split; [exact Hy|]. split; [exact Hv|congruence].
  - intros n e p Hn Hv He Hh Et. destruct (arc_into n e Hn Hv He Hh) as (q & Hq & G & T). rewrite T in Et.
    destruct G as [G|G].
    + destruct (act_nd _ _ _ FW q G) as (_ & _ & E & _). rewrite E, (Hres q G) in Et. inversion Et; subst p.
      apply (predecessors_exact nw NWF ty n q Hty) in Hq. tauto.
    + destruct (sdepot_nd _ _ _ FW q G) as (_ & E & _). rewrite E, tail_of_fr_depot in Et. discriminate Et.
  - intros n e d Hn Hv He Hh Et. destruct (arc_into n e Hn Hv He Hh) as (q & Hq & G & T). rewrite T in Et.
    destruct G as [G|G].
    + destruct (act_nd _ _ _ FW q G) as (_ & _ & E & _). rewrite E, (Hres q G) in Et. discriminate Et.
    + destruct (sdepot_nd _ _ _ FW q G) as (_ & E & _ & _ & dd & End & Edd). rewrite E, tail_of_fr_depot in Et.
      inversion Et; subst d. destruct (wf_sdepots _ _ _ FW q G) as (_ & _ & Cq). rewrite Cq. split.
      * apply (predecessors_exact nw NWF ty n q Hty) in Hq. tauto.
      * exists dd. auto.
Qed.
End Level3b.

Section Loaded4b.
Variable i : instance.
Variable perm : list Z.
Variable trips : list service_trip.
Variable p0 p1 : duration.
Let N := Lnet i perm trips p0 p1.
Hypothesis WF : net_wf_b N = true.
Variable ty : Z.
Hypothesis Hty : In ty (tids i).
Variable slots : list (node_id * Z).
Hypothesis Hsl_nd : NoDup (map fst slots).
Hypothesis Hsl : forall m c, In (m, c) slots -> In m (nw_maint N) /\ 0 <= c <= track_count N m.

Theorem L4_side_conditions2 : decode_side_conditions2 N ty slots.
Proof.
  apply side_conditions2_hold.
  - exact WF.
  - exact Hty.
  - exact (L4_codes i perm trips p0 p1 ty Hty slots Hsl_nd Hsl).
  - exact (L4_flow_wf i perm trips p0 p1 WF ty Hty slots Hsl).
  - exact (L4_slm i perm trips p0 p1 slots Hsl).
  - exact (L4_vis i perm trips p0 p1 ty slots).
  - exact (L4_dep i perm trips p0 p1).
  - exact (L4_res i perm trips p0 p1 WF ty Hty slots Hsl).
Qed.
End Loaded4b.

(** * 4. C: the shape of the decoded tours *)
Theorem decode_tours_shape : stmt_decode_tours_shape.
Proof.
  intros i perm nw ty slots f order tours t (V & PO & Uu & L & Hty & Hnd & Hsl & FE & OK) _ E Ht.
  destruct (load_wf_partial i perm nw V PO L) as (WF & DP & _).
  destruct (load_inv i perm nw V L) as (trips & n0 & p1 & En & Hn0 & R & G & Ne). rewrite En in *.
  exact (shape_level2 _ ty slots f order
           (L4_side_conditions i perm trips (Len n0) p1 WF DP ty Hty slots Hnd Hsl)
           (L4_side_conditions2 i perm trips (Len n0) p1 WF ty Hty slots Hnd Hsl) FE OK tours t E Ht).
Qed.
Print Assumptions decode_tours_shape.

(** * 5. D (partial): every edge of the network carries exactly as much flow as the decoded tours use it *)
Definition stmt_decode_edges_partial : Prop :=
  forall i perm nw ty slots f order tours,
    decode_hyps i perm nw ty slots f order -> no_direct_units nw ty slots f ->
    decode nw ty slots order = Ok tours ->
    forallb (fun '(e, x) => x =? uses_of_edge nw tours e) (combine (build_flow_network nw ty slots) f) = true.

Theorem decode_edges_partial : stmt_decode_edges_partial.
Proof.
  intros i perm nw ty slots f order tours (V & PO & Uu & L & Hty & Hnd & Hsl & FE & OK) ND E.
  destruct (load_wf_partial i perm nw V PO L) as (WF & DP & _).
  destruct (load_inv i perm nw V L) as (trips & n0 & p1 & En & Hn0 & R & G & Ne). rewrite En in *.
  apply forallb_forall. intros [e x] Hex. apply Z.eqb_eq. symmetry.
  exact (edges_level2 _ ty slots f order
           (L4_side_conditions i perm trips (Len n0) p1 WF DP ty Hty slots Hnd Hsl)
           (L4_side_conditions2 i perm trips (Len n0) p1 WF ty Hty slots Hnd Hsl) FE OK ND tours E e x Hex).
Qed.
Print Assumptions decode_edges_partial.

(** * 6. D: the decoded tours are a decomposition of the flow *)
Theorem decode_decomposes : stmt_decode_decomposes.
Proof.
  intros i perm nw ty slots f order tours (V & PO & Uu & L & Hty & Hnd & Hsl & FE & OK) ND E.
  destruct (load_wf_partial i perm nw V PO L) as (WF & DP & _).
  destruct (load_inv i perm nw V L) as (trips & n0 & p1 & En & Hn0 & R & G & Ne). rewrite En in *.
  exact (decomposes_level2 _ ty slots f order
           (L4_side_conditions i perm trips (Len n0) p1 WF DP ty Hty slots Hnd Hsl)
           (L4_side_conditions2 i perm trips (Len n0) p1 WF ty Hty slots Hnd Hsl) FE OK ND tours E).
Qed.
Print Assumptions decode_decomposes.
Print Assumptions side_conditions2_hold.

(** * Summary
   - [decode_tours_shape] : stmt_decode_tours_shape, in full (the hypothesis no_direct_units is not used).
   - [decode_decomposes]  : stmt_decode_decomposes, in full.
   - [decode_edges_partial] : the edge part of is_decomposition alone (subsumed by [decode_decomposes]).
   Structure:
     [run_inv] (1) the invariant [inv] of the loop over the flat list of units, with no hypothesis on the network but
               "a trip tail differs from the unit's node": tours waiting at p are exactly the tours whose last node is p and is
               not an end depot (i_last, i_nodup, i_open); every tour is  start node of a depot :: non-end-depot :: rest  whose
               consecutive pairs were linked by a processed unit (i_good); uses_of_edge = sum over the processed units, for
               EVERY pair of end points (i_uses); the non-first nodes of the tours are the nodes of the adding units (i_tl);
               the number of waiting tours is the balance of DecodeFacts.v (i_len).
     [shape_level2], [edges_level2], [depots_level2], [decomposes_level2] (2) under [decode_side_conditions] and
               [decode_side_conditions2] (facts about the node tables and arc lists only), a feasible flow and an admissible
               oracle: balance 0 closes every tour; counting units per edge = flow (order_count, order_length, conservation).
     [side_conditions2_hold], [L4_side_conditions2] (3) the further side conditions for loaded networks. *)
