(* DecodeStmts.v — C14 ("every flow unit is decoded into exactly one tour") and C06 (the decoding never panics) on the
   modelled decoding algorithm (Decode.v), for EVERY feasible flow of the type's network over a loaded network and EVERY
   order in which the graph may list the entering flow units. Proofs: DecodeFacts.v.
   The code pops a tour index from last_trip_to_tour[pred] with expect / unwrap: that this never fails is flow
   conservation plus the fact that a predecessor is visited strictly before its successors (it ends before they start and
   lasts a positive time). *)
From RS Require Import Base Network NetSpec LoadStmts LoadFacts EndToEndStmts Tour Flow Decode.

Definition decode_hyps (i : instance) (perm : list Z) (nw : network) (ty : Z) (slots : list (node_id * Z)) (f : flow)
           (order : node_id -> list Z) : Prop :=
  valid_instance_b i = true /\ perm_ok i perm /\ inst_unsigned i /\ load i perm = Ok nw /\
  In ty (type_ids nw) /\
  NoDup (map fst slots) /\
  (forall m c, In (m, c) slots -> In m (nw_maint nw) /\ 0 <= c <= track_count nw m) /\
  feasible (build_flow_network nw ty slots) f = true /\
  order_ok_b nw ty slots order (build_flow_network nw ty slots) f = true.

(* the decoding returns: no expect / unwrap / index of the loop fails *)
Definition stmt_decode_total : Prop :=
  forall i perm nw ty slots f order,
    decode_hyps i perm nw ty slots f order ->
    exists tours, decode nw ty slots order = Ok tours.

(* no unit of flow runs straight from a start depot into an end depot (such a unit is only warned about; it does not occur
   in an optimal flow since spawning a vehicle is never free: spawning_cost_positive) *)
Definition no_direct_units (nw : network) (ty : Z) (slots : list (node_id * Z)) (f : flow) : Prop :=
  forall e x, In (e, x) (combine (build_flow_network nw ty slots) f) ->
    fe_tail e mod 4 = 3 -> fe_head e mod 4 = 2 -> x = 0.

(* ... and what it returns uses every unit of flow exactly once *)
Definition stmt_decode_decomposes : Prop :=
  forall i perm nw ty slots f order tours,
    decode_hyps i perm nw ty slots f order -> no_direct_units nw ty slots f ->
    decode nw ty slots order = Ok tours ->
    is_decomposition nw (build_flow_network nw ty slots) f tours = true.

(* every decoded tour starts at a start depot, ends at an end depot, and its consecutive nodes are arcs of the network *)
Definition stmt_decode_tours_shape : Prop :=
  forall i perm nw ty slots f order tours t,
    decode_hyps i perm nw ty slots f order -> no_direct_units nw ty slots f ->
    decode nw ty slots order = Ok tours -> In t tours ->
    exists s mid e, t = s :: mid ++ [e] /\ is_start_depot (nd nw s) = true /\ is_end_depot (nd nw e) = true /\ mid <> [] /\
                    forall a b, In (a, b) (windows t) -> can_reach nw a b = true.

(* without conservation the decoding does panic: a witness *)
Definition stmt_decode_needs_conservation : Prop :=
  exists nw ty slots order, decode nw ty slots order = Panic.
