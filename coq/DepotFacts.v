(* DepotFacts.v — proofs for DepotStmts.v (C02/C10, depot capacities).

   Proved exactly as stated:
     neighbors_nreachable               : forall nw, stmt_neighbors_nreachable nw
     pipeline_nreachable                : forall nw, stmt_pipeline_nreachable nw
     F1_move_refused: the former F1 witness is refused on the repaired model
   [stmt_nreachable_depot_limits] and [stmt_pipeline_depot_limits] need two facts about the network that [net_ok_b]
   does not contain:
     overflow_consistent nw : the start node stored in nw_overflow carries the overflow index (add_suitable_depots
                              substitutes that NODE when a path's own depot is full, DepotLimitsOK exempts the INDEX);
     caps_nonneg nw         : capacities of the real depots are not negative (else the empty schedule violates them).
   Both hold for every network built by [load] from an instance without negative capacities (they are unsigned in
   the input format; valid_instance_b checks the depot totals only).
     nreachable_depot_limits_under_overflow_consistent / pipeline_depot_limits_under_overflow_consistent :
                                          the statements with the two hypotheses added
     load_overflow_consistent, load_caps_nonneg
     nreachable_depot_limits_loaded / pipeline_depot_limits_loaded :
                                          the statements exactly as given for every loaded network (inst_caps_nonneg i)
     depot_limits_under_b               : same from the executable checks overflow_consistent_b / caps_nonneg_b
     nreachable_depot_limits_refuted, pipeline_depot_limits_refuted, depot_limits_loaded_need_nonneg :
                                          the statements are false without them (artificial records / negative entry)
   Method: DepotLimitsOK is inductive over nstep by itself once tours are known to be valid (TIs, SchedToursFacts):
   every operation either lowers the per-(depot,type) counts (ULe) or adds one vehicle at a depot for which
   can_depot_spawn was checked against a usage that is pointwise above the one it is added to (UAdd). *)
From Coq Require Import Sorted.
From RS Require Import SchedPeel Base BaseFacts Network NetSpec NetFacts Tour TourSpec TourStmts TourFacts TourValidFacts.
From RS Require Import Transition TransSpec Schedule SchedInv SchedObs SchedStruct SchedCostsFacts SchedUnservedFacts.
From RS Require Import SchedListFacts SchedToursFacts SchedFormLimFacts SchedUsageFacts SchedTransFacts.
From RS Require Import Swaps SwapsStmts SwapsFacts SwapsStmts2 SwapsFacts2 PipelineSched DepotStmts.
From RS Require Import LoadStmts LoadFacts PipelineSchedFacts.
Local Open Scope Z_scope.

(** * 1. counting the spawned vehicles *)
Section Count.
Variable nw : network.
Notation sst := spawned_same_type.

Lemma sst_uset k x (U : usage_t) d ty :
  sst (uset k x U) d ty = if pair_eqb (d, ty) k then Z.of_nat (length (fst x)) else sst U d ty.
Proof.
  unfold spawned_same_type. rewrite uget_uset. destruct (pair_eqb (d, ty) k); [|reflexivity].
  destruct x; reflexivity.
Qed.

Definition ULe (U' U : usage_t) : Prop := forall d ty, sst U' d ty <= sst U d ty.
Definition UEq (U' U : usage_t) : Prop := forall d ty, sst U' d ty = sst U d ty.
Definition UAdd (U' U : usage_t) (d0 ty0 : Z) : Prop :=
  forall d ty, sst U' d ty <= sst U d ty + (if pair_eqb (d, ty) (d0, ty0) then 1 else 0).

Lemma ULe_refl U : ULe U U.
Proof. intros d ty. lia. Qed.
Lemma ULe_trans A B C : ULe A B -> ULe B C -> ULe A C.
Proof. intros H1 H2 d ty. specialize (H1 d ty). specialize (H2 d ty). lia. Qed.
Lemma UEq_ULe A B : UEq A B -> ULe A B.
Proof. intros H d ty. rewrite H. lia. Qed.
Lemma UAdd_ULe_r A B C d0 ty0 : UAdd A B d0 ty0 -> ULe B C -> UAdd A C d0 ty0.
Proof. intros H1 H2 d ty. specialize (H1 d ty). specialize (H2 d ty). lia. Qed.
Lemma UAdd_ULe_l A B C d0 ty0 : ULe A B -> UAdd B C d0 ty0 -> UAdd A C d0 ty0.
Proof. intros H1 H2 d ty. specialize (H1 d ty). specialize (H2 d ty). lia. Qed.

Lemma filter_len_le {A} (f : A -> bool) l : (length (filter f l) <= length l)%nat.
Proof. induction l as [|a l IH]; cbn [filter length]; [lia|]. destruct (f a); cbn [length]; lia. Qed.

Lemma set_del_length_le v l : (length (set_del v l) <= length l)%nat.
Proof. unfold set_del. apply filter_len_le. Qed.

Lemma set_del_length_lt v l : memv v l = true -> (length (set_del v l) < length l)%nat.
Proof.
  unfold memv, set_del. induction l as [|a l IH]; cbn [existsb filter length]; [discriminate|].
  destruct (vid_eqb v a) eqn:E; cbn [orb].
  - intros _. rewrite vid_eqb_sym, E. cbn [negb].
    pose proof (filter_len_le (fun x => negb (vid_eqb x v)) l). lia.
  - intros H. rewrite vid_eqb_sym, E. cbn [negb length]. specialize (IH H). lia.
Qed.

Lemma set_add_length v l : (length (set_add v l) <= length l + 1)%nat.
Proof. unfold set_add. destruct (memv v l); [lia|]. rewrite app_length. cbn. lia. Qed.

Lemma rm_spawn_cnt U d ty v U' : usage_remove_spawn U d ty v = Ok U' ->
  ULe U' U /\ sst U' d ty + 1 <= sst U d ty.
Proof.
  unfold usage_remove_spawn. destruct (uget (d, ty) U) as [[sp de]|] eqn:G.
  - destruct (memv v sp) eqn:M; [|discriminate]. intros H. inversion H; subst U'; clear H.
    pose proof (set_del_length_lt v sp M) as L. split.
    + intros d' ty'. rewrite sst_uset. destruct (pair_eqb (d', ty') (d, ty)) eqn:E; [|lia].
      apply pair_eqb_eq in E. inversion E; subst. unfold spawned_same_type. rewrite G. cbn [fst]. lia.
    + rewrite sst_uset, pair_eqb_refl. unfold spawned_same_type. rewrite G. cbn [fst]. lia.
  - cbn [memv existsb]. discriminate.
Qed.

Lemma rm_despawn_cnt U d ty v U' : usage_remove_despawn U d ty v = Ok U' -> UEq U' U.
Proof.
  unfold usage_remove_despawn. destruct (uget (d, ty) U) as [[sp de]|] eqn:G.
  - destruct (memv v de) eqn:M; [|discriminate]. intros H. inversion H; subst U'; clear H.
    intros d' ty'. rewrite sst_uset. destruct (pair_eqb (d', ty') (d, ty)) eqn:E; [|lia].
    apply pair_eqb_eq in E. inversion E; subst. unfold spawned_same_type. rewrite G. reflexivity.
  - cbn [memv existsb]. discriminate.
Qed.

Lemma add_spawn_cnt U d ty v : UAdd (usage_add_spawn U d ty v) U d ty.
Proof.
  unfold usage_add_spawn. intros d' ty'.
  destruct (uget (d, ty) U) as [[sp de]|] eqn:G; rewrite sst_uset;
    destruct (pair_eqb (d', ty') (d, ty)) eqn:E; try lia;
    apply pair_eqb_eq in E; inversion E; subst; unfold spawned_same_type; rewrite G; cbn [fst].
  - pose proof (set_add_length v sp). lia.
  - cbn. lia.
Qed.

Lemma add_despawn_cnt U d ty v : UEq (usage_add_despawn U d ty v) U.
Proof.
  unfold usage_add_despawn. intros d' ty'.
  destruct (uget (d, ty) U) as [[sp de]|] eqn:G; rewrite sst_uset;
    destruct (pair_eqb (d', ty') (d, ty)) eqn:E; try lia;
    apply pair_eqb_eq in E; inversion E; subst; unfold spawned_same_type; rewrite G; reflexivity.
Qed.

(** ** totals *)
Lemma z_sum_map_le {A} (f g : A -> Z) l : (forall x, In x l -> f x <= g x) -> z_sum (map f l) <= z_sum (map g l).
Proof.
  induction l as [|a l IH]; intros H; [cbn; lia|]. cbn [map]. rewrite !z_sum_cons.
  pose proof (H a (or_introl eq_refl)). assert (z_sum (map f l) <= z_sum (map g l)) by (apply IH; intros; apply H; now right). lia.
Qed.

Lemma z_sum_map_add1 (f g : Z -> Z) ty0 l : NoDup l ->
  (forall x, In x l -> f x <= g x + (if x =? ty0 then 1 else 0)) -> z_sum (map f l) <= z_sum (map g l) + 1.
Proof.
  induction l as [|a l IH]; intros ND H; [cbn; lia|]. cbn [map]. rewrite !z_sum_cons.
  inversion ND; subst. pose proof (H a (or_introl eq_refl)) as Ha.
  destruct (a =? ty0) eqn:E.
  - apply Z.eqb_eq in E. subst a.
    assert (z_sum (map f l) <= z_sum (map g l)).
    { apply z_sum_map_le. intros x Hx. pose proof (H x (or_intror Hx)) as Q.
      destruct (Z.eqb_spec x ty0); [subst; contradiction|lia]. }
    lia.
  - assert (z_sum (map f l) <= z_sum (map g l) + 1) by (apply IH; auto; intros; apply H; now right). lia.
Qed.

Lemma total_le U' U d : ULe U' U -> spawned_total nw U' d <= spawned_total nw U d.
Proof. intros H. unfold spawned_total. apply z_sum_map_le. intros ty _. apply H. Qed.

Lemma total_add U' U d0 ty0 d : UAdd U' U d0 ty0 ->
  spawned_total nw U' d <= spawned_total nw U d + (if d =? d0 then 1 else 0).
Proof.
  intros H. unfold spawned_total. destruct (d =? d0) eqn:E.
  - apply (z_sum_map_add1 _ _ ty0); [apply type_ids_nodup|]. intros ty _. specialize (H d ty).
    unfold pair_eqb in H. cbn [fst snd] in H. rewrite E in H. cbn [andb] in H. exact H.
  - rewrite Z.add_0_r. apply z_sum_map_le. intros ty _. specialize (H d ty).
    unfold pair_eqb in H. cbn [fst snd] in H. rewrite E in H. cbn [andb] in H. lia.
Qed.

(** ** the limits as a property of the usage map *)
Definition DLu (U : usage_t) : Prop :=
  forall d, In d (map fst (nw_depots nw)) -> d <> overflow_idx nw ->
    (forall ty, In ty (type_ids nw) -> sst U d ty <= capacity_of nw d ty) /\
    spawned_total nw U d <= total_capacity_of nw d.

Lemma DLu_le U' U : ULe U' U -> DLu U -> DLu U'.
Proof.
  intros L H d Hd Ho. destruct (H d Hd Ho) as [A B]. split.
  - intros ty Hty. specialize (A ty Hty). specialize (L d ty). lia.
  - pose proof (total_le U' U d L). lia.
Qed.

Lemma DLu_add U' U d0 ty0 : DLu U -> UAdd U' U d0 ty0 ->
  (d0 = overflow_idx nw \/ (sst U d0 ty0 < capacity_of nw d0 ty0 /\ spawned_total nw U d0 < total_capacity_of nw d0)) ->
  DLu U'.
Proof.
  intros H L C d Hd Ho. destruct (H d Hd Ho) as [A B].
  pose proof (total_add U' U d0 ty0 d L) as T. split.
  - intros ty Hty. specialize (A ty Hty). specialize (L d ty).
    destruct (pair_eqb (d, ty) (d0, ty0)) eqn:E; [|lia].
    apply pair_eqb_eq in E. inversion E; subst. destruct C as [C|[C1 C2]]; [contradiction|lia].
  - destruct (Z.eqb_spec d d0) as [->|N]; [|lia]. destruct C as [C|[C1 C2]]; [contradiction|lia].
Qed.

Lemma can_spawn_lt U sd ty : can_depot_spawn nw U sd ty = true ->
  sst U (get_depot_idx nw sd) ty < capacity_of nw (get_depot_idx nw sd) ty /\
  spawned_total nw U (get_depot_idx nw sd) < total_capacity_of nw (get_depot_idx nw sd).
Proof.
  unfold can_depot_spawn. cbv zeta.
  destruct (capacity_of nw (get_depot_idx nw sd) ty =? 0); [discriminate|].
  destruct (Z.leb_spec (capacity_of nw (get_depot_idx nw sd) ty) (sst U (get_depot_idx nw sd) ty)); [discriminate|].
  destruct (Z.leb_spec (total_capacity_of nw (get_depot_idx nw sd)) (spawned_total nw U (get_depot_idx nw sd))); [discriminate|].
  intros _. split; assumption.
Qed.

Lemma find_best_res_iff U ty first d : find_best_start_depot_res nw U ty first = Ok d <-> find_best_start_depot nw U ty first = Ok d.
Proof.
  unfold find_best_start_depot_res, find_best_start_depot.
  destruct (find _ _); cbn [ok_or_err unwrap_opt]; split; intros H; inversion H; reflexivity.
Qed.
Lemma find_best_can_spawn U ty first d : find_best_start_depot nw U ty first = Ok d -> can_depot_spawn nw U d ty = true.
Proof.
  unfold find_best_start_depot. intros H. apply unwrap_opt_ok in H. apply find_some in H. tauto.
Qed.
End Count.

(** * 2. the first node of a tour under the tour edits *)
Section First.
Variable nw : network.
Notation d0 := (SD 0).
Notation dep := (node_is_depot nw).

Lemma first_node_hd t : first_node t = hd d0 (t_nodes t).
Proof. unfold first_node, nth_node. destruct (t_nodes t); reflexivity. Qed.

Lemma start_depot_first t x : start_depot nw t = Ok x -> x = first_node t.
Proof. unfold start_depot. destruct (is_start_depot _); intros H; inversion H; reflexivity. Qed.

Lemma tour_new_nodes l t : tour_new nw l = Ok t -> t_nodes t = l.
Proof.
  unfold tour_new. destruct l as [|a r]; [discriminate|]. destruct (valid_tour_nodes nw (a :: r)); [|discriminate].
  intros H. inversion H; reflexivity.
Qed.

Lemma replace_start_first t sd t' : replace_start_depot nw t sd = Ok t' -> first_node t' = sd.
Proof.
  unfold replace_start_depot. destruct (t_dummy t); [discriminate|].
  destruct (negb (is_start_depot (nd nw sd))); [discriminate|].
  destruct (t_nodes t) as [|old [|fnd r]]; try discriminate.
  intros H. mon H. mon H. inversion H; subst. reflexivity.
Qed.

Lemma replace_end_first t ed t' : replace_end_depot nw t ed = Ok t' -> first_node t' = first_node t.
Proof.
  unfold replace_end_depot. destruct (t_dummy t); [discriminate|].
  destruct (negb (is_end_depot (nd nw ed))); [discriminate|].
  destruct (Nat.ltb (length (t_nodes t)) 2) eqn:L; [discriminate|]. apply Nat.ltb_ge in L.
  intros H. mon H. mon H. inversion H; subst. rewrite !first_node_hd. cbn [t_nodes].
  destruct (t_nodes t) as [|x [|y r]]; cbn [length] in L; try lia.
  change (removelast (x :: y :: r)) with (x :: removelast (y :: r)). reflexivity.
Qed.

Lemma remove_first t seg t' rp : TV nw t -> t_dummy t = false -> Tour.remove nw t seg = Ok (Some t', rp) ->
  first_node t' = first_node t.
Proof.
  intros V D H. destruct (remove_valid nw _ _ _ _ V H) as (i & j & _ & _ & _ & _ & _ & _ & D' & V' & EN).
  rewrite !first_node_hd, EN. unfold TV in V, V'. rewrite D' , D in V'. rewrite D in V.
  destruct V' as (NE & _ & Hs & _). rewrite EN in NE, Hs. destruct V as (_ & C & _).
  destruct (t_nodes t) as [|a r]; [destruct i; cbn in NE; rewrite ?skipn_nil in NE; congruence|].
  destruct i as [|i]; [|reflexivity]. exfalso. cbn [firstn app] in *.
  replace (j + 1)%nat with (S j) in * by lia. cbn [skipn] in *.
  destruct (skipn j r) as [|x xs] eqn:E; [congruence|]. cbn [hd] in Hs.
  assert (In x r). { eapply Sub_in; [apply (Sub_skipn r j)|]. rewrite E. now left. }
  rewrite (conn_tl_no_sdep nw r a x C H0) in Hs. discriminate.
Qed.

Hypothesis WF : net_wf_b nw = true.
Hypothesis DP : durations_pos_b nw = true.

Lemma insert_first t p t' r : TV nw t -> t_dummy t = false -> valid_path nw p -> insert_path nw t p = Ok (t', r) ->
  first_node t' = if dep (hd d0 p) then hd d0 p else first_node t.
Proof.
  intros V D VP H. pose proof (TV_connected _ _ V) as C. pose proof (TV_nonempty _ _ V) as NE.
  destruct (insert_path_nodes _ _ _ _ _ H) as (sp & ep & removed & p1 & IN & _ & _).
  destruct (insert_nodes_ref_at nw WF DP (t_dummy t) (t_nodes t) p NE (connected_chrono nw WF DP _ C) VP)
    as (sp' & ep' & p1' & IN').
  rewrite IN in IN'. injection IN' as _ _ Q1 _ _.
  rewrite !first_node_hd, Q1, D. unfold ref_insert. cbn [fst]. change (nid_is_depot nw) with dep.
  destruct VP as (NEp & _ & _). unfold TV in V. rewrite D in V. destruct V as (_ & _ & Hs & _).
  destruct (dep (hd d0 p)) eqn:Dx.
  - cbn [firstn app]. apply hd_app_ne. exact NEp.
  - assert (G : (1 <= longest_prefix_reaching nw (t_nodes t) (hd d0 p))%nat).
    { apply (lpr_ge nw (t_nodes t) (hd d0 p) 0 (hd d0 (t_nodes t))); [apply nth_error_hd; exact NE|].
      apply cr_from_sdep; [exact Hs|]. apply nondep_split in Dx. tauto. }
    destruct (t_nodes t) as [|f tl0]; [congruence|].
    destruct (longest_prefix_reaching nw (f :: tl0) (hd d0 p)) as [|k]; [lia|]. reflexivity.
Qed.

(* a valid path whose first node is not a start depot does not begin with a depot at all *)
Lemma path_head_nondep p : valid_path nw p -> sdep nw (hd d0 p) = false -> dep (hd d0 p) = false.
Proof.
  intros VP S. destruct (dep (hd d0 p)) eqn:D; [|reflexivity].
  rewrite (path_front_depot nw p VP D) in S. discriminate.
Qed.

Lemma insert_first_same t p t' r : TV nw t -> t_dummy t = false -> valid_path nw p -> sdep nw (hd d0 p) = false ->
  insert_path nw t p = Ok (t', r) -> first_node t' = first_node t.
Proof.
  intros V D VP S H. rewrite (insert_first t p t' r V D VP H), (path_head_nondep p VP S). reflexivity.
Qed.
End First.

Lemma improve_tour_first nw u t ty nt : improve_depots_of_tour nw u t ty = Ok nt ->
  exists fnd, find_best_start_depot nw u ty fnd = Ok (first_node nt).
Proof.
  intros H. unfold improve_depots_of_tour in H.
  mon H. mon H. mon H. mon H. mon H. mon H. mon H.
  exists a.
  assert (F1 : first_node a2 = a0).
  { destruct (negb (nid_eqb a0 a1)) eqn:N.
    - apply panic_ok in E2. eapply replace_start_first; eauto.
    - inversion E2; subst a2. apply negb_false_iff, nid_eqb_eq in N. subst a1.
      apply panic_ok in E1. symmetry. eapply start_depot_first; eauto. }
  assert (F2 : first_node nt = first_node a2).
  { destruct (negb (nid_eqb a4 a5)).
    - apply panic_ok in H. eapply replace_end_first; eauto.
    - inversion H; subst. reflexivity. }
  rewrite F2, F1. exact E0.
Qed.

(** * 3. update_depot_usage in terms of counts *)
Section Udu.
Variable nw : network.
Variable s : schedule.
Notation idx := (get_depot_idx nw).
Notation sst := spawned_same_type.

Lemma udu_nd_cnt U v ty nt U' :
  update_depot_usage_nd nw s U v ty nt = Ok U' ->
  match nt with
  | None => ULe U' U
  | Some t => UAdd U' U (idx (first_node t)) ty /\
      (is_vehicle s v = true -> forall t0, tour_of s v = Ok t0 -> idx (first_node t0) = idx (first_node t) -> ULe U' U)
  end.
Proof.
  intros H. unfold update_depot_usage_nd in H.
  mon H. mon H. mon H. mon H. inversion H; subst U'; clear H.
  apply sd_some in E. subst a.
  assert (R1 : ULe a1 U /\ (is_vehicle s v = true -> forall t0, tour_of s v = Ok t0 ->
                 sst a1 (idx (first_node t0)) ty + 1 <= sst U (idx (first_node t0)) ty)).
  { destruct (is_vehicle s v).
    - mon E1. mon E1. apply panic_ok in E3. apply start_depot_first in E3. subst a3.
      apply rm_spawn_cnt in E1. destruct E1 as [L1 L2]. split; [exact L1|].
      intros _ t0 Q. inversion Q; subst t0. exact L2.
    - inversion E1; subst a1. split; [apply ULe_refl|discriminate]. }
  clear E1. destruct R1 as [L1 L2].
  assert (R3 : UEq a2 (match option_map first_node nt with
                       | Some x => usage_add_spawn a1 (idx x) ty v | None => a1 end)).
  { destruct (is_vehicle s v).
    - mon E2. mon E2. eapply rm_despawn_cnt; eauto.
    - inversion E2; subst a2. intros d t. reflexivity. }
  clear E2.
  assert (R4 : UEq (match a0 with Some x => usage_add_despawn a2 (idx x) ty v | None => a2 end) a2).
  { destruct a0; [apply add_despawn_cnt|intros d t; reflexivity]. }
  destruct nt as [t|]; cbn [option_map] in R3.
  - pose proof (add_spawn_cnt a1 (idx (first_node t)) ty v) as A. split.
    + intros d ty'. rewrite R4, R3. specialize (A d ty'). specialize (L1 d ty'). lia.
    + intros IV t0 TO Q d ty'. rewrite R4, R3. specialize (A d ty'). specialize (L1 d ty').
      specialize (L2 IV t0 TO). rewrite Q in L2.
      destruct (pair_eqb (d, ty') (idx (first_node t), ty)) eqn:P; [|lia].
      apply pair_eqb_eq in P. inversion P; subst. lia.
  - intros d ty'. rewrite R4, R3. apply L1.
Qed.

Lemma udu_cnt U V T v U' :
  update_depot_usage nw s U V T v = Ok U' ->
  match vget v V, vget v T with
  | Some ty, Some t => UAdd U' U (idx (first_node t)) ty /\
      (is_vehicle s v = true -> forall t0, tour_of s v = Ok t0 -> idx (first_node t0) = idx (first_node t) -> ULe U' U)
  | _, _ => ULe U' U
  end.
Proof.
  intros H. unfold update_depot_usage in H. destruct (vget v V) as [ty|].
  - destruct (update_depot_usage_nd nw s U v ty (vget v T)) as [u| | |] eqn:R; try discriminate H.
    inversion H; subst u. apply udu_nd_cnt in R. destruct (vget v T); exact R.
  - destruct (vget v (s_vehicles s)) as [ty|].
    + destruct (update_depot_usage_nd nw s U v ty None) as [u| | |] eqn:R; try discriminate H.
      inversion H; subst u. apply udu_nd_cnt in R. exact R.
    + inversion H; subst. apply ULe_refl.
Qed.

Lemma udu_same U V T v U' :
  update_depot_usage nw s U V T v = Ok U' ->
  (forall ty t, vget v V = Some ty -> vget v T = Some t ->
     is_vehicle s v = true /\ exists t0, tour_of s v = Ok t0 /\ idx (first_node t0) = idx (first_node t)) ->
  ULe U' U.
Proof.
  intros H Q. apply udu_cnt in H. destruct (vget v V) as [ty|]; [|exact H].
  destruct (vget v T) as [t|]; [|exact H]. destruct H as [_ H].
  destruct (Q ty t eq_refl eq_refl) as (IV & t0 & TO & E). eapply H; eauto.
Qed.
End Udu.

(** * 4. the two network facts that [net_ok_b] does not contain *)
Definition overflow_consistent (nw : network) : Prop :=
  let '(od, os, _) := nw_overflow nw in get_depot_idx nw os = od.
Definition caps_nonneg (nw : network) : Prop :=
  forall d, In d (map fst (nw_depots nw)) -> d <> (let '(od, _, _) := nw_overflow nw in od) ->
    0 <= total_capacity_of nw d /\ forall ty, In ty (type_ids nw) -> 0 <= capacity_of nw d ty.

(** * 5. every operation keeps the limits *)
Section Ops.
Variable nw : network.
Hypothesis WF : net_wf_b nw = true.
Hypothesis DP : durations_pos_b nw = true.
Hypothesis OC : overflow_consistent nw.
Notation d0 := (SD 0).
Notation idx := (get_depot_idx nw).
Notation DL := (DLu nw).

Definition DLs (s : schedule) : Prop := DL (s_usage s).

Lemma DLs_DepotLimitsOK s : DLs s <-> DepotLimitsOK nw s.
Proof. unfold DLs, DLu, DepotLimitsOK. tauto. Qed.

(** ** spawn *)
Lemma add_suitable_first s ty path nodes : add_suitable_depots nw s ty path = Ok nodes ->
  (3 <= length nodes)%nat ->
  idx (hd d0 nodes) = overflow_idx nw \/ can_depot_spawn nw (s_usage s) (hd d0 nodes) ty = true.
Proof.
  unfold add_suitable_depots, overflow_idx. pose proof OC as OC'. unfold overflow_consistent in OC'.
  destruct path as [|first rest]; [discriminate|].
  destruct (nw_overflow nw) as [[od os] oe].
  destruct (is_depot (nd nw first)) eqn:D; cbn [andb].
  - destruct (can_depot_spawn nw (s_usage s) first ty) eqn:CS; cbn [negb].
    + intros H L. right. cbn [bind] in H.
      destruct (is_depot (nd nw (last (first :: rest) first))).
      * inversion H; subst. exact CS.
      * mon H. inversion H; subst. exact CS.
    + intros H L. left. inversion H; subst nodes; clear H. cbn [tl] in L |- *.
      destruct rest as [|b r].
      * exfalso. revert L. match goal with |- context [if ?c then _ else _] => destruct c end; cbn; lia.
      * match goal with |- context [if ?c then _ else _] => destruct c end; [|exact OC'].
        change (removelast (os :: b :: r)) with (os :: removelast (b :: r)). exact OC'.
  - intros H L. right. cbn [bind] in H. mon H. mon E. inversion E; subst a; clear E.
    apply find_best_res_iff in E0. apply find_best_can_spawn in E0.
    destruct (is_depot (nd nw (last (first :: rest) first))).
    + inversion H; subst. exact E0.
    + mon H. inversion H; subst. exact E0.
Qed.

Lemma spawn_dl s ty path s' v : DLs s -> spawn_vehicle_for_path nw s ty path = Ok (s', v) -> DLs s'.
Proof.
  intros I H. unfold spawn_vehicle_for_path in H.
  destruct (negb _) in H; [discriminate|].
  mon H. mon H. mon H. monp H. mon H. monp H. inversion H; subst; clear H.
  unfold DLs. cbn [with_fields s_usage].
  apply udu_cnt in E3. rewrite !vget_vset, vid_eqb_refl in E3. destruct E3 as [A _].
  pose proof (tour_new_nodes _ _ _ E0) as EN.
  assert (L3 : (3 <= length a)%nat).
  { unfold tour_new in E0. destruct a; [discriminate|]. destruct (valid_tour_nodes nw (n :: a)) eqn:V; [|discriminate].
    apply valid_tour_nodes_RV in V. now apply RV_length in V. }
  rewrite first_node_hd, EN in A.
  eapply DLu_add; [exact I|exact A|].
  destruct (add_suitable_first _ _ _ _ E L3) as [Q|Q]; [left; exact Q|right; apply can_spawn_lt; exact Q].
Qed.

Lemma delete_dummy_usage s d s' : delete_dummy s d = Ok s' -> s_usage s' = s_usage s.
Proof.
  intros H. unfold delete_dummy in H. destruct (negb _) in H; [discriminate|].
  mon H. inversion H; subst. reflexivity.
Qed.

Lemma spawn_dummy_dl s d ty s' v : DLs s -> spawn_to_replace_dummy nw s d ty = Ok (s', v) -> DLs s'.
Proof.
  intros I H. unfold spawn_to_replace_dummy in H. mon H. mon H.
  eapply spawn_dl; [|eauto]. unfold DLs. rewrite (delete_dummy_usage _ _ _ E0). exact I.
Qed.

(** ** delete *)
Lemma replace_dl s v s' : DLs s -> replace_vehicle_by_dummy nw s v = Ok s' -> DLs s'.
Proof.
  intros I H. unfold replace_vehicle_by_dummy in H.
  destruct (negb _) in H; [discriminate|].
  mon H. mon H. mon H. monp H. mon H. mon H. mon H.
  match type of H with (match ?m with pair _ _ => _ end) = _ => destruct m as [[? ?] ?] end.
  monp H. inversion H; subst; clear H.
  unfold DLs. cbn [with_fields s_usage].
  apply udu_cnt in E3. rewrite vget_vdel, vid_eqb_refl in E3.
  eapply DLu_le; eauto.
Qed.

(** ** helpers on schedules *)
Lemma is_vehicle_some s v ty : vget v (s_vehicles s) = Some ty -> is_vehicle s v = true.
Proof. unfold is_vehicle. intros ->. reflexivity. Qed.

Lemma real_not_dummy s v ty : Inv nw s -> vget v (s_vehicles s) = Some ty -> is_dummy s v = false.
Proof.
  intros I G. destruct (is_dummy s v) eqn:D; [|reflexivity].
  apply (is_dummy_not_real s v (inv_dummy nw s I)) in D. rewrite (inv_real nw s I v ty G) in D. discriminate.
Qed.

Lemma real_tour s v ty t : Inv nw s -> TIs nw s -> vget v (s_vehicles s) = Some ty -> tour_of s v = Ok t ->
  TV nw t /\ t_dummy t = false /\ vget v (s_tours s) = Some t.
Proof.
  intros I T G TO. destruct (tour_of_T nw s v t I T TO) as (V & _ & F2).
  destruct (F2 (real_not_dummy s v ty I G)) as (G2 & ty0 & _ & (D & _)). auto.
Qed.

Lemma utc_real s tours dummies costs v nt t' d' c' :
  update_tour_and_costs s tours dummies costs v nt = Ok (t', d', c') -> is_dummy s v = false -> vget v t' = Some nt.
Proof.
  intros H D. unfold update_tour_and_costs in H. rewrite D in H. mon H. mon H. inversion H; subst.
  rewrite vget_vset, vid_eqb_refl. reflexivity.
Qed.

(** ** add_path *)
Lemma add_path_dl s v path s' c : Inv nw s -> TIs nw s -> valid_path nw path -> DLs s ->
  add_path_to_vehicle_tour nw s v path = Ok (s', c) -> DLs s'.
Proof.
  intros I T VP DLI H. unfold add_path_to_vehicle_tour in H.
  destruct path as [|pf path'] eqn:EP; [discriminate|]. rewrite <- EP in *.
  match type of H with (if ?b then _ else _) = _ => destruct b eqn:CK; [discriminate|] end.
  mon H. mon H. monp H. mon H. monp H. monp H. mon H. mon H. monp H. inversion H; subst s' c; clear H.
  apply unwrap_opt_ok in E0, E2.
  unfold DLs. cbn [with_fields s_usage].
  apply udu_cnt in E6. rewrite E0, vget_vset, vid_eqb_refl in E6. destruct E6 as [A B].
  assert (TO : tour_of s v = Ok a1) by (unfold tour_of; rewrite E2; reflexivity).
  destruct (real_tour s v a0 a1 I T E0 TO) as (V & D & _).
  pose proof (insert_first nw WF DP a1 path t o V D VP E3) as F.
  assert (HP : hd d0 path = pf) by (rewrite EP; reflexivity). rewrite HP in F.
  change (node_is_depot nw pf) with (is_depot (nd nw pf)) in F.
  destruct (is_depot (nd nw pf)) eqn:DP0.
  - mon E. mon E. mon E. apply panic_ok in E6, E8, E9.
    rewrite TO in E6. inversion E6; subst a4; clear E6.
    apply start_depot_first in E8. subst a5.
    unfold vehicle_type_of in E9. rewrite E0 in E9. cbn [ok_or_err] in E9. inversion E9; subst a6; clear E9.
    destruct (nid_eqb pf (first_node a1)) eqn:Q; cbn [negb andb] in E.
    + apply nid_eqb_eq in Q. eapply DLu_le; [|exact DLI].
      apply (B (is_vehicle_some _ _ _ E0) a1 TO). rewrite F, Q. reflexivity.
    + destruct (can_depot_spawn nw (s_usage s) pf a0) eqn:CS; cbn [negb] in E; [|discriminate].
      rewrite F in A. eapply DLu_add; [exact DLI|exact A|]. right. apply can_spawn_lt. exact CS.
  - eapply DLu_le; [|exact DLI]. apply (B (is_vehicle_some _ _ _ E0) a1 TO). rewrite F. reflexivity.
Qed.

(** ** remove_segment *)
Lemma remove_segment_dl s seg v s' : Inv nw s -> TIs nw s -> DLs s -> remove_segment nw s seg v = Ok s' -> DLs s'.
Proof.
  intros I T DLI H. unfold remove_segment in H.
  destruct (negb (is_vehicle s v)) eqn:IV; [discriminate|]. apply negb_false_iff in IV.
  mon H. monp H. destruct o as [nt|]; [|eapply replace_dl; eauto].
  monp H. monp H. mon H.
  match type of H with (match ?m with pair _ _ => _ end) = _ => destruct m as [[? ?] ?] end.
  monp H. inversion H; subst; clear H.
  unfold DLs. cbn [with_fields s_usage]. apply panic_ok in E.
  eapply DLu_le; [|exact DLI]. eapply udu_same; [exact E3|].
  intros ty t Gty Gt. split; [exact IV|]. exists a. split; [exact E|].
  destruct (real_tour s v ty a I T Gty E) as (V & D & _).
  rewrite (utc_real _ _ _ _ _ _ _ _ _ E2 (real_not_dummy s v ty I Gty)) in Gt. inversion Gt; subst t.
  rewrite (remove_first nw a seg nt l V D E0). reflexivity.
Qed.

(** ** update_tours (shared by fit_reassign and override_reassign) *)
Lemma update_tours_le s forms usage dids uns p ntp r ntr moved tp trc
    vehicles1 tours2 forms2 usage2 dummies2 ids1 dids1 uns2 costs2 :
  Inv nw s -> TIs nw s -> tour_of s p = Ok tp -> tour_of s r = Ok trc ->
  (forall nt, ntp = Some nt -> t_dummy tp = false -> first_node nt = first_node tp) ->
  (t_dummy trc = false -> first_node ntr = first_node trc) ->
  update_tours nw s (s_vehicles s) (s_tours s) forms usage (s_dummies s) (s_ids s) dids uns (s_costs s) p ntp r ntr moved
    = Ok (vehicles1, tours2, forms2, usage2, dummies2, ids1, dids1, uns2, costs2) ->
  ULe usage2 usage.
Proof.
  intros I T TOp TOr FP FR H. apply update_tours_peel in H. unfold update_tours_prefix in H.
  monp H. mon H. monp H. mon H. monp H. inversion H; subst; clear H.
  (* the provider's part *)
  assert (Q : (forall ty t, vget p vehicles1 = Some ty -> vget p l3 = Some t ->
                 is_vehicle s p = true /\ exists t0, tour_of s p = Ok t0 /\ idx (first_node t0) = idx (first_node t)) /\
              (forall ty, vget r vehicles1 = Some ty -> vget r (s_vehicles s) = Some ty)).
  { destruct ntp as [nt|].
    - monp E. inversion E; subst; clear E. split; [|auto].
      intros ty t Gty Gt. split; [eapply is_vehicle_some; eauto|]. exists tp. split; [exact TOp|].
      destruct (real_tour s p ty tp I T Gty TOp) as (_ & D & _).
      rewrite (utc_real _ _ _ _ _ _ _ _ _ E4 (real_not_dummy s p ty I Gty)) in Gt. inversion Gt; subst t.
      rewrite (FP nt eq_refl D). reflexivity.
    - mon E. destruct (is_dummy s p) eqn:Dp.
      + mon E. inversion E; subst; clear E. split; [|auto].
        intros ty t Gty _. rewrite (real_not_dummy s p ty I Gty) in Dp. discriminate.
      + destruct (is_vehicle s p) eqn:Vp.
        * mon E. mon E. inversion E; subst; clear E. split.
          -- intros ty t Gty _. rewrite vget_vdel, vid_eqb_refl in Gty. discriminate.
          -- intros ty G. rewrite vget_vdel in G. destruct (vid_eqb r p); [discriminate|exact G].
        * inversion E; subst; clear E. split; [|auto].
          intros ty t Gty _. rewrite (is_vehicle_some s p ty Gty) in Vp. discriminate. }
  destruct Q as [Q1 Q2].
  eapply ULe_trans; [|eapply udu_same; [exact E0|exact Q1]].
  eapply udu_same; [exact E2|].
  intros ty t Gty Gt. specialize (Q2 ty Gty). split; [eapply is_vehicle_some; eauto|]. exists trc. split; [exact TOr|].
  destruct (real_tour s r ty trc I T Q2 TOr) as (_ & D & _).
  rewrite (utc_real _ _ _ _ _ _ _ _ _ E1 (real_not_dummy s r ty I Q2)) in Gt. inversion Gt; subst t.
  rewrite (FR D). reflexivity.
Qed.

(** ** the removed path starts with the first node of the segment *)
Lemma hd_firstn_S {A} (l : list A) n d : hd d (firstn (S n) l) = hd d l.
Proof. destruct l; reflexivity. Qed.

Lemma pos_of_nth l x i : pos_of l x = Some i -> nth i l d0 = x.
Proof.
  intros P. destruct (index_of_spec _ _ _ P) as (y & Y1 & Y2). apply nid_eqb_eq in Y2. subst y.
  apply nth_error_nth. exact Y1.
Qed.

Lemma remove_path_hd t seg shr rp : TV nw t -> Tour.remove nw t seg = Ok (shr, rp) -> hd d0 rp = fst seg.
Proof.
  intros V H. destruct (remove_valid nw _ _ _ _ V H) as (i & j & P1 & _ & L & _ & -> & _).
  replace (j + 1 - i)%nat with (S (j - i)) by lia. rewrite hd_firstn_S, hd_skipn. apply pos_of_nth. exact P1.
Qed.

Lemma sub_path_hd t seg sp : sub_path nw t seg = Ok sp -> hd d0 sp = fst seg.
Proof.
  intros H. unfold sub_path in H. mon H. destruct a as [i|]; [|discriminate].
  destruct (negb (nid_eqb (fst seg) (nth i (t_nodes t) d0))) eqn:N; [discriminate|].
  apply negb_false_iff, nid_eqb_eq in N.
  mon H. destruct a as [j|]; [|discriminate].
  destruct (negb (nid_eqb (snd seg) (nth j (t_nodes t) d0))); [discriminate|].
  destruct (Nat.ltb j i) eqn:Lt; [discriminate|]. apply Nat.ltb_ge in Lt.
  mon H. unfold slice_res in E1.
  destruct (Nat.leb i (j + 1) && Nat.leb (j + 1) (length (t_nodes t))); [|discriminate].
  inversion E1; subst a; clear E1. unfold slice in H.
  destruct (path_new_trusted nw (firstn (j + 1 - i) (skipn i (t_nodes t)))) as [q|] eqn:PT; [|discriminate].
  apply path_new_trusted_some in PT. destruct PT as [-> _]. inversion H; subst sp.
  replace (j + 1 - i)%nat with (S (j - i)) by lia. rewrite hd_firstn_S, hd_skipn. symmetry. exact N.
Qed.

Lemma nondep_not_sdep n : is_depot (nd nw n) = false -> sdep nw n = false.
Proof. intros H. change (node_is_depot nw n = false) in H. apply nondep_split in H. tauto. Qed.

(** ** override_reassign *)
Lemma override_dl s seg p r s' d : Inv nw s -> TIs nw s -> DLs s -> is_depot (nd nw (fst seg)) = false ->
  override_reassign nw s seg p r = Ok (s', d) -> DLs s'.
Proof.
  intros I T DLI ND H. unfold override_reassign in H. destruct (vid_eqb p r) in H; [discriminate|].
  mon H. destruct (negb a) eqn:OK; [discriminate|].
  mon H. mon H. monp H. monp H. monp H.
  apply panic_ok in E0, E1.
  destruct (tour_of_T nw s p a0 I T E0) as (Vp & _ & _). destruct (tour_of_T nw s r a1 I T E1) as (Vr & _ & _).
  destruct (remove_valid nw _ _ _ _ Vp E2) as (i & j & _ & _ & _ & _ & _ & VP & _).
  pose proof (remove_path_hd _ _ _ _ Vp E2) as HD.
  assert (LE : ULe l3 (s_usage s)).
  { eapply update_tours_le; [exact I|exact T|exact E0|exact E1| | |exact E4].
    - intros nt -> D. eapply remove_first; eauto.
    - intros D. eapply insert_first_same; eauto. rewrite HD. apply nondep_not_sdep. exact ND. }
  monp H. monp H. inversion H; subst; clear H.
  unfold DLs. cbn [with_fields s_usage]. eapply DLu_le; eauto.
Qed.

(** ** fit_reassign *)
Lemma skipn_S_hd_in (l : list node_id) n x xs a : skipn (S n) (a :: l) = x :: xs -> In x l.
Proof.
  cbn [skipn]. intros E. eapply Sub_in; [apply (Sub_skipn l n)|]. rewrite E. now left.
Qed.

Lemma fit_loop_first dp dr fp fr :
  forall fuel ntp ntr remaining moved ntp' ntr' moved',
  (forall prov, ntp = Some prov -> TV nw prov /\ t_dummy prov = dp /\ (dp = false -> first_node prov = fp)) ->
  (TV nw ntr /\ t_dummy ntr = dr /\ (dr = false -> first_node ntr = fr)) ->
  (forall rem, remaining = Some rem -> connected nw rem /\ sdep nw (hd d0 rem) = false) ->
  fit_loop nw fuel ntp ntr remaining moved = Ok (ntp', ntr', moved') ->
  (forall prov, ntp' = Some prov -> TV nw prov /\ t_dummy prov = dp /\ (dp = false -> first_node prov = fp)) /\
  (TV nw ntr' /\ t_dummy ntr' = dr /\ (dr = false -> first_node ntr' = fr)).
Proof.
  induction fuel as [|f IH]; intros ntp ntr remaining moved ntp' ntr' moved' HP HR HM H.
  - destruct remaining; cbn in H; [discriminate|]. inversion H; subst. auto.
  - destruct remaining as [rem|]; [|cbn in H; inversion H; subst; auto].
    cbn [fit_loop] in H. destruct rem as [|sstart rest0] eqn:ER; [discriminate|]. rewrite <- ER in *.
    mon H. mon H. monp H.
    apply unwrap_opt_ok in E. destruct (HP a E) as (Va & Dpa & Fa).
    destruct HR as (Vr & Dr & Fr).
    destruct (HM rem eq_refl) as [Crem Srem].
    assert (HM' : forall rem0, path_new_trusted nw (skipn (n + 1) rem) = Some rem0 ->
                    connected nw rem0 /\ sdep nw (hd d0 rem0) = false).
    { intros rem0 Q. apply path_new_trusted_some in Q. destruct Q as [-> Q]. split; [apply connected_skipn; exact Crem|].
      replace (n + 1)%nat with (S n) in * by lia. rewrite ER in *.
      destruct (skipn (S n) (sstart :: rest0)) as [|x xs] eqn:SK; [discriminate Q|]. cbn [hd].
      apply (conn_tl_no_sdep nw rest0 sstart x Crem). eapply skipn_S_hd_in; eauto. }
    destruct (Tour.remove nw a (sstart, n0)) as [[cand_prov pfi]| | |] eqn:RM; try discriminate H.
    + mon H. destruct a1 as [cf|].
      * eapply IH; eauto.
      * monp H.
        destruct (remove_valid nw _ _ _ _ Va RM) as (i' & j' & _ & _ & _ & _ & _ & VPf & SH).
        pose proof (remove_path_hd _ _ _ _ Va RM) as HD. cbn [fst] in HD.
        destruct (insert_path_valid nw WF DP ntr pfi t o Vr VPf E3) as (Dm & Vnr & _ & _).
        assert (Ss : sdep nw sstart = false) by (rewrite ER in Srem; exact Srem).
        eapply IH; [| | exact HM' | exact H].
        -- intros prov ->. destruct SH as (D1 & V1 & _). split; [exact V1|]. split; [congruence|].
           intros Q. rewrite <- (Fa Q). eapply remove_first; eauto; congruence.
        -- split; [exact Vnr|]. split; [congruence|]. intros Q. rewrite <- (Fr Q).
           apply (insert_first_same nw WF DP ntr pfi t o Vr); [congruence|exact VPf|rewrite HD; exact Ss|exact E3].
    + eapply IH; eauto.
Qed.

Lemma fit_dl s seg p r s' : Inv nw s -> TIs nw s -> DLs s -> is_depot (nd nw (fst seg)) = false ->
  fit_reassign nw s seg p r = Ok s' -> DLs s'.
Proof.
  intros I T DLI ND H. unfold fit_reassign in H.
  mon H. destruct (negb a) eqn:OK; [discriminate|].
  mon H. mon H. mon H. monp H. monp H. monp H. inversion H; subst; clear H.
  apply panic_ok in E0, E1.
  destruct (tour_of_T nw s p a0 I T E0) as (Vp & _ & _). destruct (tour_of_T nw s r a1 I T E1) as (Vr & _ & _).
  destruct (sub_path_valid nw _ _ _ (TV_connected nw _ Vp) E2) as [(_ & CP & _) _].
  pose proof (sub_path_hd _ _ _ E2) as HD.
  assert (HS : sdep nw (hd d0 a2) = false) by (rewrite HD; apply nondep_not_sdep; exact ND).
  assert (H1 : forall prov, Some a0 = Some prov -> TV nw prov /\ t_dummy prov = t_dummy a0 /\
                 (t_dummy a0 = false -> first_node prov = first_node a0)).
  { intros prov Q. inversion Q; subst. auto. }
  assert (H2 : TV nw a1 /\ t_dummy a1 = t_dummy a1 /\ (t_dummy a1 = false -> first_node a1 = first_node a1)) by auto.
  assert (H3 : forall rem, Some a2 = Some rem -> connected nw rem /\ sdep nw (hd d0 rem) = false).
  { intros rem Q. inversion Q; subst. auto. }
  destruct (fit_loop_first _ _ _ _ _ _ _ _ _ _ _ _ H1 H2 H3 E3) as (HP & _ & _ & FR).
  unfold DLs. cbn [with_fields s_usage]. eapply DLu_le; [|exact DLI].
  eapply update_tours_le; [exact I|exact T|exact E0|exact E1| | |exact E4].
  - intros nt -> D. destruct (HP nt eq_refl) as (_ & _ & F). auto.
  - exact FR.
Qed.

(** ** improve_depots *)
Lemma fold1_le s l : forall u u', fold_left (imp_step1 nw s) l (Ok u) = Ok u' -> ULe u' u.
Proof.
  induction l as [|v l IH]; intros u u' H; cbn [fold_left] in H.
  - inversion H; subst. apply ULe_refl.
  - destruct (fold1_strict _ _ _ _ _ H) as [u1 H1]. rewrite H1 in H.
    eapply ULe_trans; [eapply IH; exact H|].
    destruct (step1_as_rm nw s u v u1 H1) as (d1 & d2 & ty & u2 & R1 & R2).
    apply rm_spawn_cnt in R1. apply rm_despawn_cnt in R2. destruct R1 as [R1 _].
    eapply ULe_trans; [apply UEq_ULe; exact R2|exact R1].
Qed.

Ltac strict_tac2 :=
  let r := fresh "r" in let v := fresh "v" in let x := fresh "x" in let H := fresh "H" in
  intros r v x H; destruct r; cbn [bind] in H; try discriminate H; eauto.

Lemma improve_dl s vs s' : DLs s -> improve_depots nw s vs = Ok s' -> DLs s'.
Proof.
  intros DLI H. unfold improve_depots in H. cbv zeta in H.
  mon H. monp H. monp H. inversion H; subst; clear H.
  change (fold_left (imp_step1 nw s) match vs with Some l => l | None => vehicles_iter_all nw s end (Ok (s_usage s)) = Ok a) in E.
  apply fold1_le in E.
  unfold DLs. cbn [with_fields s_usage].
  eapply (fold_res_inv _ (fun x : list (vehicle_id * tour) * usage_t * Z => DL (snd (fst x)))) in E0.
  - exact E0.
  - strict_tac2.
  - intros [[tours u] costs] v x HQ H. cbn [bind fst snd] in *.
    mon H. mon H. mon H. mon H. inversion H; subst; clear H. cbn [fst snd].
    destruct (improve_tour_first _ _ _ _ _ E4) as (fnd & FB). apply find_best_can_spawn in FB.
    eapply DLu_add; [exact HQ| |right; apply can_spawn_lt; exact FB].
    eapply UAdd_ULe_l; [apply UEq_ULe; apply add_despawn_cnt|apply add_spawn_cnt].
  - cbn [fst snd]. eapply DLu_le; eauto.
Qed.

(** ** the two end-depot folds *)
Lemma greedy_dl s s' : DLs s -> reassign_end_depots_greedily nw s = Ok s' -> DLs s'.
Proof.
  intros DLI H. unfold reassign_end_depots_greedily in H.
  monp H. monp H. inversion H; subst; clear H.
  unfold DLs. cbn [with_fields s_usage]. eapply DLu_le; [|exact DLI].
  eapply (fold_res_inv _ (fun x : list (vehicle_id * tour) * usage_t * Z => ULe (snd (fst x)) (s_usage s))) in E.
  - exact E.
  - strict_tac2.
  - intros [[tours u] costs] v x HQ H. cbn [bind fst snd] in *.
    mon H. mon H. mon H. mon H. mon H. mon H. inversion H; subst; clear H. cbn [fst snd].
    eapply ULe_trans; [|exact HQ]. apply panic_ok in E1, E4.
    eapply udu_same; [exact E6|]. intros ty t Gty Gt. split; [eapply is_vehicle_some; eauto|].
    exists a. split; [exact E1|]. rewrite vget_vset, vid_eqb_refl in Gt. inversion Gt; subst t.
    rewrite (replace_end_first _ _ _ _ E4). reflexivity.
  - apply ULe_refl.
Qed.

Lemma consistent_dl s s' : DLs s -> reassign_end_depots_consistent nw s = Ok s' -> DLs s'.
Proof.
  intros DLI H. unfold reassign_end_depots_consistent in H.
  monp H. monp H. inversion H; subst; clear H.
  unfold DLs. cbn [with_fields s_usage]. eapply DLu_le; [|exact DLI].
  eapply (fold_res_inv _ (fun x : list (vehicle_id * tour) * usage_t * Z => ULe (snd (fst x)) (s_usage s))) in E.
  - exact E.
  - strict_tac2.
  - intros [[tours u] costs] v x HQ H. cbn [bind fst snd] in *.
    mon H. mon H. mon H. mon H. mon H. mon H. mon H. mon H. mon H. inversion H; subst; clear H. cbn [fst snd].
    eapply ULe_trans; [|exact HQ]. apply panic_ok in E1, E7.
    eapply udu_same; [exact E9|]. intros ty t Gty Gt. split; [eapply is_vehicle_some; eauto|].
    exists a. split; [exact E1|]. rewrite vget_vset, vid_eqb_refl in Gt. inversion Gt; subst t.
    rewrite (replace_end_first _ _ _ _ E7). reflexivity.
  - apply ULe_refl.
Qed.

Lemma recompute_dl s ts s' : DLs s -> recompute_transitions_for nw s ts = Ok s' -> DLs s'.
Proof.
  intros DLI H. unfold recompute_transitions_for in H. monp H. inversion H; subst; clear H. exact DLI.
Qed.

(** ** the induction over [nstep] *)
Lemma vstep_step s s' : vstep nw s s' -> step nw s s'.
Proof.
  destruct 1; [eapply st_spawn | eapply st_spawn_dummy | eapply st_delete | eapply st_add_path |
               eapply st_remove_segment | eapply st_fit | eapply st_override | eapply st_improve |
               eapply st_greedy | eapply st_recompute | eapply st_consistent]; eauto.
Qed.

Lemma nstep_cases s s' : nstep nw s s' -> vstep nw s s' \/ exists trans, s' = set_next_day_transitions s trans.
Proof.
  destruct 1; [left; eapply vs_spawn | left; eapply vs_spawn_dummy | left; eapply vs_delete | left; eapply vs_add_path |
               left; eapply vs_remove_segment | left; eapply vs_fit | left; eapply vs_override | left; eapply vs_improve |
               left; eapply vs_greedy | left; eapply vs_recompute | left; eapply vs_consistent | right]; eauto.
Qed.

Lemma nstep_inv s s' : Inv nw s -> nstep nw s s' -> Inv nw s'.
Proof.
  intros I St. destruct (nstep_cases _ _ St) as [V|[trans ->]].
  - eapply SchedCostsFacts.step_inv; [exact I|]. apply vstep_step. exact V.
  - apply Inv_set_next. exact I.
Qed.

Lemma nstep_T s s' : Inv nw s -> TIs nw s -> nstep nw s s' -> TIs nw s'.
Proof.
  intros I T St. destruct (nstep_cases _ _ St) as [V|[trans ->]].
  - eapply vstep_T; eauto.
  - exact T.
Qed.

Lemma nstep_dl s s' : Inv nw s -> TIs nw s -> DLs s -> nstep nw s s' -> DLs s'.
Proof.
  intros I T D St. destruct St.
  - eapply spawn_dl; eauto.
  - eapply spawn_dummy_dl; eauto.
  - eapply replace_dl; eauto.
  - eapply add_path_dl; eauto.
  - eapply remove_segment_dl; eauto.
  - eapply fit_dl; eauto.
  - eapply override_dl; eauto.
  - eapply improve_dl; eauto.
  - eapply greedy_dl; eauto.
  - eapply recompute_dl; eauto.
  - eapply consistent_dl; eauto.
  - exact D.
Qed.

Lemma z_sum_zero {A} (l : list A) : z_sum (map (fun _ => 0) l) = 0.
Proof. induction l as [|a l IH]; [reflexivity|]. cbn [map]. rewrite z_sum_cons, IH. reflexivity. Qed.

Lemma empty_dl s : caps_nonneg nw -> empty_schedule nw = Ok s -> DLs s.
Proof.
  intros CN H. unfold empty_schedule in H. mon H. inversion H; subst; clear H.
  unfold DLs. cbn [s_usage]. intros d Hd Ho. destruct (CN d Hd Ho) as [C1 C2]. split.
  - intros ty Hty. unfold spawned_same_type. cbn. apply C2. exact Hty.
  - unfold spawned_total, spawned_same_type. cbn [uget assoc]. rewrite z_sum_zero. exact C1.
Qed.

Lemma nreachable_all s : caps_nonneg nw -> nreachable nw s -> Inv nw s /\ TIs nw s /\ DLs s.
Proof.
  intros CN R. induction R as [s H|s s' R IH St].
  - split; [apply SchedCostsFacts.empty_inv; exact H|]. split; [apply SchedToursFacts.empty_T; exact H|apply empty_dl; assumption].
  - destruct IH as (I & T & D). split; [eapply nstep_inv; eauto|]. split; [eapply nstep_T; eauto|eapply nstep_dl; eauto].
Qed.
End Ops.

Theorem nreachable_depot_limits_under_overflow_consistent : forall nw,
  overflow_consistent nw -> caps_nonneg nw -> stmt_nreachable_depot_limits nw.
Proof.
  intros nw OC CN OK s R. unfold net_ok_b in OK. apply andb_true_iff in OK. destruct OK as [WF DP].
  apply DLs_DepotLimitsOK. apply (nreachable_all nw WF DP OC s CN R).
Qed.

(** * 6. the neighbourhood stays inside [nreachable] *)
Section Closure.
Variable nw : network.
Hypothesis WF : net_wf_b nw = true.
Hypothesis DP : durations_pos_b nw = true.
Hypothesis ML : maint_listed_ok nw.
Notation d0 := (SD 0).
Notation nreach := (nreachable nw).

(** ** structural facts of nreachable schedules (none of them speaks of s_trans) *)
Record NS (s : schedule) : Prop := {
  ns_inv : Inv nw s; ns_T : TIs nw s; ns_L : LInv nw false s; ns_FK : SFK nw s }.

Lemma nstep_NS s s' : NS s -> nstep nw s s' -> NS s'.
Proof.
  intros [I T L F] St. destruct (nstep_cases nw _ _ St) as [V|[trans ->]].
  - pose proof (vstep_step nw _ _ V) as S1. constructor.
    + eapply SchedCostsFacts.step_inv; eauto.
    + eapply vstep_T; eauto.
    + eapply gstep_L; eauto. apply step_gstep. exact S1.
    + eapply step_FK; eauto.
  - constructor; [apply Inv_set_next; exact I|exact T|exact L|exact F].
Qed.

Lemma nreach_NS s : nreach s -> NS s.
Proof.
  induction 1 as [s H|s s' R IH St].
  - constructor; [apply SchedCostsFacts.empty_inv; exact H|apply SchedToursFacts.empty_T; exact H|apply empty_L; exact H|apply empty_FK; exact H].
  - eapply nstep_NS; eauto.
Qed.

Lemma formed_valid s n f : NS s -> nget n (s_forms s) = Some f -> valid_path nw [n].
Proof.
  intros [_ _ _ F] G. apply single_valid_path. apply coverable_not_depot; [exact ML|]. eapply F; eauto.
Qed.

(** ** single steps *)
Lemma nreach_override s seg p r s' d : nreach s -> is_depot (nd nw (fst seg)) = false ->
  override_reassign nw s seg p r = Ok (s', d) -> nreach s'.
Proof. intros R N H. eapply nr_step; [exact R|]. eapply ns_override; eauto. Qed.
Lemma nreach_fit s seg p r s' : nreach s -> p <> r -> is_depot (nd nw (fst seg)) = false ->
  fit_reassign nw s seg p r = Ok s' -> nreach s'.
Proof. intros R Q N H. eapply nr_step; [exact R|]. eapply ns_fit; eauto. Qed.
Lemma nreach_spawn_dummy s d ty s' v : nreach s -> spawn_to_replace_dummy nw s d ty = Ok (s', v) -> nreach s'.
Proof. intros R H. eapply nr_step; [exact R|]. eapply ns_spawn_dummy; exact H. Qed.
Lemma nreach_spawn s ty path s' v : nreach s -> valid_path nw path -> spawn_vehicle_for_path nw s ty path = Ok (s', v) -> nreach s'.
Proof. intros R V H. eapply nr_step; [exact R|]. eapply ns_spawn; eauto. Qed.
Lemma nreach_remove_segment s seg v s' : nreach s -> remove_segment nw s seg v = Ok s' -> nreach s'.
Proof. intros R H. eapply nr_step; [exact R|]. eapply ns_remove_segment; exact H. Qed.
Lemma nreach_add_path s v path s' c : nreach s -> valid_path nw path -> add_path_to_vehicle_tour nw s v path = Ok (s', c) -> nreach s'.
Proof. intros R V H. eapply nr_step; [exact R|]. eapply ns_add_path; eauto. Qed.
Lemma nreach_improve s vs s' : nreach s -> improve_depots nw s vs = Ok s' -> nreach s'.
Proof. intros R H. eapply nr_step; [exact R|]. eapply ns_improve; exact H. Qed.
Lemma nreach_recompute s ts s' : nreach s -> recompute_transitions_for nw s ts = Ok s' -> nreach s'.
Proof. intros R H. eapply nr_step; [exact R|]. eapply ns_recompute; exact H. Qed.

Lemma improve_and_recompute_nreach s ch s' :
  nreach s -> match improve_and_recompute nw s ch with Err => Panic | x => x end = Ok s' -> nreach s'.
Proof.
  intros R H. destruct (improve_and_recompute nw s ch) eqn:E; try discriminate H.
  inversion H; subst. unfold improve_and_recompute in E. mon E. mon E. mon E.
  eapply nreach_recompute; [|exact E]. eapply nreach_improve; [exact R|eassumption].
Qed.

(** ** the dummy made by override_reassign: fresh, and its tour has no depots *)
Lemma has_tour_not_fresh' s p tp : NS s -> tour_of s p = Ok tp -> p <> Dummy (s_counter s).
Proof.
  intros [I _ [_ D] _] H Q. subst p.
  unfold tour_of in H. destruct (vget (Dummy (s_counter s)) (s_tours s)) as [t0|] eqn:G.
  - destruct (inv_keys nw s I _ _ G) as (i & Q & _). discriminate Q.
  - destruct (vget (Dummy (s_counter s)) (s_dummies s)) as [t1|] eqn:G2; [|discriminate H].
    destruct (d_lt _ _ _ _ D _ _ G2) as (i & Q & Hi). inversion Q. lia.
Qed.

Lemma dummy_tour_first s i t : NS s -> tour_of s (Dummy i) = Ok t -> is_depot (nd nw (first_node t)) = false.
Proof.
  intros [I T _ _] H. destruct (tour_of_T nw s (Dummy i) t I T H) as (_ & F1 & F2).
  destruct (is_dummy s (Dummy i)) eqn:D.
  - destruct (F1 eq_refl) as (_ & NE & _ & ND). apply ND. rewrite first_node_hd.
    destruct (t_nodes t); [congruence|now left].
  - destruct (F2 eq_refl) as (G & _). destruct (inv_keys nw s I _ _ G) as (k & Q & _). discriminate Q.
Qed.

(** ** the four swaps *)
Lemma path_exchange_nreach s seg p r s' :
  nreach s -> is_depot (nd nw (fst seg)) = false -> path_exchange nw s seg p r = Ok s' -> nreach s'.
Proof.
  intros R N H. unfold path_exchange in H.
  monp H. rename s0 into first, o into newd.
  assert (R1 : nreach first) by (eapply nreach_override; eassumption).
  monp H. rename s0 into second, l into changed.
  assert (R2 : nreach second).
  { destruct newd as [d|].
    - destruct (override_newd _ _ _ _ _ _ _ E) as (Qd & tp & Htp).
      destruct (is_vehicle_or_dummy first p).
      + mon E0. mon E0. inversion E0; subst second changed; clear E0. apply panic_ok in E1.
        eapply nreach_fit; [exact R1| | |eassumption].
        * intros Q. apply (has_tour_not_fresh' s p tp (nreach_NS s R) Htp). congruence.
        * cbn [fst]. rewrite Qd in E1. eapply dummy_tour_first; [apply nreach_NS; exact R1|exact E1].
      + destruct (is_vehicle s p).
        * mon E0. monp E0. inversion E0; subst. eapply nreach_spawn_dummy; eassumption.
        * inversion E0; subst. exact R1.
    - inversion E0; subst. exact R1. }
  eapply improve_and_recompute_nreach; eassumption.
Qed.

Lemma spawn_vehicle_for_maintenance_nreach s m v s' :
  nreach s -> spawn_vehicle_for_maintenance nw s m v = Ok s' -> nreach s'.
Proof.
  intros R H. unfold spawn_vehicle_for_maintenance in H.
  mon H. destruct (t_vm a); [discriminate H|].
  mon H. apply unwrap_opt_ok in E0.
  assert (VM : valid_path nw [m]) by (eapply formed_valid; [apply nreach_NS; exact R|exact E0]).
  mon H. monp H. rename s0 into s1, l into ch1.
  assert (R1 : nreach s1).
  { destruct (track_count nw m <=? Z.of_nat (length a0)).
    - mon E2. mon E2. inversion E2; subst. eapply nreach_remove_segment; eassumption.
    - inversion E2; subst. exact R. }
  monp H. rename s0 into s2, o into conflict.
  assert (R2 : nreach s2) by (eapply nreach_add_path; eassumption).
  monp H. rename s0 into s3, l into ch3.
  assert (R3 : nreach s3).
  { destruct conflict as [path|].
    - monp E4. inversion E4; subst. eapply nreach_spawn; [exact R2| |eassumption].
      destruct (nreach_NS s1 R1) as [I1 T1 _ _].
      eapply (add_path_conflict_valid nw WF DP); [exact I1|exact T1|exact VM|eassumption].
    - inversion E4; subst. exact R2. }
  eapply improve_and_recompute_nreach; eassumption.
Qed.

Lemma add_trip_for_hitch_hiking_nreach s n v s' :
  nreach s -> add_trip_for_hitch_hiking nw s n v = Ok s' -> nreach s'.
Proof.
  intros R H. unfold add_trip_for_hitch_hiking in H.
  mon H. apply unwrap_opt_ok in E.
  assert (VN : valid_path nw [n]) by (eapply formed_valid; [apply nreach_NS; exact R|exact E]).
  destruct (match maximal_formation_count_for nw n with
            | Some l => l <=? Z.of_nat (length a) | None => false end); [discriminate H|].
  monp H. rename s0 into s1.
  assert (R1 : nreach s1) by (eapply nreach_add_path; eassumption).
  destruct o; [discriminate H|].
  eapply improve_and_recompute_nreach; eassumption.
Qed.

Lemma apply_cand_nreach s c s' : nreach s ->
  (forall seg p r, c = CExch seg p r -> is_depot (nd nw (fst seg)) = false) ->
  apply_cand nw s c = Ok s' -> nreach s'.
Proof.
  intros R N H. destruct c; cbn [apply_cand] in H.
  - eapply spawn_vehicle_for_maintenance_nreach; eassumption.
  - eapply path_exchange_nreach; [exact R|eapply N; reflexivity|eassumption].
  - eapply add_trip_for_hitch_hiking_nreach; eassumption.
  - unfold remove_single_node in H. eapply nreach_remove_segment; eassumption.
Qed.
End Closure.

(** ** the enumerated exchange candidates move segments that start at a non-depot *)
Lemma fold_prop {A B} (f : res (list B) -> A -> res (list B)) (P : A -> B -> Prop) :
  (forall r a x, f r a = Ok x -> exists y, r = Ok y) ->
  (forall l a l', f (Ok l) a = Ok l' -> forall b, In b l' -> In b l \/ P a b) ->
  forall xs l0 l, fold_left f xs (Ok l0) = Ok l -> forall b, In b l -> In b l0 \/ exists a, In a xs /\ P a b.
Proof.
  intros ST STEP. induction xs as [|a xs IH]; intros l0 l H b Hb; cbn [fold_left] in H.
  - inversion H; subst. now left.
  - destruct (fold_res_strict f ST _ _ _ H) as [l1 H1]. rewrite H1 in H.
    destruct (IH _ _ H b Hb) as [Q|(a' & Q1 & Q2)].
    + destruct (STEP _ _ _ H1 b Q) as [Q'|Q']; [now left|]. right. exists a. split; [now left|exact Q'].
    + right. exists a'. split; [now right|exact Q2].
Qed.

Ltac fold_prop_in E P elt Helt Q :=
  match type of E with
  | fold_left ?f _ _ = _ =>
      let ST := fresh "ST" in let STEP := fresh "STEP" in
      assert (ST : forall r a x, f r a = Ok x -> exists y, r = Ok y);
      [ let r := fresh "r" in let a := fresh "a" in let x := fresh "x" in let H := fresh "H" in
        intros r a x H; destruct r; [eauto| | | ]; exfalso; try (destruct a); cbn [bind] in H; discriminate H
      | assert (STEP : forall l a l', f (Ok l) a = Ok l' -> forall bb, In bb l' -> In bb l \/ P a bb);
        [ | pose proof (fold_prop f P ST STEP _ _ _ E elt Helt) as Q; clear ST STEP ] ]
  end.

Lemma segments_starts nw s p sg : segments nw s p = Ok sg ->
  exists t, tour_of s p = Ok t /\ forall seg, In seg sg -> In (fst seg) (non_depots t).
Proof.
  intros H. unfold segments in H. cbv zeta in H. mon H. apply panic_ok in E. exists a. split; [exact E|].
  mon H. inversion H; subst sg; clear H. intros seg Hs. apply filter_In in Hs. destruct Hs as [Hs _].
  fold_prop_in E0 (fun (x : nat * node_id) (sg : node_id * node_id) => fst sg = snd x) seg Hs Q.
  - intros l [i ss] l' HH b Hb. cbn [bind] in HH. mon HH.
    destruct (negb a1); [inversion HH; subst; now left|].
    mon HH. inversion HH; subst l'; clear HH. apply in_app_or in Hb. destruct Hb as [Hb|Hb]; [now left|right].
    apply in_map_iff in Hb. destruct Hb as (e & <- & _). reflexivity.
  - destruct Q as [[]|([i ss] & Q1 & Q2)]. cbn [snd] in Q2. rewrite Q2.
    eapply in_combine_r; eauto.
Qed.

Lemma candidates_exch nw s cs seg p r : candidates nw s = Ok cs -> In (CExch seg p r) cs ->
  exists sg, segments nw s p = Ok sg /\ In seg sg.
Proof.
  intros H Hin. unfold candidates in H. cbv zeta in H. mon H. mon H. mon H. inversion H; subst cs; clear H.
  apply in_app_or in Hin. destruct Hin as [Hin|Hin].
  { apply in_flat_map in Hin. destruct Hin as (m & _ & Hin). apply in_map_iff in Hin.
    destruct Hin as (v & Q & _). discriminate Q. }
  apply in_app_or in Hin. destruct Hin as [Hin|Hin].
  { fold_prop_in E (fun p0 c => exists sg, segments nw s p0 = Ok sg /\
               In c (flat_map (fun seg => map (fun r => CExch seg p0 r)
                       (filter (fun r => negb (vid_eqb r p0)) (vehicles_iter_all nw s ++ s_dummy_ids s))) sg))
        (CExch seg p r) Hin Q.
    - intros l p0 l' HH b Hb. cbn [bind] in HH. mon HH. inversion HH; subst l'; clear HH.
      apply in_app_or in Hb. destruct Hb as [Hb|Hb]; [now left|right]. exists a2. auto.
    - destruct Q as [[]|(p0 & _ & sg & SG & Q)].
      apply in_flat_map in Q. destruct Q as (seg' & Q1 & Q2). apply in_map_iff in Q2.
      destruct Q2 as (r' & Q2 & _). inversion Q2; subst. exists sg. auto. }
  apply in_app_or in Hin. destruct Hin as [Hin|Hin].
  { exfalso. fold_prop_in E0 (fun (v : vehicle_id) c => exists n, c = CHitch n v) (CExch seg p r) Hin Q.
    - intros l v l' HH b Hb. cbn [bind] in HH. mon HH. inversion HH; subst l'; clear HH.
      apply in_app_or in Hb. destruct Hb as [Hb|Hb]; [now left|right].
      apply in_map_iff in Hb. destruct Hb as (n & <- & _). eauto.
    - destruct Q as [[]|(v & _ & n & Q)]. discriminate Q. }
  { exfalso. fold_prop_in E1 (fun (v : vehicle_id) c => exists n, c = CRemove n v) (CExch seg p r) Hin Q.
    - intros l v l' HH b Hb. cbn [bind] in HH. mon HH. inversion HH; subst l'; clear HH.
      apply in_app_or in Hb. destruct Hb as [Hb|Hb]; [now left|right].
      apply in_map_iff in Hb. destruct Hb as (n & <- & _). eauto.
    - destruct Q as [[]|(v & _ & n & Q)]. discriminate Q. }
Qed.

Lemma non_depots_nondep nw t n : TV nw t -> In n (non_depots t) -> is_depot (nd nw n) = false.
Proof.
  unfold TV, non_depots. destruct (t_dummy t).
  - intros (_ & _ & ND) H. apply ND. exact H.
  - intros R H. eapply RV_inner; eauto.
Qed.

Theorem neighbors_nreachable : forall nw, stmt_neighbors_nreachable nw.
Proof.
  intros nw OK ML s l R H c s' Hin. unfold net_ok_b in OK. apply andb_true_iff in OK. destruct OK as [WF DP].
  destruct (neighbors_are_applications nw s l H) as (cs & Hc & Hcs).
  destruct (Hcs c s' Hin) as [Hic Ha].
  eapply (apply_cand_nreach nw WF DP ML); [exact R| |exact Ha].
  intros seg p r ->. destruct (candidates_exch _ _ _ _ _ _ Hc Hic) as (sg & SG & Q).
  destruct (segments_starts _ _ _ _ SG) as (t & TO & ST).
  destruct (nreach_NS nw WF DP s R) as [I T _ _].
  destruct (tour_of_T nw s p t I T TO) as (V & _ & _).
  eapply non_depots_nondep; eauto.
Qed.

(** * 7. the pipeline stays inside [nreachable] *)
Lemma from_tours_fold_n nw (tours : list (Z * list node_id)) : forall (acc : res schedule) s0,
  tours_are_paths nw tours ->
  (forall s, acc = Ok s -> nreachable nw s) ->
  fold_left (fun acc '(ty, path) =>
               do s <- acc;
               match spawn_vehicle_for_path nw s ty path with Ok (s', _) => Ok s' | OutOfFuel => OutOfFuel | _ => Panic end)
            tours acc = Ok s0 -> nreachable nw s0.
Proof.
  induction tours as [|[ty p] tours IH]; intros acc s0 TP Hacc H; cbn [fold_left] in H.
  - now apply Hacc.
  - eapply IH; [| |exact H].
    + intros ty' p' Hin. apply (TP ty' p'). now right.
    + intros s Hs. destruct acc as [s1| | |]; cbn [bind] in Hs; try discriminate Hs.
      destruct (spawn_vehicle_for_path nw s1 ty p) as [[s' v]| | |] eqn:E; try discriminate Hs.
      inversion Hs; subst s'; clear Hs.
      eapply nr_step; [apply Hacc; reflexivity|].
      eapply ns_spawn; [|exact E]. apply (TP ty p). now left.
Qed.

Lemma from_tours_nreachable nw tours s0 : tours_are_paths nw tours -> from_tours nw tours = Ok s0 -> nreachable nw s0.
Proof.
  intros TP H. unfold from_tours in H. eapply from_tours_fold_n; [exact TP| |exact H].
  intros s Hs. now apply nr_empty.
Qed.

Lemma ls_path_nreachable nw : net_ok_b nw = true -> maint_listed_ok nw ->
  forall s s', nreachable nw s -> ls_path nw s s' -> nreachable nw s'.
Proof.
  intros OK ML s s' R P. induction P as [s|s l c s1 s2 Hn Hin P IH]; [exact R|].
  apply IH. eapply neighbors_nreachable; eassumption.
Qed.

Theorem pipeline_nreachable : forall nw, stmt_pipeline_nreachable nw.
Proof.
  intros nw OK ML tours final TP (s0 & s1 & ls & trans & F & I1 & LP & TV & C).
  eapply nr_step; [|eapply ns_consistent; exact C].
  eapply nr_step; [|eapply ns_set_trans; exact TV].
  eapply ls_path_nreachable; [exact OK|exact ML| |exact LP].
  eapply nr_step; [eapply from_tours_nreachable; eauto|]. eapply ns_improve; exact I1.
Qed.

Theorem pipeline_depot_limits_under_overflow_consistent : forall nw,
  overflow_consistent nw -> caps_nonneg nw -> stmt_pipeline_depot_limits nw.
Proof.
  intros nw OC CN OK ML tours final TP PR.
  apply (nreachable_depot_limits_under_overflow_consistent nw OC CN OK).
  eapply pipeline_nreachable; eauto.
Qed.

(** * 8. networks built by [load] *)
(* capacities are unsigned in the input format *)
Definition inst_caps_nonneg (i : instance) : Prop :=
  forall d, In d (match i_depots i with Some l => l | None => [] end) ->
    0 <= id_cap d /\ forall t c, In (t, Some c) (id_allowed d) -> 0 <= c.

Lemma dn_entry_start deps : forall s k d, nth_error deps k = Some d ->
  In (SD (2 * Z.of_nat (s + k)), NStart {| dn_depot := dp_idx d; dn_loc := dp_loc d |})
     (flat_map Ldentry_of (dn_of s deps)).
Proof.
  induction deps as [|dd deps IH]; intros s k d G.
  - destruct k; discriminate G.
  - unfold dn_of. cbn [length seq combine map flat_map Ldentry_of]. fold (dn_of (S s) deps).
    destruct k as [|k]; cbn [nth_error] in G.
    + inversion G; subst dd. rewrite Nat.add_0_r. now left.
    + replace (s + S k)%nat with (S s + k)%nat by lia. right. right. apply IH. exact G.
Qed.

Theorem load_overflow_consistent : forall i perm nw, load i perm = Ok nw -> overflow_consistent nw.
Proof.
  intros i perm nw H. rewrite load_eq in H.
  destruct (time_span i) as [[e0 l0]| | |]; cbn [bind] in H; try discriminate H.
  destruct (planning_of e0 l0) as [p0| | |]; cbn [bind] in H; try discriminate H.
  destruct (all_trips i) as [trips| | |]; cbn [bind] in H; try discriminate H.
  destruct (planning_of _ _) as [p1| | |]; cbn [bind] in H; try discriminate H.
  inversion H; subst nw; clear H.
  unfold overflow_consistent. cbn [nw_overflow Lnet]. unfold get_depot_idx.
  set (deps0 := Ldepots0 i perm trips).
  assert (G : nth_error (Ldepots i perm trips) (length deps0) = Some (Loverflow i perm trips)).
  { unfold Ldepots. fold deps0. rewrite nth_error_app2 by lia. rewrite Nat.sub_diag. reflexivity. }
  pose proof (dn_entry_start _ 0 _ _ G) as B. cbn [Nat.add] in B.
  erewrite Lnd.
  2:{ unfold Lnodes. apply in_app_iff. left. unfold Ldentries, Ldnodes. fold (dn_of 0 (Ldepots i perm trips)). exact B. }
  reflexivity.
Qed.

Lemma in_dn_of deps : forall s x, In x (dn_of s deps) -> In (fst (fst x)) deps.
Proof.
  unfold dn_of. intros s x H. apply in_map_iff in H. destruct H as ([k d] & <- & H).
  apply in_combine_r in H. exact H.
Qed.

Lemma make_depots_nonneg i perm x d : inst_caps_nonneg i -> 0 <= x -> In d (make_depots i perm x) ->
  0 <= dp_total d /\ forall ty, 0 <= depot_capacity_for d ty.
Proof.
  intros IC Hx H. unfold make_depots in H. unfold inst_caps_nonneg in IC.
  destruct (i_depots i) as [ds|].
  - apply in_map_iff in H. destruct H as ([k dd] & <- & H). apply in_combine_r in H.
    destruct (IC dd H) as [C1 C2]. cbn [dp_total]. split; [exact C1|].
    intros ty. unfold depot_capacity_for. cbn [dp_allowed dp_total].
    destruct (assoc Z.eqb ty (id_allowed dd)) as [[c|]|] eqn:A; try lia.
    apply (assoc_in Z.eqb Z.eqb_eq) in A. specialize (C2 _ _ A). lia.
  - apply in_map_iff in H. destruct H as ([k l] & <- & H). cbn [dp_total]. split; [exact Hx|].
    intros ty. unfold depot_capacity_for. cbn [dp_allowed dp_total].
    destruct (assoc Z.eqb ty (map (fun t => (t, @None Z)) (tids i))) as [[c|]|] eqn:A; try lia.
    apply (assoc_in Z.eqb Z.eqb_eq) in A. apply in_map_iff in A. destruct A as (t & Q & _). discriminate Q.
Qed.

Theorem load_caps_nonneg : forall i perm nw, load i perm = Ok nw -> inst_caps_nonneg i -> caps_nonneg nw.
Proof.
  intros i perm nw H IC. rewrite load_eq in H.
  destruct (time_span i) as [[e0 l0]| | |]; cbn [bind] in H; try discriminate H.
  destruct (planning_of e0 l0) as [p0| | |]; cbn [bind] in H; try discriminate H.
  destruct (all_trips i) as [trips| | |]; cbn [bind] in H; try discriminate H.
  destruct (planning_of _ _) as [p1| | |]; cbn [bind] in H; try discriminate H.
  inversion H; subst nw; clear H.
  intros d _ Ho. cbn [nw_overflow Lnet] in Ho.
  assert (Q : forall dp sn en, depot_entry (Lnet i perm trips p0 p1) d = Some (dp, sn, en) ->
                0 <= dp_total dp /\ forall ty, 0 <= depot_capacity_for dp ty).
  { intros dp sn en A. unfold depot_entry in A. cbn [nw_depots Lnet] in A.
    apply (assoc_in Z.eqb Z.eqb_eq) in A. unfold Ldentry in A. apply in_map_iff in A.
    destruct A as ([[dp' sn'] en'] & Q & A). inversion Q; subst; clear Q.
    unfold Ldnodes in A. fold (dn_of 0 (Ldepots i perm trips)) in A. apply in_dn_of in A. cbn [fst] in A.
    unfold Ldepots in A. apply in_app_or in A. destruct A as [A|[A|[]]].
    - eapply make_depots_nonneg; [exact IC| |exact A]. unfold Lnservice. lia.
    - exfalso. apply Ho. rewrite <- A. reflexivity. }
  unfold total_capacity_of, capacity_of.
  destruct (depot_entry (Lnet i perm trips p0 p1) d) as [[[dp sn] en]|]; [|split; [lia|intros; lia]].
  destruct (Q dp sn en eq_refl) as [Q1 Q2]. split; [exact Q1|]. intros ty _. apply Q2.
Qed.

(** the statements exactly as given, for every loaded network whose instance has no negative capacity *)
Theorem nreachable_depot_limits_loaded : forall i perm nw, load i perm = Ok nw -> inst_caps_nonneg i ->
  stmt_nreachable_depot_limits nw.
Proof.
  intros i perm nw L IC. apply nreachable_depot_limits_under_overflow_consistent.
  - eapply load_overflow_consistent; eauto.
  - eapply load_caps_nonneg; eauto.
Qed.

Theorem pipeline_depot_limits_loaded : forall i perm nw, load i perm = Ok nw -> inst_caps_nonneg i ->
  stmt_pipeline_depot_limits nw.
Proof.
  intros i perm nw L IC. apply pipeline_depot_limits_under_overflow_consistent.
  - eapply load_overflow_consistent; eauto.
  - eapply load_caps_nonneg; eauto.
Qed.

(** executable readings of the two hypotheses (for the driver) *)
Definition overflow_consistent_b (nw : network) : bool :=
  let '(od, os, _) := nw_overflow nw in get_depot_idx nw os =? od.
Definition caps_nonneg_b (nw : network) : bool :=
  let '(od, _, _) := nw_overflow nw in
  forallb (fun d => (d =? od) || ((0 <=? total_capacity_of nw d) &&
                                  forallb (fun ty => 0 <=? capacity_of nw d ty) (type_ids nw)))
          (map fst (nw_depots nw)).

Lemma overflow_consistent_b_ok nw : overflow_consistent_b nw = true -> overflow_consistent nw.
Proof. unfold overflow_consistent_b, overflow_consistent. destruct (nw_overflow nw) as [[od os] oe]. apply Z.eqb_eq. Qed.

Lemma caps_nonneg_b_ok nw : caps_nonneg_b nw = true -> caps_nonneg nw.
Proof.
  unfold caps_nonneg_b, caps_nonneg. destruct (nw_overflow nw) as [[od os] oe]. intros H d Hd Ho.
  rewrite forallb_forall in H. specialize (H d Hd). apply orb_true_iff in H. destruct H as [H|H].
  - apply Z.eqb_eq in H. contradiction.
  - apply andb_true_iff in H. destruct H as [H1 H2]. apply Z.leb_le in H1. split; [exact H1|].
    intros ty Hty. rewrite forallb_forall in H2. apply Z.leb_le. apply H2. exact Hty.
Qed.

Theorem depot_limits_under_b : forall nw, overflow_consistent_b nw = true -> caps_nonneg_b nw = true ->
  stmt_nreachable_depot_limits nw /\ stmt_pipeline_depot_limits nw.
Proof.
  intros nw A B. apply overflow_consistent_b_ok in A. apply caps_nonneg_b_ok in B. split.
  - now apply nreachable_depot_limits_under_overflow_consistent.
  - now apply pipeline_depot_limits_under_overflow_consistent.
Qed.

(** * 9. F1 restated (statement 5): without the restriction on the moved segment the limits fail.
      Moving a segment that starts at the provider's start depot deletes the provider (Tour.remove refuses to take the
      start depot without all non-depots), so the count of that depot for the provider's TYPE does not grow; it grows
      for the receiver's type when the types differ, which is possible for a maintenance-only segment.
      Loaded network: types 0 and 1; depot 0 (SD 0 / ED 1, capacity 1) allows type 0 only; overflow depot 1
      (SD 2 / ED 3); one trip SV 4 of type 1; one maintenance slot MT 5.
      History: spawn(0, [MT 5]) -> Veh 0 = [SD 0; MT 5; ED 1]; spawn(1, [SV 4]) -> Veh 1 = [SD 2; SV 4; ED 3];
      override_reassign((SD 0, MT 5), Veh 0, Veh 1) -> Veh 1 = [SD 0; MT 5; SV 4; ED 1], a type-1 vehicle at depot 0
      whose capacity for type 1 is 0. *)
Definition instD : instance := {|
  i_types := [ {| vt_cap := 100; vt_seats := 50; vt_limit := None |}; {| vt_cap := 100; vt_seats := 50; vt_limit := None |} ];
  i_nlocs := 2;
  i_depots := Some [ {| id_loc := 0; id_cap := 1; id_allowed := [(0, None)] |} ];
  i_routes := [ {| r_type := 1; r_segs := [ {| rs_origin := 0; rs_dest := 1; rs_dist := 1000; rs_dur := 1000; rs_limit := None |} ] |} ];
  i_departures := [ {| d_route := 0; d_segs := [ {| ds_rseg := 0; ds_dep := 5000; ds_pass := 10; ds_seated := 5 |} ] |} ];
  i_slots := Some [ {| is_loc := 0; is_start := 1000; is_end := 2000; is_tracks := 1 |} ];
  i_dh_dur := [[0; 60]; [60; 0]];
  i_dh_dist := [[0; 1000]; [1000; 0]];
  i_params := {| p_forbid := false; p_min := 0; p_dht := 0; p_maxdist := 100000;
                 c_staff := 1; c_service := 1; c_maint := 0; c_dh := 5; c_idle := 1 |} |}.
Definition nwD : network := Eval vm_compute in get_ok (load instD []) nw_dflt.
Lemma nwD_loaded : valid_instance_b instD = true /\ load instD [] = Ok nwD.
Proof. split; vm_compute; reflexivity. Qed.
Lemma nwD_ok : net_ok_b nwD = true.
Proof. vm_compute. reflexivity. Qed.

Definition sD0 : schedule := Eval vm_compute in get_ok (empty_schedule nwD) s_dflt.
Definition sD1 : schedule := Eval vm_compute in
  match spawn_vehicle_for_path nwD sD0 0 [MT 5] with Ok (s, _) => s | _ => s_dflt end.
Definition sD2 : schedule := Eval vm_compute in
  match spawn_vehicle_for_path nwD sD1 1 [SV 4] with Ok (s, _) => s | _ => s_dflt end.
Lemma sD0_ok : empty_schedule nwD = Ok sD0.
Proof. vm_compute. reflexivity. Qed.
Lemma sD1_ok : spawn_vehicle_for_path nwD sD0 0 [MT 5] = Ok (sD1, Veh 0).
Proof. vm_compute. reflexivity. Qed.
Lemma sD2_ok : spawn_vehicle_for_path nwD sD1 1 [SV 4] = Ok (sD2, Veh 1).
Proof. vm_compute. reflexivity. Qed.

Lemma single_path_valid nw n : node_is_depot nw n = false -> valid_path nw [n].
Proof. apply single_valid_path. Qed.

(* Known finding F1, repaired by "fix: a start depot handed to the receiver must have room for it": before the repair
   override_reassign (SD 0, MT 5) (Veh 0) (Veh 1) moved the maintenance-only tour of the type-0 vehicle, start depot
   included, into the type-1 vehicle although depot 0 admits only type 0 (usage (0, 1) -> [Veh 1] against capacity 0).
   On the repaired model the move is refused. *)
Lemma F1_move_refused : override_reassign nwD sD2 (SD 0, MT 5) (Veh 0) (Veh 1) = Err.
Proof. vm_compute. reflexivity. Qed.

(** * 10. statements 1 and 4 are false exactly as stated (for network records / instances outside the input format) *)
(** ** 10a. the overflow start node must carry the overflow index: [nwO] = the loaded network [nwF] of
       SchedFrameFacts-like shape (one depot of capacity 1, trips SV 4, SV 5 of type 0) with only [nw_overflow]
       altered to (7, SD 0, ED 1): add_suitable_depots then substitutes SD 0 for a full SD 0. *)
Definition instO : instance := {|
  i_types := [ {| vt_cap := 100; vt_seats := 50; vt_limit := None |} ];
  i_nlocs := 2;
  i_depots := Some [ {| id_loc := 0; id_cap := 1; id_allowed := [(0, None)] |} ];
  i_routes := [ {| r_type := 0; r_segs := [ {| rs_origin := 0; rs_dest := 1; rs_dist := 1000; rs_dur := 3600; rs_limit := None |} ] |};
                {| r_type := 0; r_segs := [ {| rs_origin := 1; rs_dest := 0; rs_dist := 1000; rs_dur := 3600; rs_limit := None |} ] |} ];
  i_departures := [ {| d_route := 0; d_segs := [ {| ds_rseg := 0; ds_dep := 43200; ds_pass := 10; ds_seated := 5 |} ] |};
                    {| d_route := 1; d_segs := [ {| ds_rseg := 0; ds_dep := 46800; ds_pass := 10; ds_seated := 5 |} ] |} ];
  i_slots := None;
  i_dh_dur := [[0; 600]; [600; 0]];
  i_dh_dist := [[0; 1000]; [1000; 0]];
  i_params := {| p_forbid := false; p_min := 0; p_dht := 0; p_maxdist := 0;
                 c_staff := 1; c_service := 1; c_maint := 0; c_dh := 5; c_idle := 1 |} |}.
Definition nwO1 : network := Eval vm_compute in get_ok (load instO []) nw_dflt.
Definition nwO : network :=
  {| nw_nodes := nw_nodes nwO1; nw_depots := nw_depots nwO1; nw_overflow := (7, SD 0, ED 1); nw_service := nw_service nwO1;
     nw_maint := nw_maint nwO1; nw_sdepots := nw_sdepots nwO1; nw_edepots := nw_edepots nwO1;
     nw_all_by_start := nw_all_by_start nwO1; nw_type_by_start := nw_type_by_start nwO1; nw_type_by_end := nw_type_by_end nwO1;
     nw_params := nw_params nwO1; nw_nlocs := nw_nlocs nwO1; nw_dh := nw_dh nwO1; nw_types := nw_types nwO1;
     nw_nservice := nw_nservice nwO1; nw_planning := nw_planning nwO1 |}.
Lemma nwO_ok : net_ok_b nwO = true.
Proof. vm_compute. reflexivity. Qed.
Lemma nwO_not_consistent : ~ overflow_consistent nwO.
Proof. vm_compute. discriminate. Qed.

Definition sO0 : schedule := Eval vm_compute in get_ok (empty_schedule nwO) s_dflt.
Definition sO1 : schedule := Eval vm_compute in
  match spawn_vehicle_for_path nwO sO0 0 [SD 0; SV 4] with Ok (s, _) => s | _ => s_dflt end.
Definition sO2 : schedule := Eval vm_compute in
  match spawn_vehicle_for_path nwO sO1 0 [SD 0; SV 5] with Ok (s, _) => s | _ => s_dflt end.
Lemma sO0_ok : empty_schedule nwO = Ok sO0.
Proof. vm_compute. reflexivity. Qed.
Lemma sO1_ok : spawn_vehicle_for_path nwO sO0 0 [SD 0; SV 4] = Ok (sO1, Veh 0).
Proof. vm_compute. reflexivity. Qed.
Lemma sO2_ok : spawn_vehicle_for_path nwO sO1 0 [SD 0; SV 5] = Ok (sO2, Veh 1).
Proof. vm_compute. reflexivity. Qed.

Lemma two_path_valid nw a b : can_reach nw a b = true -> node_is_depot nw b = false -> valid_path nw [a; b].
Proof.
  intros C D. split; [discriminate|]. split.
  - intros x y Hin. cbn in Hin. destruct Hin as [Q|[]]. inversion Q; subst. exact C.
  - cbn [existsb]. rewrite D. cbn. apply orb_true_r.
Qed.

Lemma sO2_nreachable : nreachable nwO sO2.
Proof.
  eapply nr_step; [|eapply ns_spawn; [|exact sO2_ok]; apply two_path_valid; vm_compute; reflexivity].
  eapply nr_step; [|eapply ns_spawn; [|exact sO1_ok]; apply two_path_valid; vm_compute; reflexivity].
  apply nr_empty. exact sO0_ok.
Qed.

Theorem nreachable_depot_limits_refuted_nwO : ~ stmt_nreachable_depot_limits nwO.
Proof.
  intros H. specialize (H nwO_ok sO2 sO2_nreachable).
  assert (I0 : In 0 (map fst (nw_depots nwO))) by (vm_compute; auto).
  assert (N0 : 0 <> overflow_idx nwO) by (vm_compute; discriminate).
  destruct (H 0 I0 N0) as [A _].
  assert (I1 : In 0 (type_ids nwO)) by (vm_compute; auto).
  specialize (A 0 I1). vm_compute in A. apply A. reflexivity.
Qed.

Theorem nreachable_depot_limits_refuted : ~ (forall nw, stmt_nreachable_depot_limits nw).
Proof. intros H. exact (nreachable_depot_limits_refuted_nwO (H nwO)). Qed.

(** ** 10b. capacities must not be negative: [instN] passes [valid_instance_b] (which checks the total capacity of a
       depot but not the per-type entries of id_allowed; both are unsigned in the input format) and gives depot 0 the
       capacity -1 for type 0; already the empty schedule, and the result of the pipeline run over no tours, violate
       "0 spawned <= -1". *)
Definition instN : instance := {|
  i_types := [ {| vt_cap := 100; vt_seats := 50; vt_limit := None |} ];
  i_nlocs := 2;
  i_depots := Some [ {| id_loc := 0; id_cap := 1; id_allowed := [(0, Some (-1))] |} ];
  i_routes := [ {| r_type := 0; r_segs := [ {| rs_origin := 0; rs_dest := 1; rs_dist := 1000; rs_dur := 1000; rs_limit := None |} ] |} ];
  i_departures := [ {| d_route := 0; d_segs := [ {| ds_rseg := 0; ds_dep := 5000; ds_pass := 10; ds_seated := 5 |} ] |} ];
  i_slots := None;
  i_dh_dur := [[0; 60]; [60; 0]];
  i_dh_dist := [[0; 1000]; [1000; 0]];
  i_params := {| p_forbid := false; p_min := 0; p_dht := 0; p_maxdist := 100000;
                 c_staff := 1; c_service := 1; c_maint := 0; c_dh := 5; c_idle := 1 |} |}.
Definition nwN : network := Eval vm_compute in get_ok (load instN []) nw_dflt.
Lemma nwN_loaded : valid_instance_b instN = true /\ load instN [] = Ok nwN.
Proof. split; vm_compute; reflexivity. Qed.
Lemma nwN_ok : net_ok_b nwN = true.
Proof. vm_compute. reflexivity. Qed.
Lemma nwN_maint : maint_listed_ok nwN.
Proof. intros m Hm. vm_compute in Hm. destruct Hm. Qed.

Definition sN0 : schedule := Eval vm_compute in get_ok (empty_schedule nwN) s_dflt.
Definition sN1 : schedule := Eval vm_compute in get_ok (improve_depots nwN sN0 None) s_dflt.
Definition sNf : schedule := Eval vm_compute in
  get_ok (reassign_end_depots_consistent nwN (set_next_day_transitions sN1 (s_trans sN1))) s_dflt.
Lemma sN0_ok : empty_schedule nwN = Ok sN0.
Proof. vm_compute. reflexivity. Qed.
Lemma sN1_ok : improve_depots nwN sN0 None = Ok sN1.
Proof. vm_compute. reflexivity. Qed.
Lemma sNf_ok : reassign_end_depots_consistent nwN (set_next_day_transitions sN1 (s_trans sN1)) = Ok sNf.
Proof. vm_compute. reflexivity. Qed.

Lemma limits_fail_nwN s : s_usage s = [] -> ~ DepotLimitsOK nwN s.
Proof.
  intros U H. assert (I0 : In 0 (map fst (nw_depots nwN))) by (vm_compute; auto).
  assert (N0 : 0 <> overflow_idx nwN) by (vm_compute; discriminate).
  destruct (H 0 I0 N0) as [A _].
  assert (I1 : In 0 (type_ids nwN)) by (vm_compute; auto).
  specialize (A 0 I1). rewrite U in A. vm_compute in A. apply A. reflexivity.
Qed.

Theorem nreachable_depot_limits_refuted_nwN : ~ stmt_nreachable_depot_limits nwN.
Proof.
  intros H. apply (limits_fail_nwN sN0); [reflexivity|]. apply (H nwN_ok). apply nr_empty. exact sN0_ok.
Qed.

Lemma sN1_dreachable : dreachable nwN sN1.
Proof. eapply dr_step; [apply dr_empty; exact sN0_ok|]. eapply ds_improve. exact sN1_ok. Qed.

Lemma sNf_pipeline : pipeline_result nwN [] sNf.
Proof.
  exists sN0, sN1, sN1, (s_trans sN1). split; [exact sN0_ok|]. split; [exact sN1_ok|]. split; [apply lp_refl|].
  split; [|exact sNf_ok]. split; [vm_compute; reflexivity|].
  intros ty tr G. pose proof (reachable_trans_under_distinct nwN sN1 sN1_dreachable) as TO.
  assert (Hty : In ty (type_ids nwN)).
  { destruct (Z.eqb_spec ty 0) as [->|N]; [vm_compute; auto|]. exfalso.
    unfold zget in G. cbn in G. destruct (ty =? 0) eqn:Q; [apply Z.eqb_eq in Q; contradiction|discriminate G]. }
  destruct (TO ty Hty) as (tr' & G' & TI). rewrite G in G'. inversion G'; subst tr'. exact TI.
Qed.

Theorem pipeline_depot_limits_refuted_nwN : ~ stmt_pipeline_depot_limits nwN.
Proof.
  intros H. apply (limits_fail_nwN sNf); [reflexivity|].
  apply (H nwN_ok nwN_maint [] sNf); [|exact sNf_pipeline]. intros ty p [].
Qed.

Theorem pipeline_depot_limits_refuted : ~ (forall nw, stmt_pipeline_depot_limits nw).
Proof. intros H. exact (pipeline_depot_limits_refuted_nwN (H nwN)). Qed.

(* so for loaded networks the hypothesis on the instance cannot be dropped, even for valid_instance_b instances *)
Theorem depot_limits_loaded_need_nonneg :
  exists i perm nw, valid_instance_b i = true /\ load i perm = Ok nw /\
    ~ stmt_nreachable_depot_limits nw /\ ~ stmt_pipeline_depot_limits nw.
Proof.
  exists instN, [], nwN. destruct nwN_loaded as [V L]. repeat split; auto.
  - exact nreachable_depot_limits_refuted_nwN.
  - exact pipeline_depot_limits_refuted_nwN.
Qed.

(* non-vacuity: the loaded witness networks pass the two executable checks; the altered record and the negative entry fail one each *)
Example checks_on_witnesses :
  overflow_consistent_b nwD = true /\ caps_nonneg_b nwD = true /\ overflow_consistent_b nwO1 = true /\ caps_nonneg_b nwO1 = true /\
  overflow_consistent_b nwO = false /\ caps_nonneg_b nwN = false.
Proof. vm_compute. repeat split; reflexivity. Qed.

Print Assumptions nreachable_depot_limits_under_overflow_consistent.
Print Assumptions depot_limits_under_b.
Print Assumptions nreachable_depot_limits_loaded.
Print Assumptions neighbors_nreachable.
Print Assumptions pipeline_nreachable.
Print Assumptions pipeline_depot_limits_under_overflow_consistent.
Print Assumptions pipeline_depot_limits_loaded.
Print Assumptions F1_move_refused.
Print Assumptions nreachable_depot_limits_refuted.
Print Assumptions pipeline_depot_limits_refuted.
Print Assumptions depot_limits_loaded_need_nonneg.
