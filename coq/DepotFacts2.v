(* DepotFacts2.v — proofs for the statements at the end of DepotStmts.v (depot capacities after the repair of F1,
   "fix: a start depot handed to the receiver must have room for it").

   Proved:
     qreachable_depot_limits_under_overflow_consistent :
        forall nw, overflow_consistent nw -> caps_nonneg nw -> stmt_qreachable_depot_limits nw
     qreachable_depot_limits_loaded : stmt_qreachable_depot_limits_loaded        (exactly as stated; its hypothesis on the
        instance is [inst_caps_nonneg i] unfolded)
     start_depot_handover_accepted : non-vacuity, an override_reassign of a segment starting at the provider's start
        depot that succeeds on a loaded network and keeps the limits
   Method: everything of DepotFacts.v is reused; only fit_reassign / override_reassign get new lemmas without the
   hypothesis [is_depot (nd nw (fst seg)) = false]. In [update_tours] (unfolded, NOT peeled) the provider's part only
   lowers counts (its first node is kept by Tour.remove / fit_loop, or the vehicle vanishes); for the receiver
   [udu_cnt] gives UAdd at (idx (first_node ntr), rty), and either the first node is unchanged (ULe) or the new
   capacity check bounds exactly the per-type count and the total at that depot ([DLu_add_checked]); all other counts
   and totals do not rise. *)
From Coq Require Import Sorted.
From RS Require Import SchedPeel Base BaseFacts Network NetSpec NetFacts Tour TourSpec TourStmts TourFacts TourValidFacts.
From RS Require Import Transition TransSpec Schedule SchedInv SchedObs SchedStruct SchedCostsFacts SchedUnservedFacts.
From RS Require Import SchedListFacts SchedToursFacts SchedFormLimFacts SchedUsageFacts SchedTransFacts.
From RS Require Import Swaps SwapsStmts SwapsFacts SwapsStmts2 SwapsFacts2 PipelineSched DepotStmts.
From RS Require Import LoadStmts LoadFacts PipelineSchedFacts DepotFacts.
Local Open Scope Z_scope.

Section Ops2.
Variable nw : network.
Hypothesis WF : net_wf_b nw = true.
Hypothesis DP : durations_pos_b nw = true.
Hypothesis OC : overflow_consistent nw.
Notation d0 := (SD 0).
Notation idx := (get_depot_idx nw).
Notation DL := (DLu nw).
Notation sst := spawned_same_type.

Lemma DLu_add_checked U' U dd ty0 : DL U -> UAdd U' U dd ty0 ->
  sst U' dd ty0 <= capacity_of nw dd ty0 -> spawned_total nw U' dd <= total_capacity_of nw dd -> DL U'.
Proof.
  intros H L C1 C2 d Hd Ho. destruct (H d Hd Ho) as [A B].
  pose proof (total_add nw U' U dd ty0 d L) as T. split.
  - intros ty Hty. specialize (A ty Hty). specialize (L d ty).
    destruct (pair_eqb (d, ty) (dd, ty0)) eqn:E; [|lia].
    apply pair_eqb_eq in E. inversion E; subst. exact C1.
  - destruct (Z.eqb_spec d dd) as [->|N]; [exact C2|lia].
Qed.

Lemma update_tours_dl s forms dids uns p ntp r ntr moved tp trc
    vehicles1 tours2 forms2 usage2 dummies2 ids1 dids1 uns2 costs2 :
  Inv nw s -> TIs nw s -> DLs nw s -> tour_of s p = Ok tp -> tour_of s r = Ok trc ->
  (forall nt, ntp = Some nt -> t_dummy tp = false -> first_node nt = first_node tp) ->
  update_tours nw s (s_vehicles s) (s_tours s) forms (s_usage s) (s_dummies s) (s_ids s) dids uns (s_costs s) p ntp r ntr moved
    = Ok (vehicles1, tours2, forms2, usage2, dummies2, ids1, dids1, uns2, costs2) ->
  DL usage2.
Proof.
  intros I T DLI TOp TOr FP H. unfold update_tours in H.
  monp H. mon H. monp H. mon H. mon H. monp H. inversion H; subst; clear H.
  assert (Q : (forall ty t, vget p vehicles1 = Some ty -> vget p l3 = Some t ->
                 is_vehicle s p = true /\ exists t0, tour_of s p = Ok t0 /\ idx (first_node t0) = idx (first_node t)) /\
              (forall ty, vget r vehicles1 = Some ty -> vget r (s_vehicles s) = Some ty)).
  { destruct ntp as [nt|].
    - monp E. inversion E; subst; clear E. split; [|auto].
      intros ty t Gty Gt. split; [eapply is_vehicle_some; eauto|]. exists tp. split; [exact TOp|].
      destruct (real_tour nw s p ty tp I T Gty TOp) as (_ & D & _).
      match goal with HU : update_tour_and_costs s _ _ _ p nt = Ok _ |- _ =>
        rewrite (utc_real _ _ _ _ _ _ _ _ _ HU (real_not_dummy nw s p ty I Gty)) in Gt end.
      inversion Gt; subst t.
      rewrite (FP nt eq_refl D). reflexivity.
    - mon E. destruct (is_dummy s p) eqn:Dp.
      + mon E. inversion E; subst; clear E. split; [|auto].
        intros ty t Gty _. rewrite (real_not_dummy nw s p ty I Gty) in Dp. discriminate.
      + destruct (is_vehicle s p) eqn:Vp.
        * mon E. mon E. inversion E; subst; clear E. split.
          -- intros ty t Gty _. rewrite vget_vdel, vid_eqb_refl in Gty. discriminate.
          -- intros ty G. rewrite vget_vdel in G. destruct (vid_eqb r p); [discriminate|exact G].
        * inversion E; subst; clear E. split; [|auto].
          intros ty t Gty _. rewrite (is_vehicle_some s p ty Gty) in Vp. discriminate. }
  destruct Q as [Q1 Q2].
  assert (LP : ULe a (s_usage s)) by (eapply udu_same; [exact E0|exact Q1]).
  assert (DLa : DL a) by (eapply DLu_le; [exact LP|exact DLI]).
  clear E E0 Q1 LP.
  pose proof (udu_cnt nw s _ _ _ _ _ E2) as C.
  destruct (vget r vehicles1) as [ty|] eqn:Gv; [|eapply DLu_le; [exact C|exact DLa]].
  specialize (Q2 ty eq_refl). rewrite Q2 in E3.
  destruct (real_tour nw s r ty trc I T Q2 TOr) as (_ & D & Gt0).
  rewrite (utc_real _ _ _ _ _ _ _ _ _ E1 (real_not_dummy nw s r ty I Q2)) in C, E3.
  destruct C as [CA CB]. rewrite Gt0 in E3. cbn [unwrap_opt bind] in E3.
  mon E3. mon E3.
  apply panic_ok in E, E0. apply start_depot_first in E, E0. subst a0 a2.
  destruct (nid_eqb (first_node ntr) (first_node trc)) eqn:NE; cbn [negb] in E3.
  - apply nid_eqb_eq in NE. eapply DLu_le; [|exact DLa].
    apply (CB (is_vehicle_some s r ty Q2) trc TOr). rewrite NE. reflexivity.
  - destruct (Z.ltb_spec (capacity_of nw (idx (first_node ntr)) ty) (sst usage2 (idx (first_node ntr)) ty)) as [L1|L1];
      cbn [orb] in E3; [discriminate E3|].
    destruct (Z.ltb_spec (total_capacity_of nw (idx (first_node ntr))) (spawned_total nw usage2 (idx (first_node ntr)))) as [L2|L2];
      [discriminate E3|].
    eapply DLu_add_checked; [exact DLa|exact CA|exact L1|exact L2].
Qed.

(** ** override_reassign, any segment *)
Lemma override_dl2 s seg p r s' d : Inv nw s -> TIs nw s -> DLs nw s ->
  override_reassign nw s seg p r = Ok (s', d) -> DLs nw s'.
Proof.
  intros I T DLI H. unfold override_reassign in H. destruct (vid_eqb p r) in H; [discriminate|].
  mon H. destruct (negb a) eqn:OK; [discriminate|].
  mon H. mon H. monp H. monp H. monp H.
  apply panic_ok in E0, E1.
  destruct (tour_of_T nw s p a0 I T E0) as (Vp & _ & _).
  assert (LE : DL l3).
  { eapply update_tours_dl; [exact I|exact T|exact DLI|exact E0|exact E1| |exact E4].
    intros nt -> D. eapply remove_first; eauto. }
  monp H. monp H. inversion H; subst; clear H.
  unfold DLs. cbn [with_fields s_usage]. exact LE.
Qed.

(** ** fit_reassign, any segment: only the provider's first node is tracked *)
Lemma fit_loop_prov dp fp :
  forall fuel ntp ntr remaining moved ntp' ntr' moved',
  (forall prov, ntp = Some prov -> TV nw prov /\ t_dummy prov = dp /\ (dp = false -> first_node prov = fp)) ->
  fit_loop nw fuel ntp ntr remaining moved = Ok (ntp', ntr', moved') ->
  (forall prov, ntp' = Some prov -> TV nw prov /\ t_dummy prov = dp /\ (dp = false -> first_node prov = fp)).
Proof.
  induction fuel as [|f IH]; intros ntp ntr remaining moved ntp' ntr' moved' HP H.
  - destruct remaining; cbn in H; [discriminate|]. inversion H; subst. auto.
  - destruct remaining as [rem|]; [|cbn in H; inversion H; subst; auto].
    cbn [fit_loop] in H. destruct rem as [|sstart rest0] eqn:ER; [discriminate|]. rewrite <- ER in *.
    mon H. mon H. monp H.
    apply unwrap_opt_ok in E. destruct (HP a E) as (Va & Dpa & Fa).
    destruct (Tour.remove nw a (sstart, n0)) as [[cand_prov pfi]| | |] eqn:RM; try discriminate H.
    + mon H. destruct a1 as [cf|].
      * eapply IH; eauto.
      * monp H.
        destruct (remove_valid nw _ _ _ _ Va RM) as (i' & j' & _ & _ & _ & _ & _ & VPf & SH).
        eapply IH; [|exact H].
        intros prov ->. destruct SH as (D1 & V1 & _). split; [exact V1|]. split; [congruence|].
        intros Q. rewrite <- (Fa Q). eapply remove_first; eauto; congruence.
    + eapply IH; eauto.
Qed.

Lemma fit_dl2 s seg p r s' : Inv nw s -> TIs nw s -> DLs nw s ->
  fit_reassign nw s seg p r = Ok s' -> DLs nw s'.
Proof.
  intros I T DLI H. unfold fit_reassign in H.
  mon H. destruct (negb a) eqn:OK; [discriminate|].
  mon H. mon H. mon H. monp H. monp H. monp H. inversion H; subst; clear H.
  apply panic_ok in E0, E1.
  destruct (tour_of_T nw s p a0 I T E0) as (Vp & _ & _).
  assert (H1 : forall prov, Some a0 = Some prov -> TV nw prov /\ t_dummy prov = t_dummy a0 /\
                 (t_dummy a0 = false -> first_node prov = first_node a0)).
  { intros prov Q. inversion Q; subst. auto. }
  pose proof (fit_loop_prov _ _ _ _ _ _ _ _ _ _ H1 E3) as HP.
  unfold DLs. cbn [with_fields s_usage].
  eapply update_tours_dl; [exact I|exact T|exact DLI|exact E0|exact E1| |exact E4].
  intros nt -> D. destruct (HP nt eq_refl) as (_ & _ & F). auto.
Qed.

(** ** the induction over [qstep] *)
Lemma qstep_cases s s' : qstep nw s s' -> vstep nw s s' \/ exists trans, s' = set_next_day_transitions s trans.
Proof. destruct 1 as [s s' W|s trans TVd]; [left; apply wstep_vstep; exact W|right; eauto]. Qed.

Lemma qstep_inv s s' : Inv nw s -> qstep nw s s' -> Inv nw s'.
Proof.
  intros I St. destruct (qstep_cases _ _ St) as [V|[trans ->]].
  - eapply SchedCostsFacts.step_inv; [exact I|]. apply vstep_step. exact V.
  - apply Inv_set_next. exact I.
Qed.

Lemma qstep_T s s' : Inv nw s -> TIs nw s -> qstep nw s s' -> TIs nw s'.
Proof.
  intros I T St. destruct (qstep_cases _ _ St) as [V|[trans ->]].
  - eapply vstep_T; eauto.
  - exact T.
Qed.

Lemma wstep_dl s s' : Inv nw s -> TIs nw s -> DLs nw s -> wstep nw s s' -> DLs nw s'.
Proof.
  intros I T D St. destruct St.
  - eapply spawn_dl; eauto.
  - eapply spawn_dummy_dl; eauto.
  - eapply replace_dl; eauto.
  - eapply add_path_dl; eauto.
  - eapply remove_segment_dl; eauto.
  - eapply fit_dl2; eauto.
  - eapply override_dl2; eauto.
  - eapply improve_dl; eauto.
  - eapply greedy_dl; eauto.
  - eapply recompute_dl; eauto.
  - eapply consistent_dl; eauto.
Qed.

Lemma qstep_dl s s' : Inv nw s -> TIs nw s -> DLs nw s -> qstep nw s s' -> DLs nw s'.
Proof.
  intros I T D St. destruct St as [s s' W|s trans TVd].
  - eapply wstep_dl; eauto.
  - exact D.
Qed.

Lemma qreachable_all s : caps_nonneg nw -> qreachable nw s -> Inv nw s /\ TIs nw s /\ DLs nw s.
Proof.
  intros CN R. induction R as [s H|s s' R IH St].
  - split; [apply SchedCostsFacts.empty_inv; exact H|].
    split; [apply SchedToursFacts.empty_T; exact H|apply empty_dl; assumption].
  - destruct IH as (I & T & D). split; [eapply qstep_inv; eauto|]. split; [eapply qstep_T; eauto|eapply qstep_dl; eauto].
Qed.
End Ops2.

Theorem qreachable_depot_limits_under_overflow_consistent : forall nw,
  overflow_consistent nw -> caps_nonneg nw -> stmt_qreachable_depot_limits nw.
Proof.
  intros nw OC CN OK s R. unfold net_ok_b in OK. apply andb_true_iff in OK. destruct OK as [WF DP].
  apply DLs_DepotLimitsOK. apply (qreachable_all nw WF DP OC s CN R).
Qed.

Theorem qreachable_depot_limits_loaded : stmt_qreachable_depot_limits_loaded.
Proof.
  intros i perm nw L IC. apply qreachable_depot_limits_under_overflow_consistent.
  - eapply load_overflow_consistent; eauto.
  - eapply load_caps_nonneg; [exact L|]. exact IC.
Qed.

(** * non-vacuity: a segment that STARTS at the provider's start depot is moved, the receiver takes that depot, and the
      repaired check accepts it because the depot has room. Loaded network [nwO1] (DepotFacts.v: one real depot 0 =
      SD 0 / ED 1 with capacity 1 for type 0, overflow depot 1 = SD 2 / ED 3, trips SV 4 and SV 5 of type 0).
      spawn(0, [SV 4]) -> Veh 0 = [SD 0; SV 4; ED 1]; spawn(0, [SV 5]) -> Veh 1 = [SD 2; SV 5; ED 1] (depot 0 is full);
      override_reassign((SD 0, SV 4), Veh 0, Veh 1) -> Veh 0 vanishes, Veh 1 = [SD 0; SV 4; SV 5; ED 1]:
      usage (0, 0) = [Veh 1], exactly the capacity. *)
Definition sQ0 : schedule := Eval vm_compute in get_ok (empty_schedule nwO1) s_dflt.
Definition sQ1 : schedule := Eval vm_compute in
  match spawn_vehicle_for_path nwO1 sQ0 0 [SV 4] with Ok (s, _) => s | _ => s_dflt end.
Definition sQ2 : schedule := Eval vm_compute in
  match spawn_vehicle_for_path nwO1 sQ1 0 [SV 5] with Ok (s, _) => s | _ => s_dflt end.
Definition sQ3 : schedule := Eval vm_compute in
  match override_reassign nwO1 sQ2 (SD 0, SV 4) (Veh 0) (Veh 1) with Ok (s, _) => s | _ => s_dflt end.
Lemma nwO1_loaded : load instO [] = Ok nwO1.
Proof. vm_compute. reflexivity. Qed.
Lemma nwO1_ok : net_ok_b nwO1 = true.
Proof. vm_compute. reflexivity. Qed.
Lemma sQ0_ok : empty_schedule nwO1 = Ok sQ0.
Proof. vm_compute. reflexivity. Qed.
Lemma sQ1_ok : spawn_vehicle_for_path nwO1 sQ0 0 [SV 4] = Ok (sQ1, Veh 0).
Proof. vm_compute. reflexivity. Qed.
Lemma sQ2_ok : spawn_vehicle_for_path nwO1 sQ1 0 [SV 5] = Ok (sQ2, Veh 1).
Proof. vm_compute. reflexivity. Qed.
Lemma sQ3_ok : override_reassign nwO1 sQ2 (SD 0, SV 4) (Veh 0) (Veh 1) = Ok (sQ3, None).
Proof. vm_compute. reflexivity. Qed.

Lemma sQ3_qreachable : qreachable nwO1 sQ3.
Proof.
  eapply qr_step; [|apply qs_w; eapply ws_override; exact sQ3_ok].
  eapply qr_step; [|apply qs_w; eapply ws_spawn; [|exact sQ2_ok]; apply single_path_valid; vm_compute; reflexivity].
  eapply qr_step; [|apply qs_w; eapply ws_spawn; [|exact sQ1_ok]; apply single_path_valid; vm_compute; reflexivity].
  apply qr_empty. exact sQ0_ok.
Qed.

Example start_depot_handover_accepted :
  is_depot (nd nwO1 (fst (SD 0, SV 4))) = true /\
  option_map first_node (vget (Veh 0) (s_tours sQ2)) = Some (SD 0) /\
  option_map first_node (vget (Veh 1) (s_tours sQ2)) = Some (SD 2) /\
  override_reassign nwO1 sQ2 (SD 0, SV 4) (Veh 0) (Veh 1) = Ok (sQ3, None) /\
  vget (Veh 0) (s_tours sQ3) = None /\
  option_map first_node (vget (Veh 1) (s_tours sQ3)) = Some (SD 0) /\
  get_depot_idx nwO1 (SD 0) = 0 /\ 0 <> overflow_idx nwO1 /\
  spawned_same_type (s_usage sQ3) 0 0 = 1 /\ capacity_of nwO1 0 0 = 1 /\
  spawned_total nwO1 (s_usage sQ3) 0 = 1 /\ total_capacity_of nwO1 0 = 1 /\
  qreachable nwO1 sQ3 /\ DepotLimitsOK nwO1 sQ3.
Proof.
  do 12 (split; [vm_compute; solve [reflexivity | discriminate]|]).
  split; [exact sQ3_qreachable|].
  apply (qreachable_depot_limits_loaded instO [] nwO1 nwO1_loaded); [|exact nwO1_ok|exact sQ3_qreachable].
  intros d Hd. cbn in Hd. destruct Hd as [<-|[]]. cbn [id_cap id_allowed]. split; [lia|].
  intros t c [Q|[]]. discriminate Q.
Qed.

Print Assumptions qreachable_depot_limits_under_overflow_consistent.
Print Assumptions qreachable_depot_limits_loaded.
Print Assumptions start_depot_handover_accepted.
