(* DepotStmts.v — C02/C10, depot capacities. They are NOT an invariant of arbitrary histories (known finding F1:
   override_reassign / fit_reassign of a segment that starts at the provider's start depot hand that depot to the
   receiver unchecked). They are an invariant of the histories the solve pipeline produces: valid Paths, fit only
   between different tours, and moved segments that do not start at a depot ([nreachable]). *)
From RS Require Import Base Network NetSpec Tour TourStmts Transition Schedule SchedInv SchedStruct Swaps SwapsStmts2
  PipelineSched.

Section D.
Variable nw : network.

Inductive nstep : schedule -> schedule -> Prop :=
| ns_spawn s ty path s' v : valid_path nw path -> spawn_vehicle_for_path nw s ty path = Ok (s', v) -> nstep s s'
| ns_spawn_dummy s d ty s' v : spawn_to_replace_dummy nw s d ty = Ok (s', v) -> nstep s s'
| ns_delete s v s' : replace_vehicle_by_dummy nw s v = Ok s' -> nstep s s'
| ns_add_path s v path s' c : valid_path nw path -> add_path_to_vehicle_tour nw s v path = Ok (s', c) -> nstep s s'
| ns_remove_segment s seg v s' : remove_segment nw s seg v = Ok s' -> nstep s s'
| ns_fit s seg p r s' : p <> r -> is_depot (nd nw (fst seg)) = false -> fit_reassign nw s seg p r = Ok s' -> nstep s s'
| ns_override s seg p r s' d : is_depot (nd nw (fst seg)) = false -> override_reassign nw s seg p r = Ok (s', d) -> nstep s s'
| ns_improve s vs s' : improve_depots nw s vs = Ok s' -> nstep s s'
| ns_greedy s s' : reassign_end_depots_greedily nw s = Ok s' -> nstep s s'
| ns_recompute s ts s' : recompute_transitions_for nw s ts = Ok s' -> nstep s s'
| ns_consistent s s' : reassign_end_depots_consistent nw s = Ok s' -> nstep s s'
| ns_set_trans s trans : trans_valid nw s trans -> nstep s (set_next_day_transitions s trans).
Inductive nreachable : schedule -> Prop :=
| nr_empty s : empty_schedule nw = Ok s -> nreachable s
| nr_step s s' : nreachable s -> nstep s s' -> nreachable s'.

(* per-type and total capacity of every real depot; the overflow depot is exempt *)
Definition overflow_idx : Z := let '(od, _, _) := nw_overflow nw in od.
Definition DepotLimitsOK (s : schedule) : Prop :=
  forall d, In d (map fst (nw_depots nw)) -> d <> overflow_idx ->
    (forall ty, In ty (type_ids nw) -> spawned_same_type (s_usage s) d ty <= capacity_of nw d ty) /\
    spawned_total nw (s_usage s) d <= total_capacity_of nw d.

Definition stmt_nreachable_depot_limits : Prop :=
  net_ok_b nw = true -> forall s, nreachable s -> DepotLimitsOK s.

(* the neighbourhood and the pipeline stay inside these histories *)
Definition stmt_neighbors_nreachable : Prop :=
  net_ok_b nw = true -> maint_listed_ok nw ->
  forall s l, nreachable s -> neighbors nw s = Ok l -> forall c s', In (c, s') l -> nreachable s'.
Definition stmt_pipeline_nreachable : Prop :=
  net_ok_b nw = true -> maint_listed_ok nw ->
  forall tours final, tours_are_paths nw tours -> pipeline_result nw tours final -> nreachable final.
Definition stmt_pipeline_depot_limits : Prop :=
  net_ok_b nw = true -> maint_listed_ok nw ->
  forall tours final, tours_are_paths nw tours -> pipeline_result nw tours final -> DepotLimitsOK final.

End D.

(** ** after the repair of F1 ("fix: a start depot handed to the receiver must have room for it") the restriction on
    the moved segment is no longer needed: depot capacities are an invariant of all histories with valid Paths and fit
    between different tours (plus set_next_day_transitions) *)
Section D2.
Variable nw : network.
Inductive qstep : schedule -> schedule -> Prop :=
| qs_w s s' : wstep nw s s' -> qstep s s'
| qs_set_trans s trans : trans_valid nw s trans -> qstep s (set_next_day_transitions s trans).
Inductive qreachable : schedule -> Prop :=
| qr_empty s : empty_schedule nw = Ok s -> qreachable s
| qr_step s s' : qreachable s -> qstep s s' -> qreachable s'.
Definition stmt_qreachable_depot_limits : Prop :=
  net_ok_b nw = true -> forall s, qreachable s -> DepotLimitsOK nw s.
End D2.
Definition stmt_qreachable_depot_limits_loaded : Prop :=
  forall i perm nw, load i perm = Ok nw ->
    (forall d, In d (match i_depots i with Some l => l | None => [] end) ->
       0 <= id_cap d /\ forall t c, In (t, Some c) (id_allowed d) -> 0 <= c) ->
    stmt_qreachable_depot_limits nw.
