(* EndToEndChecked.v — the end-to-end theorem with the hypotheses in the executable form the driver evaluates on every
   pipeline run (Hyps.v). *)
From RS Require Import Base Network NetSpec LoadStmts LoadFacts Tour TourStmts SchedObs Output Schedule PipelineSched
  Render EndToEndStmts EndToEndFacts Hyps.

Theorem end_to_end_checked :
  forall i perm nw,
    valid_instance_b i = true -> inst_unsigned_b i = true -> perm_ok i perm -> load i perm = Ok nw ->
    forall tours final, tours_ok_b nw tours = true -> pipeline_result nw tours final ->
      exists out, render nw final = Ok out /\
        check_C01 nw out = [] /\ check_C02 nw out = [] /\ check_C03 nw out = [] /\
        check_C04 nw out = [] /\ check_C05 nw out = [].
Proof.
  intros i perm nw V U PO LD tours final TK PR.
  destruct (tours_ok_b_sound nw tours TK) as [TP TKn].
  exact (end_to_end_perm_ok i perm nw V (inst_unsigned_b_sound i U) PO LD tours final TP TKn PR).
Qed.
Print Assumptions end_to_end_checked.
