(* EndToEndFacts.v — proofs of EndToEndStmts.v: the JSON rendered from every result of the modelled pipeline over a
   network loaded from a valid instance passes the output checkers C01-C05.

     render_C02_depots : stmt_render_C02_depots      (clause 203 from DepotLimitsOK + UsageOK)
     end_to_end        : stmt_end_to_end             (exactly as stated)

   New ingredients (everything else is composition of PipelineSchedFacts, DepotFacts, SchedFormsFacts, SchedTransFacts,
   SchedExactFacts, RenderFacts1/3/4):
     - [depot_lists]: the depot listings of a loaded network are exactly the depot nodes of its node table;
     - [FK]: "every stored real tour starts at a listed start depot", an invariant of the pipeline's histories
       (nreachable histories whose Path arguments do not start at an unknown id);
     - the capped dead-head matrix of a loaded network holds finite distances;
     - FormsOK / ToursExact / TransOK for the pipeline's result (which is not vreachable because of the
       set_next_day_transitions step). *)
From Coq Require Import Sorted Permutation.
From RS Require Import Base BaseFacts Network NetSpec NetFacts LoadStmts LoadFacts Tour TourSpec TourStmts TourFacts
  TourValidFacts TourExactStmts TourExactFacts SchedObs Output Transition TransSpec Schedule SchedInv SchedStruct.
From RS Require Import SchedCostsFacts SchedUnservedFacts SchedViolFacts SchedListFacts SchedToursFacts SchedFormLimFacts
  SchedUsageFacts SchedFrameStmts SchedFrameFacts SchedFormsFacts SchedTransFacts SchedExactFacts.
From RS Require Import Swaps SwapsStmts SwapsFacts SwapsStmts2 SwapsFacts2 PipelineSched PipelineSchedFacts
  DepotStmts DepotFacts Render RenderStmts RenderFacts1 RenderFacts3 RenderFacts4 CoverFacts EndToEndStmts.
Local Open Scope Z_scope.

(** * 1. bridges between the hypotheses of the statement and those of the building blocks *)
Lemma unsigned_limits_b i : inst_unsigned i -> RenderFacts1.inst_limits_nonneg_b i = true.
Proof.
  intros (HT & HR & _). unfold RenderFacts1.inst_limits_nonneg_b. apply andb_true_iff. split.
  - apply forallb_forall. intros vt Hvt. destruct (vt_limit vt) as [l|] eqn:E; [|reflexivity].
    apply Z.leb_le. eapply HT; eauto.
  - apply forallb_forall. intros r Hr. apply forallb_forall. intros g Hg.
    destruct (rs_limit g) as [l|] eqn:E; [|reflexivity]. apply Z.leb_le. eapply HR; eauto.
Qed.

Lemma unsigned_caps i : inst_unsigned i -> inst_caps_nonneg i.
Proof. intros (_ & _ & HD). exact HD. Qed.

Lemma length_perm_ok i perm : length perm = i_nlocs i -> perm_ok i perm.
Proof. intros E _. rewrite E. apply le_n. Qed.

(** * 2. loaded networks: finite dead-head distances, depot listings = depot nodes of the node table *)
Lemma capped_dh_finite i p0 : forallb (fun row => forallb (fun '(d, _) => match d with Dist _ => true | DistInf => false end) row)
                                 (capped_dh i p0) = true.
Proof.
  unfold capped_dh. apply forallb_forall. intros row Hrow. apply in_map_iff in Hrow.
  destruct Hrow as ([drow trow] & <- & _). apply forallb_forall. intros [d t] Hx.
  apply in_map_iff in Hx. destruct Hx as ([dm ts] & Q & _). inversion Q; subst. reflexivity.
Qed.

Theorem load_dh_finite : forall i perm nw, load i perm = Ok nw -> dh_dists_finite_b nw = true.
Proof.
  intros i perm nw H. rewrite load_eq in H.
  destruct (time_span i) as [[e0 l0]| | |]; cbn [bind] in H; try discriminate H.
  destruct (planning_of e0 l0) as [p0| | |]; cbn [bind] in H; try discriminate H.
  destruct (all_trips i) as [trips| | |]; cbn [bind] in H; try discriminate H.
  destruct (planning_of _ _) as [p1| | |]; cbn [bind] in H; try discriminate H.
  inversion H; subst nw; clear H. unfold dh_dists_finite_b. cbn [nw_dh Lnet]. apply capped_dh_finite.
Qed.

(* the depot listings and the node table agree *)
Record depot_lists (nw : network) : Prop := {
  dl_s_known : forall n, In n (nw_sdepots nw) -> has_node nw n = true;
  dl_s_listed : forall n, has_node nw n = true -> is_start_depot (nd nw n) = true -> In n (nw_sdepots nw);
  dl_e_listed : forall n, has_node nw n = true -> is_end_depot (nd nw n) = true -> In n (nw_edepots nw);
  dl_overflow : In (let '(_, os, _) := nw_overflow nw in os) (nw_sdepots nw) }.

Lemma has_node_in nw n : has_node nw n = true -> In (n, nd nw n) (nw_nodes nw).
Proof.
  unfold has_node, nd. destruct (assoc nid_eqb n (nw_nodes nw)) as [x|] eqn:A; [|discriminate].
  intros _. apply (assoc_in nid_eqb nid_eqb_eq). exact A.
Qed.

Lemma in_has_node nw n x : In (n, x) (nw_nodes nw) -> has_node nw n = true.
Proof.
  intros H. unfold has_node. destruct (assoc nid_eqb n (nw_nodes nw)) as [y|] eqn:A; [reflexivity|].
  exfalso. induction (nw_nodes nw) as [|[k y] l IH]; [destruct H|].
  cbn [assoc] in A. destruct (nid_eqb n k) eqn:Q; [discriminate|].
  destruct H as [H|H]; [inversion H; subst; rewrite (proj2 (nid_eqb_eq n n) eq_refl) in Q; discriminate|auto].
Qed.

Lemma Ldentries_cases i perm trips n x : In (n, x) (Ldentries i perm trips) ->
  exists d s en, In (d, s, en) (Ldnodes i perm trips) /\
    ((n = s /\ x = NStart {| dn_depot := dp_idx d; dn_loc := dp_loc d |}) \/
     (n = en /\ x = NEnd {| dn_depot := dp_idx d; dn_loc := dp_loc d |})).
Proof.
  unfold Ldentries. intros H. apply in_flat_map in H. destruct H as ([[d s] en] & Hd & H).
  exists d, s, en. split; [exact Hd|]. unfold Ldentry_of in H. destruct H as [H|[H|[]]]; inversion H; subst; auto.
Qed.

Theorem load_depot_lists : forall i perm nw, load i perm = Ok nw -> depot_lists nw.
Proof.
  intros i perm nw H. rewrite load_eq in H.
  destruct (time_span i) as [[e0 l0]| | |]; cbn [bind] in H; try discriminate H.
  destruct (planning_of e0 l0) as [p0| | |]; cbn [bind] in H; try discriminate H.
  destruct (all_trips i) as [trips| | |]; cbn [bind] in H; try discriminate H.
  destruct (planning_of _ _) as [p1| | |]; cbn [bind] in H; try discriminate H.
  inversion H; subst nw; clear H.
  assert (DE : forall n x, In (n, x) (Lnodes i perm trips) -> (is_start_depot x = true \/ is_end_depot x = true) ->
                 In (n, x) (Ldentries i perm trips)).
  { intros n x Hin Hx. unfold Lnodes in Hin. apply in_app_or in Hin. destruct Hin as [Hin|Hin]; [exact Hin|].
    exfalso. apply in_app_or in Hin. destruct Hin as [Hin|Hin].
    - apply Lsvc_entries_in in Hin. destruct Hin as (sv & -> & _). destruct Hx; discriminate.
    - apply Lm_entries_in in Hin. destruct Hin as (sl & -> & _). destruct Hx; discriminate. }
  constructor; cbn [nw_sdepots nw_edepots nw_overflow Lnet].
  - intros n Hn. unfold Lsrt in Hn. apply sort_by_in in Hn. unfold Lsdeps in Hn. apply in_map_iff in Hn.
    destruct Hn as ([[d s] en] & <- & Hd).
    apply (in_has_node _ s (NStart {| dn_depot := dp_idx d; dn_loc := dp_loc d |})). cbn [nw_nodes Lnet].
    unfold Lnodes. apply in_or_app. left. unfold Ldentries. apply in_flat_map. exists (d, s, en). split; [exact Hd|].
    left. reflexivity.
  - intros n Hn Sn. apply has_node_in in Hn. cbn [nw_nodes Lnet] in Hn.
    apply DE in Hn; [|left; exact Sn]. apply Ldentries_cases in Hn.
    destruct Hn as (d & s & en & Hd & [[-> Q]|[_ Q]]); [|rewrite Q in Sn; discriminate Sn].
    unfold Lsrt. apply sort_by_in. unfold Lsdeps. apply in_map_iff. exists (d, s, en). split; [reflexivity|exact Hd].
  - intros n Hn En. apply has_node_in in Hn. cbn [nw_nodes Lnet] in Hn.
    apply DE in Hn; [|right; exact En]. apply Ldentries_cases in Hn.
    destruct Hn as (d & s & en & Hd & [[_ Q]|[-> Q]]); [rewrite Q in En; discriminate En|].
    unfold Lsrt. apply sort_by_in. unfold Ledeps. apply in_map_iff. exists (d, s, en). split; [reflexivity|exact Hd].
  - unfold Lsrt. apply sort_by_in. rewrite Lsdeps_eq. apply in_map_iff.
    exists (length (Ldepots0 i perm trips)). split; [reflexivity|].
    apply in_seq. unfold Ldepots. rewrite app_length. cbn [length]. lia.
Qed.

(** * 3. every stored real tour starts at a listed start depot: per operation *)
Section FirstKnown.
Variable nw : network.
Hypothesis WF : net_wf_b nw = true.
Hypothesis DP : durations_pos_b nw = true.
Hypothesis DLI : depot_lists nw.
Notation d0 := (SD 0).
Notation dep := (node_is_depot nw).
Notation SDL := (nw_sdepots nw).

Definition FKm (tours : list (vehicle_id * tour)) : Prop :=
  forall v t, vget v tours = Some t -> In (first_node t) SDL.
Definition FKs (s : schedule) : Prop := FKm (s_tours s).

Lemma FKm_vset tours v nt : FKm tours -> In (first_node nt) SDL -> FKm (vset v nt tours).
Proof.
  intros F K x t G. rewrite vget_vset in G. destruct (vid_eqb x v); [inversion G; subst; exact K|eapply F; eauto].
Qed.

Lemma FKm_vdel tours v : FKm tours -> FKm (vdel v tours).
Proof. intros F x t G. rewrite vget_vdel in G. destruct (vid_eqb x v); [discriminate|eapply F; eauto]. Qed.

Lemma unknown_sdep n : has_node nw n = false -> sdep nw n = true.
Proof.
  unfold has_node, sdep, nd. destruct (assoc nid_eqb n (nw_nodes nw)); [discriminate|]. reflexivity.
Qed.

Lemma edep_known n : edep nw n = true -> has_node nw n = true.
Proof.
  intros E. destruct (has_node nw n) eqn:H; [reflexivity|]. apply unknown_sdep in H.
  rewrite (sdep_not_edep nw n H) in E. discriminate.
Qed.

Lemma nondep_known n : dep n = false -> has_node nw n = true.
Proof.
  intros D. destruct (has_node nw n) eqn:H; [reflexivity|]. apply unknown_sdep in H.
  rewrite (dep_split nw n), H in D. discriminate.
Qed.

Lemma find_best_listed u ty f d : find_best_start_depot nw u ty f = Ok d -> In d SDL.
Proof.
  unfold find_best_start_depot. intros H. apply unwrap_opt_ok in H. apply find_some in H. destruct H as [H _].
  unfold start_depots_sorted_by_distance_to in H. apply sort_by_in in H. exact H.
Qed.

(* a Path argument is admissible if it does not start with an unknown id *)
Definition head_ok (p : list node_id) : Prop := dep (hd d0 p) = true -> In (hd d0 p) SDL.

Lemma head_ok_nondep p : dep (hd d0 p) = false -> head_ok p.
Proof. intros D Q. congruence. Qed.

Lemma add_suitable_hd s ty path nodes : head_ok path -> add_suitable_depots nw s ty path = Ok nodes ->
  (3 <= length nodes)%nat -> In (hd d0 nodes) SDL.
Proof.
  intros HK. unfold add_suitable_depots. pose proof (dl_overflow nw DLI) as OV.
  destruct path as [|first rest]; [discriminate|].
  destruct (nw_overflow nw) as [[od os] oe]. cbn [hd] in HK. unfold head_ok in HK. cbn [hd] in HK.
  change (node_is_depot nw first) with (is_depot (nd nw first)) in HK.
  destruct (is_depot (nd nw first)) eqn:D; cbn [andb].
  - destruct (can_depot_spawn nw (s_usage s) first ty) eqn:CS; cbn [negb].
    + intros H _. cbn [bind] in H.
      destruct (is_depot (nd nw (last (first :: rest) first))).
      * inversion H; subst. cbn [hd]. auto.
      * mon H. inversion H; subst. cbn [hd app]. auto.
    + intros H L. inversion H; subst nodes; clear H. cbn [tl] in L |- *.
      destruct rest as [|b r].
      * exfalso. revert L. match goal with |- context [if ?c then _ else _] => destruct c end; cbn; lia.
      * match goal with |- context [if ?c then _ else _] => destruct c end; [|exact OV].
        change (removelast (os :: b :: r)) with (os :: removelast (b :: r)). exact OV.
  - intros H _. cbn [bind] in H. mon H. mon E. inversion E; subst a; clear E.
    apply (DepotFacts.find_best_res_iff nw) in E0. apply find_best_listed in E0.
    destruct (is_depot (nd nw (last (first :: rest) first))).
    + inversion H; subst. exact E0.
    + mon H. inversion H; subst. exact E0.
Qed.

Lemma spawn_FKs s ty path s' v : FKs s -> head_ok path -> spawn_vehicle_for_path nw s ty path = Ok (s', v) -> FKs s'.
Proof.
  intros F HK H. unfold spawn_vehicle_for_path in H.
  destruct (negb _) in H; [discriminate|].
  mon H. mon H. mon H. monp H. mon H. monp H. inversion H; subst; clear H.
  unfold FKs. cbn [with_fields s_tours]. apply FKm_vset; [exact F|].
  rewrite first_node_hd, (tour_new_nodes _ _ _ E0). eapply add_suitable_hd; eauto.
  unfold tour_new in E0. destruct a; [discriminate|]. destruct (valid_tour_nodes nw (n :: a)) eqn:V; [|discriminate].
  apply valid_tour_nodes_RV in V. now apply RV_length in V.
Qed.

Lemma delete_dummy_tours s d s' : delete_dummy s d = Ok s' -> s_tours s' = s_tours s.
Proof.
  intros H. unfold delete_dummy in H. destruct (negb _) in H; [discriminate|].
  mon H. inversion H; subst. reflexivity.
Qed.

Lemma spawn_dummy_FKs s d ty s' v : Inv nw s -> TIs nw s -> FKs s -> spawn_to_replace_dummy nw s d ty = Ok (s', v) -> FKs s'.
Proof.
  intros I [_ TD] F H. unfold spawn_to_replace_dummy in H. mon H. mon H.
  eapply spawn_FKs; [|     |exact H].
  - unfold FKs. rewrite (delete_dummy_tours _ _ _ E0). exact F.
  - unfold spawn_vehicle_to_replace_dummy_tour in E. destruct (vget d (s_dummies s)) as [t|] eqn:G; [|discriminate E].
    destruct (negb _) in E; [discriminate|]. inversion E; subst a; clear E.
    destruct (TD d t G) as (_ & NE & _ & ND). apply head_ok_nondep. apply ND.
    destruct (t_nodes t); [congruence|now left].
Qed.

Lemma replace_FKs s v s' : FKs s -> replace_vehicle_by_dummy nw s v = Ok s' -> FKs s'.
Proof.
  intros F H. unfold replace_vehicle_by_dummy in H.
  destruct (negb _) in H; [discriminate|].
  mon H. mon H. mon H. monp H. mon H. mon H. mon H.
  match type of H with (match ?m with pair _ _ => _ end) = _ => destruct m as [[? ?] ?] end.
  monp H. inversion H; subst; clear H.
  unfold FKs. cbn [with_fields s_tours]. apply FKm_vdel. exact F.
Qed.

Lemma add_path_FKs s v path s' c : Inv nw s -> TIs nw s -> valid_path nw path -> head_ok path -> FKs s ->
  add_path_to_vehicle_tour nw s v path = Ok (s', c) -> FKs s'.
Proof.
  intros I T VP HK F H. unfold add_path_to_vehicle_tour in H.
  destruct path as [|pf path'] eqn:EP; [discriminate|]. rewrite <- EP in *.
  match type of H with (if ?b then _ else _) = _ => destruct b eqn:CK; [discriminate|] end.
  mon H. mon H. monp H. mon H. monp H. monp H. mon H. mon H. monp H. inversion H; subst s' c; clear H.
  apply unwrap_opt_ok in E0, E2.
  unfold FKs. cbn [with_fields s_tours]. apply FKm_vset; [exact F|].
  assert (TO : tour_of s v = Ok a1) by (unfold tour_of; rewrite E2; reflexivity).
  destruct (real_tour nw s v a0 a1 I T E0 TO) as (V & D & _).
  rewrite (insert_first nw WF DP a1 path t o V D VP E3).
  destruct (dep (hd d0 path)) eqn:Q; [apply HK; exact Q|]. eapply F; eauto.
Qed.

Lemma remove_segment_FKs s seg v s' : Inv nw s -> TIs nw s -> FKs s -> remove_segment nw s seg v = Ok s' -> FKs s'.
Proof.
  intros I T F H. unfold remove_segment in H.
  destruct (negb (is_vehicle s v)) eqn:IV; [discriminate|]. apply negb_false_iff in IV.
  mon H. monp H. destruct o as [nt|]; [|eapply replace_FKs; eauto].
  monp H. monp H. mon H.
  match type of H with (match ?m with pair _ _ => _ end) = _ => destruct m as [[? ?] ?] end.
  monp H. inversion H; subst; clear H.
  unfold FKs. cbn [with_fields s_tours]. apply panic_ok in E.
  unfold is_vehicle in IV. destruct (vget v (s_vehicles s)) as [ty|] eqn:Gty; [|discriminate IV].
  destruct (real_tour nw s v ty a I T Gty E) as (V & D & G).
  destruct (utc_shape _ _ _ _ _ _ _ _ _ E2) as [-> _].
  rewrite (DepotFacts.real_not_dummy nw s v ty I Gty).
  apply FKm_vset; [exact F|]. rewrite (remove_first nw a seg nt l V D E0). eapply F; eauto.
Qed.

(* update_tours: the provider's and the receiver's new tours start where the old ones did *)
Lemma update_tours_FKm s forms usage dids uns p ntp r ntr moved tp trc
    vehicles1 tours2 forms2 usage2 dummies2 ids1 dids1 uns2 costs2 :
  Inv nw s -> TIs nw s -> FKs s -> tour_of s p = Ok tp -> tour_of s r = Ok trc ->
  (forall nt, ntp = Some nt -> t_dummy tp = false -> first_node nt = first_node tp) ->
  (t_dummy trc = false -> first_node ntr = first_node trc) ->
  update_tours nw s (s_vehicles s) (s_tours s) forms usage (s_dummies s) (s_ids s) dids uns (s_costs s) p ntp r ntr moved
    = Ok (vehicles1, tours2, forms2, usage2, dummies2, ids1, dids1, uns2, costs2) ->
  FKm tours2.
Proof.
  intros I T F TOp TOr FP FR H.
  destruct (update_tours_shape nw _ _ _ _ _ _ _ _ _ _ _ _ _ _ _ _ _ _ _ _ _ _ _ _ H) as (_ & _ & -> & _).
  assert (F1 : FKm (tours1_of s p ntp (s_tours s))).
  { unfold tours1_of. destruct (is_dummy s p) eqn:Dp; [exact F|].
    destruct ntp as [nt|].
    - apply FKm_vset; [exact F|].
      destruct (tour_of_T nw s p tp I T TOp) as (_ & _ & F2). destruct (F2 Dp) as (G & ty & _ & (D & _)).
      rewrite (FP nt eq_refl D). eapply F; eauto.
    - destruct (is_vehicle s p); [apply FKm_vdel|]; exact F. }
  destruct (is_dummy s r) eqn:Dr; [exact F1|].
  apply FKm_vset; [exact F1|].
  destruct (tour_of_T nw s r trc I T TOr) as (_ & _ & F2). destruct (F2 Dr) as (G & ty & _ & (D & _)).
  rewrite (FR D). eapply F; eauto.
Qed.

Lemma override_FKs s seg p r s' d : Inv nw s -> TIs nw s -> FKs s -> is_depot (nd nw (fst seg)) = false ->
  override_reassign nw s seg p r = Ok (s', d) -> FKs s'.
Proof.
  intros I T F ND H. unfold override_reassign in H. destruct (vid_eqb p r) in H; [discriminate|].
  mon H. destruct (negb a) eqn:OK; [discriminate|].
  mon H. mon H. monp H. monp H. monp H.
  apply panic_ok in E0, E1.
  destruct (tour_of_T nw s p a0 I T E0) as (Vp & _ & _). destruct (tour_of_T nw s r a1 I T E1) as (Vr & _ & _).
  destruct (remove_valid nw _ _ _ _ Vp E2) as (i & j & _ & _ & _ & _ & _ & VP & _).
  pose proof (remove_path_hd nw _ _ _ _ Vp E2) as HD.
  assert (LE : FKm l6).
  { eapply update_tours_FKm; [exact I|exact T|exact F|exact E0|exact E1| | |exact E4].
    - intros nt -> D. eapply remove_first; eauto.
    - intros D. eapply (insert_first_same nw WF DP); eauto. rewrite HD. apply nondep_not_sdep. exact ND. }
  monp H. monp H. inversion H; subst; clear H.
  unfold FKs. cbn [with_fields s_tours]. exact LE.
Qed.

Lemma fit_FKs s seg p r s' : Inv nw s -> TIs nw s -> FKs s -> is_depot (nd nw (fst seg)) = false ->
  fit_reassign nw s seg p r = Ok s' -> FKs s'.
Proof.
  intros I T F ND H. unfold fit_reassign in H.
  mon H. destruct (negb a) eqn:OK; [discriminate|].
  mon H. mon H. mon H. monp H. monp H. monp H. inversion H; subst; clear H.
  apply panic_ok in E0, E1.
  destruct (tour_of_T nw s p a0 I T E0) as (Vp & _ & _). destruct (tour_of_T nw s r a1 I T E1) as (Vr & _ & _).
  destruct (sub_path_valid nw _ _ _ (TV_connected nw _ Vp) E2) as [(_ & CP & _) _].
  pose proof (sub_path_hd nw _ _ _ E2) as HD.
  assert (HS : sdep nw (hd d0 a2) = false) by (rewrite HD; apply nondep_not_sdep; exact ND).
  assert (H1 : forall prov, Some a0 = Some prov -> TV nw prov /\ t_dummy prov = t_dummy a0 /\
                 (t_dummy a0 = false -> first_node prov = first_node a0)).
  { intros prov Q. inversion Q; subst. auto. }
  assert (H2 : TV nw a1 /\ t_dummy a1 = t_dummy a1 /\ (t_dummy a1 = false -> first_node a1 = first_node a1)) by auto.
  assert (H3 : forall rem, Some a2 = Some rem -> connected nw rem /\ sdep nw (hd d0 rem) = false).
  { intros rem Q. inversion Q; subst. auto. }
  destruct (fit_loop_first nw WF DP _ _ _ _ _ _ _ _ _ _ _ _ H1 H2 H3 E3) as (HP & _ & _ & FR).
  unfold FKs. cbn [with_fields s_tours].
  eapply update_tours_FKm; [exact I|exact T|exact F|exact E0|exact E1| | |exact E4].
  - intros nt -> D. destruct (HP nt eq_refl) as (_ & _ & FF). auto.
  - exact FR.
Qed.
End FirstKnown.

Section FirstKnown2.
Variable nw : network.
Hypothesis WF : net_wf_b nw = true.
Hypothesis DP : durations_pos_b nw = true.
Hypothesis DLI : depot_lists nw.
Notation d0 := (SD 0).
Notation SDL := (nw_sdepots nw).

Ltac strict_tac3 :=
  let r := fresh "r" in let v := fresh "v" in let x := fresh "x" in let H := fresh "H" in
  intros r v x H; destruct r; cbn [bind] in H; try discriminate H; eauto.

Lemma improve_FKs s vs s' : FKs nw s -> improve_depots nw s vs = Ok s' -> FKs nw s'.
Proof.
  intros F H. unfold improve_depots in H. cbv zeta in H.
  mon H. monp H. monp H. inversion H; subst; clear H.
  unfold FKs. cbn [with_fields s_tours].
  eapply (fold_res_inv _ (fun x : list (vehicle_id * tour) * list (Z * Z * (list vehicle_id * list vehicle_id)) * Z =>
                            FKm nw (fst (fst x)))) in E0.
  - exact E0.
  - strict_tac3.
  - intros [[tours u] costs] v x HQ H. cbn [bind fst snd] in *.
    mon H. mon H. mon H. mon H. inversion H; subst; clear H. cbn [fst snd].
    destruct (improve_tour_first _ _ _ _ _ E4) as (fnd & FB). apply find_best_listed in FB.
    apply FKm_vset; assumption.
  - cbn [fst]. exact F.
Qed.

Lemma consistent_FKs s s' : Inv nw s -> TIs nw s -> FKs nw s -> reassign_end_depots_consistent nw s = Ok s' -> FKs nw s'.
Proof.
  intros I T F H. unfold reassign_end_depots_consistent in H.
  monp H. monp H. inversion H; subst; clear H.
  unfold FKs. cbn [with_fields s_tours].
  eapply (fold_res_inv _ (fun x : list (vehicle_id * tour) * list (Z * Z * (list vehicle_id * list vehicle_id)) * Z =>
                            FKm nw (fst (fst x)))) in E.
  - exact E.
  - strict_tac3.
  - intros [[tours u] costs] v x HQ H. cbn [bind fst snd] in *.
    mon H. mon H. mon H. mon H. mon H. mon H. mon H. mon H. mon H. inversion H; subst; clear H. cbn [fst snd].
    apply panic_ok in E1, E7.
    apply FKm_vset; [exact HQ|]. rewrite (replace_end_first _ _ _ _ E7).
    destruct (tour_of_nondummy nw s v a I T E1 (replace_end_nondummy nw _ _ _ E7)) as [G _].
    eapply F; eauto.
  - cbn [fst]. exact F.
Qed.

Lemma recompute_FKs s ts s' : FKs nw s -> recompute_transitions_for nw s ts = Ok s' -> FKs nw s'.
Proof.
  intros F H. unfold recompute_transitions_for in H. monp H. inversion H; subst; clear H. exact F.
Qed.
End FirstKnown2.

(** * 4. the pipeline's histories keep the invariant *)
Section KClosure.
Variable nw : network.
Hypothesis WF : net_wf_b nw = true.
Hypothesis DP : durations_pos_b nw = true.
Hypothesis ML : maint_listed_ok nw.
Hypothesis DLI : depot_lists nw.
Notation d0 := (SD 0).
Notation dep := (node_is_depot nw).
Notation SDL := (nw_sdepots nw).

Definition KR (s : schedule) : Prop := nreachable nw s /\ FKs nw s.

Lemma KR_NS s : KR s -> NS nw s.
Proof. intros [R _]. apply nreach_NS; assumption. Qed.

Lemma KR_override s seg p r s' d : KR s -> is_depot (nd nw (fst seg)) = false ->
  override_reassign nw s seg p r = Ok (s', d) -> KR s'.
Proof.
  intros K N H. destruct (KR_NS s K) as [I T _ _]. destruct K as [R F]. split.
  - eapply nreach_override; eauto.
  - eapply override_FKs; eauto.
Qed.
Lemma KR_fit s seg p r s' : KR s -> p <> r -> is_depot (nd nw (fst seg)) = false ->
  fit_reassign nw s seg p r = Ok s' -> KR s'.
Proof.
  intros K Q N H. destruct (KR_NS s K) as [I T _ _]. destruct K as [R F]. split.
  - eapply nreach_fit; eauto.
  - eapply fit_FKs; eauto.
Qed.
Lemma KR_spawn_dummy s d ty s' v : KR s -> spawn_to_replace_dummy nw s d ty = Ok (s', v) -> KR s'.
Proof.
  intros K H. destruct (KR_NS s K) as [I T _ _]. destruct K as [R F]. split.
  - eapply nreach_spawn_dummy; eauto.
  - eapply spawn_dummy_FKs; eauto.
Qed.
Lemma KR_spawn s ty path s' v : KR s -> valid_path nw path -> head_ok nw path ->
  spawn_vehicle_for_path nw s ty path = Ok (s', v) -> KR s'.
Proof.
  intros [R F] V HK H. split.
  - eapply nreach_spawn; eauto.
  - eapply spawn_FKs; eauto.
Qed.
Lemma KR_remove_segment s seg v s' : KR s -> remove_segment nw s seg v = Ok s' -> KR s'.
Proof.
  intros K H. destruct (KR_NS s K) as [I T _ _]. destruct K as [R F]. split.
  - eapply nreach_remove_segment; eauto.
  - eapply remove_segment_FKs; eauto.
Qed.
Lemma KR_add_path s v path s' c : KR s -> valid_path nw path -> head_ok nw path ->
  add_path_to_vehicle_tour nw s v path = Ok (s', c) -> KR s'.
Proof.
  intros K V HK H. destruct (KR_NS s K) as [I T _ _]. destruct K as [R F]. split.
  - eapply nreach_add_path; eauto.
  - eapply add_path_FKs; eauto.
Qed.
Lemma KR_improve s vs s' : KR s -> improve_depots nw s vs = Ok s' -> KR s'.
Proof.
  intros [R F] H. split.
  - eapply nreach_improve; eauto.
  - eapply improve_FKs; eauto.
Qed.
Lemma KR_recompute s ts s' : KR s -> recompute_transitions_for nw s ts = Ok s' -> KR s'.
Proof.
  intros [R F] H. split.
  - eapply nreach_recompute; eauto.
  - eapply recompute_FKs; eauto.
Qed.

Lemma improve_and_recompute_KR s ch s' :
  KR s -> match improve_and_recompute nw s ch with Err => Panic | x => x end = Ok s' -> KR s'.
Proof.
  intros R H. destruct (improve_and_recompute nw s ch) eqn:E; try discriminate H.
  inversion H; subst. unfold improve_and_recompute in E. mon E. mon E. mon E.
  eapply KR_recompute; [|exact E]. eapply KR_improve; [exact R|eassumption].
Qed.

(* the conflict path handed back by add_path_to_vehicle_tour consists of nodes of the vehicle's tour *)
Lemma add_path_conflict_head s v path s' rp :
  Inv nw s -> TIs nw s -> FKs nw s -> valid_path nw path ->
  add_path_to_vehicle_tour nw s v path = Ok (s', Some rp) -> head_ok nw rp.
Proof.
  intros I T F VP H. pose proof (add_path_conflict_valid nw WF DP s v path s' rp I T VP H) as VR.
  unfold add_path_to_vehicle_tour in H.
  destruct path as [|pf path'] eqn:EP; [discriminate|]. rewrite <- EP in *.
  match type of H with (if ?b then _ else _) = _ => destruct b eqn:CK; [discriminate|] end.
  mon H. mon H. monp H. mon H. monp H. monp H. mon H. mon H. monp H. inversion H; subst s' o; clear H.
  apply unwrap_opt_ok in E2.
  destruct T as [TR TD]. destruct (TR _ _ E2) as (ty & Gty & R).
  pose proof (RT_TV _ _ _ R) as V. pose proof (TV_connected _ _ V) as C. pose proof (TV_nonempty _ _ V) as NE.
  destruct (insert_path_nodes _ _ _ _ _ E3) as (sp & ep & removed & p1 & IN & Er & _).
  destruct (insert_nodes_ref_at nw WF DP (t_dummy a1) (t_nodes a1) path NE (connected_chrono nw WF DP _ C) VP)
    as (sp' & ep' & p1' & IN').
  rewrite IN in IN'. injection IN' as _ _ _ Q2 _.
  symmetry in Er. apply path_new_trusted_some in Er. destruct Er as [-> _].
  intros Dh. pose proof (path_front_depot nw removed VR Dh) as Sh.
  assert (Hin : In (hd d0 removed) (t_nodes a1)).
  { assert (SB : Sub removed (t_nodes a1)).
    { rewrite Q2. unfold ref_insert. cbn [snd]. eapply Sub_trans; [apply Sub_firstn|apply Sub_skipn]. }
    apply (Sub_in _ _ _ SB). destruct VR as (NR & _). destruct removed; [congruence|now left]. }
  pose proof (F v a1 E2) as K1. rewrite first_node_hd in K1.
  destruct (t_nodes a1) as [|f tl0]; [destruct Hin|]. cbn [hd] in K1. destruct Hin as [<-|Hin]; [exact K1|].
  rewrite (conn_tl_no_sdep nw tl0 f _ C Hin) in Sh. discriminate Sh.
Qed.

Lemma path_exchange_KR s seg p r s' :
  KR s -> is_depot (nd nw (fst seg)) = false -> path_exchange nw s seg p r = Ok s' -> KR s'.
Proof.
  intros R N H. unfold path_exchange in H.
  monp H. rename s0 into first, o into newd.
  assert (R1 : KR first) by (eapply KR_override; eassumption).
  monp H. rename s0 into second, l into changed.
  assert (R2 : KR second).
  { destruct newd as [d|].
    - destruct (override_newd _ _ _ _ _ _ _ E) as (Qd & tp & Htp).
      destruct (is_vehicle_or_dummy first p).
      + mon E0. mon E0. inversion E0; subst second changed; clear E0. apply panic_ok in E1.
        eapply KR_fit; [exact R1| | |eassumption].
        * intros Q. apply (has_tour_not_fresh' nw s p tp (KR_NS s R) Htp). congruence.
        * cbn [fst]. rewrite Qd in E1. eapply dummy_tour_first; [apply KR_NS; exact R1|exact E1].
      + destruct (is_vehicle s p).
        * mon E0. monp E0. inversion E0; subst. eapply KR_spawn_dummy; eassumption.
        * inversion E0; subst. exact R1.
    - inversion E0; subst. exact R1. }
  eapply improve_and_recompute_KR; eassumption.
Qed.

Lemma single_head_ok n : valid_path nw [n] -> head_ok nw [n].
Proof.
  intros (_ & _ & E). apply head_ok_nondep. cbn [hd existsb] in *. rewrite orb_false_r in E.
  apply negb_true_iff in E. exact E.
Qed.

Lemma spawn_vehicle_for_maintenance_KR s m v s' :
  KR s -> spawn_vehicle_for_maintenance nw s m v = Ok s' -> KR s'.
Proof.
  intros R H. unfold spawn_vehicle_for_maintenance in H.
  mon H. destruct (t_vm a); [discriminate H|].
  mon H. apply unwrap_opt_ok in E0.
  assert (VM : valid_path nw [m]) by (eapply (formed_valid nw ML); [apply KR_NS; exact R|exact E0]).
  mon H. monp H. rename s0 into s1, l into ch1.
  assert (R1 : KR s1).
  { destruct (track_count nw m <=? Z.of_nat (length a0)).
    - mon E2. mon E2. inversion E2; subst. eapply KR_remove_segment; eassumption.
    - inversion E2; subst. exact R. }
  monp H. rename s0 into s2, o into conflict.
  assert (R2 : KR s2) by (eapply KR_add_path; [exact R1|exact VM|apply single_head_ok; exact VM|eassumption]).
  monp H. rename s0 into s3, l into ch3.
  assert (R3 : KR s3).
  { destruct conflict as [path|].
    - monp E4. inversion E4; subst.
      destruct (KR_NS s1 R1) as [I1 T1 _ _].
      eapply KR_spawn; [exact R2| | |eassumption].
      + eapply (add_path_conflict_valid nw WF DP); [exact I1|exact T1|exact VM|eassumption].
      + eapply add_path_conflict_head; [exact I1|exact T1|apply R1|exact VM|eassumption].
    - inversion E4; subst. exact R2. }
  eapply improve_and_recompute_KR; eassumption.
Qed.

Lemma add_trip_for_hitch_hiking_KR s n v s' :
  KR s -> add_trip_for_hitch_hiking nw s n v = Ok s' -> KR s'.
Proof.
  intros R H. unfold add_trip_for_hitch_hiking in H.
  mon H. apply unwrap_opt_ok in E.
  assert (VN : valid_path nw [n]) by (eapply (formed_valid nw ML); [apply KR_NS; exact R|exact E]).
  destruct (match maximal_formation_count_for nw n with
            | Some l => l <=? Z.of_nat (length a) | None => false end); [discriminate H|].
  monp H. rename s0 into s1.
  assert (R1 : KR s1) by (eapply KR_add_path; [exact R|exact VN|apply single_head_ok; exact VN|eassumption]).
  destruct o; [discriminate H|].
  eapply improve_and_recompute_KR; eassumption.
Qed.

Lemma apply_cand_KR s c s' : KR s ->
  (forall seg p r, c = CExch seg p r -> is_depot (nd nw (fst seg)) = false) ->
  apply_cand nw s c = Ok s' -> KR s'.
Proof.
  intros R N H. destruct c; cbn [apply_cand] in H.
  - eapply spawn_vehicle_for_maintenance_KR; eassumption.
  - eapply path_exchange_KR; [exact R|eapply N; reflexivity|eassumption].
  - eapply add_trip_for_hitch_hiking_KR; eassumption.
  - unfold remove_single_node in H. eapply KR_remove_segment; eassumption.
Qed.

Lemma neighbors_KR s l : KR s -> neighbors nw s = Ok l -> forall c s', In (c, s') l -> KR s'.
Proof.
  intros R H c s' Hin.
  destruct (neighbors_are_applications nw s l H) as (cs & Hc & Hcs).
  destruct (Hcs c s' Hin) as [Hic Ha].
  eapply apply_cand_KR; [exact R| |exact Ha].
  intros seg p r ->. destruct (candidates_exch _ _ _ _ _ _ Hc Hic) as (sg & SG & Q).
  destruct (segments_starts _ _ _ _ SG) as (t & TO & ST).
  destruct (KR_NS s R) as [I T _ _].
  destruct (tour_of_T nw s p t I T TO) as (V & _ & _).
  eapply non_depots_nondep; eauto.
Qed.

Lemma ls_path_KR s s' : KR s -> ls_path nw s s' -> KR s'.
Proof.
  intros R P. induction P as [s|s l c s1 s2 Hn Hin P IH]; [exact R|].
  apply IH. eapply neighbors_KR; eassumption.
Qed.

(* the flow tours: valid Paths over known nodes *)
Lemma known_head_ok p : valid_path nw p -> (forall n, In n p -> has_node nw n = true) -> head_ok nw p.
Proof.
  intros VP KN Dh. pose proof (path_front_depot nw p VP Dh) as Sh.
  apply (dl_s_listed nw DLI); [|exact Sh]. apply KN. destruct VP as (NE & _). destruct p; [congruence|now left].
Qed.

Lemma from_tours_fold_KR (tours : list (Z * list node_id)) : forall (acc : res schedule) s0,
  tours_are_paths nw tours -> tours_known nw tours ->
  (forall s, acc = Ok s -> KR s) ->
  fold_left (fun acc '(ty, path) =>
               do s <- acc;
               match spawn_vehicle_for_path nw s ty path with Ok (s', _) => Ok s' | OutOfFuel => OutOfFuel | _ => Panic end)
            tours acc = Ok s0 -> KR s0.
Proof.
  induction tours as [|[ty p] tours IH]; intros acc s0 TP TK Hacc H; cbn [fold_left] in H.
  - now apply Hacc.
  - eapply IH; [| | |exact H].
    + intros ty' p' Hin. apply (TP ty' p'). now right.
    + intros ty' p' n Hin. apply (TK ty' p' n). now right.
    + intros s Hs. destruct acc as [s1| | |]; cbn [bind] in Hs; try discriminate Hs.
      destruct (spawn_vehicle_for_path nw s1 ty p) as [[s' v]| | |] eqn:E; try discriminate Hs.
      inversion Hs; subst s'; clear Hs.
      eapply KR_spawn; [apply Hacc; reflexivity| | |exact E].
      * apply (TP ty p). now left.
      * apply known_head_ok; [apply (TP ty p); now left|]. intros n Hn. apply (TK ty p n); [now left|exact Hn].
Qed.

Lemma from_tours_KR tours s0 : tours_are_paths nw tours -> tours_known nw tours -> from_tours nw tours = Ok s0 -> KR s0.
Proof.
  intros TP TK H. unfold from_tours in H. eapply from_tours_fold_KR; [exact TP|exact TK| |exact H].
  intros s Hs. split; [now apply nr_empty|].
  unfold empty_schedule in Hs. mon Hs. inversion Hs; subst; clear Hs. intros v t G. discriminate G.
Qed.

(* the tours of the pipeline's result start at listed start depots *)
Theorem pipeline_first_listed tours final :
  tours_are_paths nw tours -> tours_known nw tours -> pipeline_result nw tours final -> FKs nw final.
Proof.
  intros TP TK (s0 & s1 & ls & trans & F & I1 & LP & TV & C).
  assert (K : KR ls).
  { eapply ls_path_KR; [|exact LP]. eapply KR_improve; [|exact I1]. eapply from_tours_KR; eauto. }
  destruct (KR_NS ls K) as [I T _ _]. destruct K as [_ FK].
  eapply (consistent_FKs nw (set_next_day_transitions ls trans)); [| | |exact C].
  - apply Inv_set_next. exact I.
  - exact T.
  - exact FK.
Qed.
End KClosure.

(** * 5. clause 203 of check_C02: depot capacities *)
Theorem render_C02_depots : stmt_render_C02_depots.
Proof.
  intros nw NF s out TO LO UO DL R.
  pose proof (loads_count nw s out NF TO LO R UO) as LC.
  unfold check_C02. rewrite !in_app_iff. intros [H|[H|H]].
  - apply in_if_nil in H. destruct H as [_ H]. discriminate H.
  - apply in_if_nil in H. destruct H as [_ H]. discriminate H.
  - unfold DepotLimitsOK, overflow_idx in DL. destruct (nw_overflow nw) as [[od os] oe].
    apply in_if_nil in H. destruct H as [H _].
    rewrite forallb_intro in H; [discriminate H|].
    intros [d e] Hd. destruct (d =? od) eqn:Q; [reflexivity|]. cbn [orb]. apply Z.eqb_neq in Q.
    destruct (DL d (in_map fst _ _ Hd) Q) as [D1 D2]. apply andb_true_iff. split.
    + apply forallb_forall. intros ty Hty. apply Z.leb_le. rewrite <- LC. apply D1. exact Hty.
    + apply Z.leb_le. unfold spawned_total in D2.
      rewrite (map_ext _ (Output.starts_at out d)) in D2; [exact D2|]. intros ty. apply LC.
Qed.

(** * 6. the composition *)
Lemma check_C02_nil nw out :
  ~ In 201 (check_C02 nw out) -> ~ In 202 (check_C02 nw out) -> ~ In 203 (check_C02 nw out) -> check_C02 nw out = [].
Proof.
  unfold check_C02. destruct (nw_overflow nw) as [[od os] oe].
  repeat match goal with |- context [if ?c then [] else _] => destruct c end; cbn [app In]; intros A B C;
    try reflexivity; exfalso; tauto.
Qed.

Lemma zget_of_key {A} k (l : list (Z * A)) : In k (map fst l) -> exists x, zget k l = Some x.
Proof.
  unfold zget. induction l as [|[k' y] l IH]; [intros []|]. cbn [map fst In assoc].
  destruct (Z.eqb_spec k k') as [->|N]; [eauto|]. intros [Q|Q]; [congruence|auto].
Qed.

Lemma RV_last_edep nw t : RV nw (t_nodes t) -> edep nw (last_node t) = true.
Proof. intros (_ & _ & _ & E & _). rewrite RenderFacts3.RV_last. exact E. Qed.

(* the statement with the weaker hypothesis on the depot permutation that [load] actually needs (LoadFacts.perm_ok:
   only read when the instance has no depots, and then at most one entry per location) *)
Theorem end_to_end_perm_ok :
  forall i perm nw,
    valid_instance_b i = true -> inst_unsigned i -> perm_ok i perm -> load i perm = Ok nw ->
    forall tours final,
      tours_are_paths nw tours -> tours_known nw tours -> pipeline_result nw tours final ->
      exists out, render nw final = Ok out /\
        check_C01 nw out = [] /\ check_C02 nw out = [] /\ check_C03 nw out = [] /\
        check_C04 nw out = [] /\ check_C05 nw out = [].
Proof.
  intros i perm nw V U PO LD tours final TP TK PR.
  pose proof (load_net_fine i perm nw V PO LD) as NF. pose proof NF as (OK & ML & ND).
  pose proof OK as OK'. unfold net_ok_b in OK'. apply andb_true_iff in OK'. destruct OK' as [WF DP].
  destruct (LoadFacts.load_wf_partial i perm nw V PO LD) as (_ & _ & DF).
  pose proof (load_dh_finite i perm nw LD) as DH.
  pose proof (load_depot_lists i perm nw LD) as DLI.
  assert (HM : forall n, In n (nw_maint nw) -> is_service (nd nw n) = false).
  { intros n Hn. apply ML in Hn. destruct (nd nw n); try discriminate; reflexivity. }
  destruct (pipeline_valid_loaded i perm nw LD OK ML ND HM tours final TP PR)
    as (TOf & LOf & FLf & UOf & VOf & COf & UNf & TAf).
  pose proof (pipeline_depot_limits_loaded i perm nw LD (unsigned_caps i U) OK ML tours final TP PR) as DLf.
  pose proof (pipeline_first_listed nw WF DP ML DLI tours final TP TK PR) as FKf.
  destruct PR as (s0 & s1 & ls & trans & F & I1 & LPa & [TKs TVs] & C).
  pose proof (pipeline_ls_wreachable nw OK ML tours s0 s1 ls TP F I1 LPa) as W.
  destruct (wreachable_sub nw ls W) as (RV & RD & RR).
  set (s := set_next_day_transitions ls trans) in *.
  assert (Is : Inv nw s) by (unfold s; apply Inv_set_next; now apply SchedCostsFacts.reachable_inv).
  assert (If : Inv nw final) by (exact (SchedCostsFacts.consistent_ok nw s final Is C)).
  assert (Ts : TIs nw s) by (exact (vreachable_T nw WF DP ls RV)).
  assert (Tf : TIs nw final) by (exact (SchedToursFacts.consistent_T nw s final Is Ts C)).
  assert (Ls : LInv nw false s) by (exact (greachable_L nw false ls (reachable_greachable nw ls RR))).
  assert (Lf : LInv nw false final) by (exact (SchedListFacts.consistent_L nw false s final Is Ls C)).
  destruct (frame_consistent_under_keys nw s final (inv_real nw s Is) (inv_dummy nw s Is) C) as (_ & _ & A3 & _).
  (* formations *)
  assert (FOf : FormsOK nw final).
  { pose proof (vreachable_forms_under_maint_listed nw OK ND ML ls RV) as FOl.
    assert (FCs0 : FCs nw s) by (exact (vreachable_FC nw WF DP ls (coverable_nondepot nw ML) RV)).
    pose proof (consistent_FC nw s final Is Ts FCs0 C) as FCf.
    apply (FC_FormsOK nw WF DP final If Tf FCf); rewrite A3.
    - exact (fo_keys_nodup nw ls FOl).
    - exact (fo_keys nw ls FOl). }
  (* exact tours *)
  assert (TEf : ToursExact nw final).
  { apply EIs_ToursExact.
    assert (E0 : EIs nw s) by (exact (vreachable_E nw WF DP DF DH ls RV)).
    exact (consistent_E nw WF s final Is Ts E0 C). }
  (* rotation cycles *)
  assert (TRs : TransOK nw s).
  { intros ty Hty. rewrite <- TKs in Hty. destruct (zget_of_key ty trans Hty) as [tr G].
    exists tr. split; [exact G|]. exact (TVs ty tr G). }
  assert (TRf : TransOK nw final) by (exact (SchedTransFacts.consistent_T nw s final Is Ls If Lf TRs C)).
  assert (TKf : TransKeys nw final).
  { eapply consistent_trans_keys; [|exact C]. apply set_next_day_trans_keys. exact TKs. }
  (* the ends of the tours *)
  assert (EKf : EndsKnown nw final).
  { intros v t G. split; [exact (FKf v t G)|].
    destruct Tf as [TR _]. destruct (TR v t G) as (ty & _ & (_ & R & _)).
    pose proof (RV_last_edep nw t R) as E.
    apply (dl_e_listed nw DLI); [|exact E]. apply (edep_known nw). exact E. }
  assert (KEf : KnownEnds nw final).
  { intros v t G. destruct (EKf v t G) as [K1 _]. split; [exact (dl_s_known nw DLI _ K1)|].
    destruct Tf as [TR _]. destruct (TR v t G) as (ty & _ & (_ & R & _)).
    apply (edep_known nw). exact (RV_last_edep nw t R). }
  pose proof (ends_listed_of_known nw final (RenderFacts3.load_depot_table_ok i perm nw V LD) EKf) as ELf.
  (* rendering *)
  destruct (render_total nw NF final TOf LOf TRf) as [out RE].
  exists out. split; [exact RE|]. split; [|split; [|split; [|split]]].
  - exact (render_C01_loaded i perm nw LD NF final out TOf LOf RE).
  - destruct (RenderFacts1.render_C02_loaded i perm nw V (unsigned_limits_b i U) LD NF final out FLf FOf RE) as [N1 N2].
    apply check_C02_nil; [exact N1|exact N2|].
    exact (render_C02_depots nw NF final out TOf LOf UOf DLf RE).
  - exact (render_C03_under_listed nw NF (RenderFacts3.load_services_listed i perm nw V LD) final out
             TOf LOf FOf UOf ELf RE).
  - exact (render_C04_loaded_valid i perm nw V PO LD final out KEf TKf TOf LOf FOf TEf TRf VOf COf UNf RE).
  - exact (render_C05 nw NF final out TOf LOf TRf TAf RE).
Qed.

Theorem end_to_end : stmt_end_to_end.
Proof.
  intros i perm nw V U LP LD tours final TP TK PR.
  exact (end_to_end_perm_ok i perm nw V U (length_perm_ok i perm LP) LD tours final TP TK PR).
Qed.

Print Assumptions load_dh_finite.
Print Assumptions load_depot_lists.
Print Assumptions pipeline_first_listed.
Print Assumptions render_C02_depots.
Print Assumptions end_to_end.
Print Assumptions end_to_end_perm_ok.
