(* EndToEndStmts.v — the output-level properties C01-C05 for every run of the modelled pipeline over every network
   loaded from a valid instance: the JSON rendered from the pipeline's result passes all output checkers of Output.v.
   Composition of PipelineSchedFacts, DepotFacts, RenderFacts1/3/4, SchedExactFacts; proofs in EndToEndFacts.v. *)
From RS Require Import Base Network NetSpec LoadStmts Tour TourStmts SchedObs Output Transition Schedule SchedInv
  SchedStruct PipelineSched Render RenderStmts DepotStmts.

(* the flow tours only mention nodes of the network *)
Definition tours_known (nw : network) (tours : list (Z * list node_id)) : Prop :=
  forall ty p n, In (ty, p) tours -> In n p -> has_node nw n = true.

(* what the JSON format guarantees beyond valid_instance_b: limits and capacities are unsigned *)
Definition inst_unsigned (i : instance) : Prop :=
  (forall vt l, In vt (i_types i) -> vt_limit vt = Some l -> 0 <= l) /\
  (forall r g l, In r (i_routes i) -> In g (r_segs r) -> rs_limit g = Some l -> 0 <= l) /\
  (forall d, In d (match i_depots i with Some l => l | None => [] end) ->
     0 <= id_cap d /\ forall t c, In (t, Some c) (id_allowed d) -> 0 <= c).

Definition stmt_render_C02_depots : Prop :=
  forall nw, net_fine nw -> forall s out,
    ToursOK nw s -> ListingOK nw s -> UsageOK nw s -> DepotLimitsOK nw s -> render nw s = Ok out ->
    ~ In 203 (check_C02 nw out).

Definition stmt_end_to_end : Prop :=
  forall i perm nw,
    valid_instance_b i = true -> inst_unsigned i -> length perm = i_nlocs i -> load i perm = Ok nw ->
    forall tours final,
      tours_are_paths nw tours -> tours_known nw tours -> pipeline_result nw tours final ->
      exists out, render nw final = Ok out /\
        check_C01 nw out = [] /\ check_C02 nw out = [] /\ check_C03 nw out = [] /\
        check_C04 nw out = [] /\ check_C05 nw out = [].
