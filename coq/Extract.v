(* Extract.v — extraction of the executable model to OCaml (ExtrOcamlBasic only). *)
From Coq Require Extraction ExtrOcamlBasic.
From RS Require Import Base Network NetSpec Tour TourSpec SchedObs Output Pipeline Transition TransSpec LocalSearch TourExactFacts OpSpec Flow LoadStmts Schedule Swaps PipelineSched Render Hyps Hyps2 TOpt TOptStmts2 SwapsRot F32 SlotDist RawLoad FlowGuard Decode Cal OutputVV.
Extraction Language OCaml.
Extraction "model.ml" load nd can_reach successors predecessors service_nodes all_service_nodes
  capacity_of total_capacity_of get_start_depot_node get_end_depot_node
  number_of_vehicles_required_to_serve maximal_formation_count_for
  start_depots_sorted_by_distance_to end_depots_sorted_by_distance_from
  loc_distance loc_travel_time minimal_duration_between dead_head_time_between
  dead_head_distance_between idle_time_between type_ids nid_cmp vid_cmp lookup_sorted is_depot n_travel_dist net_wf_b max_vehicles overflow_ok_b
  tour_new tour_new_dummy new_computing path_new insert_path Tour.remove sub_path conflict latest_not_reaching_node
  check_removable replace_start_depot replace_end_depot preceding_overhead subsequent_overhead maintenance_counter
  ref_insert ref_removable ref_remove ref_sub_path pos_of all_depots
  check_exact check_inv
  check_C01 check_C02 check_C03 check_C04 check_C05 check_C07 eval_unserved eval_violation eval_costs lower_bound
  check_wiring check_start cycles_eqb cycles_of nids_eqb itinerary
  new_fast get_successor_of update_vehicle add_vehicle_to_own_cycle remove_vehicle add_vehicle_at_the_end
  move_vehicle replace_cycle three_opt three_opt_indices transfer_m tinv_codes not_worse same_members first_node last_node strictly_descending lex_lt net_ok_b dists_finite_b dh_dists_finite_b check_op tf_replace tf_remove tf_add_at_tail
  build_flow_network feasible is_decomposition check_optimal pi_of flow_cost spawning_cost total_lower_bound nid_idx valid_instance_b
  empty_schedule spawn_vehicle_for_path spawn_to_replace_dummy replace_vehicle_by_dummy add_path_to_vehicle_tour
  remove_segment fit_reassign override_reassign improve_depots reassign_end_depots_greedily recompute_transitions_for
  reassign_end_depots_consistent set_next_day_transitions vehicles_iter_all vehicles_iter tour_of vget nget uget zget
  spawned_total coverable_nodes neighbors candidates apply_cand from_tours tfn render inst_unsigned_b tours_ok_b params_costs_nonneg_b tours_typed_b tours_within_limits_b fleet_fits_overflow_b
  topt_neighbors topt_run cyc_tsp step_codes stop_codes tr_eqb topt_obj members_of dh_dists_nonneg_b first_min neighbors_from
  distribute f_of_u64 f_add f_div f_cmp f_bits f_of_bits f_ge f_one resolve cost_guard slots_of decode order_ok_b maintenance_considered
  parse_datetime as_iso tp_add tp_sub tp_diff_dt tp_cmp tp_leb tp_lin rel_seconds strict_clock check_C04_vv eval_unserved_vv.
