(* F32.v — the part of IEEE-754 binary32 arithmetic that solver/src/min_cost_flow_solver.rs
   (distribute_maintenance_slots) uses: conversion from u64 (Rust `as f32`: round to nearest, ties to even),
   division, addition, partial_cmp — on NON-NEGATIVE operands (every operand there comes from an unsigned
   integer, a quotient or a sum of such).  NaN and +infinity are explicit: a NaN reaching partial_cmp is the
   `unwrap` panic of the code.  Written by hand (no Flocq: closed under the global context, extractable with
   ExtrOcamlBasic only); tied to the hardware semantics by the correspondence check `f32` (harness sub-command
   against the extracted functions, bit patterns compared). *)
From Coq Require Import ZArith NArith List Bool Lia.
Import ListNotations.
Open Scope Z_scope.

(* a finite value is m * 2^e with 0 <= m < 2^24 and -149 <= e <= 104; canonical: m < 2^23 only if e = -149 *)
Inductive f32 := FNaN | FInf | FFin (m : Z) (e : Z).

Definition f_zero : f32 := FFin 0 (-149).
Definition f_one : f32 := FFin (2^23) (-23).

Definition prec : Z := 24.
Definition emin : Z := -149.
Definition emax_e : Z := 104.           (* largest exponent of a finite value with 24-bit mantissa *)

(* floor(log2 (p/q)) for p, q > 0 *)
Definition ilog2_q (p q : Z) : Z :=
  let k := Z.log2 p - Z.log2 q in
  if 0 <=? k then (if q * 2^k <=? p then k else k - 1)
  else (if q <=? p * 2^(-k) then k else k - 1).

(* round half to even of p / q  (p >= 0, q > 0) *)
Definition rne_div (p q : Z) : Z :=
  let d := p / q in
  let r := p mod q in
  if 2 * r <? q then d
  else if q <? 2 * r then d + 1
  else if Z.even d then d else d + 1.

(* nearest binary32 of the positive rational p / q *)
Definition round_q (p q : Z) : f32 :=
  if p =? 0 then f_zero else
  let e := Z.max emin (ilog2_q p q - 23) in
  let m := if 0 <=? e then rne_div p (q * 2^e) else rne_div (p * 2^(-e)) q in
  let '(m, e) := if m =? 2^24 then (2^23, e + 1) else (m, e) in
  if emax_e <? e then FInf else FFin m e.

(* exact value of a finite float as numerator over 2^149 *)
Definition num149 (m e : Z) : Z := m * 2^(e + 149).
Definition den149 : Z := 2^149.

Definition f_of_u64 (n : Z) : f32 := round_q n 1.

Definition f_is_zero (x : f32) : bool := match x with FFin m _ => m =? 0 | _ => false end.

Definition f_add (a b : f32) : f32 :=
  match a, b with
  | FNaN, _ | _, FNaN => FNaN
  | FInf, _ | _, FInf => FInf
  | FFin ma ea, FFin mb eb => round_q (num149 ma ea + num149 mb eb) den149
  end.

Definition f_div (a b : f32) : f32 :=
  match a, b with
  | FNaN, _ | _, FNaN => FNaN
  | FInf, FInf => FNaN
  | FInf, _ => FInf
  | FFin _ _, FInf => f_zero
  | FFin ma ea, FFin mb eb =>
      if mb =? 0 then (if ma =? 0 then FNaN else FInf)
      else round_q (num149 ma ea) (num149 mb eb)
  end.

(* partial_cmp: None iff an operand is NaN *)
Definition f_cmp (a b : f32) : option comparison :=
  match a, b with
  | FNaN, _ | _, FNaN => None
  | FInf, FInf => Some Eq
  | FInf, _ => Some Gt
  | _, FInf => Some Lt
  | FFin ma ea, FFin mb eb => Some (num149 ma ea ?= num149 mb eb)
  end.

Definition f_ge (a b : f32) : bool := match f_cmp a b with Some Gt | Some Eq => true | _ => false end.

(* bit pattern (u32), for the correspondence check *)
Definition f_bits (x : f32) : Z :=
  match x with
  | FNaN => 2143289344            (* 0x7FC00000, the quiet NaN the hardware produces for 0/0 up to the sign *)
  | FInf => 2139095040            (* 0x7F800000 *)
  | FFin m e => if m <? 2^23 then m else (e + 150) * 2^23 + (m - 2^23)
  end.
(* and back (non-negative patterns only) *)
Definition f_of_bits (b : Z) : f32 :=
  let ex := b / 2^23 in
  let fr := b mod 2^23 in
  if ex =? 255 then (if fr =? 0 then FInf else FNaN)
  else if ex =? 0 then FFin fr (-149)
  else FFin (2^23 + fr) (ex - 150).

(* canonical, finite or not *)
Definition f_canon (x : f32) : bool :=
  match x with
  | FFin m e => (0 <=? m) && (m <? 2^24) && (emin <=? e) && (e <=? emax_e) && ((2^23 <=? m) || (e =? emin))
  | _ => true
  end.
Definition f_not_nan (x : f32) : bool := match x with FNaN => false | _ => true end.
