(* Flow.v — min-cost circulations with lower/upper bounds (generic), the flow network that
   solver/src/min_cost_flow_solver.rs builds per vehicle type, and the executable checks used for C14:
   feasibility, optimality certificate (node potentials), decomposition of a flow into tours. *)
From RS Require Import Base Network.

(** * Generic part: nodes are integers *)
Record fedge := { fe_tail : Z; fe_head : Z; fe_lower : Z; fe_upper : Z; fe_cost : Z }.
Definition fnet := list fedge.
Definition flow := list Z.     (* aligned with the edge list *)

Definition net_flow_at (net : fnet) (f : flow) (v : Z) : Z :=
  z_sum (map (fun '(e, x) => (if fe_tail e =? v then x else 0) - (if fe_head e =? v then x else 0)) (combine net f)).
Definition fnodes (net : fnet) : list Z := flat_map (fun e => [fe_tail e; fe_head e]) net.

Definition feasible (net : fnet) (f : flow) : bool :=
  Nat.eqb (length net) (length f) &&
  forallb (fun '(e, x) => (fe_lower e <=? x) && (x <=? fe_upper e)) (combine net f) &&
  forallb (fun v => net_flow_at net f v =? 0) (fnodes net).
Definition flow_cost (net : fnet) (f : flow) : Z := z_sum (map (fun '(e, x) => fe_cost e * x) (combine net f)).

(* complementary slackness w.r.t. node potentials: positive reduced cost -> flow at its lower bound,
   negative reduced cost -> flow at its upper bound *)
Definition reduced_cost (pi : Z -> Z) (e : fedge) : Z := fe_cost e + pi (fe_tail e) - pi (fe_head e).
Definition check_optimal (net : fnet) (f : flow) (pi : Z -> Z) : bool :=
  feasible net f &&
  forallb (fun '(e, x) => let rc := reduced_cost pi e in
                          (negb (0 <? rc) || (x =? fe_lower e)) && (negb (rc <? 0) || (x =? fe_upper e)))
          (combine net f).
Definition pi_of (l : list (Z * Z)) : Z -> Z := fun v => match assoc Z.eqb v l with Some x => x | None => 0 end.

(** * The network of solve_for_vehicle_type *)
(* node encoding: left/right copy of a network node with index k: 4k / 4k+1; of depot d: 4d+2 / 4d+3 *)
Definition fl_node (n : node_id) : Z := 4 * nid_idx n.
Definition fr_node (n : node_id) : Z := 4 * nid_idx n + 1.
Definition fl_depot (d : Z) : Z := 4 * d + 2.
Definition fr_depot (d : Z) : Z := 4 * d + 3.

Section Build.
Variable nw : network.
Variable ty : Z.
Variable slots : list (node_id * Z).    (* maintenance slots allotted to this type *)
Let P := nw_params nw.

Definition type_limit_or_100 : Z :=
  match vtype_of nw ty with Some vt => match vt_limit vt with Some l => l | None => 100 end | None => 100 end.
Definition node_dur_sec (n : node_id) : Z :=
  match n_duration (nd nw n) with Ok (Len s) => s | _ => 0 end.
Definition planning_s : Z := dur_sec_or (nw_planning nw) 0.

Definition service_edges : list fedge :=
  map (fun s =>
         let mf := match maximal_formation_count_for nw s with Some l => l | None => 100 end in
         {| fe_tail := fl_node s; fe_head := fr_node s;
            fe_lower := Z.min (number_of_vehicles_required_to_serve nw ty s) mf; fe_upper := mf;
            fe_cost := node_dur_sec s * c_service P |}) (service_nodes nw ty).
Definition maint_edges : list fedge :=
  map (fun '(m, c) => {| fe_tail := fl_node m; fe_head := fr_node m; fe_lower := c; fe_upper := c;
                         fe_cost := node_dur_sec m * c_maint P |}) slots.
Definition total_lower_bound : Z := z_sum (map fe_lower service_edges) + z_sum (map fe_lower maint_edges).
Definition spawning_cost : Z :=
  (* at least 1 per second, since the repair "fix: spawning a vehicle is never free in the flow network" *)
  Z.max 1 (fold_left Z.max [c_service P; c_maint P; c_dh P; c_idle P] (c_staff P)) * 3 * planning_s * total_lower_bound.
Definition depot_ids : list Z := map fst (nw_depots nw).
Definition depot_edges : list fedge :=
  map (fun d => {| fe_tail := fl_depot d; fe_head := fr_depot d; fe_lower := 0; fe_upper := capacity_of nw d ty;
                   fe_cost := spawning_cost |}) depot_ids.

Definition slot_allotted (m : node_id) : bool := existsb (fun '(x, _) => nid_eqb x m) slots.
(* arcs carry at least as many vehicles as the largest allotted slot needs (since the repair "fix: flow arcs
   capped at the formation limit ...") *)
(* ... and as many as the longest formation any of the type's trips allows (since the repair "fix: flow arcs carry as many
   vehicles as the longest formation of the type's trips") *)
Definition arc_upper_bound : Z :=
  fold_left Z.max (map (fun s => match maximal_formation_count_for nw s with Some l => l | None => 100 end)
                       (service_nodes nw ty))
            (fold_left Z.max (map snd slots) type_limit_or_100).
(* arcs into [head] (a service trip, an allotted slot, or the end node of a depot) from its predecessors *)
Definition arcs_into (head_id : node_id) (head_code : Z) : list fedge :=
  flat_map (fun pred =>
     let tail_code :=
       match nd nw pred with
       | NService _ => Some (fr_node pred)
       | NStart d => Some (fr_depot (dn_depot d))
       | NMaint _ => if slot_allotted pred then Some (fr_node pred) else None
       | NEnd _ => None
       end in
     match tail_code with
     | None => []
     | Some tc =>
         let idle_cost :=
           if is_depot (nd nw pred) || is_depot (nd nw head_id) then 0
           else match idle_time_between nw pred head_id with Ok (Len s) => s * c_idle P | _ => 0 end in
         [ {| fe_tail := tc; fe_head := head_code; fe_lower := 0; fe_upper := arc_upper_bound;
              fe_cost := dur_sec_or (dead_head_time_between nw pred head_id) planning_s * c_dh P + idle_cost |} ]
     end) (predecessors nw ty head_id).
Definition connecting_edges : list fedge :=
  flat_map (fun s => arcs_into s (fl_node s)) (service_nodes nw ty) ++
  flat_map (fun '(m, _) => arcs_into m (fl_node m)) slots ++
  flat_map (fun d => arcs_into (get_end_depot_node nw d) (fl_depot d)) depot_ids.

Definition build_flow_network : fnet := service_edges ++ maint_edges ++ connecting_edges ++ depot_edges.

(** ** decomposition of a flow into tours [sdep; n1; ..; nk; edep] *)
Definition code_as_tail (n : node_id) : Z :=
  match nd nw n with NStart d => fr_depot (dn_depot d) | _ => fr_node n end.
Definition code_as_head (n : node_id) : Z :=
  match nd nw n with NEnd d => fl_depot (dn_depot d) | _ => fl_node n end.
Definition uses_of_edge (tours : list (list node_id)) (e : fedge) : Z :=
  z_sum (map (fun t =>
     (* node edges: one use per visit of a non-depot node; depot edges: one use per tour starting there *)
     z_sum (map (fun n => if is_depot (nd nw n) then 0
                          else if (fe_tail e =? fl_node n) && (fe_head e =? fr_node n) then 1 else 0) t) +
     (match t with
      | s :: _ => match nd nw s with
                  | NStart d => if (fe_tail e =? fl_depot (dn_depot d)) && (fe_head e =? fr_depot (dn_depot d)) then 1 else 0
                  | _ => 0 end
      | [] => 0 end) +
     z_sum (map (fun '(x, y) => if (fe_tail e =? code_as_tail x) && (fe_head e =? code_as_head y) then 1 else 0)
                (windows t))) tours).
(* every unit of flow is in exactly one tour; tours start where a depot edge carries flow and end in the
   same number at each depot *)
Definition is_decomposition (net : fnet) (f : flow) (tours : list (list node_id)) : bool :=
  forallb (fun '(e, x) => x =? uses_of_edge tours e) (combine net f) &&
  forallb (fun d =>
     Z.of_nat (length (filter (fun t => match t with s :: _ => match nd nw s with NStart dd => dn_depot dd =? d | _ => false end | [] => false end) tours)) =?
     Z.of_nat (length (filter (fun t => match nd nw (last t (SD 0)) with NEnd dd => dn_depot dd =? d | _ => false end) tours)))
    depot_ids.
End Build.
