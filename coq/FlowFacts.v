From RS Require Import Base BaseFacts Network Flow FlowStmts.
(* FlowFacts.v — C14: proofs of the statements in FlowStmts.v.
   Weak duality for min-cost circulations with bounds: a feasible circulation that satisfies complementary
   slackness w.r.t. some node potentials is a cheapest feasible circulation. *)

(** * sums *)
Lemma z_sum_map_zero {A} (f : A -> Z) (l : list A) :
  (forall a, In a l -> f a = 0) -> z_sum (map f l) = 0.
Proof.
  induction l as [|a l IH]; intros H; [reflexivity|].
  cbn [map]. rewrite z_sum_cons, H by (left; reflexivity).
  rewrite IH; [lia|]. intros b Hb; apply H; right; exact Hb.
Qed.

Lemma z_sum_map_add {A} (f g : A -> Z) (l : list A) :
  z_sum (map (fun a => f a + g a) l) = z_sum (map f l) + z_sum (map g l).
Proof.
  induction l as [|a l IH]; [reflexivity|].
  cbn [map]. rewrite !z_sum_cons, IH. lia.
Qed.

Lemma z_sum_map_ext {A} (f g : A -> Z) (l : list A) :
  (forall a, In a l -> f a = g a) -> z_sum (map f l) = z_sum (map g l).
Proof.
  induction l as [|a l IH]; intros H; [reflexivity|].
  cbn [map]. rewrite !z_sum_cons, H by (left; reflexivity).
  rewrite IH; [lia|]. intros b Hb; apply H; right; exact Hb.
Qed.

(* the sum of pi v * [u = v] * a over a duplicate-free list containing u is pi u * a *)
Lemma z_sum_indicator (pi : Z -> Z) (u a : Z) (L : list Z) :
  NoDup L -> In u L ->
  z_sum (map (fun v => pi v * (if u =? v then a else 0)) L) = pi u * a.
Proof.
  induction 1 as [|w L Hw Hnd IH]; intros Hin; [destruct Hin|].
  cbn [map]. rewrite z_sum_cons.
  destruct Hin as [->|Hin].
  - rewrite Z.eqb_refl.
    rewrite z_sum_map_zero; [lia|].
    intros v Hv. destruct (Z.eqb_spec u v) as [->|_]; [contradiction|lia].
  - rewrite IH by exact Hin.
    destruct (Z.eqb_spec u w) as [->|_]; [contradiction|lia].
Qed.

(** * net flow *)
Lemma net_flow_at_nil_l f v : net_flow_at [] f v = 0.
Proof. reflexivity. Qed.

Lemma net_flow_at_nil_r net v : net_flow_at net [] v = 0.
Proof. destruct net; reflexivity. Qed.

Lemma net_flow_at_cons e net a x v :
  net_flow_at (e :: net) (a :: x) v =
  (if fe_tail e =? v then a else 0) - (if fe_head e =? v then a else 0) + net_flow_at net x v.
Proof. unfold net_flow_at. cbn [combine map]. rewrite z_sum_cons. reflexivity. Qed.

(* at a node that is not an endpoint of any edge, the net flow is trivially 0 *)
Lemma net_flow_at_outside net : forall f v, ~ In v (fnodes net) -> net_flow_at net f v = 0.
Proof.
  induction net as [|e net IH]; intros f v Hv; [reflexivity|].
  destruct f as [|a x]; [reflexivity|].
  rewrite net_flow_at_cons.
  unfold fnodes in Hv; cbn [flat_map app In] in Hv. fold (fnodes net) in Hv.
  rewrite IH by tauto.
  destruct (Z.eqb_spec (fe_tail e) v); [tauto|].
  destruct (Z.eqb_spec (fe_head e) v); [tauto|]. lia.
Qed.

(** * the potential term *)
Definition pot_sum (pi : Z -> Z) (net : fnet) (x : flow) : Z :=
  z_sum (map (fun '(e, a) => (pi (fe_tail e) - pi (fe_head e)) * a) (combine net x)).
Definition rc_sum (pi : Z -> Z) (net : fnet) (x : flow) : Z :=
  z_sum (map (fun '(e, a) => reduced_cost pi e * a) (combine net x)).

Lemma flow_cost_split pi net : forall x, flow_cost net x = rc_sum pi net x - pot_sum pi net x.
Proof.
  induction net as [|e net IH]; intros x; [reflexivity|].
  destruct x as [|a x]; [reflexivity|].
  unfold flow_cost, rc_sum, pot_sum in *. cbn [combine map]. rewrite !z_sum_cons, IH.
  unfold reduced_cost. lia.
Qed.

(* sum over edges of (pi tail - pi head) * x  =  sum over nodes of pi v * (net flow at v) *)
Lemma pot_sum_nodes pi (L : list Z) : NoDup L ->
  forall net x, (forall v, In v (fnodes net) -> In v L) ->
  pot_sum pi net x = z_sum (map (fun v => pi v * net_flow_at net x v) L).
Proof.
  intros HL. induction net as [|e net IH]; intros x Hsub.
  - rewrite z_sum_map_zero; [reflexivity|]. intros v _. rewrite net_flow_at_nil_l. lia.
  - destruct x as [|a x].
    + rewrite z_sum_map_zero; [reflexivity|]. intros v _. rewrite net_flow_at_nil_r. lia.
    + assert (Ht : In (fe_tail e) L) by (apply Hsub; unfold fnodes; cbn [flat_map app In]; tauto).
      assert (Hh : In (fe_head e) L) by (apply Hsub; unfold fnodes; cbn [flat_map app In]; tauto).
      assert (Hsub' : forall v, In v (fnodes net) -> In v L).
      { intros v Hv. apply Hsub. unfold fnodes; cbn [flat_map app In]. fold (fnodes net). tauto. }
      rewrite (z_sum_map_ext _ (fun v => (pi v * (if fe_tail e =? v then a else 0)
                                          + pi v * (if fe_head e =? v then - a else 0))
                                         + pi v * net_flow_at net x v)).
      2:{ intros v _. rewrite net_flow_at_cons.
          destruct (fe_tail e =? v), (fe_head e =? v); lia. }
      rewrite z_sum_map_add, z_sum_map_add, !z_sum_indicator by assumption.
      rewrite <- IH by exact Hsub'.
      unfold pot_sum. cbn [combine map]. rewrite z_sum_cons. lia.
Qed.

Lemma forallb_In {A} (p : A -> bool) l : forallb p l = true -> forall a, In a l -> p a = true.
Proof. intros H a Ha. rewrite forallb_forall in H. exact (H a Ha). Qed.

Lemma feasible_parts net f : feasible net f = true ->
  length net = length f /\
  forallb (fun '(e, x) => (fe_lower e <=? x) && (x <=? fe_upper e)) (combine net f) = true /\
  (forall v, In v (fnodes net) -> net_flow_at net f v = 0).
Proof.
  unfold feasible. intros H.
  apply andb_prop in H; destruct H as [H H3]. apply andb_prop in H; destruct H as [H1 H2].
  split; [apply Nat.eqb_eq; exact H1|]. split; [exact H2|].
  intros v Hv. apply Z.eqb_eq. exact (forallb_In _ _ H3 v Hv).
Qed.

Lemma feasible_pot_sum_zero pi net f : feasible net f = true -> pot_sum pi net f = 0.
Proof.
  intros H. destruct (feasible_parts _ _ H) as (_ & _ & Hc).
  rewrite (pot_sum_nodes pi (nodup Z.eq_dec (fnodes net))).
  - apply z_sum_map_zero. intros v Hv. apply nodup_In in Hv. rewrite Hc by exact Hv. lia.
  - apply NoDup_nodup.
  - intros v Hv. apply nodup_In. exact Hv.
Qed.

(* complementary slackness: every term of the reduced-cost sum is at least as large for g *)
Lemma rc_sum_le pi net : forall f g,
  length net = length f -> length net = length g ->
  forallb (fun '(e, x) => let rc := reduced_cost pi e in
             (negb (0 <? rc) || (x =? fe_lower e)) && (negb (rc <? 0) || (x =? fe_upper e)))
          (combine net f) = true ->
  forallb (fun '(e, x) => (fe_lower e <=? x) && (x <=? fe_upper e)) (combine net g) = true ->
  rc_sum pi net f <= rc_sum pi net g.
Proof.
  induction net as [|e net IH]; intros f g Hf Hg Hs Hb.
  - unfold rc_sum; cbn. lia.
  - destruct f as [|a f]; [discriminate|]. destruct g as [|b g]; [discriminate|].
    cbn [length] in Hf, Hg. injection Hf as Hf. injection Hg as Hg.
    cbn [combine forallb] in Hs, Hb.
    apply andb_prop in Hs; destruct Hs as [Hs Hs']. apply andb_prop in Hb; destruct Hb as [Hb Hb'].
    specialize (IH f g Hf Hg Hs' Hb').
    unfold rc_sum in *. cbn [combine map]. rewrite !z_sum_cons.
    cbv zeta in Hs.
    apply andb_prop in Hs; destruct Hs as [S1 S2]. apply andb_prop in Hb; destruct Hb as [B1 B2].
    apply Z.leb_le in B1. apply Z.leb_le in B2.
    set (rc := reduced_cost pi e) in *.
    assert (rc * a <= rc * b); [|lia].
    destruct (Z.ltb_spec 0 rc) as [P|P]; cbn [negb orb] in S1.
    + apply Z.eqb_eq in S1. subst a. nia.
    + destruct (Z.ltb_spec rc 0) as [N|N]; cbn [negb orb] in S2.
      * apply Z.eqb_eq in S2. subst a. nia.
      * assert (rc = 0) by lia. nia.
Qed.

Theorem dual_certificate_sound : stmt_dual_certificate_sound.
Proof.
  unfold stmt_dual_certificate_sound. intros net f pi Hc g Hg.
  unfold check_optimal in Hc. apply andb_prop in Hc; destruct Hc as [Hf Hs].
  rewrite (flow_cost_split pi net f), (flow_cost_split pi net g).
  rewrite (feasible_pot_sum_zero pi net f Hf), (feasible_pot_sum_zero pi net g Hg).
  destruct (feasible_parts _ _ Hf) as (Lf & _ & _).
  destruct (feasible_parts _ _ Hg) as (Lg & Bg & _).
  pose proof (rc_sum_le pi net f g Lf Lg Hs Bg). lia.
Qed.
Print Assumptions dual_certificate_sound.

Theorem feasible_meaning : stmt_feasible_meaning.
Proof.
  unfold stmt_feasible_meaning. intros net f H.
  destruct (feasible_parts _ _ H) as (Hl & Hb & Hc).
  split; [exact Hl|]. split.
  - intros e x Hin. pose proof (forallb_In _ _ Hb (e, x) Hin) as Hex. cbn in Hex.
    apply andb_prop in Hex; destruct Hex as [H1 H2].
    apply Z.leb_le in H1. apply Z.leb_le in H2. lia.
  - intros v. destruct (in_dec Z.eq_dec v (fnodes net)) as [Hv|Hv].
    + apply Hc; exact Hv.
    + apply net_flow_at_outside; exact Hv.
Qed.
Print Assumptions feasible_meaning.

(** ** spawning cost *)
Lemma spawning_cost_positive : stmt_spawning_cost_positive.
Proof.
  intros nw ty slots Hp Hl. unfold spawning_cost.
  set (m := fold_left Z.max _ _).
  assert (1 <= Z.max 1 m) by lia. nia.
Qed.

Lemma spawning_cost_dominates_rates : stmt_spawning_cost_dominates_rates.
Proof.
  intros nw ty slots Hp Hl P c Hc. unfold spawning_cost. fold P.
  cbn [fold_left].
  set (m := Z.max (Z.max (Z.max (Z.max (c_staff P) (c_service P)) (c_maint P)) (c_dh P)) (c_idle P)).
  assert (Hcm : c <= Z.max 1 m).
  { unfold m. cbn [In] in Hc. destruct Hc as [<-|[<-|[<-|[<-|[<-|[]]]]]]; lia. }
  assert (0 <= 3 * planning_s nw * total_lower_bound nw ty slots) by nia.
  replace (c * 3 * planning_s nw * total_lower_bound nw ty slots)
    with (c * (3 * planning_s nw * total_lower_bound nw ty slots)) by ring.
  replace (Z.max 1 m * 3 * planning_s nw * total_lower_bound nw ty slots)
    with (Z.max 1 m * (3 * planning_s nw * total_lower_bound nw ty slots)) by ring.
  apply Z.mul_le_mono_nonneg_r; assumption.
Qed.

Lemma spawning_cost_prefix_zero : stmt_spawning_cost_prefix_zero.
Proof.
  intros nw ty slots P H1 H2 H3 H4 H5. unfold spawning_cost_prefix. fold P.
  cbn [fold_left]. rewrite H1, H2, H3, H4, H5. reflexivity.
Qed.
