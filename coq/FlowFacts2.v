(* FlowFacts2.v — C14: what a passing [is_decomposition] of a feasible flow of the per-type flow network
   means (FlowStmts.v: stmt_decomposition_covers, stmt_flow_cost_is_tour_cost).

   Results (see the summary at the end of the file):
   - both statements are FALSE as written (they quantify over arbitrary [network] records and over tours
     whose depot nodes need not be nodes of the network): [decomposition_covers_refuted],
     [flow_cost_is_tour_cost_refuted];
   - [decomposition_covers_under_nondepot]: the first statement under "service trips and allotted slots are
     not depot nodes";
   - [flow_cost_is_tour_cost_under_wf]: the second statement under [flow_wf] (the structural facts every loaded
     network has) and [tours_ends] (tours start/end at depot nodes of the network).  No hypothesis
     "consecutive pairs are arcs" is needed: [decomposition_pairs_are_arcs] derives it from flow conservation. *)
From Coq Require Import List ZArith Bool Lia.
From RS Require Import Base BaseFacts Network NetSpec NetFacts Tour Flow FlowStmts FlowFacts.
Import ListNotations.
Open Scope Z_scope.

(** * Sums *)
Lemma zs_scal {A} (c : Z) (f : A -> Z) l : c * z_sum (map f l) = z_sum (map (fun a => c * f a) l).
Proof.
  induction l as [|a l IH]; [cbn; lia|].
  cbn [map]. rewrite !z_sum_cons, <- IH. lia.
Qed.

Lemma zs_swap {A B} (F : A -> B -> Z) la lb :
  z_sum (map (fun a => z_sum (map (fun b => F a b) lb)) la) =
  z_sum (map (fun b => z_sum (map (fun a => F a b) la)) lb).
Proof.
  induction la as [|a la IH].
  - cbn [map]. rewrite z_sum_map_zero; [reflexivity|]. intros; reflexivity.
  - cbn [map]. rewrite z_sum_cons, IH.
    rewrite <- z_sum_map_add. apply z_sum_map_ext. intros b _. rewrite z_sum_cons. reflexivity.
Qed.

Lemma zs_flat_map {A B} (g : B -> Z) (F : A -> list B) l :
  z_sum (map g (flat_map F l)) = z_sum (map (fun a => z_sum (map g (F a))) l).
Proof.
  induction l as [|a l IH]; [reflexivity|].
  cbn [flat_map map]. rewrite map_app, z_sum_app, z_sum_cons, IH. reflexivity.
Qed.

Lemma zs_map_map {A B} (g : B -> Z) (h : A -> B) l : z_sum (map g (map h l)) = z_sum (map (fun a => g (h a)) l).
Proof. rewrite map_map. reflexivity. Qed.

Lemma zs_unique {A} (h : A -> Z) (L : list A) a0 :
  NoDup L -> In a0 L -> (forall a, In a L -> a <> a0 -> h a = 0) -> z_sum (map h L) = h a0.
Proof.
  induction 1 as [|w L Hw Hnd IH]; intros Hin Hz; [destruct Hin|].
  cbn [map]. rewrite z_sum_cons. destruct Hin as [->|Hin].
  - rewrite z_sum_map_zero; [lia|]. intros a Ha. apply Hz; [right; exact Ha|]. intros ->; contradiction.
  - rewrite IH; [|exact Hin|intros a Ha; apply Hz; right; exact Ha].
    rewrite (Hz w); [lia|left; reflexivity|]. intros ->; contradiction.
Qed.

Lemma zs_nonneg {A} (h : A -> Z) l : (forall a, In a l -> 0 <= h a) -> 0 <= z_sum (map h l).
Proof.
  induction l as [|a l IH]; intros H; [cbn; lia|].
  cbn [map]. rewrite z_sum_cons. specialize (H a (or_introl eq_refl)) as Ha.
  assert (0 <= z_sum (map h l)) by (apply IH; intros b Hb; apply H; right; exact Hb). lia.
Qed.

Lemma zs_zero_all {A} (h : A -> Z) l :
  (forall a, In a l -> 0 <= h a) -> z_sum (map h l) = 0 -> forall a, In a l -> h a = 0.
Proof.
  induction l as [|b l IH]; intros Hn Hs a Ha; [destruct Ha|].
  cbn [map] in Hs. rewrite z_sum_cons in Hs.
  assert (Hb : 0 <= h b) by (apply Hn; left; reflexivity).
  assert (Hl : 0 <= z_sum (map h l)) by (apply zs_nonneg; intros c Hc; apply Hn; right; exact Hc).
  destruct Ha as [<-|Ha]; [lia|].
  apply IH; [intros c Hc; apply Hn; right; exact Hc|lia|exact Ha].
Qed.

Lemma zs_filter_len {A} (p : A -> bool) l :
  Z.of_nat (length (filter p l)) = z_sum (map (fun a => if p a then 1 else 0) l).
Proof.
  induction l as [|a l IH]; [reflexivity|].
  cbn [filter map]. rewrite z_sum_cons, <- IH. destruct (p a); cbn [length]; lia.
Qed.

Lemma zs_const {A} (c : Z) (l : list A) : z_sum (map (fun _ => c) l) = c * Z.of_nat (length l).
Proof.
  induction l as [|a l IH]; [cbn; lia|].
  cbn [map length]. rewrite z_sum_cons, IH. lia.
Qed.

Lemma zs_sub {A} (f g : A -> Z) l : z_sum (map (fun a => f a - g a) l) = z_sum (map f l) - z_sum (map g l).
Proof.
  induction l as [|a l IH]; [reflexivity|].
  cbn [map]. rewrite !z_sum_cons, IH. lia.
Qed.

(** * windows *)
Lemma windows_cons2 {A} (a b : A) r : windows (a :: b :: r) = (a, b) :: windows (b :: r).
Proof. reflexivity. Qed.

Lemma windows_snd {A} (a : A) r : map snd (windows (a :: r)) = r.
Proof.
  revert a; induction r as [|b r IH]; intros a; [reflexivity|].
  rewrite windows_cons2. cbn [map snd]. rewrite IH. reflexivity.
Qed.

Lemma windows_fst {A} (r : list A) (z : A) : map fst (windows (r ++ [z])) = r.
Proof.
  induction r as [|a r IH]; [reflexivity|].
  destruct r as [|b r]; [reflexivity|].
  change ((a :: b :: r) ++ [z]) with (a :: b :: (r ++ [z])). rewrite windows_cons2.
  cbn [map fst]. f_equal. exact IH.
Qed.

Lemma windows_in {A} (l : list A) x y : In (x, y) (windows l) -> In x (removelast l) /\ In y (tl l).
Proof.
  intros H. split.
  - destruct l as [|a r]; [destruct H|].
    destruct (@exists_last _ (a :: r)) as (r' & z & E); [discriminate|].
    rewrite E in *. rewrite removelast_last. rewrite <- (windows_fst r' z).
    change x with (fst (x, y)). apply in_map. exact H.
  - destruct l as [|a r]; [destruct H|]. cbn [tl]. rewrite <- (windows_snd a r).
    change y with (snd (x, y)). apply in_map. exact H.
Qed.

(** * A flow that passes the first check of [is_decomposition] is the list of edge uses *)
Lemma flow_is_uses (u : fedge -> Z) : forall (net : fnet) (f : flow),
  length net = length f -> forallb (fun '(e, x) => x =? u e) (combine net f) = true -> f = map u net.
Proof.
  induction net as [|e net IH]; intros f Hl Hc.
  - destruct f; [reflexivity|discriminate].
  - destruct f as [|x f]; [discriminate|]. cbn [length] in Hl. injection Hl as Hl.
    cbn [combine forallb] in Hc. apply andb_prop in Hc. destruct Hc as [H1 H2].
    apply Z.eqb_eq in H1. cbn [map]. rewrite <- (IH f Hl H2), H1. reflexivity.
Qed.

Lemma flow_cost_map (u : fedge -> Z) (net : fnet) :
  flow_cost net (map u net) = z_sum (map (fun e => fe_cost e * u e) net).
Proof.
  unfold flow_cost. induction net as [|e net IH]; [reflexivity|].
  cbn [map combine]. rewrite !z_sum_cons, IH. reflexivity.
Qed.

Definition kv (v : Z) (e : fedge) : Z := (if fe_tail e =? v then 1 else 0) - (if fe_head e =? v then 1 else 0).

Lemma net_flow_at_map (u : fedge -> Z) (net : fnet) v :
  net_flow_at net (map u net) v = z_sum (map (fun e => kv v e * u e) net).
Proof.
  unfold net_flow_at. induction net as [|e net IH]; [reflexivity|].
  cbn [map combine]. rewrite !z_sum_cons, IH. unfold kv.
  destruct (fe_tail e =? v), (fe_head e =? v); lia.
Qed.

(** * Edge uses as sums of indicators; exchanging the sums *)
Definition ind (e : fedge) (t h : Z) : Z := if (fe_tail e =? t) && (fe_head e =? h) then 1 else 0.

Section Uses.
Variable nw : network.

Definition nuse (e : fedge) (n : node_id) : Z :=
  if is_depot (nd nw n) then 0 else ind e (fl_node n) (fr_node n).
Definition suse (e : fedge) (t : list node_id) : Z :=
  match t with
  | s :: _ => match nd nw s with
              | NStart d => ind e (fl_depot (dn_depot d)) (fr_depot (dn_depot d))
              | _ => 0 end
  | [] => 0 end.
Definition ause (e : fedge) (w : node_id * node_id) : Z :=
  let '(x, y) := w in ind e (code_as_tail nw x) (code_as_head nw y).

Lemma uses_eq tours e :
  uses_of_edge nw tours e =
  z_sum (map (fun t => z_sum (map (nuse e) t) + suse e t + z_sum (map (ause e) (windows t))) tours).
Proof. reflexivity. Qed.

(* [lookup k t h]: the sum of k over the edges of the network with end points (t, h) *)
Definition lookup (net : fnet) (k : fedge -> Z) (t h : Z) : Z := z_sum (map (fun e => k e * ind e t h) net).
Definition nlook net k (n : node_id) : Z :=
  if is_depot (nd nw n) then 0 else lookup net k (fl_node n) (fr_node n).
Definition slook net k (t : list node_id) : Z :=
  match t with
  | s :: _ => match nd nw s with
              | NStart d => lookup net k (fl_depot (dn_depot d)) (fr_depot (dn_depot d))
              | _ => 0 end
  | [] => 0 end.
Definition alook net k (w : node_id * node_id) : Z :=
  let '(x, y) := w in lookup net k (code_as_tail nw x) (code_as_head nw y).

Lemma weighted_swap (net : fnet) (k : fedge -> Z) tours :
  z_sum (map (fun e => k e * uses_of_edge nw tours e) net) =
  z_sum (map (fun t => z_sum (map (nlook net k) t) + slook net k t + z_sum (map (alook net k) (windows t))) tours).
Proof.
  rewrite (z_sum_map_ext _ (fun e => z_sum (map (fun t =>
             k e * (z_sum (map (nuse e) t) + suse e t + z_sum (map (ause e) (windows t)))) tours))).
  2:{ intros e _. rewrite uses_eq, zs_scal. reflexivity. }
  rewrite zs_swap. apply z_sum_map_ext. intros t _.
  rewrite (z_sum_map_ext _ (fun e => (z_sum (map (fun n => k e * nuse e n) t) + k e * suse e t)
                                     + z_sum (map (fun w => k e * ause e w) (windows t)))).
  2:{ intros e _. rewrite <- !zs_scal. lia. }
  rewrite !z_sum_map_add. f_equal; [f_equal|].
  - rewrite zs_swap. apply z_sum_map_ext. intros n _. unfold nlook, nuse.
    destruct (is_depot (nd nw n)).
    + apply z_sum_map_zero. intros; lia.
    + reflexivity.
  - unfold slook, suse. destruct t as [|s t]; [apply z_sum_map_zero; intros; lia|].
    destruct (nd nw s); try (apply z_sum_map_zero; intros; lia). reflexivity.
  - rewrite zs_swap. apply z_sum_map_ext. intros [x y] _. reflexivity.
Qed.
End Uses.

(** * list helpers *)
Lemma NoDup_map_inj_in {A B} (f : A -> B) l :
  NoDup (map f l) -> forall a b, In a l -> In b l -> f a = f b -> a = b.
Proof.
  induction l as [|x l IH]; intros Hnd a b Ha Hb E; [destruct Ha|].
  cbn [map] in Hnd. inversion Hnd as [|? ? Hx Hnd']; subst.
  destruct Ha as [<-|Ha], Hb as [<-|Hb]; auto.
  - exfalso. apply Hx. rewrite E. apply in_map. exact Hb.
  - exfalso. apply Hx. rewrite <- E. apply in_map. exact Ha.
Qed.

Lemma NoDup_app_disj {A} (l1 l2 : list A) x : NoDup (l1 ++ l2) -> In x l1 -> In x l2 -> False.
Proof.
  induction l1 as [|a l1 IH]; intros Hnd H1 H2; [destruct H1|].
  cbn [app] in Hnd. inversion Hnd as [|? ? Ha Hnd']; subst.
  destruct H1 as [<-|H1]; [apply Ha, in_or_app; right; exact H2|]. exact (IH Hnd' H1 H2).
Qed.

Lemma NoDup_app_split {A} (l1 l2 : list A) : NoDup (l1 ++ l2) -> NoDup l1 /\ NoDup l2.
Proof.
  induction l1 as [|a l1 IH]; intros H; [split; [constructor|exact H]|].
  cbn [app] in H. inversion H as [|? ? Ha H']; subst. destruct (IH H') as [H1 H2].
  split; [|exact H2]. constructor; [|exact H1]. intros Hin. apply Ha, in_or_app. left; exact Hin.
Qed.

Lemma NoDup_app_build {A} (l1 l2 : list A) :
  NoDup l1 -> NoDup l2 -> (forall x, In x l1 -> In x l2 -> False) -> NoDup (l1 ++ l2).
Proof.
  induction l1 as [|a l1 IH]; intros H1 H2 Hd; [exact H2|].
  inversion H1 as [|? ? Ha H1']; subst. cbn [app]. constructor.
  - intros Hin. apply in_app_or in Hin. destruct Hin as [Hin|Hin]; [contradiction|].
    apply (Hd a); [left; reflexivity|exact Hin].
  - apply IH; auto. intros x Hx1 Hx2. apply (Hd x); [right; exact Hx1|exact Hx2].
Qed.

Lemma NoDup_map_of_inj {A B} (f : A -> B) l :
  (forall a b, In a l -> In b l -> f a = f b -> a = b) -> NoDup l -> NoDup (map f l).
Proof.
  induction l as [|x l IH]; intros Hinj Hnd; [constructor|].
  inversion Hnd as [|? ? Hx Hnd']; subst. cbn [map]. constructor.
  - intros Hin. apply in_map_iff in Hin. destruct Hin as (y & E & Hy).
    assert (y = x) by (apply Hinj; [right; exact Hy|left; reflexivity|exact E]). subst. contradiction.
  - apply IH; [|exact Hnd']. intros a b Ha Hb. apply Hinj; right; assumption.
Qed.

Lemma flat_map_map' {A B C} (g : B -> list C) (h : A -> B) l : flat_map g (map h l) = flat_map (fun x => g (h x)) l.
Proof. induction l as [|a l IH]; [reflexivity|]. cbn [map flat_map]. rewrite IH. reflexivity. Qed.

Definition ind2 (a b t h : Z) : Z := if (a =? t) && (b =? h) then 1 else 0.
Lemma ind2_same t h : ind2 t h t h = 1.
Proof. unfold ind2. rewrite !Z.eqb_refl. reflexivity. Qed.
Lemma ind2_neq a b t h : a <> t \/ b <> h -> ind2 a b t h = 0.
Proof.
  unfold ind2. intros H. destruct (Z.eqb_spec a t), (Z.eqb_spec b h); cbn [andb]; try reflexivity.
  exfalso; tauto.
Qed.

(** * The flow network of one vehicle type *)
Section Net.
Variable nw : network.
Variable ty : Z.
Variable slots : list (node_id * Z).
Let P := nw_params nw.
Let net := build_flow_network nw ty slots.

Definition service_edge (s : node_id) : fedge :=
  let mf := match maximal_formation_count_for nw s with Some l => l | None => 100 end in
  {| fe_tail := fl_node s; fe_head := fr_node s;
     fe_lower := Z.min (number_of_vehicles_required_to_serve nw ty s) mf; fe_upper := mf;
     fe_cost := node_dur_sec nw s * c_service P |}.
Definition maint_edge (mc : node_id * Z) : fedge :=
  let '(m, c) := mc in
  {| fe_tail := fl_node m; fe_head := fr_node m; fe_lower := c; fe_upper := c;
     fe_cost := node_dur_sec nw m * c_maint P |}.
Definition depot_edge (d : Z) : fedge :=
  {| fe_tail := fl_depot d; fe_head := fr_depot d; fe_lower := 0; fe_upper := capacity_of nw d ty;
     fe_cost := spawning_cost nw ty slots |}.
Definition tail_code (pred : node_id) : option Z :=
  match nd nw pred with
  | NService _ => Some (fr_node pred)
  | NStart d => Some (fr_depot (dn_depot d))
  | NMaint _ => if slot_allotted slots pred then Some (fr_node pred) else None
  | NEnd _ => None
  end.
Definition arc_cost (pred head_id : node_id) : Z :=
  dur_sec_or (dead_head_time_between nw pred head_id) (planning_s nw) * c_dh P +
  (if is_depot (nd nw pred) || is_depot (nd nw head_id) then 0
   else match idle_time_between nw pred head_id with Ok (Len s) => s * c_idle P | _ => 0 end).
Definition arc_edge (pred head_id : node_id) (tc hc : Z) : fedge :=
  {| fe_tail := tc; fe_head := hc; fe_lower := 0; fe_upper := arc_upper_bound nw ty slots;
     fe_cost := arc_cost pred head_id |}.
Definition arc_of (pred head_id : node_id) (hc : Z) : list fedge :=
  match tail_code pred with None => [] | Some tc => [arc_edge pred head_id tc hc] end.

Lemma service_edges_eq : service_edges nw ty = map service_edge (service_nodes nw ty).
Proof. reflexivity. Qed.
Lemma maint_edges_eq : maint_edges nw slots = map maint_edge slots.
Proof. unfold maint_edges. apply map_ext. intros [m c]. reflexivity. Qed.
Lemma depot_edges_eq : depot_edges nw ty slots = map depot_edge (depot_ids nw).
Proof. reflexivity. Qed.
Lemma arcs_into_eq h c : arcs_into nw ty slots h c = flat_map (fun p => arc_of p h c) (predecessors nw ty h).
Proof. reflexivity. Qed.

(* the heads of the connecting arcs with their codes *)
Definition heads : list (node_id * Z) :=
  map (fun s => (s, fl_node s)) (service_nodes nw ty) ++
  map (fun mc => (fst mc, fl_node (fst mc))) slots ++
  map (fun d => (get_end_depot_node nw d, fl_depot d)) (depot_ids nw).

Lemma connecting_eq :
  connecting_edges nw ty slots = flat_map (fun hc => arcs_into nw ty slots (fst hc) (snd hc)) heads.
Proof.
  unfold connecting_edges, heads. rewrite !flat_map_app, !flat_map_map'. cbn [fst snd].
  f_equal. f_equal. apply flat_map_ext. intros [m c]. reflexivity.
Qed.

Definition arc_term (k : fedge -> Z) (t h : Z) (hid : node_id) (hc : Z) (p : node_id) : Z :=
  match tail_code p with None => 0 | Some tc => k (arc_edge p hid tc hc) * ind2 tc hc t h end.

Lemma lookup_split (k : fedge -> Z) t h :
  lookup net k t h =
  z_sum (map (fun s => k (service_edge s) * ind2 (fl_node s) (fr_node s) t h) (service_nodes nw ty)) +
  z_sum (map (fun mc => k (maint_edge mc) * ind2 (fl_node (fst mc)) (fr_node (fst mc)) t h) slots) +
  z_sum (map (fun hc => z_sum (map (arc_term k t h (fst hc) (snd hc)) (predecessors nw ty (fst hc)))) heads) +
  z_sum (map (fun d => k (depot_edge d) * ind2 (fl_depot d) (fr_depot d) t h) (depot_ids nw)).
Proof.
  unfold lookup, net, build_flow_network.
  rewrite !map_app, !z_sum_app.
  rewrite service_edges_eq, maint_edges_eq, depot_edges_eq, connecting_eq.
  rewrite !zs_map_map, zs_flat_map.
  assert (E2 : z_sum (map (fun a => k (maint_edge a) * ind (maint_edge a) t h) slots) =
               z_sum (map (fun mc => k (maint_edge mc) * ind2 (fl_node (fst mc)) (fr_node (fst mc)) t h) slots)).
  { apply z_sum_map_ext. intros [m c] _. reflexivity. }
  assert (E3 : z_sum (map (fun a => z_sum (map (fun e => k e * ind e t h) (arcs_into nw ty slots (fst a) (snd a)))) heads) =
               z_sum (map (fun hc => z_sum (map (arc_term k t h (fst hc) (snd hc)) (predecessors nw ty (fst hc)))) heads)).
  { apply z_sum_map_ext. intros [hid hc] _. cbn [fst snd]. rewrite arcs_into_eq, zs_flat_map.
    apply z_sum_map_ext. intros p _. unfold arc_of, arc_term. destruct (tail_code p); [|reflexivity].
    cbn [map]. rewrite z_sum_cons. unfold z_sum; cbn [fold_left]. unfold ind, ind2, arc_edge; cbn [fe_tail fe_head]. lia. }
  rewrite E2, E3. unfold ind, ind2, service_edge, depot_edge; cbn [fe_tail fe_head]. lia.
Qed.
(** ** Structural hypotheses (all hold in every loaded network; see [flow_wf_of_net_wf] and the example at the
       end of the file) *)
Record flow_wf : Prop := {
  (* the service trips of the type are service nodes with concrete times *)
  wf_service : forall s, In s (service_nodes nw ty) -> is_service (nd nw s) = true /\ node_wf (nd nw s) = true;
  (* the allotted slots are maintenance nodes with concrete times *)
  wf_slots : forall m, In m (map fst slots) -> is_maint (nd nw m) = true /\ node_wf (nd nw m) = true;
  (* the start depot nodes: one per depot, the one the depot table names *)
  wf_sdepots : forall n, In n (nw_sdepots nw) ->
     is_start_depot (nd nw n) = true /\ In (get_depot_idx nw n) (depot_ids nw) /\
     get_start_depot_node nw (get_depot_idx nw n) = n;
  wf_edepots : forall n, In n (nw_edepots nw) ->
     is_end_depot (nd nw n) = true /\ In (get_depot_idx nw n) (depot_ids nw) /\
     get_end_depot_node nw (get_depot_idx nw n) = n;
  (* predecessor lists do not repeat and list only nodes of this type *)
  wf_preds_nodup : forall h, NoDup (predecessors nw ty h);
  wf_pred_service : forall h p, In p (predecessors nw ty h) -> is_service (nd nw p) = true -> In p (service_nodes nw ty);
  wf_pred_start : forall h p, In p (predecessors nw ty h) -> is_start_depot (nd nw p) = true -> In p (nw_sdepots nw)
}.

Definition acts : list node_id := service_nodes nw ty ++ map fst slots.

Section Wf.
Hypothesis CD : codes_distinct nw ty slots.
Hypothesis WF : flow_wf.

Lemma acts_idx_inj a b : In a acts -> In b acts -> nid_idx a = nid_idx b -> a = b.
Proof. destruct CD as [H _]. apply (NoDup_map_inj_in nid_idx _ H). Qed.

Lemma acts_nodup : NoDup acts.
Proof. destruct CD as [H _]. apply NoDup_map_inv in H. exact H. Qed.
Lemma service_nodup : NoDup (service_nodes nw ty).
Proof. pose proof acts_nodup as H. unfold acts in H. apply NoDup_app_split in H. tauto. Qed.
Lemma slotids_nodup : NoDup (map fst slots).
Proof. pose proof acts_nodup as H. unfold acts in H. apply NoDup_app_split in H. tauto. Qed.
Lemma slots_nodup : NoDup slots.
Proof. apply NoDup_map_inv with (f := fst). exact slotids_nodup. Qed.
Lemma depot_ids_nodup : NoDup (depot_ids nw).
Proof. destruct CD as [_ H]. exact H. Qed.

Lemma service_in_acts s : In s (service_nodes nw ty) -> In s acts.
Proof. intros H. apply in_or_app. left; exact H. Qed.
Lemma slot_in_acts m : In m (map fst slots) -> In m acts.
Proof. intros H. apply in_or_app. right; exact H. Qed.
Lemma service_slot_disj s : In s (service_nodes nw ty) -> In s (map fst slots) -> False.
Proof. apply NoDup_app_disj. exact acts_nodup. Qed.

Lemma slot_fst_in m c : In (m, c) slots -> In m (map fst slots).
Proof. intros H. change m with (fst (m, c)). apply in_map. exact H. Qed.

Lemma slot_allotted_iff m : slot_allotted slots m = true <-> In m (map fst slots).
Proof.
  unfold slot_allotted. rewrite existsb_exists. split.
  - intros ([x c] & Hin & E). apply nid_eqb_eq in E. subst. eapply slot_fst_in; eauto.
  - intros H. apply in_map_iff in H. destruct H as ([x c] & E & Hin). cbn [fst] in E. subst.
    exists (m, c). split; [exact Hin|apply nid_eqb_refl].
Qed.

Lemma act_nd a : In a acts -> is_depot (nd nw a) = false /\ node_wf (nd nw a) = true /\
  code_as_tail nw a = fr_node a /\ code_as_head nw a = fl_node a /\ tail_code a = Some (fr_node a).
Proof.
  intros H. apply in_app_or in H. destruct H as [H|H].
  - destruct (wf_service WF a H) as [Hs Hw]. unfold code_as_tail, code_as_head, tail_code.
    destruct (nd nw a); try discriminate. auto.
  - destruct (wf_slots WF a H) as [Hs Hw]. unfold code_as_tail, code_as_head, tail_code.
    apply slot_allotted_iff in H. rewrite H.
    destruct (nd nw a); try discriminate. auto.
Qed.

Lemma sdepot_nd n : In n (nw_sdepots nw) ->
  is_depot (nd nw n) = true /\ code_as_tail nw n = fr_depot (get_depot_idx nw n) /\
  tail_code n = Some (fr_depot (get_depot_idx nw n)) /\ sm_cost nw n = 0 /\
  exists d, nd nw n = NStart d /\ dn_depot d = get_depot_idx nw n.
Proof.
  intros H. destruct (wf_sdepots WF n H) as (Hs & _ & _).
  unfold code_as_tail, tail_code, get_depot_idx, sm_cost.
  destruct (nd nw n) as [d| | |]; try discriminate. repeat split; try reflexivity; [lia|]. exists d; auto.
Qed.

Lemma edepot_nd n : In n (nw_edepots nw) ->
  is_depot (nd nw n) = true /\ code_as_head nw n = fl_depot (get_depot_idx nw n) /\ sm_cost nw n = 0 /\
  exists d, nd nw n = NEnd d /\ dn_depot d = get_depot_idx nw n.
Proof.
  intros H. destruct (wf_edepots WF n H) as (Hs & _ & _).
  unfold code_as_head, get_depot_idx, sm_cost.
  destruct (nd nw n) as [| | |d]; try discriminate. repeat split; try reflexivity; [lia|]. exists d; auto.
Qed.

(* tails of arcs / first components of windows *)
Definition good_tail (x : node_id) : Prop := In x acts \/ In x (nw_sdepots nw).
(* heads of arcs / second components of windows *)
Definition good_head (y : node_id) : Prop := In y acts \/ In y (nw_edepots nw).

Lemma good_tail_code x : good_tail x -> tail_code x = Some (code_as_tail nw x).
Proof.
  intros [H|H].
  - destruct (act_nd x H) as (_ & _ & E1 & _ & E2). rewrite E1. exact E2.
  - destruct (sdepot_nd x H) as (_ & E1 & E2 & _). rewrite E1. exact E2.
Qed.

Lemma good_tail_inj p x : good_tail p -> good_tail x -> code_as_tail nw p = code_as_tail nw x -> p = x.
Proof.
  intros [Hp|Hp] [Hx|Hx] E.
  - destruct (act_nd p Hp) as (_ & _ & E1 & _). destruct (act_nd x Hx) as (_ & _ & E2 & _).
    rewrite E1, E2 in E. unfold fr_node in E. apply acts_idx_inj; auto. lia.
  - destruct (act_nd p Hp) as (_ & _ & E1 & _). destruct (sdepot_nd x Hx) as (_ & E2 & _).
    rewrite E1, E2 in E. unfold fr_node, fr_depot in E. lia.
  - destruct (sdepot_nd p Hp) as (_ & E1 & _). destruct (act_nd x Hx) as (_ & _ & E2 & _).
    rewrite E1, E2 in E. unfold fr_node, fr_depot in E. lia.
  - destruct (sdepot_nd p Hp) as (_ & E1 & _). destruct (sdepot_nd x Hx) as (_ & E2 & _).
    rewrite E1, E2 in E. unfold fr_depot in E.
    destruct (wf_sdepots WF p Hp) as (_ & _ & Cp). destruct (wf_sdepots WF x Hx) as (_ & _ & Cx).
    rewrite <- Cp, <- Cx. f_equal. lia.
Qed.

Lemma pred_good_tail h p tc : In p (predecessors nw ty h) -> tail_code p = Some tc ->
  good_tail p /\ tc = code_as_tail nw p.
Proof.
  intros Hin Htc.
  assert (G : good_tail p).
  { unfold tail_code in Htc. destruct (nd nw p) eqn:E.
    - right. apply (wf_pred_start WF h p Hin). rewrite E. reflexivity.
    - left. apply service_in_acts. apply (wf_pred_service WF h p Hin). rewrite E. reflexivity.
    - left. apply slot_in_acts. apply slot_allotted_iff. destruct (slot_allotted slots p); [reflexivity|discriminate].
    - discriminate. }
  split; [exact G|]. rewrite (good_tail_code p G) in Htc. congruence.
Qed.

Lemma tail_form x : exists z, code_as_tail nw x = 4 * z + 1 \/ code_as_tail nw x = 4 * z + 3.
Proof.
  unfold code_as_tail. destruct (nd nw x) as [d| | |].
  - exists (dn_depot d). right. reflexivity.
  - exists (nid_idx x). left. reflexivity.
  - exists (nid_idx x). left. reflexivity.
  - exists (nid_idx x). left. reflexivity.
Qed.

Lemma heads_form hc : In hc heads -> exists z, snd hc = 4 * z \/ snd hc = 4 * z + 2.
Proof.
  unfold heads. intros H. apply in_app_or in H. destruct H as [H|H]; [|apply in_app_or in H; destruct H as [H|H]].
  - apply in_map_iff in H. destruct H as (s & <- & _). exists (nid_idx s). left. reflexivity.
  - apply in_map_iff in H. destruct H as (s & <- & _). exists (nid_idx (fst s)). left. reflexivity.
  - apply in_map_iff in H. destruct H as (d & <- & _). exists d. right. reflexivity.
Qed.

Lemma heads_snd_nodup : NoDup (map snd heads).
Proof.
  unfold heads. rewrite !map_app, !map_map. cbn [snd].
  assert (E : map (fun x : node_id => fl_node x) (service_nodes nw ty) ++
              map (fun x : node_id * Z => fl_node (fst x)) slots = map fl_node acts).
  { unfold acts. rewrite map_app, map_map. reflexivity. }
  rewrite app_assoc, E. apply NoDup_app_build.
  - apply NoDup_map_of_inj; [|exact acts_nodup].
    intros a b Ha Hb E'. apply acts_idx_inj; auto. unfold fl_node in E'. lia.
  - apply NoDup_map_of_inj; [|exact depot_ids_nodup]. intros a b _ _ E'. unfold fl_depot in E'. lia.
  - intros x H1 H2. apply in_map_iff in H1. destruct H1 as (a & <- & _).
    apply in_map_iff in H2. destruct H2 as (d & E' & _). unfold fl_node, fl_depot in E'. lia.
Qed.

Lemma heads_nodup : NoDup heads.
Proof. apply NoDup_map_inv with (f := snd). exact heads_snd_nodup. Qed.

Lemma good_head_in y : good_head y -> In (y, code_as_head nw y) heads.
Proof.
  unfold heads. intros [H|H].
  - destruct (act_nd y H) as (_ & _ & _ & E & _). rewrite E.
    apply in_app_or in H. destruct H as [H|H].
    + apply in_or_app. left. apply in_map_iff. exists y. auto.
    + apply in_or_app. right. apply in_or_app. left. apply in_map_iff in H. destruct H as (mc & <- & Hin).
      apply in_map_iff. exists mc. auto.
  - destruct (edepot_nd y H) as (_ & E & _). rewrite E.
    destruct (wf_edepots WF y H) as (_ & Hd & Cy).
    apply in_or_app. right. apply in_or_app. right. apply in_map_iff.
    exists (get_depot_idx nw y). rewrite Cy. auto.
Qed.

(** ** the unique edge with given end points *)
Lemma lookup_service k s : In s (service_nodes nw ty) ->
  lookup net k (fl_node s) (fr_node s) = k (service_edge s).
Proof.
  intros Hs. rewrite lookup_split.
  rewrite (zs_unique _ _ s service_nodup Hs).
  2:{ intros a Ha Hne. rewrite ind2_neq; [lia|]. left. intros E. apply Hne.
      apply acts_idx_inj; auto using service_in_acts. unfold fl_node in E. lia. }
  rewrite ind2_same.
  rewrite (z_sum_map_zero _ slots).
  2:{ intros [m c] Hin. cbn [fst]. rewrite ind2_neq; [lia|]. left. intros E.
      apply (service_slot_disj s Hs).
      assert (m = s); [|subst; eapply slot_fst_in; eauto].
      apply acts_idx_inj; [eapply slot_in_acts, slot_fst_in; eauto|apply service_in_acts; auto|].
      unfold fl_node in E. lia. }
  rewrite (z_sum_map_zero _ heads).
  2:{ intros hc Hin. apply z_sum_map_zero. intros p _. unfold arc_term. destruct (tail_code p); [|reflexivity].
      destruct (heads_form hc Hin) as (z0 & Hz0). rewrite ind2_neq; [lia|]. right. unfold fr_node. lia. }
  rewrite (z_sum_map_zero _ (depot_ids nw)).
  2:{ intros d _. rewrite ind2_neq; [lia|]. left. unfold fl_depot, fl_node. lia. }
  lia.
Qed.

Lemma lookup_maint k m c : In (m, c) slots ->
  lookup net k (fl_node m) (fr_node m) = k (maint_edge (m, c)).
Proof.
  intros Hs. rewrite lookup_split.
  rewrite (z_sum_map_zero _ (service_nodes nw ty)).
  2:{ intros s Hin. rewrite ind2_neq; [lia|]. left. intros E.
      apply (service_slot_disj s Hin).
      assert (s = m); [|subst; eapply slot_fst_in; eauto].
      apply acts_idx_inj; [apply service_in_acts; auto|eapply slot_in_acts, slot_fst_in; eauto|].
      unfold fl_node in E. lia. }
  rewrite (zs_unique _ _ (m, c) slots_nodup Hs).
  2:{ intros [m' c'] Ha Hne. cbn [fst]. rewrite ind2_neq; [lia|]. left. intros E.
      assert (m' = m).
      { apply acts_idx_inj; [eapply slot_in_acts, slot_fst_in; eauto|eapply slot_in_acts, slot_fst_in; eauto|].
        unfold fl_node in E. lia. }
      subst m'. apply Hne. f_equal.
      assert (E' : (m, c') = (m, c)); [|congruence].
      apply (NoDup_map_inj_in fst slots slotids_nodup); auto. }
  cbn [fst]. rewrite ind2_same.
  rewrite (z_sum_map_zero _ heads).
  2:{ intros hc Hin. apply z_sum_map_zero. intros p _. unfold arc_term. destruct (tail_code p); [|reflexivity].
      destruct (heads_form hc Hin) as (z0 & Hz0). rewrite ind2_neq; [lia|]. right. unfold fr_node. lia. }
  rewrite (z_sum_map_zero _ (depot_ids nw)).
  2:{ intros d _. rewrite ind2_neq; [lia|]. left. unfold fl_depot, fl_node. lia. }
  lia.
Qed.

Lemma lookup_depot k d : In d (depot_ids nw) ->
  lookup net k (fl_depot d) (fr_depot d) = k (depot_edge d).
Proof.
  intros Hd. rewrite lookup_split.
  rewrite (z_sum_map_zero _ (service_nodes nw ty)).
  2:{ intros s _. rewrite ind2_neq; [lia|]. left. unfold fl_depot, fl_node. lia. }
  rewrite (z_sum_map_zero _ slots).
  2:{ intros mc _. rewrite ind2_neq; [lia|]. left. unfold fl_depot, fl_node. lia. }
  rewrite (z_sum_map_zero _ heads).
  2:{ intros hc Hin. apply z_sum_map_zero. intros p _. unfold arc_term. destruct (tail_code p); [|reflexivity].
      destruct (heads_form hc Hin) as (z0 & Hz0). rewrite ind2_neq; [lia|]. right. unfold fr_depot. lia. }
  rewrite (zs_unique _ _ d depot_ids_nodup Hd).
  2:{ intros a _ Hne. rewrite ind2_neq; [lia|]. left. unfold fl_depot. lia. }
  rewrite ind2_same. lia.
Qed.

Definition is_arc (x y : node_id) : bool :=
  if in_dec nid_eq_dec x (predecessors nw ty y) then true else false.

Lemma lookup_arc k x y : good_tail x -> good_head y ->
  lookup net k (code_as_tail nw x) (code_as_head nw y) =
  if is_arc x y then k (arc_edge x y (code_as_tail nw x) (code_as_head nw y)) else 0.
Proof.
  intros Gx Gy. rewrite lookup_split.
  destruct (tail_form x) as (z & Hz).
  rewrite (z_sum_map_zero _ (service_nodes nw ty)).
  2:{ intros s _. rewrite ind2_neq; [lia|]. left. unfold fl_node. lia. }
  rewrite (z_sum_map_zero _ slots).
  2:{ intros mc _. rewrite ind2_neq; [lia|]. left. unfold fl_node. lia. }
  rewrite (z_sum_map_zero _ (depot_ids nw)).
  2:{ intros d _. rewrite ind2_neq; [lia|]. left. unfold fl_depot. lia. }
  rewrite (zs_unique _ _ (y, code_as_head nw y) heads_nodup (good_head_in y Gy)).
  2:{ intros hc Hin Hne. apply z_sum_map_zero. intros p _. unfold arc_term. destruct (tail_code p); [|reflexivity].
      rewrite ind2_neq; [lia|]. right. intros E. apply Hne.
      apply (NoDup_map_inj_in snd heads heads_snd_nodup); auto using good_head_in. }
  cbn [fst snd]. unfold is_arc.
  destruct (in_dec nid_eq_dec x (predecessors nw ty y)) as [Hin|Hnin].
  - rewrite (zs_unique _ _ x (wf_preds_nodup WF y) Hin).
    2:{ intros p Hp Hne. unfold arc_term. destruct (tail_code p) as [tc|] eqn:Etc; [|reflexivity].
        destruct (pred_good_tail y p tc Hp Etc) as [Gp ->].
        rewrite ind2_neq; [lia|]. left. intros E. apply Hne. apply good_tail_inj; auto. }
    unfold arc_term. rewrite (good_tail_code x Gx), ind2_same. lia.
  - rewrite z_sum_map_zero; [lia|]. intros p Hp.
    unfold arc_term. destruct (tail_code p) as [tc|] eqn:Etc; [|reflexivity].
    destruct (pred_good_tail y p tc Hp Etc) as [Gp ->].
    rewrite ind2_neq; [lia|]. left. intros E. apply Hnin.
    assert (p = x) by (apply good_tail_inj; auto). subst. exact Hp.
Qed.
End Wf.

(** ** Uses of the node edges and of the depot edges *)
Lemma ind_ind2 e t h : ind e t h = ind2 (fe_tail e) (fe_head e) t h.
Proof. reflexivity. Qed.

Lemma visits_sum tours a :
  visits tours a = z_sum (map (fun t => z_sum (map (fun n => if nid_eqb a n then 1 else 0) t)) tours).
Proof. unfold visits. apply z_sum_map_ext. intros t _. apply zs_filter_len. Qed.

Lemma nid_eqb_neq a b : a <> b -> nid_eqb a b = false.
Proof. intros H. destruct (nid_eqb a b) eqn:E; [|reflexivity]. apply nid_eqb_eq in E. contradiction. Qed.

Lemma uses_node_edge tours e a :
  codes_distinct nw ty slots -> tours_shape nw ty slots tours ->
  (forall x, In x acts -> is_depot (nd nw x) = false) ->
  In a acts -> fe_tail e = fl_node a -> fe_head e = fr_node a ->
  uses_of_edge nw tours e = visits tours a.
Proof.
  intros CD SH ND Ha Et Eh. rewrite uses_eq, visits_sum. apply z_sum_map_ext. intros t Ht.
  destruct (SH t Ht) as (sd & ed & mid & -> & Hsd & Hed & Hmid).
  assert (E2 : suse nw e (sd :: mid ++ [ed]) = 0).
  { unfold suse. destruct (nd nw sd); try reflexivity. rewrite ind_ind2, Et, Eh.
    apply ind2_neq. left. unfold fl_node, fl_depot. lia. }
  assert (E3 : z_sum (map (ause nw e) (windows (sd :: mid ++ [ed]))) = 0).
  { apply z_sum_map_zero. intros [x y] _. unfold ause. rewrite ind_ind2, Et, Eh.
    destruct (tail_form x) as (z & Hz). apply ind2_neq. left. unfold fl_node. lia. }
  rewrite E2, E3, !Z.add_0_r. apply z_sum_map_ext. intros n Hn.
  unfold nuse. destruct (is_depot (nd nw n)) eqn:Dn.
  - rewrite nid_eqb_neq; [reflexivity|]. intros ->. rewrite (ND n Ha) in Dn. discriminate.
  - assert (Hnm : In n acts).
    { destruct Hn as [<-|Hn].
      - unfold is_depot in Dn. rewrite Hsd in Dn. discriminate.
      - apply in_app_or in Hn. destruct Hn as [Hn|[<-|[]]].
        + unfold acts. apply in_or_app. exact (Hmid n Hn).
        + unfold is_depot in Dn. rewrite Hed, orb_true_r in Dn. discriminate. }
    rewrite ind_ind2, Et, Eh. destruct (nid_eq_dec a n) as [->|Hne].
    + rewrite nid_eqb_refl. apply ind2_same.
    + rewrite (nid_eqb_neq _ _ Hne). apply ind2_neq. left. intros E. apply Hne.
      apply (acts_idx_inj CD); auto. unfold fl_node in E. lia.
Qed.

Lemma uses_depot_edge tours e d :
  fe_tail e = fl_depot d -> fe_head e = fr_depot d -> uses_of_edge nw tours e = tours_from nw tours d.
Proof.
  intros Et Eh. rewrite uses_eq. unfold tours_from. rewrite zs_filter_len. apply z_sum_map_ext. intros t _.
  rewrite (z_sum_map_zero (nuse nw e)).
  2:{ intros n _. unfold nuse. destruct (is_depot (nd nw n)); [reflexivity|].
      rewrite ind_ind2, Et, Eh. apply ind2_neq. left. unfold fl_node, fl_depot. lia. }
  rewrite (z_sum_map_zero (ause nw e)).
  2:{ intros [x y] _. unfold ause. rewrite ind_ind2, Et, Eh.
      destruct (tail_form x) as (z & Hz). apply ind2_neq. left. unfold fl_depot. lia. }
  unfold suse. destruct t as [|s t]; [reflexivity|]. destruct (nd nw s) as [dd| | |]; try reflexivity.
  rewrite ind_ind2, Et, Eh. unfold ind2, fl_depot, fr_depot.
  destruct (Z.eqb_spec (dn_depot dd) d) as [->|Hne].
  - rewrite !Z.eqb_refl. reflexivity.
  - destruct (Z.eqb_spec (4 * d + 2) (4 * dn_depot dd + 2)); [lia|]. reflexivity.
Qed.

(** ** feasibility of a decomposed flow, edge by edge *)
Lemma in_combine_map {A B} (u : A -> B) l e : In e l -> In (e, u e) (combine l (map u l)).
Proof.
  induction l as [|a l IH]; intros H; [destruct H|].
  cbn [map combine]. destruct H as [->|H]; [left; reflexivity|right; exact (IH H)].
Qed.

Lemma decomposition_flow (f : flow) tours :
  feasible net f = true -> is_decomposition nw net f tours = true ->
  f = map (uses_of_edge nw tours) net.
Proof.
  intros Hf Hd. destruct (feasible_parts _ _ Hf) as (Hl & _ & _).
  unfold is_decomposition in Hd. apply andb_prop in Hd. destruct Hd as [Hd _].
  apply flow_is_uses; assumption.
Qed.

Lemma decomposition_bounds (f : flow) tours e :
  feasible net f = true -> is_decomposition nw net f tours = true -> In e net ->
  fe_lower e <= uses_of_edge nw tours e <= fe_upper e.
Proof.
  intros Hf Hd He. pose proof (decomposition_flow f tours Hf Hd) as E.
  destruct (feasible_meaning net f Hf) as (_ & Hb & _).
  apply Hb. rewrite E. apply in_combine_map. exact He.
Qed.

Lemma service_edge_in s : In s (service_nodes nw ty) -> In (service_edge s) net.
Proof.
  intros H. unfold net, build_flow_network. apply in_or_app. left. rewrite service_edges_eq. apply in_map. exact H.
Qed.
Lemma maint_edge_in mc : In mc slots -> In (maint_edge mc) net.
Proof.
  intros H. unfold net, build_flow_network. apply in_or_app. right. apply in_or_app. left.
  rewrite maint_edges_eq. apply in_map. exact H.
Qed.
Lemma depot_edge_in d : In d (depot_ids nw) -> In (depot_edge d) net.
Proof.
  intros H. unfold net, build_flow_network. apply in_or_app. right. apply in_or_app. right. apply in_or_app. right.
  rewrite depot_edges_eq. apply in_map. exact H.
Qed.

Theorem covers_core (f : flow) tours :
  codes_distinct nw ty slots -> tours_shape nw ty slots tours ->
  (forall x, In x acts -> is_depot (nd nw x) = false) ->
  feasible net f = true -> is_decomposition nw net f tours = true ->
  (forall s, In s (service_nodes nw ty) ->
     let mf := match maximal_formation_count_for nw s with Some l => l | None => 100 end in
     Z.min (number_of_vehicles_required_to_serve nw ty s) mf <= visits tours s <= mf) /\
  (forall m c, In (m, c) slots -> visits tours m = c) /\
  (forall d, In d (depot_ids nw) -> tours_from nw tours d <= capacity_of nw d ty).
Proof.
  intros CD SH ND Hf Hd. split; [|split].
  - intros s Hs mf.
    pose proof (decomposition_bounds f tours _ Hf Hd (service_edge_in s Hs)) as B.
    rewrite (uses_node_edge tours (service_edge s) s CD SH ND) in B; auto.
    apply in_or_app. left. exact Hs.
  - intros m c Hm.
    pose proof (decomposition_bounds f tours _ Hf Hd (maint_edge_in (m, c) Hm)) as B.
    rewrite (uses_node_edge tours (maint_edge (m, c)) m CD SH ND) in B; auto.
    + cbn [maint_edge fe_lower fe_upper] in B. lia.
    + apply in_or_app. right. change m with (fst (m, c)). apply in_map. exact Hm.
  - intros d Hd'.
    pose proof (decomposition_bounds f tours _ Hf Hd (depot_edge_in d Hd')) as B.
    rewrite (uses_depot_edge tours (depot_edge d) d) in B by reflexivity.
    cbn [depot_edge fe_upper] in B. lia.
Qed.

(** ** Costs: what the flow network charges is what Tour charges *)
Lemma act_duration n0 : is_activity n0 = true -> node_wf n0 = true ->
  (exists z, n_duration n0 = Ok (Len z)) \/ n_duration n0 = Panic.
Proof.
  intros A W. destruct (act_fields n0 A W) as (a & b & l1 & l2 & Es & Ee & _ & _).
  assert (E : n_duration n0 = dt_diff (n_end_time n0) (n_start_time n0)).
  { destruct n0; try discriminate; reflexivity. }
  rewrite E, Es, Ee. unfold dt_diff. destruct (dt_leb (Point a) (Point b)); [left; eexists; reflexivity|right; reflexivity].
Qed.

Lemma sm_cost_service s : is_service (nd nw s) = true -> node_wf (nd nw s) = true ->
  sm_cost nw s = node_dur_sec nw s * c_service P.
Proof.
  intros Hs Hw. unfold sm_cost, node_dur_sec, node_duration.
  assert (A : is_activity (nd nw s) = true) by (unfold is_activity; rewrite Hs; reflexivity).
  destruct (act_duration _ A Hw) as [(z & ->)| ->];
    destruct (nd nw s); try discriminate; reflexivity.
Qed.

Lemma sm_cost_maint s : is_maint (nd nw s) = true -> node_wf (nd nw s) = true ->
  sm_cost nw s = node_dur_sec nw s * c_maint P.
Proof.
  intros Hs Hw. unfold sm_cost, node_dur_sec, node_duration.
  assert (A : is_activity (nd nw s) = true) by (unfold is_activity; rewrite Hs; apply orb_true_r).
  destruct (act_duration _ A Hw) as [(z & ->)| ->];
    destruct (nd nw s); try discriminate; reflexivity.
Qed.

Lemma idle_len x y : is_activity (nd nw x) = true -> is_activity (nd nw y) = true ->
  node_wf (nd nw x) = true -> node_wf (nd nw y) = true ->
  exists z, idle_time_between nw x y = Ok (Len z).
Proof.
  intros Ax Ay Wx Wy.
  destruct (act_fields _ Ax Wx) as (a1 & e & la & l1 & _ & E1 & _ & _).
  destruct (act_fields _ Ay Wy) as (s & b2 & l2 & lb & E2 & _ & _ & _).
  unfold idle_time_between.
  destruct (is_start_depot (nd nw x) || is_end_depot (nd nw y)); [eexists; reflexivity|].
  unfold end_time, start_time. rewrite E1, E2.
  destruct (dead_head_time_between nw x y) as [l|]; cbn [dt_add].
  - destruct (dt_leb (Point (e + l)) (Point s)) eqn:L; [|eexists; reflexivity].
    unfold dt_diff. rewrite L. eexists; reflexivity.
  - cbn. eexists; reflexivity.
Qed.

Section Cost.
Hypothesis CD : codes_distinct nw ty slots.
Hypothesis WF : flow_wf.

Lemma act_activity a : In a acts -> is_activity (nd nw a) = true /\ node_wf (nd nw a) = true.
Proof.
  intros H. apply in_app_or in H. unfold is_activity. destruct H as [H|H].
  - destruct (wf_service WF a H) as [-> ->]. auto.
  - destruct (wf_slots WF a H) as [-> ->]. rewrite orb_true_r. auto.
Qed.

Lemma arc_cost_is_dhi x y : good_tail x -> good_head y -> arc_cost x y = dhi_cost nw x y.
Proof.
  intros Gx Gy. unfold arc_cost, dhi_cost. fold P.
  change (planning_sec nw) with (planning_s nw). f_equal.
  unfold idle_sec.
  destruct Gx as [Hx|Hx].
  - destruct (act_nd WF x Hx) as (Dx & _).
    destruct Gy as [Hy|Hy].
    + destruct (act_nd WF y Hy) as (Dy & _). rewrite Dx, Dy. cbn [orb].
      destruct (act_activity x Hx) as [Ax Wx]. destruct (act_activity y Hy) as [Ay Wy].
      destruct (idle_len x y Ax Ay Wx Wy) as (z & ->). reflexivity.
    + destruct (edepot_nd WF y Hy) as (Dy & _ & _ & d & Ey & _). rewrite Dy, orb_true_r.
      unfold idle_time_between. rewrite Ey. cbn [is_end_depot]. rewrite orb_true_r. reflexivity.
  - destruct (sdepot_nd WF x Hx) as (Dx & _ & _ & _ & d & Ex & _). rewrite Dx. cbn [orb].
    unfold idle_time_between. rewrite Ex. reflexivity.
Qed.

(** ** tours that start and end at depot nodes of the network *)
Definition tours_ends (tours : list (list node_id)) : Prop :=
  forall t, In t tours -> In (hd (SD 0) t) (nw_sdepots nw) /\ In (last t (SD 0)) (nw_edepots nw).
Definition tour_ok (t : list node_id) : Prop :=
  exists sd ed mid, t = sd :: mid ++ [ed] /\ In sd (nw_sdepots nw) /\ In ed (nw_edepots nw) /\
    forall n, In n mid -> In n acts.

Lemma tours_ok tours : tours_shape nw ty slots tours -> tours_ends tours -> forall t, In t tours -> tour_ok t.
Proof.
  intros SH TE t Ht. destruct (SH t Ht) as (sd & ed & mid & -> & _ & _ & Hmid).
  destruct (TE _ Ht) as [H1 H2]. cbn [hd] in H1.
  change (sd :: mid ++ [ed]) with ((sd :: mid) ++ [ed]) in H2. rewrite last_last in H2.
  exists sd, ed, mid. repeat split; auto. intros n Hn. unfold acts. apply in_or_app. exact (Hmid n Hn).
Qed.

Lemma tour_window_good sd mid ed x y :
  In sd (nw_sdepots nw) -> In ed (nw_edepots nw) -> (forall n, In n mid -> In n acts) ->
  In (x, y) (windows (sd :: mid ++ [ed])) -> good_tail x /\ good_head y.
Proof.
  intros Hsd Hed Hmid Hw. apply windows_in in Hw. destruct Hw as [Hx Hy].
  change (sd :: mid ++ [ed]) with ((sd :: mid) ++ [ed]) in Hx. rewrite removelast_last in Hx.
  cbn [tl] in Hy. split.
  - destruct Hx as [<-|Hx]; [right; exact Hsd|left; exact (Hmid x Hx)].
  - apply in_app_or in Hy. destruct Hy as [Hy|[<-|[]]]; [left; exact (Hmid y Hy)|right; exact Hed].
Qed.

(** ** the sums of [weighted_swap] for the weight [fe_cost] *)
Lemma nlook_cost_act a : In a acts -> nlook nw net fe_cost a = sm_cost nw a.
Proof.
  intros Ha. unfold nlook. destruct (act_nd WF a Ha) as (-> & _).
  apply in_app_or in Ha. destruct Ha as [Ha|Ha].
  - rewrite (lookup_service CD fe_cost a Ha). destruct (wf_service WF a Ha) as [Hs Hw].
    rewrite (sm_cost_service a Hs Hw). reflexivity.
  - apply in_map_iff in Ha. destruct Ha as ([m c] & E & Hin). cbn [fst] in E. subst m.
    rewrite (lookup_maint CD fe_cost a c Hin).
    destruct (wf_slots WF a (slot_fst_in a c Hin)) as [Hs Hw].
    rewrite (sm_cost_maint a Hs Hw). reflexivity.
Qed.

Lemma tour_cost t : tour_ok t ->
  (forall x y, In (x, y) (windows t) -> is_arc x y = true) ->
  z_sum (map (nlook nw net fe_cost) t) + slook nw net fe_cost t + z_sum (map (alook nw net fe_cost) (windows t)) =
  spawning_cost nw ty slots + compute_costs nw t.
Proof.
  intros (sd & ed & mid & -> & Hsd & Hed & Hmid) Harc.
  unfold compute_costs.
  assert (E1 : z_sum (map (nlook nw net fe_cost) (sd :: mid ++ [ed])) = z_sum (map (sm_cost nw) (sd :: mid ++ [ed]))).
  { apply z_sum_map_ext. intros n Hn. destruct Hn as [<-|Hn].
    - destruct (sdepot_nd WF sd Hsd) as (D & _ & _ & -> & _). unfold nlook. rewrite D. reflexivity.
    - apply in_app_or in Hn. destruct Hn as [Hn|[<-|[]]].
      + apply nlook_cost_act. exact (Hmid n Hn).
      + destruct (edepot_nd WF ed Hed) as (D & _ & -> & _). unfold nlook. rewrite D. reflexivity. }
  assert (E2 : slook nw net fe_cost (sd :: mid ++ [ed]) = spawning_cost nw ty slots).
  { unfold slook. destruct (sdepot_nd WF sd Hsd) as (_ & _ & _ & _ & d & -> & ->).
    destruct (wf_sdepots WF sd Hsd) as (_ & Hd & _).
    rewrite (lookup_depot CD fe_cost _ Hd). reflexivity. }
  assert (E3 : z_sum (map (alook nw net fe_cost) (windows (sd :: mid ++ [ed]))) =
               z_sum (map (fun '(a, b) => dhi_cost nw a b) (windows (sd :: mid ++ [ed])))).
  { apply z_sum_map_ext. intros [x y] Hw. unfold alook.
    destruct (tour_window_good sd mid ed x y Hsd Hed Hmid Hw) as [Gx Gy].
    rewrite (lookup_arc CD WF fe_cost x y Gx Gy), (Harc x y Hw).
    cbn [arc_edge fe_cost]. apply arc_cost_is_dhi; assumption. }
  rewrite E1, E2, E3. lia.
Qed.

(** ** conservation: every consecutive pair of every tour is an arc of the network *)
Definition eqz (a b : Z) : Z := if a =? b then 1 else 0.
Lemma eqz_same a : eqz a a = 1.
Proof. unfold eqz. rewrite Z.eqb_refl. reflexivity. Qed.
Lemma eqz_neq a b : a <> b -> eqz a b = 0.
Proof. unfold eqz. intros H. destruct (Z.eqb_spec a b); [contradiction|reflexivity]. Qed.
Lemma eqz_range a b : 0 <= eqz a b <= 1.
Proof. unfold eqz. destruct (a =? b); lia. Qed.
Lemma kv_eqz v e : kv v e = eqz (fe_tail e) v - eqz (fe_head e) v.
Proof. reflexivity. Qed.

Definition arcz (x y : node_id) : Z := if is_arc x y then 1 else 0.

Lemma tour_kv v sd mid ed :
  In sd (nw_sdepots nw) -> In ed (nw_edepots nw) -> (forall n, In n mid -> In n acts) ->
  (exists z, v = 4 * z \/ v = 4 * z + 2) ->
  let t := sd :: mid ++ [ed] in
  z_sum (map (nlook nw net (kv v)) t) + slook nw net (kv v) t + z_sum (map (alook nw net (kv v)) (windows t)) =
  z_sum (map (fun n => eqz (fl_node n) v) mid) + eqz (fl_depot (get_depot_idx nw sd)) v
  - z_sum (map (fun w => arcz (fst w) (snd w) * eqz (code_as_head nw (snd w)) v) (windows t)).
Proof.
  intros Hsd Hed Hmid (z & Hz) t.
  assert (E1 : z_sum (map (nlook nw net (kv v)) t) = z_sum (map (fun n => eqz (fl_node n) v) mid)).
  { unfold t. cbn [map]. rewrite z_sum_cons, map_app, z_sum_app. cbn [map]. rewrite z_sum_cons.
    destruct (sdepot_nd WF sd Hsd) as (D1 & _). destruct (edepot_nd WF ed Hed) as (D2 & _).
    unfold nlook at 1 3. rewrite D1, D2. change (z_sum []) with 0.
    rewrite (z_sum_map_ext (nlook nw net (kv v)) (fun n => eqz (fl_node n) v) mid); [lia|].
    intros a Ha. specialize (Hmid a Ha). unfold nlook. destruct (act_nd WF a Hmid) as (-> & _).
    assert (Ek : forall e, fe_tail e = fl_node a -> fe_head e = fr_node a -> kv v e = eqz (fl_node a) v).
    { intros e Et Eh. rewrite kv_eqz, Et, Eh. rewrite (eqz_neq (fr_node a)); [lia|]. unfold fr_node. lia. }
    apply in_app_or in Hmid. destruct Hmid as [Hs|Hs].
    - rewrite (lookup_service CD (kv v) a Hs). apply Ek; reflexivity.
    - apply in_map_iff in Hs. destruct Hs as ([m c] & E & Hin). cbn [fst] in E. subst m.
      rewrite (lookup_maint CD (kv v) a c Hin). apply Ek; reflexivity. }
  assert (E2 : slook nw net (kv v) t = eqz (fl_depot (get_depot_idx nw sd)) v).
  { unfold slook, t. destruct (sdepot_nd WF sd Hsd) as (_ & _ & _ & _ & d & -> & ->).
    destruct (wf_sdepots WF sd Hsd) as (_ & Hd & _).
    rewrite (lookup_depot CD (kv v) _ Hd). rewrite kv_eqz. cbn [depot_edge fe_tail fe_head].
    rewrite (eqz_neq (fr_depot _)); [lia|]. unfold fr_depot. lia. }
  assert (E3 : z_sum (map (alook nw net (kv v)) (windows t)) =
               - z_sum (map (fun w => arcz (fst w) (snd w) * eqz (code_as_head nw (snd w)) v) (windows t))).
  { replace (- z_sum (map (fun w => arcz (fst w) (snd w) * eqz (code_as_head nw (snd w)) v) (windows t)))
      with (-1 * z_sum (map (fun w => arcz (fst w) (snd w) * eqz (code_as_head nw (snd w)) v) (windows t))) by lia.
    rewrite zs_scal. apply z_sum_map_ext. intros [x y] Hw. unfold alook. cbn [fst snd].
    destruct (tour_window_good sd mid ed x y Hsd Hed Hmid Hw) as [Gx Gy].
    rewrite (lookup_arc CD WF (kv v) x y Gx Gy). unfold arcz. destruct (is_arc x y); [|lia].
    rewrite kv_eqz. cbn [arc_edge fe_tail fe_head].
    destruct (tail_form x) as (z' & Hz'). rewrite (eqz_neq (code_as_tail nw x)); lia. }
  rewrite E1, E2, E3. lia.
Qed.

Lemma tour_heads_sum v sd mid ed :
  In ed (nw_edepots nw) -> (forall n, In n mid -> In n acts) ->
  z_sum (map (fun w => eqz (code_as_head nw (snd w)) v) (windows (sd :: mid ++ [ed]))) =
  z_sum (map (fun n => eqz (fl_node n) v) mid) + eqz (fl_depot (get_depot_idx nw ed)) v.
Proof.
  intros Hed Hmid.
  rewrite <- (zs_map_map (fun y => eqz (code_as_head nw y) v) snd), windows_snd.
  rewrite map_app, z_sum_app. cbn [map]. rewrite z_sum_cons. change (z_sum []) with 0.
  destruct (edepot_nd WF ed Hed) as (_ & -> & _).
  rewrite (z_sum_map_ext (fun y => eqz (code_as_head nw y) v) (fun n => eqz (fl_node n) v) mid); [lia|].
  intros a Ha. destruct (act_nd WF a (Hmid a Ha)) as (_ & _ & _ & -> & _). reflexivity.
Qed.

(* the second check of [is_decomposition], as sums of indicators over tours of the right shape *)
Lemma starts_eq_ends (f : flow) tours d :
  (forall t, In t tours -> tour_ok t) -> is_decomposition nw net f tours = true -> In d (depot_ids nw) ->
  z_sum (map (fun t => eqz (fl_depot (get_depot_idx nw (hd (SD 0) t))) (fl_depot d)) tours) =
  z_sum (map (fun t => eqz (fl_depot (get_depot_idx nw (last t (SD 0)))) (fl_depot d)) tours).
Proof.
  intros OK Hd Hin. unfold is_decomposition in Hd. apply andb_prop in Hd. destruct Hd as [_ Hd].
  pose proof (forallb_In _ _ Hd d Hin) as E. cbv beta in E. apply Z.eqb_eq in E.
  rewrite !zs_filter_len in E.
  etransitivity; [|etransitivity; [exact E|]]; apply z_sum_map_ext; intros t Ht;
    destruct (OK t Ht) as (sd & ed & mid & -> & Hsd & Hed & _).
  - cbn [hd]. destruct (sdepot_nd WF sd Hsd) as (_ & _ & _ & _ & dd & -> & ->).
    unfold eqz, fl_depot. destruct (Z.eqb_spec (get_depot_idx nw sd) d) as [->|Hne].
    + rewrite Z.eqb_refl. reflexivity.
    + destruct (Z.eqb_spec (4 * get_depot_idx nw sd + 2) (4 * d + 2)); [lia|reflexivity].
  - change (sd :: mid ++ [ed]) with ((sd :: mid) ++ [ed]). rewrite last_last.
    destruct (edepot_nd WF ed Hed) as (_ & _ & _ & dd & -> & ->).
    unfold eqz, fl_depot. destruct (Z.eqb_spec (get_depot_idx nw ed) d) as [->|Hne].
    + rewrite Z.eqb_refl. reflexivity.
    + destruct (Z.eqb_spec (4 * get_depot_idx nw ed + 2) (4 * d + 2)); [lia|reflexivity].
Qed.

Theorem pairs_are_arcs_core (f : flow) tours :
  (forall t, In t tours -> tour_ok t) ->
  feasible net f = true -> is_decomposition nw net f tours = true ->
  forall t x y, In t tours -> In (x, y) (windows t) -> is_arc x y = true.
Proof.
  intros OK Hf Hd t0 x0 y0 Ht0 Hw0.
  assert (Gy0 : good_head y0).
  { destruct (OK t0 Ht0) as (sd & ed & mid & -> & Hsd & Hed & Hmid).
    exact (proj2 (tour_window_good sd mid ed x0 y0 Hsd Hed Hmid Hw0)). }
  set (v := code_as_head nw y0).
  assert (Hv : exists z, v = 4 * z \/ v = 4 * z + 2).
  { destruct (heads_form (y0, v) (good_head_in WF y0 Gy0)) as (z & Hz). exists z. exact Hz. }
  (* the two depot sums agree *)
  assert (Hdep : z_sum (map (fun t => eqz (fl_depot (get_depot_idx nw (hd (SD 0) t))) v) tours) =
                 z_sum (map (fun t => eqz (fl_depot (get_depot_idx nw (last t (SD 0)))) v) tours)).
  { destruct Gy0 as [Ha|He].
    - destruct (act_nd WF y0 Ha) as (_ & _ & _ & Ev & _). unfold v. rewrite Ev.
      rewrite !z_sum_map_zero; [reflexivity| |]; intros t _; apply eqz_neq; unfold fl_depot, fl_node; lia.
    - destruct (edepot_nd WF y0 He) as (_ & Ev & _). unfold v. rewrite Ev.
      destruct (wf_edepots WF y0 He) as (_ & Hin & _).
      exact (starts_eq_ends f tours _ OK Hd Hin). }
  (* conservation at v *)
  pose proof (decomposition_flow f tours Hf Hd) as Ef.
  destruct (feasible_meaning net f Hf) as (_ & _ & Hc). specialize (Hc v).
  rewrite Ef, net_flow_at_map, weighted_swap in Hc.
  set (g := fun w : node_id * node_id => (1 - arcz (fst w) (snd w)) * eqz (code_as_head nw (snd w)) v).
  assert (Hsum : z_sum (map (fun t => z_sum (map g (windows t))) tours) = 0).
  { rewrite <- Hc.
    assert (E : forall t, In t tours ->
       z_sum (map (nlook nw net (kv v)) t) + slook nw net (kv v) t + z_sum (map (alook nw net (kv v)) (windows t)) =
       z_sum (map g (windows t)) +
       (eqz (fl_depot (get_depot_idx nw (hd (SD 0) t))) v - eqz (fl_depot (get_depot_idx nw (last t (SD 0)))) v)).
    { intros t Ht. destruct (OK t Ht) as (sd & ed & mid & -> & Hsd & Hed & Hmid).
      rewrite (tour_kv v sd mid ed Hsd Hed Hmid Hv).
      cbn [hd]. change (sd :: mid ++ [ed]) with ((sd :: mid) ++ [ed]) at 3. rewrite last_last.
      rewrite (z_sum_map_ext g (fun w => eqz (code_as_head nw (snd w)) v
                                         - arcz (fst w) (snd w) * eqz (code_as_head nw (snd w)) v)
                             (windows (sd :: mid ++ [ed]))) by (intros; unfold g; ring).
      rewrite zs_sub, (tour_heads_sum v sd mid ed Hed Hmid). lia. }
    rewrite (z_sum_map_ext _ _ tours E), z_sum_map_add, zs_sub, Hdep. lia. }
  assert (Gnn : forall w, 0 <= g w).
  { intros w. unfold g, arcz. pose proof (eqz_range (code_as_head nw (snd w)) v).
    destruct (is_arc (fst w) (snd w)); nia. }
  pose proof (zs_zero_all _ tours (fun t _ => zs_nonneg g (windows t) (fun w _ => Gnn w)) Hsum t0 Ht0) as H0.
  pose proof (zs_zero_all g (windows t0) (fun w _ => Gnn w) H0 (x0, y0) Hw0) as H1.
  unfold g in H1. cbn [fst snd] in H1. fold v in H1. rewrite eqz_same in H1.
  unfold arcz in H1. destruct (is_arc x0 y0); [reflexivity|lia].
Qed.

Theorem cost_core (f : flow) tours :
  tours_shape nw ty slots tours -> tours_ends tours ->
  feasible net f = true -> is_decomposition nw net f tours = true ->
  flow_cost net f =
    spawning_cost nw ty slots * Z.of_nat (length tours) + z_sum (map (fun t => compute_costs nw t) tours).
Proof.
  intros SH TE Hf Hd.
  pose proof (tours_ok tours SH TE) as OK.
  pose proof (pairs_are_arcs_core f tours OK Hf Hd) as ARC.
  rewrite (decomposition_flow f tours Hf Hd), flow_cost_map, weighted_swap.
  rewrite (z_sum_map_ext _ (fun t => spawning_cost nw ty slots + compute_costs nw t) tours).
  2:{ intros t Ht. apply tour_cost; [exact (OK t Ht)|]. intros x y Hw. exact (ARC t x y Ht Hw). }
  rewrite z_sum_map_add, zs_const. reflexivity.
Qed.
End Cost.
End Net.

(** * The theorems *)

(** ** 1. decomposition_covers *)
(* The statement as written is false: nothing forces the "service nodes" of an arbitrary [network] record to be
   service nodes.  If a depot node is listed as a service trip, [uses_of_edge] never counts its visits (depots are
   skipped) although [visits] does. *)
Definition nwR1 : network := {|
  nw_nodes := [(SD 0, NStart {| dn_depot := 0; dn_loc := Nowhere |}); (ED 1, NEnd {| dn_depot := 0; dn_loc := Nowhere |})];
  nw_depots := []; nw_overflow := (0, SD 0, ED 1); nw_service := [(0, [SD 0])]; nw_maint := [];
  nw_sdepots := []; nw_edepots := []; nw_all_by_start := []; nw_type_by_start := []; nw_type_by_end := [];
  nw_params := {| p_forbid := false; p_min := 0; p_dht := 0; p_maxdist := 0; c_staff := 0; c_service := 0;
                  c_maint := 0; c_dh := 0; c_idle := 0 |};
  nw_nlocs := 0%nat; nw_dh := []; nw_types := [ {| vt_cap := 1; vt_seats := 1; vt_limit := Some 0 |} ];
  nw_nservice := 1; nw_planning := Len 86400 |}.

Theorem decomposition_covers_refuted : ~ stmt_decomposition_covers.
Proof.
  unfold stmt_decomposition_covers. intros H.
  specialize (H nwR1 0 [] [0] [[SD 0; ED 1]]). cbv zeta in H.
  destruct H as [H _].
  - split; vm_compute; repeat constructor; intros [].
  - intros t [<-|[]]. exists (SD 0), (ED 1), [].
    split; [reflexivity|]. split; [vm_compute; reflexivity|]. split; [vm_compute; reflexivity|]. intros n [].
  - vm_compute. reflexivity.
  - vm_compute. reflexivity.
  - specialize (H (SD 0) (or_introl eq_refl)). vm_compute in H. destruct H as [_ H]. apply H. reflexivity.
Qed.

(* the strongest true variant: service trips and allotted slots are not depot nodes (true in every loaded
   network: service nodes are NService, maintenance slots NMaint).  The premise [NoDup (map fst slots)] of the
   second part is not needed (it follows from [codes_distinct]). *)
Theorem decomposition_covers_under_nondepot :
  forall nw ty slots f tours,
    let net := build_flow_network nw ty slots in
    (forall x, In x (service_nodes nw ty ++ map fst slots) -> is_depot (nd nw x) = false) ->
    codes_distinct nw ty slots -> tours_shape nw ty slots tours ->
    feasible net f = true -> is_decomposition nw net f tours = true ->
    (forall s, In s (service_nodes nw ty) ->
       let mf := match maximal_formation_count_for nw s with Some l => l | None => 100 end in
       Z.min (number_of_vehicles_required_to_serve nw ty s) mf <= visits tours s <= mf) /\
    (forall m c, In (m, c) slots -> visits tours m = c) /\
    (forall d, In d (depot_ids nw) -> tours_from nw tours d <= capacity_of nw d ty).
Proof.
  intros nw ty slots f tours net ND CD SH Hf Hd.
  exact (covers_core nw ty slots f tours CD SH ND Hf Hd).
Qed.

(* ... in particular the statement exactly as written, plus the hypothesis *)
Corollary decomposition_covers_under_nondepot' :
  forall nw ty slots f tours,
    let net := build_flow_network nw ty slots in
    (forall x, In x (service_nodes nw ty ++ map fst slots) -> is_depot (nd nw x) = false) ->
    codes_distinct nw ty slots -> tours_shape nw ty slots tours ->
    feasible net f = true -> is_decomposition nw net f tours = true ->
    (forall s, In s (service_nodes nw ty) ->
       let mf := match maximal_formation_count_for nw s with Some l => l | None => 100 end in
       Z.min (number_of_vehicles_required_to_serve nw ty s) mf <= visits tours s <= mf) /\
    (forall m c, In (m, c) slots -> NoDup (map fst slots) -> visits tours m = c) /\
    (forall d, In d (depot_ids nw) -> tours_from nw tours d <= capacity_of nw d ty).
Proof.
  intros nw ty slots f tours net ND CD SH Hf Hd.
  destruct (decomposition_covers_under_nondepot nw ty slots f tours ND CD SH Hf Hd) as (H1 & H2 & H3).
  split; [exact H1|]. split; [|exact H3]. intros m c Hm _. exact (H2 m c Hm).
Qed.

(** ** 2. every consecutive pair of a decomposition is an arc (flow conservation forces it) *)
Theorem decomposition_pairs_are_arcs :
  forall nw ty slots f tours,
    let net := build_flow_network nw ty slots in
    flow_wf nw ty slots -> codes_distinct nw ty slots ->
    tours_shape nw ty slots tours -> tours_ends nw tours ->
    feasible net f = true -> is_decomposition nw net f tours = true ->
    forall t x y, In t tours -> In (x, y) (windows t) -> In x (predecessors nw ty y).
Proof.
  intros nw ty slots f tours net WF CD SH TE Hf Hd t x y Ht Hw.
  pose proof (pairs_are_arcs_core nw ty slots CD WF f tours (tours_ok nw ty slots tours SH TE) Hf Hd t x y Ht Hw) as H.
  unfold is_arc in H. destruct (in_dec nid_eq_dec x (predecessors nw ty y)); [assumption|discriminate].
Qed.

Corollary decomposition_pairs_reachable :
  forall nw ty slots f tours,
    let net := build_flow_network nw ty slots in
    net_wf_b nw = true -> In ty (type_ids nw) ->
    flow_wf nw ty slots -> codes_distinct nw ty slots ->
    tours_shape nw ty slots tours -> tours_ends nw tours ->
    feasible net f = true -> is_decomposition nw net f tours = true ->
    forall t x y, In t tours -> In (x, y) (windows t) -> can_reach nw x y = true.
Proof.
  intros nw ty slots f tours net NW Hty WF CD SH TE Hf Hd t x y Ht Hw.
  pose proof (decomposition_pairs_are_arcs nw ty slots f tours WF CD SH TE Hf Hd t x y Ht Hw) as H.
  apply (predecessors_exact nw NW ty y x Hty) in H. tauto.
Qed.

(** ** 3. flow_cost_is_tour_cost *)
Theorem flow_cost_is_tour_cost_under_wf :
  forall nw ty slots f tours,
    let net := build_flow_network nw ty slots in
    flow_wf nw ty slots -> tours_ends nw tours ->
    codes_distinct nw ty slots -> tours_shape nw ty slots tours ->
    feasible net f = true -> is_decomposition nw net f tours = true ->
    flow_cost net f =
      spawning_cost nw ty slots * Z.of_nat (length tours) + z_sum (map (fun t => compute_costs nw t) tours).
Proof.
  intros nw ty slots f tours net WF TE CD SH Hf Hd.
  exact (cost_core nw ty slots CD WF f tours SH TE Hf Hd).
Qed.

(* [flow_wf] from the executable well-formedness check of NetSpec.v and the typing of the node lists *)
Lemma flow_wf_of_net_wf nw ty slots :
  net_wf_b nw = true -> In ty (type_ids nw) ->
  (forall s, In s (service_nodes nw ty) -> is_service (nd nw s) = true) ->
  (forall m, In m (nw_maint nw) -> is_maint (nd nw m) = true) ->
  (forall m, In m (map fst slots) -> In m (nw_maint nw)) ->
  (forall n, In n (nw_sdepots nw) ->
     is_start_depot (nd nw n) = true /\ In (get_depot_idx nw n) (depot_ids nw) /\
     get_start_depot_node nw (get_depot_idx nw n) = n) ->
  (forall n, In n (nw_edepots nw) ->
     is_end_depot (nd nw n) = true /\ In (get_depot_idx nw n) (depot_ids nw) /\
     get_end_depot_node nw (get_depot_idx nw n) = n) ->
  flow_wf nw ty slots.
Proof.
  intros NW Hty Hs Hm Hsl Hsd Hed.
  assert (Hpred : forall h p, In p (predecessors nw ty h) ->
            In p (service_nodes nw ty) \/ is_maint (nd nw p) = true \/ In p (nw_sdepots nw) \/ is_end_depot (nd nw p) = true).
  { intros h p Hp. apply (predecessors_exact nw NW ty h p Hty) in Hp. destruct Hp as [Hp _].
    unfold type_nodes in Hp. apply in_app_or in Hp. destruct Hp as [Hp|Hp]; [tauto|].
    apply in_app_or in Hp. destruct Hp as [Hp|Hp]; [right; left; exact (Hm p Hp)|].
    apply in_app_or in Hp. destruct Hp as [Hp|Hp]; [tauto|]. right; right; right. exact (proj1 (Hed p Hp)). }
  constructor.
  - intros s H. split; [exact (Hs s H)|apply (nd_wf nw NW)].
  - intros m H. split; [exact (Hm m (Hsl m H))|apply (nd_wf nw NW)].
  - exact Hsd.
  - exact Hed.
  - intros h. exact (predecessors_nodup nw NW ty h Hty).
  - intros h p Hp Sp. destruct (Hpred h p Hp) as [H|[H|[H|H]]]; [exact H| | |].
    + destruct (nd nw p); discriminate.
    + destruct (Hsd p H) as (H' & _). destruct (nd nw p); discriminate.
    + destruct (nd nw p); discriminate.
  - intros h p Hp Sp. destruct (Hpred h p Hp) as [H|[H|[H|H]]]; [| |exact H|].
    + pose proof (Hs p H). destruct (nd nw p); discriminate.
    + destruct (nd nw p); discriminate.
    + destruct (nd nw p); discriminate.
Qed.

(** ** the cost statement as written is false — even on a loaded, well-formed network *)
(* [tours_shape] only asks the first node of a tour to be a start depot *according to [nd]*, and [nd] maps every
   unknown id to the dummy start depot 0 at Nowhere.  A tour starting at the unknown id SV 999 is decoded like a
   tour starting at depot 0 (same code), but Tour charges the dead-head trip from Nowhere (planning horizon x
   c_dh) while the flow network charges the arc from the real depot node.  So tours must be required to start
   and end at depot nodes of the network ([tours_ends]). *)
Definition inst2 : instance := {|
  i_types := [ {| vt_cap := 100; vt_seats := 50; vt_limit := None |} ];
  i_nlocs := 2;
  i_depots := Some [ {| id_loc := 0; id_cap := 5; id_allowed := [(0, None)] |} ];
  i_routes := [ {| r_type := 0; r_segs := [ {| rs_origin := 0; rs_dest := 1; rs_dist := 1000; rs_dur := 3600; rs_limit := None |} ] |};
                {| r_type := 0; r_segs := [ {| rs_origin := 1; rs_dest := 0; rs_dist := 1000; rs_dur := 3600; rs_limit := None |} ] |} ];
  i_departures := [ {| d_route := 0; d_segs := [ {| ds_rseg := 0; ds_dep := 43200; ds_pass := 10; ds_seated := 5 |} ] |};
                    {| d_route := 1; d_segs := [ {| ds_rseg := 0; ds_dep := 50000; ds_pass := 10; ds_seated := 5 |} ] |} ];
  i_slots := Some [ {| is_loc := 1; is_start := 60000; is_end := 70000; is_tracks := 1 |} ];
  i_dh_dur := [[0; 600]; [600; 0]];
  i_dh_dist := [[0; 1000]; [1000; 0]];
  i_params := {| p_forbid := false; p_min := 0; p_dht := 0; p_maxdist := 0;
                 c_staff := 1; c_service := 1; c_maint := 3; c_dh := 5; c_idle := 2 |} |}.
Definition nw_dflt : network :=
  {| nw_nodes := []; nw_depots := []; nw_overflow := (0, SD 0, ED 0); nw_service := []; nw_maint := [];
     nw_sdepots := []; nw_edepots := []; nw_all_by_start := []; nw_type_by_start := []; nw_type_by_end := [];
     nw_params := i_params inst2; nw_nlocs := 0%nat; nw_dh := []; nw_types := []; nw_nservice := 0;
     nw_planning := Len 0 |}.
(* nodes: SD 0 / ED 1 (depot 0), SD 2 / ED 3 (overflow depot), SV 4, SV 5 (trips), MT 6 (slot) *)
Definition nw2 : network := match load inst2 [] with Ok nw => nw | _ => nw_dflt end.
Definition slots2 : list (node_id * Z) := [(MT 6, 1)].
Definition net2 : fnet := build_flow_network nw2 0 slots2.

Example nw2_loaded : load inst2 [] = Ok nw2.
Proof. vm_compute. reflexivity. Qed.
Example nw2_net_wf : net_wf_b nw2 = true.
Proof. vm_compute. reflexivity. Qed.

Definition toursR2 : list (list node_id) := [[SV 999; SV 4; ED 1]; [SD 0; SV 5; MT 6; ED 1]].
Definition fR2 : flow := map (uses_of_edge nw2 toursR2) net2.

Theorem flow_cost_is_tour_cost_refuted : ~ stmt_flow_cost_is_tour_cost.
Proof.
  unfold stmt_flow_cost_is_tour_cost. intros H.
  specialize (H nw2 0 slots2 fR2 toursR2). cbv zeta in H.
  assert (E : flow_cost (build_flow_network nw2 0 slots2) fR2 <>
              spawning_cost nw2 0 slots2 * Z.of_nat (length toursR2) + z_sum (map (fun t => compute_costs nw2 t) toursR2)).
  { vm_compute. intros HH. discriminate HH. }
  apply E. apply H.
  - split; vm_compute; repeat constructor; intros HH; repeat (destruct HH as [HH|HH]; try discriminate HH); auto.
  - intros t [<-|[<-|[]]].
    + exists (SV 999), (ED 1), [SV 4].
      split; [reflexivity|]. split; [vm_compute; reflexivity|]. split; [vm_compute; reflexivity|].
      intros n [<-|[]]. left. vm_compute. auto.
    + exists (SD 0), (ED 1), [SV 5; MT 6].
      split; [reflexivity|]. split; [vm_compute; reflexivity|]. split; [vm_compute; reflexivity|].
      intros n [<-|[<-|[]]]; [left|right]; vm_compute; auto.
  - vm_compute. reflexivity.
  - vm_compute. reflexivity.
Qed.

(* the two sides in the counterexample: the flow pays 0 for the pull-out depot 0 -> SV 4, Tour pays
   86400 s x 5 for the pull-out from Nowhere *)
Example refutation_values :
  flow_cost net2 fR2 = 7836800 /\
  spawning_cost nw2 0 slots2 * 2 + z_sum (map (fun t => compute_costs nw2 t) toursR2) = 8268800 /\
  dhi_cost nw2 (SV 999) (SV 4) = 432000 /\ dhi_cost nw2 (SD 0) (SV 4) = 0.
Proof. vm_compute. auto. Qed.

(** ** non-vacuity: the hypotheses of the theorems hold on the loaded network, with a real decomposition *)
Example nw2_flow_wf : flow_wf nw2 0 slots2.
Proof.
  apply flow_wf_of_net_wf.
  - exact nw2_net_wf.
  - vm_compute. auto.
  - intros s H. vm_compute in H. destruct H as [<-|[<-|[]]]; vm_compute; reflexivity.
  - intros s H. vm_compute in H. destruct H as [<-|[]]; vm_compute; reflexivity.
  - intros s H. vm_compute in H. destruct H as [<-|[]]. vm_compute. auto.
  - intros s H. vm_compute in H. destruct H as [<-|[<-|[]]]; (split; [|split]); vm_compute; auto.
  - intros s H. vm_compute in H. destruct H as [<-|[<-|[]]]; (split; [|split]); vm_compute; auto.
Qed.

Definition toursOK : list (list node_id) := [[SD 0; SV 4; SV 5; MT 6; ED 1]].
Definition fOK : flow := map (uses_of_edge nw2 toursOK) net2.

Example nw2_instance :
  codes_distinct nw2 0 slots2 /\ tours_shape nw2 0 slots2 toursOK /\ tours_ends nw2 toursOK /\
  feasible net2 fOK = true /\ is_decomposition nw2 net2 fOK toursOK = true /\
  flow_cost net2 fOK = 3888000 * 1 + 61200 /\ compute_costs nw2 [SD 0; SV 4; SV 5; MT 6; ED 1] = 61200.
Proof.
  split; [|split; [|split; [|split; [|split]]]].
  - split; vm_compute; repeat constructor; intros HH; repeat (destruct HH as [HH|HH]; try discriminate HH); auto.
  - intros t [<-|[]]. exists (SD 0), (ED 1), [SV 4; SV 5; MT 6].
    split; [reflexivity|]. split; [vm_compute; reflexivity|]. split; [vm_compute; reflexivity|].
    intros n [<-|[<-|[<-|[]]]]; [left|left|right]; vm_compute; auto.
  - intros t [<-|[]]. split; vm_compute; auto.
  - vm_compute. reflexivity.
  - vm_compute. reflexivity.
  - vm_compute. auto.
Qed.

(* the theorem applies to it *)
Example nw2_theorem_applies :
  flow_cost net2 fOK =
  spawning_cost nw2 0 slots2 * Z.of_nat (length toursOK) + z_sum (map (fun t => compute_costs nw2 t) toursOK).
Proof.
  destruct nw2_instance as (H1 & H2 & H3 & H4 & H5 & _).
  exact (flow_cost_is_tour_cost_under_wf nw2 0 slots2 fOK toursOK nw2_flow_wf H3 H1 H2 H4 H5).
Qed.

(* a tour with a pair that is no arc (SV 5 -> SV 4 runs backwards in time) is rejected by the checks: the flow
   of its edge uses violates conservation at the right copy of SV 5 *)
Example non_arc_rejected :
  let tours := [[SD 0; SV 5; SV 4; MT 6; ED 1]] in
  let f := map (uses_of_edge nw2 tours) net2 in
  is_decomposition nw2 net2 f tours = true /\ feasible net2 f = false /\ net_flow_at net2 f (fr_node (SV 5)) = -1.
Proof. vm_compute. auto. Qed.

(** * Summary
   - [decomposition_covers_refuted] : ~ stmt_decomposition_covers (degenerate network record: a depot node listed
     as a service trip).  [decomposition_covers_under_nondepot] proves the statement (with a stronger second part)
     under "service trips and allotted slots are not depot nodes".
   - [flow_cost_is_tour_cost_refuted] : ~ stmt_flow_cost_is_tour_cost, on a loaded network, by a tour whose first
     node is an id unknown to the network.  [flow_cost_is_tour_cost_under_wf] proves the statement under [flow_wf]
     and [tours_ends].  The hypothesis "every consecutive pair of a tour is an arc" is NOT needed:
     [decomposition_pairs_are_arcs] derives it from conservation at the left copy of the pair's second node together
     with the second check of [is_decomposition] (as many tours end as start at every depot).
   - costs: under [flow_wf] the node edges cost exactly [sm_cost] ([sm_cost_service], [sm_cost_maint]) and the arcs
     exactly [dhi_cost] ([arc_cost_is_dhi]); the two formulas differ only where a duration is Infinity (Tour charges
     the planning horizon, the flow network 0), which cannot happen for activities with concrete times. *)
Print Assumptions decomposition_covers_refuted.
Print Assumptions decomposition_covers_under_nondepot.
Print Assumptions decomposition_covers_under_nondepot'.
Print Assumptions decomposition_pairs_are_arcs.
Print Assumptions decomposition_pairs_reachable.
Print Assumptions flow_cost_is_tour_cost_refuted.
Print Assumptions flow_cost_is_tour_cost_under_wf.
Print Assumptions flow_wf_of_net_wf.
Print Assumptions nw2_flow_wf.
Print Assumptions nw2_instance.
