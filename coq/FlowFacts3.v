(* FlowFacts3.v — C14/C06: the circulation problem handed to the flow solver is feasible
   (FlowStmts.v: stmt_circulation_feasible).

   Results (see the summary at the end of the file):
   - the statement is FALSE as written ([circulation_feasible_refuted]): it quantifies over arbitrary [network]
     records, and nothing forces (a) the capacities of the other depots / the arc bound to be non-negative, (b) the
     node the depot table names as start node of the overflow depot to be a start-depot node of that depot, (c) the
     nodes listed as service trips of the type to be service nodes;
   - [circulation_feasible_core]: the explicit flow "demand(x) units along overflow start depot -> x -> overflow end
     depot for every service trip / allotted slot x" is a feasible circulation under [circ_hyps];
   - [circulation_feasible_under_wf]: the statement exactly as written plus the four missing hypotheses E1-E4;
   - [circulation_feasible_checked]: the same with every hypothesis evaluated by an executable check;
   - [circulation_feasible_loaded]: on networks loaded from valid instances every hypothesis is discharged, also
     "formation limit <= arc_upper_bound": since the repair "fix: flow arcs carry as many vehicles as the longest
     formation of the type's trips" the arc bound dominates the capacity of every node edge ([aub_ge_mf]);
   - [tight_arc_bound_repaired]: the instance whose loaded network had an infeasible circulation under the pre-repair
     arc bound (route segment's formation limit 200, type without limit, arcs capped at 100) now has a feasible one;
     [tight_arc_bound_prefix_refutes] keeps the refutation against the pre-repair bound [arc_upper_bound_prefix]. *)
From Coq Require Import List ZArith Bool Lia Permutation.
From RS Require Import Base BaseFacts Network NetSpec NetFacts LoadStmts LoadFacts EndToEndStmts RenderFacts1 Tour Flow FlowStmts
  FlowFacts FlowFacts2.
Import ListNotations.
Open Scope Z_scope.

(** * Feasibility of a list of (edge, flow) pairs *)
Definition contrib (v : Z) (p : fedge * Z) : Z := kv v (fst p) * snd p.

Lemma combine_fst_snd {A B} (l : list (A * B)) : combine (map fst l) (map snd l) = l.
Proof. induction l as [|[a b] l IH]; [reflexivity|]. cbn [map combine fst snd]. rewrite IH. reflexivity. Qed.

Lemma net_flow_at_pairs l v : net_flow_at (map fst l) (map snd l) v = z_sum (map (contrib v) l).
Proof.
  unfold net_flow_at. rewrite combine_fst_snd. apply z_sum_map_ext. intros [e x] _.
  unfold contrib, kv. cbn [fst snd]. destruct (fe_tail e =? v), (fe_head e =? v); lia.
Qed.

Lemma feasible_pairs (l : list (fedge * Z)) :
  (forall e x, In (e, x) l -> fe_lower e <= x <= fe_upper e) ->
  (forall v, z_sum (map (contrib v) l) = 0) ->
  feasible (map fst l) (map snd l) = true.
Proof.
  intros Hb Hc. unfold feasible. rewrite !andb_true_iff. split; [split|].
  - rewrite !map_length. apply Nat.eqb_refl.
  - rewrite combine_fst_snd. apply forallb_forall. intros [e x] Hin. specialize (Hb e x Hin).
    apply andb_true_iff; split; apply Z.leb_le; lia.
  - apply forallb_forall. intros v _. apply Z.eqb_eq. rewrite net_flow_at_pairs. apply Hc.
Qed.

Lemma map_flat_map {A B C} (g : B -> C) (F : A -> list B) l :
  map g (flat_map F l) = flat_map (fun a => map g (F a)) l.
Proof. induction l as [|a l IH]; [reflexivity|]. cbn [flat_map]. rewrite map_app, IH. reflexivity. Qed.

Lemma z_sum_single x : z_sum [x] = x.
Proof. unfold z_sum. cbn [fold_left]. lia. Qed.

Lemma fold_max_ge l : forall a, a <= fold_left Z.max l a.
Proof. induction l as [|x l IH]; intros a; cbn [fold_left]; [lia|]. specialize (IH (Z.max a x)). lia. Qed.

Lemma fold_max_in l : forall a x, In x l -> x <= fold_left Z.max l a.
Proof.
  induction l as [|y l IH]; intros a x H; [destruct H|]. cbn [fold_left].
  destruct H as [->|H]; [|apply IH; exact H]. pose proof (fold_max_ge l (Z.max a x)). lia.
Qed.

(** * The explicit circulation *)
Section Circ.
Variable nw : network.
Variable ty : Z.
Variable slots : list (node_id * Z).
Let od := overflow_depot_id nw.
Let sdn := get_start_depot_node nw od.
Let edn := get_end_depot_node nw od.
Let aub := arc_upper_bound nw ty slots.
Let preds := predecessors nw ty.
Let tcode := tail_code nw slots.

(* the demand of a service trip: the lower bound of its node edge *)
Definition lo (s : node_id) : Z := fe_lower (service_edge nw ty s).
(* the demands: service trips with their lower bounds, allotted slots with their counts *)
Definition demands : list (node_id * Z) := map (fun s => (s, lo s)) (service_nodes nw ty) ++ slots.
(* the demand of a node (0 for the nodes that are neither service trips of the type nor allotted slots) *)
Definition amt (p : node_id) : Z := z_sum (map (fun xa => if nid_eqb (fst xa) p then snd xa else 0) demands).
Definition total : Z := z_sum (map snd demands).

Lemma demands_fst : map fst demands = service_nodes nw ty ++ map fst slots.
Proof. unfold demands. rewrite map_app, map_map. cbn [fst]. rewrite map_id. reflexivity. Qed.

Lemma total_eq : total = total_lower_bound nw ty slots.
Proof.
  unfold total, total_lower_bound, demands. rewrite map_app, z_sum_app, service_edges_eq, maint_edges_eq, !map_map.
  cbn [snd]. f_equal. f_equal. apply map_ext. intros [m c]. reflexivity.
Qed.

(* the arcs into one head, with the flow [fl pred] on the arc from [pred] *)
Definition arc_pairs (hid : node_id) (hc : Z) (fl : node_id -> Z) : list (fedge * Z) :=
  flat_map (fun p => match tcode p with None => [] | Some tc => [(arc_edge nw ty slots p hid tc hc, fl p)] end) (preds hid).

Definition pairs_node : list (fedge * Z) :=
  map (fun s => (service_edge nw ty s, lo s)) (service_nodes nw ty) ++ map (fun mc => (maint_edge nw mc, snd mc)) slots.
(* pull-out arcs: overflow start depot -> x carries the demand of x *)
Definition pairs_in : list (fedge * Z) :=
  flat_map (fun xa => arc_pairs (fst xa) (fl_node (fst xa)) (fun p => if nid_eqb p sdn then snd xa else 0)) demands.
(* pull-in arcs: x -> overflow end depot carries the demand of x *)
Definition pairs_out : list (fedge * Z) :=
  flat_map (fun d => arc_pairs (get_end_depot_node nw d) (fl_depot d) (fun p => if d =? od then amt p else 0)) (depot_ids nw).
Definition pairs_depot : list (fedge * Z) :=
  map (fun d => (depot_edge nw ty slots d, if d =? od then total else 0)) (depot_ids nw).
Definition circ_pairs : list (fedge * Z) := pairs_node ++ (pairs_in ++ pairs_out) ++ pairs_depot.
Definition circ_flow : flow := map snd circ_pairs.

Lemma arc_pairs_fst hid hc fl : map fst (arc_pairs hid hc fl) = arcs_into nw ty slots hid hc.
Proof.
  unfold arc_pairs. rewrite arcs_into_eq, map_flat_map. apply flat_map_ext. intros p.
  unfold arc_of, tcode. destruct (tail_code nw slots p); reflexivity.
Qed.

Lemma circ_pairs_fst : map fst circ_pairs = build_flow_network nw ty slots.
Proof.
  unfold circ_pairs, build_flow_network, pairs_node, pairs_depot.
  rewrite !map_app, !map_map. cbn [fst].
  rewrite service_edges_eq, maint_edges_eq, depot_edges_eq, <- app_assoc. f_equal. f_equal. f_equal.
  unfold connecting_edges, pairs_in, pairs_out, demands.
  rewrite flat_map_app, flat_map_map', !map_app, !map_flat_map, <- app_assoc. cbn [fst snd].
  f_equal; [|f_equal].
  - apply flat_map_ext. intros s. apply arc_pairs_fst.
  - apply flat_map_ext. intros [m c]. apply arc_pairs_fst.
  - apply flat_map_ext. intros d. apply arc_pairs_fst.
Qed.

(** ** hypotheses under which [circ_flow] is feasible *)
Record circ_hyps : Prop := {
  ch_preds_nodup : forall h, NoDup (preds h);
  (* service trips and allotted slots are pairwise different nodes *)
  ch_acts_nodup : NoDup (map fst demands);
  ch_depots_nodup : NoDup (depot_ids nw);
  ch_od : In od (depot_ids nw);
  (* every demand fits on one arc *)
  ch_amount : forall x a, In (x, a) demands -> 0 <= a <= aub;
  ch_aub : 0 <= aub;
  ch_caps : forall d, In d (depot_ids nw) -> 0 <= capacity_of nw d ty;
  ch_total : total <= capacity_of nw od ty;
  (* there is an arc from the right copy of the overflow depot into every node with a demand ... *)
  ch_in : forall x a, In (x, a) demands -> a = 0 \/ (In sdn (preds x) /\ tcode sdn = Some (fr_depot od));
  (* ... and an arc from its right copy to the left copy of the overflow depot *)
  ch_out : forall x a, In (x, a) demands -> a = 0 \/ (In x (preds edn) /\ tcode x = Some (fr_node x))
}.

Section Core.
Hypothesis H : circ_hyps.

Lemma demands_nodup : NoDup demands.
Proof. apply NoDup_map_inv with (f := fst). exact (ch_acts_nodup H). Qed.

Lemma amt_in x a : In (x, a) demands -> amt x = a.
Proof.
  intros Hin. unfold amt. rewrite (zs_unique _ _ (x, a) demands_nodup Hin).
  - cbn [fst snd]. rewrite nid_eqb_refl. reflexivity.
  - intros [x' a'] Hin' Hne. cbn [fst snd]. destruct (nid_eqb x' x) eqn:E; [|reflexivity].
    apply nid_eqb_eq in E. subst x'. exfalso. apply Hne.
    apply (NoDup_map_inj_in fst demands (ch_acts_nodup H)); auto.
Qed.

Lemma amt_out p : ~ In p (map fst demands) -> amt p = 0.
Proof.
  intros Hn. unfold amt. apply z_sum_map_zero. intros [x a] Hin. cbn [fst snd].
  destruct (nid_eqb x p) eqn:E; [|reflexivity]. apply nid_eqb_eq in E. subst x.
  exfalso. apply Hn. change p with (fst (p, a)). apply in_map. exact Hin.
Qed.

Lemma amt_range p : 0 <= amt p <= aub.
Proof.
  destruct (in_dec nid_eq_dec p (map fst demands)) as [Hin|Hn].
  - apply in_map_iff in Hin. destruct Hin as ([x a] & E & Hin). cbn [fst] in E. subst x.
    rewrite (amt_in p a Hin). exact (ch_amount H p a Hin).
  - rewrite (amt_out p Hn). pose proof (ch_aub H). lia.
Qed.

Lemma total_nonneg : 0 <= total.
Proof. unfold total. apply zs_nonneg. intros [x a] Hin. cbn [snd]. exact (proj1 (ch_amount H x a Hin)). Qed.

Lemma lo_upper s : lo s <= fe_upper (service_edge nw ty s).
Proof. unfold lo, service_edge. cbn [fe_lower fe_upper]. lia. Qed.

(** ** bounds *)
Lemma arc_pairs_bounds hid hc fl e x :
  (forall p, 0 <= fl p <= aub) -> In (e, x) (arc_pairs hid hc fl) -> fe_lower e <= x <= fe_upper e.
Proof.
  intros Hfl Hin. unfold arc_pairs in Hin. apply in_flat_map in Hin. destruct Hin as (p & _ & Hin).
  destruct (tcode p) as [tc|]; [|destruct Hin]. destruct Hin as [E|[]]. inversion E; subst e x.
  cbn [arc_edge fe_lower fe_upper]. apply Hfl.
Qed.

Lemma circ_bounds e x : In (e, x) circ_pairs -> fe_lower e <= x <= fe_upper e.
Proof.
  unfold circ_pairs. rewrite !in_app_iff. intros [Hin|[[Hin|Hin]|Hin]].
  - unfold pairs_node in Hin. apply in_app_or in Hin. destruct Hin as [Hin|Hin].
    + apply in_map_iff in Hin. destruct Hin as (s & E & _). inversion E; subst e x.
      pose proof (lo_upper s). unfold lo in *. lia.
    + apply in_map_iff in Hin. destruct Hin as ([m c] & E & _). inversion E; subst e x.
      cbn [maint_edge fe_lower fe_upper snd]. lia.
  - unfold pairs_in in Hin. apply in_flat_map in Hin. destruct Hin as ([y a] & Hy & Hin). cbn [fst snd] in Hin.
    apply (arc_pairs_bounds _ _ _ e x) in Hin; [exact Hin|].
    intros p. pose proof (ch_amount H y a Hy). pose proof (ch_aub H). destruct (nid_eqb p sdn); lia.
  - unfold pairs_out in Hin. apply in_flat_map in Hin. destruct Hin as (d & _ & Hin).
    apply (arc_pairs_bounds _ _ _ e x) in Hin; [exact Hin|].
    intros p. pose proof (amt_range p). pose proof (ch_aub H). destruct (d =? od); lia.
  - unfold pairs_depot in Hin. apply in_map_iff in Hin. destruct Hin as (d & E & Hd). inversion E; subst e x.
    cbn [depot_edge fe_lower fe_upper]. destruct (Z.eqb_spec d od) as [E'|Hne].
    + rewrite E'. pose proof total_nonneg. pose proof (ch_total H). lia.
    + pose proof (ch_caps H d Hd). lia.
Qed.

(** ** conservation *)
Definition arc_w (v hc : Z) (p : node_id) : Z :=
  match tcode p with None => 0 | Some tc => eqz tc v - eqz hc v end.

Lemma arc_pairs_sum v hid hc fl :
  z_sum (map (contrib v) (arc_pairs hid hc fl)) = z_sum (map (fun p => arc_w v hc p * fl p) (preds hid)).
Proof.
  unfold arc_pairs. rewrite zs_flat_map. apply z_sum_map_ext. intros p _. unfold arc_w.
  destruct (tcode p) as [tc|]; [|reflexivity]. cbn [map]. rewrite z_sum_single.
  unfold contrib. cbn [fst snd]. rewrite kv_eqz. reflexivity.
Qed.

Lemma sum_node v :
  z_sum (map (contrib v) pairs_node) =
  z_sum (map (fun xa => (eqz (fl_node (fst xa)) v - eqz (fr_node (fst xa)) v) * snd xa) demands).
Proof.
  unfold pairs_node, demands. rewrite !map_app, !z_sum_app, !zs_map_map. f_equal.
  apply z_sum_map_ext. intros [m c] _. unfold contrib. cbn [fst snd]. rewrite kv_eqz. reflexivity.
Qed.

Lemma sum_in v :
  z_sum (map (contrib v) pairs_in) =
  z_sum (map (fun xa => (eqz (fr_depot od) v - eqz (fl_node (fst xa)) v) * snd xa) demands).
Proof.
  unfold pairs_in. rewrite zs_flat_map. apply z_sum_map_ext. intros [x a] Hin. cbn [fst snd].
  rewrite arc_pairs_sum. destruct (ch_in H x a Hin) as [->|[Hsd Htc]].
  - rewrite z_sum_map_zero; [lia|]. intros p _. destruct (nid_eqb p sdn); lia.
  - rewrite (zs_unique _ _ sdn (ch_preds_nodup H x) Hsd).
    + rewrite nid_eqb_refl. unfold arc_w. rewrite Htc. reflexivity.
    + intros p _ Hne. destruct (nid_eqb p sdn) eqn:E; [|lia]. apply nid_eqb_eq in E. contradiction.
Qed.

Lemma sum_out v :
  z_sum (map (contrib v) pairs_out) =
  z_sum (map (fun xa => (eqz (fr_node (fst xa)) v - eqz (fl_depot od) v) * snd xa) demands).
Proof.
  unfold pairs_out. rewrite zs_flat_map.
  rewrite (zs_unique _ _ od (ch_depots_nodup H) (ch_od H)).
  2:{ intros d _ Hne. rewrite arc_pairs_sum. apply z_sum_map_zero. intros p _.
      destruct (Z.eqb_spec d od); [contradiction|lia]. }
  rewrite arc_pairs_sum, Z.eqb_refl. fold edn.
  rewrite (z_sum_map_ext _ (fun p => z_sum (map (fun xa => arc_w v (fl_depot od) p * (if nid_eqb (fst xa) p then snd xa else 0)) demands))).
  2:{ intros p _. unfold amt. rewrite zs_scal. reflexivity. }
  rewrite zs_swap. apply z_sum_map_ext. intros [x a] Hin. cbn [fst snd].
  destruct (ch_out H x a Hin) as [->|[Hx Htc]].
  - rewrite z_sum_map_zero; [lia|]. intros p _. destruct (nid_eqb x p); lia.
  - rewrite (zs_unique _ _ x (ch_preds_nodup H edn) Hx).
    + rewrite nid_eqb_refl. unfold arc_w. rewrite Htc. reflexivity.
    + intros p _ Hne. destruct (nid_eqb x p) eqn:E; [|lia]. apply nid_eqb_eq in E. subst p. contradiction.
Qed.

Lemma sum_depot v : z_sum (map (contrib v) pairs_depot) = (eqz (fl_depot od) v - eqz (fr_depot od) v) * total.
Proof.
  unfold pairs_depot. rewrite zs_map_map.
  rewrite (zs_unique _ _ od (ch_depots_nodup H) (ch_od H)).
  - unfold contrib. cbn [fst snd]. rewrite kv_eqz, Z.eqb_refl. reflexivity.
  - intros d _ Hne. unfold contrib. cbn [fst snd]. destruct (Z.eqb_spec d od); [contradiction|lia].
Qed.

Lemma circ_conservation v : z_sum (map (contrib v) circ_pairs) = 0.
Proof.
  unfold circ_pairs. rewrite !map_app, !z_sum_app, sum_node, sum_in, sum_out, sum_depot.
  set (f1 := fun xa : node_id * Z => (eqz (fl_node (fst xa)) v - eqz (fr_node (fst xa)) v) * snd xa).
  set (f2 := fun xa : node_id * Z => (eqz (fr_depot od) v - eqz (fl_node (fst xa)) v) * snd xa).
  set (f3 := fun xa : node_id * Z => (eqz (fr_node (fst xa)) v - eqz (fl_depot od) v) * snd xa).
  assert (E : z_sum (map f1 demands) + (z_sum (map f2 demands) + z_sum (map f3 demands)) =
              (eqz (fr_depot od) v - eqz (fl_depot od) v) * total).
  { rewrite <- !z_sum_map_add. unfold total. rewrite zs_scal. apply z_sum_map_ext.
    intros xa _. unfold f1, f2, f3. ring. }
  lia.
Qed.

Theorem circ_flow_feasible : feasible (build_flow_network nw ty slots) circ_flow = true.
Proof.
  rewrite <- circ_pairs_fst. unfold circ_flow. apply feasible_pairs.
  - exact circ_bounds.
  - exact circ_conservation.
Qed.
End Core.
End Circ.

Theorem circulation_feasible_core nw ty slots :
  circ_hyps nw ty slots -> exists f, feasible (build_flow_network nw ty slots) f = true.
Proof. intros H. exists (circ_flow nw ty slots). exact (circ_flow_feasible nw ty slots H). Qed.

(** * The statement plus the missing hypotheses *)
(* the arc bound dominates the type's formation limit (or 100), every slot allotment and the capacity of the node
   edge of every service trip of the type *)
Lemma aub_ge_tlim nw ty slots : type_limit_or_100 nw ty <= arc_upper_bound nw ty slots.
Proof. unfold arc_upper_bound. etransitivity; [|apply fold_max_ge]. apply fold_max_ge. Qed.

Lemma aub_ge_slot nw ty slots m c : In (m, c) slots -> c <= arc_upper_bound nw ty slots.
Proof.
  intros Hin. unfold arc_upper_bound. etransitivity; [|apply fold_max_ge].
  apply fold_max_in. change c with (snd (m, c)). apply in_map. exact Hin.
Qed.

Lemma aub_ge_mf nw ty slots s : In s (service_nodes nw ty) ->
  match maximal_formation_count_for nw s with Some l => l | None => 100 end <= arc_upper_bound nw ty slots.
Proof.
  intros Hs. unfold arc_upper_bound. apply fold_max_in.
  exact (in_map (fun s => match maximal_formation_count_for nw s with Some l => l | None => 100 end) _ _ Hs).
Qed.

Theorem circulation_feasible_under_wf :
  forall nw ty slots,
    net_wf_b nw = true -> In ty (type_ids nw) ->
    codes_distinct nw ty slots ->
    (forall x, In x (service_nodes nw ty ++ map fst slots) -> is_depot (nd nw x) = false) ->
    (forall m c, In (m, c) slots -> 0 <= c <= arc_upper_bound nw ty slots) ->
    (forall s, In s (service_nodes nw ty) -> 0 <= number_of_vehicles_required_to_serve nw ty s /\
       match maximal_formation_count_for nw s with Some l => 0 <= l <= arc_upper_bound nw ty slots | None => True end) ->
    In (overflow_depot_id nw) (depot_ids nw) ->
    total_lower_bound nw ty slots <= capacity_of nw (overflow_depot_id nw) ty ->
    (forall x, In x (service_nodes nw ty ++ map fst slots) ->
       In (get_start_depot_node nw (overflow_depot_id nw)) (predecessors nw ty x) /\
       In x (predecessors nw ty (get_end_depot_node nw (overflow_depot_id nw)))) ->
    (* -- the hypotheses missing from [stmt_circulation_feasible] -- *)
    (* E1: no depot has a negative capacity for the type *)
    (forall d, In d (depot_ids nw) -> 0 <= capacity_of nw d ty) ->
    (* E2: the arc bound is not negative *)
    0 <= arc_upper_bound nw ty slots ->
    (* E3: the node the depot table names as start node of the overflow depot is a start node of that depot *)
    (exists d, nd nw (get_start_depot_node nw (overflow_depot_id nw)) = NStart d /\ dn_depot d = overflow_depot_id nw) ->
    (* E4: the nodes listed as service trips are service nodes (or demand nothing) *)
    (forall s, In s (service_nodes nw ty) ->
       is_service (nd nw s) = true \/ number_of_vehicles_required_to_serve nw ty s = 0) ->
    exists f, feasible (build_flow_network nw ty slots) f = true.
Proof.
  intros nw ty slots WF Hty CD ND Hsl Hsv Hod Htot Hpr E1 E2 (dd & E3 & E3') E4.
  apply circulation_feasible_core.
  assert (Hlo : forall s, In s (service_nodes nw ty) -> 0 <= lo nw ty s <= arc_upper_bound nw ty slots).
  { intros s Hs. destruct (Hsv s Hs) as [Hr Hm]. pose proof (aub_ge_mf nw ty slots s Hs) as Hmf.
    unfold lo, service_edge. cbn [fe_lower]. destruct (maximal_formation_count_for nw s) as [l|]; lia. }
  assert (Hdem : forall x a, In (x, a) (demands nw ty slots) ->
            (In x (service_nodes nw ty) /\ a = lo nw ty x) \/ In (x, a) slots).
  { intros x a Hin. unfold demands in Hin. apply in_app_or in Hin. destruct Hin as [Hin|Hin]; [left|right; exact Hin].
    apply in_map_iff in Hin. destruct Hin as (s & E & Hs). inversion E; subst. auto. }
  assert (Hacts : forall x a, In (x, a) (demands nw ty slots) -> In x (service_nodes nw ty ++ map fst slots)).
  { intros x a Hin. rewrite <- demands_fst. change x with (fst (x, a)). apply in_map. exact Hin. }
  constructor.
  - intros h. exact (predecessors_nodup nw WF ty h Hty).
  - rewrite demands_fst. destruct CD as [CD1 _]. apply NoDup_map_inv in CD1. exact CD1.
  - destruct CD as [_ CD2]. exact CD2.
  - exact Hod.
  - intros x a Hin. destruct (Hdem x a Hin) as [[Hs ->]|Hs]; [exact (Hlo x Hs)|exact (Hsl x a Hs)].
  - exact E2.
  - exact E1.
  - rewrite total_eq. exact Htot.
  - intros x a Hin. right. split; [exact (proj1 (Hpr x (Hacts x a Hin)))|].
    unfold tail_code. rewrite E3, E3'. reflexivity.
  - intros x a Hin. destruct (Hdem x a Hin) as [[Hs ->]|Hs].
    + destruct (E4 x Hs) as [Sv|Z0].
      * right. split; [exact (proj2 (Hpr x (Hacts _ _ Hin)))|].
        unfold tail_code. destruct (nd nw x); try discriminate. reflexivity.
      * left. unfold lo, service_edge. cbn [fe_lower]. rewrite Z0. destruct (Hsv x Hs) as [_ Hm].
        destruct (maximal_formation_count_for nw x) as [l|]; lia.
    + right. split; [exact (proj2 (Hpr x (Hacts _ _ Hin)))|].
      pose proof (ND x (Hacts _ _ Hin)) as Dx. unfold tail_code.
      assert (Al : slot_allotted slots x = true) by (apply slot_allotted_iff; eapply slot_fst_in; eauto).
      rewrite Al. destruct (nd nw x); try discriminate; reflexivity.
Qed.

(* E4 follows from "the nodes listed as service trips of the type are service nodes" *)
Corollary circulation_feasible_under_typed :
  forall nw ty slots,
    net_wf_b nw = true -> In ty (type_ids nw) ->
    codes_distinct nw ty slots ->
    (forall x, In x (service_nodes nw ty ++ map fst slots) -> is_depot (nd nw x) = false) ->
    (forall m c, In (m, c) slots -> 0 <= c <= arc_upper_bound nw ty slots) ->
    (forall s, In s (service_nodes nw ty) -> 0 <= number_of_vehicles_required_to_serve nw ty s /\
       match maximal_formation_count_for nw s with Some l => 0 <= l <= arc_upper_bound nw ty slots | None => True end) ->
    In (overflow_depot_id nw) (depot_ids nw) ->
    total_lower_bound nw ty slots <= capacity_of nw (overflow_depot_id nw) ty ->
    (forall x, In x (service_nodes nw ty ++ map fst slots) ->
       In (get_start_depot_node nw (overflow_depot_id nw)) (predecessors nw ty x) /\
       In x (predecessors nw ty (get_end_depot_node nw (overflow_depot_id nw)))) ->
    (forall d, In d (depot_ids nw) -> 0 <= capacity_of nw d ty) ->
    0 <= arc_upper_bound nw ty slots ->
    (exists d, nd nw (get_start_depot_node nw (overflow_depot_id nw)) = NStart d /\ dn_depot d = overflow_depot_id nw) ->
    (forall s, In s (service_nodes nw ty) -> is_service (nd nw s) = true) ->
    exists f, feasible (build_flow_network nw ty slots) f = true.
Proof.
  intros nw ty slots WF Hty CD ND Hsl Hsv Hod Htot Hpr E1 E2 E3 E4.
  apply (circulation_feasible_under_wf nw ty slots WF Hty CD ND Hsl Hsv Hod Htot Hpr E1 E2 E3).
  intros s Hs. left. exact (E4 s Hs).
Qed.

(** * Executable reading of the hypotheses *)
Fixpoint nodup_zb (l : list Z) : bool :=
  match l with [] => true | x :: r => negb (existsb (Z.eqb x) r) && nodup_zb r end.
Definition mem_z (x : Z) (l : list Z) : bool := existsb (Z.eqb x) l.

Lemma mem_z_in x l : mem_z x l = true -> In x l.
Proof. unfold mem_z. rewrite existsb_exists. intros (y & Hy & E). apply Z.eqb_eq in E. subst. exact Hy. Qed.

Lemma nodup_zb_sound l : nodup_zb l = true -> NoDup l.
Proof.
  induction l as [|x l IH]; cbn [nodup_zb]; intros H; [constructor|].
  apply andb_true_iff in H. destruct H as [H1 H2]. constructor; [|exact (IH H2)].
  intros Hin. apply negb_true_iff in H1. assert (E : existsb (Z.eqb x) l = true); [|congruence].
  apply existsb_exists. exists x. split; [exact Hin|apply Z.eqb_refl].
Qed.

Section Check.
Variable nw : network.
Variable ty : Z.
Variable slots : list (node_id * Z).
Let od := overflow_depot_id nw.
Let aub := arc_upper_bound nw ty slots.
Let actl := service_nodes nw ty ++ map fst slots.

(* the nine hypotheses of [stmt_circulation_feasible] (the sixth one in two parts) *)
Definition h_wf : bool := net_wf_b nw && mem_z ty (type_ids nw).
Definition h_codes : bool := nodup_zb (map nid_idx actl) && nodup_zb (map fst (nw_depots nw)).
Definition h_nondepot : bool := forallb (fun x => negb (is_depot (nd nw x))) actl.
Definition h_slots : bool := forallb (fun mc => (0 <=? snd mc) && (snd mc <=? aub)) slots.
Definition h_req : bool := forallb (fun s => 0 <=? number_of_vehicles_required_to_serve nw ty s) (service_nodes nw ty).
Definition h_lim : bool :=
  forallb (fun s => match maximal_formation_count_for nw s with Some l => (0 <=? l) && (l <=? aub) | None => true end)
          (service_nodes nw ty).
Definition h_od : bool := mem_z od (depot_ids nw).
Definition h_total : bool := total_lower_bound nw ty slots <=? capacity_of nw od ty.
Definition h_preds : bool :=
  forallb (fun x => mem_nid (get_start_depot_node nw od) (predecessors nw ty x) &&
                    mem_nid x (predecessors nw ty (get_end_depot_node nw od))) actl.
(* the four missing ones *)
Definition e1_caps : bool := forallb (fun d => 0 <=? capacity_of nw d ty) (depot_ids nw).
Definition e2_aub : bool := 0 <=? aub.
Definition e3_start : bool := match nd nw (get_start_depot_node nw od) with NStart d => dn_depot d =? od | _ => false end.
Definition e4_service : bool :=
  forallb (fun s => is_service (nd nw s) || (number_of_vehicles_required_to_serve nw ty s =? 0)) (service_nodes nw ty).

Definition stmt_hyps_b : bool :=
  h_wf && h_codes && h_nondepot && h_slots && h_req && h_lim && h_od && h_total && h_preds.
Definition extra_hyps_b : bool := e1_caps && e2_aub && e3_start && e4_service.

(* the hypotheses of the statement, as a proposition *)
Definition stmt_hyps : Prop :=
  net_wf_b nw = true /\ In ty (type_ids nw) /\
  codes_distinct nw ty slots /\
  (forall x, In x (service_nodes nw ty ++ map fst slots) -> is_depot (nd nw x) = false) /\
  (forall m c, In (m, c) slots -> 0 <= c <= arc_upper_bound nw ty slots) /\
  (forall s, In s (service_nodes nw ty) -> 0 <= number_of_vehicles_required_to_serve nw ty s /\
     match maximal_formation_count_for nw s with Some l => 0 <= l <= arc_upper_bound nw ty slots | None => True end) /\
  In (overflow_depot_id nw) (depot_ids nw) /\
  total_lower_bound nw ty slots <= capacity_of nw (overflow_depot_id nw) ty /\
  (forall x, In x (service_nodes nw ty ++ map fst slots) ->
     In (get_start_depot_node nw (overflow_depot_id nw)) (predecessors nw ty x) /\
     In x (predecessors nw ty (get_end_depot_node nw (overflow_depot_id nw)))).

Lemma stmt_hyps_b_sound : stmt_hyps_b = true -> stmt_hyps.
Proof.
  unfold stmt_hyps_b. rewrite !andb_true_iff.
  intros [[[[[[[[H1 H2] H3] H4] H5] H6] H7] H8] H9].
  unfold h_wf in H1. apply andb_true_iff in H1. destruct H1 as [H1 H1'].
  unfold h_codes in H2. apply andb_true_iff in H2. destruct H2 as [H2 H2'].
  unfold h_nondepot in H3. unfold h_slots in H4. unfold h_req in H5. unfold h_lim in H6. unfold h_preds in H9.
  rewrite forallb_forall in H3, H4, H5, H6, H9.
  split; [exact H1|]. split; [exact (mem_z_in _ _ H1')|].
  split; [split; [exact (nodup_zb_sound _ H2)|exact (nodup_zb_sound _ H2')]|].
  split; [intros x Hx; specialize (H3 x Hx); apply negb_true_iff in H3; exact H3|].
  split.
  { intros m c Hin. specialize (H4 (m, c) Hin). cbn [snd] in H4. apply andb_true_iff in H4.
    destruct H4 as [A B]. apply Z.leb_le in A. apply Z.leb_le in B. fold aub. lia. }
  split.
  { intros s Hs. specialize (H5 s Hs). specialize (H6 s Hs). apply Z.leb_le in H5. split; [exact H5|].
    destruct (maximal_formation_count_for nw s) as [l|]; [|exact I].
    apply andb_true_iff in H6. destruct H6 as [A B]. apply Z.leb_le in A. apply Z.leb_le in B. fold aub. lia. }
  split; [exact (mem_z_in _ _ H7)|].
  split; [apply Z.leb_le; exact H8|].
  intros x Hx. specialize (H9 x Hx). apply andb_true_iff in H9. destruct H9 as [A B].
  split; apply mem_nid_in; assumption.
Qed.

Theorem circulation_feasible_checked :
  stmt_hyps_b = true -> extra_hyps_b = true -> exists f, feasible (build_flow_network nw ty slots) f = true.
Proof.
  intros HS HE. destruct (stmt_hyps_b_sound HS) as (S1 & S2 & S3 & S4 & S5 & S6 & S7 & S8 & S9).
  unfold extra_hyps_b in HE. rewrite !andb_true_iff in HE. destruct HE as [[[E1 E2] E3] E4].
  unfold e1_caps in E1. unfold e4_service in E4. rewrite forallb_forall in E1, E4.
  apply circulation_feasible_under_wf; auto.
  - intros d Hd. apply Z.leb_le. exact (E1 d Hd).
  - apply Z.leb_le. exact E2.
  - unfold e3_start in E3. fold od. destruct (nd nw (get_start_depot_node nw od)) as [d| | |]; try discriminate E3.
    exists d. split; [reflexivity|]. apply Z.eqb_eq. exact E3.
  - intros s Hs. specialize (E4 s Hs). apply orb_true_iff in E4. destruct E4 as [A|A]; [left; exact A|right].
    apply Z.eqb_eq. exact A.
Qed.
End Check.

(* the statement is "stmt_hyps -> a feasible flow exists" *)
Lemma stmt_circulation_feasible_unfold :
  stmt_circulation_feasible <->
  (forall nw ty slots, stmt_hyps nw ty slots -> exists f, feasible (build_flow_network nw ty slots) f = true).
Proof.
  unfold stmt_circulation_feasible, stmt_hyps. split.
  - intros H nw ty slots (S1 & S2 & S3 & S4 & S5 & S6 & S7 & S8 & S9). apply H; assumption.
  - intros H nw ty slots S1 S2 S3 S4 S5 S6 S7 S8 S9. apply H.
    exact (conj S1 (conj S2 (conj S3 (conj S4 (conj S5 (conj S6 (conj S7 (conj S8 S9)))))))).
Qed.

(** * The statement as written is false; each of the four extra hypotheses is needed *)
Lemma bounds_forall net f :
  (forall e x, In (e, x) (combine net f) -> fe_lower e <= x <= fe_upper e) ->
  Forall (fun p => fe_lower (fst p) <= snd p <= fe_upper (fst p)) (combine net f).
Proof. intros H. apply Forall_forall. intros [e x] Hin. exact (H e x Hin). Qed.

(* from [Hf : feasible N f = true] with N a closed network of n edges: f is a list of n numbers within the bounds;
   [Hc] is conservation *)
Tactic Notation "feas_facts" hyp(Hf) integer(n) :=
  match type of Hf with feasible ?N ?f = true =>
    let net := fresh "net" in
    set (net := N) in Hf; vm_compute in net; subst net;
    let Hl := fresh "Hl" in let Hb := fresh "Hb" in
    destruct (feasible_meaning _ _ Hf) as (Hl & Hb & Hc);
    do n (destruct f as [|? f]; [discriminate Hl|]); (destruct f; [|discriminate Hl]);
    apply bounds_forall in Hb; cbn [combine] in Hb;
    repeat match goal with H : Forall _ (_ :: _) |- _ => inversion_clear H end;
    cbn [fst snd fe_lower fe_upper] in *
  end.
Ltac cons_at Hc v := let C := fresh "C" in pose proof (Hc v) as C; unfold net_flow_at in C; cbn in C.

Definition params0 : params :=
  {| p_forbid := false; p_min := 0; p_dht := 0; p_maxdist := 0; c_staff := 0; c_service := 0; c_maint := 0; c_dh := 0; c_idle := 0 |}.

(* a network record from its node table, depot table and node lists; the per-type sorted maps are built as [load]
   builds them *)
Definition mk_nw (nodes : list (node_id * node)) (depots : list (Z * (depot * node_id * node_id)))
    (ov : Z * node_id * node_id) (service : list (Z * list node_id)) (maint sdeps edeps : list node_id)
    (types : list vtype) : network :=
  let pre := {| nw_nodes := nodes; nw_depots := depots; nw_overflow := ov; nw_service := service; nw_maint := maint;
                nw_sdepots := sdeps; nw_edepots := edeps; nw_all_by_start := []; nw_type_by_start := [];
                nw_type_by_end := []; nw_params := params0; nw_nlocs := 1%nat; nw_dh := [[(Dist 0, Len 0)]];
                nw_types := types; nw_nservice := 0; nw_planning := Len 86400 |} in
  let tn t := service_nodes pre t ++ maint ++ sdeps ++ edeps in
  let tids := map Z.of_nat (seq 0 (length types)) in
  {| nw_nodes := nodes; nw_depots := depots; nw_overflow := ov; nw_service := service; nw_maint := maint;
     nw_sdepots := sdeps; nw_edepots := edeps; nw_all_by_start := [];
     nw_type_by_start := map (fun t => (t, fold_left (fun acc n => insert_key (start_time pre n, n) acc) (tn t) [])) tids;
     nw_type_by_end := map (fun t => (t, fold_left (fun acc n => insert_key (end_time pre n, n) acc) (tn t) [])) tids;
     nw_params := params0; nw_nlocs := 1%nat; nw_dh := [[(Dist 0, Len 0)]];
     nw_types := types; nw_nservice := 0; nw_planning := Len 86400 |}.

Definition dep (k total : Z) : depot := {| dp_idx := k; dp_loc := Station 0; dp_total := total; dp_allowed := [(0, None)] |}.
Definition sdnode (k : Z) : node := NStart {| dn_depot := k; dn_loc := Station 0 |}.
Definition ednode (k : Z) : node := NEnd {| dn_depot := k; dn_loc := Station 0 |}.
Definition trip (t pass : Z) : node :=
  NService {| st_type := t; st_origin := Station 0; st_dest := Station 0; st_dep := Point 1000; st_arr := Point 2000;
              st_dist := Dist 1; st_pass := pass; st_seated := 0; st_limit := None |}.
Definition mslot : node := NMaint {| ms_loc := Station 0; ms_start := Point 1000; ms_end := Point 2000; ms_tracks := 1 |}.
Definition vt1 (lim : option Z) : vtype := {| vt_cap := 1; vt_seats := 1; vt_limit := lim |}.

(** ** E1: a second depot with capacity -1 (no nodes at all): its depot edge has bounds [0, -1] *)
Definition nwA : network :=
  mk_nw [] [(0, (dep 0 5, SD 0, ED 1)); (1, (dep 1 (-1), SD 2, ED 3))] (0, SD 0, ED 1) [] [] [] [] [vt1 None].

Example nwA_cex :
  stmt_hyps_b nwA 0 [] = true /\
  e1_caps nwA 0 = false /\ e2_aub nwA 0 [] = true /\ e3_start nwA = true /\ e4_service nwA 0 = true /\
  ~ exists f, feasible (build_flow_network nwA 0 []) f = true.
Proof.
  repeat (split; [vm_compute; reflexivity|]).
  intros [f Hf]. feas_facts Hf 2. lia.
Qed.

Theorem circulation_feasible_refuted : ~ stmt_circulation_feasible.
Proof.
  intros H. rewrite stmt_circulation_feasible_unfold in H.
  destruct nwA_cex as (HS & _ & _ & _ & _ & HN). apply HN. apply H. apply stmt_hyps_b_sound. exact HS.
Qed.

(** ** E2: no service trips, no slots, type limit -1: the arc overflow start depot -> overflow end depot has bounds [0, -1] *)
Definition nwB : network :=
  mk_nw [(SD 0, sdnode 0); (ED 1, ednode 0)] [(0, (dep 0 5, SD 0, ED 1))] (0, SD 0, ED 1) [] [] [SD 0] [ED 1]
        [vt1 (Some (-1))].

Example nwB_cex :
  stmt_hyps_b nwB 0 [] = true /\
  e1_caps nwB 0 = true /\ e2_aub nwB 0 [] = false /\ e3_start nwB = true /\ e4_service nwB 0 = true /\
  ~ exists f, feasible (build_flow_network nwB 0 []) f = true.
Proof.
  repeat (split; [vm_compute; reflexivity|]).
  intros [f Hf]. feas_facts Hf 2. lia.
Qed.

(** ** E3: the depot table names, as start node of the overflow depot 0, the start node SD 2 of depot 1 (capacity 0):
       the arc into the trip leaves the right copy of depot 1, which receives nothing *)
Definition nwC : network :=
  mk_nw [(SD 2, sdnode 1); (ED 1, ednode 0); (ED 3, ednode 1); (SV 4, trip 0 1)]
        [(0, (dep 0 5, SD 2, ED 1)); (1, (dep 1 0, SD 2, ED 3))] (0, SD 2, ED 1) [(0, [SV 4])] [] [SD 2] [ED 1; ED 3]
        [vt1 None].

Example nwC_cex :
  stmt_hyps_b nwC 0 [] = true /\
  e1_caps nwC 0 = true /\ e2_aub nwC 0 [] = true /\ e3_start nwC = false /\ e4_service nwC 0 = true /\
  ~ exists f, feasible (build_flow_network nwC 0 []) f = true.
Proof.
  repeat (split; [vm_compute; reflexivity|]).
  intros [f Hf]. feas_facts Hf 8. cons_at Hc 7. cons_at Hc 16. lia.
Qed.

(** ** E4: a maintenance node listed as service trip of the type, with a positive demand (capacity -1 makes
       div_ceil 0 (-1) = 2): it is not allotted, so no arc leaves its right copy *)
Definition nwD : network :=
  mk_nw [(SD 0, sdnode 0); (ED 1, ednode 0); (MT 4, mslot)]
        [(0, (dep 0 5, SD 0, ED 1))] (0, SD 0, ED 1) [(0, [MT 4])] [] [SD 0] [ED 1]
        [ {| vt_cap := -1; vt_seats := 1; vt_limit := None |} ].

Example nwD_cex :
  stmt_hyps_b nwD 0 [] = true /\
  e1_caps nwD 0 = true /\ e2_aub nwD 0 [] = true /\ e3_start nwD = true /\ e4_service nwD 0 = false /\
  ~ exists f, feasible (build_flow_network nwD 0 []) f = true.
Proof.
  repeat (split; [vm_compute; reflexivity|]).
  intros [f Hf]. feas_facts Hf 4. cons_at Hc 17. lia.
Qed.

(** ** the former E5 ("a trip without formation limit demands no more than an arc carries") is automatic since the
       repair "fix: flow arcs carry as many vehicles as the longest formation of the type's trips" ([aub_ge_mf]).  Its
       former counterexample: a trip of the unlimited type 1 listed as service trip of type 0 (limit 1); its node edge
       demands min(3, 100) = 3, the only arc into it carried at most 1 under the pre-repair bound and carries 100 now *)
Definition nwE : network :=
  mk_nw [(SD 0, sdnode 0); (ED 1, ednode 0); (SV 2, trip 1 3)]
        [(0, (dep 0 5, SD 0, ED 1))] (0, SD 0, ED 1) [(0, [SV 2])] [] [SD 0] [ED 1] [vt1 (Some 1); vt1 None].

Example nwE_now_feasible :
  stmt_hyps_b nwE 0 [] = true /\ extra_hyps_b nwE 0 [] = true /\ arc_upper_bound nwE 0 [] = 100 /\
  feasible (build_flow_network nwE 0 []) (circ_flow nwE 0 []) = true.
Proof. vm_compute. auto. Qed.

(** * The pre-repair arc bound, and the network built with it *)
(* before the repair "fix: flow arcs carry as many vehicles as the longest formation of the type's trips": the type's
   formation limit (or 100) and the largest slot allotment only *)
Definition arc_upper_bound_prefix (nw : network) (ty : Z) (slots : list (node_id * Z)) : Z :=
  fold_left Z.max (map snd slots) (type_limit_or_100 nw ty).
Definition recap (u : Z) (e : fedge) : fedge :=
  {| fe_tail := fe_tail e; fe_head := fe_head e; fe_lower := fe_lower e; fe_upper := u; fe_cost := fe_cost e |}.
(* every connecting arc is capped at [arc_upper_bound] ([connecting_upper]); the pre-repair network is the same network
   with the connecting arcs capped at [arc_upper_bound_prefix] *)
Definition build_flow_network_prefix (nw : network) (ty : Z) (slots : list (node_id * Z)) : fnet :=
  service_edges nw ty ++ maint_edges nw slots ++
  map (recap (arc_upper_bound_prefix nw ty slots)) (connecting_edges nw ty slots) ++ depot_edges nw ty slots.

Lemma arcs_into_upper nw ty slots hid hc e :
  In e (arcs_into nw ty slots hid hc) -> fe_upper e = arc_upper_bound nw ty slots.
Proof.
  rewrite arcs_into_eq. intros Hin. apply in_flat_map in Hin. destruct Hin as (p & _ & Hin).
  unfold arc_of in Hin. destruct (tail_code nw slots p) as [tc|]; [|destruct Hin].
  destruct Hin as [<-|[]]. reflexivity.
Qed.

Lemma connecting_upper nw ty slots e :
  In e (connecting_edges nw ty slots) -> fe_upper e = arc_upper_bound nw ty slots.
Proof.
  unfold connecting_edges. rewrite !in_app_iff, !in_flat_map.
  intros [(x & _ & Hin)|[([m c] & _ & Hin)|(d & _ & Hin)]]; exact (arcs_into_upper _ _ _ _ _ _ Hin).
Qed.

(* the two bounds differ only by the new term: the current one is the maximum of the pre-repair one and the node edge
   capacities of the type's service trips; the current network is the pre-repair builder with the current bound *)
Lemma arc_upper_bound_prefix_le nw ty slots : arc_upper_bound_prefix nw ty slots <= arc_upper_bound nw ty slots.
Proof. unfold arc_upper_bound, arc_upper_bound_prefix. apply fold_max_ge. Qed.

Lemma recap_same u e : fe_upper e = u -> recap u e = e.
Proof. intros <-. destruct e; reflexivity. Qed.

Lemma build_flow_network_recap nw ty slots :
  build_flow_network nw ty slots =
  service_edges nw ty ++ maint_edges nw slots ++
  map (recap (arc_upper_bound nw ty slots)) (connecting_edges nw ty slots) ++ depot_edges nw ty slots.
Proof.
  unfold build_flow_network. f_equal. f_equal. f_equal.
  rewrite <- (map_id (connecting_edges nw ty slots)) at 1. apply map_ext_in.
  intros e He. symmetry. apply recap_same. exact (connecting_upper nw ty slots e He).
Qed.

(** * The instance on which the pre-repair arc bound made the circulation infeasible
      A LOADED network, from an instance passing [valid_instance_b].
      One vehicle type of capacity 1 without formation limit, no depots listed (only the overflow depot), one trip with
      150 passengers on a route segment with maximalFormationCount 200: the node edge demands min(150, 200) = 150
      vehicles.  Under the pre-repair bound the only arc into it carried at most 100 (arcs capped at the type's limit,
      or 100), the circulation was infeasible and the implementation panicked at network_simplex(..).unwrap()
      (min_cost_flow_solver.rs).  Now the arcs carry 200 and the circulation is feasible. *)
Definition inst3 : instance := {|
  i_types := [ {| vt_cap := 1; vt_seats := 1; vt_limit := None |} ];
  i_nlocs := 2;
  i_depots := Some [];
  i_routes := [ {| r_type := 0; r_segs := [ {| rs_origin := 0; rs_dest := 1; rs_dist := 1000; rs_dur := 3600; rs_limit := Some 200 |} ] |} ];
  i_departures := [ {| d_route := 0; d_segs := [ {| ds_rseg := 0; ds_dep := 43200; ds_pass := 150; ds_seated := 0 |} ] |} ];
  i_slots := None;
  i_dh_dur := [[0; 600]; [600; 0]];
  i_dh_dist := [[0; 1000]; [1000; 0]];
  i_params := {| p_forbid := false; p_min := 0; p_dht := 0; p_maxdist := 0;
                 c_staff := 1; c_service := 1; c_maint := 3; c_dh := 5; c_idle := 2 |} |}.
Definition nw3 : network := match load inst3 [] with Ok nw => nw | _ => nw_dflt end.

(* regression: every hypothesis of the statement (now also the bound on the formation limit) and the four extra ones
   hold, the arcs carry 200, and the explicit circulation is feasible *)
Example tight_arc_bound_repaired :
  LoadStmts.valid_instance_b inst3 = true /\ load inst3 [] = Ok nw3 /\
  stmt_hyps_b nw3 0 [] = true /\ extra_hyps_b nw3 0 [] = true /\
  arc_upper_bound_prefix nw3 0 [] = 100 /\ arc_upper_bound nw3 0 [] = 200 /\
  feasible (build_flow_network nw3 0 []) (circ_flow nw3 0 []) = true /\
  circ_flow nw3 0 [] = [150; 150; 0; 150; 150].
Proof. vm_compute. repeat split; reflexivity. Qed.

(* the pre-repair bound made it infeasible: the network with the connecting arcs capped at [arc_upper_bound_prefix] has
   no feasible circulation (node edge [150, 200], the only arc into it [0, 100]) *)
Example tight_arc_bound_prefix_refutes :
  h_lim nw3 0 [] = true /\
  forallb (fun s => match maximal_formation_count_for nw3 s with
                    | Some l => (0 <=? l) && (l <=? arc_upper_bound_prefix nw3 0 []) | None => true end)
          (service_nodes nw3 0) = false /\
  ~ exists f, feasible (build_flow_network_prefix nw3 0 []) f = true.
Proof.
  repeat (split; [vm_compute; reflexivity|]).
  intros [f Hf]. feas_facts Hf 5. cons_at Hc 8. lia.
Qed.

(** * Loaded networks *)
Lemma zs_sub_list {A} (g : A -> Z) (l1 : list A) :
  NoDup l1 -> forall l2, incl l1 l2 -> (forall x, In x l2 -> 0 <= g x) -> z_sum (map g l1) <= z_sum (map g l2).
Proof.
  induction 1 as [|x l1 Hx Hnd IH]; intros l2 Hi Hn.
  - change (z_sum (map g [])) with 0. apply zs_nonneg. exact Hn.
  - assert (Hin : In x l2) by (apply Hi; left; reflexivity).
    apply in_split in Hin. destruct Hin as (a & b & ->).
    assert (IH' : z_sum (map g l1) <= z_sum (map g (a ++ b))).
    { apply IH.
      - intros y Hy. assert (Hy' : In y (a ++ x :: b)) by (apply Hi; right; exact Hy).
        rewrite in_app_iff in *. cbn [In] in Hy'. destruct Hy' as [Hy'|[Hy'|Hy']]; auto. subst y. contradiction.
      - intros y Hy. apply Hn. rewrite in_app_iff in *. cbn [In]. tauto. }
    rewrite map_app, z_sum_app in *. cbn [map]. rewrite !z_sum_cons. lia.
Qed.

Lemma z_sum_map_le' {A} (f g : A -> Z) l : (forall x, In x l -> f x <= g x) -> z_sum (map f l) <= z_sum (map g l).
Proof.
  induction l as [|a l IH]; intros H; [cbn; lia|]. cbn [map]. rewrite !z_sum_cons.
  assert (f a <= g a) by (apply H; left; reflexivity).
  assert (z_sum (map f l) <= z_sum (map g l)) by (apply IH; intros x Hx; apply H; right; exact Hx). lia.
Qed.

Lemma div_ceil_nonneg a b : 0 <= a -> 0 < b -> 0 <= div_ceil a b.
Proof. intros Ha Hb. unfold div_ceil. apply Z.div_pos; lia. Qed.

(* what [valid_instance_b] and [inst_unsigned] say about the trip records *)
Lemma trip_records_numbers i s : valid_instance_b i = true -> inst_unsigned i -> In s (trip_records i) ->
  0 <= st_pass s /\ 0 <= st_seated s /\ forall l, st_limit s = Some l -> 0 <= l.
Proof.
  intros V (_ & U2 & _) H.
  unfold valid_instance_b in V. cbv beta zeta in V. rewrite !andb_true_iff in V.
  destruct V as [[[[[[[[[[[[_ _] V3] _] _] _] _] _] _] _] _] _] _].
  unfold trip_records in H. apply in_flat_map in H. destruct H as (d & Hd & H).
  apply in_flat_map in H. destruct H as (sg & Hs & H).
  destruct (lookup_rseg i d sg) as [[r g]|] eqn:E; [|destruct H]. destruct H as [<-|[]]. cbn [st_pass st_seated st_limit].
  rewrite forallb_forall in V3. specialize (V3 d Hd).
  destruct (nth_error (i_routes i) (d_route d)) as [r'|]; [|discriminate V3].
  rewrite forallb_forall in V3. specialize (V3 sg Hs). rewrite !andb_true_iff in V3. destruct V3 as [[_ A] B].
  apply Z.leb_le in A. apply Z.leb_le in B.
  split; [destruct (ds_pass sg =? 0); lia|]. split; [exact B|].
  intros l El. apply lookup_in in E. destruct E as [E1 E2]. exact (U2 r g l E1 E2 El).
Qed.

Lemma rd_ids deps : forall s, rd_idx_from s deps ->
  map fst (map (fun '(d, sn, en) => (dp_idx d, (d, sn, en))) (rd_dn_of s deps)) = map Z.of_nat (seq s (length deps)).
Proof.
  induction deps as [|d deps IH]; intros s IX; [reflexivity|].
  apply rd_idx_from_cons in IX. destruct IX as [E0 IX].
  unfold rd_dn_of. cbn [length seq combine map fst]. fold (rd_dn_of (S s) deps). rewrite E0, (IH _ IX). reflexivity.
Qed.

Section Loaded.
Variable i : instance.
Variable perm : list Z.
Variable trips : list service_trip.
Variable p0 p1 : duration.
Hypothesis V : valid_instance_b i = true.
Hypothesis U : inst_unsigned i.
Hypothesis R : incl trips (trip_records i).
Let N := Lnet i perm trips p0 p1.
Let ovidx := Lovidx i perm trips.
Let overflow := Loverflow i perm trips.
Let deps := Ldepots i perm trips.

Lemma Ltrips_good s : In s trips -> trip_good i s.
Proof. intros H. apply trip_records_good; [exact V|]. apply R. exact H. Qed.

Lemma Ldeps_idx : rd_idx_from 0 deps.
Proof. unfold deps, Ldepots. apply rd_idx_from_snoc; [apply rd_make_depots_idx|]. reflexivity. Qed.

Lemma Ldeps_ov : nth_error deps (length (Ldepots0 i perm trips)) = Some overflow.
Proof. unfold deps, Ldepots. rewrite nth_error_app2 by lia. rewrite Nat.sub_diag. reflexivity. Qed.

Definition ov_sn : node_id := SD (2 * ovidx).
Definition ov_en : node_id := ED (2 * ovidx + 1).

Lemma Lov_entry : depot_entry N ovidx = Some (overflow, ov_sn, ov_en).
Proof.
  destruct (rd_dn_entry deps 0 Ldeps_idx _ _ Ldeps_ov) as (A & _ & _). cbn [Nat.add] in A.
  unfold depot_entry, N. cbn [nw_depots Lnet]. unfold Ldentry, Ldnodes. fold deps. fold (rd_dn_of 0 deps). exact A.
Qed.

Lemma Lov_sn_nd : nd N ov_sn = NStart {| dn_depot := ovidx; dn_loc := Nowhere |}.
Proof.
  destruct (rd_dn_entry deps 0 Ldeps_idx _ _ Ldeps_ov) as (_ & B & _). cbn [Nat.add] in B.
  unfold N. apply Lnd. unfold Lnodes. apply in_app_iff. left.
  unfold Ldentries, Ldnodes. fold deps. fold (rd_dn_of 0 deps). exact B.
Qed.

Lemma Lov_en_nd : nd N ov_en = NEnd {| dn_depot := ovidx; dn_loc := Nowhere |}.
Proof.
  destruct (rd_dn_entry deps 0 Ldeps_idx _ _ Ldeps_ov) as (_ & _ & C). cbn [Nat.add] in C.
  unfold N. apply Lnd. unfold Lnodes. apply in_app_iff. left.
  unfold Ldentries, Ldnodes. fold deps. fold (rd_dn_of 0 deps). exact C.
Qed.

Lemma Lov_id : overflow_depot_id N = ovidx.
Proof. reflexivity. Qed.
Lemma Lov_start : get_start_depot_node N ovidx = ov_sn.
Proof. unfold get_start_depot_node. rewrite Lov_entry. reflexivity. Qed.
Lemma Lov_end : get_end_depot_node N ovidx = ov_en.
Proof. unfold get_end_depot_node. rewrite Lov_entry. reflexivity. Qed.

Lemma Lov_sn_listed : In ov_sn (Lsdeps i perm trips).
Proof.
  rewrite Lsdeps_eq. apply in_map_iff. exists (length (Ldepots0 i perm trips)). split; [reflexivity|].
  apply in_seq. unfold Ldepots. rewrite app_length. cbn [length]. lia.
Qed.
Lemma Lov_en_listed : In ov_en (Ledeps i perm trips).
Proof.
  rewrite Ledeps_eq. apply in_map_iff. exists (length (Ldepots0 i perm trips)). split; [reflexivity|].
  apply in_seq. unfold Ldepots. rewrite app_length. cbn [length]. lia.
Qed.

Lemma Ldepot_ids : depot_ids N = map Z.of_nat (seq 0 (length deps)).
Proof.
  unfold depot_ids, N. cbn [nw_depots Lnet]. unfold Ldentry, Ldnodes. fold deps. fold (rd_dn_of 0 deps).
  apply rd_ids. exact Ldeps_idx.
Qed.

Lemma Ldepot_ids_nodup : NoDup (depot_ids N).
Proof. rewrite Ldepot_ids. apply NoDup_map_inj; [intros x y _ _ E; lia|apply seq_NoDup]. Qed.

Lemma Lov_in_ids : In ovidx (depot_ids N).
Proof.
  pose proof Lov_entry as E. unfold depot_entry in E. apply (assoc_in Z.eqb Z.eqb_eq) in E.
  unfold depot_ids. change ovidx with (fst (ovidx, (overflow, ov_sn, ov_en))). apply in_map. exact E.
Qed.

(* capacities are not negative *)
Lemma Lcaps_nonneg d ty : 0 <= capacity_of N d ty.
Proof.
  unfold capacity_of. destruct (depot_entry N d) as [[[dp sn] en]|] eqn:A; [|lia].
  unfold depot_entry, N in A. cbn [nw_depots Lnet] in A. apply (assoc_in Z.eqb Z.eqb_eq) in A.
  unfold Ldentry in A. apply in_map_iff in A. destruct A as ([[dp' sn'] en'] & Q & A). inversion Q; subst; clear Q.
  unfold Ldnodes in A. apply in_map_iff in A. destruct A as ([k dd] & Q & A). inversion Q; subst; clear Q.
  apply in_combine_r in A. unfold Ldepots in A. apply in_app_or in A.
  destruct U as (U1 & _ & U3).
  assert (Hvub : 0 <= Z.max (Lnservice trips) (Lvub i trips)) by (unfold Lnservice; lia).
  destruct A as [A|[A|[]]].
  - unfold Ldepots0, make_depots in A. destruct (i_depots i) as [ds|].
    + apply in_map_iff in A. destruct A as ([k' x] & <- & A). apply in_combine_r in A.
      destruct (U3 x A) as [C1 C2]. unfold depot_capacity_for. cbn [dp_total dp_allowed].
      destruct (assoc Z.eqb ty (id_allowed x)) as [[c|]|] eqn:Q; try lia.
      apply (assoc_in Z.eqb Z.eqb_eq) in Q. specialize (C2 _ _ Q). lia.
    + apply in_map_iff in A. destruct A as ([k' x] & <- & A). unfold depot_capacity_for. cbn [dp_total dp_allowed].
      destruct (assoc Z.eqb ty (map (fun t => (t, @None Z)) (tids i))) as [[c|]|] eqn:Q; try lia.
      apply (assoc_in Z.eqb Z.eqb_eq) in Q. apply in_map_iff in Q. destruct Q as (t & Q & _). discriminate Q.
  - subst dp. unfold depot_capacity_for. cbn [dp_total dp_allowed Loverflow].
    assert (M : 0 <= Lmaxfc i).
    { unfold Lmaxfc. destruct (i_types i) as [|vt r] eqn:E; [lia|].
      assert (H0 : 0 <= Llim vt).
      { unfold Llim. destruct (vt_limit vt) as [l|] eqn:El; [|lia]. apply (U1 vt l); [try rewrite E; left; reflexivity|exact El]. }
      pose proof (fold_max_ge (map Llim r) (Llim vt)). lia. }
    assert (0 <= Lnservice trips * Lmaxfc i) by (apply Z.mul_nonneg_nonneg; [unfold Lnservice; lia|exact M]).
    destruct (assoc Z.eqb ty (map (fun t => (t, @None Z)) (tids i))) as [[c|]|] eqn:Q; try lia.
    apply (assoc_in Z.eqb Z.eqb_eq) in Q. apply in_map_iff in Q. destruct Q as (t & Q & _). discriminate Q.
Qed.

Variable ty : Z.
Hypothesis Hty : In ty (tids i).
Hypothesis WF : net_wf_b N = true.

(* the service trips of the type *)
Lemma Lsvc_node s : In s (service_nodes N ty) ->
  exists k st, (k < length (Ltbt i trips))%nat /\ s = SV (Lc0 i perm trips + Z.of_nat k) /\
               nd N s = NService st /\ st_type st = ty /\ In st trips.
Proof.
  unfold N. rewrite (Lservice_nodes i perm trips p0 p1 ty Hty). intros H. apply sort_by_in in H.
  unfold Lsvc_list in H. apply in_map_iff in H. destruct H as ([id n] & E & H). cbn [fst] in E. subst id.
  apply filter_In in H. destruct H as [H T].
  destruct (Lsvc_entries_in _ _ _ _ _ H) as (st & -> & Hst).
  pose proof (in_combine_l _ _ _ _ H) as Hid. unfold Lsvc_ids in Hid. apply in_map_iff in Hid.
  destruct Hid as (k & <- & Hk). apply in_seq in Hk.
  exists k, st. split; [lia|]. split; [reflexivity|]. split; [|split].
  - apply Lnd. unfold Lnodes. rewrite !in_app_iff. right. left. exact H.
  - apply Z.eqb_eq. exact T.
  - apply Ltbt_in in Hst. exact Hst.
Qed.

(* the maintenance slots *)
Lemma Lmaint_node m : In m (nw_maint N) ->
  exists k sl, m = MT (Lc1 i perm trips + Z.of_nat k) /\ nd N m = NMaint (Lmk_slot sl) /\ In sl (Lslots i).
Proof.
  unfold N. cbn [nw_maint Lnet]. unfold Lsrt. intros H. apply sort_by_in in H.
  pose proof H as Hk. unfold Lmids in Hk. apply in_map_iff in Hk. destruct Hk as (k & <- & _).
  rewrite <- (map_fst_combine _ _ (Lm_len i perm trips)) in H. fold (Lm_entries i perm trips) in H.
  apply in_map_iff in H. destruct H as ([id n] & E & H). cbn [fst] in E. subst id.
  destruct (Lm_entries_in _ _ _ _ _ H) as (sl & -> & Hsl).
  exists k, sl. split; [reflexivity|]. split; [|exact Hsl].
  apply Lnd. unfold Lnodes. rewrite !in_app_iff. right. right. exact H.
Qed.

Lemma Lservice_nodup : NoDup (service_nodes N ty).
Proof.
  unfold N. rewrite (Lservice_nodes i perm trips p0 p1 ty Hty). unfold Lsrt. apply sort_by_nodup.
  pose proof (Ltype_nodup i perm trips ty) as H. apply NoDup_app_split in H. tauto.
Qed.

Lemma Ltype_nodes_in x : In x (service_nodes N ty) \/ In x (nw_maint N) \/ In x (Lsdeps i perm trips) \/ In x (Ledeps i perm trips) ->
  In x (type_nodes N ty).
Proof.
  unfold type_nodes, N. cbn [nw_maint nw_sdepots nw_edepots Lnet]. unfold Lsrt. rewrite !in_app_iff.
  intros [H|[H|[H|H]]]; auto.
  - right. right. left. apply sort_by_in. exact H.
  - right. right. right. apply sort_by_in. exact H.
Qed.

Lemma Lty_ids : In ty (type_ids N).
Proof. exact Hty. Qed.

Lemma Lvtype_in t vt : vtype_of N t = Some vt -> In vt (i_types i).
Proof.
  unfold vtype_of, N. cbn [nw_types Lnet]. destruct (t <? 0); [discriminate|]. apply nth_error_In.
Qed.

Lemma Lvtype_ty : exists vt, vtype_of N ty = Some vt.
Proof.
  pose proof Hty as H. unfold tids in H. apply in_map_iff in H. destruct H as (k & <- & Hk). apply in_seq in Hk.
  unfold vtype_of, N. cbn [nw_types Lnet]. destruct (Z.ltb_spec (Z.of_nat k) 0); [lia|]. rewrite Nat2Z.id.
  destruct (nth_error (i_types i) k) as [vt|] eqn:E; [eauto|]. apply nth_error_None in E. unfold ntypes in Hk. lia.
Qed.

(* numbers of a service node *)
Lemma Lreq_nonneg t x st : nd N x = NService st -> In st trips -> 0 <= number_of_vehicles_required_to_serve N t x.
Proof.
  intros E Hst. unfold number_of_vehicles_required_to_serve, passengers_of, seated_of. rewrite E.
  destruct (vtype_of N t) as [vt|] eqn:Ev; [|lia]. apply Lvtype_in in Ev.
  destruct (valid_parts i V) as (V1 & _). destruct (V1 vt Ev) as [C1 C2].
  destruct (trip_records_numbers i st V U (R st Hst)) as (P1 & P2 & _).
  pose proof (div_ceil_nonneg _ _ P1 C1). lia.
Qed.

Lemma Lmfc_nonneg x st l : nd N x = NService st -> In st trips -> maximal_formation_count_for N x = Some l -> 0 <= l.
Proof.
  intros E Hst. unfold maximal_formation_count_for. rewrite E.
  destruct (trip_records_numbers i st V U (R st Hst)) as (_ & _ & P3). destruct U as (U1 & _).
  destruct (vtype_of N (vehicle_type_for N x)) as [vt|] eqn:Ev.
  - apply Lvtype_in in Ev. destruct (vt_limit vt) as [a|] eqn:Ea.
    + specialize (U1 vt a Ev Ea). destruct (st_limit st) as [b|] eqn:Eb; intros Q; inversion Q; subst l.
      * specialize (P3 b eq_refl). lia.
      * lia.
    + intros Q. exact (P3 l Q).
  - intros Q. exact (P3 l Q).
Qed.

Lemma Lsvc_type s : In s (service_nodes N ty) -> is_service (nd N s) = true /\ vehicle_type_for N s = ty.
Proof.
  intros H. destruct (Lsvc_node s H) as (k & st & _ & _ & E & T & _). unfold vehicle_type_for. rewrite E. auto.
Qed.

Lemma Llo_le_capped s : In s (service_nodes N ty) -> fe_lower (service_edge N ty s) <= required_capped N s.
Proof.
  intros H. destruct (Lsvc_type s H) as [_ T]. unfold required_capped, service_edge. cbn [fe_lower]. rewrite T.
  destruct (maximal_formation_count_for N s); lia.
Qed.

Lemma Lsvc_ids_nd x : In x (Lsvc_ids i perm trips) -> exists st, nd N x = NService st /\ In st trips.
Proof.
  intros H. rewrite <- (map_fst_combine _ _ (Lsvc_len i perm trips)) in H. fold (Lsvc_entries i perm trips) in H.
  apply in_map_iff in H. destruct H as ([id n] & E & H). cbn [fst] in E. subst id.
  destruct (Lsvc_entries_in _ _ _ _ _ H) as (st & -> & Hst). exists st. split; [|apply Ltbt_in in Hst; exact Hst].
  apply Lnd. unfold Lnodes. rewrite !in_app_iff. right. left. exact H.
Qed.

Lemma Lcapped_nonneg x : In x (all_service_nodes N) -> 0 <= required_capped N x.
Proof.
  intros H. apply (Permutation_in _ (Lall_service i perm trips p0 p1)) in H.
  destruct (Lsvc_ids_nd x H) as (st & E & Hst). unfold required_capped.
  pose proof (Lreq_nonneg (vehicle_type_for N x) x st E Hst) as Q.
  destruct (maximal_formation_count_for N x) as [l|] eqn:El; [|exact Q].
  pose proof (Lmfc_nonneg x st l E Hst El). lia.
Qed.

Lemma Lservice_incl : incl (service_nodes N ty) (all_service_nodes N).
Proof.
  intros s H. apply (Permutation_in _ (Permutation_sym (Lall_service i perm trips p0 p1))).
  destruct (Lsvc_node s H) as (k & st & Hk & -> & _). unfold Lsvc_ids. apply in_map_iff. exists k. split; [reflexivity|].
  apply in_seq. lia.
Qed.

Variable slots : list (node_id * Z).
Hypothesis Hsl_nd : NoDup (map fst slots).
Hypothesis Hsl : forall m c, In (m, c) slots -> In m (nw_maint N) /\ 0 <= c <= track_count N m.

Lemma Ltracks_nonneg m : In m (nw_maint N) -> 0 <= track_count N m.
Proof.
  intros H. destruct (Lmaint_node m H) as (k & sl & _ & E & Hs). unfold track_count. rewrite E. cbn [Lmk_slot ms_tracks].
  destruct (valid_parts i V) as (_ & _ & _ & _ & V5 & _). exact (proj2 (V5 sl Hs)).
Qed.

Lemma Ltotal_le : total_lower_bound N ty slots <= capacity_of N ovidx ty.
Proof.
  replace (capacity_of N ovidx ty) with (dp_total (Loverflow i perm trips)) by (symmetry; exact (Loverflow_cap i perm trips p0 p1 ty Hty)).
  pose proof (Lmax_vehicles i perm trips p0 Ltrips_good p1) as M. fold N in M.
  assert (T : total_lower_bound N ty slots <= max_vehicles N).
  { unfold total_lower_bound, max_vehicles. rewrite service_edges_eq, maint_edges_eq, !map_map. apply Z.add_le_mono.
    - etransitivity; [apply z_sum_map_le'; exact Llo_le_capped|].
      apply zs_sub_list; [exact Lservice_nodup|exact Lservice_incl|exact Lcapped_nonneg].
    - etransitivity; [apply (z_sum_map_le' _ (fun mc => track_count N (fst mc)))|].
      + intros [m c] Hin. cbn [maint_edge fe_lower fst]. exact (proj2 (proj2 (Hsl m c Hin))).
      + rewrite <- (map_map fst (track_count N)). apply zs_sub_list; [exact Hsl_nd| |exact Ltracks_nonneg].
        intros m Hm. apply in_map_iff in Hm. destruct Hm as ([m' c] & <- & Hin). exact (proj1 (Hsl m' c Hin)). }
  cbn [dp_total Loverflow]. lia.
Qed.

Lemma Lcodes : codes_distinct N ty slots.
Proof.
  split; [|exact Ldepot_ids_nodup].
  assert (Hs : forall a, In a (service_nodes N ty) ->
            exists k, (k < length (Ltbt i trips))%nat /\ a = SV (Lc0 i perm trips + Z.of_nat k)).
  { intros a H. destruct (Lsvc_node a H) as (k & st & Hk & -> & _). eauto. }
  assert (Hm : forall a, In a (map fst slots) -> exists k, a = MT (Lc1 i perm trips + Z.of_nat k)).
  { intros a H. apply in_map_iff in H. destruct H as ([m c] & <- & Hin).
    destruct (Lmaint_node m (proj1 (Hsl m c Hin))) as (k & sl & Q & _). exists k. exact Q. }
  apply NoDup_map_of_inj.
  - intros a b Ha Hb E. apply in_app_or in Ha. apply in_app_or in Hb.
    destruct Ha as [Ha|Ha], Hb as [Hb|Hb].
    + destruct (Hs a Ha) as (k & _ & ->). destruct (Hs b Hb) as (k' & _ & ->). cbn [nid_idx] in E. f_equal. exact E.
    + destruct (Hs a Ha) as (k & Hk & ->). destruct (Hm b Hb) as (k' & ->). cbn [nid_idx] in E. unfold Lc1 in E. lia.
    + destruct (Hm a Ha) as (k & ->). destruct (Hs b Hb) as (k' & Hk & ->). cbn [nid_idx] in E. unfold Lc1 in E. lia.
    + destruct (Hm a Ha) as (k & ->). destruct (Hm b Hb) as (k' & ->). cbn [nid_idx] in E. f_equal. exact E.
  - apply NoDup_app_build; [exact Lservice_nodup|exact Hsl_nd|].
    intros x H1 H2. destruct (Hs x H1) as (k & _ & ->). destruct (Hm _ H2) as (k' & Q). discriminate Q.
Qed.

Lemma Lact_nd x : In x (service_nodes N ty ++ map fst slots) ->
  In x (type_nodes N ty) /\ (is_service (nd N x) = true \/ is_maint (nd N x) = true).
Proof.
  intros H. apply in_app_or in H. destruct H as [H|H].
  - split; [apply Ltype_nodes_in; left; exact H|]. left. exact (proj1 (Lsvc_type x H)).
  - apply in_map_iff in H. destruct H as ([m c] & <- & Hin). cbn [fst]. pose proof (proj1 (Hsl m c Hin)) as Hm.
    split; [apply Ltype_nodes_in; right; left; exact Hm|]. right.
    destruct (Lmaint_node m Hm) as (k & sl & _ & E & _). rewrite E. reflexivity.
Qed.

Lemma Lpreds x : In x (service_nodes N ty ++ map fst slots) ->
  In ov_sn (predecessors N ty x) /\ In x (predecessors N ty ov_en).
Proof.
  intros H. destruct (Lact_nd x H) as [Tn K]. split.
  - apply (predecessors_exact N WF ty x ov_sn Lty_ids). split.
    + apply Ltype_nodes_in. right. right. left. exact Lov_sn_listed.
    + unfold can_reach, can_reach_nodes. rewrite Lov_sn_nd. destruct K as [K|K]; destruct (nd N x); try discriminate K; reflexivity.
  - apply (predecessors_exact N WF ty ov_en x Lty_ids). split; [exact Tn|].
    unfold can_reach, can_reach_nodes. rewrite Lov_en_nd. destruct K as [K|K]; destruct (nd N x); try discriminate K; reflexivity.
Qed.

Theorem Lcirculation_feasible : exists f, feasible (build_flow_network N ty slots) f = true.
Proof.
  apply circulation_feasible_under_typed.
  - exact WF.
  - exact Lty_ids.
  - exact Lcodes.
  - intros x Hx. destruct (Lact_nd x Hx) as [_ [K|K]]; destruct (nd N x); try discriminate K; reflexivity.
  - intros m c Hin. split; [exact (proj1 (proj2 (Hsl m c Hin)))|].
    exact (aub_ge_slot N ty slots m c Hin).
  - intros s Hs. destruct (Lsvc_node s Hs) as (k & st & _ & _ & E & _ & Hst).
    split; [exact (Lreq_nonneg ty s st E Hst)|].
    destruct (maximal_formation_count_for N s) as [l|] eqn:El; [|exact I].
    split; [exact (Lmfc_nonneg s st l E Hst El)|].
    pose proof (aub_ge_mf N ty slots s Hs) as Hmf. rewrite El in Hmf. exact Hmf.
  - rewrite Lov_id. exact Lov_in_ids.
  - rewrite Lov_id. exact Ltotal_le.
  - intros x Hx. rewrite Lov_id, Lov_start, Lov_end. exact (Lpreds x Hx).
  - intros d _. apply Lcaps_nonneg.
  - etransitivity; [|apply aub_ge_tlim].
    unfold type_limit_or_100. destruct Lvtype_ty as (vt & Ev). rewrite Ev.
    destruct (vt_limit vt) as [a|] eqn:Ea; [|lia]. destruct U as (U1 & _). exact (U1 vt a (Lvtype_in ty vt Ev) Ea).
  - rewrite Lov_id, Lov_start. eexists. split; [exact Lov_sn_nd|reflexivity].
  - intros s Hs. exact (proj1 (Lsvc_type s Hs)).
Qed.
End Loaded.

(* On a network loaded from an instance that conforms to the input format ([valid_instance_b]) and has no negative
   limits / capacities ([inst_unsigned]: they are unsigned in the implementation), for every listed vehicle type and
   allotted slots that are distinct maintenance nodes within their track counts, the circulation is feasible.  The
   former hypothesis "no trip's formation limit exceeds the arc bound" is automatic since the repair "fix: flow arcs
   carry as many vehicles as the longest formation of the type's trips" ([aub_ge_mf]); [tight_arc_bound_prefix_refutes]
   shows that it was a real restriction under the pre-repair bound. *)
Theorem circulation_feasible_loaded :
  forall i perm nw ty slots,
    valid_instance_b i = true -> perm_ok i perm -> inst_unsigned i -> load i perm = Ok nw ->
    In ty (type_ids nw) ->
    NoDup (map fst slots) ->
    (forall m c, In (m, c) slots -> In m (nw_maint nw) /\ 0 <= c <= track_count nw m) ->
    exists f, feasible (build_flow_network nw ty slots) f = true.
Proof.
  intros i perm nw ty slots V P U L Hty Hnd Hsl.
  destruct (load_wf_partial i perm nw V P L) as (WF & _).
  destruct (load_inv i perm nw V L) as (trips & n0 & p1 & E & Hn0 & R & G & Ne). rewrite E in *.
  apply (Lcirculation_feasible i perm trips (Len n0) p1 V U); auto.
  intros s Hs. rewrite <- R. exact Hs.
Qed.

(* the regression instance again, through the general theorem *)
Example tight_arc_bound_repaired_loaded : exists f, feasible (build_flow_network nw3 0 []) f = true.
Proof.
  apply (circulation_feasible_loaded inst3 [] nw3 0 []).
  - vm_compute. reflexivity.
  - intros Q. discriminate Q.
  - unfold inst_unsigned, inst3. cbn [i_types i_routes i_depots In]. split; [|split].
    + intros vt l [<-|[]] Q. discriminate Q.
    + intros r g l [<-|[]] [<-|[]] Q. cbn [rs_limit] in Q. inversion Q. lia.
    + intros d [].
  - vm_compute. reflexivity.
  - vm_compute. left. reflexivity.
  - constructor.
  - intros m c [].
Qed.

(** * Non-vacuity: the loaded network [nw2] of FlowFacts2.v (two trips, one slot allotted) passes every check, and the
      explicit circulation is feasible *)
Example nw2_checked :
  stmt_hyps_b nw2 0 slots2 = true /\ extra_hyps_b nw2 0 slots2 = true /\
  feasible (build_flow_network nw2 0 slots2) (circ_flow nw2 0 slots2) = true /\
  circ_flow nw2 0 slots2 = [1; 1; 1; 0; 1; 0; 1; 0; 0; 1; 0; 0; 0; 0; 0; 0; 0; 0; 0; 1; 1; 1; 0; 3].
Proof. vm_compute. auto. Qed.

(** * Summary
   - [circulation_feasible_refuted] : ~ stmt_circulation_feasible.  The statement quantifies over arbitrary [network]
     records; four facts every loaded network has are missing from its hypotheses.  Each of them is needed: for each
     one, [nwA_cex] .. [nwD_cex] give a network that satisfies every hypothesis of the statement and the other three,
     and whose circulation problem has NO feasible solution:
       E1 no depot has a negative capacity for the type (the depot edge [0, capacity] would be empty);
       E2 the arc bound is not negative (it is negative only when the type's formation limit is negative and there are
          neither service trips of the type nor allotted slots);
       E3 the node the depot table names as start node of the overflow depot is a start-depot node of that depot
          (otherwise the arcs "from the overflow depot" leave another depot's right copy);
       E4 the nodes listed as service trips of the type are service nodes (an unallotted maintenance node has no
          outgoing arc) or demand nothing.
     The former E5 ("a trip without formation limit, node edge capacity 100, demands no more than an arc carries") is
     gone: since the repair "fix: flow arcs carry as many vehicles as the longest formation of the type's trips"
     [arc_upper_bound] dominates the capacity of the node edge of every service trip of the type ([aub_ge_mf]; also
     [aub_ge_tlim], [aub_ge_slot]); its former counterexample now has a feasible circulation ([nwE_now_feasible]).
   - [circulation_feasible_under_wf] : the statement exactly as written plus E1-E4;
     [circulation_feasible_under_typed] : with E4 replaced by "the nodes listed as service trips of the type are
     service nodes"; [circulation_feasible_core] / [circ_flow_feasible] : the explicit flow [circ_flow] (demand(x)
     units along overflow start depot -> x -> overflow end depot, total on the overflow depot edge, 0 elsewhere) is
     feasible under [circ_hyps], which needs neither [net_wf_b] nor the index part of [codes_distinct];
     [circulation_feasible_checked] : all hypotheses as executable checks ([stmt_hyps_b], [extra_hyps_b] = E1-E4).
   - loaded networks: [circulation_feasible_loaded] discharges EVERY hypothesis from [valid_instance_b],
     [inst_unsigned], [perm_ok] and the shape of the slot allotment (distinct maintenance nodes within their track
     counts), for every listed vehicle type.  The formerly remaining hypothesis "formation limit <= arc_upper_bound"
     (and with it the special cases for types with a limit / segments with limits up to 100) is automatic under the
     repaired bound.
   - regression: [inst3] passes [valid_instance_b] (type without limit, capacity 1; one trip with 150 passengers on a
     segment with maximalFormationCount 200; no depots listed).  Under the pre-repair bound [arc_upper_bound_prefix]
     (type limit or 100, and the slot allotments) its loaded network had an infeasible circulation problem: node edge
     [150, 200], the only arc into it [0, 100] ([tight_arc_bound_prefix_refutes], against
     [build_flow_network_prefix]; [build_flow_network_recap] / [connecting_upper] show that this builder with the
     current bound is [build_flow_network]); the implementation panicked on it (network_simplex(..).unwrap() on
     None).  Now the arcs carry 200 and [circ_flow] is feasible ([tight_arc_bound_repaired], by computation;
     [tight_arc_bound_repaired_loaded], through [circulation_feasible_loaded]). *)
Print Assumptions circulation_feasible_refuted.
Print Assumptions circ_flow_feasible.
Print Assumptions circulation_feasible_core.
Print Assumptions circulation_feasible_under_wf.
Print Assumptions circulation_feasible_under_typed.
Print Assumptions circulation_feasible_checked.
Print Assumptions nwA_cex.
Print Assumptions nwB_cex.
Print Assumptions nwC_cex.
Print Assumptions nwD_cex.
Print Assumptions nwE_now_feasible.
Print Assumptions build_flow_network_recap.
Print Assumptions arc_upper_bound_prefix_le.
Print Assumptions tight_arc_bound_repaired.
Print Assumptions tight_arc_bound_prefix_refutes.
Print Assumptions circulation_feasible_loaded.
Print Assumptions tight_arc_bound_repaired_loaded.
Print Assumptions nw2_checked.
