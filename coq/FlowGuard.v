(* FlowGuard.v — the i64 arithmetic of solve_for_vehicle_type (solver/src/min_cost_flow_solver.rs): the flow network's numbers
   are `i64` (`type NetworkNumberType = i64`), and the construction guards them explicitly:
     cost_overflow_checker.checked_add(cost.checked_mul(bound).unwrap()).expect("overflow in cost_overflow_checker")
   for every node edge (bound: the formation limit resp. the allotted count) and every arc (bound: the arc bound);
     max_cost_per_sec.checked_mul(3).unwrap().checked_mul(planning).unwrap().checked_mul(total_lower_bound).unwrap()
   for the spawning cost; spawning_cost.checked_mul(capacity).unwrap() per depot (the running sum over the depots only warns).
   The plain products `duration as Cost * rate as Cost` overflow-check in a debug build only.
   Everywhere else the model computes in Z; here the bound 2^63 - 1 is written into the model, because C06 is about it:
   [cost_guard] is Panic exactly when one of these checks fails. *)
From RS Require Import Base Network Flow.

Definition i64_max : Z := 2^63 - 1.
Definition fits (x : Z) : bool := x <=? i64_max.

Section Guard.
Variable nw : network.
Variable ty : Z.
Variable slots : list (node_id * Z).
Let P := nw_params nw.

Definition max_rate : Z := Z.max 1 (fold_left Z.max [c_service P; c_maint P; c_dh P; c_idle P] (c_staff P)).

(* the terms the running checker adds up, in the code's order of construction: trips, slots, arcs *)
Definition guard_terms : list Z :=
  map (fun e => fe_cost e * fe_upper e) (service_edges nw ty) ++
  map (fun e => fe_cost e * fe_lower e) (maint_edges nw slots) ++
  map (fun e => fe_cost e * fe_upper e) (connecting_edges nw ty slots).

(* running sums (all terms are non-negative on loaded networks, so the largest is the last) *)
Fixpoint prefix_sums (acc : Z) (l : list Z) : list Z :=
  match l with [] => [] | x :: r => (acc + x) :: prefix_sums (acc + x) r end.

Definition cost_guard : res unit :=
  if forallb (fun e => fits (fe_cost e))
             (service_edges nw ty ++ maint_edges nw slots ++ connecting_edges nw ty slots)   (* plain products *)
     && forallb fits guard_terms                                                             (* checked_mul *)
     && forallb fits (prefix_sums 0 guard_terms)                                             (* checked_add *)
     && fits (max_rate * 3) && fits (max_rate * 3 * planning_s nw)
     && fits (spawning_cost nw ty slots)                                                     (* the three checked_mul *)
     && forallb (fun e => fits (fe_cost e * fe_upper e)) (depot_edges nw ty slots)           (* per depot *)
  then Ok tt else Panic.

End Guard.
