(* FlowGuardFacts.v — proofs for FlowGuardStmts.v (C06, known finding F2): the i64 guard of the flow-network construction.
   - [cost_guard_total_refuted] : ~ stmt_cost_guard_total.  Witness: the two-trip / one-slot instance of FlowFacts2.v
     ([inst2]) with the service cost rate 10^13 per second ([instG]); it is valid, unsigned, loads, the slot distribution
     succeeds, and the guard is Panic (spawning cost x depot capacity = 3.888 * 10^19 > 2^63 - 1).  With 10^12 per second
     the same instance passes ([instG12_passes]); with 10^12 and a depot of capacity 20 it fails again ([instH_*]).
   - [cost_guard_meaning] : stmt_cost_guard_meaning, as stated.
   - [cost_guard_passes_bounded_refuted] : ~ stmt_cost_guard_passes_bounded.  The statement as written is false: each of
     the three factors F, planning_s, total_lower_bound of its two magnitude premises may be 0, which makes the premise
     trivial while a single factor of the guard overflows:
       (t) total_lower_bound = 0 — a listed vehicle type without trips, on a LOADED network ([instA], cost rate 10^19):
           the last premise reads 0 <= i64_max, but max_rate * 3 does not fit;
       (p) planning_s = 0 (hand-written network [nwP]): same effect;
       (F) F = 0 (hand-written network [nwF], formation limit 0): K * F * length = 0 whatever K is, but an edge cost
           (the "plain product" duration x rate) does not fit.
     [bounded_variant_needs_t/p/F]: guarding any two of the three factors still leaves a false statement.
   - [cost_guard_passes_bounded_fixed] : the closest true variant (Z.max 1 around F, planning_s, total_lower_bound), and
     [cost_guard_passes_bounded_pos] : the statement as written plus 1 <= planning_s and 1 <= total_lower_bound
     (which force 1 <= F); [instG12_bounded]: non-vacuity on the loaded 10^12 instance. *)
From Coq Require Import List ZArith Bool Lia.
From RS Require Import Base BaseFacts Network NetSpec LoadStmts LoadFacts EndToEndStmts Tour Flow F32 SlotDist FlowGuard
  FlowGuardStmts.
Import ListNotations.
Open Scope Z_scope.

(** * Small facts *)
Lemma i64_max_val : i64_max = 9223372036854775807.
Proof. reflexivity. Qed.
Lemma i64_max_nonneg : 0 <= i64_max.
Proof. rewrite i64_max_val. lia. Qed.
Local Opaque i64_max.

Lemma fits_le x : fits x = true <-> x <= i64_max.
Proof. unfold fits. apply Z.leb_le. Qed.

Lemma if_ok (b : bool) : (if b then Ok tt else @Panic unit) = Ok tt <-> b = true.
Proof. destruct b; split; intros H; try reflexivity; discriminate H. Qed.

Lemma z_sum_nil : z_sum [] = 0.
Proof. reflexivity. Qed.

Lemma max_rate_ge_1 nw : 1 <= max_rate nw.
Proof. unfold max_rate. apply Z.le_max_l. Qed.

Lemma spawning_cost_eq nw ty slots :
  spawning_cost nw ty slots = max_rate nw * 3 * planning_s nw * total_lower_bound nw ty slots.
Proof. reflexivity. Qed.

Lemma depot_edge_cost nw ty slots e : In e (depot_edges nw ty slots) -> fe_cost e = spawning_cost nw ty slots.
Proof.
  unfold depot_edges. rewrite in_map_iff. intros (d & <- & _). reflexivity.
Qed.

(* the k-th running sum is the sum of the first k terms (k = 1 .. length) *)
Lemma in_prefix_sums l : forall acc x,
  In x (prefix_sums acc l) <-> exists k, (1 <= k <= length l)%nat /\ x = acc + z_sum (firstn k l).
Proof.
  induction l as [|a l IH]; intros acc x; cbn [prefix_sums In length].
  - split; [intros []|]. intros (k & Hk & _). lia.
  - rewrite IH. split.
    + intros [<-|(k & Hk & ->)].
      * exists 1%nat. split; [lia|]. cbn [firstn]. rewrite z_sum_cons, z_sum_nil. lia.
      * exists (S k). split; [lia|]. cbn [firstn]. rewrite z_sum_cons. lia.
    + intros (k & Hk & ->). destruct k as [|k]; [lia|]. destruct k as [|k].
      * left. cbn [firstn]. rewrite z_sum_cons, z_sum_nil. lia.
      * right. exists (S k). split; [lia|]. cbn [firstn]. rewrite z_sum_cons. lia.
Qed.

Lemma nth_prefix_sums l : forall acc k, (k < length l)%nat ->
  nth k (prefix_sums acc l) 0 = acc + z_sum (firstn (S k) l).
Proof.
  induction l as [|a l IH]; intros acc k Hk; cbn [length] in Hk; [lia|].
  destruct k as [|k].
  - cbn [prefix_sums nth firstn]. rewrite z_sum_cons, z_sum_nil. lia.
  - cbn [prefix_sums nth]. rewrite IH by lia. cbn [firstn]. rewrite !z_sum_cons. lia.
Qed.

(** * 2. the meaning of the guard *)
Theorem cost_guard_meaning : stmt_cost_guard_meaning.
Proof.
  unfold stmt_cost_guard_meaning, guard_meaning. intros nw ty slots.
  unfold cost_guard. rewrite if_ok, !andb_true_iff, !forallb_forall. split.
  - intros [[[[[[H1 H2] H3] H4] H5] H6] H7].
    split; [|split; [|split; [|split; [|split; [|split]]]]].
    + intros e He. apply fits_le. exact (H1 e He).
    + intros x Hx. apply fits_le. exact (H2 x Hx).
    + intros k Hk. destruct k as [|k].
      * cbn [firstn]. rewrite z_sum_nil. exact i64_max_nonneg.
      * apply fits_le. apply H3. apply in_prefix_sums. exists (S k). split; [lia|]. lia.
    + apply fits_le. exact H4.
    + apply fits_le. exact H5.
    + apply fits_le. exact H6.
    + intros e He. apply fits_le. exact (H7 e He).
  - intros (H1 & H2 & H3 & H4 & H5 & H6 & H7).
    split; [split; [split; [split; [split; [split|]|]|]|]|].
    + intros e He. apply fits_le. exact (H1 e He).
    + intros x Hx. apply fits_le. exact (H2 x Hx).
    + intros x Hx. apply fits_le. apply in_prefix_sums in Hx. destruct Hx as (k & Hk & ->).
      rewrite Z.add_0_l. apply H3. lia.
    + apply fits_le. exact H4.
    + apply fits_le. exact H5.
    + apply fits_le. exact H6.
    + intros e He. apply fits_le. exact (H7 e He).
Qed.

(** * 1. the guard fails on a conformant instance *)
(* [inst2] of FlowFacts2.v with the service cost rate [c] and the depot capacity [cap] as parameters *)
Definition inst_of (c cap : Z) : instance := {|
  i_types := [ {| vt_cap := 100; vt_seats := 50; vt_limit := None |} ];
  i_nlocs := 2;
  i_depots := Some [ {| id_loc := 0; id_cap := cap; id_allowed := [(0, None)] |} ];
  i_routes := [ {| r_type := 0; r_segs := [ {| rs_origin := 0; rs_dest := 1; rs_dist := 1000; rs_dur := 3600; rs_limit := None |} ] |};
                {| r_type := 0; r_segs := [ {| rs_origin := 1; rs_dest := 0; rs_dist := 1000; rs_dur := 3600; rs_limit := None |} ] |} ];
  i_departures := [ {| d_route := 0; d_segs := [ {| ds_rseg := 0; ds_dep := 43200; ds_pass := 10; ds_seated := 5 |} ] |};
                    {| d_route := 1; d_segs := [ {| ds_rseg := 0; ds_dep := 50000; ds_pass := 10; ds_seated := 5 |} ] |} ];
  i_slots := Some [ {| is_loc := 1; is_start := 60000; is_end := 70000; is_tracks := 1 |} ];
  i_dh_dur := [[0; 600]; [600; 0]];
  i_dh_dist := [[0; 1000]; [1000; 0]];
  i_params := {| p_forbid := false; p_min := 0; p_dht := 0; p_maxdist := 0;
                 c_staff := 1; c_service := c; c_maint := 3; c_dh := 5; c_idle := 2 |} |}.
Definition nw_none : network :=
  {| nw_nodes := []; nw_depots := []; nw_overflow := (0, SD 0, ED 0); nw_service := []; nw_maint := [];
     nw_sdepots := []; nw_edepots := []; nw_all_by_start := []; nw_type_by_start := []; nw_type_by_end := [];
     nw_params := {| p_forbid := false; p_min := 0; p_dht := 0; p_maxdist := 0;
                     c_staff := 0; c_service := 0; c_maint := 0; c_dh := 0; c_idle := 0 |};
     nw_nlocs := 0%nat; nw_dh := []; nw_types := []; nw_nservice := 0; nw_planning := Len 0 |}.
Definition loaded (i : instance) : network := match load i [] with Ok nw => nw | _ => nw_none end.
Definition allot_of (nw : network) : allot := match distribute nw with Ok a => a | _ => [] end.
Definition slots_for (nw : network) (ty : Z) : list (node_id * Z) :=
  match slots_of (allot_of nw) ty with Ok s => s | _ => [] end.

(* the witness: 10^13 per second of service trip, depot capacity 5 as in [inst2] *)
Definition instG : instance := inst_of 10000000000000 5.
Definition nwG : network := loaded instG.
Definition slotsG : list (node_id * Z) := slots_for nwG 0.

Example instG_valid : valid_instance_b instG = true.
Proof. vm_compute. reflexivity. Qed.
Example instG_perm_ok : perm_ok instG [].
Proof. intros Q. discriminate Q. Qed.
Lemma inst_of_unsigned c cap : 0 <= cap -> inst_unsigned (inst_of c cap).
Proof.
  intros Hcap. unfold inst_unsigned, inst_of. cbn [i_types i_routes i_depots In]. split; [|split].
  - intros vt l [<-|[]] Q. discriminate Q.
  - intros r g l [<-|[<-|[]]] [<-|[]] Q; discriminate Q.
  - intros d [<-|[]]. cbn [id_cap id_allowed In]. split; [exact Hcap|].
    intros t c0 [Q|[]]. discriminate Q.
Qed.
Example instG_unsigned : inst_unsigned instG.
Proof. apply inst_of_unsigned. lia. Qed.
Example instG_loaded : load instG [] = Ok nwG.
Proof. vm_compute. reflexivity. Qed.
Example instG_type : In 0 (type_ids nwG).
Proof. vm_compute. left. reflexivity. Qed.
Example instG_distribute : distribute nwG = Ok (allot_of nwG).
Proof. vm_compute. reflexivity. Qed.
Example instG_slots : slots_of (allot_of nwG) 0 = Ok slotsG /\ slotsG = [(MT 6, 1)].
Proof. vm_compute. split; reflexivity. Qed.
Example instG_guard_panics : cost_guard nwG 0 slotsG = Panic.
Proof. vm_compute. reflexivity. Qed.
(* where it fails: every edge cost, product and running sum fits, the spawning cost fits, spawning cost x capacity of the
   listed depot (and of the overflow depot, capacity 3) does not *)
Example instG_numbers :
  planning_s nwG = 86400 /\ total_lower_bound nwG 0 slotsG = 3 /\ max_rate nwG = 10000000000000 /\
  spawning_cost nwG 0 slotsG = 7776000000000000000 /\ fits (spawning_cost nwG 0 slotsG) = true /\
  forallb fits (guard_terms nwG 0 slotsG) = true /\ forallb fits (prefix_sums 0 (guard_terms nwG 0 slotsG)) = true /\
  map (fun e => fe_cost e * fe_upper e) (depot_edges nwG 0 slotsG) = [38880000000000000000; 23328000000000000000] /\
  i64_max = 9223372036854775807.
Proof. vm_compute. repeat (split; [reflexivity|]). reflexivity. Qed.

Theorem cost_guard_total_refuted : ~ stmt_cost_guard_total.
Proof.
  unfold stmt_cost_guard_total. intros H.
  specialize (H instG [] nwG 0 (allot_of nwG) slotsG instG_valid instG_perm_ok instG_unsigned instG_loaded instG_type
                instG_distribute (proj1 instG_slots)).
  rewrite instG_guard_panics in H. discriminate H.
Qed.

(* 10^12 per second: the instance as it is passes; with a depot for 20 vehicles it does not *)
Definition instG12 : instance := inst_of 1000000000000 5.
Example instG12_passes :
  valid_instance_b instG12 = true /\ load instG12 [] = Ok (loaded instG12) /\
  distribute (loaded instG12) = Ok (allot_of (loaded instG12)) /\
  slots_of (allot_of (loaded instG12)) 0 = Ok (slots_for (loaded instG12) 0) /\
  cost_guard (loaded instG12) 0 (slots_for (loaded instG12) 0) = Ok tt.
Proof. vm_compute. repeat (split; [reflexivity|]). reflexivity. Qed.

Definition instH : instance := inst_of 1000000000000 20.
Definition nwH : network := loaded instH.
Example instH_witness :
  valid_instance_b instH = true /\ perm_ok instH [] /\ inst_unsigned instH /\ load instH [] = Ok nwH /\
  In 0 (type_ids nwH) /\ distribute nwH = Ok (allot_of nwH) /\ slots_of (allot_of nwH) 0 = Ok (slots_for nwH 0) /\
  cost_guard nwH 0 (slots_for nwH 0) = Panic /\
  spawning_cost nwH 0 (slots_for nwH 0) = 777600000000000000 /\
  map (fun e => fe_cost e * fe_upper e) (depot_edges nwH 0 (slots_for nwH 0)) = [15552000000000000000; 2332800000000000000].
Proof.
  split; [vm_compute; reflexivity|]. split; [intros Q; discriminate Q|].
  split; [apply inst_of_unsigned; lia|].
  split; [vm_compute; reflexivity|]. split; [vm_compute; left; reflexivity|].
  vm_compute. repeat (split; [reflexivity|]). reflexivity.
Qed.

(** * 3. a sufficient magnitude condition *)
(** ** the statement as written is false: three factors of its two magnitude premises may be 0 *)
(* the statement with each of the three factors F, planning_s, total_lower_bound optionally replaced by its maximum
   with 1: [stmt_bounded_variant false false false] is [stmt_cost_guard_passes_bounded] *)
Definition g1 (g : bool) (x : Z) : Z := if g then Z.max 1 x else x.
Definition stmt_bounded_variant (gF gp gt : bool) : Prop :=
  forall nw ty slots K F D,
    0 <= K -> 0 <= F -> 0 <= D ->
    (forall e, In e (service_edges nw ty ++ maint_edges nw slots ++ connecting_edges nw ty slots) ->
       0 <= fe_cost e <= K /\ 0 <= fe_lower e <= F /\ 0 <= fe_upper e <= F) ->
    (forall e, In e (depot_edges nw ty slots) -> 0 <= fe_upper e <= D) ->
    0 <= planning_s nw -> 0 <= total_lower_bound nw ty slots ->
    K * g1 gF F * Z.of_nat (length (guard_terms nw ty slots)) <= i64_max ->
    max_rate nw * 3 * g1 gp (planning_s nw) * g1 gt (total_lower_bound nw ty slots) * Z.max 1 D <= i64_max ->
    cost_guard nw ty slots = Ok tt.
Lemma bounded_variant_fff : stmt_bounded_variant false false false = stmt_cost_guard_passes_bounded.
Proof. reflexivity. Qed.

(* its premises as an executable check *)
Definition variant_hyps_b (gF gp gt : bool) (nw : network) (ty : Z) (slots : list (node_id * Z)) (K F D : Z) : bool :=
  (0 <=? K) && (0 <=? F) && (0 <=? D) &&
  forallb (fun e => (0 <=? fe_cost e) && (fe_cost e <=? K) && (0 <=? fe_lower e) && (fe_lower e <=? F) &&
                    (0 <=? fe_upper e) && (fe_upper e <=? F))
          (service_edges nw ty ++ maint_edges nw slots ++ connecting_edges nw ty slots) &&
  forallb (fun e => (0 <=? fe_upper e) && (fe_upper e <=? D)) (depot_edges nw ty slots) &&
  (0 <=? planning_s nw) && (0 <=? total_lower_bound nw ty slots) &&
  (K * g1 gF F * Z.of_nat (length (guard_terms nw ty slots)) <=? i64_max) &&
  (max_rate nw * 3 * g1 gp (planning_s nw) * g1 gt (total_lower_bound nw ty slots) * Z.max 1 D <=? i64_max).

Lemma variant_hyps_b_sound gF gp gt nw ty slots K F D :
  variant_hyps_b gF gp gt nw ty slots K F D = true ->
  0 <= K /\ 0 <= F /\ 0 <= D /\
  (forall e, In e (service_edges nw ty ++ maint_edges nw slots ++ connecting_edges nw ty slots) ->
     0 <= fe_cost e <= K /\ 0 <= fe_lower e <= F /\ 0 <= fe_upper e <= F) /\
  (forall e, In e (depot_edges nw ty slots) -> 0 <= fe_upper e <= D) /\
  0 <= planning_s nw /\ 0 <= total_lower_bound nw ty slots /\
  K * g1 gF F * Z.of_nat (length (guard_terms nw ty slots)) <= i64_max /\
  max_rate nw * 3 * g1 gp (planning_s nw) * g1 gt (total_lower_bound nw ty slots) * Z.max 1 D <= i64_max.
Proof.
  intros Hb. unfold variant_hyps_b in Hb. rewrite !andb_true_iff, !forallb_forall in Hb.
  destruct Hb as [[[[[[[[H1 H2] H3] H4] H5] H6] H7] H8] H9].
  apply Z.leb_le in H1, H2, H3, H6, H7, H8, H9.
  split; [exact H1|]. split; [exact H2|]. split; [exact H3|].
  split; [|split; [|split; [exact H6|split; [exact H7|split; [exact H8|exact H9]]]]].
  - intros e He. specialize (H4 e He). rewrite !andb_true_iff, !Z.leb_le in H4. lia.
  - intros e He. specialize (H5 e He). rewrite !andb_true_iff, !Z.leb_le in H5. lia.
Qed.

Lemma variant_refutes gF gp gt nw ty slots K F D :
  variant_hyps_b gF gp gt nw ty slots K F D = true -> cost_guard nw ty slots = Panic -> ~ stmt_bounded_variant gF gp gt.
Proof.
  intros Hb Hp H.
  destruct (variant_hyps_b_sound gF gp gt nw ty slots K F D Hb) as (H1 & H2 & H3 & H4 & H5 & H6 & H7 & H8 & H9).
  assert (G : cost_guard nw ty slots = Ok tt) by exact (H nw ty slots K F D H1 H2 H3 H4 H5 H6 H7 H8 H9).
  rewrite Hp in G. discriminate G.
Qed.

(* corner (t): total_lower_bound = 0.  A listed vehicle type without trips, on a network LOADED from a valid instance
   (planning_s = 86400, F = 100): the last premise reads 0 <= i64_max, while max_rate * 3 = 3 * 10^19 does not fit.
   Every other factor is >= 1, so the witness also refutes the variant that guards F and planning_s only. *)
Definition instA : instance := {|
  i_types := [ {| vt_cap := 100; vt_seats := 50; vt_limit := None |}; {| vt_cap := 100; vt_seats := 50; vt_limit := None |} ];
  i_nlocs := 2;
  i_depots := Some [ {| id_loc := 0; id_cap := 5; id_allowed := [(0, None); (1, None)] |} ];
  i_routes := [ {| r_type := 0; r_segs := [ {| rs_origin := 0; rs_dest := 1; rs_dist := 1000; rs_dur := 3600; rs_limit := None |} ] |} ];
  i_departures := [ {| d_route := 0; d_segs := [ {| ds_rseg := 0; ds_dep := 43200; ds_pass := 10; ds_seated := 5 |} ] |} ];
  i_slots := None;
  i_dh_dur := [[0; 600]; [600; 0]];
  i_dh_dist := [[0; 1000]; [1000; 0]];
  i_params := {| p_forbid := false; p_min := 0; p_dht := 0; p_maxdist := 0;
                 c_staff := 1; c_service := 10000000000000000000; c_maint := 3; c_dh := 5; c_idle := 2 |} |}.
Definition nwA : network := loaded instA.
Example instA_loaded :
  valid_instance_b instA = true /\ load instA [] = Ok nwA /\ In 1 (type_ids nwA) /\
  distribute nwA = Ok (allot_of nwA) /\ slots_of (allot_of nwA) 1 = Ok [].
Proof.
  split; [vm_compute; reflexivity|]. split; [vm_compute; reflexivity|].
  split; [vm_compute; right; left; reflexivity|]. vm_compute. split; reflexivity.
Qed.
Example instA_hyps : variant_hyps_b false false false nwA 1 [] 432000 100 5 = true.
Proof. vm_compute. reflexivity. Qed.
Example instA_hyps_t : variant_hyps_b true true false nwA 1 [] 432000 100 5 = true.
Proof. vm_compute. reflexivity. Qed.
Example instA_panics : cost_guard nwA 1 [] = Panic.
Proof. vm_compute. reflexivity. Qed.
Example instA_numbers :
  planning_s nwA = 86400 /\ total_lower_bound nwA 1 [] = 0 /\ spawning_cost nwA 1 [] = 0 /\
  max_rate nwA * 3 = 30000000000000000000 /\ fits (max_rate nwA * 3) = false /\
  length (guard_terms nwA 1 []) = 4%nat /\
  forallb (fun e => fits (fe_cost e)) (service_edges nwA 1 ++ maint_edges nwA [] ++ connecting_edges nwA 1 []) = true /\
  forallb fits (guard_terms nwA 1 []) = true /\ forallb fits (prefix_sums 0 (guard_terms nwA 1 [])) = true.
Proof. vm_compute. repeat (split; [reflexivity|]). reflexivity. Qed.

Theorem cost_guard_passes_bounded_refuted : ~ stmt_cost_guard_passes_bounded.
Proof.
  rewrite <- bounded_variant_fff.
  exact (variant_refutes false false false nwA 1 [] 432000 100 5 instA_hyps instA_panics).
Qed.

(* hand-written networks for the other two corners (one trip SV 0 of type 0, no depots, no arcs) *)
Definition nw_one (P : params) (types : list vtype) (limit : option Z) (planning : Z) : network :=
  {| nw_nodes := [(SV 0, NService {| st_type := 0; st_origin := Station 0; st_dest := Station 1;
                                     st_dep := Point 0; st_arr := Point 3600; st_dist := Dist 1000;
                                     st_pass := 10; st_seated := 5; st_limit := limit |})];
     nw_depots := []; nw_overflow := (0, SD 0, ED 0); nw_service := [(0, [SV 0])]; nw_maint := [];
     nw_sdepots := []; nw_edepots := []; nw_all_by_start := []; nw_type_by_start := []; nw_type_by_end := [];
     nw_params := P; nw_nlocs := 2%nat; nw_dh := []; nw_types := types; nw_nservice := 1;
     nw_planning := Len planning |}.

(* corner (p): planning_s = 0 (not reachable by [load]; the statement quantifies over every network record).  The node
   edge is [1, 100] with cost 3600, total_lower_bound = 1, F = 100; the staff cost rate 10^19 enters max_rate only. *)
Definition nwP : network :=
  nw_one {| p_forbid := false; p_min := 0; p_dht := 0; p_maxdist := 0;
            c_staff := 10000000000000000000; c_service := 1; c_maint := 1; c_dh := 1; c_idle := 1 |}
         [ {| vt_cap := 100; vt_seats := 50; vt_limit := None |} ] None 0.
Example nwP_hyps : variant_hyps_b false false false nwP 0 [] 3600 100 0 = true.
Proof. vm_compute. reflexivity. Qed.
Example nwP_hyps_p : variant_hyps_b true false true nwP 0 [] 3600 100 0 = true.
Proof. vm_compute. reflexivity. Qed.
Example nwP_panics : cost_guard nwP 0 [] = Panic.
Proof. vm_compute. reflexivity. Qed.
Example nwP_numbers :
  planning_s nwP = 0 /\ total_lower_bound nwP 0 [] = 1 /\ guard_terms nwP 0 [] = [360000] /\
  fits (max_rate nwP * 3) = false.
Proof. vm_compute. repeat (split; [reflexivity|]). reflexivity. Qed.

(* corner (F): F = 0 — the trip's formation limit is 0, the node edge is [0, 0] — makes K * F * length = 0 whatever K
   is, while the cost 3600 s x 10^16 of the node edge does not fit (the "plain product").  planning_s = 1; max_rate * 3,
   max_rate * 3 * planning_s and the spawning cost (0) fit: only the F side fails.  (With F = 0 every lower bound is 0,
   so total_lower_bound = 0 as well; but guarding planning_s and total_lower_bound alone does not repair this.) *)
Definition nwF : network :=
  nw_one {| p_forbid := false; p_min := 0; p_dht := 0; p_maxdist := 0;
            c_staff := 1; c_service := 10000000000000000; c_maint := 1; c_dh := 1; c_idle := 1 |}
         [] (Some 0) 1.
Example nwF_hyps : variant_hyps_b false false false nwF 0 [] 36000000000000000000 0 0 = true.
Proof. vm_compute. reflexivity. Qed.
Example nwF_hyps_F : variant_hyps_b false true true nwF 0 [] 36000000000000000000 0 0 = true.
Proof. vm_compute. reflexivity. Qed.
Example nwF_panics : cost_guard nwF 0 [] = Panic.
Proof. vm_compute. reflexivity. Qed.
Example nwF_numbers :
  planning_s nwF = 1 /\ total_lower_bound nwF 0 [] = 0 /\ map fe_cost (service_edges nwF 0) = [36000000000000000000] /\
  map fe_upper (service_edges nwF 0) = [0] /\ guard_terms nwF 0 [] = [0] /\
  fits (max_rate nwF * 3) = true /\ fits (max_rate nwF * 3 * planning_s nwF) = true /\
  fits (spawning_cost nwF 0 []) = true /\ depot_edges nwF 0 [] = [].
Proof. vm_compute. repeat (split; [reflexivity|]). reflexivity. Qed.

(* each of the three guards is needed: guarding any two of the factors leaves a false statement *)
Theorem bounded_variant_needs_t : ~ stmt_bounded_variant true true false.
Proof. exact (variant_refutes true true false nwA 1 [] 432000 100 5 instA_hyps_t instA_panics). Qed.
Theorem bounded_variant_needs_p : ~ stmt_bounded_variant true false true.
Proof. exact (variant_refutes true false true nwP 0 [] 3600 100 0 nwP_hyps_p nwP_panics). Qed.
Theorem bounded_variant_needs_F : ~ stmt_bounded_variant false true true.
Proof. exact (variant_refutes false true true nwF 0 [] 36000000000000000000 0 0 nwF_hyps_F nwF_panics). Qed.

(** ** the closest true variants *)
(* the three factors that may be 0 are replaced by their maximum with 1 *)
Definition stmt_cost_guard_passes_bounded_fixed : Prop :=
  forall nw ty slots K F D,
    0 <= K -> 0 <= F -> 0 <= D ->
    (forall e, In e (service_edges nw ty ++ maint_edges nw slots ++ connecting_edges nw ty slots) ->
       0 <= fe_cost e <= K /\ 0 <= fe_lower e <= F /\ 0 <= fe_upper e <= F) ->
    (forall e, In e (depot_edges nw ty slots) -> 0 <= fe_upper e <= D) ->
    0 <= planning_s nw -> 0 <= total_lower_bound nw ty slots ->
    K * Z.max 1 F * Z.of_nat (length (guard_terms nw ty slots)) <= i64_max ->
    max_rate nw * 3 * Z.max 1 (planning_s nw) * Z.max 1 (total_lower_bound nw ty slots) * Z.max 1 D <= i64_max ->
    cost_guard nw ty slots = Ok tt.
(* the statement as written plus: the planning horizon and the total demand are positive *)
Definition stmt_cost_guard_passes_bounded_pos : Prop :=
  forall nw ty slots K F D,
    0 <= K -> 0 <= F -> 0 <= D ->
    (forall e, In e (service_edges nw ty ++ maint_edges nw slots ++ connecting_edges nw ty slots) ->
       0 <= fe_cost e <= K /\ 0 <= fe_lower e <= F /\ 0 <= fe_upper e <= F) ->
    (forall e, In e (depot_edges nw ty slots) -> 0 <= fe_upper e <= D) ->
    1 <= planning_s nw -> 1 <= total_lower_bound nw ty slots ->
    K * F * Z.of_nat (length (guard_terms nw ty slots)) <= i64_max ->
    max_rate nw * 3 * planning_s nw * total_lower_bound nw ty slots * Z.max 1 D <= i64_max ->
    cost_guard nw ty slots = Ok tt.

Lemma guard_terms_length nw ty slots :
  length (guard_terms nw ty slots) =
  length (service_edges nw ty ++ maint_edges nw slots ++ connecting_edges nw ty slots).
Proof. unfold guard_terms. rewrite !app_length, !map_length. reflexivity. Qed.

Lemma in_guard_terms nw ty slots x : In x (guard_terms nw ty slots) ->
  exists e, In e (service_edges nw ty ++ maint_edges nw slots ++ connecting_edges nw ty slots) /\
            (x = fe_cost e * fe_upper e \/ x = fe_cost e * fe_lower e).
Proof.
  unfold guard_terms. rewrite !in_app_iff, !in_map_iff.
  intros [(e & <- & He)|[(e & <- & He)|(e & <- & He)]]; exists e; (split; [rewrite !in_app_iff; tauto|]); auto.
Qed.

Lemma z_sum_firstn_le l B : (forall x, In x l -> 0 <= x <= B) ->
  forall k, (k <= length l)%nat -> z_sum (firstn k l) <= B * Z.of_nat k.
Proof.
  induction l as [|a l IH]; intros H k Hk.
  - cbn [length] in Hk. assert (E : k = 0%nat) by lia. subst k. cbn [firstn]. rewrite z_sum_nil. lia.
  - destruct k as [|k]; cbn [firstn].
    + rewrite z_sum_nil. lia.
    + rewrite z_sum_cons.
      assert (Ha : 0 <= a <= B) by (apply H; left; reflexivity).
      assert (Hr : z_sum (firstn k l) <= B * Z.of_nat k).
      { apply IH; [intros x Hx; apply H; right; exact Hx|]. cbn [length] in Hk. lia. }
      rewrite Nat2Z.inj_succ. lia.
Qed.

Lemma z_sum_map_nonpos {A} (g : A -> Z) l : (forall x, In x l -> g x <= 0) -> z_sum (map g l) <= 0.
Proof.
  induction l as [|a l IH]; intros H; cbn [map]; [rewrite z_sum_nil; lia|].
  rewrite z_sum_cons.
  assert (Ha : g a <= 0) by (apply H; left; reflexivity).
  assert (Hr : z_sum (map g l) <= 0) by (apply IH; intros x Hx; apply H; right; exact Hx).
  lia.
Qed.

Theorem cost_guard_passes_bounded_fixed : stmt_cost_guard_passes_bounded_fixed.
Proof.
  unfold stmt_cost_guard_passes_bounded_fixed.
  intros nw ty slots K F D HK HF HD He Hd Hp Ht HB1 HB2.
  apply cost_guard_meaning. unfold guard_meaning.
  pose proof (max_rate_ge_1 nw) as HM.
  pose proof (guard_terms_length nw ty slots) as HL.
  rewrite (spawning_cost_eq nw ty slots).
  set (E := service_edges nw ty ++ maint_edges nw slots ++ connecting_edges nw ty slots) in *.
  set (T := guard_terms nw ty slots) in *.
  set (M := max_rate nw) in *. set (p := planning_s nw) in *. set (t := total_lower_bound nw ty slots) in *.
  set (F' := Z.max 1 F) in *. set (p' := Z.max 1 p) in *. set (t' := Z.max 1 t) in *. set (D' := Z.max 1 D) in *.
  set (n := Z.of_nat (length T)) in *.
  assert (HF' : 1 <= F' /\ F <= F') by (unfold F'; lia).
  assert (Hp' : 1 <= p' /\ p <= p') by (unfold p'; lia).
  assert (Ht' : 1 <= t' /\ t <= t') by (unfold t'; lia).
  assert (HD' : 1 <= D' /\ D <= D') by (unfold D'; lia).
  assert (Hdc : forall e, In e (depot_edges nw ty slots) -> fe_cost e = M * 3 * p * t).
  { intros e Hin. rewrite (depot_edge_cost nw ty slots e Hin). apply spawning_cost_eq. }
  clearbody F' p' t' D' M p t.
  (* the edge side *)
  assert (HKF : K * F <= K * F') by (apply Z.mul_le_mono_nonneg_l; lia).
  assert (HKF0 : 0 <= K * F) by (apply Z.mul_nonneg_nonneg; lia).
  assert (HKK : K <= K * F') by nia.
  assert (Hn1 : forall e, In e E -> 1 <= n).
  { intros e Hin. unfold n. rewrite HL. destruct E as [|e0 E0]; [destruct Hin|]. cbn [length]. lia. }
  assert (Hterm : forall x, In x T -> 0 <= x <= K * F').
  { intros x Hx. apply in_guard_terms in Hx. fold E in Hx. destruct Hx as (e & Hin & Hx).
    destruct (He e Hin) as (Hc & Hl & Hu).
    assert (0 <= fe_cost e * fe_upper e <= K * F).
    { split; [apply Z.mul_nonneg_nonneg; lia|apply Z.mul_le_mono_nonneg; lia]. }
    assert (0 <= fe_cost e * fe_lower e <= K * F).
    { split; [apply Z.mul_nonneg_nonneg; lia|apply Z.mul_le_mono_nonneg; lia]. }
    destruct Hx as [->| ->]; lia. }
  assert (Hmono : forall k, (k <= length T)%nat -> K * F' * Z.of_nat k <= K * F' * n).
  { intros k Hk. apply Z.mul_le_mono_nonneg_l; [lia|]. unfold n. lia. }
  (* the spawning side *)
  set (A := M * 3) in *.
  assert (HA : 3 <= A) by (unfold A; lia).
  assert (S1 : A <= A * p') by nia.
  assert (S2 : A * p <= A * p') by (apply Z.mul_le_mono_nonneg_l; lia).
  assert (S3 : A * p' <= A * p' * t') by nia.
  assert (S4 : 0 <= A * p) by (apply Z.mul_nonneg_nonneg; lia).
  assert (S5 : A * p * t <= A * p' * t') by (apply Z.mul_le_mono_nonneg; lia).
  assert (S6 : 0 <= A * p * t) by (apply Z.mul_nonneg_nonneg; lia).
  assert (S7 : A * p' * t' <= A * p' * t' * D') by nia.
  clearbody A.
  split; [|split; [|split; [|split; [|split; [|split]]]]].
  - intros e Hin. destruct (He e Hin) as (Hc & _). pose proof (Hn1 e Hin) as Hn.
    assert (K * F' <= K * F' * n) by nia. lia.
  - intros x Hx. pose proof (Hterm x Hx) as Hb.
    assert (Hn : 1 <= n).
    { unfold n. destruct T as [|x0 T0]; [destruct Hx|]. cbn [length]. lia. }
    assert (K * F' <= K * F' * n) by nia. lia.
  - intros k Hk. pose proof (z_sum_firstn_le T (K * F') Hterm k Hk) as Hs.
    pose proof (Hmono k Hk). lia.
  - lia.
  - lia.
  - lia.
  - intros e Hin. rewrite (Hdc e Hin). destruct (Hd e Hin) as (Hu0 & Hu).
    assert (A * p * t * fe_upper e <= A * p' * t' * D') by (apply Z.mul_le_mono_nonneg; lia).
    lia.
Qed.

Theorem cost_guard_passes_bounded_pos : stmt_cost_guard_passes_bounded_pos.
Proof.
  unfold stmt_cost_guard_passes_bounded_pos.
  intros nw ty slots K F D HK HF HD He Hd Hp Ht HB1 HB2.
  (* a positive total demand needs a node edge with a positive lower bound, hence 1 <= F *)
  assert (HF1 : 1 <= F).
  { destruct (Z_lt_le_dec F 1) as [Hlt|Hge]; [exfalso|exact Hge].
    assert (Hs : z_sum (map fe_lower (service_edges nw ty)) <= 0).
    { apply z_sum_map_nonpos. intros e Hin.
      assert (Hin' : In e (service_edges nw ty ++ maint_edges nw slots ++ connecting_edges nw ty slots))
        by (rewrite !in_app_iff; tauto).
      destruct (He e Hin') as (_ & Hl & _). lia. }
    assert (Hm : z_sum (map fe_lower (maint_edges nw slots)) <= 0).
    { apply z_sum_map_nonpos. intros e Hin.
      assert (Hin' : In e (service_edges nw ty ++ maint_edges nw slots ++ connecting_edges nw ty slots))
        by (rewrite !in_app_iff; tauto).
      destruct (He e Hin') as (_ & Hl & _). lia. }
    unfold total_lower_bound in Ht. lia. }
  apply (cost_guard_passes_bounded_fixed nw ty slots K F D HK HF HD He Hd); [lia|lia| |].
  - rewrite (Z.max_r 1 F) by exact HF1. exact HB1.
  - rewrite (Z.max_r 1 (planning_s nw)) by exact Hp.
    rewrite (Z.max_r 1 (total_lower_bound nw ty slots)) by exact Ht. exact HB2.
Qed.

Lemma bounded_variant_ttt : stmt_bounded_variant true true true = stmt_cost_guard_passes_bounded_fixed.
Proof. reflexivity. Qed.

(* non-vacuity of the fixed variant: the 10^12 instance passes through it *)
Example instG12_hyps :
  variant_hyps_b false false false (loaded instG12) 0 (slots_for (loaded instG12) 0) 3600000000000000 100 5 = true /\
  (1 <=? planning_s (loaded instG12)) = true /\
  (1 <=? total_lower_bound (loaded instG12) 0 (slots_for (loaded instG12) 0)) = true.
Proof. vm_compute. repeat (split; [reflexivity|]). reflexivity. Qed.
Example instG12_bounded :
  cost_guard (loaded instG12) 0 (slots_for (loaded instG12) 0) = Ok tt.
Proof.
  destruct instG12_hyps as (Hb & Hp & Ht). apply Z.leb_le in Hp, Ht.
  destruct (variant_hyps_b_sound _ _ _ _ _ _ _ _ _ Hb) as (H1 & H2 & H3 & H4 & H5 & _ & _ & H8 & H9).
  exact (cost_guard_passes_bounded_pos _ _ _ _ _ _ H1 H2 H3 H4 H5 Hp Ht H8 H9).
Qed.

Print Assumptions cost_guard_total_refuted.
Print Assumptions cost_guard_meaning.
Print Assumptions cost_guard_passes_bounded_refuted.
Print Assumptions bounded_variant_needs_t.
Print Assumptions bounded_variant_needs_p.
Print Assumptions bounded_variant_needs_F.
Print Assumptions cost_guard_passes_bounded_fixed.
Print Assumptions cost_guard_passes_bounded_pos.
