(* FlowGuardStmts.v — C06 and the 64-bit arithmetic of the flow network (FlowGuard.v). Proofs: FlowGuardFacts.v.
   FINDING (known finding F2, C06): the guard fails on instances that conform to the documented format — cost rates of
   10^12 per second on a one-day instance already do it — and the code then panics (`unwrap` of a failed checked_mul /
   "overflow in cost_overflow_checker").  The statement "the guard passes for every loaded valid instance" is therefore
   REFUTED by a kernel-evaluated witness, and what is proved is the guard's exact arithmetic meaning and a sufficient
   magnitude condition. *)
From RS Require Import Base Network NetSpec LoadStmts LoadFacts EndToEndStmts Tour Flow F32 SlotDist FlowGuard.

(* the over-general statement: false *)
Definition stmt_cost_guard_total : Prop :=
  forall i perm nw ty a slots,
    valid_instance_b i = true -> perm_ok i perm -> inst_unsigned i -> load i perm = Ok nw ->
    In ty (type_ids nw) -> distribute nw = Ok a -> slots_of a ty = Ok slots ->
    cost_guard nw ty slots = Ok tt.

(* the guard says exactly: every edge cost, every cost x bound product, every running sum of those products, the three
   factors of the spawning cost and spawning cost x depot capacity are at most 2^63 - 1 *)
Definition guard_meaning (nw : network) (ty : Z) (slots : list (node_id * Z)) : Prop :=
  (forall e, In e (service_edges nw ty ++ maint_edges nw slots ++ connecting_edges nw ty slots) -> fe_cost e <= i64_max) /\
  (forall x, In x (guard_terms nw ty slots) -> x <= i64_max) /\
  (forall k, (k <= length (guard_terms nw ty slots))%nat -> z_sum (firstn k (guard_terms nw ty slots)) <= i64_max) /\
  max_rate nw * 3 <= i64_max /\ max_rate nw * 3 * planning_s nw <= i64_max /\ spawning_cost nw ty slots <= i64_max /\
  (forall e, In e (depot_edges nw ty slots) -> fe_cost e * fe_upper e <= i64_max).
Definition stmt_cost_guard_meaning : Prop :=
  forall nw ty slots, cost_guard nw ty slots = Ok tt <-> guard_meaning nw ty slots.

(* sufficient magnitudes: K bounds the edge costs, F the bounds of node edges and arcs, D the depot capacities *)
Definition stmt_cost_guard_passes_bounded : Prop :=
  forall nw ty slots K F D,
    0 <= K -> 0 <= F -> 0 <= D ->
    (forall e, In e (service_edges nw ty ++ maint_edges nw slots ++ connecting_edges nw ty slots) ->
       0 <= fe_cost e <= K /\ 0 <= fe_lower e <= F /\ 0 <= fe_upper e <= F) ->
    (forall e, In e (depot_edges nw ty slots) -> 0 <= fe_upper e <= D) ->
    0 <= planning_s nw -> 0 <= total_lower_bound nw ty slots ->
    K * F * Z.of_nat (length (guard_terms nw ty slots)) <= i64_max ->
    max_rate nw * 3 * planning_s nw * total_lower_bound nw ty slots * Z.max 1 D <= i64_max ->
    cost_guard nw ty slots = Ok tt.
