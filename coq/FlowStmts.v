(* FlowStmts.v — C14: soundness of the optimality certificate for min-cost circulations with bounds
   (weak duality / complementary slackness). Proof in FlowFacts.v. *)
From RS Require Import Base Network NetSpec Tour Flow.

(* If a feasible circulation f satisfies complementary slackness w.r.t. some node potentials (checked by the
   executable [check_optimal]), then no feasible circulation is cheaper. *)
Definition stmt_dual_certificate_sound : Prop :=
  forall net f pi, check_optimal net f pi = true ->
  forall g, feasible net g = true -> flow_cost net f <= flow_cost net g.

(* feasibility means what it should: bounds on every edge and conservation at every node *)
Definition stmt_feasible_meaning : Prop :=
  forall net f, feasible net f = true ->
    length net = length f /\
    (forall e x, In (e, x) (combine net f) -> fe_lower e <= x <= fe_upper e) /\
    (forall v, net_flow_at net f v = 0).

(* Using a depot edge (spawning a vehicle) is never free: whenever something has to be covered over a positive
   planning horizon the spawning cost is positive — also when every cost rate of the instance is zero (the
   pre-repair formula, without the lower bound 1 on the rate, gave 0 there). *)
Definition spawning_cost_prefix (nw : network) (ty : Z) (slots : list (node_id * Z)) : Z :=
  let P := nw_params nw in
  fold_left Z.max [c_service P; c_maint P; c_dh P; c_idle P] (c_staff P) * 3 * planning_s nw * total_lower_bound nw ty slots.
Definition stmt_spawning_cost_positive : Prop :=
  forall nw ty slots, 0 < planning_s nw -> 0 < total_lower_bound nw ty slots -> 0 < spawning_cost nw ty slots.
Definition stmt_spawning_cost_dominates_rates : Prop :=
  forall nw ty slots, 0 <= planning_s nw -> 0 <= total_lower_bound nw ty slots ->
    let P := nw_params nw in
    forall c, In c [c_staff P; c_service P; c_maint P; c_dh P; c_idle P] ->
      c * 3 * planning_s nw * total_lower_bound nw ty slots <= spawning_cost nw ty slots.
Definition stmt_spawning_cost_prefix_zero : Prop :=
  forall nw ty slots,
    let P := nw_params nw in
    c_staff P = 0 -> c_service P = 0 -> c_maint P = 0 -> c_dh P = 0 -> c_idle P = 0 ->
    spawning_cost_prefix nw ty slots = 0.

(** ** "Every flow unit is decoded into exactly one tour" — what a passing [is_decomposition] means *)
Definition visits (tours : list (list node_id)) (n : node_id) : Z :=
  z_sum (map (fun t => Z.of_nat (length (filter (nid_eqb n) t))) tours).
Definition tours_from (nw : network) (tours : list (list node_id)) (d : Z) : Z :=
  Z.of_nat (length (filter (fun t => match t with s :: _ => match nd nw s with NStart dd => dn_depot dd =? d | _ => false end
                                                  | [] => false end) tours)).
(* the node codes of the flow network are pairwise distinct for the nodes it is built from *)
Definition codes_distinct (nw : network) (ty : Z) (slots : list (node_id * Z)) : Prop :=
  NoDup (map nid_idx (service_nodes nw ty ++ map fst slots)) /\ NoDup (map fst (nw_depots nw)).
(* the tours are over nodes of the network of this type: depots only at the ends *)
Definition tours_shape (nw : network) (ty : Z) (slots : list (node_id * Z)) (tours : list (list node_id)) : Prop :=
  forall t, In t tours ->
    exists sd ed mid, t = sd :: mid ++ [ed] /\ is_start_depot (nd nw sd) = true /\ is_end_depot (nd nw ed) = true /\
      forall n, In n mid -> In n (service_nodes nw ty) \/ In n (map fst slots).

(* in a decomposition every service trip is visited as often as its node edge carries flow, hence (feasibility) at
   least min(required, limit) and at most limit times; every allotted slot exactly its allotted number of times;
   and from every depot start as many tours as its depot edge carries flow *)
Definition stmt_decomposition_covers : Prop :=
  forall nw ty slots f tours,
    let net := build_flow_network nw ty slots in
    codes_distinct nw ty slots -> tours_shape nw ty slots tours ->
    feasible net f = true -> is_decomposition nw net f tours = true ->
    (forall s, In s (service_nodes nw ty) ->
       let mf := match maximal_formation_count_for nw s with Some l => l | None => 100 end in
       Z.min (number_of_vehicles_required_to_serve nw ty s) mf <= visits tours s <= mf) /\
    (forall m c, In (m, c) slots -> NoDup (map fst slots) -> visits tours m = c) /\
    (forall d, In d (depot_ids nw) -> tours_from nw tours d <= capacity_of nw d ty).

(* the cost of a decomposed flow is the spawning cost per tour plus the tours' operating costs as Tour computes them *)
Definition stmt_flow_cost_is_tour_cost : Prop :=
  forall nw ty slots f tours,
    let net := build_flow_network nw ty slots in
    codes_distinct nw ty slots -> tours_shape nw ty slots tours ->
    feasible net f = true -> is_decomposition nw net f tours = true ->
    flow_cost net f =
      spawning_cost nw ty slots * Z.of_nat (length tours) + z_sum (map (fun t => compute_costs nw t) tours).

(** ** the circulation problem handed to the flow solver is feasible (the solver unwraps its answer) *)
(* one vehicle per demanded unit, each running overflow start depot -> node -> overflow end depot, is a feasible
   circulation, provided the overflow depot is large enough for the total lower bound (which is how load sizes it) and
   the per-arc bound admits the lower bounds *)
Definition overflow_depot_id (nw : network) : Z := let '(od, _, _) := nw_overflow nw in od.
Definition stmt_circulation_feasible : Prop :=
  forall nw ty slots,
    net_wf_b nw = true -> In ty (type_ids nw) ->
    codes_distinct nw ty slots ->
    (forall x, In x (service_nodes nw ty ++ map fst slots) -> is_depot (nd nw x) = false) ->
    (forall m c, In (m, c) slots -> 0 <= c <= arc_upper_bound nw ty slots) ->
    (forall s, In s (service_nodes nw ty) -> 0 <= number_of_vehicles_required_to_serve nw ty s /\
       match maximal_formation_count_for nw s with Some l => 0 <= l <= arc_upper_bound nw ty slots | None => True end) ->
    In (overflow_depot_id nw) (depot_ids nw) ->
    total_lower_bound nw ty slots <= capacity_of nw (overflow_depot_id nw) ty ->
    (* the overflow depot's nodes are the ones the arcs are built from *)
    (forall x, In x (service_nodes nw ty ++ map fst slots) ->
       In (get_start_depot_node nw (overflow_depot_id nw)) (predecessors nw ty x) /\
       In x (predecessors nw ty (get_end_depot_node nw (overflow_depot_id nw)))) ->
    exists f, feasible (build_flow_network nw ty slots) f = true.
