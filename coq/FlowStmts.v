(* FlowStmts.v — C14: soundness of the optimality certificate for min-cost circulations with bounds
   (weak duality / complementary slackness). Proof in FlowFacts.v. *)
From RS Require Import Base Network Flow.

(* If a feasible circulation f satisfies complementary slackness w.r.t. some node potentials (checked by the
   executable [check_optimal]), then no feasible circulation is cheaper. *)
Definition stmt_dual_certificate_sound : Prop :=
  forall net f pi, check_optimal net f pi = true ->
  forall g, feasible net g = true -> flow_cost net f <= flow_cost net g.

(* feasibility means what it should: bounds on every edge and conservation at every node *)
Definition stmt_feasible_meaning : Prop :=
  forall net f, feasible net f = true ->
    length net = length f /\
    (forall e x, In (e, x) (combine net f) -> fe_lower e <= x <= fe_upper e) /\
    (forall v, net_flow_at net f v = 0).

(* Using a depot edge (spawning a vehicle) is never free: whenever something has to be covered over a positive
   planning horizon the spawning cost is positive — also when every cost rate of the instance is zero (the
   pre-repair formula, without the lower bound 1 on the rate, gave 0 there). *)
Definition spawning_cost_prefix (nw : network) (ty : Z) (slots : list (node_id * Z)) : Z :=
  let P := nw_params nw in
  fold_left Z.max [c_service P; c_maint P; c_dh P; c_idle P] (c_staff P) * 3 * planning_s nw * total_lower_bound nw ty slots.
Definition stmt_spawning_cost_positive : Prop :=
  forall nw ty slots, 0 < planning_s nw -> 0 < total_lower_bound nw ty slots -> 0 < spawning_cost nw ty slots.
Definition stmt_spawning_cost_dominates_rates : Prop :=
  forall nw ty slots, 0 <= planning_s nw -> 0 <= total_lower_bound nw ty slots ->
    let P := nw_params nw in
    forall c, In c [c_staff P; c_service P; c_maint P; c_dh P; c_idle P] ->
      c * 3 * planning_s nw * total_lower_bound nw ty slots <= spawning_cost nw ty slots.
Definition stmt_spawning_cost_prefix_zero : Prop :=
  forall nw ty slots,
    let P := nw_params nw in
    c_staff P = 0 -> c_service P = 0 -> c_maint P = 0 -> c_dh P = 0 -> c_idle P = 0 ->
    spawning_cost_prefix nw ty slots = 0.
