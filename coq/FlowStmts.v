(* FlowStmts.v — C14: soundness of the optimality certificate for min-cost circulations with bounds
   (weak duality / complementary slackness). Proof in FlowFacts.v. *)
From RS Require Import Base Network Flow.

(* If a feasible circulation f satisfies complementary slackness w.r.t. some node potentials (checked by the
   executable [check_optimal]), then no feasible circulation is cheaper. *)
Definition stmt_dual_certificate_sound : Prop :=
  forall net f pi, check_optimal net f pi = true ->
  forall g, feasible net g = true -> flow_cost net f <= flow_cost net g.

(* feasibility means what it should: bounds on every edge and conservation at every node *)
Definition stmt_feasible_meaning : Prop :=
  forall net f, feasible net f = true ->
    length net = length f /\
    (forall e x, In (e, x) (combine net f) -> fe_lower e <= x <= fe_upper e) /\
    (forall v, net_flow_at net f v = 0).
