(* Hyps.v — executable readings of the hypotheses of the end-to-end theorem (EndToEndStmts.v), evaluated by the driver
   on every pipeline run, with their soundness lemmas. *)
From RS Require Import Base Network NetSpec LoadStmts Tour TourStmts PipelineSched EndToEndStmts.

Definition opt_nonneg (o : option Z) : bool := match o with Some l => 0 <=? l | None => true end.
Definition inst_unsigned_b (i : instance) : bool :=
  forallb (fun vt => opt_nonneg (vt_limit vt)) (i_types i) &&
  forallb (fun r => forallb (fun g => opt_nonneg (rs_limit g)) (r_segs r)) (i_routes i) &&
  forallb (fun d => (0 <=? id_cap d) && forallb (fun '(_, c) => opt_nonneg c) (id_allowed d))
          (match i_depots i with Some l => l | None => [] end).

Lemma inst_unsigned_b_sound i : inst_unsigned_b i = true -> inst_unsigned i.
Proof.
  unfold inst_unsigned_b, inst_unsigned. intros H.
  apply andb_true_iff in H. destruct H as [H H3]. apply andb_true_iff in H. destruct H as [H1 H2].
  rewrite forallb_forall in H1, H2, H3.
  split; [|split].
  - intros vt l Hvt E. specialize (H1 vt Hvt). rewrite E in H1. cbn in H1. apply Z.leb_le. exact H1.
  - intros r g l Hr Hg E. specialize (H2 r Hr). rewrite forallb_forall in H2. specialize (H2 g Hg).
    rewrite E in H2. cbn in H2. apply Z.leb_le. exact H2.
  - intros d Hd. specialize (H3 d Hd). apply andb_true_iff in H3. destruct H3 as [Hc Ha].
    split; [apply Z.leb_le; exact Hc|]. intros t c Hin. rewrite forallb_forall in Ha.
    specialize (Ha (t, Some c) Hin). cbn in Ha. apply Z.leb_le. exact Ha.
Qed.

Section T.
Variable nw : network.
Definition path_ok_b (p : list node_id) : bool :=
  negb (Nat.eqb (length p) 0) && forallb (fun '(a, b) => can_reach nw a b) (windows p) &&
  existsb (fun n => negb (node_is_depot nw n)) p && forallb (has_node nw) p.
Definition tours_ok_b (tours : list (Z * list node_id)) : bool := forallb (fun '(_, p) => path_ok_b p) tours.

Lemma tours_ok_b_sound tours : tours_ok_b tours = true -> tours_are_paths nw tours /\ tours_known nw tours.
Proof.
  unfold tours_ok_b. intros H. rewrite forallb_forall in H. split.
  - intros ty p Hin. specialize (H (ty, p) Hin). cbn in H. unfold path_ok_b in H.
    apply andb_true_iff in H. destruct H as [H _]. apply andb_true_iff in H. destruct H as [H He].
    apply andb_true_iff in H. destruct H as [Hn Hc].
    split; [|split].
    + intros E. subst p. discriminate Hn.
    + intros a b Hab. rewrite forallb_forall in Hc. exact (Hc (a, b) Hab).
    + exact He.
  - intros ty p n Hin Hn. specialize (H (ty, p) Hin). cbn in H. unfold path_ok_b in H.
    apply andb_true_iff in H. destruct H as [_ Hk]. rewrite forallb_forall in Hk. exact (Hk n Hn).
Qed.
End T.
