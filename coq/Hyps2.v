(* Hyps2.v — executable readings of the hypotheses of the "pipeline never crashes" theorem (PipelineTotalStmts.v),
   evaluated by the driver on every pipeline run, with their soundness lemmas. *)
From RS Require Import Base Network NetSpec LoadStmts Tour TourStmts Flow FlowStmts PipelineSched NoPanicFactsA
  PipelineTotalStmts.

Definition params_costs_nonneg_b (p : params) : bool :=
  (0 <=? c_staff p) && (0 <=? c_service p) && (0 <=? c_maint p) && (0 <=? c_dh p) && (0 <=? c_idle p).
Lemma params_costs_nonneg_b_sound p : params_costs_nonneg_b p = true -> params_costs_nonneg p.
Proof.
  unfold params_costs_nonneg_b, params_costs_nonneg. intros H.
  repeat (apply andb_true_iff in H; destruct H as [H ?]).
  repeat split; apply Z.leb_le; assumption.
Qed.

Section H2.
Variable nw : network.

Definition memz (x : Z) (l : list Z) : bool := existsb (Z.eqb x) l.
Lemma memz_in x l : memz x l = true -> In x l.
Proof. unfold memz. intros H. apply existsb_exists in H. destruct H as (y & Hy & E). apply Z.eqb_eq in E. subst; exact Hy. Qed.

Definition tour_typed_b (ty : Z) (p : list node_id) : bool :=
  memz ty (type_ids nw) && forallb (fun n => compatible_with_vehicle_type nw n ty) p &&
  match p with
  | sd :: rest => negb (Nat.eqb (length rest) 0) && is_start_depot (nd nw sd) && is_end_depot (nd nw (last rest sd))
  | [] => false
  end.
Definition tours_typed_b (tours : list (Z * list node_id)) : bool := forallb (fun '(ty, p) => tour_typed_b ty p) tours.

Lemma tours_typed_b_sound tours : tours_typed_b tours = true -> tours_typed nw tours.
Proof.
  unfold tours_typed_b, tours_typed. intros H ty p Hin. rewrite forallb_forall in H. specialize (H (ty, p) Hin).
  cbn in H. unfold tour_typed_b in H. apply andb_true_iff in H. destruct H as [H Hs].
  apply andb_true_iff in H. destruct H as [Hty Hc].
  split; [apply memz_in; exact Hty|]. split; [exact Hc|].
  destruct p as [|sd rest]; [discriminate|].
  apply andb_true_iff in Hs. destruct Hs as [Hs He]. apply andb_true_iff in Hs. destruct Hs as [Hn Hsd].
  assert (NE : rest <> []) by (intros E; subst rest; discriminate Hn).
  exists sd, (removelast rest), (last rest sd). split; [|split; assumption].
  f_equal. apply app_removelast_last. exact NE.
Qed.

Definition limit_ok_b (n : node_id) (k : Z) : bool :=
  match nd nw n with
  | NMaint _ => k <=? track_count nw n
  | NService _ => match maximal_formation_count_for nw n with Some l => k <=? l | None => true end
  | _ => true
  end.
Definition tours_within_limits_b (tours : list (Z * list node_id)) : bool :=
  forallb (fun n => limit_ok_b n (visits (map snd tours) n)) (coverable_nodes nw).
Lemma tours_within_limits_b_sound tours : tours_within_limits_b tours = true -> tours_within_limits nw tours.
Proof.
  unfold tours_within_limits_b, tours_within_limits. intros H n Hn. rewrite forallb_forall in H. specialize (H n Hn).
  unfold limit_ok_b in H. unfold limit_ok. destruct (nd nw n); try exact I.
  - destruct (maximal_formation_count_for nw n); [apply Z.leb_le; exact H|exact I].
  - apply Z.leb_le. exact H.
Qed.

Definition fleet_fits_overflow_b (tours : list (Z * list node_id)) : bool :=
  let '(od, _, _) := nw_overflow nw in
  (Z.of_nat (length tours) <=? total_capacity_of nw od) &&
  forallb (fun ty => Z.of_nat (length (filter (fun '(t, _) => t =? ty) tours)) <=? capacity_of nw od ty) (type_ids nw).
Lemma fleet_fits_overflow_b_sound tours : fleet_fits_overflow_b tours = true -> fleet_fits_overflow nw tours.
Proof.
  unfold fleet_fits_overflow_b, fleet_fits_overflow. destruct (nw_overflow nw) as [[od os] oe]. intros H.
  apply andb_true_iff in H. destruct H as [H1 H2]. split; [apply Z.leb_le; exact H1|].
  intros ty Hty. rewrite forallb_forall in H2. apply Z.leb_le. exact (H2 ty Hty).
Qed.
End H2.
