(* InvFacts.v — soundness of the schedule checkers [check_inv] (C10) and [check_exact] (C09):
   an empty list of violated clause codes implies the declarative statements of InvStmts.v.

   Proved as stated: inv_tours, inv_limits, inv_cycles, exact_meaning.
   [stmt_inv_formations] is FALSE as stated (refuted below, [inv_formations_false]): nothing in the
   checker ties the ids listed in [nw_maint] to maintenance node records, so a depot id listed there
   may carry a formation although it is not among the [non_depots] of the tour.  The statement is
   proved under the same hypothesis [stmt_inv_limits] carries ([inv_formations_partial]). *)
From RS Require Import Base BaseFacts Network NetSpec NetFacts Tour SchedObs InvStmts.

(** * list helpers *)
Lemma ite_nil (b : bool) (x : Z) r : (if b then [] else [x]) ++ r = [] -> b = true /\ r = [].
Proof. destruct b; simpl; [auto | discriminate]. Qed.

Lemma nth_last_ne {A} (l : list A) d d' : l <> [] -> nth (length l - 1) l d = last l d'.
Proof.
  induction l as [|x l IH]; [congruence|]. intros _.
  destruct l as [|y l]; [reflexivity|].
  replace (length (x :: y :: l) - 1)%nat with (S (length (y :: l) - 1)) by (simpl; lia).
  change (nth (S (length (y :: l) - 1)) (x :: y :: l) d) with (nth (length (y :: l) - 1) (y :: l) d).
  change (last (x :: y :: l) d') with (last (y :: l) d').
  apply IH. discriminate.
Qed.

Lemma in_removelast {A} (x : A) r d : In x r -> x <> last r d -> In x (removelast r).
Proof.
  induction r as [|y r IH]; [intros []|].
  destruct r as [|z r].
  - intros [->|[]] H. simpl in H. congruence.
  - intros [->|H] Hl.
    + left; reflexivity.
    + right. apply IH; [exact H|]. exact Hl.
Qed.

Lemma NoDup_app_parts {A} (a b : list A) :
  NoDup (a ++ b) -> NoDup a /\ NoDup b /\ forall x, In x a -> ~ In x b.
Proof.
  induction a as [|y a IH]; simpl; intros H.
  - split; [constructor|]. split; [exact H|]. intros x [].
  - inversion H as [|? ? Hn Hd]; subst. destruct (IH Hd) as (Ha & Hb & Hx).
    split.
    { constructor; [|exact Ha]. intros Hi. apply Hn. apply in_or_app. left; exact Hi. }
    split; [exact Hb|].
    intros x [<-|Hi]; [|apply Hx; exact Hi].
    intros Hi. apply Hn. apply in_or_app. right; exact Hi.
Qed.

Lemma mem_vid_in v l : mem_vid v l = true <-> In v l.
Proof.
  induction l as [|x l IH]; simpl; [intuition discriminate|].
  rewrite orb_true_iff, IH, vid_eqb_eq. intuition.
Qed.

Lemma mem_nid'_in n l : mem_nid' n l = true <-> In n l.
Proof.
  induction l as [|x l IH]; simpl; [intuition discriminate|].
  rewrite orb_true_iff, IH, nid_eqb_eq. intuition.
Qed.

Lemma nodup_vid_NoDup l : nodup_vid l = true -> NoDup l.
Proof.
  induction l as [|x l IH]; simpl; [constructor|].
  rewrite andb_true_iff, negb_true_iff. intros [H1 H2]. constructor; [|apply IH; exact H2].
  intros Hin. apply mem_vid_in in Hin. congruence.
Qed.

(** * the clauses of [check_inv] *)
Lemma check_inv_parts nw o : check_inv nw o = [] ->
  forallb (real_tour_ok nw) (so_vehicles o) = true /\
  forallb (dummy_tour_ok nw) (so_dummies o) = true /\
  forms_ok nw o = true /\ limits_ok nw o = true /\ listing_ok o = true /\ cycles_ok nw o = true.
Proof.
  unfold check_inv. intros H.
  apply ite_nil in H; destruct H as [H1 H].
  apply ite_nil in H; destruct H as [H2 H].
  apply ite_nil in H; destruct H as [H3 H].
  apply ite_nil in H; destruct H as [H4 H].
  apply ite_nil in H; destruct H as [H5 H].
  destruct (cycles_ok nw o); [|discriminate].
  repeat split; assumption.
Qed.

Lemma real_tour_parts nw v ty t : real_tour_ok nw (v, ty, t) = true ->
  t_dummy t = false /\ valid_tour_nodes nw (t_nodes t) = true /\
  forallb (fun n => compatible_with_vehicle_type nw n ty) (t_nodes t) = true.
Proof. unfold real_tour_ok. rewrite !andb_true_iff, negb_true_iff. tauto. Qed.

Lemma valid_parts nw l : valid_tour_nodes nw l = true ->
  exists f rest, l = f :: rest /\
    is_start_depot (nd nw f) = true /\ is_end_depot (nd nw (last l f)) = true /\ (3 <= length l)%nat /\
    (forall n, In n (removelast rest) -> is_depot (nd nw n) = false) /\
    (forall a b, In (a, b) (windows l) -> can_reach nw a b = true).
Proof.
  destruct l as [|f rest]; [discriminate|]. unfold valid_tour_nodes. cbn [tl].
  rewrite !andb_true_iff. intros [[[[H1 H2] H3] H4] H5].
  exists f, rest. split; [reflexivity|]. split; [exact H1|]. split; [exact H2|].
  split. { apply Z.leb_le in H3. lia. }
  split.
  - rewrite forallb_forall in H4. intros n Hn. apply H4 in Hn. apply negb_true_iff in Hn. exact Hn.
  - rewrite forallb_forall in H5. intros a b Hab. apply (H5 (a, b) Hab).
Qed.

(** * C10: tours *)
Theorem inv_tours : forall nw o, stmt_inv_tours nw o.
Proof.
  intros nw o WF HC v ty t He. unfold real_entry in He.
  destruct (check_inv_parts _ _ HC) as (H1 & _).
  rewrite forallb_forall in H1. specialize (H1 _ He).
  apply real_tour_parts in H1. destruct H1 as (Hd & Hv & Hc).
  apply valid_parts in Hv. destruct Hv as (f & rest & El & Hs & Hen & Hlen & Hnd & Hw).
  split; [exact Hd|].
  split. { unfold first_node, nth_node. rewrite El. exact Hs. }
  split.
  { unfold last_node, nth_node, tlen. rewrite (nth_last_ne (t_nodes t) (SD 0) f); [exact Hen|].
    rewrite El; discriminate. }
  split; [exact Hlen|].
  split. { unfold non_depots. rewrite Hd, El. cbn [tl]. exact Hnd. }
  split.
  - intros a b Hab. apply (can_reach_iff nw WF). apply Hw; exact Hab.
  - rewrite forallb_forall in Hc. exact Hc.
Qed.
Print Assumptions inv_tours.

(** * C10: formations *)
Lemma tour_of_real_in o v t : tour_of_real o v = Some t -> exists ty, In (v, ty, t) (so_vehicles o).
Proof.
  unfold tour_of_real, veh_entry.
  destruct (find _ (so_vehicles o)) as [[[v' ty] t']|] eqn:E; [|discriminate].
  intros H; inversion H; subst. apply find_some in E. destruct E as [Hin Hv].
  cbv beta iota in Hv. apply vid_eqb_eq in Hv. subst. exists ty; exact Hin.
Qed.

Lemma forms_parts nw o : forms_ok nw o = true ->
  (forall n, In n (coverable_nodes nw) -> exists f, assoc nid_eqb n (so_forms o) = Some f) /\
  (forall n f, In (n, f) (so_forms o) ->
     NoDup f /\ forall v, In v f -> exists t, tour_of_real o v = Some t /\ In n (t_nodes t)) /\
  (forall v ty t, In (v, ty, t) (so_vehicles o) -> forall n, In n (non_depots t) -> In v (form_of o n)).
Proof.
  unfold forms_ok. rewrite !andb_true_iff, !forallb_forall. intros [[[H1 H2] H3] H4].
  split; [|split].
  - intros n Hn. specialize (H1 n Hn). destruct (assoc nid_eqb n (so_forms o)) as [f|]; [|discriminate].
    exists f; reflexivity.
  - intros n f Hin. specialize (H3 (n, f) Hin). cbv beta iota in H3.
    apply andb_true_iff in H3. destruct H3 as [Ha Hb].
    split; [apply nodup_vid_NoDup; exact Ha|].
    intros v Hv. rewrite forallb_forall in Hb. specialize (Hb v Hv).
    destruct (tour_of_real o v) as [t|]; [|discriminate].
    exists t; split; [reflexivity|]. apply mem_nid'_in; exact Hb.
  - intros v ty t Hin n Hn. specialize (H4 _ Hin). cbv beta iota in H4.
    rewrite forallb_forall in H4. apply mem_vid_in. apply H4; exact Hn.
Qed.

Lemma coverable_not_depot nw n :
  (forall m, In m (nw_maint nw) -> is_maint (nd nw m) = true) ->
  In n (coverable_nodes nw) -> is_depot (nd nw n) = false.
Proof.
  intros HM Hn. unfold coverable_nodes in Hn. apply in_app_or in Hn. destruct Hn as [Hn|Hn].
  - unfold all_service_nodes in Hn. apply filter_In in Hn. destruct Hn as [_ Hs].
    destruct (nd nw n); try discriminate; reflexivity.
  - apply HM in Hn. destruct (nd nw n); try discriminate; reflexivity.
Qed.

(* the statement, under the hypothesis that the ids in [nw_maint] denote maintenance nodes
   (the hypothesis [stmt_inv_limits] has; it holds for every network built by [load]) *)
Theorem inv_formations_partial : forall nw o,
  (forall n, In n (nw_maint nw) -> is_maint (nd nw n) = true) -> stmt_inv_formations nw o.
Proof.
  intros nw o HM HC n Hn.
  destruct (check_inv_parts _ _ HC) as (H1 & _ & H3 & _).
  destruct (forms_parts _ _ H3) as (F1 & F2 & F3).
  destruct (F1 n Hn) as [f Ef].
  assert (Hin : In (n, f) (so_forms o)) by (apply (assoc_in _ nid_eqb_eq) in Ef; exact Ef).
  assert (Efo : form_of o n = f) by (unfold form_of; rewrite Ef; reflexivity).
  rewrite Efo. destruct (F2 _ _ Hin) as [Hnd Hmem].
  split; [exact Hnd|]. intros v; split.
  - intros Hv. destruct (Hmem v Hv) as (t & Et & Hnt).
    destruct (tour_of_real_in _ _ _ Et) as [ty He]. exists ty, t. split; [exact He|].
    rewrite forallb_forall in H1. specialize (H1 _ He).
    apply real_tour_parts in H1. destruct H1 as (Hd & Hval & _).
    apply valid_parts in Hval. destruct Hval as (f0 & rest & El & Hs & Hen & _ & _ & _).
    assert (Hndep : is_depot (nd nw n) = false) by (apply coverable_not_depot; assumption).
    unfold is_depot in Hndep. apply orb_false_iff in Hndep. destruct Hndep as [Hns Hne].
    unfold non_depots. rewrite Hd, El. cbn [tl].
    rewrite El in Hnt, Hen. destruct Hnt as [<-|Hnt]; [congruence|].
    apply (in_removelast n rest f0); [exact Hnt|]. intros ->.
    destruct rest as [|r0 rest]; [destruct Hnt|].
    change (last (f0 :: r0 :: rest) f0) with (last (r0 :: rest) f0) in Hen. congruence.
  - intros (ty & t & He & Hnt). rewrite <- Efo. apply (F3 v ty t He n Hnt).
Qed.
Print Assumptions inv_formations_partial.

(* refutation of the statement as written: SD 0 is listed in [nw_maint] but is a start depot *)
Definition cx_depot : depot_node := {| dn_depot := 0; dn_loc := Station 0 |}.
Definition cx_slot : maint_slot :=
  {| ms_loc := Station 0; ms_start := Point 10; ms_end := Point 20; ms_tracks := 1 |}.
Definition cx_params : params :=
  {| p_forbid := false; p_min := 0; p_dht := 0; p_maxdist := 0;
     c_staff := 0; c_service := 0; c_maint := 0; c_dh := 0; c_idle := 0 |}.
Definition cx_nw : network :=
  {| nw_nodes := [(SD 0, NStart cx_depot); (MT 1, NMaint cx_slot); (ED 0, NEnd cx_depot)];
     nw_depots := []; nw_overflow := (7, SD 14, ED 15); nw_service := [];
     nw_maint := [SD 0; MT 1]; nw_sdepots := [SD 0]; nw_edepots := [ED 0];
     nw_all_by_start := []; nw_type_by_start := []; nw_type_by_end := [];
     nw_params := cx_params; nw_nlocs := 1; nw_dh := [[(Dist 0, Len 0)]]; nw_types := [];
     nw_nservice := 0; nw_planning := Len 86400 |}.
Definition cx_tour : tour :=
  {| t_nodes := [SD 0; MT 1; ED 0]; t_dummy := false; t_vm := true; t_useful := Len 10;
     t_sdist := Dist 0; t_ddist := Dist 0; t_costs := 0 |}.
Definition cx_obs : sobs :=
  {| so_nveh := 1; so_ndummy := 0; so_costs := 0; so_unserved := (0, 0); so_viol := 0;
     so_vehicles := [(Veh 0, 0, cx_tour)]; so_dummies := [];
     so_forms := [(SD 0, [Veh 0]); (MT 1, [Veh 0])];
     so_usage := []; so_usage_total := []; so_trans := []; so_next := [] |}.

Theorem inv_formations_false : ~ (forall nw o, stmt_inv_formations nw o).
Proof.
  intros H. specialize (H cx_nw cx_obs).
  assert (HC : check_inv cx_nw cx_obs = []) by (vm_compute; reflexivity).
  assert (Hn : In (SD 0) (coverable_nodes cx_nw)) by (vm_compute; left; reflexivity).
  destruct (H HC (SD 0) Hn) as [_ Hiff].
  assert (Hv : In (Veh 0) (form_of cx_obs (SD 0))) by (vm_compute; left; reflexivity).
  apply Hiff in Hv. destruct Hv as (ty & t & He & Hnt).
  unfold real_entry in He. cbn [so_vehicles cx_obs] in He.
  destruct He as [He|[]]. inversion He; subst.
  vm_compute in Hnt. destruct Hnt as [Hnt|[]]. discriminate.
Qed.
Print Assumptions inv_formations_false.
(* the witness is otherwise unremarkable: well-formed network, all figures exact; so neither
   [net_wf_b] nor [check_exact] would rescue the statement *)
Lemma cx_wellformed : net_ok_b cx_nw = true /\ check_exact cx_nw cx_obs = [].
Proof. split; vm_compute; reflexivity. Qed.

(** * C10: limits *)
Theorem inv_limits : forall nw o, stmt_inv_limits nw o.
Proof.
  intros nw o HM HC.
  destruct (check_inv_parts _ _ HC) as (_ & _ & H3 & H4 & _).
  destruct (forms_parts _ _ H3) as (F1 & _ & _).
  unfold limits_ok in H4. destruct (nw_overflow nw) as [[od oa] ob]. cbn [fst].
  cbv beta iota in H4. rewrite !andb_true_iff, !forallb_forall in H4. destruct H4 as [L1 [L2 L3]].
  assert (Hform : forall n, In n (coverable_nodes nw) -> In (n, form_of o n) (so_forms o)).
  { intros n Hn. destruct (F1 n Hn) as [f Ef]. unfold form_of. rewrite Ef.
    apply (assoc_in _ nid_eqb_eq) in Ef; exact Ef. }
  split; [|split; [|split]].
  - intros n l Hn Hl.
    assert (Hc : In n (coverable_nodes nw)) by (unfold coverable_nodes; apply in_or_app; left; exact Hn).
    specialize (L1 _ (Hform n Hc)). cbv beta iota in L1.
    unfold all_service_nodes in Hn. apply filter_In in Hn. destruct Hn as [_ Hs].
    destruct (nd nw n) eqn:En; try discriminate.
    rewrite Hl in L1. apply Z.leb_le in L1. exact L1.
  - intros n Hn.
    assert (Hc : In n (coverable_nodes nw)) by (unfold coverable_nodes; apply in_or_app; right; exact Hn).
    specialize (L1 _ (Hform n Hc)). cbv beta iota in L1.
    apply HM in Hn. unfold track_count.
    destruct (nd nw n) eqn:En; try discriminate.
    apply Z.leb_le in L1. exact L1.
  - intros d ty sp bal Hin Hne. specialize (L2 _ Hin). cbv beta iota in L2.
    apply orb_true_iff in L2. destruct L2 as [L2|L2].
    + apply Z.eqb_eq in L2. contradiction.
    + apply Z.leb_le in L2. exact L2.
  - intros d tot Hin Hne. specialize (L3 _ Hin). cbv beta iota in L3.
    apply orb_true_iff in L3. destruct L3 as [L3|L3].
    + apply Z.eqb_eq in L3. contradiction.
    + apply Z.leb_le in L3. exact L3.
Qed.
Print Assumptions inv_limits.

(** * C10: rotation cycles *)
Theorem inv_cycles : forall nw o, stmt_inv_cycles nw o.
Proof.
  intros nw o HC v ty t He Hty. unfold real_entry in He.
  destruct (check_inv_parts _ _ HC) as (_ & _ & _ & _ & _ & H6).
  unfold cycles_ok in H6. apply andb_true_iff in H6. destruct H6 as [H6 _].
  rewrite forallb_forall in H6. specialize (H6 ty Hty).
  destruct (assoc Z.eqb ty (so_trans o)) as [[[viol cnt] cycles]|] eqn:Ea; [|discriminate].
  cbv zeta in H6. rewrite !andb_true_iff in H6. destruct H6 as [[N _] S].
  rewrite forallb_forall in S.
  assert (Hv : In v (vehicles_of_type o ty)).
  { unfold vehicles_of_type. apply in_map_iff. exists (v, ty, t). split; [reflexivity|].
    apply filter_In. split; [exact He|]. apply Z.eqb_refl. }
  apply S in Hv. apply mem_vid_in in Hv. apply in_flat_map in Hv. destruct Hv as (c & Hc & Hvc).
  apply in_split in Hc. destruct Hc as (pre & post & ->).
  exists viol, cnt, (pre ++ c :: post). split; [reflexivity|].
  exists pre, c, post. split; [reflexivity|]. split; [exact Hvc|].
  apply nodup_vid_NoDup in N. rewrite flat_map_app in N. cbn [flat_map] in N.
  apply NoDup_app_parts in N. destruct N as (_ & N2 & D1).
  apply NoDup_app_parts in N2. destruct N2 as (Nc & _ & D2).
  split; [|exact Nc]. intros c' Hc' Hv'. apply in_app_or in Hc'. destruct Hc' as [Hc'|Hc'].
  - apply (D1 v).
    + apply in_flat_map. exists c'; split; assumption.
    + apply in_or_app; left; exact Hvc.
  - apply (D2 v Hvc). apply in_flat_map. exists c'; split; assumption.
Qed.
Print Assumptions inv_cycles.

(** * C09: cached figures *)
Lemma dur_eqb_eq a b : dur_eqb a b = true -> a = b.
Proof.
  destruct a, b; simpl; try discriminate; auto. intros H; apply Z.eqb_eq in H; congruence.
Qed.

Lemma dist_eqb_eq a b : dist_eqb a b = true -> a = b.
Proof.
  destruct a, b; simpl; try discriminate; auto. intros H; apply Z.eqb_eq in H; congruence.
Qed.

Lemma tour_exact_eq nw t : tour_exact_b nw t = true -> t = new_computing nw (t_nodes t) (t_dummy t).
Proof.
  destruct t as [l d vm u sd dd c]. unfold tour_exact_b. cbv zeta. unfold new_computing.
  cbn [t_nodes t_dummy t_vm t_useful t_sdist t_ddist t_costs].
  rewrite !andb_true_iff. intros [[[[H1 H2] H3] H4] H5].
  apply Bool.eqb_prop in H1. apply dur_eqb_eq in H2. apply dist_eqb_eq in H3. apply dist_eqb_eq in H4.
  apply Z.eqb_eq in H5. congruence.
Qed.

Lemma tour_exact_costs nw t : tour_exact_b nw t = true -> t_costs t = compute_costs nw (t_nodes t).
Proof.
  unfold tour_exact_b. cbv zeta. rewrite !andb_true_iff. intros [_ H]. apply Z.eqb_eq in H. exact H.
Qed.

Lemma check_exact_parts nw o : check_exact nw o = [] ->
  forallb (fun '(_, _, t) => tour_exact_b nw t) (so_vehicles o) = true /\
  forallb (fun '(_, t) => tour_exact_b nw t) (so_dummies o) = true /\
  (so_costs o =? sched_costs_ref nw o) = true /\
  ((fst (so_unserved o) =? fst (unserved_ref nw o)) && (snd (so_unserved o) =? snd (unserved_ref nw o))) = true /\
  forallb (trans_exact_b nw o) (so_trans o) = true /\
  (so_viol o =? z_sum (map (fun '(_, (v, _, _)) => v) (so_trans o))) = true /\
  forallb (fun '(d, ty, sp, bal) =>
     (sp =? spawned_ref nw o d ty) && (bal =? spawned_ref nw o d ty - despawned_ref nw o d ty)) (so_usage o) = true.
Proof.
  unfold check_exact. intros H.
  apply ite_nil in H; destruct H as [H1 H].
  apply ite_nil in H; destruct H as [H2 H].
  apply ite_nil in H; destruct H as [H3 H].
  apply ite_nil in H; destruct H as [H4 H].
  apply ite_nil in H; destruct H as [H5 H].
  apply ite_nil in H; destruct H as [H6 H].
  apply ite_nil in H; destruct H as [H7 H].
  repeat split; assumption.
Qed.

Theorem exact_meaning : forall nw o, stmt_exact_meaning nw o.
Proof.
  intros nw o HC.
  destruct (check_exact_parts _ _ HC) as (H1 & H2 & H3 & H4 & H5 & H6 & H7).
  rewrite forallb_forall in H1, H2, H5, H7.
  split; [|split; [|split; [|split; [|split; [|split]]]]].
  - intros v ty t He. apply tour_exact_eq. apply (H1 _ He).
  - intros v t He. apply tour_exact_eq. apply (H2 _ He).
  - apply Z.eqb_eq in H3. rewrite H3. unfold sched_costs_ref. cbv zeta.
    f_equal. f_equal. apply map_ext_in. intros [[v ty] t] Hin.
    apply tour_exact_costs. apply (H1 _ Hin).
  - apply andb_true_iff in H4. destruct H4 as [Ha Hb]. apply Z.eqb_eq in Ha. apply Z.eqb_eq in Hb.
    destruct (so_unserved o) as [a b]. destruct (unserved_ref nw o) as [x y].
    cbn [fst snd] in Ha, Hb. congruence.
  - apply Z.eqb_eq in H6. exact H6.
  - intros ty viol cnt cycles Hin. specialize (H5 _ Hin). unfold trans_exact_b in H5.
    cbv beta iota in H5. rewrite !andb_true_iff in H5. destruct H5 as [[Ha Hb] Hc].
    split; [|split].
    + intros l c Hlc. rewrite forallb_forall in Ha. specialize (Ha _ Hlc). cbv beta iota in Ha.
      apply Z.eqb_eq in Ha. exact Ha.
    + apply Z.eqb_eq in Hb. exact Hb.
    + apply Z.eqb_eq in Hc. exact Hc.
  - intros d ty sp bal Hin. specialize (H7 _ Hin). cbv beta iota in H7.
    apply andb_true_iff in H7. destruct H7 as [Ha Hb].
    apply Z.eqb_eq in Ha. apply Z.eqb_eq in Hb. split; assumption.
Qed.
Print Assumptions exact_meaning.
