(* InvStmts.v — what a passing [check_inv] / [check_exact] means, declaratively (C10, C09, C11, C13).
   Proofs in InvFacts.v. *)
From RS Require Import Base Network NetSpec Tour SchedObs.

Section S.
Variable nw : network.
Variable o : sobs.

Definition real_entry (v : vehicle_id) (ty : Z) (t : tour) : Prop := In (v, ty, t) (so_vehicles o).

(* C10: every vehicle tour is a path starting at a start depot, ending at an end depot, with only activities
   in between, consecutive nodes connectable under the documented rule, service trips of the vehicle's type *)
Definition stmt_inv_tours : Prop :=
  net_wf_b nw = true -> check_inv nw o = [] ->
  forall v ty t, real_entry v ty t ->
    t_dummy t = false /\
    is_start_depot (nd nw (first_node t)) = true /\ is_end_depot (nd nw (last_node t)) = true /\
    (3 <= length (t_nodes t))%nat /\
    (forall n, In n (non_depots t) -> is_depot (nd nw n) = false) /\
    (forall a b, In (a, b) (windows (t_nodes t)) -> Reach nw (nd nw a) (nd nw b)) /\
    (forall n, In n (t_nodes t) -> compatible_with_vehicle_type nw n ty = true).

(* C10: a vehicle is in the formation of a node exactly if its tour contains the node, never twice *)
Definition stmt_inv_formations : Prop :=
  check_inv nw o = [] ->
  forall n, In n (coverable_nodes nw) ->
    NoDup (form_of o n) /\
    (forall v, In v (form_of o n) <-> exists ty t, real_entry v ty t /\ In n (non_depots t)).

(* C10: formation, track and depot limits *)
Definition stmt_inv_limits : Prop :=
  (forall n, In n (nw_maint nw) -> is_maint (nd nw n) = true) ->
  check_inv nw o = [] ->
  (forall n l, In n (all_service_nodes nw) -> formation_limit nw n = Some l -> Z.of_nat (length (form_of o n)) <= l) /\
  (forall n, In n (nw_maint nw) -> Z.of_nat (length (form_of o n)) <= track_count nw n) /\
  (forall d ty sp bal, In (d, ty, sp, bal) (so_usage o) -> d <> fst (fst (nw_overflow nw)) -> sp <= capacity_of nw d ty) /\
  (forall d tot, In (d, tot) (so_usage_total o) -> d <> fst (fst (nw_overflow nw)) -> tot <= total_capacity_of nw d).

(* C10: every real vehicle belongs to exactly one rotation cycle of its type *)
Definition stmt_inv_cycles : Prop :=
  check_inv nw o = [] ->
  forall v ty t, real_entry v ty t -> In ty (type_ids nw) ->
    exists viol cnt cycles, assoc Z.eqb ty (so_trans o) = Some (viol, cnt, cycles) /\
      exists pre c post, cycles = pre ++ c :: post /\ In v (fst c) /\
        (forall c', In c' (pre ++ post) -> ~ In v (fst c')) /\ NoDup (fst c).

(* C09: what a passing check_exact says about the schedule-level figures *)
Definition stmt_exact_meaning : Prop :=
  check_exact nw o = [] ->
  (forall v ty t, real_entry v ty t -> t = new_computing nw (t_nodes t) (t_dummy t)) /\
  (forall v t, In (v, t) (so_dummies o) -> t = new_computing nw (t_nodes t) (t_dummy t)) /\
  so_costs o = z_sum (map (fun '(_, _, t) => compute_costs nw (t_nodes t)) (so_vehicles o)) + nw_nservice nw * c_staff (nw_params nw) /\
  so_unserved o = unserved_ref nw o /\
  so_viol o = z_sum (map (fun '(_, (v, _, _)) => v) (so_trans o)) /\
  (forall ty viol cnt cycles, In (ty, (viol, cnt, cycles)) (so_trans o) ->
     (forall l c, In (l, c) cycles -> c = cycle_counter_ref nw o l) /\
     viol = z_sum (map (fun '(_, c) => Z.max 0 c) cycles) /\ cnt = z_sum (map snd cycles)) /\
  (forall d ty sp bal, In (d, ty, sp, bal) (so_usage o) ->
     sp = spawned_ref nw o d ty /\ bal = spawned_ref nw o d ty - despawned_ref nw o d ty).
End S.
