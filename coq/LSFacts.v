(* LSFacts.v — C08: proofs of the statements in LSStmts.v about the generic local search. *)
From RS Require Import Base BaseFacts LocalSearch LSStmts.
From Coq Require Import Wellfounded.

(** * The lexicographic comparison *)

Lemma lex_cmp_refl a : lex_cmp a a = Eq.
Proof. induction a as [|x a IH]; cbn [lex_cmp]; [reflexivity|]. now rewrite Z.compare_refl. Qed.

Lemma lex_cmp_antisym a b : lex_cmp b a = CompOpp (lex_cmp a b).
Proof.
  revert b; induction a as [|x a IH]; intros [|y b]; cbn [lex_cmp]; try reflexivity.
  rewrite (Z.compare_antisym x y). destruct (x ?= y); cbn [CompOpp]; auto.
Qed.

Lemma lex_cmp_eq a b : length a = length b -> lex_cmp a b = Eq -> a = b.
Proof.
  revert b; induction a as [|x a IH]; intros [|y b] Hl H; cbn [length] in Hl; try discriminate; [reflexivity|].
  cbn [lex_cmp] in H. destruct (Z.compare_spec x y) as [E|E|E]; try discriminate.
  subst y. f_equal. apply IH; [lia|assumption].
Qed.

Lemma lex_cmp_lt_trans a b c :
  length a = length b -> length b = length c ->
  lex_cmp a b = Lt -> lex_cmp b c = Lt -> lex_cmp a c = Lt.
Proof.
  revert b c; induction a as [|x a IH]; intros [|y b] [|z c] H1 H2 Hab Hbc;
    cbn [length] in H1, H2; try discriminate.
  cbn [lex_cmp] in *.
  destruct (Z.compare_spec x y) as [E1|E1|E1]; try discriminate;
  destruct (Z.compare_spec y z) as [E2|E2|E2]; try discriminate;
  destruct (Z.compare_spec x z) as [E3|E3|E3]; try lia; try reflexivity.
  eapply IH; [| |eassumption|eassumption]; lia.
Qed.

Lemma lex_lt_irrefl a : lex_lt a a = false.
Proof. unfold lex_lt. now rewrite lex_cmp_refl. Qed.

Lemma lex_le_refl a : lex_le a a = true.
Proof. unfold lex_le. now rewrite lex_cmp_refl. Qed.

Lemma lex_lt_le a b : lex_lt a b = true -> lex_le a b = true.
Proof. unfold lex_lt, lex_le. destruct (lex_cmp a b); auto; discriminate. Qed.

Lemma lex_lt_trans a b c :
  length a = length b -> length b = length c ->
  lex_lt a b = true -> lex_lt b c = true -> lex_lt a c = true.
Proof.
  unfold lex_lt; intros H1 H2 Hab Hbc.
  destruct (lex_cmp a b) eqn:E1; try discriminate.
  destruct (lex_cmp b c) eqn:E2; try discriminate.
  now rewrite (lex_cmp_lt_trans a b c H1 H2 E1 E2).
Qed.

Lemma lex_le_lt_trans a b c :
  length a = length b -> length b = length c ->
  lex_le a b = true -> lex_lt b c = true -> lex_lt a c = true.
Proof.
  unfold lex_le, lex_lt; intros H1 H2 Hab Hbc.
  destruct (lex_cmp a b) eqn:E1; try discriminate.
  - apply lex_cmp_eq in E1; [|assumption]. now subst b.
  - destruct (lex_cmp b c) eqn:E2; try discriminate.
    now rewrite (lex_cmp_lt_trans a b c H1 H2 E1 E2).
Qed.

Lemma lex_lt_false_le a b : lex_lt a b = false -> lex_le b a = true.
Proof.
  unfold lex_lt, lex_le. rewrite (lex_cmp_antisym a b).
  destruct (lex_cmp a b); cbn [CompOpp]; auto; discriminate.
Qed.

Lemma last_cons {A} (l : list A) a d : last (a :: l) d = last l a.
Proof.
  revert a d; induction l as [|x l IH]; intros a d; [reflexivity|].
  change (last (a :: x :: l) d) with (last (x :: l) d).
  now rewrite (IH x d), (IH x a).
Qed.

(** * Well-foundedness of the strict order on bounded vectors of fixed length *)

Section WF.
Variable lb : Z.

Definition bnd (v : list Z) : Prop := forall x, In x v -> lb <= x.

Definition lexR (k : nat) (a b : list Z) : Prop :=
  length a = k /\ length b = k /\ bnd a /\ bnd b /\ lex_lt a b = true.

Lemma lexR_acc_cons k :
  (forall t, length t = k -> bnd t -> Acc (lexR k) t) ->
  forall x, lb <= x -> forall t, length t = k -> bnd t -> Acc (lexR (Datatypes.S k)) (x :: t).
Proof.
  intros IHk x. induction (Z.lt_wf lb x) as [x _ IHx]. intros Hx t Hl Hb.
  pose proof (IHk t Hl Hb) as Hacc. revert Hl Hb.
  induction Hacc as [t _ IHt]. intros Hl Hb.
  constructor. intros y (Hly & _ & Hby & _ & Hlt).
  destruct y as [|x' t']; cbn [length] in Hly; [discriminate|].
  assert (Hl' : length t' = k) by lia.
  assert (Hx' : lb <= x') by (apply Hby; left; reflexivity).
  assert (Hb' : bnd t') by (intros z Hz; apply Hby; right; exact Hz).
  unfold lex_lt in Hlt. cbn [lex_cmp] in Hlt.
  destruct (Z.compare_spec x' x) as [E|E|E]; try discriminate.
  - subst x'. apply IHt; try assumption.
    unfold lexR, lex_lt. repeat split; assumption.
  - apply IHx; try assumption. lia.
Qed.

Lemma lexR_acc k : forall v, length v = k -> bnd v -> Acc (lexR k) v.
Proof.
  induction k as [|k IHk]; intros v Hl Hb.
  - constructor. intros y (Hly & _ & _ & _ & Hlt).
    destruct y; [|discriminate]. discriminate.
  - destruct v as [|x t]; cbn [length] in Hl; [discriminate|].
    apply lexR_acc_cons; try assumption.
    + apply Hb; left; reflexivity.
    + lia.
    + intros z Hz; apply Hb; right; exact Hz.
Qed.
End WF.

(** * The loop *)

Section Facts.
Variable St : Type.
Variable obj : St -> list Z.
Variable neighbors : St -> list St.
Variable pick : list St -> option St.

Local Notation improve := (improve St obj neighbors pick).
Local Notation run := (run St obj neighbors pick).

Lemma improve_some s n : improve s = Some n ->
  lex_lt (obj n) (obj s) = true /\ pick (neighbors s) = Some n.
Proof.
  unfold LocalSearch.improve. destruct (pick (neighbors s)) as [c|]; [|discriminate].
  destruct (lex_lt (obj c) (obj s)) eqn:E; [|discriminate].
  intros H; injection H as ->. split; [assumption|reflexivity].
Qed.

Lemma run_S_some f s n r steps fin :
  improve s = Some n -> run f n = (r, steps, fin) ->
  run (Datatypes.S f) s = (r, n :: steps, fin).
Proof. intros E H. cbn [LocalSearch.run]. rewrite E, H. reflexivity. Qed.

Lemma run_S_none f s : improve s = None -> run (Datatypes.S f) s = (s, [], true).
Proof. intros E. cbn [LocalSearch.run]. rewrite E. reflexivity. Qed.

Lemma run_fin_none fuel : forall s r steps,
  run fuel s = (r, steps, true) -> improve r = None.
Proof.
  induction fuel as [|f IH]; intros s r steps H.
  - cbn [LocalSearch.run] in H. discriminate.
  - destruct (improve s) as [n|] eqn:E.
    + destruct (run f n) as [[r' st'] fin'] eqn:E2.
      rewrite (run_S_some _ _ _ _ _ _ E E2) in H.
      injection H as -> _ ->. eapply IH; eassumption.
    + rewrite (run_S_none _ _ E) in H. injection H as -> _. assumption.
Qed.

Theorem step_strict_sec : stmt_step_strict St obj neighbors pick.
Proof.
  intros s n H. apply improve_some in H. destruct H as [Hlt Hp]. split; [assumption|].
  intros Hok. specialize (Hok (neighbors s)). rewrite Hp in Hok. apply Hok.
Qed.

Theorem run_descends_sec k : stmt_run_descends St obj neighbors pick k.
Proof.
  intros Hu fuel. induction fuel as [|f IH]; intros s r steps fin H.
  - cbn [LocalSearch.run] in H. injection H as <- <- _.
    repeat split. apply lex_le_refl.
  - destruct (improve s) as [n|] eqn:E.
    + destruct (run f n) as [[r' st'] fin'] eqn:E2.
      rewrite (run_S_some _ _ _ _ _ _ E E2) in H.
      injection H as <- <- _.
      destruct (IH _ _ _ _ E2) as (Hd & Hle & Hlast).
      apply improve_some in E. destruct E as [Hlt _].
      split; [|split].
      * change (lex_lt (obj n) (obj s) && strictly_descending (map obj (n :: st')) = true).
        rewrite Hlt, Hd. reflexivity.
      * apply lex_lt_le.
        apply (lex_le_lt_trans _ (obj n)); try assumption;
          unfold uniform in Hu; rewrite !Hu; reflexivity.
      * rewrite last_cons. assumption.
    + rewrite (run_S_none _ _ E) in H. injection H as <- <- _.
      repeat split. apply lex_le_refl.
Qed.

Theorem run_local_opt_sec k : stmt_run_local_opt St obj neighbors pick k.
Proof.
  intros Hu Hok fuel s r steps H m Hm.
  apply run_fin_none in H. unfold LocalSearch.improve in H.
  specialize (Hok (neighbors r)).
  destruct (pick (neighbors r)) as [n|].
  - destruct Hok as [_ Hmin].
    destruct (lex_lt (obj n) (obj r)) eqn:Enr; [discriminate|].
    destruct (lex_lt (obj m) (obj r)) eqn:Emr; [|reflexivity].
    exfalso. specialize (Hmin m Hm). apply lex_lt_false_le in Hmin.
    assert (lex_lt (obj n) (obj r) = true).
    { apply (lex_le_lt_trans _ (obj m)); try assumption;
        unfold uniform in Hu; rewrite !Hu; reflexivity. }
    congruence.
  - rewrite Hok in Hm. destruct Hm.
Qed.

Theorem run_idempotent_sec : stmt_run_idempotent St obj neighbors pick.
Proof.
  intros fuel s r steps fuel' H. apply run_fin_none in H. apply run_S_none. assumption.
Qed.

Theorem run_terminates_sec k : stmt_run_terminates St obj neighbors pick k.
Proof.
  intros Hu lb Hlb.
  assert (Hmain : forall v, Acc (lexR lb k) v -> forall s, obj s = v ->
            exists fuel r steps, run fuel s = (r, steps, true)).
  { intros v Hacc. induction Hacc as [v _ IH]. intros s Hs.
    destruct (improve s) as [n|] eqn:E.
    - destruct (improve_some _ _ E) as [Hlt _].
      destruct (IH (obj n)) with (s := n) as (f & r & steps & Hrun).
      + subst v. unfold lexR, bnd. repeat split; try apply Hu; try apply Hlb. assumption.
      + reflexivity.
      + exists (Datatypes.S f), r, (n :: steps). apply run_S_some; assumption.
    - exists 1%nat, s, []. apply run_S_none. assumption. }
  intros s. apply (Hmain (obj s)); [|reflexivity].
  apply lexR_acc; [apply Hu|]. intros x Hx. apply (Hlb s x Hx).
Qed.
End Facts.

(** * Closed, fully general theorems *)

Theorem step_strict : forall S obj neighbors pick, stmt_step_strict S obj neighbors pick.
Proof. exact step_strict_sec. Qed.
Print Assumptions step_strict.

Theorem run_descends : forall S obj neighbors pick k, stmt_run_descends S obj neighbors pick k.
Proof. exact run_descends_sec. Qed.
Print Assumptions run_descends.

Theorem run_local_opt : forall S obj neighbors pick k, stmt_run_local_opt S obj neighbors pick k.
Proof. exact run_local_opt_sec. Qed.
Print Assumptions run_local_opt.

Theorem run_idempotent : forall S obj neighbors pick, stmt_run_idempotent S obj neighbors pick.
Proof. exact run_idempotent_sec. Qed.
Print Assumptions run_idempotent.

Theorem run_terminates : forall S obj neighbors pick k, stmt_run_terminates S obj neighbors pick k.
Proof. exact run_terminates_sec. Qed.
Print Assumptions run_terminates.
