(* LSInst.v — the generic solver loop of LocalSearch.v instantiated with the schedule model: states are schedules,
   the neighbourhood is Swaps.neighbors, the objective is the documented order (unserved passengers, maintenance
   violation, vehicle count, costs). Every run of the loop is an improving path of CoverStmts.v / a trajectory of
   PipelineSched.v, so the theorems about those apply to the search result. *)
From RS Require Import Base Network Tour Transition Schedule SchedInv SchedStruct Swaps SwapsStmts2 PipelineSched
  CoverStmts LocalSearch.

Section I.
Variable nw : network.

Definition ls_obj (s : schedule) : list Z :=
  [unserved_sum s; s_viol s; Z.of_nat (length (s_vehicles s)); s_costs s].
Definition ls_neighbors (s : schedule) : list schedule :=
  match neighbors nw s with Ok l => map snd l | _ => [] end.

Lemma lex_lt_obj a b : lex_lt (ls_obj a) (ls_obj b) = true -> lex4_lt (obj_of a) (obj_of b).
Proof.
  unfold lex_lt, ls_obj, obj_of, lex4_lt. cbn [lex_cmp].
  destruct (Z.compare_spec (unserved_sum a) (unserved_sum b)) as [E1|L1|G1]; try discriminate; [|intros _; left; exact L1].
  destruct (Z.compare_spec (s_viol a) (s_viol b)) as [E2|L2|G2]; try discriminate;
    [|intros _; right; split; [exact E1|left; exact L2]].
  destruct (Z.compare_spec (Z.of_nat (length (s_vehicles a))) (Z.of_nat (length (s_vehicles b)))) as [E3|L3|G3];
    try discriminate; [|intros _; right; split; [exact E1|right; split; [exact E2|left; exact L3]]].
  destruct (Z.compare_spec (s_costs a) (s_costs b)) as [E4|L4|G4]; try discriminate.
  intros _. right. split; [exact E1|]. right. split; [exact E2|]. right. split; [exact E3|exact L4].
Qed.

(* every run of the solver loop whose [pick] honours its contract (the chosen state is one of the candidates) is an
   improving path *)
Theorem run_is_improving_path :
  forall pick, pick_ok schedule ls_obj pick ->
  forall fuel s r steps fin,
    run schedule ls_obj ls_neighbors pick fuel s = (r, steps, fin) -> improving_path nw s r.
Proof.
  intros pick PK fuel. induction fuel as [|f IH]; intros s r steps fin H; cbn [run] in H.
  - inversion H; subst. apply ip_refl.
  - unfold improve in H. pose proof (PK (ls_neighbors s)) as PKs.
    destruct (pick (ls_neighbors s)) as [n|] eqn:P.
    + destruct (lex_lt (ls_obj n) (ls_obj s)) eqn:L.
      * destruct (run schedule ls_obj ls_neighbors pick f n) as [[r' st'] fin'] eqn:R.
        inversion H; subst. specialize (IH _ _ _ _ R).
        destruct PKs as [Hin _]. unfold ls_neighbors in Hin.
        destruct (neighbors nw s) as [l| | |] eqn:N; try (destruct Hin).
        apply in_map_iff in Hin. destruct Hin as [[c n'] [E Hin]]. cbn [snd] in E. subst n'.
        eapply ip_step; [exact N|exact Hin|apply lex_lt_obj; exact L|exact IH].
      * inversion H; subst. apply ip_refl.
    + inversion H; subst. apply ip_refl.
Qed.

Lemma improving_path_ls_path s s' : improving_path nw s s' -> ls_path nw s s'.
Proof. induction 1; [apply lp_refl|eapply lp_step; eauto]. Qed.

Corollary run_is_ls_path :
  forall pick, pick_ok schedule ls_obj pick ->
  forall fuel s r steps fin,
    run schedule ls_obj ls_neighbors pick fuel s = (r, steps, fin) -> ls_path nw s r.
Proof. intros. eapply improving_path_ls_path, run_is_improving_path; eauto. Qed.
End I.
