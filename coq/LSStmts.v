(* LSStmts.v — C08: statements about the generic local search (proofs in LSFacts.v). *)
From RS Require Import Base LocalSearch.

Section Stmts.
Variable S : Type.
Variable obj : S -> list Z.
Variable neighbors : S -> list S.
Variable pick : list S -> option S.
Variable k : nat.   (* number of objective levels *)

Definition uniform : Prop := forall s, length (obj s) = k.

(* every accepted step is strictly smaller, in the lexicographic order of the levels, and is a candidate *)
Definition stmt_step_strict : Prop :=
  forall s n, improve S obj neighbors pick s = Some n ->
    lex_lt (obj n) (obj s) = true /\ (pick_ok S obj pick -> In n (neighbors s)).

(* the recorded trajectory is strictly descending and the result is never worse than the start *)
Definition stmt_run_descends : Prop :=
  uniform -> forall fuel s r steps fin, run S obj neighbors pick fuel s = (r, steps, fin) ->
    strictly_descending (map obj (s :: steps)) = true /\ lex_le (obj r) (obj s) = true /\
    r = last steps s.

(* the search stops only at a schedule no candidate improves *)
Definition stmt_run_local_opt : Prop :=
  uniform -> pick_ok S obj pick ->
  forall fuel s r steps, run S obj neighbors pick fuel s = (r, steps, true) ->
    forall m, In m (neighbors r) -> lex_lt (obj m) (obj r) = false.

(* running it again on its own result changes nothing *)
Definition stmt_run_idempotent : Prop :=
  forall fuel s r steps fuel', run S obj neighbors pick fuel s = (r, steps, true) ->
    run S obj neighbors pick (Datatypes.S fuel') r = (r, [], true).

(* termination: if all objective components are bounded below, some amount of fuel suffices *)
Definition stmt_run_terminates : Prop :=
  uniform -> forall (lb : Z), (forall s x, In x (obj s) -> lb <= x) ->
    forall s, exists fuel r steps, run S obj neighbors pick fuel s = (r, steps, true).
End Stmts.
