(* LoadFacts.v — proofs of the statements of LoadStmts.v about [load]. *)
From Coq Require Import Permutation.
From RS Require Import Base BaseFacts Network NetSpec NetFacts LoadStmts.

(** * Generic list lemmas *)
Lemma NoDup_app_intro {A} (l1 l2 : list A) :
  NoDup l1 -> NoDup l2 -> (forall x, In x l1 -> In x l2 -> False) -> NoDup (l1 ++ l2).
Proof.
  induction l1 as [|a l1 IH]; simpl; intros H1 H2 H; auto.
  inversion H1; subst. constructor.
  - rewrite in_app_iff. intros [F|F]; [auto | eapply H; eauto].
  - apply IH; auto. intros x Hx. apply H; auto.
Qed.

Lemma NoDup_map_inj {A B} (f : A -> B) l :
  (forall x y, In x l -> In y l -> f x = f y -> x = y) -> NoDup l -> NoDup (map f l).
Proof.
  induction l as [|a l IH]; simpl; intros Hinj H; [constructor|].
  inversion H; subst. constructor.
  - rewrite in_map_iff. intros (y & E & Hy). apply Hinj in E; auto. subst; auto.
  - apply IH; auto.
Qed.

Lemma map_fst_combine {A B} (a : list A) (b : list B) : length a = length b -> map fst (combine a b) = a.
Proof.
  revert b; induction a as [|x a IH]; destruct b; simpl; intros H; try discriminate; auto.
  f_equal. apply IH. lia.
Qed.

Lemma z_sum_perm l1 l2 : Permutation l1 l2 -> z_sum l1 = z_sum l2.
Proof.
  induction 1; auto; rewrite ?z_sum_cons; try lia.
Qed.

Lemma filter_perm {A} (f : A -> bool) l1 l2 : Permutation l1 l2 -> Permutation (filter f l1) (filter f l2).
Proof.
  induction 1; simpl; auto.
  - destruct (f x); auto.
  - destruct (f x), (f y); auto. apply perm_swap.
  - etransitivity; eauto.
Qed.

Lemma fold_left_map {A B C} (f : A -> B -> A) (g : C -> B) l a :
  fold_left (fun acc x => f acc (g x)) l a = fold_left f (map g l) a.
Proof. revert a; induction l as [|x l IH]; simpl; intros; auto. Qed.

Lemma filter_all_true {A} (f : A -> bool) l : (forall x, In x l -> f x = true) -> filter f l = l.
Proof.
  induction l as [|x l IH]; simpl; intros H; auto.
  rewrite (H x) by auto. f_equal. apply IH. auto.
Qed.

Lemma filter_all_false {A} (f : A -> bool) l : (forall x, In x l -> f x = false) -> filter f l = [].
Proof.
  induction l as [|x l IH]; simpl; intros H; auto.
  rewrite (H x) by auto. apply IH. auto.
Qed.

Lemma flat_map_nil {A B} (f : A -> list B) l : (forall x, In x l -> f x = []) -> flat_map f l = [].
Proof.
  induction l as [|x l IH]; simpl; intros H; auto.
  rewrite (H x) by auto. apply IH. auto.
Qed.

Lemma flat_map_single {A} (l : list A) : flat_map (fun a => [a]) l = l.
Proof. induction l; simpl; congruence. Qed.

Lemma flat_map_map {A B C} (g : B -> list C) (h : A -> B) l : flat_map g (map h l) = flat_map (fun x => g (h x)) l.
Proof. induction l; simpl; congruence. Qed.

Lemma flat_map_flat_map {A B C} (g : B -> list C) (h : A -> list B) l :
  flat_map g (flat_map h l) = flat_map (fun x => flat_map g (h x)) l.
Proof. induction l; simpl; auto. rewrite flat_map_app. congruence. Qed.

Lemma assoc_nodup {B} (l : list (node_id * B)) k v :
  NoDup (map fst l) -> In (k, v) l -> assoc nid_eqb k l = Some v.
Proof.
  induction l as [|[k' v'] l IH]; simpl; intros N H; [tauto|].
  inversion N; subst. destruct H as [H|H].
  - inversion H; subst. now rewrite nid_eqb_refl.
  - destruct (nid_eqb k k') eqn:E; auto.
    apply nid_eqb_eq in E; subst. exfalso. apply H2. apply in_map_iff. exists (k', v); auto.
Qed.

Lemma assoc_map_key {B} (f : Z -> B) l t :
  In t l -> assoc Z.eqb t (map (fun t => (t, f t)) l) = Some (f t).
Proof.
  induction l as [|x l IH]; simpl; intros H; [tauto|].
  destruct (Z.eqb_spec t x); [subst; auto|]. destruct H; [congruence|auto].
Qed.

Lemma same_set_intro a b : (forall x, In x a <-> In x b) -> same_set a b = true.
Proof.
  intros H. unfold same_set. rewrite andb_true_iff, !forallb_forall.
  split; intros x Hx; apply mem_nid_in; apply H; auto.
Qed.

Lemma nodup_nid_intro l : NoDup l -> nodup_nid l = true.
Proof.
  induction 1; simpl; auto. rewrite andb_true_iff, negb_true_iff. split; auto.
  destruct (mem_nid x l) eqn:E; auto. apply mem_nid_in in E. contradiction.
Qed.

(* key lists built by repeated insertion *)
Lemma keys_facts (f : node_id -> datetime) ids :
  let keys := fold_left (fun acc n => insert_key (f n, n) acc) ids [] in
  keys_ok f keys = true /\ Permutation (map snd keys) ids.
Proof.
  intros keys. unfold keys, insert_key.
  rewrite (fold_left_map (fun acc k => insert_by (le_of_cmp key_cmp) k acc) (fun n => (f n, n))).
  split.
  - unfold keys_ok. apply forallb_forall. intros k Hk. apply fold_insert_in in Hk.
    destruct Hk as [Hk|[]]. apply in_map_iff in Hk. destruct Hk as (n & <- & _). simpl.
    unfold dt_eqb. now rewrite dt_cmp_refl.
  - rewrite fold_insert_perm, app_nil_r, map_map. simpl. now rewrite map_id.
Qed.

(** * [load] as a composition of named pieces *)
Section Pieces.
Variable i : instance.
Variable perm : list Z.
Variable trips : list service_trip.
Variable p0 : duration.

Definition Lslots := match i_slots i with Some l => l | None => [] end.
Definition Lnservice := Z.of_nat (length trips).
Definition Lvub := vehicle_upper_bound i trips Lslots.
Definition Ldepots0 := make_depots i perm (Z.max Lnservice Lvub).
Definition Llim (vt : vtype) := match vt_limit vt with Some l => l | None => 1 end.
Definition Lmaxfc := match i_types i with [] => 1 | vt :: r => fold_left Z.max (map Llim r) (Llim vt) end.
Definition Lovidx := Z.of_nat (length Ldepots0).
Definition Loverflow :=
  {| dp_idx := Lovidx; dp_loc := Nowhere; dp_total := Z.max (Lnservice * Lmaxfc) Lvub;
     dp_allowed := map (fun t => (t, @None Z)) (tids i) |}.
Definition Ldepots := Ldepots0 ++ [Loverflow].
Definition Ldnodes : list (depot * node_id * node_id) :=
  map (fun '(k, d) => (d, SD (2 * Z.of_nat k), ED (2 * Z.of_nat k + 1))) (combine (seq 0 (length Ldepots)) Ldepots).
Definition Ldentry_of (x : depot * node_id * node_id) : list (node_id * node) :=
  let '(d, s, en) := x in
  [(s, NStart {| dn_depot := dp_idx d; dn_loc := dp_loc d |});
   (en, NEnd {| dn_depot := dp_idx d; dn_loc := dp_loc d |})].
Definition Ldentries := flat_map Ldentry_of Ldnodes.
Definition Lsdeps := map (fun '(_, s, _) => s : node_id) Ldnodes.
Definition Ledeps := map (fun '(_, _, en) => en : node_id) Ldnodes.
Definition Lc0 := 2 * Z.of_nat (length Ldepots).
Definition Ltbt := flat_map (fun t => filter (fun s => st_type s =? t) trips) (tids i).
Definition Lsvc_ids := map (fun k => SV (Lc0 + Z.of_nat k)) (seq 0 (length Ltbt)).
Definition Lsvc_entries := combine Lsvc_ids (map NService Ltbt).
Definition Lsvc_list (t : Z) : list node_id :=
  map fst (filter (fun '(_, n) => match n with NService s => st_type s =? t | _ => false end) Lsvc_entries).
Definition Lsvc_lists := map (fun t => (t, Lsvc_list t)) (tids i).
Definition Lc1 := Lc0 + Z.of_nat (length Ltbt).
Definition Lmids := map (fun k => MT (Lc1 + Z.of_nat k)) (seq 0 (length Lslots)).
Definition Lmk_slot (s : islot) : maint_slot :=
  {| ms_loc := Station (is_loc s); ms_start := Point (is_start s); ms_end := Point (is_end s); ms_tracks := is_tracks s |}.
Definition Lm_entries := combine Lmids (map (fun s => NMaint (Lmk_slot s)) Lslots).
Definition Lnodes := Ldentries ++ Lsvc_entries ++ Lm_entries.
Definition Lpre :=
  {| nw_nodes := Lnodes; nw_depots := []; nw_overflow := (0, SD 0, ED 0); nw_service := [];
     nw_maint := []; nw_sdepots := []; nw_edepots := []; nw_all_by_start := [];
     nw_type_by_start := []; nw_type_by_end := []; nw_params := i_params i; nw_nlocs := i_nlocs i;
     nw_dh := capped_dh i p0; nw_types := i_types i; nw_nservice := Lnservice; nw_planning := p0 |}.
Definition Lsrt := sort_by (le_of_cmp (cmp_start_time Lpre)).
Definition Lsvc_sorted := map (fun '(t, ids) => (t, Lsrt ids)) Lsvc_lists.
Definition Lrest := Lsrt Lmids ++ Lsrt Lsdeps ++ Lsrt Ledeps.
Definition Lkeys (f : node_id -> datetime) (ids : list node_id) : sorted_nodes :=
  fold_left (fun acc n => insert_key (f n, n) acc) ids [].
Definition Lby (f : node_id -> datetime) : list (Z * sorted_nodes) :=
  map (fun '(t, ids) => (t, Lkeys f (ids ++ Lrest))) Lsvc_sorted.
Definition Lall : sorted_nodes :=
  fold_left (fun acc '(n, x) => insert_key (n_start_time x, n) acc) Lnodes [].
Definition Lspan_step (acc : datetime * datetime) (y : node_id * node) : datetime * datetime :=
  (let '(e, l) := acc in fun '(_, x) =>
  if is_depot x then (e, l) else (dt_min e (n_start_time x), dt_max l (n_end_time x))) y.
Definition Lspan := fold_left Lspan_step Lnodes (Latest, Earliest).
Definition Ldentry := map (fun '(d, s, en) => (dp_idx d, (d, s, en))) Ldnodes.
Definition Lnet (p1 : duration) : network :=
  {| nw_nodes := Lnodes; nw_depots := Ldentry;
     nw_overflow := (Lovidx, SD (2 * Lovidx), ED (2 * Lovidx + 1));
     nw_service := Lsvc_sorted; nw_maint := Lsrt Lmids; nw_sdepots := Lsrt Lsdeps; nw_edepots := Lsrt Ledeps;
     nw_all_by_start := Lall; nw_type_by_start := Lby (start_time Lpre); nw_type_by_end := Lby (end_time Lpre);
     nw_params := i_params i; nw_nlocs := i_nlocs i; nw_dh := capped_dh i p0; nw_types := i_types i;
     nw_nservice := Lnservice; nw_planning := p1 |}.
End Pieces.

Lemma load_eq i perm :
  load i perm =
  (do (e0, l0) <- time_span i;
   do p0 <- planning_of e0 l0;
   do trips <- all_trips i;
   do p1 <- planning_of (fst (Lspan i perm trips)) (snd (Lspan i perm trips));
   Ok (Lnet i perm trips p0 p1)).
Proof.
  unfold load.
  destruct (time_span i) as [[e0 l0]| | |]; cbn [bind]; try reflexivity.
  destruct (planning_of e0 l0) as [p0| | |]; cbn [bind]; try reflexivity.
  destruct (all_trips i) as [trips| | |]; cbn [bind]; try reflexivity.
  transitivity (let '(e1, l1) := Lspan i perm trips in
                do p1 <- planning_of e1 l1; Ok (Lnet i perm trips p0 p1)).
  - reflexivity.
  - destruct (Lspan i perm trips); reflexivity.
Qed.

(** * Consequences of validity *)
Section Valid.
Variable i : instance.
Hypothesis V : valid_instance_b i = true.

Definition loc_ok (l : Z) : Prop := 0 <= l < Z.of_nat (i_nlocs i).

Lemma valid_parts :
  (forall vt, In vt (i_types i) -> 0 < vt_cap vt /\ 0 < vt_seats vt) /\
  (forall r, In r (i_routes i) -> 0 <= r_type r < Z.of_nat (length (i_types i)) /\
      forall g, In g (r_segs r) -> 0 <= rs_dist g /\ 0 < rs_dur g) /\
  (forall d, In d (i_departures i) -> exists r, nth_error (i_routes i) (d_route d) = Some r /\
      forall s, In s (d_segs d) -> (ds_rseg s < length (r_segs r))%nat) /\
  flat_map d_segs (i_departures i) <> [] /\
  (forall s, In s (Lslots i) -> is_start s < is_end s /\ 0 <= is_tracks s) /\
  (forall row, In row (i_dh_dur i) -> forall x, In x row -> 0 <= x) /\
  (0 <= p_min (i_params i) /\ 0 <= p_dht (i_params i)) /\
  (2 * (Z.of_nat (match i_depots i with Some l => length l | None => i_nlocs i end) + 1) +
   Z.of_nat (length (flat_map d_segs (i_departures i))) + Z.of_nat (length (Lslots i)) <= 65536).
Proof.
  unfold valid_instance_b in V. cbv beta zeta in V. rewrite !andb_true_iff in V.
  destruct V as [[[[[[[[[[[[V1 V2] V3] V4] V5] V6] V7] V8] V9] V10] V11] V12] V13].
  repeat split.
  - rewrite forallb_forall in V1. apply V1 in H. rewrite andb_true_iff in H. lia.
  - rewrite forallb_forall in V1. apply V1 in H. rewrite andb_true_iff in H. lia.
  - rewrite forallb_forall in V2. apply V2 in H. rewrite !andb_true_iff in H. lia.
  - rewrite forallb_forall in V2. apply V2 in H. rewrite !andb_true_iff in H. lia.
  - rewrite forallb_forall in V2. apply V2 in H. rewrite !andb_true_iff in H. destruct H as [_ H].
    rewrite forallb_forall in H. apply H in H0. rewrite !andb_true_iff in H0. lia.
  - rewrite forallb_forall in V2. apply V2 in H. rewrite !andb_true_iff in H. destruct H as [_ H].
    rewrite forallb_forall in H. apply H in H0. rewrite !andb_true_iff in H0. lia.
  - intros d Hd. rewrite forallb_forall in V3. apply V3 in Hd.
    destruct (nth_error (i_routes i) (d_route d)) as [r|]; [|discriminate]. exists r; split; auto.
    intros s Hs. rewrite forallb_forall in Hd. apply Hd in Hs. rewrite !andb_true_iff in Hs.
    destruct Hs as [[Hs _] _]. now apply Nat.ltb_lt in Hs.
  - intros E. rewrite E in V4. discriminate.
  - rewrite forallb_forall in V5. apply V5 in H. rewrite !andb_true_iff in H. lia.
  - rewrite forallb_forall in V5. apply V5 in H. rewrite !andb_true_iff in H. lia.
  - intros row Hr x Hx. rewrite forallb_forall in V9. apply V9 in Hr. rewrite andb_true_iff in Hr.
    destruct Hr as [_ Hr]. rewrite forallb_forall in Hr. apply Hr in Hx. lia.
  - lia.
  - lia.
  - unfold Lslots. lia.
Qed.
End Valid.

(** * Partition of a list by an integer key *)
Lemma filter_lt_S {A} (f : A -> Z) (m : Z) l :
  Permutation (filter (fun s => f s <? Z.succ m) l)
              (filter (fun s => f s <? m) l ++ filter (fun s => f s =? m) l).
Proof.
  induction l as [|a l IH]; cbn [filter]; auto.
  destruct (Z.ltb_spec (f a) (Z.succ m)), (Z.ltb_spec (f a) m), (Z.eqb_spec (f a) m);
    try lia; cbn [app]; auto.
  apply Permutation_cons_app; auto.
Qed.

Lemma partition_perm {A} (f : A -> Z) n l :
  (forall s, In s l -> 0 <= f s) ->
  Permutation (flat_map (fun t => filter (fun s => f s =? t) l) (map Z.of_nat (seq 0 n)))
              (filter (fun s => f s <? Z.of_nat n) l).
Proof.
  intros H. induction n as [|n IH].
  - cbn [seq map flat_map]. rewrite filter_all_false; auto. intros x Hx. apply Z.ltb_ge. apply H in Hx. lia.
  - rewrite seq_S, map_app, flat_map_app. cbn [map flat_map plus]. rewrite app_nil_r.
    rewrite Nat2Z.inj_succ, filter_lt_S. apply Permutation_app; auto.
Qed.

(** * Spans *)
Definition span_pt (p : datetime * datetime) : Prop := exists a b, p = (Point a, Point b) /\ a <= b.
Definition span_ok (p : datetime * datetime) : Prop := p = (Latest, Earliest) \/ span_pt p.

Lemma span_step p x y : span_ok p -> x <= y -> span_pt (dt_min (fst p) (Point x), dt_max (snd p) (Point y)).
Proof.
  intros [->|(a & b & -> & Hab)] Hxy.
  - exists x, y. split; auto.
  - cbn [fst snd]. unfold dt_min, dt_max. rewrite !dt_leb_point_b.
    destruct (Z.leb_spec a x), (Z.leb_spec b y); eexists _, _; split; eauto; lia.
Qed.

Lemma planning_pt p : span_pt p -> exists n, planning_of (fst p) (snd p) = Ok (Len n) /\ 0 <= n.
Proof.
  intros (a & b & -> & Hab). cbn [fst snd]. unfold planning_of, dt_diff.
  rewrite dt_leb_point_b. destruct (Z.leb_spec a b); [|lia]. cbn [bind].
  eexists; split; eauto. unfold div_ceil.
  assert (0 <= (b - a + 86400 - 1) / 86400) by (apply Z.div_pos; lia). lia.
Qed.

Section Total.
Variable i : instance.
Hypothesis V : valid_instance_b i = true.

Lemma lookup_in d s r g : lookup_rseg i d s = Some (r, g) -> In r (i_routes i) /\ In g (r_segs r).
Proof.
  unfold lookup_rseg. destruct (nth_error (i_routes i) (d_route d)) as [r'|] eqn:Er; [|discriminate].
  destruct (nth_error (r_segs r') (ds_rseg s)) as [g'|] eqn:Eg; [|discriminate].
  intros H; inversion H; subst. split; eapply nth_error_In; eauto.
Qed.

Lemma lookup_ok d s : In d (i_departures i) -> In s (d_segs d) ->
  exists r g, lookup_rseg i d s = Some (r, g) /\ 0 < rs_dur g.
Proof.
  intros Hd Hs. destruct (valid_parts i V) as (_ & V2 & V3 & _).
  destruct (V3 d Hd) as (r & Er & Hr). specialize (Hr s Hs).
  destruct (lookup_rseg i d s) as [[r' g]|] eqn:E.
  - exists r', g. split; auto. apply lookup_in in E. destruct E as [E1 E2]. apply V2 in E1. destruct E1 as [_ E1].
    apply E1 in E2. lia.
  - unfold lookup_rseg in E. rewrite Er in E.
    destruct (nth_error (r_segs r) (ds_rseg s)) eqn:Eg; [discriminate|]. apply nth_error_None in Eg. lia.
Qed.

Definition seg_step (d : departure) (acc : res (datetime * datetime)) (s : dseg) : res (datetime * datetime) :=
  do (e, l) <- acc;
  do (_, g) <- unwrap_opt (lookup_rseg i d s);
  Ok (dt_min e (Point (ds_dep s)), dt_max l (Point (ds_dep s + rs_dur g))).

Lemma inner_fold d : In d (i_departures i) -> forall segs, incl segs (d_segs d) -> forall p, span_ok p ->
  exists p', fold_left (seg_step d) segs (Ok p) = Ok p' /\ (span_pt p' \/ (segs = [] /\ p' = p)).
Proof.
  intros Hd. induction segs as [|s segs IH]; intros Hi p Hp.
  - exists p. simpl. auto.
  - assert (Hs : In s (d_segs d)) by (apply Hi; simpl; auto).
    destruct (lookup_ok d s Hd Hs) as (r & g & E & Hg).
    cbn [fold_left]. destruct p as [e l].
    assert (E1 : seg_step d (Ok (e, l)) s = Ok (dt_min e (Point (ds_dep s)), dt_max l (Point (ds_dep s + rs_dur g)))).
    { unfold seg_step. cbn [bind]. rewrite E. reflexivity. }
    rewrite E1.
    assert (P1 : span_pt (dt_min e (Point (ds_dep s)), dt_max l (Point (ds_dep s + rs_dur g)))).
    { apply (span_step (e, l)); auto. lia. }
    destruct (IH (fun x Hx => Hi x (or_intror Hx)) _ (or_intror P1)) as (p' & F & Q). exists p'. split; auto.
    left. destruct Q as [Q|[_ ->]]; auto.
Qed.

Lemma outer_fold : forall ds, incl ds (i_departures i) -> forall p, span_ok p ->
  exists p', fold_left (fun acc d => fold_left (seg_step d) (d_segs d) acc) ds (Ok p) = Ok p' /\
             (span_pt p' \/ (flat_map d_segs ds = [] /\ p' = p)).
Proof.
  induction ds as [|d ds IH]; intros Hi p Hp.
  - exists p. simpl. auto.
  - assert (Hd : In d (i_departures i)) by (apply Hi; simpl; auto).
    destruct (inner_fold d Hd (d_segs d) (incl_refl _) p Hp) as (p1 & F1 & Q1).
    cbn [fold_left]. rewrite F1.
    assert (Hp1 : span_ok p1) by (destruct Q1 as [Q1|[_ ->]]; [right|]; auto).
    destruct (IH (fun x Hx => Hi x (or_intror Hx)) p1 Hp1) as (p' & F & Q). exists p'. split; auto.
    destruct Q as [Q|[Q ->]]; auto. destruct Q1 as [Q1|[Q1 ->]]; auto.
    right. split; auto. simpl. rewrite Q1, Q. reflexivity.
Qed.

Lemma slots_fold sl p : (forall s, In s sl -> is_start s < is_end s) -> span_ok p ->
  span_ok (fold_left (fun '(e, l) s => (dt_min e (Point (is_start s)), dt_max l (Point (is_end s)))) sl p).
Proof.
  revert p; induction sl as [|s sl IH]; intros p H Hp; auto.
  cbn [fold_left]. apply IH; [intros; apply H; simpl; auto|].
  destruct p as [e l]. right. apply (span_step (e, l)); auto.
  specialize (H s (or_introl eq_refl)). lia.
Qed.

Lemma time_span_ok : exists p, time_span i = Ok p /\ span_pt p.
Proof.
  destruct (valid_parts i V) as (_ & _ & _ & V4 & V5 & _).
  pose (acc0 := fold_left (fun '(e, l) s => (dt_min e (Point (is_start s)), dt_max l (Point (is_end s))))
                          (Lslots i) (Latest, Earliest)).
  assert (H0 : span_ok acc0).
  { apply slots_fold; [|left; auto]. intros s Hs. apply V5 in Hs. tauto. }
  destruct (outer_fold (i_departures i) (incl_refl _) acc0 H0) as (p' & F & Q).
  exists p'. split; [exact F|]. destruct Q as [Q|[Q _]]; auto. contradiction.
Qed.

Lemma all_trips_ok : exists trips, all_trips i = Ok trips.
Proof.
  unfold all_trips.
  assert (H : forallb (fun o : option service_trip => match o with Some _ => true | None => false end) (trip_opts i) = true).
  { apply forallb_forall. intros o Ho. unfold trip_opts in Ho. apply in_flat_map in Ho.
    destruct Ho as (d & Hd & Ho). apply in_map_iff in Ho. destruct Ho as (s & <- & Hs).
    destruct (lookup_ok d s Hd Hs) as (r & g & E & _). unfold trip_of. now rewrite E. }
  rewrite H. eauto.
Qed.

Lemma all_trips_records trips : all_trips i = Ok trips -> trips = trip_records i.
Proof.
  unfold all_trips. destruct (forallb _ _); [|discriminate]. intros H; inversion H.
  unfold trip_opts, trip_records. rewrite flat_map_flat_map. apply flat_map_ext. intros d.
  rewrite flat_map_map. apply flat_map_ext. intros s. unfold trip_of.
  destruct (lookup_rseg i d s) as [[r g]|]; reflexivity.
Qed.

Definition trip_good (s : service_trip) : Prop :=
  0 <= st_type s < Z.of_nat (length (i_types i)) /\
  exists a b o d m, st_dep s = Point a /\ st_arr s = Point b /\ a < b /\
                    st_origin s = Station o /\ st_dest s = Station d /\ st_dist s = Dist m.

Lemma trip_records_good s : In s (trip_records i) -> trip_good s.
Proof.
  destruct (valid_parts i V) as (_ & V2 & _).
  unfold trip_records. intros H. apply in_flat_map in H. destruct H as (d & Hd & H).
  apply in_flat_map in H. destruct H as (sg & Hs & H).
  destruct (lookup_rseg i d sg) as [[r g]|] eqn:E; [|destruct H].
  destruct H as [<-|[]]. apply lookup_in in E. destruct E as [E1 E2].
  apply V2 in E1. destruct E1 as [T E1]. apply E1 in E2.
  split; [exact T|]. cbn. do 5 eexists. repeat split; try reflexivity. lia.
Qed.

Lemma trip_records_nonempty : trip_records i <> [].
Proof.
  destruct (valid_parts i V) as (_ & _ & _ & V4 & _).
  destruct all_trips_ok as (trips & E). rewrite <- (all_trips_records _ E).
  unfold all_trips in E. destruct (forallb _ _) eqn:F; [|discriminate]. inversion E; subst. clear E.
  intros H. apply V4.
  assert (G : forall A (l : list (option A)),
             forallb (fun o => match o with Some _ => true | None => false end) l = true ->
             flat_map (fun o => match o with Some t => [t] | None => [] end) l = [] -> l = []).
  { intros A l. destruct l as [|[x|] l]; simpl; auto; discriminate. }
  apply G in H; auto. unfold trip_opts in H.
  clear -H. induction (i_departures i) as [|d ds IH]; simpl in *; auto.
  apply app_eq_nil in H. destruct H as [H1 H2]. rewrite IH by auto.
  destruct (d_segs d); [reflexivity|discriminate].
Qed.
End Total.

(** * Node identifiers *)
Ltac inmap := repeat match goal with
  | H : In _ (_ ++ _) |- _ => apply in_app_iff in H; destruct H
  | H : In _ (map _ _) |- _ => apply in_map_iff in H; destruct H as (? & ? & ?)
  end.

Lemma ids_nodup nd c0 nt c1 ns :
  NoDup ((map (fun k => SD (2 * Z.of_nat k)) (seq 0 nd) ++ map (fun k => ED (2 * Z.of_nat k + 1)) (seq 0 nd)) ++
         map (fun k => SV (c0 + Z.of_nat k)) (seq 0 nt) ++ map (fun k => MT (c1 + Z.of_nat k)) (seq 0 ns)).
Proof.
  repeat apply NoDup_app_intro;
    try (apply NoDup_map_inj; [intros x y _ _ E; apply (f_equal nid_idx) in E; cbn [nid_idx] in E; lia | apply seq_NoDup]);
    intros x H1 H2; inmap; congruence.
Qed.

Lemma map_combine_seq {B C} (g : nat -> C) (l : list B) s :
  map (fun '(k, _) => g k) (combine (seq s (length l)) l) = map g (seq s (length l)).
Proof. revert s; induction l as [|x l IH]; intros s; simpl; auto. now rewrite IH. Qed.

Lemma dentries_ids (dn : list (depot * node_id * node_id)) :
  Permutation (map fst (flat_map Ldentry_of dn))
              (map (fun '(_, s, _) => s : node_id) dn ++ map (fun '(_, _, en) => en : node_id) dn).
Proof.
  induction dn as [|[[d s] en] dn IH]; simpl; auto.
  constructor. apply Permutation_cons_app. auto.
Qed.

Lemma flat_map_combine_map {A B} (mk : A -> node) (F : node_id * node -> list B) (G : A -> list B) :
  (forall n a, F (n, mk a) = G a) -> forall (ids : list node_id) ts, length ids = length ts ->
  flat_map F (combine ids (map mk ts)) = flat_map G ts.
Proof.
  intros H. induction ids as [|x ids IH]; destruct ts as [|a ts]; simpl; intros L; try discriminate; auto.
  rewrite H, IH by lia. reflexivity.
Qed.

Lemma flat_map_single_map {A B} (f : A -> B) l : flat_map (fun a => [f a]) l = map f l.
Proof. induction l; simpl; congruence. Qed.

Lemma NoDup_map_filter {A B} (f : A -> B) (p : A -> bool) l : NoDup (map f l) -> NoDup (map f (filter p l)).
Proof.
  induction l as [|x l IH]; simpl; intros N; auto. inversion N; subst.
  destruct (p x); simpl; auto. constructor; auto.
  intros H. apply H1. apply in_map_iff in H. destruct H as (y & E & Hy). apply filter_In in Hy.
  apply in_map_iff. exists y; tauto.
Qed.

Lemma sum_le_combine {A} (mk : A -> node) (f : node_id -> Z) (g : A -> Z) :
  forall (ids : list node_id) ts, length ids = length ts ->
  (forall n a, In (n, mk a) (combine ids (map mk ts)) -> f n <= g a) ->
  z_sum (map f ids) <= z_sum (map g ts).
Proof.
  induction ids as [|x ids IH]; destruct ts as [|a ts]; cbn [map combine length]; intros L H; try discriminate.
  rewrite !z_sum_cons. assert (f x <= g a) by (apply H; simpl; auto).
    assert (z_sum (map f ids) <= z_sum (map g ts)) by (apply IH; [lia | intros; apply H; simpl; auto]). lia.
Qed.

Lemma assoc_dentry (deps0 : list depot) (ov : depot) s :
  (forall d, In d deps0 -> dp_idx d <> dp_idx ov) ->
  exists sn en, assoc Z.eqb (dp_idx ov)
     (map (fun '(d, s, en) => (dp_idx d, (d, s, en)))
        (map (fun '(k, d) => (d, SD (2 * Z.of_nat k), ED (2 * Z.of_nat k + 1)))
           (combine (seq s (length (deps0 ++ [ov]))) (deps0 ++ [ov])))) = Some (ov, sn, en).
Proof.
  revert s; induction deps0 as [|d l IH]; intros s H.
  - cbn [app length seq combine map assoc]. rewrite Z.eqb_refl. eauto.
  - cbn [app length seq combine map assoc]. destruct (Z.eqb_spec (dp_idx ov) (dp_idx d)) as [E|E].
    + exfalso. apply (H d); simpl; auto.
    + apply IH. intros; apply H; simpl; auto.
Qed.

Lemma Lall_gen (l : list (node_id * node)) acc :
  fold_left (fun acc '(n, x) => insert_key (n_start_time x, n) acc) l acc =
  fold_left (fun acc y => insert_by (le_of_cmp key_cmp) y acc) (map (fun '(n, x) => (n_start_time x, n)) l) acc.
Proof. revert acc; induction l as [|[n x] l IH]; intros acc; simpl; auto. Qed.

Section Net.
Variable i : instance.
Variable perm : list Z.
Variable trips : list service_trip.
Variable p0 : duration.
Hypothesis V : valid_instance_b i = true.
Hypothesis Htrips : forall s, In s trips -> trip_good i s.
Hypothesis Hne : trips <> [].

Notation slots := (Lslots i).
Notation depots := (Ldepots i perm trips).
Notation dnodes := (Ldnodes i perm trips).
Notation dentries := (Ldentries i perm trips).
Notation sdeps := (Lsdeps i perm trips).
Notation edeps := (Ledeps i perm trips).
Notation c0 := (Lc0 i perm trips).
Notation c1 := (Lc1 i perm trips).
Notation tbt := (Ltbt i trips).
Notation svc_ids := (Lsvc_ids i perm trips).
Notation svc_entries := (Lsvc_entries i perm trips).
Notation mids := (Lmids i perm trips).
Notation m_entries := (Lm_entries i perm trips).
Notation nodes := (Lnodes i perm trips).
Notation pre := (Lpre i perm trips p0).
Notation srt := (Lsrt i perm trips p0).
Notation net := (Lnet i perm trips p0).

Lemma Lsdeps_eq : sdeps = map (fun k => SD (2 * Z.of_nat k)) (seq 0 (length depots)).
Proof.
  unfold Lsdeps, Ldnodes. rewrite map_map.
  rewrite <- (map_combine_seq (fun k => SD (2 * Z.of_nat k)) depots 0).
  apply map_ext. intros [k d]; reflexivity.
Qed.

Lemma Ledeps_eq : edeps = map (fun k => ED (2 * Z.of_nat k + 1)) (seq 0 (length depots)).
Proof.
  unfold Ledeps, Ldnodes. rewrite map_map.
  rewrite <- (map_combine_seq (fun k => ED (2 * Z.of_nat k + 1)) depots 0).
  apply map_ext. intros [k d]; reflexivity.
Qed.

Lemma Lsvc_len : length svc_ids = length (map NService tbt).
Proof. unfold Lsvc_ids. now rewrite !map_length, seq_length. Qed.
Lemma Lm_len : length mids = length (map (fun s => NMaint (Lmk_slot s)) slots).
Proof. unfold Lmids. now rewrite !map_length, seq_length. Qed.

Lemma Lids_perm : Permutation (map fst nodes) ((sdeps ++ edeps) ++ svc_ids ++ mids).
Proof.
  unfold Lnodes. rewrite !map_app. unfold Lsvc_entries, Lm_entries.
  rewrite (map_fst_combine _ _ Lsvc_len), (map_fst_combine _ _ Lm_len).
  apply Permutation_app; auto. apply dentries_ids.
Qed.

Lemma Lids_split_nodup : NoDup ((sdeps ++ edeps) ++ svc_ids ++ mids).
Proof. rewrite Lsdeps_eq, Ledeps_eq. apply ids_nodup. Qed.

Lemma Lids_nodup : NoDup (map fst nodes).
Proof. eapply Permutation_NoDup; [symmetry; apply Lids_perm | apply Lids_split_nodup]. Qed.

Lemma Lnd id n p1 : In (id, n) nodes -> nd (net p1) id = n.
Proof. intros H. unfold nd. cbn [nw_nodes Lnet]. now rewrite (assoc_nodup _ _ _ Lids_nodup H). Qed.

(** membership in the node table *)
Lemma Ltbt_in s : In s tbt -> In s trips.
Proof. unfold Ltbt. intros H. apply in_flat_map in H. destruct H as (t & _ & H). apply filter_In in H. tauto. Qed.

Lemma Ltbt_perm : Permutation tbt trips.
Proof.
  unfold Ltbt, tids, ntypes. rewrite partition_perm.
  - rewrite filter_all_true; auto. intros s Hs. apply Z.ltb_lt. apply Htrips in Hs. destruct Hs as [Hs _]. lia.
  - intros s Hs. apply Htrips in Hs. destruct Hs as [Hs _]. lia.
Qed.

Lemma Ldentries_in x : In x dentries -> exists d, snd x = NStart d \/ snd x = NEnd d.
Proof.
  unfold Ldentries. intros H. apply in_flat_map in H. destruct H as ([[d s] en] & _ & H).
  destruct H as [<-|[<-|[]]]; eexists; simpl; eauto.
Qed.

Lemma Lsvc_entries_in id n : In (id, n) svc_entries -> exists s, n = NService s /\ In s tbt.
Proof.
  unfold Lsvc_entries. intros H. apply in_combine_r in H. apply in_map_iff in H.
  destruct H as (s & <- & H). eauto.
Qed.

Lemma Lm_entries_in id n : In (id, n) m_entries -> exists s, n = NMaint (Lmk_slot s) /\ In s slots.
Proof.
  unfold Lm_entries. intros H. apply in_combine_r in H. apply in_map_iff in H.
  destruct H as (s & <- & H). eauto.
Qed.

Definition node_good (n : node) : Prop :=
  node_wf n = true /\ (is_depot n || dt_ltb (n_start_time n) (n_end_time n)) = true /\
  match n_travel_dist n with Dist _ => true | DistInf => false end = true /\
  (is_depot n = true \/ exists a b, n_start_time n = Point a /\ n_end_time n = Point b /\ a <= b).

Lemma Lnodes_good id n : In (id, n) nodes -> node_good n.
Proof.
  destruct (valid_parts i V) as (_ & _ & _ & _ & V5 & _).
  unfold Lnodes. rewrite !in_app_iff. intros [H|[H|H]].
  - apply Ldentries_in in H. destruct H as (d & [H|H]); simpl in H; subst n; repeat split; auto.
  - apply Lsvc_entries_in in H. destruct H as (s & -> & H). apply Ltbt_in, Htrips in H.
    destruct H as (_ & a & b & o & d & m & E1 & E2 & Hab & E3 & E4 & E5).
    unfold node_good. cbn [node_wf is_depot is_start_depot is_end_depot orb n_start_time n_end_time n_travel_dist].
    rewrite E1, E2, E3, E4, E5. repeat split; auto.
    + apply dt_ltb_point; auto.
    + right. exists a, b. repeat split; auto. lia.
  - apply Lm_entries_in in H. destruct H as (s & -> & H). apply V5 in H.
    unfold node_good. cbn. repeat split; auto.
    + apply dt_ltb_point; tauto.
    + right. do 2 eexists. repeat split; auto. lia.
Qed.

(** the planning span recomputed from the nodes *)
Lemma span_nodes l p :
  (forall id n, In (id, n) l -> node_good n) -> span_ok p ->
  let p' := fold_left Lspan_step l p in
  span_ok p' /\ (span_pt p -> span_pt p') /\ ((exists id n, In (id, n) l /\ is_depot n = false) -> span_pt p').
Proof.
  revert p; induction l as [|[id n] l IH]; intros p H Hp; cbn [fold_left].
  - repeat split; auto. intros (? & ? & [] & _).
  - assert (G : node_good n) by (apply (H id); simpl; auto).
    destruct G as (_ & _ & _ & G). destruct p as [e l0].
    assert (H' : forall id n, In (id, n) l -> node_good n) by (intros; eapply H; simpl; eauto).
    destruct (is_depot n) eqn:D.
    + assert (E : Lspan_step (e, l0) (id, n) = (e, l0)) by (unfold Lspan_step; now rewrite D).
      rewrite E. destruct (IH (e, l0) H' Hp) as (I1 & I2 & I3). repeat split; auto.
      intros (id' & n' & [Q|Q] & D'); [inversion Q; subst; congruence|]. apply I3. eauto.
    + destruct G as [G|(a & b & E1 & E2 & Hab)]; [discriminate|].
      assert (E : Lspan_step (e, l0) (id, n) = (dt_min e (Point a), dt_max l0 (Point b))).
      { unfold Lspan_step. rewrite D, E1, E2. reflexivity. }
      rewrite E. assert (P1 : span_pt (dt_min e (Point a), dt_max l0 (Point b))) by (apply (span_step (e, l0)); auto).
      destruct (IH _ H' (or_intror P1)) as (I1 & I2 & I3). repeat split; auto.
Qed.

Lemma Ltbt_nonempty : tbt <> [].
Proof.
  intros E. pose proof Ltbt_perm as P. rewrite E in P. apply Permutation_nil in P. contradiction.
Qed.

Lemma Lspan_pt : span_pt (Lspan i perm trips).
Proof.
  unfold Lspan. apply span_nodes; [apply Lnodes_good | left; auto |].
  destruct tbt as [|s l] eqn:E; [exfalso; now apply Ltbt_nonempty|].
  exists (SV (c0 + Z.of_nat 0)), (NService s). split; auto.
  unfold Lnodes. rewrite !in_app_iff. right; left. unfold Lsvc_entries, Lsvc_ids. rewrite E. simpl. auto.
Qed.

(** ** the records carried by the nodes *)
Lemma Lservices p1 : services_of (net p1) = tbt.
Proof.
  unfold services_of. cbn [nw_nodes Lnet]. unfold Lnodes. rewrite !flat_map_app.
  rewrite (flat_map_nil _ dentries).
  2:{ intros [id n] Hx. apply Ldentries_in in Hx. destruct Hx as (d & [E|E]); simpl in E; subst; reflexivity. }
  unfold Lsvc_entries, Lm_entries.
  rewrite (flat_map_combine_map NService _ (fun a => [a])); [|reflexivity|].
  2:{ unfold Lsvc_ids. now rewrite map_length, seq_length. }
  rewrite (flat_map_combine_map (fun s => NMaint (Lmk_slot s)) _ (fun _ => [])); [|reflexivity|].
  2:{ unfold Lmids. now rewrite map_length, seq_length. }
  rewrite flat_map_single, (flat_map_nil (fun _ => [])) by auto. cbn [app]. apply app_nil_r.
Qed.

Lemma Lslots_of p1 : slots_of (net p1) = slot_records i.
Proof.
  unfold slots_of. cbn [nw_nodes Lnet]. unfold Lnodes. rewrite !flat_map_app.
  rewrite (flat_map_nil _ dentries).
  2:{ intros [id n] Hx. apply Ldentries_in in Hx. destruct Hx as (d & [E|E]); simpl in E; subst; reflexivity. }
  unfold Lsvc_entries, Lm_entries.
  rewrite (flat_map_combine_map NService _ (fun a => [])); [|reflexivity|].
  2:{ unfold Lsvc_ids. now rewrite map_length, seq_length. }
  rewrite (flat_map_combine_map (fun s => NMaint (Lmk_slot s)) _ (fun a => [Lmk_slot a])); [|reflexivity|].
  2:{ unfold Lmids. now rewrite map_length, seq_length. }
  rewrite (flat_map_nil (fun _ => [])) by auto. rewrite flat_map_single_map. reflexivity.
Qed.

(** ** well-formedness *)
Lemma Ldh_nonneg n0 p1 : p0 = Len n0 -> 0 <= n0 -> dh_nonneg (net p1) = true.
Proof.
  intros E0 Hn0. destruct (valid_parts i V) as (_ & _ & _ & _ & _ & V9 & _).
  unfold dh_nonneg. cbn [nw_dh Lnet]. unfold capped_dh. apply forallb_forall. intros row Hr.
  apply in_map_iff in Hr. destruct Hr as ([drow trow] & <- & Hc). apply in_combine_r in Hc.
  apply forallb_forall. intros [d t] Hx. apply in_map_iff in Hx. destruct Hx as ([dm ts] & E & Hc2).
  apply in_combine_r in Hc2. specialize (V9 _ Hc _ Hc2). subst p0. inversion E; subst d t.
  match goal with |- context [if ?c then _ else _] => destruct c end; apply Z.leb_le; lia.
Qed.

Definition Lrest' := Lrest i perm trips p0.
Notation svc_list := (Lsvc_list i perm trips).

Lemma Lby_lookup f ty : In ty (tids i) ->
  lookup_sorted ty (Lby i perm trips p0 f) = Lkeys f (srt (svc_list ty) ++ Lrest').
Proof.
  intros H. unfold lookup_sorted.
  assert (E : Lby i perm trips p0 f = map (fun t => (t, Lkeys f (srt (svc_list t) ++ Lrest'))) (tids i)).
  { unfold Lby, Lsvc_sorted, Lsvc_lists. rewrite !map_map. reflexivity. }
  rewrite E, (assoc_map_key _ _ _ H). reflexivity.
Qed.

Lemma Lservice_nodes p1 ty : In ty (tids i) -> service_nodes (net p1) ty = srt (svc_list ty).
Proof.
  intros H. unfold service_nodes. cbn [nw_service Lnet].
  assert (E : Lsvc_sorted i perm trips p0 = map (fun t => (t, srt (svc_list t))) (tids i)).
  { unfold Lsvc_sorted, Lsvc_lists. rewrite !map_map. reflexivity. }
  rewrite E, (assoc_map_key _ _ _ H). reflexivity.
Qed.

Lemma Ltype_nodes p1 ty : In ty (tids i) -> type_nodes (net p1) ty = srt (svc_list ty) ++ Lrest'.
Proof. intros H. unfold type_nodes. rewrite (Lservice_nodes p1 ty H). reflexivity. Qed.

Lemma Lsvc_list_in ty x : In x (svc_list ty) -> In x svc_ids.
Proof.
  unfold Lsvc_list. intros H. apply in_map_iff in H. destruct H as ([id n] & <- & H).
  apply filter_In in H. destruct H as [H _]. unfold Lsvc_entries in H. apply in_combine_l in H. exact H.
Qed.

Lemma Ltype_perm ty : Permutation (srt (svc_list ty) ++ Lrest') (svc_list ty ++ mids ++ sdeps ++ edeps).
Proof. unfold Lrest', Lrest, Lsrt. repeat apply Permutation_app; apply sort_by_perm. Qed.

Lemma Ltype_nodup ty : NoDup (svc_list ty ++ mids ++ sdeps ++ edeps).
Proof.
  assert (N : NoDup (svc_list ty)).
  { unfold Lsvc_list. apply NoDup_map_filter. unfold Lsvc_entries. rewrite (map_fst_combine _ _ Lsvc_len).
    unfold Lsvc_ids. apply NoDup_map_inj; [|apply seq_NoDup].
    intros x y _ _ E. apply (f_equal nid_idx) in E. cbn [nid_idx] in E. lia. }
  pose proof (Lsvc_list_in ty) as S.
  rewrite Lsdeps_eq, Ledeps_eq. unfold Lmids.
  repeat apply NoDup_app_intro; auto;
    try (apply NoDup_map_inj; [intros x y _ _ E; apply (f_equal nid_idx) in E; cbn [nid_idx] in E; lia | apply seq_NoDup]);
    intros x H1 H2; try apply S in H1; unfold Lsvc_ids in *; inmap; congruence.
Qed.

Definition perm_ok : Prop := i_depots i = None -> (length perm <= i_nlocs i)%nat.

Lemma trip_records_length : (length (trip_records i) <= length (flat_map d_segs (i_departures i)))%nat.
Proof.
  unfold trip_records. induction (i_departures i) as [|d ds IH]; simpl; auto.
  rewrite !app_length. apply Nat.add_le_mono; auto.
  clear. induction (d_segs d) as [|s l IH]; simpl; auto.
  rewrite app_length. destruct (lookup_rseg i d s) as [[r g]|]; simpl; lia.
Qed.

Lemma Ldepots0_length x :
  length (make_depots i perm x) = match i_depots i with Some ds => length ds | None => length perm end.
Proof.
  unfold make_depots. destruct (i_depots i); now rewrite map_length, combine_length, seq_length, Nat.min_id.
Qed.

Lemma Lsize : trips = trip_records i -> perm_ok ->
  2 * Z.of_nat (length depots) + Z.of_nat (length tbt) + Z.of_nat (length slots) <= 65536.
Proof.
  intros R P. destruct (valid_parts i V) as (_ & _ & _ & _ & _ & _ & _ & V13).
  rewrite (Permutation_length Ltbt_perm), R.
  pose proof trip_records_length as L.
  unfold Ldepots, Ldepots0. rewrite app_length, Ldepots0_length. cbn [length].
  unfold perm_ok in P. destruct (i_depots i); [lia|]. specialize (P eq_refl). lia.
Qed.

Lemma Ltype_bounds ty x : trips = trip_records i -> perm_ok ->
  In x (svc_list ty ++ mids ++ sdeps ++ edeps) -> 0 <= nid_idx x <= 65535.
Proof.
  intros R P H. pose proof (Lsize R P) as Sz.
  rewrite Lsdeps_eq, Ledeps_eq in H. unfold Lmids in H.
  rewrite !in_app_iff in H. destruct H as [H|H]; [apply Lsvc_list_in in H; unfold Lsvc_ids in H|].
  2: destruct H as [H|[H|H]].
  all: apply in_map_iff in H; destruct H as (k & <- & H); apply in_seq in H; cbn [nid_idx]; unfold Lc1, Lc0; lia.
Qed.

Lemma Lnet_wf n0 p1 : p0 = Len n0 -> 0 <= n0 -> trips = trip_records i -> perm_ok ->
  net_wf_b (net p1) = true.
Proof.
  intros E0 Hn0 R P. destruct (valid_parts i V) as (_ & _ & _ & _ & _ & _ & [V11 V12] & _).
  unfold net_wf_b. rewrite !andb_true_iff. split; [split; [split|]|].
  - apply forallb_forall. intros [id n] H. apply Lnodes_good in H. apply H.
  - eapply Ldh_nonneg; eauto.
  - unfold params_nonneg. cbn [nw_params Lnet]. rewrite andb_true_iff, !Z.leb_le. auto.
  - change (type_ids (net p1)) with (tids i). apply forallb_forall. intros ty Hty.
    cbn [nw_type_by_start nw_type_by_end Lnet]. rewrite !(Lby_lookup _ ty Hty), (Ltype_nodes p1 ty Hty).
    pose proof (keys_facts (start_time pre) (srt (svc_list ty) ++ Lrest')) as [K1 P1].
    pose proof (keys_facts (end_time pre) (srt (svc_list ty) ++ Lrest')) as [K2 P2].
    fold (Lkeys (start_time pre) (srt (svc_list ty) ++ Lrest')) in K1, P1.
    fold (Lkeys (end_time pre) (srt (svc_list ty) ++ Lrest')) in K2, P2.
    assert (ND : NoDup (srt (svc_list ty) ++ Lrest')).
    { eapply Permutation_NoDup; [symmetry; apply Ltype_perm | apply Ltype_nodup]. }
    rewrite !andb_true_iff. repeat split.
    + exact K1.
    + exact K2.
    + apply same_set_intro. intros x. split; apply Permutation_in; auto. now symmetry.
    + apply same_set_intro. intros x. split; apply Permutation_in; auto. now symmetry.
    + apply nodup_nid_intro. eapply Permutation_NoDup; [symmetry; exact P1 | exact ND].
    + apply nodup_nid_intro. eapply Permutation_NoDup; [symmetry; exact P2 | exact ND].
    + apply forallb_forall. intros x Hx. apply (Permutation_in _ (Ltype_perm ty)) in Hx.
      apply (Ltype_bounds ty x R P) in Hx. rewrite andb_true_iff, orb_true_iff, !Z.leb_le. split; [right|]; lia.
Qed.

Lemma Lnet_durations p1 : durations_pos_b (net p1) = true.
Proof. apply forallb_forall. intros [id n] H. apply Lnodes_good in H. apply H. Qed.

Lemma Lnet_dists p1 : dists_finite_b (net p1) = true.
Proof. apply forallb_forall. intros [id n] H. apply Lnodes_good in H. apply H. Qed.

(** ** the overflow depot *)
Notation depots0 := (Ldepots0 i perm trips).
Notation overflow := (Loverflow i perm trips).
Notation ovidx := (Lovidx i perm trips).

Lemma Ldepots0_idx d : In d depots0 -> dp_idx d <> ovidx.
Proof.
  unfold Lovidx, Ldepots0. rewrite Ldepots0_length. unfold make_depots.
  destruct (i_depots i) as [ds|]; intros H; apply in_map_iff in H; destruct H as ([k x] & <- & H);
    apply in_combine_l, in_seq in H; cbn [dp_idx]; lia.
Qed.

Lemma Loverflow_entry p1 : exists sn en, depot_entry (net p1) ovidx = Some (overflow, sn, en).
Proof.
  unfold depot_entry. cbn [nw_depots Lnet]. unfold Ldentry, Ldnodes, Ldepots.
  apply (assoc_dentry depots0 overflow 0). intros d Hd. now apply Ldepots0_idx.
Qed.

Lemma Loverflow_total p1 : total_capacity_of (net p1) ovidx = dp_total overflow.
Proof. unfold total_capacity_of. destruct (Loverflow_entry p1) as (sn & en & ->). reflexivity. Qed.

Lemma Loverflow_cap p1 ty : In ty (tids i) -> capacity_of (net p1) ovidx ty = dp_total overflow.
Proof.
  intros H. unfold capacity_of. destruct (Loverflow_entry p1) as (sn & en & ->).
  unfold depot_capacity_for. cbn [dp_allowed Loverflow].
  rewrite (assoc_map_key (fun _ => @None Z) _ _ H). reflexivity.
Qed.

Lemma Lall_ids : Permutation (map snd (Lall i perm trips)) (map fst nodes).
Proof.
  unfold Lall. rewrite Lall_gen.
  transitivity (map snd (map (fun '(n, x) => (n_start_time x, n)) nodes ++ [])).
  - apply Permutation_map, fold_insert_perm.
  - rewrite app_nil_r, map_map. erewrite map_ext; [reflexivity|]. intros [n x]; reflexivity.
Qed.

Lemma filter_part p1 (part : list (node_id * node)) (b : bool) :
  incl part nodes -> (forall id n, In (id, n) part -> is_service n = b) ->
  filter (fun n => is_service (nd (net p1) n)) (map fst part) = if b then map fst part else [].
Proof.
  intros Hi Hb.
  assert (E : forall x, In x (map fst part) -> is_service (nd (net p1) x) = b).
  { intros x Hx. apply in_map_iff in Hx. destruct Hx as ([id n] & <- & Hx). cbn [fst].
    rewrite (Lnd id n p1 (Hi _ Hx)). eauto. }
  destruct b; [apply filter_all_true | apply filter_all_false]; auto.
Qed.

Lemma Lall_service p1 : Permutation (all_service_nodes (net p1)) svc_ids.
Proof.
  unfold all_service_nodes. cbn [nw_all_by_start Lnet]. rewrite (filter_perm _ _ _ Lall_ids).
  unfold Lnodes. rewrite !map_app, !filter_app.
  rewrite (filter_part p1 dentries false), (filter_part p1 svc_entries true), (filter_part p1 m_entries false).
  - cbn [app]. rewrite app_nil_r. unfold Lsvc_entries. now rewrite (map_fst_combine _ _ Lsvc_len).
  - unfold Lnodes. intros x Hx. rewrite !in_app_iff. auto.
  - intros id n H. apply Lm_entries_in in H. destruct H as (s & -> & _). reflexivity.
  - unfold Lnodes. intros x Hx. rewrite !in_app_iff. auto.
  - intros id n H. apply Lsvc_entries_in in H. destruct H as (s & -> & _). reflexivity.
  - unfold Lnodes. intros x Hx. rewrite !in_app_iff. auto.
  - intros id n H. apply Ldentries_in in H. destruct H as (d & [E|E]); simpl in E; subst; reflexivity.
Qed.

Lemma Lrequired_le p1 n s : In (n, NService s) svc_entries -> required_capped (net p1) n <= trip_required i s.
Proof.
  intros H. assert (E : nd (net p1) n = NService s).
  { apply Lnd. unfold Lnodes. rewrite !in_app_iff. auto. }
  unfold required_capped, number_of_vehicles_required_to_serve, maximal_formation_count_for, vehicle_type_for,
    passengers_of, seated_of, vtype_of, trip_required. rewrite E. cbn [nw_types Lnet].
  destruct (if st_type s <? 0 then None else nth_error (i_types i) (Z.to_nat (st_type s))) as [vt|].
  - destruct (vt_limit vt), (st_limit s); lia.
  - destruct (st_limit s); lia.
Qed.

Lemma Ltracks_le p1 n s : In (n, NMaint (Lmk_slot s)) m_entries -> track_count (net p1) n <= is_tracks s.
Proof.
  intros H. assert (E : nd (net p1) n = NMaint (Lmk_slot s)).
  { apply Lnd. unfold Lnodes. rewrite !in_app_iff. auto. }
  unfold track_count. rewrite E. cbn. lia.
Qed.

Lemma Lmax_vehicles p1 : max_vehicles (net p1) <= Lvub i trips.
Proof.
  unfold max_vehicles, Lvub, vehicle_upper_bound.
  rewrite (z_sum_perm _ _ (Permutation_map (required_capped (net p1)) (Lall_service p1))).
  cbn [nw_maint Lnet]. unfold Lsrt.
  rewrite (z_sum_perm _ _ (Permutation_map (track_count (net p1)) (sort_by_perm _ mids))).
  rewrite <- (z_sum_perm _ _ (Permutation_map (trip_required i) Ltbt_perm)).
  apply Z.add_le_mono.
  - apply (sum_le_combine NService).
    + unfold Lsvc_ids. now rewrite map_length, seq_length.
    + intros n a H. now apply Lrequired_le.
  - apply (sum_le_combine (fun s => NMaint (Lmk_slot s))).
    + unfold Lmids. now rewrite map_length, seq_length.
    + intros n a H. now apply Ltracks_le.
Qed.

Lemma Loverflow_ok p1 : overflow_ok_b (net p1) = true.
Proof.
  unfold overflow_ok_b. cbn [nw_overflow Lnet]. pose proof (Lmax_vehicles p1) as M.
  assert (T : Lvub i trips <= dp_total overflow) by (cbn [dp_total Loverflow]; lia).
  rewrite andb_true_iff. split.
  - rewrite Loverflow_total. apply Z.leb_le. lia.
  - change (type_ids (net p1)) with (tids i). apply forallb_forall. intros ty Hty.
    rewrite (Loverflow_cap p1 ty Hty). apply Z.leb_le. lia.
Qed.

(* the last end-depot node belongs to every type's node set *)
Lemma Lbig_ed p1 ty : In ty (tids i) ->
  In (ED (2 * Z.of_nat (length (Ldepots0 i perm trips)) + 1)) (type_nodes (net p1) ty).
Proof.
  intros H. rewrite (Ltype_nodes p1 ty H). unfold Lrest', Lrest, Lsrt. rewrite !in_app_iff. right; right; right.
  apply sort_by_in. rewrite Ledeps_eq. apply in_map_iff. exists (length (Ldepots0 i perm trips)). split; auto.
  apply in_seq. unfold Ldepots. rewrite app_length. simpl. lia.
Qed.
End Net.

(** * Theorem 1: loading a valid instance succeeds *)
Theorem load_total : stmt_load_total.
Proof.
  intros i perm V. rewrite load_eq.
  destruct (time_span_ok i V) as (p & E1 & P1). rewrite E1. destruct p as [e0 l0]. cbn [bind].
  destruct (planning_pt _ P1) as (n0 & E2 & _). cbn [fst snd] in E2. rewrite E2. cbn [bind].
  destruct (all_trips_ok i V) as (trips & E3). rewrite E3. cbn [bind].
  pose proof (all_trips_records i trips E3) as R.
  assert (P2 : span_pt (Lspan i perm trips)).
  { apply Lspan_pt; auto.
    - intros s Hs. apply trip_records_good; auto. now rewrite <- R.
    - rewrite R. now apply trip_records_nonempty. }
  destruct (planning_pt _ P2) as (n1 & E4 & _). rewrite E4. cbn [bind]. eauto.
Qed.
Print Assumptions load_total.

Lemma load_inv i perm nw : valid_instance_b i = true -> load i perm = Ok nw ->
  exists trips n0 p1, nw = Lnet i perm trips (Len n0) p1 /\ 0 <= n0 /\ trips = trip_records i /\
    (forall s, In s trips -> trip_good i s) /\ trips <> [].
Proof.
  intros V H. rewrite load_eq in H.
  destruct (time_span_ok i V) as (p & E1 & P1). rewrite E1 in H. destruct p as [e0 l0]. cbn [bind] in H.
  destruct (planning_pt _ P1) as (n0 & E2 & Hn0). cbn [fst snd] in E2. rewrite E2 in H. cbn [bind] in H.
  destruct (all_trips_ok i V) as (trips & E3). rewrite E3 in H. cbn [bind] in H.
  pose proof (all_trips_records i trips E3) as R.
  destruct (planning_of _ _) as [p1| | |]; cbn [bind] in H; try discriminate. inversion H; subst nw.
  exists trips, n0, p1. split; [reflexivity|]. split; [exact Hn0|]. split; [exact R|]. split.
  - intros s' Hs. apply trip_records_good; auto. now rewrite <- R.
  - rewrite R. now apply trip_records_nonempty.
Qed.

(** * Theorem 2: the nodes carry the prescribed records *)
Theorem load_nodes : stmt_load_nodes.
Proof.
  intros i perm nw V H. destruct (load_inv i perm nw V H) as (trips & n0 & p1 & -> & Hn0 & R & G & Ne).
  split.
  - rewrite Lservices. rewrite <- R. apply Ltbt_perm; auto.
  - apply Lslots_of.
Qed.
Print Assumptions load_nodes.

(** * Theorem 3: the loaded network is well-formed.
    [stmt_load_wf] is false as stated: when [i_depots i = None] the depots are built from [perm], whose
    length is not constrained by [valid_instance_b], so the 16-bit index bound can fail. The statement holds
    under [perm_ok]: no more generated depots than locations. *)
Theorem load_wf_partial :
  forall i perm nw, valid_instance_b i = true -> perm_ok i perm -> load i perm = Ok nw ->
    net_wf_b nw = true /\ durations_pos_b nw = true /\ dists_finite_b nw = true.
Proof.
  intros i perm nw V P H. destruct (load_inv i perm nw V H) as (trips & n0 & p1 & -> & Hn0 & R & G & Ne).
  split; [|split].
  - eapply Lnet_wf; eauto.
  - apply Lnet_durations; auto.
  - apply Lnet_dists; auto.
Qed.
Print Assumptions load_wf_partial.

(** * Theorem 4: the overflow depot can host every vehicle *)
Theorem load_overflow : stmt_load_overflow.
Proof.
  intros i perm nw V H. destruct (load_inv i perm nw V H) as (trips & n0 & p1 & -> & Hn0 & R & G & Ne).
  apply Loverflow_ok; auto.
Qed.
Print Assumptions load_overflow.

(** * [stmt_load_wf] is false as stated: a valid instance without depots and an over-long [perm] *)
Definition cex_instance : instance :=
  {| i_types := [{| vt_cap := 1; vt_seats := 1; vt_limit := None |}];
     i_nlocs := 1;
     i_depots := None;
     i_routes := [{| r_type := 0;
                     r_segs := [{| rs_origin := 0; rs_dest := 0; rs_dist := 0; rs_dur := 1; rs_limit := None |}] |}];
     i_departures := [{| d_route := 0; d_segs := [{| ds_rseg := 0; ds_dep := 0; ds_pass := 0; ds_seated := 0 |}] |}];
     i_slots := None;
     i_dh_dur := [[0]]; i_dh_dist := [[0]];
     i_params := {| p_forbid := false; p_min := 0; p_dht := 0; p_maxdist := 0;
                    c_staff := 0; c_service := 0; c_maint := 0; c_dh := 0; c_idle := 0 |} |}.
Definition cex_perm : list Z := repeat 0 (Z.to_nat 32768).

Lemma cex_valid : valid_instance_b cex_instance = true.
Proof. vm_compute. reflexivity. Qed.

Theorem load_wf_refuted : ~ stmt_load_wf.
Proof.
  intros W. destruct (load_total cex_instance cex_perm cex_valid) as [nw H].
  destruct (W _ _ _ cex_valid H) as [WF _].
  destruct (load_inv _ _ _ cex_valid H) as (trips & n0 & p1 & -> & Hn0 & R & G & Ne).
  destruct (wf_parts _ WF) as (_ & _ & _ & Ht).
  assert (T : In 0 (tids cex_instance)) by (left; reflexivity).
  destruct (Ht 0 T) as (_ & _ & _ & _ & _ & _ & B).
  destruct (B _ (Lbig_ed cex_instance cex_perm trips (Len n0) p1 0 T)) as [_ B'].
  cbn [nid_idx] in B'. unfold Ldepots0 in B'. rewrite Ldepots0_length in B'.
  cbn [i_depots cex_instance] in B'. unfold cex_perm in B'. rewrite repeat_length, Z2Nat.id in B'; lia.
Qed.
Print Assumptions load_wf_refuted.

(* the unrestricted statement does hold whenever the instance lists its depots *)
Corollary load_wf_with_depots :
  forall i perm nw ds, valid_instance_b i = true -> i_depots i = Some ds -> load i perm = Ok nw ->
    net_wf_b nw = true /\ durations_pos_b nw = true /\ dists_finite_b nw = true.
Proof.
  intros i perm nw ds V E H. apply (load_wf_partial i perm nw V); auto.
  intros N. rewrite N in E. discriminate.
Qed.

(* ... and when [perm] enumerates the locations (the HashMap iteration order of the code) *)
Corollary load_wf_perm_of_locations :
  forall i perm nw, valid_instance_b i = true ->
    Permutation perm (map Z.of_nat (seq 0 (i_nlocs i))) -> load i perm = Ok nw ->
    net_wf_b nw = true /\ durations_pos_b nw = true /\ dists_finite_b nw = true.
Proof.
  intros i perm nw V P H. apply (load_wf_partial i perm nw V); auto.
  intros _. rewrite (Permutation_length P), map_length, seq_length. auto.
Qed.
