(* LoadFacts2.v — proof of [stmt_load_depots] (LoadStmts2.v): the depot table built by [load].

   Proved exactly as stated:
     load_depots : stmt_load_depots
   Non-vacuity (kernel-evaluated on concrete instances):
     nwG_depots   : an instance with two given depots (per-type figure capped by the total, type without figure,
                    type not listed, type listed twice)
     nwU_depots   : an instance without depots, perm = [1; 0]
     load_depots_instG / load_depots_instU : the theorem instantiated on them (hypotheses discharged). *)
From Coq Require Import Permutation.
From RS Require Import Base BaseFacts Network NetSpec NetFacts LoadStmts FlowStmts LoadFacts RenderFacts1 LoadStmts2.

(** * 1. list facts about the numbered depot list *)
Lemma nth_error_combine_seq {B} (l : list B) : forall s k x, nth_error l k = Some x ->
  nth_error (combine (seq s (length l)) l) k = Some ((s + k)%nat, x).
Proof.
  induction l as [|y l IH]; intros s k x G.
  - destruct k; discriminate G.
  - cbn [length seq combine]. destruct k as [|k]; cbn [nth_error] in *.
    + inversion G; subst y. now rewrite Nat.add_0_r.
    + rewrite (IH (S s) k x G). do 2 f_equal. lia.
Qed.

Lemma fst_dentry deps : forall s, rd_idx_from s deps ->
  map fst (map (fun '(d, sn, en) => (dp_idx d, (d, sn, en))) (rd_dn_of s deps)) = map Z.of_nat (seq s (length deps)).
Proof.
  induction deps as [|d deps IH]; intros s IX.
  - reflexivity.
  - apply rd_idx_from_cons in IX. destruct IX as [E0 IX].
    unfold rd_dn_of. cbn [length seq combine map fst]. fold (rd_dn_of (S s) deps).
    rewrite E0. f_equal. apply IH. exact IX.
Qed.

Lemma in_map_of_nat_seq d n : In d (map Z.of_nat (seq 0 n)) -> exists k, d = Z.of_nat k /\ (k < n)%nat.
Proof.
  intros H. apply in_map_iff in H. destruct H as (k & <- & H). apply in_seq in H. exists k. split; [reflexivity|lia].
Qed.

(** * 2. the depot table of [Lnet] *)
Section Table.
Variable i : instance.
Variable perm : list Z.
Variable trips : list service_trip.
Variable p0 p1 : duration.

Notation deps0 := (Ldepots0 i perm trips).
Notation deps := (Ldepots i perm trips).
Notation ovf := (Loverflow i perm trips).
Notation net := (Lnet i perm trips p0 p1).
Notation nreal := (match i_depots i with Some ds => length ds | None => length perm end).

Lemma deps_idx : rd_idx_from 0 deps.
Proof. unfold Ldepots. apply rd_idx_from_snoc; [apply rd_make_depots_idx|]. reflexivity. Qed.

Lemma deps0_length : length deps0 = nreal.
Proof. unfold Ldepots0. apply Ldepots0_length. Qed.

Lemma deps_length : length deps = (nreal + 1)%nat.
Proof. unfold Ldepots. rewrite app_length, deps0_length. reflexivity. Qed.

(* depot number k: index, table entry, both nodes *)
Lemma dep_at k d : nth_error deps k = Some d ->
  dp_idx d = Z.of_nat k /\
  depot_entry net (Z.of_nat k) = Some (d, SD (2 * Z.of_nat k), ED (2 * Z.of_nat k + 1)) /\
  nd net (SD (2 * Z.of_nat k)) = NStart {| dn_depot := dp_idx d; dn_loc := dp_loc d |} /\
  nd net (ED (2 * Z.of_nat k + 1)) = NEnd {| dn_depot := dp_idx d; dn_loc := dp_loc d |}.
Proof.
  intros G. pose proof deps_idx as IX.
  destruct (rd_dn_entry deps 0 IX k d G) as (A & B & C). cbn [Nat.add] in A, B, C.
  split; [|split; [|split]].
  - rewrite (IX k d G). reflexivity.
  - unfold depot_entry. cbn [nw_depots Lnet]. unfold Ldentry, Ldnodes. fold (rd_dn_of 0 deps). exact A.
  - apply (Lnd i perm trips p0). unfold Lnodes. apply in_app_iff. left.
    unfold Ldentries, Ldnodes. fold (rd_dn_of 0 deps). exact B.
  - apply (Lnd i perm trips p0). unfold Lnodes. apply in_app_iff. left.
    unfold Ldentries, Ldnodes. fold (rd_dn_of 0 deps). exact C.
Qed.

(* what the getters return for depot number k *)
Lemma dep_getters k d : nth_error deps k = Some d ->
  depot_start_loc net (Z.of_nat k) = dp_loc d /\ depot_end_loc net (Z.of_nat k) = dp_loc d /\
  total_capacity_of net (Z.of_nat k) = dp_total d /\
  (forall ty, capacity_of net (Z.of_nat k) ty = depot_capacity_for d ty) /\
  is_start_depot (nd net (get_start_depot_node net (Z.of_nat k))) = true /\
  get_depot_idx net (get_start_depot_node net (Z.of_nat k)) = Z.of_nat k /\
  is_end_depot (nd net (get_end_depot_node net (Z.of_nat k))) = true /\
  get_depot_idx net (get_end_depot_node net (Z.of_nat k)) = Z.of_nat k.
Proof.
  intros G. destruct (dep_at k d G) as (EI & DE & NS & NE).
  unfold depot_start_loc, depot_end_loc, total_capacity_of, capacity_of, get_depot_idx,
    get_start_depot_node, get_end_depot_node.
  rewrite DE, NS, NE. cbn [n_start_loc n_end_loc dn_loc dn_depot is_start_depot is_end_depot].
  rewrite EI. repeat split; reflexivity.
Qed.

Lemma table_keys : map fst (nw_depots net) = map Z.of_nat (seq 0 (nreal + 1)).
Proof.
  cbn [nw_depots Lnet]. unfold Ldentry, Ldnodes. fold (rd_dn_of 0 deps).
  rewrite (fst_dentry deps 0 deps_idx), deps_length. reflexivity.
Qed.

Lemma overflow_id : overflow_depot_id net = Z.of_nat nreal.
Proof. unfold overflow_depot_id. cbn [nw_overflow Lnet]. unfold Lovidx. now rewrite deps0_length. Qed.

Lemma dep_real k d : nth_error deps0 k = Some d -> nth_error deps k = Some d.
Proof.
  intros G. unfold Ldepots. rewrite nth_error_app1; [exact G|]. apply nth_error_Some. rewrite G. discriminate.
Qed.

Lemma dep_overflow : nth_error deps nreal = Some ovf.
Proof.
  unfold Ldepots. rewrite <- deps0_length. rewrite nth_error_app2 by lia. rewrite Nat.sub_diag. reflexivity.
Qed.

Lemma dep_given ds k d : i_depots i = Some ds -> nth_error ds k = Some d ->
  nth_error deps0 k = Some {| dp_idx := Z.of_nat k; dp_loc := Station (id_loc d); dp_total := id_cap d;
                              dp_allowed := id_allowed d |}.
Proof.
  intros E G. unfold Ldepots0, make_depots. rewrite E.
  erewrite map_nth_error; [|apply (nth_error_combine_seq ds 0 k d G)]. reflexivity.
Qed.

Lemma dep_default k l : i_depots i = None -> nth_error perm k = Some l ->
  nth_error deps0 k = Some {| dp_idx := Z.of_nat k; dp_loc := Station l;
                              dp_total := Z.max (Lnservice trips) (Lvub i trips);
                              dp_allowed := map (fun t => (t, @None Z)) (tids i) |}.
Proof.
  intros E G. unfold Ldepots0, make_depots. rewrite E.
  erewrite map_nth_error; [|apply (nth_error_combine_seq perm 0 k l G)]. reflexivity.
Qed.
End Table.

(** * 3. the theorem *)
Theorem load_depots : stmt_load_depots.
Proof.
  intros i perm nw V H. destruct (load_inv i perm nw V H) as (trips & n0 & p1 & -> & Hn0 & R & G & Ne).
  cbv zeta.
  split; [apply table_keys|]. split; [apply overflow_id|].
  split; [|split; [|split; [|split]]].
  - (* given depots *)
    intros ds k d E Nk.
    pose proof (dep_real _ _ _ _ _ (dep_given i perm trips ds k d E Nk)) as Q.
    destruct (dep_getters i perm trips (Len n0) p1 k _ Q) as (A1 & A2 & A3 & A4 & _).
    cbn [dp_loc dp_total] in A1, A2, A3.
    split; [exact A1|]. split; [exact A2|]. split; [exact A3|].
    intros ty. rewrite A4. unfold depot_capacity_for. cbn [dp_allowed dp_total]. reflexivity.
  - (* default depots *)
    intros E k l Nk.
    pose proof (dep_real _ _ _ _ _ (dep_default i perm trips k l E Nk)) as Q.
    destruct (dep_getters i perm trips (Len n0) p1 k _ Q) as (A1 & A2 & A3 & A4 & _).
    cbn [dp_loc dp_total] in A1, A2, A3.
    split; [exact A1|]. split; [exact A2|]. split.
    + rewrite A3. pose proof (Lmax_vehicles i perm trips (Len n0) G p1) as M. lia.
    + intros ty Hty. rewrite A4, A3. change (type_ids (Lnet i perm trips (Len n0) p1)) with (tids i) in Hty.
      unfold depot_capacity_for. cbn [dp_allowed dp_total].
      rewrite (assoc_map_key (fun _ => @None Z) _ _ Hty). reflexivity.
  - (* both nodes of every depot *)
    intros d Hd. rewrite table_keys in Hd. apply in_map_of_nat_seq in Hd. destruct Hd as (k & -> & Hk).
    destruct (nth_error (Ldepots i perm trips) k) as [dp|] eqn:Nk.
    + destruct (dep_getters i perm trips (Len n0) p1 k dp Nk) as (_ & _ & _ & _ & B1 & B2 & B3 & B4).
      repeat split; assumption.
    + exfalso. apply nth_error_None in Nk. rewrite deps_length in Nk. lia.
  - (* overflow depot, start *)
    destruct (dep_getters i perm trips (Len n0) p1 _ _ (dep_overflow i perm trips)) as (A1 & _).
    exact A1.
  - destruct (dep_getters i perm trips (Len n0) p1 _ _ (dep_overflow i perm trips)) as (_ & A2 & _).
    exact A2.
Qed.
(** * 4. non-vacuity: the getters evaluated on concrete instances *)
Definition pars0 : params :=
  {| p_forbid := false; p_min := 0; p_dht := 0; p_maxdist := 100000;
     c_staff := 1; c_service := 1; c_maint := 0; c_dh := 5; c_idle := 1 |}.

(* two types, two given depots:
   depot 0 at location 1, 5 places; type 0 listed twice (figures 9 and 2: the first one counts and is capped by the
     total), type 1 not listed;
   depot 1 at location 0, 3 places; type 0 with figure 2, type 1 without figure *)
Definition instG : instance := {|
  i_types := [ {| vt_cap := 100; vt_seats := 50; vt_limit := None |}; {| vt_cap := 100; vt_seats := 50; vt_limit := None |} ];
  i_nlocs := 2;
  i_depots := Some [ {| id_loc := 1; id_cap := 5; id_allowed := [(0, Some 9); (0, Some 2)] |};
                     {| id_loc := 0; id_cap := 3; id_allowed := [(0, Some 2); (1, None)] |} ];
  i_routes := [ {| r_type := 1; r_segs := [ {| rs_origin := 0; rs_dest := 1; rs_dist := 1000; rs_dur := 1000; rs_limit := None |} ] |} ];
  i_departures := [ {| d_route := 0; d_segs := [ {| ds_rseg := 0; ds_dep := 5000; ds_pass := 10; ds_seated := 5 |} ] |} ];
  i_slots := Some [ {| is_loc := 0; is_start := 1000; is_end := 2000; is_tracks := 1 |} ];
  i_dh_dur := [[0; 60]; [60; 0]];
  i_dh_dist := [[0; 1000]; [1000; 0]];
  i_params := pars0 |}.
Definition nwG : network :=
  Eval vm_compute in match load instG [] with Ok nw => nw | _ => Lnet instG [] [] (Len 0) (Len 0) end.

Example nwG_loaded : valid_instance_b instG = true /\ load instG [] = Ok nwG.
Proof. split; vm_compute; reflexivity. Qed.

Example nwG_depots :
  map fst (nw_depots nwG) = [0; 1; 2] /\ overflow_depot_id nwG = 2 /\
  (* depot 0 *)
  depot_start_loc nwG 0 = Station 1 /\ depot_end_loc nwG 0 = Station 1 /\ total_capacity_of nwG 0 = 5 /\
  capacity_of nwG 0 0 = 5 /\ capacity_of nwG 0 1 = 0 /\
  (* depot 1 *)
  depot_start_loc nwG 1 = Station 0 /\ depot_end_loc nwG 1 = Station 0 /\ total_capacity_of nwG 1 = 3 /\
  capacity_of nwG 1 0 = 2 /\ capacity_of nwG 1 1 = 3 /\
  get_start_depot_node nwG 1 = SD 2 /\ get_end_depot_node nwG 1 = ED 3 /\
  nd nwG (SD 2) = NStart {| dn_depot := 1; dn_loc := Station 0 |} /\
  nd nwG (ED 3) = NEnd {| dn_depot := 1; dn_loc := Station 0 |} /\
  get_depot_idx nwG (SD 2) = 1 /\ get_depot_idx nwG (ED 3) = 1 /\
  (* overflow depot *)
  get_start_depot_node nwG 2 = SD 4 /\ get_end_depot_node nwG 2 = ED 5 /\
  get_depot_idx nwG (SD 4) = 2 /\ get_depot_idx nwG (ED 5) = 2 /\
  depot_start_loc nwG 2 = Nowhere /\ depot_end_loc nwG 2 = Nowhere.
Proof. vm_compute. repeat split; reflexivity. Qed.

(* no depots given, two locations enumerated as [1; 0]; one trip of type 0 needing 3 vehicles of which the type's
   limit admits 2, one slot with 2 tracks: vehicle_upper_bound = 3 + 2 = 5, max_vehicles = 2 + 2 = 4 *)
Definition instU : instance := {|
  i_types := [ {| vt_cap := 100; vt_seats := 50; vt_limit := Some 2 |}; {| vt_cap := 100; vt_seats := 50; vt_limit := None |} ];
  i_nlocs := 2;
  i_depots := None;
  i_routes := [ {| r_type := 0; r_segs := [ {| rs_origin := 0; rs_dest := 1; rs_dist := 1000; rs_dur := 1000; rs_limit := None |} ] |} ];
  i_departures := [ {| d_route := 0; d_segs := [ {| ds_rseg := 0; ds_dep := 5000; ds_pass := 250; ds_seated := 5 |} ] |} ];
  i_slots := Some [ {| is_loc := 0; is_start := 1000; is_end := 2000; is_tracks := 2 |} ];
  i_dh_dur := [[0; 60]; [60; 0]];
  i_dh_dist := [[0; 1000]; [1000; 0]];
  i_params := pars0 |}.
Definition permU : list Z := [1; 0].
Definition nwU : network :=
  Eval vm_compute in match load instU permU with Ok nw => nw | _ => Lnet instU [] [] (Len 0) (Len 0) end.

Example nwU_loaded : valid_instance_b instU = true /\ load instU permU = Ok nwU.
Proof. split; vm_compute; reflexivity. Qed.

Example nwU_depots :
  map fst (nw_depots nwU) = [0; 1; 2] /\ overflow_depot_id nwU = 2 /\ type_ids nwU = [0; 1] /\ max_vehicles nwU = 4 /\
  depot_start_loc nwU 0 = Station 1 /\ depot_end_loc nwU 0 = Station 1 /\ total_capacity_of nwU 0 = 5 /\
  capacity_of nwU 0 0 = 5 /\ capacity_of nwU 0 1 = 5 /\
  depot_start_loc nwU 1 = Station 0 /\ depot_end_loc nwU 1 = Station 0 /\ total_capacity_of nwU 1 = 5 /\
  capacity_of nwU 1 0 = 5 /\ capacity_of nwU 1 1 = 5 /\
  (* a type id outside [type_ids] gets nothing: the side condition [In ty (type_ids nw)] of the statement is needed *)
  capacity_of nwU 0 2 = 0 /\
  get_start_depot_node nwU 1 = SD 2 /\ get_end_depot_node nwU 1 = ED 3 /\
  get_depot_idx nwU (SD 2) = 1 /\ get_depot_idx nwU (ED 3) = 1 /\
  depot_start_loc nwU 2 = Nowhere /\ depot_end_loc nwU 2 = Nowhere.
Proof. vm_compute. repeat split; reflexivity. Qed.

(* the theorem with its hypotheses discharged on the two instances *)
Example load_depots_instG :
  map fst (nw_depots nwG) = map Z.of_nat (seq 0 3) /\ overflow_depot_id nwG = 2 /\
  (forall k d, nth_error [ {| id_loc := 1; id_cap := 5; id_allowed := [(0, Some 9); (0, Some 2)] |};
                           {| id_loc := 0; id_cap := 3; id_allowed := [(0, Some 2); (1, None)] |} ] k = Some d ->
     depot_start_loc nwG (Z.of_nat k) = Station (id_loc d) /\ total_capacity_of nwG (Z.of_nat k) = id_cap d).
Proof.
  destruct nwG_loaded as [V L]. destruct (load_depots instG [] nwG V L) as (A & B & C & _).
  split; [exact A|]. split; [exact B|]. intros k d Nk.
  destruct (C _ k d eq_refl Nk) as (C1 & _ & C3 & _). split; assumption.
Qed.

Example load_depots_instU : forall k l, nth_error permU k = Some l ->
  depot_start_loc nwU (Z.of_nat k) = Station l /\ max_vehicles nwU <= total_capacity_of nwU (Z.of_nat k).
Proof.
  intros k l Nk. destruct nwU_loaded as [V L]. destruct (load_depots instU permU nwU V L) as (_ & _ & _ & D & _).
  destruct (D eq_refl k l Nk) as (D1 & _ & D3 & _). split; assumption.
Qed.

Print Assumptions load_depots.
