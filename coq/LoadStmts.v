(* LoadStmts.v — C17/C06: what [load] guarantees for every instance conforming to the documented input
   format (full statements; proofs in LoadFacts.v). *)
From Coq Require Import Permutation.
From RS Require Import Base Network NetSpec.

(* "conforms to the documented input format": references resolve, durations positive, non-negative numbers,
   and the size bound of the 16-bit node index *)
Definition valid_instance_b (i : instance) : bool :=
  let nl := Z.of_nat (i_nlocs i) in
  let nt := Z.of_nat (length (i_types i)) in
  let loc_ok l := (0 <=? l) && (l <? nl) in
  forallb (fun vt => (0 <? vt_cap vt) && (0 <? vt_seats vt)) (i_types i) &&
  forallb (fun r => (0 <=? r_type r) && (r_type r <? nt) &&
                    forallb (fun g => loc_ok (rs_origin g) && loc_ok (rs_dest g) && (0 <=? rs_dist g) && (0 <? rs_dur g))
                            (r_segs r)) (i_routes i) &&
  forallb (fun d => match nth_error (i_routes i) (d_route d) with
                    | Some r => forallb (fun s => Nat.ltb (ds_rseg s) (length (r_segs r)) && (0 <=? ds_pass s) && (0 <=? ds_seated s))
                                        (d_segs d)
                    | None => false end) (i_departures i) &&
  negb (Nat.eqb (length (flat_map d_segs (i_departures i))) 0) &&
  forallb (fun s => loc_ok (is_loc s) && (is_start s <? is_end s) && (0 <=? is_tracks s))
          (match i_slots i with Some l => l | None => [] end) &&
  forallb (fun d => loc_ok (id_loc d) && (0 <=? id_cap d)) (match i_depots i with Some l => l | None => [] end) &&
  Nat.eqb (length (i_dh_dur i)) (i_nlocs i) && Nat.eqb (length (i_dh_dist i)) (i_nlocs i) &&
  forallb (fun row => Nat.eqb (length row) (i_nlocs i) && forallb (fun x => 0 <=? x) row) (i_dh_dur i) &&
  forallb (fun row => Nat.eqb (length row) (i_nlocs i) && forallb (fun x => 0 <=? x) row) (i_dh_dist i) &&
  (0 <=? p_min (i_params i)) && (0 <=? p_dht (i_params i)) &&
  (* every node index fits the 16-bit Idx: 2 per depot (overflow included) + trips + slots *)
  (2 * (Z.of_nat (match i_depots i with Some l => length l | None => i_nlocs i end) + 1) +
   Z.of_nat (length (flat_map d_segs (i_departures i))) +
   Z.of_nat (length (match i_slots i with Some l => l | None => [] end)) <=? 65536).

(* loading a valid instance never panics *)
Definition stmt_load_total : Prop :=
  forall i perm, valid_instance_b i = true -> exists nw, load i perm = Ok nw.

(* one service node per departure segment with the prescribed record, one node per maintenance slot *)
Definition stmt_load_nodes : Prop :=
  forall i perm nw, valid_instance_b i = true -> load i perm = Ok nw ->
    Permutation (services_of nw) (trip_records i) /\ slots_of nw = slot_records i.

(* the loaded network satisfies every hypothesis the C17/C12/C09 theorems use *)
Definition stmt_load_wf : Prop :=
  forall i perm nw, valid_instance_b i = true -> load i perm = Ok nw ->
    net_wf_b nw = true /\ durations_pos_b nw = true /\ dists_finite_b nw = true.

(* the overflow depot can always host every vehicle *)
Definition stmt_load_overflow : Prop :=
  forall i perm nw, valid_instance_b i = true -> load i perm = Ok nw -> overflow_ok_b nw = true.
