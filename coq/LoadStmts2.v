(* LoadStmts2.v — C17, the depot clause: "the given depots (or one unlimited depot per location) with their total and
   per-type capacities plus an overflow depot". Proofs in LoadFacts2.v. *)
From RS Require Import Base Network NetSpec LoadStmts FlowStmts.

Definition depot_start_loc (nw : network) (d : Z) : loc := n_start_loc (nd nw (get_start_depot_node nw d)).
Definition depot_end_loc (nw : network) (d : Z) : loc := n_end_loc (nd nw (get_end_depot_node nw d)).

Definition stmt_load_depots : Prop :=
  forall i perm nw, valid_instance_b i = true -> load i perm = Ok nw ->
    let nreal := match i_depots i with Some ds => length ds | None => length perm end in
    (* the depot table: the real depots 0 .. nreal-1 in the order of the input, then the overflow depot *)
    map fst (nw_depots nw) = map Z.of_nat (seq 0 (nreal + 1)) /\
    overflow_depot_id nw = Z.of_nat nreal /\
    (* given depots: location, total capacity and per-type capacity as given (a per-type figure is capped by the total, a
       type without figure may use the whole depot, a type that is not listed never starts there) *)
    (forall ds k d, i_depots i = Some ds -> nth_error ds k = Some d ->
       depot_start_loc nw (Z.of_nat k) = Station (id_loc d) /\ depot_end_loc nw (Z.of_nat k) = Station (id_loc d) /\
       total_capacity_of nw (Z.of_nat k) = id_cap d /\
       forall ty, capacity_of nw (Z.of_nat k) ty =
         match assoc Z.eqb ty (id_allowed d) with
         | Some (Some c) => Z.min c (id_cap d) | Some None => id_cap d | None => 0 end) /\
    (* no depots given: one depot per location (in the order [perm] of the loader's hash map), open to every type and at
       least as large as the largest fleet the instance can need *)
    (i_depots i = None -> forall k l, nth_error perm k = Some l ->
       depot_start_loc nw (Z.of_nat k) = Station l /\ depot_end_loc nw (Z.of_nat k) = Station l /\
       max_vehicles nw <= total_capacity_of nw (Z.of_nat k) /\
       forall ty, In ty (type_ids nw) -> capacity_of nw (Z.of_nat k) ty = total_capacity_of nw (Z.of_nat k)) /\
    (* the two nodes of every depot are a start and an end depot node carrying its index *)
    (forall d, In d (map fst (nw_depots nw)) ->
       is_start_depot (nd nw (get_start_depot_node nw d)) = true /\ get_depot_idx nw (get_start_depot_node nw d) = d /\
       is_end_depot (nd nw (get_end_depot_node nw d)) = true /\ get_depot_idx nw (get_end_depot_node nw d) = d) /\
    (* the overflow depot is nowhere (infinitely far from every location) *)
    depot_start_loc nw (Z.of_nat nreal) = Nowhere /\ depot_end_loc nw (Z.of_nat nreal) = Nowhere.
