(* LocalSearch.v — generic model of rapid_solve's (Parallel)LocalSearchSolver with the Minimizer improver:
     while let Some(new) = improve(current) { current = new }
     improve(s) = min_by(neighbors(s)) if strictly smaller than s, else None.
   The choice among equal minima (rayon min_by) is an oracle [pick] with a contract.  Definitions only. *)
From RS Require Export Base.

(* ObjectiveValue::cmp: lexicographic over the zipped vectors *)
Fixpoint lex_cmp (a b : list Z) : comparison :=
  match a, b with
  | x :: r, y :: s => match Z.compare x y with Eq => lex_cmp r s | c => c end
  | _, _ => Eq
  end.
Definition lex_lt (a b : list Z) : bool := match lex_cmp a b with Lt => true | _ => false end.
Definition lex_le (a b : list Z) : bool := match lex_cmp a b with Gt => false | _ => true end.

Section LS.
Variable S : Type.
Variable obj : S -> list Z.
Variable neighbors : S -> list S.
Variable pick : list S -> option S.

(* contract of min_by: returns an element no other element is strictly below; None only for no candidates *)
Definition pick_ok : Prop :=
  forall l, match pick l with
            | Some n => In n l /\ forall m, In m l -> lex_lt (obj m) (obj n) = false
            | None => l = []
            end.

Definition improve (s : S) : option S :=
  match pick (neighbors s) with
  | Some n => if lex_lt (obj n) (obj s) then Some n else None
  | None => None
  end.

(* the solver loop on fuel: (result, accepted steps in order, finished?) *)
Fixpoint run (fuel : nat) (s : S) : S * list S * bool :=
  match fuel with
  | O => (s, [], false)
  | Datatypes.S f =>
      match improve s with
      | Some n => let '(r, steps, fin) := run f n in (r, n :: steps, fin)
      | None => (s, [], true)
      end
  end.
End LS.

(** executable reading of C08 on a recorded trajectory: objective vectors of start :: accepted steps *)
Fixpoint strictly_descending (l : list (list Z)) : bool :=
  match l with
  | a :: ((b :: _) as r) => lex_lt b a && strictly_descending r
  | _ => true
  end.
