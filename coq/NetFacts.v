(* NetFacts.v — proofs about the network model (C17): can_reach = documented rule,
   successor/predecessor enumerations are exact. *)
From RS Require Import Base BaseFacts Network NetSpec.

Lemma mem_nid_in n l : mem_nid n l = true <-> In n l.
Proof.
  induction l as [|x l IH]; simpl; [intuition discriminate|].
  rewrite orb_true_iff, IH, nid_eqb_eq. intuition.
Qed.

Lemma same_set_iff a b : same_set a b = true -> forall x, In x a <-> In x b.
Proof.
  unfold same_set. rewrite andb_true_iff, !forallb_forall. intros [H1 H2] x.
  split; intros H; [apply H1 in H | apply H2 in H]; now apply mem_nid_in.
Qed.

Lemma nodup_nid_iff l : nodup_nid l = true -> NoDup l.
Proof.
  induction l as [|x l IH]; simpl; [constructor|].
  rewrite andb_true_iff, negb_true_iff. intros [H1 H2]. constructor; auto.
  intros Hin. apply mem_nid_in in Hin. congruence.
Qed.

Section Facts.
Variable nw : network.
Let P := nw_params nw.

(** ** can_reach is exactly the documented rule *)
Lemma act_fields n : is_activity n = true -> node_wf n = true ->
  exists a b l1 l2, n_start_time n = Point a /\ n_end_time n = Point b /\ n_start_loc n = Station l1 /\ n_end_loc n = Station l2.
Proof.
  destruct n as [d|s|m|d]; simpl; try discriminate; intros _.
  - destruct (st_dep s), (st_arr s), (st_origin s), (st_dest s); try discriminate. intros _. do 4 eexists; eauto.
  - destruct (ms_start m), (ms_end m), (ms_loc m); try discriminate. intros _. do 4 eexists; eauto.
Qed.

Lemma act_can_reach n1 n2 e s l1 l2 :
  is_activity n1 = true -> is_activity n2 = true ->
  n_end_time n1 = Point e -> n_start_time n2 = Point s -> n_end_loc n1 = Station l1 -> n_start_loc n2 = Station l2 ->
  can_reach_nodes nw n1 n2 =
    if l1 =? l2 then e + p_min P <=? s
    else negb (p_forbid P) &&
         match loc_travel_time nw (Station l1) (Station l2) with
         | Len tv => e + (tv + (p_dht P + p_dht P)) <=? s | DurInf => false end.
Proof.
  intros A1 A2 E1 E2 E3 E4. unfold can_reach_nodes, minimal_duration_nodes.
  rewrite E1, E2, E3, E4. simpl loc_eqb.
  assert (Hs1 : is_start_depot n2 || is_end_depot n1 = false) by (destruct n1, n2; simpl in *; auto; discriminate).
  assert (Hs2 : is_start_depot n1 || is_end_depot n2 = false) by (destruct n1, n2; simpl in *; auto; discriminate).
  rewrite Hs1, Hs2.
  assert (Sh1 : shunting_no_dh nw n1 n2 = Len (p_min P)) by (destruct n1, n2; simpl in *; auto; discriminate).
  assert (Sh2 : shunting_dh nw n1 n2 = Len (p_dht P + p_dht P)) by (destruct n1, n2; simpl in *; auto; discriminate).
  rewrite Sh1, Sh2. fold P.
  remember (loc_travel_time nw (Station l1) (Station l2)) as T eqn:HT. clear HT.
  destruct (l1 =? l2) eqn:El; simpl.
  - rewrite andb_false_r. cbn [dt_add]. apply dt_leb_point_b.
  - rewrite andb_true_r. destruct (p_forbid P); simpl; auto.
    destruct T as [tv|]; cbn [dt_add dur_add]; [apply dt_leb_point_b | reflexivity].
Qed.

Theorem can_reach_nodes_iff n1 n2 :
  node_wf n1 = true -> node_wf n2 = true ->
  (can_reach_nodes nw n1 n2 = true <-> Reach nw n1 n2).
Proof.
  intros W1 W2.
  destruct (is_activity n1) eqn:A1, (is_activity n2) eqn:A2.
  - destruct (act_fields _ A1 W1) as (a1 & e & la & l1 & _ & E1 & _ & E3).
    destruct (act_fields _ A2 W2) as (s & b2 & l2 & lb & E2 & _ & E4 & _).
    rewrite (act_can_reach n1 n2 e s l1 l2) by auto.
    assert (HR : Reach nw n1 n2 <->
       (if l1 =? l2 then e + p_min P <= s
         else p_forbid P = false /\ exists tv, loc_travel_time nw (Station l1) (Station l2) = Len tv /\ e + tv + p_dht P + p_dht P <= s)).
    { unfold Reach. destruct n1, n2; simpl in A1, A2; try discriminate; fold P.
      all: split; [ intros (e' & s' & a' & b' & F1 & F2 & F3 & F4 & H); rewrite E1 in F1; rewrite E2 in F2; rewrite E3 in F3; rewrite E4 in F4; inversion F1; inversion F2; inversion F3; inversion F4; subst; exact H
                  | intros H; exists e, s, l1, l2; auto ]. }
    rewrite HR. destruct (l1 =? l2).
    + apply Z.leb_le.
    + rewrite andb_true_iff, negb_true_iff. destruct (loc_travel_time nw (Station l1) (Station l2)) as [tv|].
      * rewrite Z.leb_le. split; [intros [H1 H2]; split; auto; exists tv; split; auto; lia | intros [H1 (t2 & Ht & H2)]; inversion Ht; subst; split; auto; lia].
      * split; [intros [_ H]; discriminate | intros [_ (t2 & Ht & _)]; discriminate].
  - destruct n1, n2; simpl in *; try discriminate; unfold can_reach_nodes; simpl; intuition discriminate.
  - destruct n1, n2; simpl in *; try discriminate; unfold can_reach_nodes; simpl; intuition discriminate.
  - destruct n1, n2; simpl in *; try discriminate; unfold can_reach_nodes; simpl; intuition discriminate.
Qed.

(** ** Reachability implies chronological order (used to justify the range cuts) *)
Hypothesis WF : net_wf_b nw = true.

Lemma wf_parts :
  (forall id n, In (id, n) (nw_nodes nw) -> node_wf n = true) /\ dh_nonneg nw = true /\ params_nonneg nw = true /\
  (forall ty, In ty (type_ids nw) ->
     keys_ok (start_time nw) (lookup_sorted ty (nw_type_by_start nw)) = true /\
     keys_ok (end_time nw) (lookup_sorted ty (nw_type_by_end nw)) = true /\
     (forall x, In x (map snd (lookup_sorted ty (nw_type_by_start nw))) <-> In x (type_nodes nw ty)) /\
     (forall x, In x (map snd (lookup_sorted ty (nw_type_by_end nw))) <-> In x (type_nodes nw ty)) /\
     NoDup (map snd (lookup_sorted ty (nw_type_by_start nw))) /\
     NoDup (map snd (lookup_sorted ty (nw_type_by_end nw))) /\
     (forall n, In n (type_nodes nw ty) -> (nid_rank n = 0 -> 0 <= nid_idx n) /\ nid_idx n <= 65535)).
Proof.
  unfold net_wf_b in WF. rewrite !andb_true_iff in WF. destruct WF as [[[H1 H2] H3] H4].
  split; [|split; [exact H2|split; [exact H3|]]].
  - intros id n Hin. rewrite forallb_forall in H1. apply (H1 (id, n) Hin).
  - intros ty Hty. rewrite forallb_forall in H4. specialize (H4 ty Hty). rewrite !andb_true_iff in H4.
    destruct H4 as [[[[[[K1 K2] S1] S2] N1] N2] I].
    split; [exact K1|]. split; [exact K2|]. split; [apply same_set_iff, S1|]. split; [apply same_set_iff, S2|].
    split; [apply nodup_nid_iff, N1|]. split; [apply nodup_nid_iff, N2|].
    intros n Hn. rewrite forallb_forall in I. specialize (I n Hn).
    rewrite andb_true_iff, orb_true_iff, negb_true_iff in I. destruct I as [I J]. split; [|lia].
    intros Hr. destruct I as [I|I]; [apply Z.eqb_neq in I; lia | lia].
Qed.

Lemma travel_nonneg a b t : loc_travel_time nw a b = Len t -> 0 <= t.
Proof.
  destruct wf_parts as (_ & Hd & _).
  unfold loc_travel_time, dh_entry. destruct a as [x|], b as [y|]; try discriminate.
  destruct (nth_error (nw_dh nw) (Z.to_nat x)) as [row|] eqn:Er; [|intros H; inversion H; lia].
  destruct (nth_error row (Z.to_nat y)) as [[d tv]|] eqn:Ee; [|intros H; inversion H; lia].
  intros ->. unfold dh_nonneg in Hd. rewrite forallb_forall in Hd.
  apply nth_error_In in Er. specialize (Hd row Er). rewrite forallb_forall in Hd.
  apply nth_error_In in Ee. specialize (Hd _ Ee). simpl in Hd. lia.
Qed.

Lemma dt_leb_earliest x : dt_leb Earliest x = true.
Proof. destruct x; reflexivity. Qed.
Lemma dt_leb_latest x : dt_leb x Latest = true.
Proof. destruct x; reflexivity. Qed.

Lemma can_reach_nodes_le n1 n2 :
  node_wf n1 = true -> node_wf n2 = true ->
  can_reach_nodes nw n1 n2 = true -> dt_leb (n_end_time n1) (n_start_time n2) = true.
Proof.
  intros W1 W2 H.
  destruct wf_parts as (_ & _ & Hp & _). unfold params_nonneg in Hp. fold P in Hp.
  rewrite andb_true_iff, !Z.leb_le in Hp. destruct Hp as [Hp1 Hp2].
  destruct (is_activity n1) eqn:A1, (is_activity n2) eqn:A2.
  - destruct (act_fields _ A1 W1) as (a1 & e & la & l1 & _ & E1 & _ & E3).
    destruct (act_fields _ A2 W2) as (s & b2 & l2 & lb & E2 & _ & E4 & _).
    rewrite (act_can_reach n1 n2 e s l1 l2) in H by auto. rewrite E1, E2. apply dt_leb_point.
    fold P in H. destruct (l1 =? l2).
    + apply Z.leb_le in H. lia.
    + rewrite andb_true_iff in H. destruct H as [_ H].
      destruct (loc_travel_time nw (Station l1) (Station l2)) as [tv|] eqn:Et; [|discriminate].
      apply travel_nonneg in Et. apply Z.leb_le in H. lia.
  - destruct n1, n2; simpl in *; try discriminate; auto using dt_leb_latest.
  - destruct n1, n2; simpl in *; try discriminate; auto using dt_leb_earliest.
  - destruct n1, n2; simpl in *; try discriminate; auto using dt_leb_earliest, dt_leb_latest.
Qed.

Definition known (n : node_id) : Prop := exists x, In (n, x) (nw_nodes nw) /\ nd nw n = x.

Lemma nd_wf n : node_wf (nd nw n) = true.
Proof.
  destruct wf_parts as (Hn & _). unfold nd.
  destruct (assoc nid_eqb n (nw_nodes nw)) eqn:E; [|reflexivity].
  apply (assoc_in _ nid_eqb_eq) in E. eapply Hn; eauto.
Qed.

Lemma can_reach_le a b : can_reach nw a b = true -> dt_leb (end_time nw a) (start_time nw b) = true.
Proof. unfold can_reach, end_time, start_time. apply can_reach_nodes_le; apply nd_wf. Qed.

Theorem can_reach_iff a b : can_reach nw a b = true <-> Reach nw (nd nw a) (nd nw b).
Proof. unfold can_reach. apply can_reach_nodes_iff; apply nd_wf. Qed.

(** ** successors / predecessors *)
Lemma keys_ok_in f l k : keys_ok f l = true -> In k l -> fst k = f (snd k).
Proof.
  unfold keys_ok. rewrite forallb_forall. intros H Hin. specialize (H k Hin).
  unfold dt_eqb in H. destruct (dt_cmp (fst k) (f (snd k))) eqn:E; try discriminate. now apply dt_cmp_eq.
Qed.

Theorem successors_exact ty n m :
  In ty (type_ids nw) ->
  (In m (successors nw ty n) <-> In m (type_nodes nw ty) /\ can_reach nw n m = true).
Proof.
  intros Hty. destruct wf_parts as (_ & _ & _ & Ht). destruct (Ht ty Hty) as (Ks & _ & Ss & _ & _ & _ & Hidx).
  unfold successors. rewrite in_map_iff. split.
  - intros (k & <- & Hk). apply filter_In in Hk. destruct Hk as [Hin Hc]. rewrite andb_true_iff in Hc.
    split; [apply Ss, in_map; auto | tauto].
  - intros [Hm Hc]. apply Ss in Hm as Hm'. apply in_map_iff in Hm'. destruct Hm' as (k & <- & Hin).
    exists k; split; auto. apply filter_In; split; auto. rewrite Hc, andb_true_r.
    pose proof (keys_ok_in _ _ _ Ks Hin) as Hk. apply can_reach_le in Hc.
    unfold key_cmp; simpl. rewrite Hk. unfold dt_leb in Hc.
    destruct (dt_cmp (end_time nw n) (start_time nw (snd k))) eqn:E; simpl; auto; try discriminate.
    destruct (Hidx _ Hm) as [Hidx' _].
    unfold smallest, nid_cmp. simpl.
    destruct (snd k) eqn:Es; simpl; auto.
    specialize (Hidx' eq_refl). change (0 <= i) in Hidx'.
    destruct i; auto; lia.
Qed.

Theorem successors_nodup ty n : In ty (type_ids nw) -> NoDup (successors nw ty n).
Proof.
  intros Hty. destruct wf_parts as (_ & _ & _ & Ht). destruct (Ht ty Hty) as (_ & _ & _ & _ & Nd & _).
  unfold successors. remember (lookup_sorted ty (nw_type_by_start nw)) as l. clear Heql.
  induction l as [|k l IH]; simpl; [constructor|]. inversion Nd; subst.
  match goal with |- context [if ?c then _ else _] => destruct c end; simpl; auto.
  constructor; auto. intros Hin. apply H1. apply in_map_iff in Hin. destruct Hin as (k' & E & Hk').
  apply filter_In in Hk'. rewrite <- E. apply in_map. tauto.
Qed.

Theorem predecessors_exact ty n m :
  In ty (type_ids nw) ->
  (In m (predecessors nw ty n) <-> In m (type_nodes nw ty) /\ can_reach nw m n = true).
Proof.
  intros Hty. destruct wf_parts as (_ & _ & _ & Ht). destruct (Ht ty Hty) as (_ & Ke & _ & Se & _ & _ & Hidx).
  unfold predecessors. rewrite in_map_iff. split.
  - intros (k & <- & Hk). apply filter_In in Hk. destruct Hk as [Hin Hc]. rewrite andb_true_iff in Hc.
    split; [apply Se, in_map; auto | tauto].
  - intros [Hm Hc]. apply Se in Hm as Hm'. apply in_map_iff in Hm'. destruct Hm' as (k & <- & Hin).
    exists k; split; auto. apply filter_In; split; auto. rewrite Hc, andb_true_r.
    pose proof (keys_ok_in _ _ _ Ke Hin) as Hk. apply can_reach_le in Hc.
    unfold key_cmp; simpl. rewrite Hk. unfold dt_leb in Hc.
    destruct (dt_cmp (end_time nw (snd k)) (start_time nw n)) eqn:E; simpl; auto; try discriminate.
    destruct (Hidx _ Hm) as [_ Hidx'].
    unfold largest, nid_cmp. destruct (snd k) eqn:Es; simpl; auto.
    change (i <= 65535) in Hidx'. destruct (Z.compare_spec i 65535); auto; lia.
Qed.

(* What the enumeration contained before the repair (exclusive bound): ties were dropped. *)
Theorem predecessors_prefix_char ty n m :
  In ty (type_ids nw) ->
  (In m (predecessors_prefix nw ty n) <->
   In m (type_nodes nw ty) /\ can_reach nw m n = true /\ dt_ltb (end_time nw m) (start_time nw n) = true).
Proof.
  intros Hty. destruct wf_parts as (_ & _ & _ & Ht). destruct (Ht ty Hty) as (_ & Ke & _ & Se & _ & _ & Hidx).
  unfold predecessors_prefix. rewrite in_map_iff. split.
  - intros (k & <- & Hk). apply filter_In in Hk. destruct Hk as [Hin Hc]. rewrite andb_true_iff in Hc.
    destruct Hc as [Hc1 Hc2]. assert (Hm : In (snd k) (type_nodes nw ty)) by (apply Se, in_map; auto).
    repeat split; auto.
    pose proof (keys_ok_in _ _ _ Ke Hin) as Hk. unfold key_cmp in Hc1. simpl in Hc1. rewrite Hk in Hc1.
    unfold dt_ltb. destruct (dt_cmp (end_time nw (snd k)) (start_time nw n)) eqn:E; simpl in Hc1; auto; try discriminate.
    exfalso. destruct (nid_cmp (snd k) smallest) eqn:En; try discriminate.
    apply nid_cmp_smallest_not_lt in En. destruct En as [E1 E2]. destruct (Hidx _ Hm) as [Hi _]. specialize (Hi E2). lia.
  - intros (Hm & Hc & Hlt). apply Se in Hm as Hm'. apply in_map_iff in Hm'. destruct Hm' as (k & <- & Hin).
    exists k; split; auto. apply filter_In; split; auto. rewrite Hc, andb_true_r.
    pose proof (keys_ok_in _ _ _ Ke Hin) as Hk. unfold key_cmp; simpl. rewrite Hk.
    unfold dt_ltb in Hlt. destruct (dt_cmp (end_time nw (snd k)) (start_time nw n)); simpl; auto; discriminate.
Qed.

Theorem predecessors_nodup ty n : In ty (type_ids nw) -> NoDup (predecessors nw ty n).
Proof.
  intros Hty. destruct wf_parts as (_ & _ & _ & Ht). destruct (Ht ty Hty) as (_ & _ & _ & _ & _ & Nd & _).
  unfold predecessors. remember (lookup_sorted ty (nw_type_by_end nw)) as l. clear Heql.
  induction l as [|k l IH]; simpl; [constructor|]. inversion Nd; subst.
  match goal with |- context [if ?c then _ else _] => destruct c end; simpl; auto.
  constructor; auto. intros Hin. apply H1. apply in_map_iff in Hin. destruct Hin as (k' & E & Hk').
  apply filter_In in Hk'. rewrite <- E. apply in_map. tauto.
Qed.
End Facts.
