(* NetSpec.v — declarative reading of property C17: the documented timing rule [Reach], the
   node records an instance prescribes [NodesOf], and the well-formedness of loaded networks. *)
From RS Require Import Base Network.

Section Spec.
Variable nw : network.
Let P := nw_params nw.

Definition is_activity (n : node) : bool := is_service n || is_maint n.

(* The README rule, on seconds. Depots: a start depot reaches everything but start depots, everything
   but end depots reaches an end depot, nothing reaches a start depot, an end depot reaches nothing. *)
Definition Reach (n1 n2 : node) : Prop :=
  match n1, n2 with
  | _, NStart _ => False
  | NEnd _, _ => False
  | NStart _, _ => True
  | _, NEnd _ => True
  | _, _ =>
      exists e s l1 l2,
        n_end_time n1 = Point e /\ n_start_time n2 = Point s /\
        n_end_loc n1 = Station l1 /\ n_start_loc n2 = Station l2 /\
        (if l1 =? l2 then e + p_min P <= s
         else p_forbid P = false /\
              exists tv, loc_travel_time nw (Station l1) (Station l2) = Len tv /\
                         e + tv + p_dht P + p_dht P <= s)
  end.

(* activities carry concrete times and stations *)
Definition node_wf (n : node) : bool :=
  match n with
  | NService s =>
      match st_dep s, st_arr s, st_origin s, st_dest s with
      | Point _, Point _, Station _, Station _ => true | _, _, _, _ => false end
  | NMaint m =>
      match ms_start m, ms_end m, ms_loc m with Point _, Point _, Station _ => true | _, _, _ => false end
  | _ => true
  end.

Definition dh_nonneg : bool :=
  forallb (fun row => forallb (fun '(_, t) => match t with Len x => 0 <=? x | DurInf => true end) row) (nw_dh nw).
Definition params_nonneg : bool := (0 <=? p_min P) && (0 <=? p_dht P).

Definition keys_ok (by_time : node_id -> datetime) (l : sorted_nodes) : bool :=
  forallb (fun k => dt_eqb (fst k) (by_time (snd k))) l.

(* type_nodes: the node set the per-type sorted maps are built from *)
Definition type_nodes (ty : Z) : list node_id :=
  service_nodes nw ty ++ nw_maint nw ++ nw_sdepots nw ++ nw_edepots nw.

Fixpoint mem_nid (n : node_id) (l : list node_id) : bool :=
  match l with [] => false | x :: r => nid_eqb n x || mem_nid n r end.
Definition same_set (a b : list node_id) : bool :=
  forallb (fun x => mem_nid x b) a && forallb (fun x => mem_nid x a) b.
Fixpoint nodup_nid (l : list node_id) : bool :=
  match l with [] => true | x :: r => negb (mem_nid x r) && nodup_nid r end.

(* executable well-formedness of a loaded network; evaluated by the driver on every loaded network and
   proved to imply the hypotheses the C17 theorems use *)
Definition net_wf_b : bool :=
  forallb (fun '(_, n) => node_wf n) (nw_nodes nw) && dh_nonneg && params_nonneg &&
  forallb (fun ty =>
     keys_ok (start_time nw) (lookup_sorted ty (nw_type_by_start nw)) &&
     keys_ok (end_time nw) (lookup_sorted ty (nw_type_by_end nw)) &&
     same_set (map snd (lookup_sorted ty (nw_type_by_start nw))) (type_nodes ty) &&
     same_set (map snd (lookup_sorted ty (nw_type_by_end nw))) (type_nodes ty) &&
     nodup_nid (map snd (lookup_sorted ty (nw_type_by_start nw))) &&
     nodup_nid (map snd (lookup_sorted ty (nw_type_by_end nw))) &&
     forallb (fun n => (negb (nid_rank n =? 0) || (0 <=? nid_idx n)) && (nid_idx n <=? 65535)) (type_nodes ty))
    (type_ids nw).
End Spec.

(** What the instance prescribes for each departure segment (independent of [load]'s index bookkeeping) *)
Definition trip_records (i : instance) : list service_trip :=
  flat_map (fun d =>
    flat_map (fun s =>
      match lookup_rseg i d s with
      | Some (r, g) =>
          [ {| st_type := r_type r; st_origin := Station (rs_origin g); st_dest := Station (rs_dest g);
               st_dep := Point (ds_dep s); st_arr := Point (ds_dep s + rs_dur g); st_dist := Dist (rs_dist g);
               st_pass := if ds_pass s =? 0 then 1 else ds_pass s; st_seated := ds_seated s;
               st_limit := rs_limit g |} ]
      | None => []
      end) (d_segs d)) (i_departures i).

Definition slot_records (i : instance) : list maint_slot :=
  map (fun s => {| ms_loc := Station (is_loc s); ms_start := Point (is_start s); ms_end := Point (is_end s);
                   ms_tracks := is_tracks s |})
      (match i_slots i with Some l => l | None => [] end).

Definition services_of (nw : network) : list service_trip :=
  flat_map (fun '(_, n) => match n with NService s => [s] | _ => [] end) (nw_nodes nw).
Definition slots_of (nw : network) : list maint_slot :=
  flat_map (fun '(_, n) => match n with NMaint m => [m] | _ => [] end) (nw_nodes nw).

(* the largest number of vehicles a covering circulation may need to start at once: every trip served by
   min(required, limit) vehicles and every maintenance track used, none of them connected *)
Definition required_capped (nw : network) (n : node_id) : Z :=
  let req := number_of_vehicles_required_to_serve nw (vehicle_type_for nw n) n in
  match maximal_formation_count_for nw n with Some l => Z.min req l | None => req end.
Definition max_vehicles (nw : network) : Z :=
  z_sum (map (required_capped nw) (all_service_nodes nw)) + z_sum (map (track_count nw) (nw_maint nw)).

(* the overflow depot can host every vehicle, for every type *)
Definition overflow_ok_b (nw : network) : bool :=
  let '(od, _, _) := nw_overflow nw in
  (max_vehicles nw <=? total_capacity_of nw od) &&
  forallb (fun ty => max_vehicles nw <=? capacity_of nw od ty) (type_ids nw).

(* activities have positive duration (part of "valid instance": route-segment duration > 0, slot end > start) *)
Definition durations_pos_b (nw : network) : bool :=
  forallb (fun '(_, n) => is_depot n || dt_ltb (n_start_time n) (n_end_time n)) (nw_nodes nw).
Definition net_ok_b (nw : network) : bool := net_wf_b nw && durations_pos_b nw.

(* the formation limit the properties speak of: the smaller of the type's and the route segment's limit *)
Definition formation_limit (nw : network) (n : node_id) : option Z :=
  omin (match vtype_of nw (vehicle_type_for nw n) with Some vt => vt_limit vt | None => None end)
       (match nd nw n with NService s => st_limit s | _ => None end).

(* service distances are finite (load always builds [Dist (rs_dist g)]) *)
Definition dists_finite_b (nw : network) : bool :=
  forallb (fun '(_, n) => match n_travel_dist n with Dist _ => true | DistInf => false end) (nw_nodes nw).
