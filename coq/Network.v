(* Network.v — executable model of model/src/{json_serialisation/mod.rs, network.rs,
   network/nodes.rs, network/depot.rs, locations.rs, vehicle_types.rs, config.rs}.
   Definitions only. One function per Rust function, same order of operations. *)
From RS Require Export Base.

(** * Instance: numeric mirror of the serde structs (strings resolved to indices, date strings to
      seconds by the case generator). *)
Record vtype := { vt_cap : Z; vt_seats : Z; vt_limit : option Z }.
Record idepot := { id_loc : Z; id_cap : Z; id_allowed : list (Z * option Z) }.
Record rseg := { rs_origin : Z; rs_dest : Z; rs_dist : Z; rs_dur : Z; rs_limit : option Z }.
Record route := { r_type : Z; r_segs : list rseg }.
Record dseg := { ds_rseg : nat; ds_dep : Z; ds_pass : Z; ds_seated : Z }.
Record departure := { d_route : nat; d_segs : list dseg }.
Record islot := { is_loc : Z; is_start : Z; is_end : Z; is_tracks : Z }.
Record params := {
  p_forbid : bool; p_min : Z; p_dht : Z; p_maxdist : Z;
  c_staff : Z; c_service : Z; c_maint : Z; c_dh : Z; c_idle : Z }.
Record instance := {
  i_types : list vtype;
  i_nlocs : nat;
  i_depots : option (list idepot);
  i_routes : list route;
  i_departures : list departure;
  i_slots : option (list islot);
  i_dh_dur : list (list Z);   (* indexed by location index *)
  i_dh_dist : list (list Z);
  i_params : params }.

(** * Nodes *)
Record service_trip := {
  st_type : Z; st_origin : loc; st_dest : loc; st_dep : datetime; st_arr : datetime;
  st_dist : dist; st_pass : Z; st_seated : Z; st_limit : option Z }.
Record maint_slot := { ms_loc : loc; ms_start : datetime; ms_end : datetime; ms_tracks : Z }.
Record depot_node := { dn_depot : Z; dn_loc : loc }.
Inductive node :=
| NStart (d : depot_node) | NService (s : service_trip) | NMaint (m : maint_slot) | NEnd (d : depot_node).

Definition is_service n := match n with NService _ => true | _ => false end.
Definition is_maint n := match n with NMaint _ => true | _ => false end.
Definition is_start_depot n := match n with NStart _ => true | _ => false end.
Definition is_end_depot n := match n with NEnd _ => true | _ => false end.
Definition is_depot n := is_start_depot n || is_end_depot n.

Definition n_start_time n :=
  match n with NService s => st_dep s | NMaint m => ms_start m | NStart _ => Earliest | NEnd _ => Latest end.
Definition n_end_time n :=
  match n with NService s => st_arr s | NMaint m => ms_end m | NStart _ => Earliest | NEnd _ => Latest end.
Definition n_duration n : res duration :=
  match n with NStart _ | NEnd _ => Ok (Len 0) | _ => dt_diff (n_end_time n) (n_start_time n) end.
Definition n_start_loc n :=
  match n with NService s => st_origin s | NMaint m => ms_loc m | NStart d | NEnd d => dn_loc d end.
Definition n_end_loc n :=
  match n with NService s => st_dest s | NMaint m => ms_loc m | NStart d | NEnd d => dn_loc d end.
Definition n_travel_dist n := match n with NService s => st_dist s | _ => Dist 0 end.

Record depot := { dp_idx : Z; dp_loc : loc; dp_total : Z; dp_allowed : list (Z * option Z) }.
Definition depot_capacity_for (d : depot) (ty : Z) : Z :=
  match assoc Z.eqb ty (dp_allowed d) with
  | Some (Some c) => Z.min c (dp_total d)
  | Some None => dp_total d
  | None => 0
  end.

Definition sorted_nodes := list (datetime * node_id).   (* keys of BTreeMap<(DateTime,NodeIdx),NodeIdx> *)
Definition key_cmp (a b : datetime * node_id) : comparison :=
  cmp_then (dt_cmp (fst a) (fst b)) (nid_cmp (snd a) (snd b)).

Record network := {
  nw_nodes : list (node_id * node);
  nw_depots : list (Z * (depot * node_id * node_id));
  nw_overflow : Z * node_id * node_id;
  nw_service : list (Z * list node_id);
  nw_maint : list node_id;
  nw_sdepots : list node_id;
  nw_edepots : list node_id;
  nw_all_by_start : sorted_nodes;
  nw_type_by_start : list (Z * sorted_nodes);
  nw_type_by_end : list (Z * sorted_nodes);
  nw_params : params;
  nw_nlocs : nat;
  nw_dh : list (list (dist * duration));  (* after capping *)
  nw_types : list vtype;                   (* index = type idx; ids_sorted = 0..n-1 *)
  nw_nservice : Z;
  nw_planning : duration }.

Section Net.
Variable nw : network.

(* [node]: nodes.get(&idx).unwrap() — a missing id is a panic *)
Definition node_of (n : node_id) : res node := unwrap_opt (assoc nid_eqb n (nw_nodes nw)).
(* total version used where the Rust code has already unwrapped the same id *)
Definition dummy_node : node := NStart {| dn_depot := 0; dn_loc := Nowhere |}.
Definition nd (n : node_id) : node :=
  match assoc nid_eqb n (nw_nodes nw) with Some x => x | None => dummy_node end.
Definition has_node (n : node_id) : bool :=
  match assoc nid_eqb n (nw_nodes nw) with Some _ => true | None => false end.

Definition type_ids : list Z := map Z.of_nat (seq 0 (length (nw_types nw))).
Definition vtype_of (ty : Z) : option vtype :=
  if ty <? 0 then None else nth_error (nw_types nw) (Z.to_nat ty).

(** locations.rs *)
Definition dh_entry (a b : loc) : option (dist * duration) :=
  match a, b with
  | Station x, Station y =>
      match nth_error (nw_dh nw) (Z.to_nat x) with
      | Some row => nth_error row (Z.to_nat y)
      | None => None
      end
  | _, _ => None
  end.
(* [distance]/[travel_time]: Station×Station looks the matrix up (a missing entry is an unwrap
   panic in the code; all generated instances have full matrices, and [net_wf] demands it), otherwise
   Infinity if one side is Nowhere. *)
Definition loc_distance (a b : loc) : dist :=
  match a, b with
  | Station _, Station _ => match dh_entry a b with Some (d, _) => d | None => Dist 0 end
  | _, _ => DistInf
  end.
Definition loc_travel_time (a b : loc) : duration :=
  match a, b with
  | Station _, Station _ => match dh_entry a b with Some (_, t) => t | None => Len 0 end
  | _, _ => DurInf
  end.

(** network.rs getters *)
Definition start_time n := n_start_time (nd n).
Definition end_time n := n_end_time (nd n).
Definition dead_head_time_between a b := loc_travel_time (n_end_loc (nd a)) (n_start_loc (nd b)).
Definition dead_head_distance_between a b := loc_distance (n_end_loc (nd a)) (n_start_loc (nd b)).

Definition shunting_no_dh (n1 n2 : node) : duration :=
  match n1, n2 with
  | (NService _ | NMaint _), (NService _ | NMaint _) => Len (p_min (nw_params nw))
  | _, _ => Len 0
  end.
Definition shunting_dh (n1 n2 : node) : duration :=
  let prev := match n1 with NService _ | NMaint _ => Len (p_dht (nw_params nw)) | _ => Len 0 end in
  let next := match n2 with NService _ | NMaint _ => Len (p_dht (nw_params nw)) | _ => Len 0 end in
  dur_add prev next.
Definition minimal_duration_nodes (n1 n2 : node) : duration :=
  if loc_eqb (n_end_loc n1) (n_start_loc n2) then shunting_no_dh n1 n2
  else dur_add (loc_travel_time (n_end_loc n1) (n_start_loc n2)) (shunting_dh n1 n2).
Definition minimal_duration_between a b := minimal_duration_nodes (nd a) (nd b).

Definition can_reach_nodes (n1 n2 : node) : bool :=
  if is_start_depot n2 || is_end_depot n1 then false
  else if is_start_depot n1 || is_end_depot n2 then true
  else if p_forbid (nw_params nw) && negb (loc_eqb (n_end_loc n1) (n_start_loc n2)) then false
  else dt_leb (dt_add (n_end_time n1) (minimal_duration_nodes n1 n2)) (n_start_time n2).
Definition can_reach (a b : node_id) : bool := can_reach_nodes (nd a) (nd b).

(* idle_time_between; the "negative idle time" branch returns ZERO *)
Definition idle_time_between (a b : node_id) : res duration :=
  if is_start_depot (nd a) || is_end_depot (nd b) then Ok (Len 0)
  else
    let idle_start := dt_add (end_time a) (dead_head_time_between a b) in
    let idle_end := start_time b in
    if dt_leb idle_start idle_end then dt_diff idle_end idle_start else Ok (Len 0).

Definition lookup_sorted (ty : Z) (l : list (Z * sorted_nodes)) : sorted_nodes :=
  match assoc Z.eqb ty l with Some s => s | None => [] end.

(* successors: range((end_time(node), smallest)..) over the start-sorted map, filtered by can_reach *)
Definition smallest : node_id := SD 0.
Definition successors (ty : Z) (n : node_id) : list node_id :=
  let lo := (end_time n, smallest) in
  map snd (filter (fun k => match key_cmp lo k with Gt => false | _ => true end && can_reach n (snd k))
                  (lookup_sorted ty (nw_type_by_start nw))).
(* predecessors: range(..=(start_time(node), largest)) over the end-sorted map (inclusive upper bound;
   Idx = u16, so largest = EndDepot(65535)) *)
Definition largest : node_id := ED 65535.
Definition predecessors (ty : Z) (n : node_id) : list node_id :=
  let hi := (start_time n, largest) in
  map snd (filter (fun k => match key_cmp k hi with Gt => false | _ => true end && can_reach (snd k) n)
                  (lookup_sorted ty (nw_type_by_end nw))).
(* the enumeration as it was before the repair "fix: predecessors() must include nodes ending exactly at
   the start time" (exclusive bound); kept for the refutation witness in X_C17.v *)
Definition predecessors_prefix (ty : Z) (n : node_id) : list node_id :=
  let hi := (start_time n, smallest) in
  map snd (filter (fun k => match key_cmp k hi with Lt => true | _ => false end && can_reach (snd k) n)
                  (lookup_sorted ty (nw_type_by_end nw))).

Definition service_nodes (ty : Z) : list node_id :=
  match assoc Z.eqb ty (nw_service nw) with Some l => l | None => [] end.
Definition all_service_nodes : list node_id :=
  filter (fun n => is_service (nd n)) (map snd (nw_all_by_start nw)).
Definition coverable_nodes : list node_id := all_service_nodes ++ nw_maint nw.

Definition depot_entry (d : Z) : option (depot * node_id * node_id) := assoc Z.eqb d (nw_depots nw).
Definition capacity_of (d ty : Z) : Z :=
  match depot_entry d with Some (dp, _, _) => depot_capacity_for dp ty | None => 0 end.
Definition total_capacity_of (d : Z) : Z :=
  match depot_entry d with Some (dp, _, _) => dp_total dp | None => 0 end.
Definition get_depot_idx (n : node_id) : Z :=
  match nd n with NStart d | NEnd d => dn_depot d | _ => 0 end.
Definition get_start_depot_node (d : Z) : node_id :=
  match depot_entry d with Some (_, s, _) => s | None => SD 0 end.
Definition get_end_depot_node (d : Z) : node_id :=
  match depot_entry d with Some (_, _, e) => e | None => ED 0 end.

Definition vehicle_type_for (n : node_id) : Z := match nd n with NService s => st_type s | _ => 0 end.
Definition compatible_with_vehicle_type (n : node_id) (ty : Z) : bool :=
  if is_service (nd n) then vehicle_type_for n =? ty else true.
Definition passengers_of n := match nd n with NService s => st_pass s | _ => 0 end.
Definition seated_of n := match nd n with NService s => st_seated s | _ => 0 end.
Definition track_count n := match nd n with NMaint m => ms_tracks m | _ => 0 end.

Definition number_of_vehicles_required_to_serve (ty : Z) (n : node_id) : Z :=
  match vtype_of ty with
  | Some vt => Z.max (div_ceil (passengers_of n) (vt_cap vt)) (div_ceil (seated_of n) (vt_seats vt))
  | None => 0
  end.

(* maximal_formation_count_for: the smaller of the type's and the route segment's limit, or the one given
   (since the repair "fix: maximal_formation_count_for ignored the route segment's limit ...") *)
Definition maximal_formation_count_for (n : node_id) : option Z :=
  let limit_of_type := match vtype_of (vehicle_type_for n) with Some vt => vt_limit vt | None => None end in
  let limit_of_node := match nd n with NService s => st_limit s | _ => None end in
  match limit_of_type, limit_of_node with
  | Some a, Some b => Some (Z.min a b)
  | Some a, None => Some a
  | None, b => b
  end.
(* before that repair: None whenever the type has no limit *)
Definition maximal_formation_count_for_prefix (n : node_id) : option Z :=
  let limit_of_type := match vtype_of (vehicle_type_for n) with Some vt => vt_limit vt | None => None end in
  let limit_of_node := match nd n with NService s => st_limit s | _ => None end in
  match limit_of_type with
  | Some l => Some (Z.min l (match limit_of_node with Some x => x | None => l end))
  | None => None
  end.

Definition start_depots_sorted_by_distance_to (l : loc) : list node_id :=
  sort_by (fun a b => dist_leb (loc_distance (n_start_loc (nd a)) l) (loc_distance (n_start_loc (nd b)) l))
          (nw_sdepots nw).
Definition end_depots_sorted_by_distance_from (l : loc) : list node_id :=
  sort_by (fun a b => dist_leb (loc_distance l (n_start_loc (nd a))) (loc_distance l (n_start_loc (nd b))))
          (nw_edepots nw).

Definition maintenance_considered : bool := match nw_maint nw with [] => false | _ => true end.

Definition cmp_start_time (a b : node_id) : comparison :=
  cmp_then (dt_cmp (start_time a) (start_time b))
   (cmp_then (dt_cmp (end_time a) (end_time b)) (nid_cmp a b)).
End Net.

(** * Loading (json_serialisation/mod.rs + Network::new) *)
Section Load.
Variable i : instance.

Definition lookup_rseg (d : departure) (s : dseg) : option (route * rseg) :=
  match nth_error (i_routes i) (d_route d) with
  | Some r => match nth_error (r_segs r) (ds_rseg s) with Some g => Some (r, g) | None => None end
  | None => None
  end.

(* determine_planning_days *)
Definition time_span : res (datetime * datetime) :=
  let slots := match i_slots i with Some l => l | None => [] end in
  let acc0 := fold_left (fun '(e, l) s => (dt_min e (Point (is_start s)), dt_max l (Point (is_end s))))
                        slots (Latest, Earliest) in
  fold_left (fun acc d =>
     fold_left (fun acc s =>
        do (e, l) <- acc;
        do (_, g) <- unwrap_opt (lookup_rseg d s);
        Ok (dt_min e (Point (ds_dep s)), dt_max l (Point (ds_dep s + rs_dur g))))
       (d_segs d) acc)
    (i_departures i) (Ok acc0).

Definition planning_of (e l : datetime) : res duration :=
  do d <- dt_diff l e;
  match d with
  | Len s => Ok (Len (div_ceil s 86400 * 86400))
  | DurInf => Panic
  end.

Definition capped_dh (planning : duration) : list (list (dist * duration)) :=
  map (fun '(drow, trow) =>
         map (fun '(dm, ts) =>
                (Dist (if MAX_DISTANCE <? dm then MAX_DISTANCE else dm),
                 if dur_leb (Len ts) planning then Len ts else planning))
             (combine drow trow))
      (combine (i_dh_dist i) (i_dh_dur i)).

(* create_service_trips: one trip per departure segment, in departure order (grouped by type later) *)
Definition trip_of (d : departure) (s : dseg) : option service_trip :=
  match lookup_rseg d s with
  | Some (r, g) =>
      Some {| st_type := r_type r; st_origin := Station (rs_origin g); st_dest := Station (rs_dest g);
              st_dep := Point (ds_dep s); st_arr := Point (ds_dep s + rs_dur g);
              st_dist := Dist (rs_dist g);
              st_pass := if ds_pass s =? 0 then 1 else ds_pass s;
              st_seated := ds_seated s; st_limit := rs_limit g |}
  | None => None
  end.
Definition trip_opts : list (option service_trip) :=
  flat_map (fun d => map (trip_of d) (d_segs d)) (i_departures i).
Definition all_trips : res (list service_trip) :=
  if forallb (fun o => match o with Some _ => true | None => false end) trip_opts
  then Ok (flat_map (fun o => match o with Some t => [t] | None => [] end) trip_opts)
  else Panic.

(* Network::vehicle_upper_bound *)
Definition trip_required (s : service_trip) : Z :=
  match (if st_type s <? 0 then None else nth_error (i_types i) (Z.to_nat (st_type s))) with
  | Some vt => Z.max (div_ceil (st_pass s) (vt_cap vt)) (div_ceil (st_seated s) (vt_seats vt))
  | None => 0
  end.
Definition vehicle_upper_bound (trips : list service_trip) (slots : list islot) : Z :=
  z_sum (map trip_required trips) + z_sum (map is_tracks slots).

Definition ntypes : nat := length (i_types i).
Definition tids : list Z := map Z.of_nat (seq 0 ntypes).

(* create_depots; [perm] is the HashMap iteration order of the locations when depots are absent *)
Definition make_depots (perm : list Z) (nservice : Z) : list depot :=
  match i_depots i with
  | Some ds =>
      map (fun '(k, d) => {| dp_idx := Z.of_nat k; dp_loc := Station (id_loc d); dp_total := id_cap d;
                             dp_allowed := id_allowed d |})
          (combine (seq 0 (length ds)) ds)
  | None =>
      map (fun '(k, l) => {| dp_idx := Z.of_nat k; dp_loc := Station l; dp_total := nservice;
                             dp_allowed := map (fun t => (t, None)) tids |})
          (combine (seq 0 (length perm)) perm)
  end.

Definition insert_key (k : datetime * node_id) (l : sorted_nodes) : sorted_nodes :=
  insert_by (le_of_cmp key_cmp) k l.

Definition load (perm : list Z) : res network :=
  do (e0, l0) <- time_span;
  do planning0 <- planning_of e0 l0;
  do trips <- all_trips;
  let nservice := Z.of_nat (length trips) in
  let slots := match i_slots i with Some l => l | None => [] end in
  let vub := vehicle_upper_bound trips slots in
  let depots0 := make_depots perm (Z.max nservice vub) in
  let lim vt := match vt_limit vt with Some l => l | None => 1 end in
  let max_fc := match i_types i with [] => 1 | vt :: r => fold_left Z.max (map lim r) (lim vt) end in
  let overflow_idx := Z.of_nat (length depots0) in
  let overflow := {| dp_idx := overflow_idx; dp_loc := Nowhere; dp_total := Z.max (nservice * max_fc) vub;
                     dp_allowed := map (fun t => (t, None)) tids |} in
  let depots := depots0 ++ [overflow] in
  (* depot nodes *)
  let dnodes := map (fun '(k, d) =>
      let s := SD (2 * Z.of_nat k) in let en := ED (2 * Z.of_nat k + 1) in
      (d, s, en)) (combine (seq 0 (length depots)) depots) in
  let depot_node_entries := flat_map (fun '(d, s, en) =>
      [(s, NStart {| dn_depot := dp_idx d; dn_loc := dp_loc d |});
       (en, NEnd {| dn_depot := dp_idx d; dn_loc := dp_loc d |})]) dnodes in
  let sdeps := map (fun '(_, s, _) => s) dnodes in
  let edeps := map (fun '(_, _, en) => en) dnodes in
  let c0 := 2 * Z.of_nat (length depots) in
  (* service nodes, numbered per type in type order *)
  let trips_by_type := flat_map (fun t => filter (fun s => st_type s =? t) trips) tids in
  let svc_ids := map (fun k => SV (c0 + Z.of_nat k)) (seq 0 (length trips_by_type)) in
  let svc_entries := combine svc_ids (map NService trips_by_type) in
  let svc_lists := map (fun t => (t, map fst (filter (fun '(_, n) =>
                         match n with NService s => st_type s =? t | _ => false end) svc_entries))) tids in
  let c1 := c0 + Z.of_nat (length trips_by_type) in
  let mids := map (fun k => MT (c1 + Z.of_nat k)) (seq 0 (length slots)) in
  let m_entries := combine mids (map (fun s => NMaint {| ms_loc := Station (is_loc s); ms_start := Point (is_start s);
                                                          ms_end := Point (is_end s); ms_tracks := is_tracks s |}) slots) in
  let nodes := depot_node_entries ++ svc_entries ++ m_entries in
  let pre := {| nw_nodes := nodes; nw_depots := []; nw_overflow := (0, SD 0, ED 0); nw_service := [];
                nw_maint := []; nw_sdepots := []; nw_edepots := []; nw_all_by_start := [];
                nw_type_by_start := []; nw_type_by_end := []; nw_params := i_params i; nw_nlocs := i_nlocs i;
                nw_dh := capped_dh planning0; nw_types := i_types i; nw_nservice := nservice;
                nw_planning := planning0 |} in
  let srt := sort_by (le_of_cmp (cmp_start_time pre)) in
  let svc_sorted := map (fun '(t, ids) => (t, srt ids)) svc_lists in
  let maint_sorted := srt mids in
  let sdeps_sorted := srt sdeps in
  let edeps_sorted := srt edeps in
  let all_by_start := fold_left (fun acc '(n, x) => insert_key (n_start_time x, n) acc) nodes [] in
  let type_nodes t := service_nodes pre t in
  let by_start := map (fun '(t, ids) =>
      (t, fold_left (fun acc n => insert_key (start_time pre n, n) acc) (ids ++ maint_sorted ++ sdeps_sorted ++ edeps_sorted) []))
      svc_sorted in
  let by_end := map (fun '(t, ids) =>
      (t, fold_left (fun acc n => insert_key (end_time pre n, n) acc) (ids ++ maint_sorted ++ sdeps_sorted ++ edeps_sorted) []))
      svc_sorted in
  (* planning days recomputed from nodes *)
  let '(e1, l1) := fold_left (fun '(e, l) '(_, x) =>
        if is_depot x then (e, l) else (dt_min e (n_start_time x), dt_max l (n_end_time x)))
      nodes (Latest, Earliest) in
  do planning1 <- planning_of e1 l1;
  let dentry := map (fun '(d, s, en) => (dp_idx d, (d, s, en))) dnodes in
  Ok {| nw_nodes := nodes; nw_depots := dentry;
        nw_overflow := (overflow_idx, SD (2 * overflow_idx), ED (2 * overflow_idx + 1));
        nw_service := svc_sorted; nw_maint := maint_sorted; nw_sdepots := sdeps_sorted; nw_edepots := edeps_sorted;
        nw_all_by_start := all_by_start; nw_type_by_start := by_start; nw_type_by_end := by_end;
        nw_params := i_params i; nw_nlocs := i_nlocs i; nw_dh := capped_dh planning0; nw_types := i_types i;
        nw_nservice := nservice; nw_planning := planning1 |}.
End Load.
