(* NoPanicFactsA.v — C11 / C06 "never panics", part A: candidate enumeration, improve_depot_and_recompute_transitions,
   and the two simple candidates (remove_single_node, add_trip_for_hitch_hiking). Statements in NoPanicStmts.v. *)
From Coq Require Import Sorted Permutation.
From RS Require Import Base BaseFacts Network NetSpec NetFacts Tour TourSpec TourStmts TourFacts TourValidFacts
  TourExactStmts TourExactFacts SchedObs Transition TransSpec TransStmts TransFacts TransFacts2 Schedule SchedInv
  SchedStruct SchedCostsFacts SchedListFacts SchedTransFacts SchedUnservedFacts SchedUsageFacts SchedToursFacts SchedExactFacts Swaps SwapsStmts2
  PipelineSched RenderStmts NoPanicStmts LoadStmts LoadFacts SwapsFacts2 SchedFormsFacts SchedFormLimFacts SchedViolFacts.

(** * generic helpers *)
Lemma no_crash_ok {A} (r : res A) a : r = Ok a -> no_crash r.
Proof. intros ->. split; discriminate. Qed.
Lemma no_crash_err {A} : no_crash (@Err A).
Proof. split; discriminate. Qed.
Lemma no_crash_bind {A B} (r : res A) (f : A -> res B) :
  no_crash r -> (forall a, r = Ok a -> no_crash (f a)) -> no_crash (bind r f).
Proof. intros [H1 H2] H. destruct r; cbn [bind]; auto; try apply no_crash_err; congruence. Qed.

(* a fold over a result-valued accumulator is total when each step is *)
Lemma fold_total {S V} (f : res S -> V -> res S) (Q : S -> Prop) (l : list V) :
  (forall s v, In v l -> Q s -> exists s', f (Ok s) v = Ok s' /\ Q s') ->
  forall s, Q s -> exists s', fold_left f l (Ok s) = Ok s' /\ Q s'.
Proof.
  induction l as [|v l IH]; intros H s Qs; cbn [fold_left]; [exists s; auto|].
  destruct (H s v (or_introl eq_refl) Qs) as (s1 & E1 & Q1). rewrite E1.
  apply IH; [|exact Q1]. intros s0 v0 Hin. apply H. right. exact Hin.
Qed.

(* the same with the position in the list available to the invariant *)
Lemma fold_total_pre {S V} (f : res S -> V -> res S) (Q : list V -> S -> Prop) :
  forall (l done : list V),
  (forall pre v post s, done ++ l = pre ++ v :: post -> (length done <= length pre)%nat -> Q pre s ->
     exists s', f (Ok s) v = Ok s' /\ Q (pre ++ [v]) s') ->
  forall s, Q done s -> exists s', fold_left f l (Ok s) = Ok s' /\ Q (done ++ l) s'.
Proof.
  induction l as [|v l IH]; intros done H s Qs; cbn [fold_left].
  - rewrite app_nil_r. exists s; auto.
  - destruct (H done v l s eq_refl (le_n _) Qs) as (s1 & E1 & Q1). rewrite E1.
    destruct (IH (done ++ [v])) with (s := s1) as (s2 & E2 & Q2); [|exact Q1|].
    + intros pre v0 post s0 E L. apply (H pre v0 post s0); [rewrite <- E, <- app_assoc; reflexivity|].
      rewrite app_length in L. cbn [length] in L. lia.
    + exists s2. rewrite <- app_assoc in Q2. auto.
Qed.

Lemma dt_diff_ok a b : dt_leb b a = true -> exists d, dt_diff a b = Ok d.
Proof.
  unfold dt_diff. intros H. rewrite H. destruct a, b; cbn in *; eauto; discriminate.
Qed.

Lemma combine_seq_nth {A} (l : list A) : forall a i x, In (i, x) (combine (seq a (length l)) l) ->
  (a <= i)%nat /\ nth_error l (i - a) = Some x.
Proof.
  induction l as [|y l IH]; intros a i x H; cbn in H; [destruct H|].
  destruct H as [H|H].
  - inversion H; subst. rewrite Nat.sub_diag. split; [lia|reflexivity].
  - apply IH in H. destruct H as [L E]. split; [lia|].
    replace (i - a)%nat with (S (i - S a)) by lia. exact E.
Qed.

Lemma in_skipn_nth {A} (l : list A) : forall i x, In x (skipn i l) -> exists j, (i <= j)%nat /\ nth_error l j = Some x.
Proof.
  induction l as [|y l IH]; intros i x H.
  - rewrite skipn_nil in H. destruct H.
  - destruct i as [|i]; cbn [skipn] in H.
    + destruct (In_nth_error _ _ H) as (j & Ej). exists j. split; [lia|exact Ej].
    + destruct (IH i x H) as (j & L & E). exists (S j). split; [lia|exact E].
Qed.

Lemma index_of_in (n : node_id) l : In n l -> exists k, pos_of l n = Some k /\ nth_error l k = Some n /\
  forall j, (j < k)%nat -> nth j l (SD 0) <> n.
Proof.
  unfold pos_of. induction l as [|a l IH]; intros H; [destruct H|]. cbn [index_of].
  destruct (nid_eqb n a) eqn:E.
  - apply nid_eqb_eq in E. subst. exists 0%nat. repeat split; auto. intros j Hj. lia.
  - destruct H as [->|H]; [rewrite nid_eqb_refl in E; discriminate|].
    destruct (IH H) as (k & E1 & E2 & E3). rewrite E1. exists (S k). repeat split; auto.
    intros [|j] Hj; cbn [nth].
    + intros ->. rewrite nid_eqb_refl in E. discriminate.
    + apply E3. lia.
Qed.

(** * the network facts the subtractions and unwraps need beyond [net_fine]: all true of a network loaded from an
     instance whose numeric fields are unsigned (the code's u64 / Distance / Cost types) *)
Definition costs_nonneg_b (nw : network) : bool :=
  let P := nw_params nw in
  (0 <=? c_service P) && (0 <=? c_maint P) && (0 <=? c_dh P) && (0 <=? c_idle P) &&
  (0 <=? nw_nservice nw * c_staff P) && (0 <=? planning_sec nw).
Definition dist_nonneg_b (d : dist) : bool := match d with Dist m => 0 <=? m | DistInf => true end.
Definition dists_nonneg_b (nw : network) : bool :=
  forallb (fun '(_, n) => dist_nonneg_b (n_travel_dist n)) (nw_nodes nw) &&
  forallb (fun row => forallb (fun '(d, _) => dist_nonneg_b d) row) (nw_dh nw).
(* the depot listings hold depots of the right kind, and there is an end depot *)
Definition depots_listed_b (nw : network) : bool :=
  forallb (fun d => is_start_depot (nd nw d)) (nw_sdepots nw) &&
  forallb (fun d => is_end_depot (nd nw d)) (nw_edepots nw) &&
  negb (Nat.eqb (length (nw_edepots nw)) 0).
(* every activity node has a formation slot: it is listed among the coverable nodes; so are the per-type service lists *)
Definition nodes_coverable_b (nw : network) : bool :=
  forallb (fun '(n, x) => negb (is_service x || is_maint x) || mem_nid n (coverable_nodes nw)) (nw_nodes nw) &&
  forallb (fun ty => forallb (fun n => mem_nid n (coverable_nodes nw)) (service_nodes nw ty)) (type_ids nw).
Definition net_extra_b (nw : network) : bool :=
  costs_nonneg_b nw && dists_nonneg_b nw && depots_listed_b nw && nodes_coverable_b nw.

(** * arithmetic: subtracting a part from a sum of non-negative parts never underflows *)
Definition dnn (d : dist) : Prop := match d with Dist m => 0 <= m | DistInf => True end.
Definition lnn (d : duration) : Prop := exists z, d = Len z /\ 0 <= z.
Lemma dnn_add a b : dnn a -> dnn b -> dnn (dist_add a b).
Proof. destruct a, b; cbn; auto; lia. Qed.
Lemma lnn_add a b : lnn a -> lnn b -> lnn (dur_add a b).
Proof. intros (x & -> & Hx) (y & -> & Hy). exists (x + y). split; [reflexivity|lia]. Qed.
Lemma dist_sub_mid a b c : dnn a -> dnn c -> exists r, dist_sub (dist_add a (dist_add b c)) b = Ok r.
Proof.
  destruct a as [x|], b as [y|], c as [z|]; cbn; eauto. intros Hx Hz.
  destruct (Z.leb_spec y (x + (y + z))); [eauto|lia].
Qed.
Lemma dur_sub_mid a b c : lnn a -> lnn b -> lnn c -> exists r, dur_sub (dur_add a (dur_add b c)) b = Ok r.
Proof.
  intros (x & -> & Hx) (y & -> & Hy) (z & -> & Hz). cbn. unfold dur_sub, dur_leb.
  destruct (Z.leb_spec y (x + (y + z))); [eauto|lia].
Qed.
Lemma z_sub_cost_total a b : b <= a -> exists c, z_sub_cost a b = Ok c /\ c = a - b.
Proof. intros H. unfold z_sub_cost. destruct (Z.leb_spec b a); [eauto|lia]. Qed.
Lemma dt_diff_nn a b d : dt_diff a b = Ok d -> d = DurInf \/ lnn d.
Proof.
  unfold dt_diff. destruct (dt_leb b a) eqn:L; [|discriminate].
  destruct a as [|x|], b as [|y|]; cbn in L; try discriminate L; cbn; intros H; inversion H; subst; auto; right;
    try (exists 0; split; [reflexivity|lia]).
  apply dt_leb_point in L. exists (x - y). split; [reflexivity|lia].
Qed.

(* the part of [Good] that the tour / usage / rotation bookkeeping needs (formations are separate) *)
Record GoodI (nw : network) (s : schedule) : Prop := {
  gi_tours : ToursOK nw s; gi_listing : ListingOK nw s; gi_usage : UsageOK nw s; gi_trans : TransOK nw s;
  gi_exact : ToursExact nw s; gi_costs : CostsOK nw s }.
Lemma Good_I nw s : Good nw s -> GoodI nw s.
Proof. intros G. destruct G. constructor; assumption. Qed.

Section A.
Variable nw : network.
Hypothesis NF : net_fine nw.

Let OKB : net_ok_b nw = true := proj1 NF.
Lemma WF : net_wf_b nw = true.
Proof. unfold net_ok_b in OKB. apply andb_true_iff in OKB. tauto. Qed.
Lemma DP : durations_pos_b nw = true.
Proof. unfold net_ok_b in OKB. apply andb_true_iff in OKB. tauto. Qed.

Notation d0 := (SD 0).
Notation st := (start_time nw).
Notation en := (end_time nw).
Notation dep := (node_is_depot nw).

(** * schedule-level lookups under the listing invariant *)
Section Look.
Variable s : schedule.
Hypothesis G : GoodI nw s.

Lemma real_in_type v : In v (vehicles_iter_all nw s) -> exists ty, In ty (type_ids nw) /\ vget v (s_vehicles s) = Some ty.
Proof.
  unfold vehicles_iter_all. intros H. apply in_flat_map in H. destruct H as (ty & Hty & Hv).
  exists ty. split; [exact Hty|]. apply (lo_ids _ _ (gi_listing _ _ G)). exact Hv.
Qed.

Lemma veh_has_tour v ty : vget v (s_vehicles s) = Some ty -> exists t, vget v (s_tours s) = Some t.
Proof.
  intros H. apply vget_in_keys in H. apply (lo_same_keys _ _ (gi_listing _ _ G)) in H.
  apply in_keys_iff in H. destruct (vget v (s_tours s)) as [t|]; [eauto|congruence].
Qed.

Lemma veh_type_in v ty : vget v (s_vehicles s) = Some ty -> In ty (type_ids nw).
Proof.
  intros H. apply (lo_ids _ _ (gi_listing _ _ G)) in H. unfold vehicles_iter in H.
  destruct (zget ty (s_ids s)) as [l|] eqn:E; [|destruct H].
  rewrite <- (lo_ids_keys _ _ (gi_listing _ _ G)). eapply zget_in_keys. exact E.
Qed.

Lemma veh_real v ty : vget v (s_vehicles s) = Some ty -> vid_is_real v = true.
Proof. intros H. apply (lo_real _ _ (gi_listing _ _ G)). eapply vget_in_keys. exact H. Qed.

Lemma veh_not_dummy v ty : vget v (s_vehicles s) = Some ty -> vget v (s_dummies s) = None.
Proof.
  intros H. destruct (vget v (s_dummies s)) as [t|] eqn:E; [|reflexivity].
  apply vget_in_keys in E. apply (lo_dummy _ _ (gi_listing _ _ G)) in E.
  rewrite (veh_real _ _ H) in E. discriminate.
Qed.

Lemma real_tour_facts v ty t : vget v (s_vehicles s) = Some ty -> vget v (s_tours s) = Some t ->
  t_dummy t = false /\ RV nw (t_nodes t) /\ forallb (fun n => compatible_with_vehicle_type nw n ty) (t_nodes t) = true.
Proof.
  intros Hv Ht. destruct (to_real _ _ (gi_tours _ _ G) v t Ht) as (ty' & Hv' & R).
  assert (ty' = ty) by congruence. subst ty'. unfold real_tour_ok in R.
  rewrite !andb_true_iff in R. destruct R as (((_ & D) & V) & C).
  apply negb_true_iff in D. apply valid_tour_nodes_RV in V. auto.
Qed.

Lemma tour_of_real_eq v ty t : vget v (s_vehicles s) = Some ty -> vget v (s_tours s) = Some t -> tour_of s v = Ok t.
Proof. intros _ Ht. unfold tour_of. rewrite Ht. reflexivity. Qed.

Lemma dummy_listed d : In d (s_dummy_ids s) -> exists t, vget d (s_dummies s) = Some t /\ vget d (s_tours s) = None.
Proof.
  intros H. apply (lo_dids _ _ (gi_listing _ _ G)) in H.
  pose proof (lo_dummy _ _ (gi_listing _ _ G) d H) as NR.
  apply in_keys_iff in H. destruct (vget d (s_dummies s)) as [t|] eqn:E; [|congruence].
  exists t. split; [reflexivity|]. destruct (vget d (s_tours s)) as [t'|] eqn:E'; [|reflexivity].
  apply vget_in_keys in E'. apply (lo_same_keys _ _ (gi_listing _ _ G)) in E'.
  apply (lo_real _ _ (gi_listing _ _ G)) in E'. congruence.
Qed.

Lemma dummy_tour_facts d t : vget d (s_dummies s) = Some t ->
  t_dummy t = true /\ t_nodes t <> [] /\ (forall n, In n (t_nodes t) -> is_depot (nd nw n) = false) /\
  chrono nw (t_nodes t).
Proof.
  intros H. pose proof (to_dummy _ _ (gi_tours _ _ G) d t H) as R. unfold dummy_tour_ok in R.
  rewrite !andb_true_iff in R. destruct R as ((((_ & D) & L) & ND) & W).
  split; [exact D|]. split.
  { intros E. rewrite E in L. discriminate. }
  split.
  { rewrite forallb_forall in ND. intros n Hn. apply ND in Hn. apply negb_true_iff in Hn. exact Hn. }
  split; [intros n _; apply (st_le_en nw DP)|].
  rewrite forallb_forall in W. intros a b Hin. apply (W (a, b) Hin).
Qed.
End Look.

(** * A1: candidates *)
Lemma chrono_st_en l i j a b : chrono nw l -> (i <= j)%nat -> nth_error l i = Some a -> nth_error l j = Some b ->
  dt_leb (st a) (en b) = true.
Proof.
  intros CH L Ea Eb. assert (Lj : (j < length l)%nat) by (apply nth_error_Some; congruence).
  destruct (ch_mono nw DP l CH j Lj i L) as [_ M].
  rewrite (nth_error_nth _ _ d0 Ea), (nth_error_nth _ _ d0 Eb) in M.
  eapply dt_leb_trans; [exact M|]. apply (st_le_en nw DP).
Qed.

Lemma RV_nondepots_chrono t : t_dummy t = false -> RV nw (t_nodes t) -> chrono nw (non_depots t).
Proof.
  intros D R. unfold non_depots. rewrite D. apply (connected_chrono nw WF DP).
  destruct R as (_ & C & _). apply connected_removelast. destruct (t_nodes t); [exact C|].
  eapply connected_tl. exact C.
Qed.

Lemma in_non_depots_real t n : t_dummy t = false -> In n (non_depots t) -> In n (t_nodes t).
Proof.
  unfold non_depots. intros ->. intros H. apply in_removelast in H. destruct (t_nodes t); [destruct H|right; exact H].
Qed.

(* position of an inner node of a real tour: strictly between the two depots *)
Lemma inner_pos t n : t_dummy t = false -> RV nw (t_nodes t) -> In n (non_depots t) ->
  exists k, position_of nw t n = Ok k /\ nth_error (t_nodes t) k = Some n /\ (1 <= k)%nat /\ (k + 1 < tlen t)%nat.
Proof.
  intros D R H. pose proof (RV_inner nw _ n R) as ND. unfold non_depots in H. rewrite D in H. specialize (ND H).
  pose proof (in_non_depots_real t n D) as IN. unfold non_depots in IN. rewrite D in IN. specialize (IN H).
  destruct (index_of_in n _ IN) as (k & P & E & _). exists k. rewrite position_of_pos_of, P.
  split; [reflexivity|]. split; [exact E|]. destruct R as (NE & C & S & L & _). unfold tlen.
  assert (Lk : (k < length (t_nodes t))%nat) by (apply nth_error_Some; congruence).
  split.
  - destruct k; [|lia]. rewrite (nth_error_hd _ d0 NE) in E. inversion E as [E']. rewrite E' in S.
    rewrite dep_split, S in ND. discriminate.
  - destruct (Nat.eq_dec (k + 1) (length (t_nodes t))) as [Q|Q]; [|lia].
    replace k with (length (t_nodes t) - 1)%nat in E by lia. rewrite (nth_error_last _ d0 NE) in E.
    inversion E as [E']. rewrite E' in L. rewrite dep_split, L, orb_true_r in ND. discriminate.
Qed.

Lemma preceding_overhead_ok t n : t_dummy t = false -> RV nw (t_nodes t) -> In n (non_depots t) ->
  exists d, preceding_overhead nw t n = Ok d.
Proof.
  intros D R H. destruct (inner_pos t n D R H) as (k & P & E & L1 & L2). unfold preceding_overhead.
  destruct (nid_eqb n (first_node t)); [eauto|]. rewrite P. cbn [bind].
  destruct (Nat.eqb_spec k 0); [lia|]. apply dt_diff_ok. destruct R as (_ & C & _).
  apply (can_reach_le nw WF). unfold nth_node.
  pose proof (connected_nth nw _ (k - 1) C) as CN. replace (S (k - 1)) with k in CN by lia.
  rewrite (nth_error_nth _ _ d0 E) in CN. apply CN. unfold tlen in L2. lia.
Qed.

Lemma subsequent_overhead_ok t n : t_dummy t = false -> RV nw (t_nodes t) -> In n (non_depots t) ->
  exists d, subsequent_overhead nw t n = Ok d.
Proof.
  intros D R H. destruct (inner_pos t n D R H) as (k & P & E & L1 & L2). unfold subsequent_overhead.
  destruct (nid_eqb n (last_node t)); [eauto|]. rewrite P. cbn [bind].
  destruct (Nat.leb_spec (tlen t) (k + 1)); [lia|]. apply dt_diff_ok. destruct R as (_ & C & _).
  apply (can_reach_le nw WF). unfold nth_node.
  pose proof (connected_nth nw _ k C) as CN. replace (S k) with (k + 1)%nat in CN by lia.
  rewrite (nth_error_nth _ _ d0 E) in CN. apply CN. unfold tlen in L2. lia.
Qed.

Lemma segments_total s p t :
  tour_of s p = Ok t ->
  (is_dummy s p = false -> forall n, In n (non_depots t) ->
     (exists d, preceding_overhead nw t n = Ok d) /\ (exists d, subsequent_overhead nw t n = Ok d)) ->
  chrono nw (non_depots t) ->
  exists sg, segments nw s p = Ok sg.
Proof.
  intros Ht OV CH. unfold segments. rewrite Ht. cbn [bind].
  set (ok_ov := fun (f : node_id -> res duration) (n : node_id) =>
       if is_dummy s p then Ok true else match f n with Ok d => Ok (dur_leb OVERHEAD_THRESHOLD d) | _ => Panic end).
  assert (OVP : forall n, In n (non_depots t) -> exists b, ok_ov (preceding_overhead nw t) n = Ok b).
  { intros n Hn. unfold ok_ov. destruct (is_dummy s p) eqn:Dm; [eauto|].
    destruct (proj1 (OV eq_refl n Hn)) as (d & ->). eauto. }
  assert (OVS : forall n, In n (non_depots t) -> exists b, ok_ov (subsequent_overhead nw t) n = Ok b).
  { intros n Hn. unfold ok_ov. destruct (is_dummy s p) eqn:Dm; [eauto|].
    destruct (proj2 (OV eq_refl n Hn)) as (d & ->). eauto. }
  match goal with |- exists sg, bind (fold_left ?f ?l ?a) _ = _ =>
    destruct (fold_total f (fun _ => True) l) with (s := @nil (node_id * node_id)) as (segs & E & _); [|exact I|] end.
  - intros acc [i ss] Hin _. apply combine_seq_nth in Hin. destruct Hin as [_ Ei]. rewrite Nat.sub_0_r in Ei.
    cbn [bind]. fold (ok_ov (preceding_overhead nw t) ss).
    destruct (OVP ss (nth_error_In _ _ Ei)) as (b & ->). cbn [bind]. destruct (negb b); [eauto|].
    match goal with |- exists s', bind (fold_left ?f ?l ?a) _ = _ /\ _ =>
      destruct (fold_total f (fun _ => True) l) with (s := (@nil node_id, false)) as (ends & E & _); [|exact I|] end.
    + intros [es stop] n Hn _. cbn [bind]. destruct stop; [eauto|].
      destruct (in_skipn_nth _ _ _ Hn) as (j & Lj & Ej).
      fold (ok_ov (subsequent_overhead nw t) n).
      destruct (OVS n (nth_error_In _ _ Ej)) as (b' & ->). cbn [bind]. destruct (negb b'); [eauto|].
      destruct (dt_diff_ok (en n) (st ss) (chrono_st_en _ _ _ _ _ CH Lj Ei Ej)) as (d & ->). cbn [bind].
      destruct (dur_leb d SEGMENT_LIMIT); eauto.
    + rewrite E. cbn [bind]. eauto.
  - rewrite E. cbn [bind]. eauto.
Qed.

Lemma segments_ok s p : Good nw s -> In p (s_dummy_ids s ++ vehicles_iter_all nw s) -> exists sg, segments nw s p = Ok sg.
Proof.
  intros G0 H. pose proof (Good_I nw s G0) as G. apply in_app_or in H. destruct H as [H|H].
  - destruct (dummy_listed s G p H) as (t & Hd & Ht).
    destruct (dummy_tour_facts s G p t Hd) as (D & NE & ND & CH).
    apply (segments_total s p t).
    + unfold tour_of. rewrite Ht, Hd. reflexivity.
    + unfold is_dummy. rewrite Hd. discriminate.
    + unfold non_depots. rewrite D. exact CH.
  - destruct (real_in_type s G p H) as (ty & _ & Hv). destruct (veh_has_tour s G p ty Hv) as (t & Ht).
    destruct (real_tour_facts s G p ty t Hv Ht) as (D & R & _).
    apply (segments_total s p t).
    + apply (tour_of_real_eq s p ty t Hv Ht).
    + intros _ n Hn. split; [apply preceding_overhead_ok|apply subsequent_overhead_ok]; assumption.
    + apply RV_nondepots_chrono; assumption.
Qed.

Theorem candidates_total s : Good nw s -> exists cs, candidates nw s = Ok cs.
Proof.
  intros G0. pose proof (Good_I nw s G0) as G. unfold candidates.
  match goal with |- exists cs, bind (fold_left ?f ?l ?a) _ = _ =>
    destruct (fold_total f (fun _ => True) l) with (s := @nil cand) as (c2 & E2 & _); [|exact I|] end.
  { intros acc p Hin _. cbn [bind]. destruct (segments_ok s p G0 Hin) as (sg & ->). cbn [bind]. eauto. }
  rewrite E2. cbn [bind].
  match goal with |- exists cs, bind (fold_left ?f ?l ?a) _ = _ =>
    destruct (fold_total f (fun _ => True) l) with (s := @nil cand) as (c3 & E3 & _); [|exact I|] end.
  { intros acc v Hin _. cbn [bind]. destruct (real_in_type s G v Hin) as (ty & _ & Hv).
    unfold vehicle_type_of. rewrite Hv. cbn [ok_or_err bind]. eauto. }
  rewrite E3. cbn [bind].
  match goal with |- exists cs, bind (fold_left ?f ?l ?a) _ = _ =>
    destruct (fold_total f (fun _ => True) l) with (s := @nil cand) as (c4 & E4 & _); [|exact I|] end.
  { intros acc v Hin _. cbn [bind]. destruct (real_in_type s G v Hin) as (ty & _ & Hv).
    destruct (veh_has_tour s G v ty Hv) as (t & Ht). rewrite (tour_of_real_eq s v ty t Hv Ht). cbn [bind]. eauto. }
  rewrite E4. cbn [bind]. eauto.
Qed.
End A.

Lemma no_crash_cases {A} (r : res A) : no_crash r -> (exists a, r = Ok a) \/ r = Err.
Proof. intros [H1 H2]. destruct r; eauto; congruence. Qed.
Lemma no_crash_of_cases {A} (r : res A) : (exists a, r = Ok a) \/ r = Err -> no_crash r.
Proof. intros [(a & ->)| ->]; split; discriminate. Qed.

Lemma z_sum_map_nn {A} (f : A -> Z) l : (forall x, In x l -> 0 <= f x) -> 0 <= z_sum (map f l).
Proof.
  induction l as [|a l IH]; intros H; [unfold z_sum; cbn; lia|]. cbn [map]. rewrite z_sum_cons.
  pose proof (H a (or_introl eq_refl)). assert (0 <= z_sum (map f l)) by (apply IH; intros; apply H; now right). lia.
Qed.

Lemma forallb_false_ex {A} (f : A -> bool) l x : In x l -> f x = false -> forallb f l = false.
Proof.
  intros Hin Hx. destruct (forallb f l) eqn:E; [|reflexivity]. rewrite forallb_forall in E. rewrite (E x Hin) in Hx. discriminate.
Qed.

Lemma inner_nth (l : list node_id) k : (1 <= k)%nat -> (k + 1 < length l)%nat -> In (nth k l (SD 0)) (removelast (tl l)).
Proof.
  intros L1 L2. destruct l as [|a t]; [cbn in L2; lia|]. cbn [tl length] in *.
  destruct k as [|k]; [lia|]. cbn [nth]. rewrite removelast_firstn_len.
  replace (Init.Nat.pred (length t)) with (length t - 1)%nat by lia.
  apply (in_firstn_nth t (length t - 1) k); [lia|]. apply nth_error_nth'. lia.
Qed.

(** * tour-level totality *)
Section B.
Variable nw : network.
Hypothesis NF : net_fine nw.
Hypothesis NX : net_extra_b nw = true.
Notation d0 := (SD 0).
Notation dep := (node_is_depot nw).
Let P := nw_params nw.
Let WFb := WF nw NF.
Let DPb := DP nw NF.

Lemma NX_parts : costs_nonneg_b nw = true /\ dists_nonneg_b nw = true /\ depots_listed_b nw = true /\
  nodes_coverable_b nw = true.
Proof. unfold net_extra_b in NX. rewrite !andb_true_iff in NX. tauto. Qed.

Lemma rates_nn : 0 <= c_service P /\ 0 <= c_maint P /\ 0 <= c_dh P /\ 0 <= c_idle P /\
  0 <= nw_nservice nw * c_staff P /\ 0 <= planning_sec nw.
Proof.
  destruct NX_parts as (H & _). unfold costs_nonneg_b in H. fold P in H. rewrite !andb_true_iff, !Z.leb_le in H. tauto.
Qed.

Lemma node_duration_nn n : lnn (node_duration nw n).
Proof.
  unfold node_duration, n_duration. pose proof (st_le_en nw DPb n) as L. unfold start_time, end_time in L.
  pose proof (nd_wf nw WFb n) as W.
  destruct (nd nw n) as [dn|sv|m|dn]; cbn [n_end_time n_start_time node_wf] in *; try (exists 0; split; [reflexivity|lia]).
  - destruct (st_dep sv) as [|a|], (st_arr sv) as [|b|]; try discriminate W.
    apply dt_leb_point in L. unfold dt_diff. rewrite (proj2 (dt_leb_point a b) L).
    exists (b - a). split; [reflexivity|lia].
  - destruct (ms_start m) as [|a|], (ms_end m) as [|b|]; try discriminate W.
    apply dt_leb_point in L. unfold dt_diff. rewrite (proj2 (dt_leb_point a b) L).
    exists (b - a). split; [reflexivity|lia].
Qed.

Lemma useful_nn l : lnn (compute_useful nw l).
Proof.
  induction l as [|a l IH]; [exists 0; split; [reflexivity|lia]|].
  change (a :: l) with ([a] ++ l). rewrite (useful_app nw), (useful_one nw). apply lnn_add; [apply node_duration_nn|exact IH].
Qed.

Lemma travel_nn n : dnn (n_travel_dist (nd nw n)).
Proof.
  destruct NX_parts as (_ & H & _). unfold dists_nonneg_b in H. apply andb_true_iff in H. destruct H as [H _].
  unfold nd. destruct (assoc nid_eqb n (nw_nodes nw)) as [x|] eqn:E; [|cbn; lia].
  apply (assoc_in _ nid_eqb_eq) in E. rewrite forallb_forall in H. specialize (H _ E). cbn in H.
  destruct (n_travel_dist x); cbn in *; [lia|exact I].
Qed.

Lemma sdist_nn l : dnn (compute_sdist nw l).
Proof.
  induction l as [|a l IH]; [cbn; lia|].
  change (a :: l) with ([a] ++ l). rewrite (sdist_app nw), (sdist_one nw). apply dnn_add; [apply travel_nn|exact IH].
Qed.

Lemma dh_nn a b : dnn (dead_head_distance_between nw a b).
Proof.
  destruct NX_parts as (_ & H & _). unfold dists_nonneg_b in H. apply andb_true_iff in H. destruct H as [_ H].
  unfold dead_head_distance_between, loc_distance, dh_entry.
  destruct (n_end_loc (nd nw a)) as [x|]; [|exact I]. destruct (n_start_loc (nd nw b)) as [y|]; [|exact I].
  destruct (nth_error (nw_dh nw) (Z.to_nat x)) as [row|] eqn:Er; [|cbn; lia].
  destruct (nth_error row (Z.to_nat y)) as [[d tv]|] eqn:Ee; [|cbn; lia].
  rewrite forallb_forall in H. apply nth_error_In in Er. specialize (H row Er). rewrite forallb_forall in H.
  apply nth_error_In in Ee. specialize (H _ Ee). cbn in H. destruct d; cbn in *; [lia|exact I].
Qed.

Lemma DS_nn ps : dnn (DS nw ps).
Proof.
  induction ps as [|[a b] ps IH]; [cbn; lia|].
  change ((a, b) :: ps) with ([(a, b)] ++ ps). rewrite (DS_app nw), (DS_one nw). apply dnn_add; [apply dh_nn|exact IH].
Qed.

Lemma dur_sec_nn d : d = DurInf \/ lnn d -> 0 <= dur_sec_or d (planning_sec nw).
Proof. intros [->|(z & -> & Hz)]; cbn; [apply rates_nn|exact Hz]. Qed.

Lemma sm_cost_nn n : 0 <= sm_cost nw n.
Proof.
  unfold sm_cost. pose proof (dur_sec_nn (node_duration nw n) (or_intror (node_duration_nn n))) as H.
  destruct rates_nn as (R1 & R2 & _). fold P. destruct (nd nw n); try lia; apply Z.mul_nonneg_nonneg; assumption.
Qed.

Lemma dh_time_nn a b : dead_head_time_between nw a b = DurInf \/ lnn (dead_head_time_between nw a b).
Proof.
  unfold dead_head_time_between. destruct (loc_travel_time nw _ _) as [t|] eqn:E; [|left; reflexivity].
  right. exists t. split; [reflexivity|]. eapply travel_nonneg; [exact WFb|exact E].
Qed.

Lemma idle_sec_nn a b : 0 <= idle_sec nw a b.
Proof.
  unfold idle_sec, idle_time_between.
  destruct (is_start_depot (nd nw a) || is_end_depot (nd nw b)); [cbn; lia|].
  destruct (dt_leb _ _); [|cbn; lia].
  destruct (dt_diff _ _) as [d| | |] eqn:E; try lia. apply dur_sec_nn. eapply dt_diff_nn. exact E.
Qed.

Lemma dhi_cost_nn a b : 0 <= dhi_cost nw a b.
Proof.
  unfold dhi_cost. fold P. destruct rates_nn as (_ & _ & R3 & R4 & _).
  pose proof (dur_sec_nn _ (dh_time_nn a b)). pose proof (idle_sec_nn a b).
  apply Z.add_nonneg_nonneg; apply Z.mul_nonneg_nonneg; assumption.
Qed.

Lemma SM_nn l : 0 <= SM nw l.
Proof. apply z_sum_map_nn. intros; apply sm_cost_nn. Qed.
Lemma CS_nn ps : 0 <= CS nw ps.
Proof. apply z_sum_map_nn. intros [a b] _; apply dhi_cost_nn. Qed.
Lemma costs_nn l : 0 <= compute_costs nw l.
Proof. rewrite (costs_CS nw). pose proof (SM_nn l). pose proof (CS_nn (windows l)). lia. Qed.
Lemma exact_costs_nn t : tour_exact nw t -> 0 <= t_costs t.
Proof. intros E. destruct (exact_proj nw t E) as (_ & _ & _ & _ & ->). apply costs_nn. Qed.

(** ** Tour.remove *)
Definition shape (t : tour) : Prop :=
  if t_dummy t then t_nodes t <> [] /\ (forall n, In n (t_nodes t) -> dep n = false) else RV nw (t_nodes t).

Lemma shape_len3 t : shape t -> t_dummy t = false -> (3 <= length (t_nodes t))%nat.
Proof. unfold shape. intros H D. rewrite D in H. apply (RV_length nw). exact H. Qed.
Lemma shape_ne t : shape t -> t_nodes t <> [].
Proof. unfold shape. destruct (t_dummy t); [tauto|]. intros (NE & _). exact NE. Qed.

Lemma remove_nodes_nc t seg : shape t -> no_crash (remove_nodes nw t seg).
Proof.
  intros SH. unfold remove_nodes, position_of.
  destruct (index_of _ (t_nodes t)) as [sp|]; cbn [ok_or_err bind]; [|apply no_crash_err].
  destruct (index_of _ (t_nodes t)) as [ep|]; cbn [ok_or_err bind]; [|apply no_crash_err].
  unfold check_if_sequence_is_removable, tlen.
  pose proof (shape_ne t SH) as NE. pose proof (shape_len3 t SH) as L3.
  destruct (t_dummy t) eqn:D; cbn [negb andb].
  - destruct (Nat.eqb_spec (length (t_nodes t)) 0) as [Q|Q]; [destruct (t_nodes t); [congruence|discriminate Q]|].
    repeat match goal with |- context [if ?c then _ else _] => destruct c; cbn [bind]; try apply no_crash_err end;
      eapply no_crash_ok; reflexivity.
  - specialize (L3 eq_refl).
    destruct (Nat.ltb_spec (length (t_nodes t)) 3); [lia|]. rewrite andb_false_r.
    destruct (Nat.eqb_spec (length (t_nodes t)) 0); [lia|].
    repeat match goal with |- context [if ?c then _ else _] => destruct c; cbn [bind]; try apply no_crash_err end;
      eapply no_crash_ok; reflexivity.
Qed.

Lemma nth_mid (pre mid suf : list node_id) k : (length pre <= k)%nat -> (k < length pre + length mid)%nat ->
  In (nth k (pre ++ mid ++ suf) d0) mid.
Proof.
  intros L1 L2. rewrite app_nth2 by lia. rewrite app_nth1 by lia. apply nth_In. lia.
Qed.

Lemma removed_has_nondepot t pre mid suf ep :
  shape t -> t_nodes t = pre ++ mid ++ suf -> mid <> [] -> (ep + 1 = length pre + length mid)%nat ->
  (t_dummy t = false -> length pre = 0%nat -> (length (t_nodes t) - 3 < ep)%nat) ->
  (t_dummy t = false -> ep = (length (t_nodes t) - 1)%nat -> (length pre < 2)%nat) ->
  forallb dep mid = false.
Proof.
  intros SH El Hm Hep C1 C2. pose proof (shape_len3 t SH) as L3. unfold shape in SH.
  destruct (t_dummy t) eqn:D.
  - destruct mid as [|m mid']; [congruence|]. apply (forallb_false_ex _ _ m); [left; reflexivity|].
    apply SH. rewrite El. apply in_or_app. right. left. reflexivity.
  - specialize (L3 eq_refl). specialize (C1 eq_refl). specialize (C2 eq_refl).
    assert (Lm : (0 < length mid)%nat) by (destruct mid; [congruence|cbn; lia]).
    assert (LL : length (t_nodes t) = (length pre + length mid + length suf)%nat)
      by (rewrite El, !app_length; lia).
    set (k := if Nat.eqb (length pre) 0 then 1%nat else length pre).
    assert (K : (1 <= k /\ k + 1 < length (t_nodes t) /\ length pre <= k /\ k < length pre + length mid)%nat).
    { unfold k. destruct (Nat.eqb_spec (length pre) 0) as [Q|Q]; [specialize (C1 Q); lia|].
      destruct (Nat.eq_dec ep (length (t_nodes t) - 1)) as [Q'|Q']; [specialize (C2 Q'); lia|lia]. }
    destruct K as (K1 & K2 & K3 & K4).
    apply (forallb_false_ex _ _ (nth k (t_nodes t) d0)).
    + rewrite El. apply nth_mid; assumption.
    + apply (RV_inner nw _ _ SH). apply inner_nth; assumption.
Qed.

Theorem remove_total t seg : shape t -> tour_exact nw t -> no_crash (Tour.remove nw t seg).
Proof.
  intros SH Hex. destruct (exact_proj nw t Hex) as (Evm & Eu & Es & Ed & Ec).
  unfold Tour.remove. destruct (no_crash_cases _ (remove_nodes_nc t seg SH)) as [([[[sp ep] tn] removed] & Ein)|Ein];
    rewrite Ein; cbn [bind]; [|apply no_crash_err].
  apply (remove_nodes_inv nw) in Ein. destruct Ein as (H1 & H2 & -> & -> & C1 & C2).
  destruct (split3 (t_nodes t) sp (ep + 1)) as (El & Lp & Lm); [lia|lia|].
  set (pre := firstn sp (t_nodes t)) in *. set (mid := slice sp (ep + 1) (t_nodes t)) in *.
  set (suf := skipn (ep + 1) (t_nodes t)) in *. clearbody pre mid suf.
  assert (Hep : (ep + 1 = length pre + length mid)%nat) by lia. subst sp. rewrite Hep in *.
  assert (Hm : mid <> []) by (intros ->; cbn [length] in *; lia).
  unfold dur_sub_sum. fold (compute_useful nw mid).
  rewrite Eu, El, !(useful_app nw).
  destruct (dur_sub_mid _ (compute_useful nw mid) _ (useful_nn pre) (useful_nn mid) (useful_nn suf)) as (u0 & ->).
  cbn [bind]. fold (compute_sdist nw mid). rewrite Es, El, !(sdist_app nw).
  destruct (dist_sub_mid _ (compute_sdist nw mid) _ (sdist_nn pre) (sdist_nn suf)) as (s0 & ->). cbn [bind].
  rewrite (ddseg_eq nw t pre mid suf El).
  rewrite Ed, El, (ddist_DS nw), (windows_3 d0), !(DS_app nw).
  destruct (dist_sub_mid _ (DS nw (seg_pairs d0 pre mid suf)) _ (DS_nn (windows pre)) (DS_nn (windows suf))) as (dd0 & ->).
  cbn [bind]. rewrite (cseg_eq nw t pre mid suf El).
  rewrite Ec, El, (costs_CS nw), (windows_3 d0), !(CS_app nw), !(SM_app nw).
  destruct (z_sub_cost_total (SM nw pre + (SM nw mid + SM nw suf) +
              (CS nw (windows pre) + (CS nw (seg_pairs d0 pre mid suf) + CS nw (windows suf))))
              (CS nw (seg_pairs d0 pre mid suf) + SM nw mid)) as (c0 & -> & _).
  { pose proof (SM_nn pre). pose proof (SM_nn suf). pose proof (CS_nn (windows pre)). pose proof (CS_nn (windows suf)). lia. }
  cbn [bind]. unfold path_new_trusted.
  rewrite (removed_has_nondepot t pre mid suf ep SH El Hm Hep); [| |].
  - match goal with |- no_crash (if ?c then _ else _) => destruct c end; eapply no_crash_ok; reflexivity.
  - exact C1.
  - exact C2.
Qed.

(** ** insert_path *)
Theorem insert_path_total t p : t_nodes t <> [] -> chrono nw (t_nodes t) -> valid_path nw p -> tour_exact nw t ->
  exists r, insert_path nw t p = Ok r.
Proof.
  intros NE CH VP Hex. destruct (exact_proj nw t Hex) as (Evm & Eu & Es & Ed & Ec).
  destruct (insert_nodes_ref nw (t_dummy t) (t_nodes t) p (proj1 NF) NE CH VP) as (sp & ep & p1 & Ein).
  unfold insert_path. rewrite Ein. cbn [bind].
  apply (insert_nodes_inv nw) in Ein. destruct Ein as (Hn & H1 & H2 & Er & En).
  destruct (split3 (t_nodes t) sp ep H1 H2) as (El & Lp & Lm). rewrite Er.
  set (pre := firstn sp (t_nodes t)) in *. set (mid := slice sp ep (t_nodes t)) in *.
  set (suf := skipn ep (t_nodes t)) in *. clearbody pre mid suf.
  assert (Hep : ep = (length pre + length mid)%nat) by lia. subst sp. subst ep. clear H1 H2 Lm.
  assert (A1 : exists u0, dur_sub_sum nw (t_useful t) mid = Ok u0).
  { unfold dur_sub_sum. fold (compute_useful nw mid). rewrite Eu, El, !(useful_app nw).
    apply dur_sub_mid; apply useful_nn. }
  assert (A2 : exists s0, dist_sub (t_sdist t) (dist_sum (map (fun n => n_travel_dist (nd nw n)) mid)) = Ok s0).
  { fold (compute_sdist nw mid). rewrite Es, El, !(sdist_app nw). apply dist_sub_mid; apply sdist_nn. }
  assert (A3 : exists d1, dist_sub (t_ddist t) (dead_head_distance_of_segment nw t (length pre) (length pre + length mid)) = Ok d1).
  { rewrite (ddseg_eq nw t pre mid suf El). rewrite Ed, El, (ddist_DS nw), (windows_3 d0), !(DS_app nw).
    apply dist_sub_mid; apply DS_nn. }
  assert (A4 : exists c0, z_sub_cost (t_costs t) (costs_of_segment nw t (length pre) (length pre + length mid)) = Ok c0).
  { rewrite (cseg_eq nw t pre mid suf El).
    rewrite Ec, El, (costs_CS nw), (windows_3 d0), !(CS_app nw), !(SM_app nw).
    destruct (z_sub_cost_total (SM nw pre + (SM nw mid + SM nw suf) +
              (CS nw (windows pre) + (CS nw (seg_pairs d0 pre mid suf) + CS nw (windows suf))))
              (CS nw (seg_pairs d0 pre mid suf) + SM nw mid)) as (c0 & -> & _); [|eauto].
    pose proof (SM_nn pre). pose proof (SM_nn suf). pose proof (CS_nn (windows pre)). pose proof (CS_nn (windows suf)). lia. }
  destruct A1 as (u0 & ->). cbn [bind]. destruct A2 as (s0 & ->). cbn [bind].
  destruct A4 as (c0 & A4). destruct A3 as (d1 & A3).
  destruct (t_ddist t) as [m|] eqn:Em.
  - rewrite A3. cbn [bind]. rewrite A4. cbn [bind]. eauto.
  - cbn [bind]. rewrite A4. cbn [bind]. eauto.
Qed.

(** ** replace_start_depot / replace_end_depot *)
Lemma dist_sub_head a b : dnn b -> exists r, dist_sub (dist_add a b) a = Ok r.
Proof.
  destruct a as [x|], b as [y|]; cbn; eauto. intros Hy. destruct (Z.leb_spec x (x + y)); [eauto|lia].
Qed.
Lemma dist_sub_last a b : dnn a -> exists r, dist_sub (dist_add a b) b = Ok r.
Proof.
  destruct a as [x|], b as [y|]; cbn; eauto. intros Hx. destruct (Z.leb_spec y (x + y)); [eauto|lia].
Qed.

Lemma dh_rate_nn a b : 0 <= dur_sec_or (dead_head_time_between nw a b) (planning_sec nw) * c_dh P.
Proof.
  destruct rates_nn as (_ & _ & R3 & _). apply Z.mul_nonneg_nonneg; [apply dur_sec_nn, dh_time_nn|exact R3].
Qed.
Lemma dh_rate_le a b : dur_sec_or (dead_head_time_between nw a b) (planning_sec nw) * c_dh P <= dhi_cost nw a b.
Proof.
  unfold dhi_cost. fold P. destruct rates_nn as (_ & _ & _ & R4 & _). pose proof (idle_sec_nn a b).
  assert (0 <= idle_sec nw a b * c_idle P) by (apply Z.mul_nonneg_nonneg; assumption). lia.
Qed.

Theorem replace_start_total t d : t_dummy t = false -> RV nw (t_nodes t) -> tour_exact nw t ->
  is_start_depot (nd nw d) = true -> exists t', replace_start_depot nw t d = Ok t'.
Proof.
  intros Dm R Hex Hd. destruct (exact_proj nw t Hex) as (_ & _ & _ & Ed & Ec).
  pose proof (RV_length nw _ R) as L3. unfold replace_start_depot. rewrite Dm, Hd. cbn [negb].
  destruct (t_nodes t) as [|old [|fnd rest]] eqn:El; try (cbn in L3; lia).
  rewrite (ddist_cons2 nw) in Ed. rewrite (costs_cons2 nw) in Ec.
  assert (A1 : exists dd, match t_ddist t with
                          | Dist m => do x <- dist_sub (Dist m) (dead_head_distance_between nw old fnd);
                                      Ok (dist_add x (dead_head_distance_between nw d fnd))
                          | DistInf => Ok (compute_ddist nw (d :: fnd :: rest)) end = Ok dd).
  { destruct (t_ddist t) as [m|] eqn:Em; [|eauto]. rewrite Ed.
    destruct (dist_sub_head (dead_head_distance_between nw old fnd) (compute_ddist nw (fnd :: rest))) as (x & ->);
      [rewrite (ddist_DS nw); apply DS_nn|]. cbn [bind]. eauto. }
  destruct A1 as (dd & A1).
  match goal with |- exists t', bind ?X _ = _ => replace X with (Ok (A:=dist) dd) end.
  cbn [bind]. fold P.
  destruct (z_sub_cost_total (t_costs t) (dur_sec_or (dead_head_time_between nw old fnd) (planning_sec nw) * c_dh P))
    as (c1 & -> & _).
  { rewrite Ec. pose proof (sm_cost_nn old). pose proof (costs_nn (fnd :: rest)). pose proof (dh_rate_le old fnd). lia. }
  cbn [bind]. eauto.
Qed.

Theorem replace_end_total t d : t_dummy t = false -> RV nw (t_nodes t) -> tour_exact nw t ->
  is_end_depot (nd nw d) = true -> exists t', replace_end_depot nw t d = Ok t'.
Proof.
  intros Dm R Hex Hd. destruct (exact_proj nw t Hex) as (_ & _ & _ & Ed & Ec).
  pose proof (RV_length nw _ R) as L3. unfold replace_end_depot. rewrite Dm, Hd. cbn [negb].
  destruct (Nat.ltb_spec (length (t_nodes t)) 2); [lia|].
  assert (exists l' old, t_nodes t = l' ++ [old] /\ l' <> []) as (l' & old & El & Hne).
  { destruct (exists_last (l := t_nodes t)) as (l' & old & E).
    - intros E; rewrite E in L3; cbn in L3; lia.
    - exists l', old; split; auto. intros ->. rewrite E in L3. cbn in L3. lia. }
  unfold last_node, nth_node, tlen. rewrite El in *. rewrite removelast_last.
  rewrite app_length. cbn [length].
  replace (length l' + 1 - 1)%nat with (length l') by lia.
  replace (length l' + 1 - 2)%nat with (length l' - 1)%nat by lia.
  rewrite nth_hd_of. cbn [hd]. rewrite nth_last_of by assumption.
  rewrite (ddist_app nw), bridge_one, (DS_one nw) in Ed by assumption.
  change (DS nw (windows [old])) with (Dist 0) in Ed. rewrite dist_add_0_r in Ed.
  rewrite (costs_app nw), bridge_one, (CS_one nw) in Ec by assumption.
  change (CS nw (windows [old])) with 0 in Ec.
  assert (A1 : exists dd, match t_ddist t with
                          | Dist m => do x <- dist_sub (Dist m) (dead_head_distance_between nw (last l' d0) old);
                                      Ok (dist_add x (dead_head_distance_between nw (last l' d0) d))
                          | DistInf => Ok (compute_ddist nw (l' ++ [d])) end = Ok dd).
  { destruct (t_ddist t) as [m|] eqn:Em; [|eauto]. rewrite Ed.
    destruct (dist_sub_last (DS nw (windows l')) (dead_head_distance_between nw (last l' d0) old)) as (x & ->);
      [apply DS_nn|]. cbn [bind]. eauto. }
  destruct A1 as (dd & A1).
  match goal with |- exists t', bind ?X _ = _ => replace X with (Ok (A:=dist) dd) end.
  cbn [bind]. fold P.
  destruct (z_sub_cost_total (t_costs t) (dur_sec_or (dead_head_time_between nw (last l' d0) old) (planning_sec nw) * c_dh P))
    as (c1 & -> & _).
  { rewrite Ec. pose proof (SM_nn l'). pose proof (SM_nn [old]). pose proof (CS_nn (windows l')).
    pose proof (dh_rate_le (last l' d0) old). lia. }
  cbn [bind]. eauto.
Qed.

End B.

(** * rotation cycles: the operations are total under the bookkeeping invariant *)
Section C.
Variable nw : network.

Lemma tinv_locate f m t v : TInv nw f m t -> In v m ->
  exists k c, lookup_get v (tr_lookup t) = Some k /\ nth_error (tr_cycles t) k = Some c /\ In v (fst c).
Proof.
  intros I Hv. apply (ti_members _ _ _ _ I) in Hv. unfold members_of in Hv. apply in_concat in Hv.
  destruct Hv as (l & Hl & Hv). apply in_map_iff in Hl. destruct Hl as (c & <- & Hc).
  destruct (In_nth_error _ _ Hc) as (k & Hk). exists k, c. split; [|split; auto].
  apply (ti_lookup _ _ _ _ I). eauto.
Qed.

Lemma tour_info_total upd old x : TransStmts.eff upd old x <> None -> exists i, tour_info upd old x = Ok i.
Proof.
  unfold TransStmts.eff, tour_info. destruct (upd x); [eauto|]. destruct (old x); [cbn; eauto|congruence].
Qed.

Lemma last_in_or {A} (l : list A) d : last l d = d \/ In (last l d) l.
Proof. destruct l as [|a l]; [left; reflexivity|right]. apply TransFacts.last_in. discriminate. Qed.
Lemma hd_in_or {A} (l : list A) d : hd d l = d \/ In (hd d l) l.
Proof. destruct l as [|a l]; [left; reflexivity|right; left; reflexivity]. Qed.

Lemma psd_total upd old m t v k c :
  TInv nw (TransStmts.eff upd old) m t -> tours_total (TransStmts.eff upd old) m ->
  lookup_get v (tr_lookup t) = Some k -> nth_error (tr_cycles t) k = Some c -> In v (fst c) ->
  exists r, pred_succ_depots t v upd old = Ok r.
Proof.
  intros I TT Hl Hk Hv. unfold pred_succ_depots. rewrite Hl. cbn [unwrap_opt bind]. rewrite Hk. cbn [unwrap_opt bind].
  destruct (split_nodup _ _ Hv (inv_cycle_nodup nw _ _ _ _ _ I Hk)) as (pre & suf & Hc & Np & Ns).
  rewrite Hc. rewrite index_of_split by auto. cbn [unwrap_opt bind]. rewrite pred_list, succ_list. cbn [unwrap_opt bind].
  assert (IN : forall x, x = v \/ In x (suf ++ pre) -> TransStmts.eff upd old x <> None).
  { intros x Hx. apply TT. eapply (inv_cycle_in nw); [exact I|exact Hk|]. rewrite Hc.
    destruct Hx as [->|Hx]; [apply in_or_app; right; left; reflexivity|].
    apply in_app_or in Hx. apply in_or_app. destruct Hx; [right; right; assumption|left; assumption]. }
  destruct (tour_info_total upd old (last (suf ++ pre) v)) as (ip & ->); [apply IN, last_in_or|]. cbn [bind].
  destruct (tour_info_total upd old (hd v (suf ++ pre))) as (isu & ->); [apply IN, hd_in_or|]. cbn [bind]. eauto.
Qed.

Lemma update_vehicle_total upd old m t v newi :
  TInv nw (TransStmts.eff upd old) m t -> tours_total (TransStmts.eff upd old) m -> In v m -> old v <> None ->
  exists t', update_vehicle nw t v newi upd old = Ok t'.
Proof.
  intros I TT Hv Ho. destruct (tinv_locate _ _ _ _ I Hv) as (k & c & Hl & Hk & Hc).
  unfold update_vehicle. destruct (old v) as [oi|]; [|congruence]. cbn [unwrap_opt bind].
  rewrite Hl. cbn [unwrap_opt bind]. rewrite Hk. cbn [unwrap_opt bind].
  destruct (Nat.eqb (length (fst c)) 1); cbn [bind]; [eauto|].
  destruct (psd_total upd old m t v k c I TT Hl Hk Hc) as ([edp sds] & ->). cbn [bind]. eauto.
Qed.

Lemma remove_vehicle_total upd old m t v :
  TInv nw (TransStmts.eff upd old) m t -> tours_total (TransStmts.eff upd old) m -> In v m -> old v <> None ->
  exists t', remove_vehicle nw t v upd old = Ok t'.
Proof.
  intros I TT Hv Ho. destruct (tinv_locate _ _ _ _ I Hv) as (k & c & Hl & Hk & Hc).
  unfold remove_vehicle. rewrite Hl. cbn [unwrap_opt bind]. rewrite Hk. cbn [unwrap_opt bind].
  destruct (filter _ (fst c)); cbn [bind]; [eauto|].
  destruct (psd_total upd old m t v k c I TT Hl Hk Hc) as ([edp sds] & ->). cbn [bind].
  destruct (old v) as [oi|]; [|congruence]. cbn [unwrap_opt bind]. eauto.
Qed.

Lemma add_own_total f m t v newi : TInv nw f m t -> exists t', add_vehicle_to_own_cycle nw t v newi = Ok t'.
Proof.
  intros I. unfold add_vehicle_to_own_cycle. destruct (rev (tr_empty t)) as [|k rest] eqn:E; [eauto|].
  assert (Hk : In k (tr_empty t)) by (apply in_rev; rewrite E; left; reflexivity).
  apply (ti_empty _ _ _ _ I) in Hk. destruct Hk as (c & Hc & _).
  assert (L : (k < length (tr_cycles t))%nat) by (apply nth_error_Some; congruence).
  apply Nat.ltb_lt in L. rewrite L. eauto.
Qed.

(** ** new_fast *)
Section NFT.
Variable tours : tours_fn.

Lemma finfo_total vs : (forall v, In v vs -> tours v <> None) -> forall acc,
  exists infos, fold_left (finfo tours) vs (Ok acc) = Ok infos.
Proof.
  induction vs as [|v vs IH]; intros H acc; cbn [fold_left]; [eauto|].
  unfold finfo at 2. cbn [bind]. destruct (tours v) as [i|] eqn:E; [|exfalso; apply (H v); [left; reflexivity|exact E]].
  cbn [unwrap_opt bind]. apply IH. intros x Hx. apply H. right. exact Hx.
Qed.

Lemma push_total c v : good nw tours c -> tours v <> None -> exists c', push_to_cluster nw tours c v = Ok c'.
Proof.
  intros (Hne & Ht & _) Hv. unfold push_to_cluster. destruct (tours v); [|congruence]. cbn [unwrap_opt bind].
  destruct (fst c) as [|f r] eqn:E; [congruence|].
  destruct (tours (last (f :: r) f)) eqn:El; [cbn [unwrap_opt bind]; eauto|].
  exfalso. apply (Ht (last (f :: r) f)); [|exact El]. apply TransFacts.last_in. discriminate.
Qed.

Lemma assign_total cl v : Forall (good nw tours) cl -> tours v <> None -> exists cl', assign_vehicle nw tours cl v = Ok cl'.
Proof.
  intros HG Hv. unfold assign_vehicle. destruct (tours v) as [iv|] eqn:Ev; [|congruence]. cbn [unwrap_opt bind].
  rewrite Forall_forall in HG.
  assert (PT : forall k, (k < length cl)%nat -> exists c', push_to_cluster nw tours (nth k cl ([], 0)) v = Ok c').
  { intros k Lk. apply push_total; [|congruence]. apply HG. apply nth_In. exact Lk. }
  match goal with |- context [index_of ?f cl] => destruct (index_of f cl) as [k|] eqn:Ei end.
  - destruct (PT k) as (c' & ->); [eapply index_of_lt; exact Ei|]. cbn [bind]. eauto.
  - destruct cl as [|c0 r] eqn:Ecl; [eauto|]. rewrite <- Ecl in *.
    destruct (PT (length cl - 1)%nat) as (c' & ->); [rewrite Ecl; cbn [length]; lia|]. cbn [bind]. eauto.
Qed.

Lemma fassign_total U : (forall v, In v U -> tours v <> None) -> forall cl0, Forall (good nw tours) cl0 ->
  exists clF, fold_left (fassign nw tours) U (Ok cl0) = Ok clF /\ Forall (good nw tours) clF.
Proof.
  induction U as [|v U IH]; intros H cl0 HG; cbn [fold_left]; [eauto|].
  unfold fassign at 2. cbn [bind].
  destruct (assign_total cl0 v HG (H v (or_introl eq_refl))) as (cl' & Ea). rewrite Ea. cbn [bind].
  destruct (assign_good nw tours _ _ _ HG Ea) as (G' & _).
  apply IH; [intros x Hx; apply H; right; exact Hx|]. apply sort_good. exact G'.
Qed.

Lemma fclose_total cls : Forall (good nw tours) cls -> forall acc, exists cycles, fold_left (fclose nw tours) cls (Ok acc) = Ok cycles.
Proof.
  induction cls as [|c cls IH]; intros HG acc; cbn [fold_left]; [eauto|].
  inversion HG as [|? ? Gc G']; subst. destruct Gc as (Hne & Ht & _).
  unfold fclose at 2. cbn [bind]. destruct (fst c) as [|f r] eqn:E; [congruence|].
  destruct (tours (last (f :: r) f)) eqn:El.
  2:{ exfalso. apply (Ht (last (f :: r) f)); [|exact El]. apply TransFacts.last_in. discriminate. }
  cbn [unwrap_opt bind]. destruct (tours f) eqn:Ef.
  2:{ exfalso. apply (Ht f); [left; reflexivity|exact Ef]. }
  cbn [unwrap_opt bind]. apply IH. exact G'.
Qed.

Theorem new_fast_total vs : (forall v, In v vs -> tours v <> None) -> exists t, new_fast nw vs tours = Ok t.
Proof.
  intros H. rewrite new_fast_eq. destruct (finfo_total vs H []) as (infos & E1). rewrite E1. cbn [bind].
  destruct (infos_spec tours vs [] infos E1) as (new & En & Em & Ei). cbn [app] in En. subst infos.
  match goal with |- exists t, bind (fold_left _ ?U (Ok ?c0)) _ = _ =>
    destruct (fassign_total U) with (cl0 := c0) as (clF & E2 & GF) end.
  - intros v Hv. apply in_map_iff in Hv. destruct Hv as ([v' i] & <- & Hin). cbn [fst].
    unfold sort_by_key in Hin. apply sort_by_in in Hin. apply filter_In in Hin. destruct Hin as [Hin _].
    rewrite Forall_forall in Ei. specialize (Ei _ Hin). unfold info_ok in Ei. cbn [fst snd] in Ei. congruence.
  - apply sort_good. apply Forall_forall. intros c Hc. apply in_map_iff in Hc. destruct Hc as (p & <- & Hp).
    apply mkc_good. apply filter_In in Hp. rewrite Forall_forall in Ei. apply Ei. tauto.
  - rewrite E2. cbn [bind]. destruct (fclose_total clF GF []) as (cycles & ->). cbn [bind]. eauto.
Qed.
End NFT.
End C.

(** * update_transitions / recompute_transitions are total *)
Section D.
Variable nw : network.
Variable s : schedule.
Variable vehicles : list (vehicle_id * Z).
Variable tours : list (vehicle_id * tour).
Variable ids' : list (Z * list vehicle_id).
Hypothesis Vold : VPart nw (s_vehicles s) (s_tours s) (s_ids s).
Hypothesis Vnew : VPart nw vehicles tours ids'.
Hypothesis Stab : forall v ty ty', vget v vehicles = Some ty -> vget v (s_vehicles s) = Some ty' -> ty = ty'.

Lemma ut_step_total done tr vi upd v :
  J nw s vehicles tours done tr upd -> vid_is_real v = true -> ~ In v done ->
  (is_vehicle s v = true \/ vget v vehicles <> None) ->
  exists x, ut_step nw s vehicles tours (Ok (tr, vi, upd)) v = Ok x.
Proof.
  intros HJ Rv Nd Hv. pose proof HJ as (J1 & J2 & J3). unfold ut_step. cbn [bind]. rewrite Rv. cbn [negb].
  assert (TY : exists ty, match vget v vehicles with Some t => Some t | None => vget v (s_vehicles s) end = Some ty /\
                          In ty (type_ids nw)).
  { destruct (vget v vehicles) as [ty|] eqn:E1.
    - exists ty. split; [reflexivity|]. eapply type_in_ids_new; eauto.
    - destruct Hv as [Hv|Hv]; [|congruence]. unfold is_vehicle in Hv.
      destruct (vget v (s_vehicles s)) as [ty|] eqn:E2; [|discriminate]. exists ty. split; [reflexivity|].
      eapply type_in_ids_old; eauto. }
  destruct TY as (ty & Ety & Ity). rewrite Ety. cbn [unwrap_opt bind].
  destruct (J3 ty Ity) as (t & m & Hz & Hm & I). rewrite Hz. cbn [unwrap_opt bind].
  pose proof (J_total nw s vehicles tours ids' Vold Vnew done upd ty m J1 J2 Hm) as TT.
  unfold is_vehicle. destruct (vget v (s_vehicles s)) as [tyo|] eqn:Eo; destruct (vget v vehicles) as [tyn|] eqn:En.
  - assert (tyn = tyo) by (eapply Stab; eauto). subst tyo. injection Ety as <-.
    destruct (vget v tours) as [nt|] eqn:Et.
    2:{ apply (v_same _ _ _ _ Vnew) in Et. congruence. }
    cbn [unwrap_opt bind].
    destruct (update_vehicle_total nw (tfn nw upd) (tfn nw (s_tours s)) m t v (info_of nw nt) I TT) as (t' & ->).
    + apply Hm. right. split; assumption.
    + intros Q. apply tfn_none in Q. apply (v_same _ _ _ _ Vold) in Q. congruence.
    + cbn [bind]. eauto.
  - injection Ety as <-.
    destruct (remove_vehicle_total nw (tfn nw upd) (tfn nw (s_tours s)) m t v I TT) as (t' & ->).
    + apply Hm. right. split; assumption.
    + intros Q. apply tfn_none in Q. apply (v_same _ _ _ _ Vold) in Q. congruence.
    + cbn [bind]. eauto.
  - destruct (vget v tours) as [nt|] eqn:Et.
    2:{ apply (v_same _ _ _ _ Vnew) in Et. congruence. }
    cbn [unwrap_opt bind]. destruct (add_own_total nw _ m t v (info_of nw nt) I) as (t' & ->). cbn [bind]. eauto.
  - destruct Hv as [Hv|Hv]; [discriminate|congruence].
Qed.

Lemma ut_fold_total l : forall done tr vi upd,
  J nw s vehicles tours done tr upd -> (forall v, In v l -> vid_is_real v = true) -> NoDup l ->
  (forall v, In v l -> ~ In v done) ->
  (forall v, In v l -> is_vehicle s v = true \/ vget v vehicles <> None) ->
  exists x, fold_left (ut_step nw s vehicles tours) l (Ok (tr, vi, upd)) = Ok x.
Proof.
  induction l as [|v l IH]; intros done tr vi upd HJ R N D C; cbn [fold_left]; [eauto|].
  destruct (ut_step_total done tr vi upd v HJ (R v (or_introl eq_refl)) (D v (or_introl eq_refl)) (C v (or_introl eq_refl)))
    as ([[tr1 vi1] upd1] & E).
  rewrite E. inversion N; subst.
  apply (IH (v :: done)).
  - eapply (J_step nw s vehicles tours ids' Vold Vnew Stab); [exact HJ| | |exact E]; [apply R; left; reflexivity|apply D; left; reflexivity].
  - intros x Hx. apply R. right. exact Hx.
  - assumption.
  - intros x Hx [<-|Hd]; [contradiction|]. eapply D; [right; exact Hx|exact Hd].
  - intros x Hx. apply C. right. exact Hx.
Qed.

Theorem update_transitions_total trans viol changed :
  TOK nw trans (tfn nw (s_tours s)) (s_ids s) -> NoDup (filter vid_is_real changed) ->
  (forall v, In v changed -> vid_is_real v = true -> is_vehicle s v = true \/ vget v vehicles <> None) ->
  exists r, update_transitions nw s trans viol changed vehicles tours = Ok r.
Proof.
  intros T N C. rewrite ut_unfold, ut_filter.
  destruct (ut_fold_total (filter vid_is_real changed) [] trans viol []) as ([[tr vi] upd] & E).
  - apply J_init; assumption.
  - intros v Hv. apply filter_In in Hv. tauto.
  - exact N.
  - intros v _ [].
  - intros v Hv. apply filter_In in Hv. destruct Hv. apply C; assumption.
  - rewrite E. cbn [bind]. eauto.
Qed.
End D.

Section D2.
Variable nw : network.

Theorem recompute_transitions_total trans viol ids tours types :
  (forall ty, In ty types -> exists l, zget ty ids = Some l /\ forall v, In v l -> vget v tours <> None) ->
  (forall ty, In ty types -> zget ty trans <> None) ->
  exists r, recompute_transitions nw trans viol ids tours types = Ok r.
Proof.
  intros H1 H2. unfold recompute_transitions.
  destruct (fold_total (fun acc ty => do (tr, vi) <- acc; do vs <- unwrap_opt (zget ty ids);
                do nt <- new_fast nw vs (tfn nw tours); do old_t <- unwrap_opt (zget ty tr);
                Ok (zset ty nt tr, vi + tr_viol nt - tr_viol old_t))
              (fun x => forall ty, In ty types -> zget ty (fst x) <> None) types) with (s := (trans, viol))
    as (r & E & _); [|exact H2|eauto].
  intros [tr vi] ty Hty Q. cbn [bind fst] in *. destruct (H1 ty Hty) as (l & -> & Hl). cbn [unwrap_opt bind].
  destruct (new_fast_total nw (tfn nw tours) l) as (nt & ->).
  { intros v Hv Q'. apply tfn_none in Q'. exact (Hl v Hv Q'). }
  cbn [bind]. destruct (zget ty tr) as [old_t|] eqn:Eo; [|exfalso; exact (Q ty Hty Eo)].
  cbn [unwrap_opt bind]. eexists. split; [reflexivity|]. cbn [fst]. intros ty' Hty'.
  rewrite (zget_zset _ _ _ _ _ Eo). destruct (ty' =? ty); [discriminate|apply Q; exact Hty'].
Qed.
End D2.

(** * formations and depot usage *)
Lemma fold_err {S V} (f : res S -> V -> res S) l : (forall v, f Err v = Err) -> fold_left f l Err = Err.
Proof. intros H. induction l as [|v l IH]; cbn [fold_left]; [reflexivity|]. rewrite H. exact IH. Qed.

Lemma fold_nc {S V} (f : res S -> V -> res S) (Q : S -> Prop) l : (forall v, f Err v = Err) ->
  (forall s v, In v l -> Q s -> (exists s', f (Ok s) v = Ok s' /\ Q s') \/ f (Ok s) v = Err) ->
  forall s, Q s -> (exists s', fold_left f l (Ok s) = Ok s' /\ Q s') \/ fold_left f l (Ok s) = Err.
Proof.
  intros HE. induction l as [|v l IH]; intros H s Qs; cbn [fold_left]; [left; eauto|].
  destruct (H s v (or_introl eq_refl) Qs) as [(s1 & E1 & Q1)|E1]; rewrite E1.
  - apply IH; [|exact Q1]. intros s0 v0 Hin. apply H. right. exact Hin.
  - right. apply fold_err. exact HE.
Qed.

Section E.
Variable nw : network.

Lemma repl_nc s f prov recv n : no_crash (replacement_in_formation nw s f prov recv n).
Proof.
  unfold replacement_in_formation.
  destruct recv as [[r rty]|]; destruct prov as [p|];
    repeat match goal with
           | |- no_crash (if ?c then _ else _) => destruct c
           | |- no_crash (match ?c with Some _ => _ | None => _ end) => destruct c
           end; try apply no_crash_err; try (eapply no_crash_ok; reflexivity).
Qed.

Lemma utf_total s forms uns prov recv moved :
  (forall n, In n moved -> is_depot (nd nw n) = false -> nget n forms <> None) ->
  (exists fm' uns', update_train_formation nw s forms uns prov recv moved = Ok (fm', uns') /\
                    forall n, nget n forms <> None -> nget n fm' <> None) \/
  update_train_formation nw s forms uns prov recv moved = Err.
Proof.
  intros H. unfold update_train_formation.
  match goal with |- (exists fm' uns', fold_left ?f _ _ = _ /\ _) \/ _ =>
    destruct (fold_nc f (fun x => forall n, nget n forms <> None -> nget n (fst x) <> None) moved) with (s := (forms, uns))
      as [([fm' uns'] & E & Q)|E] end.
  - intros v. reflexivity.
  - intros [fm [ua ub]] n Hn Q. cbn [bind fst] in *. destruct (is_depot (nd nw n)) eqn:D; [left; eauto|].
    destruct (nget n fm) as [f|] eqn:Ef; [|exfalso; exact (Q n (H n Hn D) Ef)]. cbn [unwrap_opt bind].
    destruct (no_crash_cases _ (repl_nc s f prov recv n)) as [(f' & ->)| ->]; cbn [bind]; [|right; reflexivity].
    left. eexists. split; [reflexivity|]. cbn [fst]. intros m Hm.
    rewrite (nset_key _ _ _ _ Ef), nget_nrepl. specialize (Q m Hm).
    destruct (nid_eqb m n); [destruct (nget m fm); [discriminate|congruence]|exact Q].
  - auto.
  - left. exists fm', uns'. split; [exact E|exact Q].
  - right. exact E.
Qed.

(** ** usage *)
Lemma ent_pair U d ty : ent_of U d ty = (sp_of U d ty, de_of U d ty).
Proof. unfold sp_of, de_of. destruct (ent_of U d ty); reflexivity. Qed.

Lemma rm_spawn_total U d ty v : In v (sp_of U d ty) ->
  exists U', usage_remove_spawn U d ty v = Ok U' /\
    (forall d' ty', de_of U' d' ty' = de_of U d' ty') /\
    (forall d' ty', sp_of U' d' ty' = if pair_eqb (d', ty') (d, ty) then set_del v (sp_of U d ty) else sp_of U d' ty').
Proof.
  intros H. unfold usage_remove_spawn. fold (ent_of U d ty). rewrite ent_pair.
  apply memv_in in H. rewrite H. eexists. split; [reflexivity|]. split; intros d' ty'; unfold sp_of, de_of;
    rewrite ent_uset; destruct (pair_eqb (d', ty') (d, ty)) eqn:Q; try reflexivity.
  apply pair_eqb_dec in Q. destruct Q as [-> ->]. reflexivity.
Qed.

Lemma rm_despawn_total U d ty v : In v (de_of U d ty) ->
  exists U', usage_remove_despawn U d ty v = Ok U' /\
    (forall d' ty', sp_of U' d' ty' = sp_of U d' ty') /\
    (forall d' ty', de_of U' d' ty' = if pair_eqb (d', ty') (d, ty) then set_del v (de_of U d ty) else de_of U d' ty').
Proof.
  intros H. unfold usage_remove_despawn. fold (ent_of U d ty). rewrite ent_pair.
  apply memv_in in H. rewrite H. eexists. split; [reflexivity|]. split; intros d' ty'; unfold sp_of, de_of;
    rewrite ent_uset; destruct (pair_eqb (d', ty') (d, ty)) eqn:Q; try reflexivity.
  apply pair_eqb_dec in Q. destruct Q as [-> ->]. reflexivity.
Qed.

Lemma add_spawn_de U d ty v d' ty' : de_of (usage_add_spawn U d ty v) d' ty' = de_of U d' ty'.
Proof.
  unfold usage_add_spawn. fold (ent_of U d ty). rewrite ent_pair. unfold de_of. rewrite ent_uset.
  destruct (pair_eqb (d', ty') (d, ty)) eqn:Q; [|reflexivity]. apply pair_eqb_dec in Q. destruct Q as [-> ->]. reflexivity.
Qed.
Lemma add_spawn_sp U d ty v d' ty' :
  sp_of (usage_add_spawn U d ty v) d' ty' = if pair_eqb (d', ty') (d, ty) then set_add v (sp_of U d ty) else sp_of U d' ty'.
Proof.
  unfold usage_add_spawn. fold (ent_of U d ty). rewrite ent_pair. unfold sp_of at 1. rewrite ent_uset.
  destruct (pair_eqb (d', ty') (d, ty)); reflexivity.
Qed.
Lemma add_despawn_sp U d ty v d' ty' : sp_of (usage_add_despawn U d ty v) d' ty' = sp_of U d' ty'.
Proof.
  unfold usage_add_despawn. fold (ent_of U d ty). rewrite ent_pair. unfold sp_of. rewrite ent_uset.
  destruct (pair_eqb (d', ty') (d, ty)) eqn:Q; [|reflexivity]. apply pair_eqb_dec in Q. destruct Q as [-> ->]. reflexivity.
Qed.
Lemma add_despawn_de U d ty v d' ty' :
  de_of (usage_add_despawn U d ty v) d' ty' = if pair_eqb (d', ty') (d, ty) then set_add v (de_of U d ty) else de_of U d' ty'.
Proof.
  unfold usage_add_despawn. fold (ent_of U d ty). rewrite ent_pair. unfold de_of at 1. rewrite ent_uset.
  destruct (pair_eqb (d', ty') (d, ty)); reflexivity.
Qed.

(* update_depot_usage_assuming_no_dummies: total when the new tour (if any) has depots at both ends and the vehicle,
   if it exists, is recorded where its current tour starts and ends *)
Lemma udu_nd_total s U v ty (nt : option tour) :
  (forall t', nt = Some t' -> is_start_depot (nd nw (first_node t')) = true /\ is_end_depot (nd nw (last_node t')) = true) ->
  (is_vehicle s v = true -> exists t, tour_of s v = Ok t /\
     is_start_depot (nd nw (first_node t)) = true /\ is_end_depot (nd nw (last_node t)) = true /\
     In v (sp_of U (get_depot_idx nw (first_node t)) ty) /\ In v (de_of U (get_depot_idx nw (last_node t)) ty)) ->
  exists U', update_depot_usage_nd nw s U v ty nt = Ok U'.
Proof.
  intros Hn Hv. unfold update_depot_usage_nd.
  assert (SD : exists sd, (match nt with Some t => do x <- start_depot nw t; Ok (Some x) | None => Ok None end) = Ok sd).
  { destruct nt as [t'|]; [|eauto]. unfold start_depot. rewrite (proj1 (Hn t' eq_refl)). cbn [bind]. eauto. }
  assert (ED : exists ed, (match nt with Some t => do x <- end_depot nw t; Ok (Some x) | None => Ok None end) = Ok ed).
  { destruct nt as [t'|]; [|eauto]. unfold end_depot. rewrite (proj2 (Hn t' eq_refl)). cbn [bind]. eauto. }
  destruct SD as (sd & ->). destruct ED as (ed & ->). cbn [bind].
  destruct (is_vehicle s v) eqn:IV; [|cbn [bind]; eauto].
  destruct (Hv eq_refl) as (t & Ht & S & E & Isp & Ide). rewrite Ht. cbn [bind].
  unfold start_depot, end_depot. rewrite S, E. cbn [bind].
  destruct (rm_spawn_total U _ ty v Isp) as (U1 & -> & D1 & _). cbn [bind].
  match goal with |- exists U', bind (usage_remove_despawn ?U2 ?d ty v) _ = _ =>
    destruct (rm_despawn_total U2 d ty v) as (U3 & -> & _) end.
  - destruct sd as [x|]; [rewrite add_spawn_de|]; rewrite D1; exact Ide.
  - cbn [bind]. eauto.
Qed.
End E.

(** * schedule-level consequences of [Good] *)
Lemma tsum_nn l : (forall k t, In (k, t) l -> 0 <= t_costs t) -> 0 <= tsum l.
Proof.
  induction l as [|[k t] l IH]; intros H; [unfold tsum, z_sum; cbn; lia|]. rewrite tsum_cons.
  pose proof (H k t (or_introl eq_refl)). assert (0 <= tsum l) by (apply IH; intros; eapply H; right; eauto). lia.
Qed.

Lemma vget_in {A} v (l : list (vehicle_id * A)) x : vget v l = Some x -> In (v, x) l.
Proof. unfold vget. intros H. apply (assoc_in _ vid_eqb_eq) in H. exact H. Qed.

Lemma in_vget {A} v (l : list (vehicle_id * A)) x : NoDup (map fst l) -> In (v, x) l -> vget v l = Some x.
Proof.
  induction l as [|[k y] l IH]; intros N H; [destruct H|]. rewrite vget_cons. cbn [map fst] in N. inversion N; subst.
  destruct H as [H|H].
  - inversion H; subst. rewrite vid_eqb_refl. reflexivity.
  - destruct (vid_eqb v k) eqn:E; [|apply IH; assumption].
    apply vid_eqb_eq in E. subst. exfalso. apply H2. apply in_map_iff. exists (k, x). auto.
Qed.

Lemma tsum_ge l v t : NoDup (map fst l) -> (forall k t, In (k, t) l -> 0 <= t_costs t) -> vget v l = Some t ->
  t_costs t <= tsum l.
Proof.
  intros N H G. pose proof (tsum_vdel v l t N G) as E.
  assert (0 <= tsum (vdel v l)).
  { apply tsum_nn. intros k t' Hin. unfold vdel in Hin. apply filter_In in Hin. eapply H. apply Hin. }
  lia.
Qed.

Lemma in_keys_nget {A} n (l : list (node_id * A)) : In n (map fst l) -> nget n l <> None.
Proof.
  unfold nget. induction l as [|[k y] l IH]; intros H; [destruct H|]. cbn [assoc].
  destruct (nid_eqb n k) eqn:E; [discriminate|]. cbn [map fst] in H. destruct H as [->|H]; [|apply IH; exact H].
  rewrite nid_eqb_refl in E. discriminate.
Qed.

Section F.
Variable nw : network.
Hypothesis NF : net_fine nw.
Hypothesis NX : net_extra_b nw = true.
Hypothesis DF : dists_finite_b nw = true.
Hypothesis DH : dh_dists_finite_b nw = true.
Notation d0 := (SD 0).
Let WFb := WF nw NF.
Let DPb := DP nw NF.

Lemma nondepot_coverable n : is_depot (nd nw n) = false -> In n (coverable_nodes nw).
Proof.
  intros D. destruct (NX_parts nw NX) as (_ & _ & _ & H). unfold nodes_coverable_b in H.
  apply andb_true_iff in H. destruct H as [H _]. rewrite forallb_forall in H.
  unfold nd in D. destruct (assoc nid_eqb n (nw_nodes nw)) as [x|] eqn:E; [|discriminate D].
  apply (assoc_in _ nid_eqb_eq) in E. specialize (H _ E). cbn in H.
  destruct x; cbn in D, H; try discriminate D; apply mem_nid_in in H; exact H.
Qed.

Section S.
Variable s : schedule.
Hypothesis G : GoodI nw s.
Hypothesis GF : FormsOK nw s.

Lemma vpart : VPart nw (s_vehicles s) (s_tours s) (s_ids s).
Proof.
  destruct (gi_listing _ _ G). constructor; auto.
  intros v. rewrite !vget_none_keys. rewrite (lo_same_keys v). tauto.
Qed.

Lemma nondepot_has_form n : is_depot (nd nw n) = false -> nget n (s_forms s) <> None.
Proof.
  intros D. apply in_keys_nget. apply (fo_keys _ _ GF). apply nondepot_coverable. exact D.
Qed.

Lemma tok : TOK nw (s_trans s) (tfn nw (s_tours s)) (s_ids s).
Proof. apply TransOK_TOK. exact (gi_trans _ _ G). Qed.

Lemma tour_cost_le v t : vget v (s_tours s) = Some t -> t_costs t <= s_costs s /\ 0 <= t_costs t.
Proof.
  intros H. destruct (gi_costs _ _ G) as [N E]. destruct (gi_exact _ _ G) as [EX _].
  assert (NNall : forall k t', In (k, t') (s_tours s) -> 0 <= t_costs t').
  { intros k t' Hin. apply (exact_costs_nn nw NF NX). apply (EX k). apply in_vget; assumption. }
  pose proof (tsum_ge _ _ _ N NNall H) as L. fold (tsum (s_tours s)) in E.
  destruct (rates_nn nw NX) as (_ & _ & _ & _ & R & _). split; [lia|]. eapply NNall. apply vget_in. exact H.
Qed.

(* everything about one existing vehicle *)
Lemma veh_facts v : is_vehicle s v = true ->
  exists ty t, vget v (s_vehicles s) = Some ty /\ In ty (type_ids nw) /\ vid_is_real v = true /\
    vget v (s_tours s) = Some t /\ tour_of s v = Ok t /\ is_dummy s v = false /\
    t_dummy t = false /\ RV nw (t_nodes t) /\ tour_exact nw t /\
    In v (sp_of (s_usage s) (get_depot_idx nw (first_node t)) ty) /\
    In v (de_of (s_usage s) (get_depot_idx nw (last_node t)) ty).
Proof.
  unfold is_vehicle. destruct (vget v (s_vehicles s)) as [ty|] eqn:Hv; [|discriminate]. intros _.
  destruct (veh_has_tour nw s G v ty Hv) as (t & Ht). exists ty, t.
  destruct (real_tour_facts nw s G v ty t Hv Ht) as (D & R & _).
  split; [reflexivity|]. split; [eapply veh_type_in; eauto|]. split; [eapply veh_real; eauto|]. split; [exact Ht|].
  split; [eapply tour_of_real_eq; eauto|]. split; [unfold is_dummy; rewrite (veh_not_dummy nw s G v ty Hv); reflexivity|].
  split; [exact D|]. split; [exact R|]. split; [apply (proj1 (gi_exact _ _ G) v t Ht)|].
  split.
  - apply (uo_spawned _ _ (gi_usage _ _ G)). exists t. auto.
  - apply (uo_despawned _ _ (gi_usage _ _ G)). exists t. auto.
Qed.

Lemma RV_TV t : t_dummy t = false -> RV nw (t_nodes t) -> TV nw t.
Proof. unfold TV. intros ->. auto. Qed.
Lemma RV_shape t : t_dummy t = false -> RV nw (t_nodes t) -> shape nw t.
Proof. unfold shape. intros ->. auto. Qed.

Lemma utf_tour_total forms uns prov recv moved :
  (forall n, nget n (s_forms s) <> None -> nget n forms <> None) ->
  (exists fm' uns', update_train_formation nw s forms uns prov recv moved = Ok (fm', uns') /\
                    forall n, nget n (s_forms s) <> None -> nget n fm' <> None) \/
  update_train_formation nw s forms uns prov recv moved = Err.
Proof.
  intros K. destruct (utf_total nw s forms uns prov recv moved) as [(fm' & uns' & E & Q)|E]; [| |right; exact E].
  - intros n _ D. apply K. apply nondepot_has_form. exact D.
  - left. exists fm', uns'. split; [exact E|]. intros n Hn. apply Q. apply K. exact Hn.
Qed.

(** ** replace_vehicle_by_dummy *)
Lemma replace_vehicle_nc v : no_crash (replace_vehicle_by_dummy nw s v).
Proof.
  unfold replace_vehicle_by_dummy. destruct (is_vehicle s v) eqn:IV; cbn [negb]; [|apply no_crash_err].
  destruct (veh_facts v IV) as (ty & t & Hv & Ity & Rv & Ht & Hto & ND & D & R & EX & Isp & Ide).
  unfold vehicle_type_of. rewrite Hv. cbn [ok_or_err bind].
  pose proof vpart as VP.
  assert (IR : exists ids', ids_remove ty v (s_ids s) = Ok ids').
  { unfold ids_remove. pose proof (proj1 (v_ids _ _ _ _ VP v ty) Hv) as Hin. unfold SchedListFacts.iter in Hin.
    destruct (zget ty (s_ids s)) as [l|]; [|exfalso; exact Hin]. cbn [unwrap_opt bind]. unfold sorted_remove.
    rewrite (proj2 (memv_in v l) Hin). cbn [bind]. eauto. }
  destruct IR as (ids' & IR). rewrite IR. cbn [bind]. rewrite Ht. cbn [unwrap_opt bind].
  destruct (utf_tour_total (s_forms s) (s_unserved s) (Some v) None (t_nodes t)) as [(fm' & uns' & -> & _)| ->];
    [auto| |apply no_crash_err]. cbn [bind].
  assert (UD : exists u', update_depot_usage nw s (s_usage s) (vdel v (s_vehicles s)) (vdel v (s_tours s)) v = Ok u').
  { unfold update_depot_usage. rewrite vget_vdel, vid_eqb_refl, Hv.
    destruct (udu_nd_total nw s (s_usage s) v ty None) as (u' & ->); [discriminate| |eauto].
    intros _. exists t. repeat split; auto; [apply RV_first|apply RV_last]; exact R. }
  destruct UD as (u' & ->). cbn [bind].
  destruct (z_sub_cost_total (s_costs s) (t_costs t)) as (c & -> & _); [apply tour_cost_le with (v := v); exact Ht|].
  cbn [bind].
  assert (SP : exists sp, sub_path nw t (first_node t, last_node t) = Ok sp).
  { pose proof R as (NE & C & S & E & x & Hx & Dx). eexists.
    apply (sub_path_total nw t 0%nat (length (t_nodes t) - 1)%nat).
    - exact (proj1 NF).
    - apply (connected_chrono nw WFb DPb). exact C.
    - exact C.
    - apply (connected_nodup nw WFb DPb). exact C.
    - unfold first_node, nth_node. apply nth_error_nth'. destruct (t_nodes t); [congruence|cbn; lia].
    - unfold last_node, nth_node, tlen. apply nth_error_nth'. destruct (t_nodes t); [congruence|cbn; lia].
    - lia.
    - unfold ref_sub_path, all_depots. cbn [skipn]. rewrite firstn_all2 by lia.
      apply (forallb_false_ex _ _ x Hx). exact Dx. }
  destruct SP as (sp & ->). cbn [bind].
  destruct (update_transitions_total nw s (vdel v (s_vehicles s)) (vdel v (s_tours s)) ids' VP
              (V_remove nw _ _ _ v ty ids' VP Hv IR) (stab_vdel _ v) (s_trans s) (s_viol s) [v] tok (nodup_filter_one v))
    as ([tr vi] & UT).
  { intros x [<-|[]] _. left. exact IV. }
  match goal with |- context [tour_new_dummy nw ?X] => destruct (tour_new_dummy nw X) as [dt| | |] end;
  unfold add_dummy_tour; cbv beta iota zeta; rewrite UT; cbn [bind]; eapply no_crash_ok; reflexivity.
Qed.

(** ** remove_segment *)
Theorem remove_segment_nc seg v : no_crash (remove_segment nw s seg v).
Proof.
  unfold remove_segment. destruct (is_vehicle s v) eqn:IV; cbn [negb]; [|apply no_crash_err].
  destruct (veh_facts v IV) as (ty & t & Hv & Ity & Rv & Ht & Hto & ND & D & R & EX & Isp & Ide).
  rewrite Hto. cbn [bind].
  destruct (no_crash_cases _ (remove_total nw NF NX t seg (RV_shape t D R) EX)) as [([shr removed] & E)|E];
    rewrite E; cbn [bind]; [|apply no_crash_err].
  destruct shr as [nt|]; [|apply replace_vehicle_nc].
  destruct (remove_valid nw t seg _ _ (RV_TV t D R) E) as (i & j & _ & _ & _ & _ & _ & _ & Dn & TVn & _).
  assert (Rn : RV nw (t_nodes nt)) by (unfold TV in TVn; rewrite Dn, D in TVn; exact TVn).
  pose proof (remove_E nw WFb DF DH t seg nt removed (RV_TV t D R) EX E) as EXn.
  destruct (utf_tour_total (s_forms s) (s_unserved s) (Some v) None removed) as [(fm' & uns' & -> & _)| ->];
    [auto| |apply no_crash_err]. cbn [bind].
  unfold update_tour_and_costs. rewrite ND, Ht. cbn [unwrap_opt bind].
  destruct (z_sub_cost_total (s_costs s + t_costs nt) (t_costs t)) as (c & -> & _).
  { pose proof (tour_cost_le v t Ht). pose proof (exact_costs_nn nw NF NX nt EXn). lia. }
  cbn [bind].
  assert (UD : exists u', update_depot_usage nw s (s_usage s) (s_vehicles s) (vset v nt (s_tours s)) v = Ok u').
  { unfold update_depot_usage. rewrite Hv, vget_vset, vid_eqb_refl.
    destruct (udu_nd_total nw s (s_usage s) v ty (Some nt)) as (u' & ->); [| |eauto].
    - intros t' Q. injection Q as <-. split; [apply RV_first|apply RV_last]; exact Rn.
    - intros _. exists t. repeat split; auto; [apply RV_first|apply RV_last]; exact R. }
  destruct UD as (u' & ->). cbn [bind].
  pose proof vpart as VP.
  destruct (update_transitions_total nw s (s_vehicles s) (vset v nt (s_tours s)) (s_ids s) VP
              (V_tours_vset_old nw _ _ _ v nt t VP Ht) (fun x a b H1 H2 => eq_trans (eq_sym (f_equal (fun o => match o with Some z => z | None => a end) H1)) (f_equal (fun o => match o with Some z => z | None => a end) H2))
              (s_trans s) (s_viol s) [v] tok (nodup_filter_one v))
    as ([tr vi] & UT).
  { intros x [<-|[]] _. left. exact IV. }
  match goal with |- context [tour_new_dummy nw ?X] => destruct (tour_new_dummy nw X) as [dt| | |] end;
  unfold add_dummy_tour; cbv beta iota zeta; rewrite UT; cbn [bind]; eapply no_crash_ok; reflexivity.
Qed.
End S.
End F.

(** * improve_depots *)
Lemma z_sum_map_le {A} (f g : A -> Z) l : (forall x, In x l -> f x <= g x) -> z_sum (map f l) <= z_sum (map g l).
Proof.
  induction l as [|a l IH]; intros H; [unfold z_sum; cbn; lia|]. cbn [map]. rewrite !z_sum_cons.
  pose proof (H a (or_introl eq_refl)). assert (z_sum (map f l) <= z_sum (map g l)) by (apply IH; intros; apply H; now right). lia.
Qed.
Lemma z_sum_map_le1 (f g : Z -> Z) l x0 : NoDup l -> (forall x, In x l -> x <> x0 -> f x <= g x) -> f x0 <= g x0 + 1 ->
  z_sum (map f l) <= z_sum (map g l) + 1.
Proof.
  intros N H H0. destruct (in_dec Z.eq_dec x0 l) as [Hin|Hin].
  - induction l as [|a l IH]; [destruct Hin|]. cbn [map]. rewrite !z_sum_cons. inversion N; subst.
    destruct (Z.eq_dec a x0) as [->|Ne].
    + assert (z_sum (map f l) <= z_sum (map g l)).
      { apply z_sum_map_le. intros x Hx. apply H; [right; exact Hx|]. intros ->. contradiction. }
      lia.
    + destruct Hin as [Hin|Hin]; [congruence|].
      pose proof (H a (or_introl eq_refl) Ne).
      assert (z_sum (map f l) <= z_sum (map g l) + 1) by (apply IH; auto; intros; apply H; auto; now right). lia.
  - assert (z_sum (map f l) <= z_sum (map g l)); [|lia].
    apply z_sum_map_le. intros x Hx. apply H; [exact Hx|]. intros ->. contradiction.
Qed.

Lemma set_del_len v (l : list vehicle_id) : (length (set_del v l) <= length l)%nat.
Proof.
  unfold set_del. induction l as [|a l IH]; cbn [filter length]; [lia|]. destruct (negb (vid_eqb a v)); cbn [length]; lia.
Qed.
Lemma set_add_len v (l : list vehicle_id) : (length (set_add v l) <= length l + 1)%nat.
Proof. unfold set_add. destruct (memv v l); [lia|]. rewrite app_length. cbn. lia. Qed.
Lemma set_del_len_in v (l : list vehicle_id) : NoDup l -> In v l -> (length (set_del v l) + 1 = length l)%nat.
Proof.
  induction l as [|a l IH]; intros N H; [destruct H|]. inversion N; subst. unfold set_del in *. cbn [filter].
  destruct (vid_eqb a v) eqn:E; cbn [negb length].
  - apply vid_eqb_eq in E. subst a. rewrite (filter_notin v l H2). lia.
  - destruct H as [->|H]; [rewrite vid_eqb_refl in E; discriminate|]. specialize (IH H3 H). lia.
Qed.

Definition imp_step2 (nw : network) (s : schedule)
  : res (list (vehicle_id * tour) * usage_t * Z) -> vehicle_id -> res (list (vehicle_id * tour) * usage_t * Z) :=
  fun acc v =>
    do (tours, u, costs) <- acc;
    do t <- (match tour_of s v with Ok t => Ok t | _ => Panic end);
    do ty <- (match vehicle_type_of s v with Ok ty => Ok ty | _ => Panic end);
    do nt <- improve_depots_of_tour nw u t ty;
    do c <- z_sub_cost (costs + t_costs nt) (t_costs t);
    let u1 := usage_add_spawn u (get_depot_idx nw (first_node nt)) ty v in
    let u2 := usage_add_despawn u1 (get_depot_idx nw (last_node nt)) ty v in
    Ok (vset v nt tours, u2, c).

Section H.
Variable nw : network.
Hypothesis NF : net_fine nw.
Hypothesis NX : net_extra_b nw = true.
Notation d0 := (SD 0).
Let WFb := WF nw NF.
Let DPb := DP nw NF.

(** ** room in the depots, by counts *)
Definition RoomN (k : Z) (u : usage_t) : Prop :=
  forall ty, In ty (type_ids nw) ->
    exists sd, In sd (nw_sdepots nw) /\ capacity_of nw (get_depot_idx nw sd) ty <> 0 /\
      spawned_same_type u (get_depot_idx nw sd) ty + k <= capacity_of nw (get_depot_idx nw sd) ty /\
      spawned_total nw u (get_depot_idx nw sd) + k <= total_capacity_of nw (get_depot_idx nw sd).
Definition Cnt (U0 : usage_t) (k : Z) (u : usage_t) : Prop :=
  (forall d ty, spawned_same_type u d ty <= spawned_same_type U0 d ty + k) /\
  (forall d, spawned_total nw u d <= spawned_total nw U0 d + k).

Lemma nsp_len u d ty : spawned_same_type u d ty = Z.of_nat (length (sp_of u d ty)).
Proof. unfold spawned_same_type, sp_of, ent_of. destruct (uget (d, ty) u) as [[sp de]|]; reflexivity. Qed.

Lemma spawnroom_roomn s : SpawnRoom nw s -> RoomN 1 (s_usage s).
Proof.
  intros H ty Hty. destruct (H ty d0 Hty) as (d & E). unfold find_best_start_depot in E. apply unwrap_opt_ok in E.
  apply find_some in E. destruct E as [Hin C]. unfold start_depots_sorted_by_distance_to in Hin. apply sort_by_in in Hin.
  exists d. split; [exact Hin|]. unfold can_depot_spawn in C.
  destruct (Z.eqb_spec (capacity_of nw (get_depot_idx nw d) ty) 0); [discriminate|].
  destruct (Z.leb_spec (capacity_of nw (get_depot_idx nw d) ty) (spawned_same_type (s_usage s) (get_depot_idx nw d) ty)); [discriminate|].
  destruct (Z.leb_spec (total_capacity_of nw (get_depot_idx nw d)) (spawned_total nw (s_usage s) (get_depot_idx nw d))); [discriminate|].
  repeat split; [assumption|lia|lia].
Qed.

Lemma room_find U0 K k u ty first : RoomN K U0 -> Cnt U0 k u -> k + 1 <= K -> In ty (type_ids nw) ->
  exists d, find_best_start_depot nw u ty first = Ok d /\ In d (nw_sdepots nw).
Proof.
  intros R [C1 C2] L Hty. destruct (R ty Hty) as (sd & Hin & N0 & N1 & N2).
  unfold find_best_start_depot, start_depots_sorted_by_distance_to.
  match goal with |- context [find ?f ?l] => destruct (find f l) as [d|] eqn:E end.
  - apply find_some in E. destruct E as [Hd _]. apply sort_by_in in Hd. exists d. split; [reflexivity|exact Hd].
  - exfalso. pose proof (find_none _ _ E sd) as Q. rewrite sort_by_in in Q. specialize (Q Hin).
    unfold can_depot_spawn in Q. specialize (C1 (get_depot_idx nw sd) ty). specialize (C2 (get_depot_idx nw sd)).
    destruct (Z.eqb_spec (capacity_of nw (get_depot_idx nw sd) ty) 0); [contradiction|].
    destruct (Z.leb_spec (capacity_of nw (get_depot_idx nw sd) ty) (spawned_same_type u (get_depot_idx nw sd) ty)); [lia|].
    destruct (Z.leb_spec (total_capacity_of nw (get_depot_idx nw sd)) (spawned_total nw u (get_depot_idx nw sd))); [lia|].
    discriminate.
Qed.

Lemma cnt_le U0 k u u' : Cnt U0 k u -> (forall d ty, (length (sp_of u' d ty) <= length (sp_of u d ty))%nat) -> Cnt U0 k u'.
Proof.
  intros [C1 C2] H.
  assert (P : forall d ty, spawned_same_type u' d ty <= spawned_same_type u d ty).
  { intros d ty. rewrite !nsp_len. specialize (H d ty). lia. }
  split.
  - intros d ty. specialize (P d ty). specialize (C1 d ty). lia.
  - intros d. specialize (C2 d). unfold spawned_total in *.
    assert (z_sum (map (fun ty => spawned_same_type u' d ty) (type_ids nw)) <=
            z_sum (map (fun ty => spawned_same_type u d ty) (type_ids nw))) by (apply z_sum_map_le; intros; apply P). lia.
Qed.

Lemma cnt_add U0 k u u' dk tyk : Cnt U0 k u ->
  (forall d ty, (length (sp_of u' d ty) <= length (sp_of u d ty) + (if pair_eqb (d, ty) (dk, tyk) then 1 else 0))%nat) ->
  Cnt U0 (k + 1) u'.
Proof.
  intros [C1 C2] H.
  assert (P : forall d ty, spawned_same_type u' d ty <= spawned_same_type u d ty + (if pair_eqb (d, ty) (dk, tyk) then 1 else 0)).
  { intros d ty. rewrite !nsp_len. specialize (H d ty). destruct (pair_eqb (d, ty) (dk, tyk)); lia. }
  split.
  - intros d ty. specialize (P d ty). specialize (C1 d ty). destruct (pair_eqb (d, ty) (dk, tyk)); lia.
  - intros d. specialize (C2 d). unfold spawned_total in *.
    assert (z_sum (map (fun ty => spawned_same_type u' d ty) (type_ids nw)) <=
            z_sum (map (fun ty => spawned_same_type u d ty) (type_ids nw)) + 1); [|lia].
    apply (z_sum_map_le1 _ _ _ tyk); [apply type_ids_nodup| |].
    + intros ty _ Ne. specialize (P d ty). destruct (pair_eqb (d, ty) (dk, tyk)) eqn:Q; [|lia].
      apply pair_eqb_dec in Q. destruct Q. contradiction.
    + specialize (P d tyk). destruct (pair_eqb (d, tyk) (dk, tyk)); lia.
Qed.

(** ** improve_depots_of_tour *)
Lemma sdepots_kind d : In d (nw_sdepots nw) -> is_start_depot (nd nw d) = true.
Proof.
  destruct (NX_parts nw NX) as (_ & _ & H & _). unfold depots_listed_b in H. rewrite !andb_true_iff in H.
  destruct H as [[H _] _]. rewrite forallb_forall in H. apply H.
Qed.
Lemma edepots_kind d : In d (nw_edepots nw) -> is_end_depot (nd nw d) = true.
Proof.
  destruct (NX_parts nw NX) as (_ & _ & H & _). unfold depots_listed_b in H. rewrite !andb_true_iff in H.
  destruct H as [[_ H] _]. rewrite forallb_forall in H. apply H.
Qed.
Lemma best_end_depot n : exists e, find_best_end_depot nw n = Ok e /\ is_end_depot (nd nw e) = true.
Proof.
  destruct (NX_parts nw NX) as (_ & _ & H & _). unfold depots_listed_b in H. rewrite !andb_true_iff in H.
  destruct H as [_ H]. unfold find_best_end_depot, end_depots_sorted_by_distance_from.
  match goal with |- context [hd_error ?l] => destruct l as [|e r] eqn:E end.
  - exfalso. apply (f_equal (@length node_id)) in E. rewrite sort_by_length in E. cbn in E. rewrite E in H. discriminate.
  - exists e. split; [reflexivity|]. apply edepots_kind.
    eapply sort_by_in. rewrite E. left. reflexivity.
Qed.

Lemma idt_total u t ty : t_dummy t = false -> RV nw (t_nodes t) -> tour_exact nw t ->
  (forall first, exists d, find_best_start_depot nw u ty first = Ok d /\ In d (nw_sdepots nw)) ->
  exists nt, improve_depots_of_tour nw u t ty = Ok nt /\ t_dummy nt = false /\ RV nw (t_nodes nt) /\ tour_exact nw nt.
Proof.
  intros D R EX HR. unfold improve_depots_of_tour.
  pose proof (RV_length nw _ R) as L3.
  assert (F : exists fnd, first_non_depot t = Some fnd).
  { unfold first_non_depot, non_depots. rewrite D. destruct (t_nodes t) as [|a [|b [|c r]]]; cbn in L3; try lia.
    cbn. eauto. }
  destruct F as (fnd & ->). cbn [unwrap_opt bind].
  destruct (HR fnd) as (nsd & -> & Hnsd). cbn [bind]. apply sdepots_kind in Hnsd.
  unfold start_depot at 1. rewrite (RV_first nw t R). cbn [bind].
  assert (T1 : exists t1, (if negb (nid_eqb nsd (first_node t))
                           then match replace_start_depot nw t nsd with Ok x => Ok x | _ => Panic end else Ok t) = Ok t1 /\
                          t_dummy t1 = false /\ RV nw (t_nodes t1) /\ tour_exact nw t1).
  { destruct (negb (nid_eqb nsd (first_node t))); [|eauto].
    destruct (replace_start_total nw NF NX t nsd D R EX Hnsd) as (t1 & E1). rewrite E1. exists t1. split; [reflexivity|].
    destruct (replace_start_depot_valid nw t nsd t1 R E1) as (D1 & R1 & _). rewrite D in D1.
    split; [exact D1|]. split; [exact R1|].
    apply (replace_start_depot_exact nw t nsd t1 WFb EX (RV_first nw t R) E1). }
  destruct T1 as (t1 & -> & D1 & R1 & EX1). cbn [bind].
  assert (L : exists lnd, last_non_depot nw t1 = Some lnd).
  { unfold last_non_depot. match goal with |- context [find ?f ?l] => destruct (find f l) as [x|] eqn:E end; [eauto|].
    exfalso. destruct R1 as (_ & _ & _ & _ & x & Hx & Dx). pose proof (find_none _ _ E x) as Q.
    rewrite <- in_rev in Q. specialize (Q Hx). cbn in Q. rewrite Dx in Q. discriminate. }
  destruct L as (lnd & ->). cbn [unwrap_opt bind].
  destruct (best_end_depot lnd) as (ned & -> & Hned). cbn [bind].
  unfold end_depot at 1. rewrite (RV_last nw t1 R1). cbn [bind].
  destruct (negb (nid_eqb ned (last_node t1))); [|eauto].
  destruct (replace_end_total nw NF NX t1 ned D1 R1 EX1 Hned) as (t2 & E2). rewrite E2. exists t2. split; [reflexivity|].
  destruct (replace_end_depot_valid nw t1 ned t2 R1 E2) as (D2 & R2 & _). rewrite D1 in D2.
  split; [exact D2|]. split; [exact R2|].
  apply (replace_end_depot_exact nw t1 ned t2 WFb EX1 (RV_last nw t1 R1) E2).
Qed.
Lemma RoomN_mono k k' u : k' <= k -> RoomN k u -> RoomN k' u.
Proof.
  intros L R ty Hty. destruct (R ty Hty) as (sd & A & B & C & D). exists sd. repeat split; auto; lia.
Qed.
Lemma RoomN_ext k u u' : (forall d ty, spawned_same_type u' d ty = spawned_same_type u d ty) -> RoomN k u -> RoomN k u'.
Proof.
  intros E R ty Hty. destruct (R ty Hty) as (sd & A & B & C & D). exists sd. split; [exact A|]. split; [exact B|].
  rewrite E. split; [exact C|]. unfold spawned_total in *.
  rewrite (map_ext (fun ty0 => spawned_same_type u' (get_depot_idx nw sd) ty0) (fun ty0 => spawned_same_type u (get_depot_idx nw sd) ty0)); [exact D|].
  intros; apply E.
Qed.
End H.

Lemma oc_sum_le : forall l (T : list (vehicle_id * tour)),
  NoDup (map fst T) -> (forall k t, In (k, t) T -> 0 <= t_costs t) -> NoDup l ->
  z_sum (map (fun x => match vget x T with Some t => t_costs t | None => 0 end) l) <= tsum T.
Proof.
  induction l as [|v l IH]; intros T N H NL.
  - unfold z_sum at 1. cbn. apply tsum_nn. exact H.
  - cbn [map]. rewrite z_sum_cons. inversion NL; subst.
    destruct (vget v T) as [t|] eqn:E; [|specialize (IH T N H H3); lia].
    pose proof (tsum_vdel v T t N E) as D.
    assert (Q : z_sum (map (fun x => match vget x (vdel v T) with Some t => t_costs t | None => 0 end) l) <= tsum (vdel v T)).
    { apply IH; [apply keys_vdel_nodup; exact N| |exact H3].
      intros k t' Hin. unfold vdel in Hin. apply filter_In in Hin. eapply H. apply Hin. }
    assert (R : map (fun x => match vget x (vdel v T) with Some t => t_costs t | None => 0 end) l =
                map (fun x => match vget x T with Some t => t_costs t | None => 0 end) l).
    { apply map_ext_in. intros x Hx. rewrite vget_vdel. destruct (vid_eqb x v) eqn:Q'; [|reflexivity].
      apply vid_eqb_eq in Q'. subst. contradiction. }
    rewrite R in Q. lia.
Qed.

Lemma inline_rm_spawn (u : usage_t) d ty v : In v (sp_of u d ty) ->
  (match uget (d, ty) u with
   | Some (sp, de) => if memv v sp then Ok (uset (d, ty) (set_del v sp, de) u) else Panic
   | None => Panic end) = usage_remove_spawn u d ty v.
Proof. unfold usage_remove_spawn, sp_of, ent_of. destruct (uget (d, ty) u) as [[sp de]|]; [reflexivity|intros []]. Qed.
Lemma inline_rm_despawn (u : usage_t) d ty v : In v (de_of u d ty) ->
  (match uget (d, ty) u with
   | Some (sp, de) => if memv v de then Ok (uset (d, ty) (sp, set_del v de) u) else Panic
   | None => Panic end) = usage_remove_despawn u d ty v.
Proof. unfold usage_remove_despawn, de_of, ent_of. destruct (uget (d, ty) u) as [[sp de]|]; [reflexivity|intros []]. Qed.

Section I.
Variable nw : network.
Hypothesis NF : net_fine nw.
Hypothesis NX : net_extra_b nw = true.
Variable s : schedule.
Hypothesis G : GoodI nw s.
Let WFb := WF nw NF.

Definition oc (x : vehicle_id) : Z := match vget x (s_tours s) with Some t => t_costs t | None => 0 end.

Lemma step1_total u v ty t : vget v (s_vehicles s) = Some ty -> vget v (s_tours s) = Some t -> RV nw (t_nodes t) ->
  In v (sp_of u (get_depot_idx nw (first_node t)) ty) -> In v (de_of u (get_depot_idx nw (last_node t)) ty) ->
  exists u2, imp_step1 nw s (Ok u) v = Ok u2 /\
    (forall d' ty', sp_of u2 d' ty' = if pair_eqb (d', ty') (get_depot_idx nw (first_node t), ty)
                                       then set_del v (sp_of u (get_depot_idx nw (first_node t)) ty) else sp_of u d' ty') /\
    (forall d' ty', de_of u2 d' ty' = if pair_eqb (d', ty') (get_depot_idx nw (last_node t), ty)
                                       then set_del v (de_of u (get_depot_idx nw (last_node t)) ty) else de_of u d' ty').
Proof.
  intros Hv Ht R Isp Ide. unfold imp_step1. cbn [bind]. unfold vehicle_type_of, tour_of. rewrite Hv, Ht. cbn [ok_or_err bind].
  unfold start_depot, end_depot. rewrite (RV_first nw t R), (RV_last nw t R). cbn [bind].
  rewrite (inline_rm_spawn u _ ty v Isp).
  destruct (rm_spawn_total u _ ty v Isp) as (u1 & -> & D1 & S1). cbn [bind].
  assert (Ide1 : In v (de_of u1 (get_depot_idx nw (last_node t)) ty)) by (rewrite D1; exact Ide).
  rewrite (inline_rm_despawn u1 _ ty v Ide1).
  destruct (rm_despawn_total u1 _ ty v Ide1) as (u2 & -> & S2 & D2). exists u2. split; [reflexivity|]. split.
  - intros d' ty'. rewrite S2, S1. reflexivity.
  - intros d' ty'. rewrite D2, !D1. reflexivity.
Qed.

Lemma fold1_total l : NoDup l -> forall u,
  (forall v, In v l -> exists ty t, vget v (s_vehicles s) = Some ty /\ vget v (s_tours s) = Some t /\ RV nw (t_nodes t) /\
      In v (sp_of u (get_depot_idx nw (first_node t)) ty) /\ In v (de_of u (get_depot_idx nw (last_node t)) ty)) ->
  exists u', fold_left (imp_step1 nw s) l (Ok u) = Ok u' /\
             forall d ty, (length (sp_of u' d ty) <= length (sp_of u d ty))%nat.
Proof.
  induction l as [|v l IH]; intros N u H; cbn [fold_left]; [exists u; split; [reflexivity|intros; lia]|].
  inversion N; subst.
  destruct (H v (or_introl eq_refl)) as (ty & t & Hv & Ht & R & Isp & Ide).
  destruct (step1_total u v ty t Hv Ht R Isp Ide) as (u2 & -> & S2 & D2).
  destruct (IH H3 u2) as (u' & E & L).
  - intros x Hx. destruct (H x (or_intror Hx)) as (tyx & tx & Hvx & Htx & Rx & Ispx & Idex).
    exists tyx, tx. split; [exact Hvx|]. split; [exact Htx|]. split; [exact Rx|]. split.
    + rewrite S2. destruct (pair_eqb _ _) eqn:Q; [|exact Ispx]. apply pair_eqb_dec in Q. destruct Q as [Q1 Q2].
      apply set_del_in. split; [rewrite <- Q1, <- Q2; exact Ispx|]. intros ->. contradiction.
    + rewrite D2. destruct (pair_eqb _ _) eqn:Q; [|exact Idex]. apply pair_eqb_dec in Q. destruct Q as [Q1 Q2].
      apply set_del_in. split; [rewrite <- Q1, <- Q2; exact Idex|]. intros ->. contradiction.
  - exists u'. split; [exact E|]. intros d ty'. specialize (L d ty'). rewrite S2 in L.
    destruct (pair_eqb _ _) eqn:Q; [|exact L]. apply pair_eqb_dec in Q. destruct Q as [-> ->].
    pose proof (set_del_len v (sp_of u (get_depot_idx nw (first_node t)) ty)). lia.
Qed.

Section F2.
Variable U0 : usage_t.
Variable K : Z.
Hypothesis RM : RoomN nw K U0.

Lemma fold2_total l : NoDup l -> (forall v, In v l -> is_vehicle s v = true) -> forall tours u costs k,
  Cnt nw U0 k u -> k + Z.of_nat (length l) <= K ->
  (forall x, vget x tours = None <-> vget x (s_tours s) = None) ->
  z_sum (map oc l) <= costs ->
  exists tours' u' costs', fold_left (imp_step2 nw s) l (Ok (tours, u, costs)) = Ok (tours', u', costs') /\
    (forall x, vget x tours' = None <-> vget x (s_tours s) = None) /\
    (forall x, ~ In x l -> vget x tours' = vget x tours).
Proof.
  induction l as [|v l IH]; intros N HV tours u costs k C LK KE CO; cbn [fold_left].
  { exists tours, u, costs. split; [reflexivity|]. split; [exact KE|reflexivity]. }
  inversion N; subst. cbn [length] in LK. cbn [map] in CO. rewrite z_sum_cons in CO.
  destruct (veh_facts nw s G v (HV v (or_introl eq_refl))) as (ty & t & Hv & Ity & Rv & Ht & Hto & ND & D & R & EX & _ & _).
  unfold imp_step2 at 2. cbn [bind]. rewrite Hto. unfold vehicle_type_of. rewrite Hv. cbn [ok_or_err bind].
  destruct (idt_total nw NF NX u t ty D R EX) as (nt & -> & Dn & Rn & EXn).
  { intros first. apply (room_find nw U0 K k u ty first RM C); [lia|exact Ity]. }
  cbn [bind]. unfold oc at 1 in CO. rewrite Ht in CO.
  pose proof (exact_costs_nn nw NF NX nt EXn) as NNn.
  destruct (z_sub_cost_total (costs + t_costs nt) (t_costs t)) as (c & -> & Ec).
  { assert (0 <= z_sum (map oc l)); [|lia]. apply z_sum_map_nn. intros x _. unfold oc.
    destruct (vget x (s_tours s)) as [tx|] eqn:Q; [|lia]. apply (tour_cost_le nw NF NX s G x tx Q). }
  cbn [bind].
  destruct (IH H2 (fun x Hx => HV x (or_intror Hx)) (vset v nt tours)
              (usage_add_despawn (usage_add_spawn u (get_depot_idx nw (first_node nt)) ty v) (get_depot_idx nw (last_node nt)) ty v)
              c (k + 1)) as (tours' & u' & costs' & E & KE' & FR).
  - apply (cnt_add nw U0 k u _ (get_depot_idx nw (first_node nt)) ty C). intros d ty'. rewrite add_despawn_sp, add_spawn_sp.
    destruct (pair_eqb (d, ty') (get_depot_idx nw (first_node nt), ty)) eqn:Q; [|lia].
    apply pair_eqb_dec in Q. destruct Q as [-> ->]. apply set_add_len.
  - lia.
  - intros x. rewrite vget_vset. destruct (vid_eqb x v) eqn:Q; [|apply KE].
    apply vid_eqb_eq in Q. subst. rewrite Ht. split; discriminate.
  - lia.
  - exists tours', u', costs'. split; [exact E|]. split; [exact KE'|].
    intros x Hx. rewrite FR by (intros Q; apply Hx; right; exact Q). rewrite vget_vset.
    destruct (vid_eqb x v) eqn:Q; [|reflexivity]. apply vid_eqb_eq in Q. subst. exfalso. apply Hx. left. reflexivity.
Qed.
End F2.

Lemma cnt_refl U0 : Cnt nw U0 0 U0.
Proof. split; intros; lia. Qed.

Lemma real_keys v : vget v (s_vehicles s) <> None -> vid_is_real v = true.
Proof.
  intros H. apply (lo_real _ _ (gi_listing _ _ G)). apply in_keys_iff. exact H.
Qed.

Theorem improve_depots_total changed : NoDup changed -> (forall v, In v changed -> is_vehicle s v = true) ->
  RoomN nw (Z.of_nat (length changed)) (s_usage s) ->
  exists s', improve_depots nw s (Some changed) = Ok s' /\
    s_vehicles s' = s_vehicles s /\ s_ids s' = s_ids s /\
    VPart nw (s_vehicles s) (s_tours s') (s_ids s) /\
    TOK nw (s_trans s') (tfn nw (s_tours s')) (s_ids s).
Proof.
  intros N HV RM. unfold improve_depots. cbv beta iota zeta.
  match goal with |- exists s', bind (fold_left ?f ?l ?a) _ = _ /\ _ => change f with (imp_step1 nw s) end.
  destruct (fold1_total changed N (s_usage s)) as (u0 & E0 & L0).
  { intros v Hv. destruct (veh_facts nw s G v (HV v Hv)) as (ty & t & A1 & _ & _ & A2 & _ & _ & _ & A3 & _ & A4 & A5).
    exists ty, t. auto. }
  unfold usage_t in E0. rewrite E0. cbn [bind].
  match goal with |- exists s', bind (fold_left ?f ?l ?a) _ = _ /\ _ => change f with (imp_step2 nw s) end.
  destruct (fold2_total (s_usage s) (Z.of_nat (length changed)) RM changed N HV (s_tours s) u0 (s_costs s) 0)
    as (tours' & u' & costs' & E2 & KE & FR).
  - eapply cnt_le; [apply cnt_refl|exact L0].
  - lia.
  - intros x. reflexivity.
  - destruct (gi_costs _ _ G) as [NK EC]. destruct (gi_exact _ _ G) as [EXA _].
    pose proof (oc_sum_le changed (s_tours s) NK) as Q. fold (tsum (s_tours s)) in EC.
    destruct (rates_nn nw NX) as (_ & _ & _ & _ & R5 & _).
    assert (z_sum (map oc changed) <= tsum (s_tours s)); [|lia]. apply Q; [|exact N].
    intros k t Hin. apply (exact_costs_nn nw NF NX). apply (EXA k). apply in_vget; assumption.
  - unfold usage_t in E2. rewrite E2. cbn [bind]. pose proof (vpart nw s G) as VP.
    assert (VP' : VPart nw (s_vehicles s) tours' (s_ids s)) by (eapply V_same_keys; [exact VP|exact KE]).
    assert (ST : forall v ty ty', vget v (s_vehicles s) = Some ty -> vget v (s_vehicles s) = Some ty' -> ty = ty') by (intros; congruence).
    assert (NDf : NoDup (filter vid_is_real changed)) by (apply NoDup_filter; exact N).
    destruct (update_transitions_total nw s (s_vehicles s) tours' (s_ids s) VP VP' ST (s_trans s) (s_viol s) changed
                (tok nw s G) NDf) as ([tr vi] & UT).
    { intros v Hv _. left. apply HV. exact Hv. }
    rewrite UT. cbn [bind]. eexists. split; [reflexivity|]. cbn [with_fields s_vehicles s_ids s_tours s_trans].
    split; [reflexivity|]. split; [reflexivity|]. split; [exact VP'|].
    eapply (update_transitions_T nw s (s_vehicles s) tours' (s_ids s) VP VP' ST); [| | |exact NDf|apply (tok nw s G)|exact UT].
    + intros v _ Hn. split; [reflexivity|]. apply FR. exact Hn.
    + apply real_keys.
    + apply real_keys.
Qed.

(** ** improve_depot_and_recompute_transitions *)
Lemma sort_by_Z_in (l : list Z) x : In x (sort_by Z.leb l) <-> In x l.
Proof. apply sort_by_in. Qed.
Lemma dedup_z_in l x : In x (dedup_z l) -> In x l.
Proof.
  unfold dedup_z. intros H. apply sort_by_Z_in.
  induction (sort_by Z.leb l) as [|a r IH]; [destruct H|]. cbn [fold_right] in H.
  destruct (fold_right _ [] r) as [|y r'] eqn:E.
  - destruct H as [<-|[]]. left. reflexivity.
  - destruct (a =? y) eqn:Q.
    + right. apply IH. exact H.
    + destruct H as [<-|H]; [left; reflexivity|right; apply IH; exact H].
Qed.

(* improve_and_recompute succeeds as soon as its improve_depots step does (with the frame facts of that step) *)
Lemma improve_and_recompute_from_depots changed : NoDup changed -> (forall v, In v changed -> is_vehicle s v = true) ->
  (exists s', improve_depots nw s (Some changed) = Ok s' /\
    s_vehicles s' = s_vehicles s /\ s_ids s' = s_ids s /\
    VPart nw (s_vehicles s) (s_tours s') (s_ids s) /\
    TOK nw (s_trans s') (tfn nw (s_tours s')) (s_ids s)) ->
  exists s', improve_and_recompute nw s changed = Ok s'.
Proof.
  intros N HV HD. unfold improve_and_recompute.
  match goal with |- exists s', bind (fold_left ?f ?l ?a) _ = _ =>
    destruct (fold_total f (fun tys => forall ty, In ty tys -> In ty (type_ids nw)) l) with (s := @nil Z) as (tys & -> & Htys) end.
  { intros acc v Hv Q. cbn [bind]. destruct (veh_facts nw s G v (HV v Hv)) as (ty & t & Hty & Ity & _).
    unfold vehicle_type_of. rewrite Hty. cbn [ok_or_err bind]. eexists. split; [reflexivity|].
    intros ty' Hin. apply in_app_or in Hin. destruct Hin as [Hin|[<-|[]]]; [apply Q; exact Hin|exact Ity]. }
  { intros ty []. }
  cbn [bind]. destruct HD as (s1 & -> & EV & EI & VP1 & T1). cbn [bind].
  match goal with |- exists s', bind (fold_left ?f ?l ?a) _ = _ =>
    destruct (fold_total f (fun pos => forall ty, In ty pos -> In ty (type_ids nw)) l) with (s := @nil Z) as (pos & -> & Hpos) end.
  { intros acc ty Hty Q. cbn [bind]. destruct (T1 ty (Htys ty Hty)) as (tr & -> & _). cbn [unwrap_opt bind].
    eexists. split; [reflexivity|]. destruct (0 <? tr_viol tr); [|exact Q].
    intros ty' Hin. apply in_app_or in Hin. destruct Hin as [Hin|[<-|[]]]; [apply Q; exact Hin|apply Htys; exact Hty]. }
  { intros ty []. }
  cbn [bind]. unfold recompute_transitions_for.
  destruct (recompute_transitions_total nw (s_trans s1) (s_viol s1) (s_ids s1) (s_tours s1) (dedup_z pos)) as ([tr vi] & ->).
  - intros ty Hty. apply dedup_z_in in Hty. apply Hpos in Hty. rewrite EI.
    destruct (zget ty (s_ids s)) as [l|] eqn:E.
    + exists l. split; [reflexivity|]. intros v Hv Q. apply (v_same _ _ _ _ VP1) in Q.
      assert (In v (SchedListFacts.iter (s_ids s) ty)) by (unfold SchedListFacts.iter; rewrite E; exact Hv).
      apply (v_ids _ _ _ _ VP1) in H. congruence.
    + exfalso. rewrite <- (v_keys _ _ _ _ VP1) in Hty. apply in_map_iff in Hty. destruct Hty as ([k l] & <- & Hin).
      cbn [fst] in E. clear - E Hin. induction (s_ids s) as [|[k' l'] r IH]; [destruct Hin|].
      rewrite zget_cons in E. destruct (k =? k') eqn:Q; [discriminate|]. destruct Hin as [Hin|Hin]; [|auto].
      inversion Hin; subst. rewrite Z.eqb_refl in Q. discriminate.
  - intros ty Hty. apply dedup_z_in in Hty. apply Hpos in Hty. destruct (T1 ty Hty) as (tr & -> & _). discriminate.
  - cbn [bind]. eauto.
Qed.
Theorem improve_and_recompute_total changed : NoDup changed -> (forall v, In v changed -> is_vehicle s v = true) ->
  RoomN nw (Z.of_nat (length changed)) (s_usage s) ->
  exists s', improve_and_recompute nw s changed = Ok s'.
Proof.
  intros N HV RM. apply improve_and_recompute_from_depots; auto. apply improve_depots_total; auto.
Qed.
End I.

(** * add_path_to_vehicle_tour with a one-node path, and hitch-hiking *)
Section J.
Variable nw : network.
Hypothesis NF : net_fine nw.
Hypothesis NX : net_extra_b nw = true.
Hypothesis DF : dists_finite_b nw = true.
Hypothesis DH : dh_dists_finite_b nw = true.
Notation d0 := (SD 0).
Let WFb := WF nw NF.
Let DPb := DP nw NF.

Lemma coverable_nondepot n : In n (coverable_nodes nw) -> is_depot (nd nw n) = false.
Proof.
  unfold coverable_nodes, all_service_nodes. intros H. apply in_app_or in H. destruct H as [H|H].
  - apply filter_In in H. destruct H as [_ H]. destruct (nd nw n); cbn in *; congruence.
  - apply (proj1 (proj2 NF)) in H. destruct (nd nw n); cbn in *; congruence.
Qed.

Lemma single_valid_path n : is_depot (nd nw n) = false -> valid_path nw [n].
Proof.
  intros D. split; [discriminate|]. split; [intros a b []|]. cbn. unfold node_is_depot. rewrite D. reflexivity.
Qed.

Section S.
Variable s : schedule.
Hypothesis G : GoodI nw s.
Hypothesis GF : FormsOK nw s.

Lemma add_path_single_nc v n : is_vehicle s v = true -> is_depot (nd nw n) = false ->
  (exists r, add_path_to_vehicle_tour nw s v [n] = Ok r) \/ add_path_to_vehicle_tour nw s v [n] = Err.
Proof.
  intros IV Dn.
  destruct (veh_facts nw s G v IV) as (ty & t & Hv & Ity & Rv & Ht & Hto & ND & D & R & EX & Isp & Ide).
  unfold add_path_to_vehicle_tour.
  match goal with |- (exists r, (if ?c then _ else _) = _) \/ _ => destruct c; [right; reflexivity|] end.
  rewrite Dn. cbn [bind]. rewrite Hv. cbn [unwrap_opt bind].
  destruct (utf_tour_total nw NX s GF (s_forms s) (s_unserved s) None (Some (v, ty)) [n]) as [(fm1 & uns1 & -> & K1)| ->];
    [auto| |right; reflexivity]. cbn [bind]. rewrite Ht. cbn [unwrap_opt bind].
  pose proof R as (NE & C & _).
  destruct (insert_path_total nw NF NX t [n] NE (connected_chrono nw WFb DPb _ C) (single_valid_path n Dn) EX)
    as ([nt removed] & E). rewrite E. cbn [bind].
  destruct (insert_path_valid nw WFb DPb t [n] nt removed (RV_TV nw t D R) (single_valid_path n Dn) E) as (Dn' & TVn & _).
  assert (Rn : RV nw (t_nodes nt)) by (unfold TV in TVn; rewrite Dn', D in TVn; exact TVn).
  pose proof (insert_path_exact nw t [n] nt removed WFb DF EX E) as EXn.
  assert (U2 : (exists fu, (match removed with
                            | Some rp => update_train_formation nw s fm1 uns1 (Some v) None rp
                            | None => Ok (fm1, uns1) end) = Ok fu) \/
               (match removed with
                | Some rp => update_train_formation nw s fm1 uns1 (Some v) None rp
                | None => Ok (fm1, uns1) end) = Err).
  { destruct removed as [rp|]; [|left; eauto].
    destruct (utf_tour_total nw NX s GF fm1 uns1 (Some v) None rp K1) as [(fm2 & uns2 & -> & _)| ->]; [left; eauto|right; reflexivity]. }
  destruct U2 as [([fm2 uns2] & ->)| ->]; [|right; reflexivity]. cbn [bind].
  destruct (z_sub_cost_total (s_costs s + t_costs nt) (t_costs t)) as (c & -> & _).
  { pose proof (tour_cost_le nw NF NX s G v t Ht). pose proof (exact_costs_nn nw NF NX nt EXn). lia. }
  cbn [bind].
  assert (UD : exists u', update_depot_usage nw s (s_usage s) (s_vehicles s) (vset v nt (s_tours s)) v = Ok u').
  { unfold update_depot_usage. rewrite Hv, vget_vset, vid_eqb_refl.
    destruct (udu_nd_total nw s (s_usage s) v ty (Some nt)) as (u' & ->); [| |eauto].
    - intros t' Q. injection Q as <-. split; [apply RV_first|apply RV_last]; exact Rn.
    - intros _. exists t. repeat split; auto; [apply RV_first|apply RV_last]; exact R. }
  destruct UD as (u' & ->). cbn [bind].
  pose proof (vpart nw s G) as VP.
  destruct (update_transitions_total nw s (s_vehicles s) (vset v nt (s_tours s)) (s_ids s) VP
              (V_tours_vset_old nw _ _ _ v nt t VP Ht) (fun x a b H1 H2 => eq_trans (eq_sym (f_equal (fun o => match o with Some z => z | None => a end) H1)) (f_equal (fun o => match o with Some z => z | None => a end) H2))
              (s_trans s) (s_viol s) [v] (tok nw s G) (nodup_filter_one v))
    as ([tr vi] & ->).
  { intros x [<-|[]] _. left. exact IV. }
  cbn [bind]. left. eauto.
Qed.
Lemma usage_US : UsageOK nw s -> US nw s.
Proof.
  intros [K N S D]. constructor.
  - exact K.
  - exact N.
  - intros d ty x. change (sp_of (s_usage s) d ty) with (fst (usage_at s d ty)). rewrite S.
    unfold starts_at, stG. cbn [In]. tauto.
  - intros d ty x. change (de_of (s_usage s) d ty) with (snd (usage_at s d ty)). rewrite D.
    unfold ends_at, stG. cbn [In]. tauto.
Qed.

Lemma NoDup_same_len {A} (l1 l2 : list A) : NoDup l1 -> NoDup l2 -> (forall x, In x l1 <-> In x l2) -> length l1 = length l2.
Proof. intros N1 N2 H. apply Permutation_length. apply NoDup_Permutation; assumption. Qed.

Lemma add_path_single_post v n s1 c : is_depot (nd nw n) = false ->
  add_path_to_vehicle_tour nw s v [n] = Ok (s1, c) ->
  GoodI nw s1 /\ is_vehicle s1 v = true /\
  (forall d ty, spawned_same_type (s_usage s1) d ty = spawned_same_type (s_usage s) d ty).
Proof.
  intros Dn H. pose proof H as H0. unfold add_path_to_vehicle_tour in H.
  match type of H with (if ?b then _ else _) = _ => destruct b eqn:CK; [discriminate|] end.
  rewrite Dn in H. cbn [bind] in H.
  mon H. monp H. mon H. monp H. monp H. mon H. mon H. monp H. inversion H; subst s1 c; clear H.
  apply unwrap_opt_ok in E, E1. rename a into ty. rename a0 into t0. rename t into nt.
  assert (IV : is_vehicle s v = true) by (unfold is_vehicle; rewrite E; reflexivity).
  destruct (veh_facts nw s G v IV) as (ty' & t' & Hv & Ity & Rv & Ht & Hto & ND & D & R & EX & Isp & Ide).
  assert (ty' = ty) by congruence. assert (t' = t0) by congruence. subst ty' t'.
  destruct (insert_path_valid nw WFb DPb t0 [n] nt o (RV_TV nw t0 D R) (single_valid_path n Dn) E2) as (Dn' & TVn & IN & _).
  assert (Rn : RV nw (t_nodes nt)) by (unfold TV in TVn; rewrite Dn', D in TVn; exact TVn).
  assert (CKn : compatible_with_vehicle_type nw n ty = true).
  { unfold vehicle_type_of in CK. rewrite E in CK. cbn [ok_or_err forallb] in CK. apply negb_false_iff in CK.
    rewrite andb_true_r in CK. exact CK. }
  assert (FN : first_node nt = first_node t0).
  { pose proof (RV_first nw nt Rn) as S1. pose proof Rn as (NEn & _).
    assert (Hin : In (first_node nt) (t_nodes nt)).
    { unfold first_node, nth_node. apply nth_In. destruct (t_nodes nt); [congruence|cbn; lia]. }
    destruct (IN _ Hin) as [Hin0|[Qn|[]]].
    - pose proof R as (NE0 & C0 & _). unfold first_node at 2. unfold nth_node.
      destruct (t_nodes t0) as [|f rest] eqn:El; [congruence|]. cbn [nth].
      destruct Hin0 as [<-|Hr]; [reflexivity|]. pose proof (conn_tl_no_sdep nw rest f _ C0 Hr) as Q.
      unfold sdep in Q. rewrite S1 in Q. discriminate.
    - rewrite <- Qn in S1. unfold is_depot in Dn. rewrite S1 in Dn. discriminate. }
  set (s1 := with_fields (s_vehicles s) (vset v nt (s_tours s)) l1 l0 a2 (s_dummies s) (s_counter s) (s_ids s)
                (s_dummy_ids s) p0 z a1) in *.
  assert (KT : keys (s_tours s1) = keys (s_tours s)).
  { unfold keys, s1. cbn [with_fields s_tours]. apply (keys_vset_old v nt _ t0 Ht). }
  assert (GL : ListingOK nw s1).
  { destruct (gi_listing _ _ G) as [L1 L2 L3 L4 L5 L6 L7 L8 L9 L10 L11].
    constructor; try rewrite KT; auto. }
  assert (GT : ToursOK nw s1).
  { constructor.
    - intros x tx Hx. unfold s1 in Hx. cbn [with_fields s_tours] in Hx. rewrite vget_vset in Hx.
      destruct (vid_eqb x v) eqn:Q.
      + apply vid_eqb_eq in Q. subst x. injection Hx as <-. exists ty. split; [exact Hv|].
        unfold real_tour_ok. rewrite Rv, Dn', D. cbn [negb andb]. rewrite (proj2 (valid_tour_nodes_RV nw _) Rn). cbn [andb].
        apply forallb_forall. intros m Hm. destruct (IN m Hm) as [Hm0|[<-|[]]]; [|exact CKn].
        destruct (real_tour_facts nw s G v ty t0 Hv Ht) as (_ & _ & CP). rewrite forallb_forall in CP. apply CP. exact Hm0.
      + apply (to_real _ _ (gi_tours _ _ G) x tx Hx).
    - apply (to_dummy _ _ (gi_tours _ _ G)). }
  assert (GE : ToursExact nw s1).
  { apply EIs_ToursExact. apply (add_path_E nw WFb DF s v [n] s1 o); [apply EIs_ToursExact; exact (gi_exact _ _ G)|exact H0]. }
  assert (GU : UsageOK nw s1).
  { apply US_usage. apply (add_path_us nw s v [n] s1 o); [apply usage_US; exact (gi_usage _ _ G)|exact H0]. }
  pose proof (vpart nw s G) as VP.
  assert (VP' : VPart nw (s_vehicles s) (vset v nt (s_tours s)) (s_ids s)) by (eapply V_tours_vset_old; eauto).
  assert (GTr : TransOK nw s1).
  { apply TransOK_TOK. unfold s1. cbn [with_fields s_trans s_tours s_ids].
    eapply (update_transitions_T nw s (s_vehicles s) (vset v nt (s_tours s)) (s_ids s) VP VP');
      [| | | |apply nodup_filter_one|apply (tok nw s G)|exact E6].
    - intros; congruence.
    - intros x _ Hx. split; [reflexivity|]. rewrite vget_vset. destruct (vid_eqb x v) eqn:Q; [|reflexivity].
      apply vid_eqb_eq in Q. subst. exfalso. apply Hx. left. reflexivity.
    - apply (real_keys nw s G).
    - apply (real_keys nw s G). }
  assert (GC : CostsOK nw s1).
  { destruct (gi_costs _ _ G) as [NK EC]. split.
    - change (map fst (s_tours s1)) with (keys (s_tours s1)). rewrite KT. exact NK.
    - unfold s1. cbn [with_fields s_costs s_tours]. apply z_sub_cost_ok in E4. fold (tsum (vset v nt (s_tours s))).
      rewrite (tsum_vset_old v nt _ t0 NK Ht). fold (tsum (s_tours s)) in EC. lia. }
  split; [constructor; assumption|]. split.
  { unfold is_vehicle, s1. cbn [with_fields s_vehicles]. rewrite Hv. reflexivity. }
  intros d ty'. rewrite !(nsp_len). f_equal.
  apply NoDup_same_len.
  - apply (uo_nodup _ _ GU d ty').
  - apply (uo_nodup _ _ (gi_usage _ _ G) d ty').
  - intros x. change (sp_of (s_usage s1) d ty') with (fst (usage_at s1 d ty')).
    change (sp_of (s_usage s) d ty') with (fst (usage_at s d ty')).
    rewrite (uo_spawned _ _ GU), (uo_spawned _ _ (gi_usage _ _ G)). unfold starts_at, s1.
    cbn [with_fields s_vehicles s_tours]. split; intros (tx & A1 & A2 & A3).
    + rewrite vget_vset in A2. destruct (vid_eqb x v) eqn:Q; [|eauto].
      apply vid_eqb_eq in Q. subst x. injection A2 as <-. exists t0. rewrite <- FN. auto.
    + destruct (vid_eqb x v) eqn:Q.
      * apply vid_eqb_eq in Q. subst x. exists nt. rewrite vget_vset, vid_eqb_refl. rewrite FN.
        assert (tx = t0) by congruence. subst. auto.
      * exists tx. rewrite vget_vset, Q. auto.
Qed.

Theorem hitch_nc v n ty : SpawnRoom nw s -> vget v (s_vehicles s) = Some ty -> In ty (type_ids nw) ->
  In n (service_nodes nw ty) -> no_crash (add_trip_for_hitch_hiking nw s n v).
Proof.
  intros SR Hv Ity Hn.
  assert (Cn : In n (coverable_nodes nw)).
  { destruct (NX_parts nw NX) as (_ & _ & _ & H). unfold nodes_coverable_b in H. apply andb_true_iff in H.
    destruct H as [_ H]. rewrite forallb_forall in H. specialize (H ty Ity). rewrite forallb_forall in H.
    apply mem_nid_in. apply H. exact Hn. }
  pose proof (coverable_nondepot n Cn) as Dn.
  assert (IV : is_vehicle s v = true) by (unfold is_vehicle; rewrite Hv; reflexivity).
  unfold add_trip_for_hitch_hiking.
  destruct (nget n (s_forms s)) as [f|] eqn:Ef.
  2:{ exfalso. apply (in_keys_nget n (s_forms s)); [|exact Ef]. apply (fo_keys _ _ GF). exact Cn. }
  cbn [unwrap_opt bind].
  match goal with |- no_crash (if ?c then _ else _) => destruct c; [apply no_crash_err|] end.
  destruct (add_path_single_nc v n IV Dn) as [([s1 c] & E)|E]; rewrite E; cbn [bind]; [|apply no_crash_err].
  destruct c as [rp|]; [apply no_crash_err|].
  destruct (add_path_single_post v n s1 None Dn E) as (G1 & IV1 & CN).
  destruct (improve_and_recompute_total nw NF NX s1 G1 [v]) as (s' & ->).
  - constructor; [intros []|constructor].
  - intros x [<-|[]]. exact IV1.
  - cbn [length]. apply (RoomN_ext nw 1 (s_usage s)); [exact CN|]. apply spawnroom_roomn. exact SR.
  - eapply no_crash_ok. reflexivity.
Qed.
End S.
End J.

(** * which hitch-hiking candidates are enumerated *)
Lemma fold_strict_gen {S V} (f : res S -> V -> res S) : (forall r v x, f r v = Ok x -> exists y, r = Ok y) ->
  forall l r x, fold_left f l r = Ok x -> exists y, r = Ok y.
Proof.
  intros Hf l. induction l as [|v l IH]; intros r x H; cbn [fold_left] in H; [eauto|].
  apply IH in H. destruct H as (y & H). eapply Hf. exact H.
Qed.
Lemma fold_ok_inv {S V} (f : res S -> V -> res S) (Q : S -> Prop) : (forall r v x, f r v = Ok x -> exists y, r = Ok y) ->
  forall l, (forall s v s', In v l -> Q s -> f (Ok s) v = Ok s' -> Q s') ->
  forall s s', Q s -> fold_left f l (Ok s) = Ok s' -> Q s'.
Proof.
  intros Hf l. induction l as [|v l IH]; intros H s s' Qs E; cbn [fold_left] in E; [inversion E; subst; exact Qs|].
  destruct (fold_strict_gen f Hf l _ _ E) as (s1 & E1). rewrite E1 in E.
  apply (IH (fun s0 v0 s0' Hin => H s0 v0 s0' (or_intror Hin)) s1 s'); [|exact E].
  eapply H; [left; reflexivity|exact Qs|exact E1].
Qed.

Lemma candidates_hitch nw s cs n v : candidates nw s = Ok cs -> In (CHitch n v) cs ->
  In v (vehicles_iter_all nw s) /\ exists ty, vget v (s_vehicles s) = Some ty /\ In n (service_nodes nw ty).
Proof.
  intros H Hin. unfold candidates in H. mon H. mon H. mon H. inversion H; subst cs; clear H.
  apply in_app_or in Hin. destruct Hin as [Hin|Hin].
  { exfalso. apply in_flat_map in Hin. destruct Hin as (m & _ & Hin). apply in_map_iff in Hin.
    destruct Hin as (x & Q & _). discriminate. }
  apply in_app_or in Hin. destruct Hin as [Hin|Hin].
  { exfalso. revert Hin.
    match type of E with fold_left ?f ?ll _ = _ =>
      apply (fold_ok_inv f (fun acc => ~ In (CHitch n v) acc)) with (l := ll) (s := @nil cand) (s' := a) end; auto.
    - intros r p x Hx. destruct r; cbn [bind] in Hx; try discriminate; eauto.
    - intros acc p acc' _ Q Hx. cbn [bind] in Hx. mon Hx. inversion Hx; subst. intros Hin. apply in_app_or in Hin.
      destruct Hin as [Hin|Hin]; [contradiction|]. apply in_flat_map in Hin. destruct Hin as (sg & _ & Hin).
      apply in_map_iff in Hin. destruct Hin as (r & Q' & _). discriminate. }
  apply in_app_or in Hin. destruct Hin as [Hin|Hin].
  - revert Hin.
    match type of E0 with fold_left ?f ?ll _ = _ =>
      apply (fold_ok_inv f (fun acc => In (CHitch n v) acc ->
               In v (vehicles_iter_all nw s) /\ exists ty, vget v (s_vehicles s) = Some ty /\ In n (service_nodes nw ty)))
        with (l := ll) (s := @nil cand) (s' := a0) end; auto.
    + intros r p x Hx. destruct r; cbn [bind] in Hx; try discriminate; eauto.
    + intros acc p acc' Hp Q Hx. cbn [bind] in Hx. mon Hx. inversion Hx; subst. intros Hin. apply in_app_or in Hin.
      destruct Hin as [Hin|Hin]; [auto|]. apply in_map_iff in Hin. destruct Hin as (m & Q' & Hm). injection Q' as -> ->.
      split; [exact Hp|]. exists a2. split; [|exact Hm].
      unfold vehicle_type_of in E2. destruct (vget v (s_vehicles s)); cbn in E2; inversion E2; reflexivity.
    + intros [].
  - exfalso. revert Hin.
    match type of E1 with fold_left ?f ?ll _ = _ =>
      apply (fold_ok_inv f (fun acc => ~ In (CHitch n v) acc)) with (l := ll) (s := @nil cand) (s' := a1) end; auto.
    + intros r p x Hx. destruct r; cbn [bind] in Hx; try discriminate; eauto.
    + intros acc p acc' _ Q Hx. cbn [bind] in Hx. mon Hx. inversion Hx; subst. intros Hin. apply in_app_or in Hin.
      destruct Hin as [Hin|Hin]; [contradiction|]. apply in_map_iff in Hin. destruct Hin as (m & Q' & _). discriminate.
Qed.

(** * the statements of NoPanicStmts.v *)
Section Final.
Variable nw : network.
Hypothesis NF : net_fine nw.
Hypothesis NX : net_extra_b nw = true.

Lemma Good_forms s : Good nw s -> FormsOK nw s.
Proof. intros G. exact (g_forms _ _ G). Qed.

(* A2, general form: the vehicles to re-home must all fit into one depot on top of what is there *)
Theorem improve_and_recompute_total_under_room s changed :
  Good nw s -> RoomN nw (Z.of_nat (length changed)) (s_usage s) -> NoDup changed ->
  (forall v, In v changed -> is_vehicle s v = true) -> exists s', improve_and_recompute nw s changed = Ok s'.
Proof. intros G R N H. apply (improve_and_recompute_total nw NF NX s (Good_I nw s G) changed N H R). Qed.

(* A2 as stated (SpawnRoom), for at most one vehicle *)
Theorem improve_and_recompute_no_crash_under_single s changed :
  Good nw s -> SpawnRoom nw s -> NoDup changed -> (forall v, In v changed -> is_vehicle s v = true) ->
  (length changed <= 1)%nat -> exists s', improve_and_recompute nw s changed = Ok s'.
Proof.
  intros G SR N H L. apply improve_and_recompute_total_under_room; auto.
  apply (RoomN_mono nw 1); [lia|]. apply spawnroom_roomn. exact SR.
Qed.

Hypothesis DF : dists_finite_b nw = true.
Hypothesis DH : dh_dists_finite_b nw = true.

(* shared with the other swaps: remove_segment never crashes, for every segment and vehicle *)
Theorem remove_segment_no_crash s seg v : Good nw s -> no_crash (remove_segment nw s seg v).
Proof. intros G. apply (remove_segment_nc nw NF NX DF DH s (Good_I nw s G) (Good_forms s G)). Qed.

Theorem add_path_single_no_crash s v n : Good nw s -> is_vehicle s v = true -> In n (coverable_nodes nw) ->
  no_crash (add_path_to_vehicle_tour nw s v [n]).
Proof.
  intros G IV Cn. apply no_crash_of_cases.
  apply (add_path_single_nc nw NF NX DF s (Good_I nw s G) (Good_forms s G) v n IV (coverable_nondepot nw NF n Cn)).
Qed.

Theorem apply_cand_remove_no_crash s n v : Good nw s -> no_crash (apply_cand nw s (CRemove n v)).
Proof. intros G. cbn [apply_cand]. unfold remove_single_node. apply remove_segment_no_crash. exact G. Qed.

Theorem apply_cand_hitch_no_crash s cs n v : Good nw s -> SpawnRoom nw s -> candidates nw s = Ok cs -> In (CHitch n v) cs ->
  no_crash (apply_cand nw s (CHitch n v)).
Proof.
  intros G SR E Hin. cbn [apply_cand]. destruct (candidates_hitch nw s cs n v E Hin) as (_ & ty & Hv & Hn).
  apply (hitch_nc nw NF NX DF s (Good_I nw s G) (Good_forms s G) v n ty SR Hv); [|exact Hn].
  eapply veh_type_in; [apply Good_I; exact G|exact Hv].
Qed.
End Final.

(* A3 for the two simple candidates, in the shape of [stmt_apply_cand_no_crash] *)
Theorem apply_cand_simple_no_crash_under_extra : forall nw,
  net_fine nw -> net_extra_b nw = true -> dists_finite_b nw = true -> dh_dists_finite_b nw = true ->
  forall s cs c, Good nw s -> SpawnRoom nw s -> candidates nw s = Ok cs -> In c cs ->
    (match c with CRemove _ _ | CHitch _ _ => True | _ => False end) -> no_crash (apply_cand nw s c).
Proof.
  intros nw NF NX DF DH s cs c G SR E Hin Hc. destruct c as [m v|seg p r|n v|n v]; try contradiction.
  - eapply apply_cand_hitch_no_crash; eauto.
  - apply apply_cand_remove_no_crash; auto.
Qed.

(* A2 in the shape of [stmt_improve_and_recompute_no_crash] *)
Theorem improve_and_recompute_no_crash_under_room : forall nw,
  net_fine nw -> net_extra_b nw = true ->
  forall s changed, Good nw s -> RoomN nw (Z.of_nat (length changed)) (s_usage s) -> NoDup changed ->
    (forall v, In v changed -> is_vehicle s v = true) -> no_crash (improve_and_recompute nw s changed).
Proof.
  intros nw NF NX s changed G R N H. destruct (improve_and_recompute_total_under_room nw NF NX s changed G R N H) as (s' & E).
  eapply no_crash_ok. exact E.
Qed.
Theorem improve_and_recompute_no_crash_under_extra_single : forall nw,
  net_fine nw -> net_extra_b nw = true ->
  forall s changed, Good nw s -> SpawnRoom nw s -> NoDup changed ->
    (forall v, In v changed -> is_vehicle s v = true) -> (length changed <= 1)%nat ->
    no_crash (improve_and_recompute nw s changed).
Proof.
  intros nw NF NX s changed G R N H L.
  destruct (improve_and_recompute_no_crash_under_single nw NF NX s changed G R N H L) as (s' & E).
  eapply no_crash_ok. exact E.
Qed.

(** * [net_extra_b] holds of every network loaded from a valid instance with non-negative cost rates *)
Definition params_costs_nonneg (p : params) : Prop :=
  0 <= c_staff p /\ 0 <= c_service p /\ 0 <= c_maint p /\ 0 <= c_dh p /\ 0 <= c_idle p.

Lemma planning_of_nn e l p : planning_of e l = Ok p -> 0 <= dur_sec_or p 0.
Proof.
  unfold planning_of. destruct (dt_diff l e) as [d| | |] eqn:E; cbn [bind]; try discriminate.
  destruct d as [z|]; [|discriminate]. intros H. inversion H; subst. cbn [dur_sec_or].
  destruct (dt_diff_nn _ _ _ E) as [Q|(z' & Q & Hz)]; [discriminate|]. inversion Q; subst z'.
  unfold div_ceil. apply Z.mul_nonneg_nonneg; [apply Z.div_pos; lia|lia].
Qed.

Lemma trip_records_dist_nn i : valid_instance_b i = true -> forall s, In s (trip_records i) ->
  dist_nonneg_b (st_dist s) = true.
Proof.
  intros V s H. destruct (valid_parts i V) as (_ & V2 & _).
  unfold trip_records in H. apply in_flat_map in H. destruct H as (d & Hd & H).
  apply in_flat_map in H. destruct H as (sg & Hs & H).
  destruct (lookup_rseg i d sg) as [[r g]|] eqn:E; [|destruct H].
  destruct H as [<-|[]]. apply lookup_in in E. destruct E as [E1 E2].
  apply V2 in E1. destruct E1 as [T E1]. apply E1 in E2. cbn. apply Z.leb_le. lia.
Qed.

Lemma capped_dh_nn i p0 : valid_instance_b i = true ->
  forallb (fun row => forallb (fun '(d, _) => dist_nonneg_b d) row) (capped_dh i p0) = true.
Proof.
  intros V. unfold valid_instance_b in V. cbv beta zeta in V. rewrite !andb_true_iff in V.
  destruct V as [[[[_ V10] _] _] _].
  unfold capped_dh. apply forallb_forall. intros row Hr. apply in_map_iff in Hr. destruct Hr as ([drow trow] & <- & Hin).
  apply in_combine_l in Hin. rewrite forallb_forall in V10. specialize (V10 _ Hin). apply andb_true_iff in V10.
  destruct V10 as [_ V10]. rewrite forallb_forall in V10.
  apply forallb_forall. intros [d t] Hd. apply in_map_iff in Hd. destruct Hd as ([dm ts] & Q & Hin2). inversion Q; subst.
  apply in_combine_l in Hin2. specialize (V10 _ Hin2). cbn. apply Z.leb_le in V10. apply Z.leb_le.
  destruct (MAX_DISTANCE <? dm); [unfold MAX_DISTANCE; lia|lia].
Qed.

Theorem load_extra : forall i perm nw, valid_instance_b i = true -> params_costs_nonneg (i_params i) ->
  load i perm = Ok nw -> net_extra_b nw = true.
Proof.
  intros i perm nw V (PC1 & PC2 & PC3 & PC4 & PC5) H. rewrite load_eq in H.
  destruct (time_span_ok i V) as (p & E1 & P1). rewrite E1 in H. destruct p as [e0 l0]. cbn [bind] in H.
  destruct (planning_pt _ P1) as (n0 & E2 & Hn0). cbn [fst snd] in E2. rewrite E2 in H. cbn [bind] in H.
  destruct (all_trips_ok i V) as (trips & E3). rewrite E3 in H. cbn [bind] in H.
  pose proof (all_trips_records i trips E3) as R.
  destruct (planning_of (fst (Lspan i perm trips)) (snd (Lspan i perm trips))) as [p1| | |] eqn:E4; cbn [bind] in H; try discriminate.
  inversion H; subst nw; clear H.
  unfold net_extra_b. rewrite !andb_true_iff. split; [split; [split|]|].
  - unfold costs_nonneg_b. cbn [nw_params Lnet nw_nservice]. rewrite !andb_true_iff, !Z.leb_le.
    repeat split; try assumption.
    + apply Z.mul_nonneg_nonneg; [unfold Lnservice; lia|exact PC1].
    + unfold planning_sec. cbn [nw_planning Lnet]. eapply planning_of_nn. exact E4.
  - unfold dists_nonneg_b. cbn [nw_nodes nw_dh Lnet]. apply andb_true_iff. split; [|apply capped_dh_nn; exact V].
    apply forallb_forall. intros [id n] Hin. unfold Lnodes in Hin. rewrite !in_app_iff in Hin. destruct Hin as [Hin|[Hin|Hin]].
    + apply Ldentries_in in Hin. destruct Hin as (d & [Q|Q]); cbn [snd] in Q; subst n; reflexivity.
    + apply Lsvc_entries_in in Hin. destruct Hin as (sv & -> & Hs). apply Ltbt_in in Hs. rewrite R in Hs.
      cbn [n_travel_dist]. apply (trip_records_dist_nn i V). exact Hs.
    + apply Lm_entries_in in Hin. destruct Hin as (sl & -> & _). reflexivity.
  - unfold depots_listed_b. cbn [nw_sdepots nw_edepots Lnet]. rewrite !andb_true_iff. split; [split|].
    + apply forallb_forall. intros d Hd. unfold Lsrt in Hd. apply sort_by_in in Hd.
      unfold Lsdeps in Hd. apply in_map_iff in Hd. destruct Hd as ([[dp sd] en] & <- & Hin).
      rewrite (Lnd i perm trips (Len n0) sd (NStart {| dn_depot := dp_idx dp; dn_loc := dp_loc dp |}) p1); [reflexivity|].
      unfold Lnodes. apply in_or_app. left. unfold Ldentries. apply in_flat_map. exists (dp, sd, en). split; [exact Hin|].
      left. reflexivity.
    + apply forallb_forall. intros d Hd. unfold Lsrt in Hd. apply sort_by_in in Hd.
      unfold Ledeps in Hd. apply in_map_iff in Hd. destruct Hd as ([[dp sd] en] & <- & Hin).
      rewrite (Lnd i perm trips (Len n0) en (NEnd {| dn_depot := dp_idx dp; dn_loc := dp_loc dp |}) p1); [reflexivity|].
      unfold Lnodes. apply in_or_app. left. unfold Ldentries. apply in_flat_map. exists (dp, sd, en). split; [exact Hin|].
      right. left. reflexivity.
    + unfold Lsrt. rewrite sort_by_length, Ledeps_eq, map_length, seq_length. unfold Ldepots. rewrite app_length. cbn [length].
      destruct (length (Ldepots0 i perm trips) + 1)%nat eqn:Q; [lia|reflexivity].
  - unfold nodes_coverable_b. apply andb_true_iff. split.
    + cbn [nw_nodes Lnet]. apply forallb_forall. intros [id n] Hin. unfold Lnodes in Hin. rewrite !in_app_iff in Hin.
      destruct Hin as [Hin|[Hin|Hin]].
      * apply Ldentries_in in Hin. destruct Hin as (d & [Q|Q]); cbn [snd] in Q; subst n; reflexivity.
      * rewrite orb_true_iff. right. apply mem_nid_in. unfold coverable_nodes. apply in_or_app. left.
        apply (Permutation_in _ (Permutation_sym (Lall_service i perm trips (Len n0) p1))).
        unfold Lsvc_entries in Hin. apply in_combine_l in Hin. exact Hin.
      * rewrite orb_true_iff. right. apply mem_nid_in. unfold coverable_nodes. apply in_or_app. right.
        cbn [nw_maint Lnet]. unfold Lsrt. apply sort_by_in. unfold Lm_entries in Hin. apply in_combine_l in Hin. exact Hin.
    + apply forallb_forall. intros ty Hty. apply forallb_forall. intros n Hn.
      change (type_ids (Lnet i perm trips (Len n0) p1)) with (tids i) in Hty.
      rewrite (Lservice_nodes i perm trips (Len n0) p1 ty Hty) in Hn. unfold Lsrt in Hn. apply sort_by_in in Hn.
      apply Lsvc_list_in in Hn. apply mem_nid_in. unfold coverable_nodes. apply in_or_app. left.
      apply (Permutation_in _ (Permutation_sym (Lall_service i perm trips (Len n0) p1))). exact Hn.
Qed.

(** * The statements of A2 / A3 as written are false of arbitrary network records: [net_fine] does not say that
     the depot listings hold depots. Witness: the loaded network nwC with its end-depot listing emptied (and the end
     depots taken out of the per-type maps, so that [net_ok_b] still holds): improve_depots_of_tour turns the [Err] of
     find_best_end_depot ("no end depot") into a panic. This is an artefact of quantifying over network records, not a
     defect of the code: [load] always lists the overflow depot ([load_extra]). *)
Definition drop_ed (l : sorted_nodes) : sorted_nodes :=
  filter (fun k => match snd k with ED _ => false | _ => true end) l.
Definition nwBad : network := Eval vm_compute in
  {| nw_nodes := nw_nodes nwC; nw_depots := nw_depots nwC; nw_overflow := nw_overflow nwC; nw_service := nw_service nwC;
     nw_maint := nw_maint nwC; nw_sdepots := nw_sdepots nwC; nw_edepots := [];
     nw_all_by_start := nw_all_by_start nwC;
     nw_type_by_start := map (fun '(t, l) => (t, drop_ed l)) (nw_type_by_start nwC);
     nw_type_by_end := map (fun '(t, l) => (t, drop_ed l)) (nw_type_by_end nwC);
     nw_params := nw_params nwC; nw_nlocs := nw_nlocs nwC; nw_dh := nw_dh nwC; nw_types := nw_types nwC;
     nw_nservice := nw_nservice nwC; nw_planning := nw_planning nwC |}.
Definition sB0 : schedule := Eval vm_compute in get_ok (empty_schedule nwBad) s_dflt.
Definition sB1 : schedule := Eval vm_compute in
  match spawn_vehicle_for_path nwBad sB0 0 [SD 0; SV 4; ED 1] with Ok (s, _) => s | _ => s_dflt end.
Definition csB : list cand := Eval vm_compute in get_ok (candidates nwBad sB1) [].

Lemma nwBad_flags : net_ok_b nwBad = true /\ dists_finite_b nwBad = true /\ dh_dists_finite_b nwBad = true /\
  net_extra_b nwBad = false /\ depots_listed_b nwBad = false.
Proof. vm_compute. auto. Qed.
Lemma nwBad_nodup : NoDup (coverable_nodes nwBad).
Proof.
  assert (E : coverable_nodes nwBad = [SV 4; SV 5; SV 6; SV 7; MT 8]) by (vm_compute; reflexivity). rewrite E.
  repeat (constructor; [cbn [In]; intros Q; repeat (destruct Q as [Q|Q]; [discriminate Q|]); exact Q|]). constructor.
Qed.
Lemma nwBad_maint : forall m, In m (nw_maint nwBad) -> is_maint (nd nwBad m) = true.
Proof. intros m Hm. vm_compute in Hm. destruct Hm as [<-|[]]. vm_compute. reflexivity. Qed.
Lemma nwBad_fine : net_fine nwBad.
Proof. split; [apply nwBad_flags|]. split; [exact nwBad_maint|exact nwBad_nodup]. Qed.
Lemma sB0_ok : empty_schedule nwBad = Ok sB0.
Proof. vm_compute. reflexivity. Qed.
Lemma sB1_ok : spawn_vehicle_for_path nwBad sB0 0 [SD 0; SV 4; ED 1] = Ok (sB1, Veh 0).
Proof. vm_compute. reflexivity. Qed.
Lemma sB1_wreachable : wreachable nwBad sB1.
Proof.
  eapply wr_step; [apply wr_empty; exact sB0_ok|]. eapply ws_spawn; [|exact sB1_ok].
  split; [discriminate|]. split; [|vm_compute; reflexivity].
  intros a b Hin. cbn in Hin. destruct Hin as [E|[E|[]]]; inversion E; subst; vm_compute; reflexivity.
Qed.
Lemma sB1_good : Good nwBad sB1.
Proof.
  pose proof sB1_wreachable as W. pose proof (wreachable_vreachable _ _ W) as WV.
  pose proof (wreachable_dreachable _ _ W) as WD. pose proof (wreachable_reachable _ _ W) as WR.
  destruct nwBad_flags as (OK & DF & DH & _).
  assert (MS : forall n, In n (nw_maint nwBad) -> is_service (nd nwBad n) = false).
  { intros n Hn. apply nwBad_maint in Hn. destruct (nd nwBad n); try discriminate; reflexivity. }
  constructor.
  - apply (vreachable_tours nwBad OK sB1 WV).
  - apply reachable_listing_under_distinct. exact WD.
  - apply (vreachable_forms_under_maint_listed nwBad OK nwBad_nodup nwBad_maint sB1 WV).
  - apply (reachable_form_limits nwBad sB1 WR).
  - apply (reachable_usage nwBad sB1 WR).
  - apply reachable_trans_under_distinct. exact WD.
  - apply (vreachable_tours_exact nwBad OK DF DH sB1 WV).
  - apply (reachable_costs nwBad sB1 WR).
  - apply (reachable_unserved nwBad nwBad_nodup MS sB1 WR).
  - apply (reachable_viol nwBad sB1 WR).
Qed.
Lemma sB1_room : SpawnRoom nwBad sB1.
Proof.
  intros ty first Hty. unfold find_best_start_depot.
  match goal with |- context [find ?f ?l] => destruct (find f l) as [d|] eqn:E end; [exists d; reflexivity|].
  exfalso. pose proof (find_none _ _ E (SD 0)) as Q. unfold start_depots_sorted_by_distance_to in Q.
  rewrite sort_by_in in Q. vm_compute in Hty. destruct Hty as [<-|[]].
  assert (C : can_depot_spawn nwBad (s_usage sB1) (SD 0) 0 = true) by (vm_compute; reflexivity).
  rewrite Q in C; [discriminate|]. vm_compute. auto.
Qed.

Theorem improve_and_recompute_no_crash_refuted_nwBad : ~ stmt_improve_and_recompute_no_crash nwBad.
Proof.
  intros H. destruct (H nwBad_fine sB1 [Veh 0] sB1_good sB1_room) as [P _].
  - constructor; [intros []|constructor].
  - intros v [<-|[]]. vm_compute. reflexivity.
  - apply P. vm_compute. reflexivity.
Qed.
Theorem improve_and_recompute_no_crash_refuted : ~ (forall nw, stmt_improve_and_recompute_no_crash nw).
Proof. intros H. exact (improve_and_recompute_no_crash_refuted_nwBad (H nwBad)). Qed.

Theorem apply_cand_no_crash_refuted_nwBad : ~ stmt_apply_cand_no_crash nwBad.
Proof.
  intros H. destruct nwBad_flags as (_ & DF & DH & _).
  destruct (H nwBad_fine DF DH sB1 csB (CHitch (SV 5) (Veh 0)) sB1_good sB1_room) as [P _].
  - vm_compute. reflexivity.
  - vm_compute. tauto.
  - apply P. vm_compute. reflexivity.
Qed.
Theorem apply_cand_no_crash_refuted : ~ (forall nw, stmt_apply_cand_no_crash nw).
Proof. intros H. exact (apply_cand_no_crash_refuted_nwBad (H nwBad)). Qed.

Theorem candidates_no_crash : forall nw, stmt_candidates_no_crash nw.
Proof.
  intros nw NF s G. destruct (candidates_total nw NF s G) as (cs & E). eapply no_crash_ok. exact E.
Qed.
Print Assumptions candidates_no_crash.
Print Assumptions remove_segment_no_crash.
Print Assumptions add_path_single_no_crash.
Print Assumptions apply_cand_simple_no_crash_under_extra.
Print Assumptions improve_and_recompute_no_crash_under_room.
Print Assumptions improve_and_recompute_no_crash_under_extra_single.
Print Assumptions improve_and_recompute_total.
Print Assumptions load_extra.
Print Assumptions improve_and_recompute_no_crash_refuted.
Print Assumptions apply_cand_no_crash_refuted.
